/-
  Helper lemmas for property C06 (kill ring): the well-formedness invariant of `KillRing` and its
  preservation by every ring operation, the exact results of `kill` / `yank` / `yankPop` under the
  invariant, and the abstract "directional kill run" used by `C06_accumulate`.
-/
import Rl.KillRing
import Rl.LineBuffer
namespace Rl
namespace KillRing

/-- The invariant of the ring: slots within capacity; the index addresses a slot when the ring is
    non-empty and is 0 while it is empty; `lastAction = kill` only with a non-empty ring
    (when `cap > 0`). -/
structure WF (k : KillRing) : Prop where
  len_le : k.slots.length ≤ k.cap
  idx_lt : k.slots ≠ [] → k.index < k.slots.length
  idx_zero : k.slots = [] → k.index = 0
  kill_ne : k.lastAction = .kill → 0 < k.cap → k.slots ≠ []
  /-- the slot yank reads (D33 repair: the yank-pop position is kept apart from `index`) -/
  yidx_lt : k.slots ≠ [] → k.yankIndex < k.slots.length
  /-- a kill ends the rotation of yank-pop: during a kill sequence yank reads the slot being written -/
  kill_yidx : k.lastAction = .kill → 0 < k.cap → k.yankIndex = k.index

theorem wf_new (n : Nat) : WF (new n) :=
  ⟨by simp [new], by simp [new], by simp [new], by simp [new], by simp [new], by simp [new]⟩

theorem wf_reset {k : KillRing} (h : WF k) : WF k.reset :=
  ⟨h.len_le, h.idx_lt, h.idx_zero, by simp [reset], h.yidx_lt, by simp [reset]⟩

theorem wf_startKilling {k : KillRing} (h : WF k) : WF k.startKilling :=
  ⟨h.len_le, h.idx_lt, h.idx_zero, h.kill_ne, h.yidx_lt, h.kill_yidx⟩

theorem wf_stopKilling {k : KillRing} (h : WF k) : WF k.stopKilling :=
  ⟨h.len_le, h.idx_lt, h.idx_zero, h.kill_ne, h.yidx_lt, h.kill_yidx⟩

/-- the slot index a fresh kill goes to (`kill` from a non-kill last action) -/
def nextIdx (k : KillRing) : Nat :=
  if k.index == k.cap - 1 then 0 else if !k.slots.isEmpty then k.index + 1 else k.index

theorem nextIdx_le {k : KillRing} (h : WF k) (hc : 0 < k.cap) :
    nextIdx k ≤ k.slots.length ∧ (nextIdx k = k.slots.length → k.slots.length < k.cap) := by
  unfold nextIdx
  by_cases he : k.slots = []
  · have h0 := h.idx_zero he
    simp [he, h0]; exact hc
  · have hl := h.idx_lt he
    have hlen := h.len_le
    have hne : k.slots.isEmpty = false := by simpa using he
    simp only [hne, Bool.not_false, if_true]
    split
    · rename_i h1
      have h1 : k.index = k.cap - 1 := by simpa using h1
      constructor
      · omega
      · intro h2; omega
    · rename_i h1
      have h1 : ¬ k.index = k.cap - 1 := by simpa using h1
      constructor
      · omega
      · intro h2; omega

/-- what a continued kill stores in the current slot -/
def mergeSlot (dir : KMode) (s text : Text) : Text :=
  match dir with | .append => s ++ text | .prepend => text ++ s

/-- `kill` continuing a kill (`lastAction = kill`): appends or prepends to the current slot -/
theorem kill_cont {k : KillRing} (h : WF k) (hk : k.lastAction = .kill) (hc : 0 < k.cap)
    (text : Text) (dir : KMode) :
    ∃ s, k.slots[k.index]? = some s ∧
      k.kill text dir = .ok { k with slots := k.slots.set k.index (mergeSlot dir s text) } := by
  have hne := h.kill_ne hk hc
  have hl := h.idx_lt hne
  have hget : k.slots[k.index]? = some k.slots[k.index] := List.getElem?_eq_getElem hl
  refine ⟨k.slots[k.index], hget, ?_⟩
  have hc' : (k.cap == 0) = false := by simp; omega
  simp only [kill, hk, beq_self_eq_true, if_true, hc', Bool.false_eq_true, if_false, hget, mergeSlot]
  cases dir <;> rfl

/-- `kill` starting a new kill (`lastAction ≠ kill`): the text goes to slot `nextIdx` -/
theorem kill_fresh {k : KillRing} (h : WF k) (hk : k.lastAction ≠ .kill) (hc : 0 < k.cap)
    (text : Text) (dir : KMode) :
    ∃ k', k.kill text dir = .ok k' ∧ k'.lastAction = .kill ∧ k'.index = nextIdx k ∧
      k'.slots[k'.index]? = some text ∧ k'.cap = k.cap ∧ k'.killing = k.killing ∧
      (k'.slots = k.slots ++ [text] ∨ k'.slots = k.slots.set (nextIdx k) text) ∧
      k'.slots.length ≤ k.cap ∧ k'.index < k'.slots.length := by
  have hb : (k.lastAction == KAction.kill) = false := by simpa using hk
  have hc' : (k.cap == 0) = false := by simp; omega
  obtain ⟨h1, h2⟩ := nextIdx_le h hc
  have hlen := h.len_le
  by_cases he : nextIdx k = k.slots.length
  · refine ⟨{ k with lastAction := .kill, index := nextIdx k, yankIndex := nextIdx k, slots := k.slots ++ [text] }, ?_, rfl, rfl, ?_, rfl, rfl,
      Or.inl rfl, ?_, ?_⟩
    · simp only [kill, hb, Bool.false_eq_true, if_false, hc']
      have : (nextIdx k == k.slots.length) = true := by simpa using he
      unfold nextIdx at this
      simp only [this, if_true]
      rfl
    · simp [he]
    · have := h2 he; simp; omega
    · simp [he]
  · have hlt : nextIdx k < k.slots.length := by omega
    refine ⟨{ k with lastAction := .kill, index := nextIdx k, yankIndex := nextIdx k, slots := k.slots.set (nextIdx k) text }, ?_, rfl, rfl, ?_,
      rfl, rfl, Or.inr rfl, ?_, ?_⟩
    · simp only [kill, hb, Bool.false_eq_true, if_false, hc']
      have hne : (nextIdx k == k.slots.length) = false := by simpa using he
      unfold nextIdx at hne hlt
      simp only [hne, Bool.false_eq_true, if_false, hlt, if_true]
      rfl
    · simp [hlt]
    · simpa using hlen
    · simpa using hlt

/-- a new kill ends the rotation of yank-pop: yank reads the slot just written -/
theorem kill_fresh_yank {k k' : KillRing} (hk : k.lastAction ≠ .kill) (hc : 0 < k.cap) {text : Text} {dir : KMode}
    (he : k.kill text dir = .ok k') : k'.yankIndex = k'.index := by
  have hb : (k.lastAction == KAction.kill) = false := by simpa using hk
  have hc' : (k.cap == 0) = false := by simp; omega
  have key : ∀ idx : Nat,
      (if (idx == k.slots.length) = true then
          Except.ok ({ k with lastAction := .kill, index := idx, yankIndex := idx, slots := k.slots ++ [text] } : KillRing)
        else if idx < k.slots.length then
          Except.ok { k with lastAction := .kill, index := idx, yankIndex := idx, slots := k.slots.set idx text }
        else Except.error Panic.panic) = Except.ok k' → k'.yankIndex = k'.index := by
    intro idx hh
    split at hh
    · cases hh; rfl
    · split at hh
      · cases hh; rfl
      · cases hh
  unfold kill at he
  simp only [hb, Bool.false_eq_true, if_false, hc'] at he
  exact key _ he

theorem kill_cap0 {k : KillRing} (hc : k.cap = 0) (text : Text) (dir : KMode) :
    k.kill text dir = .ok { k with lastAction := .kill } := by
  unfold kill
  split
  · rename_i hk
    have hk : k.lastAction = .kill := by simpa using hk
    simp [hc]
    cases k; simp_all
  · simp [hc]

theorem wf_kill {k : KillRing} (h : WF k) (text : Text) (dir : KMode) :
    ∃ k', k.kill text dir = .ok k' ∧ WF k' ∧ k'.cap = k.cap ∧ k'.killing = k.killing := by
  by_cases hc : k.cap = 0
  · refine ⟨_, kill_cap0 hc text dir, ?_, rfl, rfl⟩
    have hlen := h.len_le
    exact ⟨h.len_le, h.idx_lt, h.idx_zero, by intro _ h0; simp [hc] at h0, h.yidx_lt, by intro _ h0; simp [hc] at h0⟩
  · have hc : 0 < k.cap := by omega
    by_cases hk : k.lastAction = .kill
    · obtain ⟨s, hs, he⟩ := kill_cont h hk hc text dir
      refine ⟨_, he, ?_, rfl, rfl⟩
      have hne := h.kill_ne hk hc
      refine ⟨by simpa using h.len_le, ?_, ?_, ?_, ?_, ?_⟩
      · intro _; simpa using h.idx_lt hne
      · intro h0; simp at h0; exact absurd h0 hne
      · intro _ _; simpa using hne
      · intro _; simpa using h.yidx_lt hne
      · intro _ _; exact h.kill_yidx hk hc
    · obtain ⟨k', he, ha, hi, hs, hcap, hkl, hsl, hlen, hidx⟩ := kill_fresh h hk hc text dir
      refine ⟨k', he, ?_, hcap, hkl⟩
      refine ⟨by omega, fun _ => hidx, ?_, ?_, ?_, ?_⟩
      · intro h0; rw [h0] at hidx; simp at hidx
      · intro _ _ h0; rw [h0] at hidx; simp at hidx
      · intro _; rw [kill_fresh_yank hk hc he]; exact hidx
      · intro _ _; exact kill_fresh_yank hk hc he

theorem yank_ok {k : KillRing} (h : WF k) :
    (k.slots = [] ∧ k.yank = .ok (k, none)) ∨
    (∃ s, k.slots[k.yankIndex]? = some s ∧ k.yank = .ok ({ k with lastAction := .yank (blen s) }, some s)) := by
  by_cases he : k.slots = []
  · left; simp [yank, he]
  · right
    have hl := h.yidx_lt he
    have hget : k.slots[k.yankIndex]? = some k.slots[k.yankIndex] := List.getElem?_eq_getElem hl
    refine ⟨_, hget, ?_⟩
    have : k.slots.isEmpty = false := by simpa using he
    simp only [yank, this, Bool.false_eq_true, if_false, hget]

theorem wf_yank {k : KillRing} (h : WF k) :
    ∃ k' r, k.yank = .ok (k', r) ∧ WF k' ∧ k'.cap = k.cap ∧ k'.slots = k.slots := by
  rcases yank_ok h with ⟨_, he⟩ | ⟨s, _, he⟩
  · exact ⟨_, _, he, h, rfl, rfl⟩
  · exact ⟨_, _, he, ⟨h.len_le, h.idx_lt, h.idx_zero, by simp, h.yidx_lt, by simp⟩, rfl, rfl⟩

/-- the slot index `yankPop` moves to -/
def prevIdx (k : KillRing) : Nat := if k.yankIndex == 0 then k.slots.length - 1 else k.yankIndex - 1

theorem prevIdx_lt {k : KillRing} (h : WF k) (he : k.slots ≠ []) : prevIdx k < k.slots.length := by
  have hl := h.yidx_lt he
  unfold prevIdx
  split <;> omega

theorem yankPop_ok {k : KillRing} (h : WF k) (size : Nat) (hy : k.lastAction = .yank size)
    (he : k.slots ≠ []) :
    ∃ s, k.slots[prevIdx k]? = some s ∧
      k.yankPop = .ok ({ k with yankIndex := prevIdx k, lastAction := .yank (blen s) }, some (size, s)) := by
  have hl := prevIdx_lt h he
  have hget : k.slots[prevIdx k]? = some k.slots[prevIdx k] := List.getElem?_eq_getElem hl
  refine ⟨_, hget, ?_⟩
  have : k.slots.isEmpty = false := by simpa using he
  unfold prevIdx at hget
  simp only [yankPop, hy, this, Bool.false_eq_true, if_false, hget]
  rfl

theorem wf_yankPop {k : KillRing} (h : WF k) :
    ∃ k' r, k.yankPop = .ok (k', r) ∧ WF k' ∧ k'.cap = k.cap ∧ k'.slots = k.slots := by
  cases hy : k.lastAction with
  | kill => exact ⟨k, none, by simp [yankPop, hy], h, rfl, rfl⟩
  | other => exact ⟨k, none, by simp [yankPop, hy], h, rfl, rfl⟩
  | yank size =>
    by_cases he : k.slots = []
    · exact ⟨k, none, by simp [yankPop, hy, he], h, rfl, rfl⟩
    · obtain ⟨s, _, hp⟩ := yankPop_ok h size hy he
      refine ⟨_, _, hp, ⟨h.len_le, h.idx_lt, h.idx_zero, by simp, fun _ => prevIdx_lt h he, by simp⟩, rfl, rfl⟩

theorem wf_onDelete {k : KillRing} (h : WF k) (text : Text) (dir : Direction) :
    ∃ k', k.onDelete text dir = .ok k' ∧ WF k' ∧ k'.cap = k.cap := by
  unfold onDelete
  split
  · exact ⟨k, rfl, h, rfl⟩
  · cases dir with
    | forward => obtain ⟨k', he, hw, hc, _⟩ := wf_kill h text .append; exact ⟨k', he, hw, hc⟩
    | backward => obtain ⟨k', he, hw, hc, _⟩ := wf_kill h text .prepend; exact ⟨k', he, hw, hc⟩
    | around n =>
      simp only []
      have h1 : ∃ k1, (if (cutBytes text n).1.isEmpty then .ok k else k.kill (cutBytes text n).1 .prepend) = Except.ok k1
          ∧ WF k1 ∧ k1.cap = k.cap := by
        split
        · exact ⟨k, rfl, h, rfl⟩
        · obtain ⟨k', he, hw, hc, _⟩ := wf_kill h (cutBytes text n).1 .prepend; exact ⟨k', he, hw, hc⟩
      obtain ⟨k1, he1, hw1, hc1⟩ := h1
      rw [he1]
      simp only []
      split
      · exact ⟨k1, rfl, hw1, hc1⟩
      · obtain ⟨k', he, hw, hc, _⟩ := wf_kill hw1 (cutBytes text n).2 .append
        exact ⟨k', he, hw, by rw [hc, hc1]⟩

end KillRing

/-- `LineBuffer::kill(ForwardChar n)` reports deletions only: no `start_killing` / `stop_killing` -/
theorem LB.kill_forwardChar_notifs (S : Segmenter) (U : UData) (n : Nat) (lb lb' : LB) (r : Bool) (ns : List Notif)
    (h : LB.kill S U (.forwardChar n) lb = .ok (r, lb', ns)) :
    ∀ x ∈ ns, ∃ i s d, x = .del i s d := by
  simp only [LB.kill, LB.delete, bind, LM.bind', pure, LM.pure', LM.ro, Bool.false_eq_true, if_false] at h
  cases hn : LB.nextPos S lb n with
  | error e => simp [hn] at h
  | ok a =>
    cases a with
    | none =>
      simp [hn] at h
      obtain ⟨_, _, rfl⟩ := h
      simp
    | some p =>
      simp only [hn, LM.bind', LM.get, LB.drain, LM.pure'] at h
      cases hs : split3 lb.buf lb.pos p with
      | error e => simp [hs] at h
      | ok v =>
        obtain ⟨x, y, z⟩ := v
        simp [hs] at h
        obtain ⟨_, _, rfl⟩ := h
        intro x hx; simp at hx; exact ⟨_, _, _, hx⟩

/-- the same for `BackwardChar n` -/
theorem LB.kill_backwardChar_notifs (S : Segmenter) (U : UData) (n : Nat) (lb lb' : LB) (r : Bool) (ns : List Notif)
    (h : LB.kill S U (.backwardChar n) lb = .ok (r, lb', ns)) :
    ∀ x ∈ ns, ∃ i s d, x = .del i s d := by
  simp only [LB.kill, LB.backspace, bind, LM.bind', pure, LM.pure', LM.ro, Bool.false_eq_true, if_false] at h
  cases hn : LB.prevPos S lb n with
  | error e => simp [hn] at h
  | ok a =>
    cases a with
    | none =>
      simp [hn] at h
      obtain ⟨_, _, rfl⟩ := h
      simp
    | some p =>
      simp only [hn, LM.bind', LM.get, LB.drain, LM.pure', LM.setPos] at h
      cases hs : split3 lb.buf p lb.pos with
      | error e => simp [hs] at h
      | ok v =>
        obtain ⟨x, y, z⟩ := v
        simp [hs] at h
        obtain ⟨_, _, rfl⟩ := h
        intro x hx; simp at hx; exact ⟨_, _, _, hx⟩

end Rl

/-! ## abstractions used by the C06 theorems (global names) -/
open Rl Rl.KillRing

/-! ### reachable rings -/

/-- one operation on the ring, as the editor issues them -/
inductive KOp
  | kill (text : Text) (dir : KMode)
  | yank | yankPop | reset
  | onDelete (text : Text) (dir : Direction)
  | startKilling | stopKilling
deriving DecidableEq, Repr

def KOp.run (k : KillRing) : KOp → Except Panic KillRing
  | .kill t d => k.kill t d
  | .yank => match k.yank with | .ok (k', _) => .ok k' | .error e => .error e
  | .yankPop => match k.yankPop with | .ok (k', _) => .ok k' | .error e => .error e
  | .reset => .ok k.reset
  | .onDelete t d => k.onDelete t d
  | .startKilling => .ok k.startKilling
  | .stopKilling => .ok k.stopKilling

def runOps : KillRing → List KOp → Except Panic KillRing
  | k, [] => .ok k
  | k, op :: ops => match op.run k with | .ok k' => runOps k' ops | .error e => .error e

theorem KOp.run_wf {k : KillRing} (h : WF k) (op : KOp) : ∃ k', op.run k = .ok k' ∧ WF k' ∧ k'.cap = k.cap := by
  cases op with
  | kill t d => obtain ⟨k', he, hw, hc, _⟩ := wf_kill h t d; exact ⟨k', he, hw, hc⟩
  | yank => obtain ⟨k', r, he, hw, hc, _⟩ := wf_yank h; exact ⟨k', by simp [KOp.run, he], hw, hc⟩
  | yankPop => obtain ⟨k', r, he, hw, hc, _⟩ := wf_yankPop h; exact ⟨k', by simp [KOp.run, he], hw, hc⟩
  | reset => exact ⟨_, rfl, wf_reset h, rfl⟩
  | onDelete t d => exact wf_onDelete h t d
  | startKilling => exact ⟨_, rfl, wf_startKilling h, rfl⟩
  | stopKilling => exact ⟨_, rfl, wf_stopKilling h, rfl⟩

theorem runOps_wf {k : KillRing} (h : WF k) (ops : List KOp) : ∃ k', runOps k ops = .ok k' ∧ WF k' ∧ k'.cap = k.cap := by
  induction ops generalizing k with
  | nil => exact ⟨k, rfl, h, rfl⟩
  | cons op ops ih =>
    obtain ⟨k1, he, hw, hc⟩ := KOp.run_wf h op
    obtain ⟨k2, he2, hw2, hc2⟩ := ih hw
    exact ⟨k2, by simp [runOps, he, he2], hw2, by omega⟩

/-! ### runs of directional kills -/

/-- A directional kill, abstractly: the line is `L ++ R` with the cursor between `L` and `R`;
    a forward kill removes `x` from the front of `R`, a backward kill removes `x` from the end of `L`. -/
inductive DKill | fwd (x : Text) | bwd (x : Text)
deriving DecidableEq, Repr

/-- One directional kill on (text left of the cursor, text right of the cursor, ring); the ring is
    told `Append` for a forward and `Prepend` for a backward kill, as `DeleteListener::delete` does
    (`KillRing.onDelete` with `killing = true`). `none` when `x` is not adjacent to the cursor. -/
def dkStep (s : Text × Text × KillRing) : DKill → Option (Text × Text × KillRing)
  | .fwd x =>
    if x.isPrefixOf s.2.1 then
      match s.2.2.kill x .append with
      | .ok k' => some (s.1, s.2.1.drop x.length, k')
      | .error _ => none
    else none
  | .bwd x =>
    if x.isSuffixOf s.1 then
      match s.2.2.kill x .prepend with
      | .ok k' => some (s.1.take (s.1.length - x.length), s.2.1, k')
      | .error _ => none
    else none

def dkRun (s : Text × Text × KillRing) : List DKill → Option (Text × Text × KillRing)
  | [] => some s
  | d :: ds => match dkStep s d with | some s' => dkRun s' ds | none => none

/-- invariant of a run of kills: the current slot is what is missing from `T0` at the cursor -/
def AccInv (T0 : Text) (s : Text × Text × KillRing) : Prop :=
  WF s.2.2 ∧ s.2.2.lastAction = .kill ∧ 0 < s.2.2.cap ∧
  ∃ slot, s.2.2.slots[s.2.2.index]? = some slot ∧ T0 = s.1 ++ slot ++ s.2.1

theorem dkStep_shape {s s' : Text × Text × KillRing} {d : DKill} (h : dkStep s d = some s') :
    (∃ x, d = .fwd x ∧ s.2.1 = x ++ s'.2.1 ∧ s'.1 = s.1 ∧ s.2.2.kill x .append = .ok s'.2.2) ∨
    (∃ x, d = .bwd x ∧ s.1 = s'.1 ++ x ∧ s'.2.1 = s.2.1 ∧ s.2.2.kill x .prepend = .ok s'.2.2) := by
  cases d with
  | fwd x =>
    left
    simp only [dkStep] at h
    split at h
    · rename_i hp
      split at h
      · rename_i k' hk
        cases h
        obtain ⟨t, ht⟩ := List.isPrefixOf_iff_prefix.mp hp
        refine ⟨x, rfl, ?_, rfl, hk⟩
        simp only
        rw [← ht]; simp
      · cases h
    · cases h
  | bwd x =>
    right
    simp only [dkStep] at h
    split at h
    · rename_i hp
      split at h
      · rename_i k' hk
        cases h
        obtain ⟨t, ht⟩ := List.isSuffixOf_iff_suffix.mp hp
        refine ⟨x, rfl, ?_, rfl, hk⟩
        simp only
        rw [← ht]; simp
      · cases h
    · cases h

theorem accInv_step {T0 : Text} {s s' : Text × Text × KillRing} {d : DKill}
    (hi : AccInv T0 s) (h : dkStep s d = some s') : AccInv T0 s' := by
  obtain ⟨L, R, k⟩ := s
  obtain ⟨L', R', k'⟩ := s'
  obtain ⟨hw, hk, hc, slot, hs, hT⟩ := hi
  simp only at hw hk hc hs hT
  have hl := hw.idx_lt (hw.kill_ne hk hc)
  rcases dkStep_shape h with ⟨x, _, hR, hL, hkill⟩ | ⟨x, _, hL, hR, hkill⟩
  · simp only at hR hL hkill
    obtain ⟨s0, hs0, he⟩ := kill_cont hw hk hc x .append
    rw [hs] at hs0; cases hs0
    obtain ⟨k1, he1, hw1, _, _⟩ := wf_kill hw x .append
    rw [hkill] at he he1; cases he1
    have he : k' = _ := Except.ok.inj he
    refine ⟨hw1, ?_, ?_, slot ++ x, ?_, ?_⟩
    · show k'.lastAction = _; rw [he]; exact hk
    · show 0 < k'.cap; rw [he]; exact hc
    · show k'.slots[k'.index]? = _; rw [he]; simp [mergeSlot, hl]
    · show T0 = L' ++ (slot ++ x) ++ R'; rw [hT, hR, hL]; simp
  · simp only at hR hL hkill
    obtain ⟨s0, hs0, he⟩ := kill_cont hw hk hc x .prepend
    rw [hs] at hs0; cases hs0
    obtain ⟨k1, he1, hw1, _, _⟩ := wf_kill hw x .prepend
    rw [hkill] at he he1; cases he1
    have he : k' = _ := Except.ok.inj he
    refine ⟨hw1, ?_, ?_, x ++ slot, ?_, ?_⟩
    · show k'.lastAction = _; rw [he]; exact hk
    · show 0 < k'.cap; rw [he]; exact hc
    · show k'.slots[k'.index]? = _; rw [he]; simp [mergeSlot, hl]
    · show T0 = L' ++ (x ++ slot) ++ R'; rw [hT, hR, hL]; simp

theorem accInv_run {T0 : Text} {s s' : Text × Text × KillRing} {ds : List DKill}
    (hi : AccInv T0 s) (h : dkRun s ds = some s') : AccInv T0 s' := by
  induction ds generalizing s with
  | nil => simp only [dkRun, Option.some.injEq] at h; exact h ▸ hi
  | cons d ds ih =>
    simp only [dkRun] at h
    split at h
    · rename_i s1 h1; exact ih (accInv_step hi h1) h
    · cases h

/-- the first kill of a run (last action not a kill) establishes the invariant -/
theorem accInv_first {L R : Text} {k : KillRing} {s' : Text × Text × KillRing} {d : DKill}
    (hw : WF k) (hk : k.lastAction ≠ .kill) (hc : 0 < k.cap)
    (h : dkStep (L, R, k) d = some s') : AccInv (L ++ R) s' := by
  rcases dkStep_shape h with ⟨x, _, hR, hL, hkill⟩ | ⟨x, _, hL, hR, hkill⟩
  · obtain ⟨k1, he, ha, _, hs, hcap, _, _, _, _⟩ := kill_fresh hw hk hc x .append
    obtain ⟨k1', he', hw1, _, _⟩ := wf_kill hw x .append
    simp only at hkill hR hL
    rw [hkill] at he he'; cases he; cases he'
    exact ⟨hw1, ha, by omega, x, hs, by rw [hR, hL]; simp⟩
  · obtain ⟨k1, he, ha, _, hs, hcap, _, _, _, _⟩ := kill_fresh hw hk hc x .prepend
    obtain ⟨k1', he', hw1, _, _⟩ := wf_kill hw x .prepend
    simp only at hkill hR hL
    rw [hkill] at he he'; cases he; cases he'
    exact ⟨hw1, ha, by omega, x, hs, by rw [hR, hL]⟩

/-! ### series of yank-pops -/

/-- the slot index one yank-pop moves to (one step back, wrapping to the last slot) -/
def cyc (len i : Nat) : Nat := if i == 0 then len - 1 else i - 1

def cycN (len i : Nat) : Nat → Nat
  | 0 => i
  | j + 1 => cyc len (cycN len i j)

theorem cyc_lt {len i : Nat} (h : i < len) : cyc len i < len := by
  unfold cyc; split <;> omega

theorem cycN_lt {len i : Nat} (h : i < len) (j : Nat) : cycN len i j < len := by
  induction j with
  | zero => exact h
  | succ j ih => exact cyc_lt ih

theorem cyc_succ_mod {len i : Nat} (h : i < len) : (cyc len i + 1) % len = i := by
  unfold cyc
  split
  · rename_i h0
    have h0 : i = 0 := by simpa using h0
    subst h0
    have : len - 1 + 1 = len := by omega
    rw [this]; simp
  · rename_i h0
    have h0 : i ≠ 0 := by simpa using h0
    have : i - 1 + 1 = i := by omega
    rw [this]; exact Nat.mod_eq_of_lt h

/-- `j` yank-pops move the index back by `j`, modulo the number of slots -/
theorem cycN_add_mod {len i : Nat} (h : i < len) (j : Nat) : (cycN len i j + j) % len = i := by
  induction j with
  | zero => exact Nat.mod_eq_of_lt h
  | succ j ih =>
    have hl := cycN_lt h j
    show (cyc len (cycN len i j) + (j + 1)) % len = i
    have : cyc len (cycN len i j) + (j + 1) = (cyc len (cycN len i j) + 1) + j := by omega
    rw [this, ← Nat.mod_add_mod, cyc_succ_mod hl]; exact ih

/-- `j` consecutive yank-pops: final ring and the (size to replace, text to insert) of each -/
def popN : Nat → KillRing → Except Panic (KillRing × List (Option (Nat × Text)))
  | 0, k => .ok (k, [])
  | j + 1, k =>
    match k.yankPop with
    | .error e => .error e
    | .ok (k', r) =>
      match popN j k' with
      | .error e => .error e
      | .ok (k'', rs) => .ok (k'', r :: rs)

/-- what the `i`-th of a series of yank-pops must answer, given the slots, the index at the yank
    and the size yanked: replace the previous insertion (its byte length) by the slot one further back -/
def popSpec (slots : List Text) (idx : Nat) : Nat → Nat → List (Option (Nat × Text))
  | _, 0 => []
  | size, j + 1 =>
    let s := slots.getD (cyc slots.length idx) []
    some (size, s) :: popSpec slots (cyc slots.length idx) (blen s) j

theorem popN_spec (j : Nat) (k : KillRing) (h : WF k) (size : Nat) (hy : k.lastAction = .yank size)
    (hne : k.slots ≠ []) :
    ∃ k', popN j k = .ok (k', popSpec k.slots k.yankIndex size j) ∧ k'.slots = k.slots ∧
      k'.yankIndex = cycN k.slots.length k.yankIndex j ∧ k'.cap = k.cap ∧ WF k' ∧
      (∃ sz, k'.lastAction = .yank sz) := by
  induction j generalizing k size with
  | zero => exact ⟨k, rfl, rfl, rfl, rfl, h, size, hy⟩
  | succ j ih =>
    obtain ⟨s, hs, hp⟩ := yankPop_ok h size hy hne
    obtain ⟨k1, r1, hp1, hw1, _, _⟩ := wf_yankPop h
    rw [hp] at hp1; cases hp1
    obtain ⟨k', he, hsl, hidx, hcap, hw', hl⟩ := ih _ hw1 (blen s) rfl hne
    refine ⟨k', ?_, hsl, ?_, hcap, hw', hl⟩
    · simp only [popN, hp, he, popSpec]
      have : k.slots.getD (cyc k.slots.length k.yankIndex) [] = s := by
        have : cyc k.slots.length k.yankIndex = prevIdx k := rfl
        rw [this, List.getD_eq_getElem?_getD, hs]; rfl
      rw [this]; rfl
    · rw [hidx]
      show cycN k.slots.length (cyc k.slots.length k.yankIndex) j = cycN k.slots.length k.yankIndex (j + 1)
      clear he hidx ih
      induction j with
      | zero => rfl
      | succ j ihj => simp only [cycN]; rw [ihj]; rfl

/-- the byte length of `n` copies (yank with a numeric argument) -/
theorem blen_replicate_flatten (n : Nat) (t : Text) : blen (List.replicate n t).flatten = blen t * n := by
  induction n with
  | zero => simp
  | succ m ih => simp [List.replicate_succ, ih, Nat.mul_succ, Nat.add_comm]

/-- cutting `before ++ after` at the byte length of `before` (`delete_around`) -/
theorem cutBytes_append (b a : Text) : cutBytes (b ++ a) (blen b) = (b, a) := by
  induction b with
  | nil => cases a <;> simp [cutBytes]
  | cons c b ih =>
    have hpos := Char.utf8Size_pos c
    have hne : ¬ (c.utf8Size + blen b = 0) := by omega
    simp only [List.cons_append, blen_cons, cutBytes, hne, if_false, Nat.add_sub_cancel_left, ih, List.cons]

