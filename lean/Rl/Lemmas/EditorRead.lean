/-
  C17: the sub-loops of `src/lib.rs` (circular and list completion, incremental search), the
  dispatch loop and the main loop of a read never end with the panic outcome and keep the read
  invariant `RdInv` (`EdWF` + growable line) — GIVEN that `next_cmd` does not panic (`NextSafe`) and
  that every `execute` step is safe (`ExecSafe`).  Those two are discharged, as far as they are, in
  Rl/Props/C17.lean.
-/
import Rl.Lemmas.EditorSafe2
import Rl.Lemmas.EditorGrow
import Rl.Lemmas.EditorLoops
import Rl.Lemmas.EditorNextAll
import Rl.Lemmas.EditorReadRet
import Rl.Lemmas.EditorRing
import Rl.Props.C09
namespace Rl
open EM

/-- the invariant of a read at every command boundary: `EdWF`, a growable line, and (vi) a pending
    numeric argument that is not negative -/
def RdInv (cfg : EdCfg) (s : Ed) : Prop := EdWF cfg s ∧ (s.line.canGrow = true ∧ NumI cfg s)

/-- exit condition: the only panic is known finding D43 (`RepeatCount::try_from(len).unwrap()` on
    the length of the last insertion), and the state it exits with shows it -/
def PE (o : Outcome) (s : Ed) : Prop := o = .panic → D43 s

/-- post- and exit-condition: invariant again; a panic exit only as D43 -/
abbrev RSafe {α : Type} (cfg : EdCfg) (m : EM α) (s : Ed) : Prop :=
  wp m (fun _ s' => RdInv cfg s') PE s

/-- every `execute` step on an acceptable command (`CmdI`: what `next_cmd` returns) is safe from
    the read invariant together with a cross-step invariant `J` (the facts about the undo log and
    the kill ring that `RdInv` does not hold), and re-establishes both -/
def ExecSafe (S : Segmenter) (U : UData) (cfg : EdCfg) (J : Ed → Prop) : Prop :=
  ∀ cmd s, CmdI cfg cmd → RdInv cfg s → J s → PopPre cfg cmd s →
    wp (execute S U cfg cmd) (fun _ s' => RdInv cfg s' ∧ J s' ∧ PopI cfg s') PE s

/-- `m` keeps `J` whenever it returns -/
def KeepsJ {α : Type} (J : Ed → Prop) (m : EM α) : Prop :=
  ∀ s, J s → wp m (fun _ s' => J s') (fun _ _ => True) s

/-- what the main loop assumes of the cross-step invariant `J`: every `execute` step is safe from it
    and keeps it, and the other steps of a read keep it -/
structure RdStep (S : Segmenter) (U : UData) (cfg : EdCfg) (J : Ed → Prop) : Prop where
  exec : ExecSafe S U cfg J
  init : ∀ ring input, J (initEd cfg ring input)
  initText : ∀ b p, KeepsJ J (lb S U (LB.update S U b p))
  refresh : KeepsJ J (refreshLine S U cfg)
  next : ∀ fuel, KeepsJ J (nextCmd S U cfg fuel false false)
  reset : ∀ s, J s → J { s with ring := s.ring.reset }
  pre : ∀ fuel cmd s, RdInv cfg s → J s → wp (preCmds S U cfg fuel cmd) (fun _ s' => J s') (fun _ _ => True) s
  susp : ∀ s, J s → J { s with suspends := s.suspends + 1 }
  nextChar : KeepsJ J nextChar
  insert : ∀ c, KeepsJ J (editInsert S U cfg c 1)

/-- what the loops assume -/
structure RdHyp (S : Segmenter) (U : UData) (cfg : EdCfg) : Prop where
  hnp : cfg.hinterPanicAt = none
  /-- the custom bindings are acceptable commands (a bound `ReplaceChar` count fits its type `u16`;
      `YankPop` is not bound in vi mode) -/
  binds : BindsI cfg
  /-- the completer contract: the reported start is a character boundary of the line, not beyond
      the cursor -/
  comp : ∀ t p, IsBoundary t (cfg.completer t p).1 ∧ (cfg.completer t p).1 ≤ p

theorem PE.of_ne {o : Outcome} {s : Ed} (h : o ≠ .panic) : PE o s := fun hp => absurd hp h

section
variable (S : Segmenter) (U : UData) (cfg : EdCfg)

theorem RdInv.of_core {s s' : Ed} (h : RdInv cfg s) (hc : s'.core = s.core) (hi : s'.inp = s.inp) :
    RdInv cfg s' := by
  refine ⟨h.1.of_core hc, ?_, ?_⟩
  · rw [(Ed.core_eq hc).1]; exact h.2.1
  · intro hv; rw [hi]; exact h.2.2 hv

theorem wp_refreshLine_inv (hnp : cfg.hinterPanicAt = none) {s : Ed} (h : RdInv cfg s)
    {Q : Unit → Ed → Prop} {E : Outcome → Ed → Prop} (hq : ∀ s', RdInv cfg s' → s'.core = s.core → Q () s') :
    wp (refreshLine S U cfg) Q E s := by
  have hw := wp_refreshLine_np S U cfg hnp (Q := fun _ s' => s'.core = s.core) (E := fun _ _ => False) (s := s)
    (fun _ hc => hc)
  have hk := (keeps_inp_refreshLine S U cfg).h s
  unfold wp at hw ⊢
  cases hr : refreshLine S U cfg s with
  | error e => rw [hr] at hw; exact hw.elim
  | ok r =>
    obtain ⟨_, s'⟩ := r
    rw [hr] at hw hk
    exact hq s' (h.of_core cfg hw hk) hw

theorem wp_refreshPromptAndLine_inv (hnp : cfg.hinterPanicAt = none) (p : Text) {s : Ed} (h : RdInv cfg s)
    {Q : Unit → Ed → Prop} {E : Outcome → Ed → Prop} (hq : ∀ s', RdInv cfg s' → s'.core = s.core → Q () s') :
    wp (refreshPromptAndLine S U cfg p) Q E s := by
  have hw := wp_refreshPromptAndLine S U cfg (p := p) (Q := fun _ s' => s'.core = s.core) (E := fun _ _ => False)
    (s := s) (fun _ hc => hc) (fun _ _ hne => absurd hnp hne)
  have hk := (keeps_inp_refreshPromptAndLine S U cfg p).h s
  unfold wp at hw ⊢
  cases hr : refreshPromptAndLine S U cfg p s with
  | error e => rw [hr] at hw; exact hw.elim
  | ok r =>
    obtain ⟨_, s'⟩ := r
    rw [hr] at hw hk
    exact hq s' (h.of_core cfg hw hk) hw

theorem wp_moveCursor_inv {s : Ed} (h : RdInv cfg s)
    {Q : Unit → Ed → Prop} {E : Outcome → Ed → Prop} (hq : ∀ s', RdInv cfg s' → s'.core = s.core → Q () s') :
    wp (moveCursor S U cfg) Q E s := by
  obtain ⟨s', hr, hc⟩ := moveCursor_returns S U cfg s
  have hk := (keeps_inp_moveCursor S U cfg).ok hr
  exact wp_of_eq_ok hr (hq s' (h.of_core cfg hc hk) hc)

/-- `next_cmd` from the read invariant: it keeps it, and panics only as D43 -/
theorem wp_nextCmd_inv (hnp : cfg.hinterPanicAt = none) {fuel : Nat} {sea iep : Bool} {s : Ed} (h : RdInv cfg s)
    {Q : Cmd → Ed → Prop} (hq : ∀ c s', RdInv cfg s' → s'.coreNC = s.coreNC → Q c s') :
    wp (nextCmd S U cfg fuel sea iep) Q PE s := by
  have hk := (keeps_nextCmd S U cfg fuel sea iep).h s
  have hn := (npi_nextCmd S U cfg hnp fuel sea iep).h s h.2.2
  unfold wp
  cases hr : nextCmd S U cfg fuel sea iep s with
  | error e => obtain ⟨o, s'⟩ := e; rw [hr] at hn; exact hn
  | ok r =>
    obtain ⟨c, s'⟩ := r
    rw [hr] at hk hn
    refine hq c s' ⟨h.1.of_coreNC hk, ?_, hn⟩ hk
    rw [(Ed.coreNC_eq hk).1]; exact h.2.1

/-- a safe, `canGrow`-preserving line-buffer call keeps the read invariant -/
theorem wp_lb_inv {α : Type} {op : LM α} (hop : LMSafe op) (hg : Grow op) {s : Ed} (h : RdInv cfg s)
    {Q : α → Ed → Prop} {E : Outcome → Ed → Prop} (hq : ∀ a s', RdInv cfg s' → Q a s') : wp (lb S U op) Q E s := by
  obtain ⟨r, l, ns, ho, hw⟩ := hop s.line h.1.line
  refine wp_lb S U ho (hq _ _ ⟨EdWF.mk' hw h.1.saved h.1.ring, ?_, ?_⟩)
  · exact (hg.h _ _ _ _ ho).trans h.2.1
  · exact h.2.2

/-- `line.update(buf, pos)` on the growable line of a read: exactly that text and cursor -/
theorem wp_lb_update_inv {b : Text} {p : Nat} (hb : IsBoundary b p) {s : Ed} (h : RdInv cfg s)
    {Q : Unit → Ed → Prop} {E : Outcome → Ed → Prop}
    (hq : ∀ s', RdInv cfg s' → s'.line.buf = b → s'.line.pos = p → Q () s') :
    wp (lb S U (LB.update S U b p)) Q E s := by
  refine wp_lb_update S U h.2.1 hb.le_len (hq _ ⟨EdWF.mk' ?_ h.1.saved h.1.ring, h.2⟩ rfl rfl)
  exact hb

/-- `line.replace(start..pos, text)` for a start on a boundary at or before the cursor: the start is
    still a boundary at or before the new cursor -/
theorem wp_lb_replace_inv {start : Nat} {t : Text} {s : Ed} (h : RdInv cfg s)
    (hb : IsBoundary s.line.buf start) (hle : start ≤ s.line.pos)
    {Q : Unit → Ed → Prop} {E : Outcome → Ed → Prop}
    (hq : ∀ s', RdInv cfg s' → IsBoundary s'.line.buf start → start ≤ s'.line.pos → Q () s') :
    wp (lb S U (LB.replace S U start s.line.pos t)) Q E s := by
  have hwl : IsBoundary s.line.buf s.line.pos := h.1.line
  obtain ⟨x, y, z, hs, hbuf, hx, _⟩ := split3_of_boundaries hb hwl hle
  have hr : LB.replace S U start s.line.pos t s.line = .ok ((),
      { s.line with buf := x ++ t ++ z, pos := start + blen t,
                    cap := growCap s.line.cap (blen x + blen z + blen t) }, [.repl start y t]) := by
    simp [LB.replace, hs]
  refine wp_lb S U hr (hq _ ⟨EdWF.mk' ?_ h.1.saved h.1.ring, h.2⟩ ?_ ?_)
  · exact ⟨x ++ t, z, rfl, by simp [hx]⟩
  · exact ⟨x, t ++ z, by simp, hx⟩
  · show start ≤ start + blen t; omega


/-! ### circular completion -/

theorem safe_completeCircular (H : RdHyp S U cfg) (start : Nat) (cands : List Text) (mark : Nat)
    (backup : Text) (backupPos : Nat)
    (hbp : IsBoundary backup backupPos) (hbs : IsBoundary backup start) (hsp : start ≤ backupPos) :
    ∀ (fuel i : Nat) (s : Ed), RdInv cfg s → IsBoundary s.line.buf start → start ≤ s.line.pos →
      RSafe cfg (completeCircular S U cfg start cands mark backup backupPos fuel i) s := by
  intro fuel
  induction fuel generalizing mark with
  | zero =>
    intro i s _ _ _
    unfold RSafe completeCircular
    simp only [wp_exit]
    intro hh; cases hh
  | succ fuel ih =>
    intro i s h hb hle
    unfold RSafe completeCircular
    simp only []
    by_cases hlt : i < cands.length
    case' pos =>
      rw [if_pos hlt]
      have hci : cands[i]? = some cands[i] := by simp [hlt]
      rw [hci]
      simp only [wp_bind, wp_getLine]
      refine wp_lb_replace_inv S U cfg h hb hle fun s1 h1 hb1 hle1 => ?_
    case' neg =>
      rw [if_neg hlt]
      simp only [wp_bind]
      refine wp_lb_update_inv S U cfg hbp h fun s1 h1 e1 e2 => ?_
      have hb1 : IsBoundary s1.line.buf start := by rw [e1]; exact hbs
      have hle1 : start ≤ s1.line.pos := by rw [e2]; exact hsp
    all_goals
      refine wp_refreshLine_inv S U cfg H.hnp h1 fun s2 h2 hc2 => ?_
      obtain ⟨l2, _⟩ := Ed.core_eq hc2
      refine wp_nextCmd_inv S U cfg H.hnp h2 fun cmd s3 h3 hc3 => ?_
      rw [wp_lowerMark]
      obtain ⟨l3, _⟩ := Ed.coreNC_eq hc3
      have hb3 : IsBoundary s3.line.buf start := by rw [l3, l2]; exact hb1
      have hle3 : start ≤ s3.line.pos := by rw [l3, l2]; exact hle1
      split
      · exact ih _ _ s3 h3 hb3 hle3
      · exact ih _ _ s3 h3 hb3 hle3
      · by_cases hlt' : i < cands.length
        · rw [if_pos hlt']
          simp only [wp_bind]
          refine wp_lb_update_inv S U cfg hbp h3 fun s4 h4 _ _ => ?_
          refine wp_refreshLine_inv S U cfg H.hnp h4 fun s5 h5 _ => ?_
          simp only [truncateChanges, wp_modify, wp_pure]
          exact ⟨EdWF.mk' h5.1.line h5.1.saved h5.1.ring, h5.2⟩
        · rw [if_neg hlt']
          simp only [wp_pure, wp_bind, truncateChanges, wp_modify]
          exact ⟨EdWF.mk' h3.1.line h3.1.saved h3.1.ring, h3.2⟩
      · simp only [wp_bind, wp_changesEnd, wp_pure]
        exact ⟨EdWF.mk' h3.1.line h3.1.saved h3.1.ring, h3.2⟩


/-! ### `complete_line` (circular and list mode) -/

theorem rdinv_changes {s : Ed} (h : RdInv cfg s) (c : Changeset) : RdInv cfg { s with changes := c } :=
  ⟨EdWF.mk' h.1.line h.1.saved h.1.ring, h.2⟩

theorem safe_completeLine (H : RdHyp S U cfg) (fuel : Nat) {s : Ed} (h : RdInv cfg s) :
    RSafe cfg (completeLine S U cfg fuel) s := by
  have hwl : IsBoundary s.line.buf s.line.pos := h.1.line
  obtain ⟨hcb, hcle⟩ := H.comp s.line.buf s.line.pos
  unfold RSafe completeLine
  simp only [wp_bind, wp_getLine]
  split
  · exact h
  · split
    · simp only [wp_bind, wp_changesBegin]
      exact safe_completeCircular S U cfg H _ _ _ _ _ hwl hcb hcle fuel 0 _
        (rdinv_changes cfg h _) hcb hcle
    · -- list mode; first the part after the common prefix has been inserted
      have tail : ∀ s1 : Ed, RdInv cfg s1 →
          wp (if (cfg.completer s.line.buf s.line.pos).2.length ≤ 1 then pure none
              else do
                let cmd ← nextCmd S U cfg fuel true true
                if (cmd != Cmd.complete) = true then pure (some cmd)
                else do
                  let savePos ← (fun s => .ok (s.line.pos, s) : EM Nat)
                  editMove S U cfg (LB.moveEnd S U)
                  lbQuiet (LB.setPosChecked S U savePos)
                  refreshLine S U cfg
                  pure none)
            (fun _ s' => RdInv cfg s') PE s1 := by
        intro s1 h1
        split
        · exact h1
        · rw [wp_bind]
          refine wp_nextCmd_inv S U cfg H.hnp h1 fun cmd s2 h2 _ => ?_
          split
          · exact h2
          · rw [wp_bind', wp_read]
            unfold editMove
            simp only [wp_bind]
            obtain ⟨r, l, hm, hw, hbuf⟩ := C03_moveEnd_total_wf S U s2.line h2.1.line
            have hg : l.canGrow = true := ((Grow.moveEnd S U).h _ _ _ _ hm).trans h2.2.1
            refine wp_lbQuiet hm ?_
            have h3 : RdInv cfg ({ s2 with line := l } : Ed) := ⟨EdWF.mk' hw h2.1.saved h2.1.ring, hg, h2.2.2⟩
            have hsp : IsBoundary l.buf s2.line.pos := by rw [hbuf]; exact h2.1.line
            -- after the optional cursor move (display only) the line is still `l`
            have after : ∀ s4 : Ed, RdInv cfg s4 → s4.core = ({ s2 with line := l } : Ed).core →
                wp (do lbQuiet (LB.setPosChecked S U s2.line.pos); refreshLine S U cfg; pure (none : Option Cmd))
                  (fun _ s' => RdInv cfg s') PE s4 := by
              intro s4 h4 hc4
              obtain ⟨l4, _⟩ := Ed.core_eq hc4
              simp only [wp_bind]
              have hsp4 : IsBoundary s4.line.buf s2.line.pos := by rw [l4]; exact hsp
              obtain ⟨l5, hs5, hw5, _⟩ := C03_setPos_total_wf S U s2.line.pos s4.line hsp4
              have hg5 : l5.canGrow = true := ((Grow.setPosChecked S U _).h _ _ _ _ hs5).trans h4.2.1
              refine wp_lbQuiet hs5 ?_
              have h5 : RdInv cfg ({ s4 with line := l5 } : Ed) := ⟨EdWF.mk' hw5 h4.1.saved h4.1.ring, hg5, h4.2.2⟩
              exact wp_refreshLine_inv S U cfg H.hnp h5 fun s6 h6 _ => h6
            cases r with
            | true =>
              simp only [if_true]
              refine wp_moveCursor_inv S U cfg h3 fun s4 h4 hc4 => ?_
              have t := after s4 h4 hc4
              simp only [wp_bind, wp_pure] at t ⊢
              exact t
            | false =>
              simp only [Bool.false_eq_true, if_false, wp_pure]
              have t := after _ h3 rfl
              simp only [wp_bind, wp_pure] at t ⊢
              exact t
      cases hl : lcpChars (cfg.completer s.line.buf s.line.pos).2 with
      | none =>
        simp only [wp_bind, wp_pure]
        have t := tail s h
        simp only [wp_ite, wp_bind, wp_pure] at t ⊢
        exact t
      | some lcp =>
        simp only [wp_bind, wp_ite, wp_exit, wp_pure]
        have hng : ¬ (cfg.completer s.line.buf s.line.pos).1 > s.line.pos := by omega
        rw [if_neg hng]
        split
        · refine wp_lb_replace_inv S U cfg h hcb hcle fun s1 h1 _ _ => ?_
          refine wp_refreshLine_inv S U cfg H.hnp h1 fun s2 h2 _ => ?_
          have t := tail s2 h2
          simp only [wp_ite, wp_bind, wp_pure] at t ⊢
          exact t
        · have t := tail s h
          simp only [wp_ite, wp_bind, wp_pure] at t ⊢
          exact t


/-! ### incremental search -/

theorem safe_searchLoop (H : RdHyp S U cfg) (mark : Nat) (backup : Text) (backupPos : Nat)
    (hbp : IsBoundary backup backupPos) :
    ∀ (fuel : Nat) (sb : Text) (hi : Nat) (d : Dir) (succ : Bool) (s : Ed), RdInv cfg s →
      RSafe cfg (searchLoop S U cfg mark backup backupPos fuel sb hi d succ) s := by
  intro fuel
  induction fuel generalizing mark with
  | zero =>
    intro sb hi d succ s _
    unfold RSafe searchLoop
    simp only [wp_exit]
    intro hh; cases hh
  | succ fuel ih =>
    intro sb hi d succ s h
    unfold RSafe searchLoop
    simp only [wp_bind]
    refine wp_refreshPromptAndLine_inv S U cfg H.hnp _ h fun s2 h2 _ => ?_
    refine wp_nextCmd_inv S U cfg H.hnp h2 fun cmd s3 h3 _ => ?_
    rw [wp_lowerMark]
    have hds : ∀ (mark : Nat) (sb : Text) (hi hi0 : Nat) (d : Dir),
        wp (match (memHist cfg).search sb hi d with
            | some (idx, entry, pos) => do
              lb S U (LB.update S U entry pos)
              searchLoop S U cfg mark backup backupPos fuel sb idx d true
            | none => searchLoop S U cfg mark backup backupPos fuel sb hi0 d false)
          (fun _ s' => RdInv cfg s') PE s3 := by
      intro mark sb hi hi0 d
      cases hs : (memHist cfg).search sb hi d with
      | none => exact ih _ _ _ _ _ s3 h3
      | some r =>
        obtain ⟨idx, entry, pos⟩ := r
        obtain ⟨_, ⟨a, b, he, hoff⟩, _⟩ := C09_search_sound _ _ _ _ _ _ _ hs
        have hb : IsBoundary entry pos := ⟨a, sb ++ b, by rw [he]; simp, hoff⟩
        simp only [wp_bind]
        exact wp_lb_update_inv S U cfg hb h3 fun s4 h4 _ _ => ih _ _ _ _ _ s4 h4
    split
    · exact hds _ _ _ _ _
    · exact ih _ _ _ _ _ s3 h3
    · split
      · exact hds _ _ _ _ _
      · exact ih _ _ _ _ _ s3 h3
    · split
      · exact hds _ _ _ _ _
      · exact ih _ _ _ _ _ s3 h3
    · simp only [wp_bind]
      refine wp_lb_update_inv S U cfg hbp h3 fun s4 h4 _ _ => ?_
      refine wp_refreshLine_inv S U cfg H.hnp h4 fun s5 h5 _ => ?_
      simp only [truncateChanges, wp_modify, wp_pure]
      exact rdinv_changes cfg h5 _
    · simp only [wp_bind]
      refine wp_refreshLine_inv S U cfg H.hnp h3 fun s4 h4 _ => ?_
      simp only [wp_changesEnd, wp_pure]
      exact rdinv_changes cfg h4 _

theorem safe_reverseIncrementalSearch (H : RdHyp S U cfg) (fuel : Nat) {s : Ed} (h : RdInv cfg s) :
    RSafe cfg (reverseIncrementalSearch S U cfg fuel) s := by
  unfold RSafe reverseIncrementalSearch
  split
  · exact h
  · simp only [wp_bind, wp_changesBegin, wp_getLine]
    have hwl : IsBoundary s.line.buf s.line.pos := h.1.line
    exact safe_searchLoop S U cfg H _ _ _ hwl fuel _ _ _ _ _ (rdinv_changes cfg h _)

/-! ### the dispatch loop and the main loop -/

theorem safe_preCmds (H : RdHyp S U cfg) : ∀ (fuel : Nat) (cmd : Cmd) (s : Ed), RdInv cfg s →
    RSafe cfg (preCmds S U cfg fuel cmd) s := by
  intro fuel
  induction fuel with
  | zero =>
    intro cmd s _
    unfold RSafe preCmds
    simp only [wp_exit]
    intro hh; cases hh
  | succ fuel ih =>
    intro cmd s h
    unfold RSafe preCmds
    split
    · rw [wp_bind]
      refine wp_mono (safe_completeLine S U cfg H fuel h) ?_ (fun _ _ h => h)
      intro r s1 h1
      cases r with
      | none => exact h1
      | some next => exact ih next s1 h1
    · split
      · rw [wp_bind]
        refine wp_mono (safe_reverseIncrementalSearch S U cfg H fuel h) ?_ (fun _ _ h => h)
        intro r s1 h1
        cases r with
        | none => exact h1
        | some next => exact ih next s1 h1
      · exact h

/-- `EdWF` safety plus the `canGrow` and input-state frames give safety for the read invariant -/
theorem rsafe_of {α : Type} {m : EM α} {s : Ed} (h1 : Safe cfg m s) (hk : Keeps Ed.grow m)
    (hi : Keeps Ed.inpOf m) (h : RdInv cfg s) : RSafe cfg m s := by
  have h2 := hk.h s
  have h3 := hi.h s
  unfold RSafe Safe wp at *
  cases hr : m s with
  | error e => rw [hr] at h1; exact PE.of_ne h1
  | ok r =>
    rw [hr] at h1 h2 h3
    refine ⟨h1, ?_, ?_⟩
    · have : r.2.line.canGrow = s.line.canGrow := h2
      rw [this]; exact h.2.1
    · intro hv
      have : r.2.inp = s.inp := h3
      rw [this]; exact h.2.2 hv

theorem safe_editInsert_inv (hnp : cfg.hinterPanicAt = none) (c : Char) (n : Nat) {s : Ed} (h : RdInv cfg s) :
    RSafe cfg (editInsert S U cfg c n) s :=
  rsafe_of cfg (safe_editInsert S U cfg hnp c n h.1) (keeps_grow_editInsert S U cfg c n)
    (keeps_inp_editInsert S U cfg c n) h

theorem wp_nextChar_inv {s : Ed} (h : RdInv cfg s) {Q : Char → Ed → Prop}
    (hq : ∀ c s', RdInv cfg s' → Q c s') : wp nextChar Q PE s := by
  unfold wp nextChar
  cases hi : s.input.nextChar with
  | ok r => exact hq _ _ ⟨EdWF.mk' h.1.line h.1.saved h.1.ring, h.2⟩
  | error e => cases e <;> (intro hh; cases hh)

/-- a safe step whose result and input state `RT` describes -/
theorem rsafe_ri {α : Type} {P : α → Prop} {m : EM α} (hk : RT cfg P m) {s : Ed} (hi : RI cfg s)
    (hw : RSafe cfg m s) {Q : α → Ed → Prop} (hq : ∀ a s', RdInv cfg s' → RI cfg s' → P a → Q a s') :
    wp m Q PE s :=
  wp_mono (RT.wp_and cfg hk hi hw) (fun a s' h => hq a s' h.1 h.2.1 h.2.2) (fun _ _ h => h)

/-- the same with a cross-step invariant `J` that the step keeps -/
theorem rsafe_rij {α : Type} {J : Ed → Prop} {P : α → Prop} {m : EM α} (hk : RT cfg P m) {s : Ed} (hi : RI cfg s)
    (hw : RSafe cfg m s) (hj : wp m (fun _ s' => J s') (fun _ _ => True) s) {Q : α → Ed → Prop}
    (hq : ∀ a s', RdInv cfg s' → RI cfg s' → J s' → P a → Q a s') : wp m Q PE s := by
  unfold RSafe wp at *
  cases hm : m s with
  | error e => rw [hm] at hw; exact hw
  | ok r =>
    obtain ⟨a, s'⟩ := r
    rw [hm] at hw hj
    obtain ⟨h1, h2⟩ := hk.h s hi a s' hm
    exact hq a s' hw h1 hj h2

/-- the same with one more fact `X` about the same run -/
theorem rsafe_rijx {α : Type} {J : Ed → Prop} {P : α → Prop} {X : α → Ed → Prop} {m : EM α} (hk : RT cfg P m) {s : Ed}
    (hi : RI cfg s) (hw : RSafe cfg m s) (hj : wp m (fun _ s' => J s') (fun _ _ => True) s)
    (hx : wp m X (fun _ _ => True) s) {Q : α → Ed → Prop}
    (hq : ∀ a s', RdInv cfg s' → RI cfg s' → J s' → P a → X a s' → Q a s') : wp m Q PE s := by
  unfold RSafe wp at *
  cases hm : m s with
  | error e => rw [hm] at hw; exact hw
  | ok r =>
    obtain ⟨a, s'⟩ := r
    rw [hm] at hw hj hx
    obtain ⟨h1, h2⟩ := hk.h s hi a s' hm
    exact hq a s' hw h1 hj h2 hx

/-- a step that keeps the kill ring keeps `NoYank` -/
theorem wp_noYank {α : Type} {m : EM α} (hk : Keeps Ed.ringOf m) {s : Ed} (h : NoYank s) :
    wp m (fun _ s' => NoYank s') (fun _ _ => True) s :=
  wp_mono (hk.wp s) (fun _ _ hr => h.of_ring hr) (fun _ _ _ => trivial)

theorem safe_mainLoop {J : Ed → Prop} (H : RdHyp S U cfg) (K : RdStep S U cfg J) :
    ∀ (fuel : Nat) (s : Ed), RdInv cfg s → RI cfg s → J s → PopI cfg s →
    RSafe cfg (mainLoop S U cfg fuel) s := by
  intro fuel
  induction fuel with
  | zero =>
    intro s _ _ _ _
    unfold RSafe mainLoop
    simp only [wp_exit]
    intro hh; cases hh
  | succ fuel ih =>
    intro s h hi hj hp
    unfold RSafe mainLoop
    rw [wp_bind]
    refine rsafe_rijx cfg (rt_nextCmd S U cfg H.binds fuel false false) hi
      (wp_nextCmd_inv S U cfg H.hnp h fun _ _ h1 _ => h1) (K.next fuel s hj)
      (X := fun _ s' => s'.coreNC = s.coreNC)
      (wp_mono ((keeps_nextCmd S U cfg fuel false false).wp s) (fun _ _ h => h) (fun _ _ _ => trivial))
      fun cmd0 s1 h1 hi1 hj1 hc0 hnc => ?_
    have hp1 : PopI cfg s1 := fun hv =>
      (hp hv).of_eq (Ed.coreNC_eq hnc).1 (Ed.coreNC_eq hnc).2.2.1
    -- resetting the ring's last action keeps the invariant
    have hreset : ∀ s1 : Ed, RdInv cfg s1 → RdInv cfg { s1 with ring := s1.ring.reset } :=
      fun s1 h1 => ⟨EdWF.mk' h1.1.line h1.1.saved (RingOK.reset h1.1.ring), h1.2⟩
    have body : ∀ s2 : Ed, RdInv cfg s2 → RI cfg s2 → J s2 → PopPre cfg cmd0 s2 →
        wp (do
          match ← preCmds S U cfg fuel cmd0 with
          | none => mainLoop S U cfg fuel
          | some cmd =>
            if cmd == .suspend then do
              modify (fun s => { s with suspends := s.suspends + 1 })
              refreshLine S U cfg
              mainLoop S U cfg fuel
            else if cmd == .quotedInsert then do
              let c ← nextChar
              editInsert S U cfg c 1
              mainLoop S U cfg fuel
            else do
              match ← execute S U cfg cmd with
              | .proceed => mainLoop S U cfg fuel
              | .submit => pure ())
          (fun _ s' => RdInv cfg s') PE s2 := by
      intro s2 h2 hi2 hj2 hp2
      rw [wp_bind]
      refine rsafe_rijx cfg (rt_preCmds S U cfg H.binds fuel cmd0 hc0) hi2 (safe_preCmds S U cfg H fuel cmd0 s2 h2)
        (K.pre fuel cmd0 s2 h2 hj2) (pop_preCmds S U cfg fuel cmd0 hp2) ?_
      intro r s3 h3 hi3 hj3 hr hp3
      cases r with
      | none => exact ih s3 h3 hi3 hj3 hp3
      | some cmd =>
        have hcmd : CmdI cfg cmd := hr cmd rfl
        have hp3 : PopPre cfg cmd s3 := hp3
        simp only []
        split
        · simp only [wp_bind, wp_modify]
          have h3' : RdInv cfg { s3 with suspends := s3.suspends + 1 } :=
            ⟨EdWF.mk' h3.1.line h3.1.saved h3.1.ring, h3.2⟩
          have hi3' : RI cfg { s3 with suspends := s3.suspends + 1 } := hi3
          have hpo : PopI cfg { s3 with suspends := s3.suspends + 1 } := fun hv => ((hp3 hv).1 : PopOK s3)
          exact rsafe_rijx cfg (rt_refreshLine S U cfg) hi3'
            (wp_refreshLine_inv S U cfg H.hnp h3' fun _ h4 _ => h4) (K.refresh _ (K.susp s3 hj3))
            (X := fun _ s' => s'.core = ({ s3 with suspends := s3.suspends + 1 } : Ed).core)
            (wp_mono ((keeps_refreshLine S U cfg).wp _) (fun _ _ h => h) (fun _ _ _ => trivial))
            fun _ s4 h4 hi4 hj4 _ hc4 => ih s4 h4 hi4 hj4
              (fun hv => (hpo hv).of_eq (Ed.core_eq hc4).1 (Ed.core_eq hc4).2.2.2.1)
        · split
          · rename_i hq
            have hn3 : cfg.vi = false → NoYank s3 := fun hv => (hp3 hv).2 (by
              have : cmd = .quotedInsert := by simpa using hq
              subst this; rfl)
            rw [wp_bind]
            refine rsafe_rijx cfg (RT.of_keeps keeps_inp_nextChar) hi3
              (wp_nextChar_inv cfg h3 fun _ _ h4 => h4) (K.nextChar s3 hj3)
              (X := fun _ s' => s'.ring = s3.ring)
              (wp_mono (keeps_ring_nextChar.wp s3) (fun _ _ h => h) (fun _ _ _ => trivial))
              fun c s4 h4 hi4 hj4 _ hr4 => ?_
            rw [wp_bind]
            exact rsafe_rijx cfg (RT.of_keeps (keeps_inp_editInsert S U cfg c 1)) hi4
              (safe_editInsert_inv S U cfg H.hnp c 1 h4) (K.insert c s4 hj4)
              (X := fun _ s' => s'.ring = s4.ring)
              (wp_mono ((keeps_ring_editInsert S U cfg c 1).wp s4) (fun _ _ h => h) (fun _ _ _ => trivial))
              fun _ s5 h5 hi5 hj5 _ hr5 => ih s5 h5 hi5 hj5
                (fun hv => (((hn3 hv).of_ring hr4).of_ring hr5).popOK)
          · rw [wp_bind]
            refine wp_mono (RT.wp_and cfg (RT.of_keeps (keeps_inp_execute S U cfg cmd)) hi3 (K.exec cmd s3 hcmd h3 hj3 hp3))
              ?_ (fun _ _ h => h)
            intro st s4 h4
            obtain ⟨⟨h4, hj4, hp4⟩, hi4, _⟩ := h4
            cases st with
            | proceed => exact ih s4 h4 hi4 hj4 hp4
            | submit => exact h4
    split
    · simp only [wp_bind, wp_modify]
      have t := body _ (hreset s1 h1) hi1 (K.reset s1 hj1) (PopPre.of_noYank cfg (noYank_reset s1))
      simp only [wp_bind] at t
      exact t
    · simp only [wp_bind, wp_pure]
      rename_i hnr
      have t := body s1 h1 hi1 hj1 (fun hv => ⟨hp1 hv, fun hr => absurd hr hnr⟩)
      simp only [wp_bind] at t
      exact t


/-! ### the whole read -/

/-- **the only panic of a whole read is D43**, and the state the read ends with exhibits it -/
theorem readline_panic_only_D43 {J : Ed → Prop} (H : RdHyp S U cfg) (K : RdStep S U cfg J) (ring : KillRing) (hr : RingOK ring) (left right : Text)
    (input : Input) :
    (readline S U cfg ring left right input).1 = .panic → D43 (readline S U cfg ring left right input).2 := by
  have h0 : RdInv cfg (initEd cfg ring input) :=
    ⟨⟨isBoundary_zero _, isBoundary_zero _, hr.reset⟩, rfl, fun _ => Int.le_refl 0⟩
  have hw : wp (do
      if !(left.isEmpty && right.isEmpty) then
        lb S U (LB.update S U (left ++ right) (blen left))
      refreshLine S U cfg
      mainLoop S U cfg (input.size + 2)
      editMove S U cfg (LB.moveBufferEnd S U) : EM Unit)
      (fun _ _ => True) PE (initEd cfg ring input) := by
    have hi0 : RI cfg (initEd cfg ring input) := ⟨by show (-32768 : Int) ≤ 0; omega, by show (0 : Int) ≤ 32767; omega, trivial⟩
    have hj0 : J (initEd cfg ring input) := K.init ring input
    have hn0 : NoYank (initEd cfg ring input) := by intro size h; cases h
    have rest : ∀ s1 : Ed, RdInv cfg s1 → RI cfg s1 → J s1 → NoYank s1 →
        wp (do
          refreshLine S U cfg
          mainLoop S U cfg (input.size + 2)
          editMove S U cfg (LB.moveBufferEnd S U) : EM Unit)
        (fun _ _ => True) PE s1 := by
      intro s1 h1 hi1 hj1 hn1
      simp only [wp_bind]
      refine rsafe_rijx cfg (rt_refreshLine S U cfg) hi1
        (wp_refreshLine_inv S U cfg H.hnp h1 fun _ h2 _ => h2) (K.refresh s1 hj1)
        (wp_noYank (keeps_ring_refreshLine S U cfg) hn1) fun _ s2 h2 hi2 hj2 _ hn2 => ?_
      refine wp_mono (safe_mainLoop S U cfg H K _ s2 h2 hi2 hj2 (fun _ => hn2.popOK)) ?_ (fun _ _ h => h)
      intro _ s3 h3
      exact wp_mono (safe_editMove S U cfg (lmsafe_moveBufferEnd S U) h3.1) (fun _ _ _ => trivial) (fun _ _ h => PE.of_ne h)
    simp only []
    split
    · have hb : IsBoundary (left ++ right) (blen left) := isBoundary_mid left right
      rw [wp_bind]
      refine rsafe_rijx cfg (rt_lb S U cfg _) hi0
        (wp_lb_update_inv S U cfg hb h0 fun _ h1 _ _ => h1) (K.initText _ _ _ hj0)
        (wp_noYank (keeps_ring_lb S U _) hn0) fun _ s1 h1 hi1 hj1 _ hn1 => ?_
      have t := rest s1 h1 hi1 hj1 hn1
      simp only [wp_bind] at t ⊢
      exact t
    · have t := rest _ h0 hi0 hj0 hn0
      simp only [wp_bind] at t ⊢
      exact t
  unfold readline
  simp only []
  unfold wp at hw
  split
  · intro hh; cases hh
  · rename_i o s hp
    rw [hp] at hw
    intro ho
    exact hw ho

/-- corollary: a read in which no over-long last insertion is ever re-done does not panic -/
theorem readline_no_panic {J : Ed → Prop} (H : RdHyp S U cfg) (K : RdStep S U cfg J) (ring : KillRing) (hr : RingOK ring) (left right : Text)
    (input : Input) (hd : ¬ D43 (readline S U cfg ring left right input).2) :
    (readline S U cfg ring left right input).1 ≠ .panic :=
  fun hp => hd (readline_panic_only_D43 S U cfg H K ring hr left right input hp)

end
end Rl
