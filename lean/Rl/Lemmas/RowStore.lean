/-
  Lemmas about a row store with holes (`RowStore`, `histGetDir` of Rl/Editor.lean): a strictly
  increasing list of row indices zipped with the entries.  `find?` (nearest row at or after an
  index) and `filter … getLast?` (nearest row at or before) are read as positional look-ups at the
  number of rows below the index.  Used by Props/C07.lean (`C07_rows_simulation`).
-/
import Rl.Editor
namespace Rl.Rows

/-! ### counting the rows below an index -/

/-- if exactly the first `k` elements are below `x`, the number of elements below `x` is `k` -/
theorem count_lt_eq (l : List Nat) (x k : Nat) (hk : k ≤ l.length)
    (hlo : ∀ j (hj : j < l.length), j < k → l[j] < x)
    (hhi : ∀ j (hj : j < l.length), k ≤ j → ¬ l[j] < x) :
    (l.filter (· < x)).length = k := by
  have h1 : (l.take k).filter (· < x) = l.take k := by
    rw [List.filter_eq_self]
    intro a ha
    obtain ⟨j, hj, rfl⟩ := List.mem_take_iff_getElem.mp ha
    have hj' : j < l.length := by omega
    have := hlo j hj' (by omega)
    simpa using this
  have h2 : (l.drop k).filter (· < x) = [] := by
    rw [List.filter_eq_nil_iff]
    intro a ha
    obtain ⟨j, hj, rfl⟩ := List.mem_drop_iff_getElem.mp ha
    have := hhi (k + j) (by omega) (by omega)
    simpa using this
  have h3 : l.filter (· < x) = (l.take k ++ l.drop k).filter (· < x) := by
    rw [List.take_append_drop]
  rw [h3, List.filter_append, h1, h2, List.append_nil, List.length_take]
  omega

theorem sorted_lt {l : List Nat} (h : l.Pairwise (· < ·)) {i j : Nat} (hi : i < l.length)
    (hj : j < l.length) (hij : i < j) : l[i] < l[j] :=
  List.pairwise_iff_getElem.mp h i j hi hj hij

theorem sorted_le {l : List Nat} (h : l.Pairwise (· < ·)) {i j : Nat} (hi : i < l.length)
    (hj : j < l.length) (hij : i ≤ j) : l[i] ≤ l[j] := by
  by_cases he : i = j
  · subst he; exact Nat.le_refl _
  · exact Nat.le_of_lt (sorted_lt h hi hj (by omega))

/-- indices of a strictly increasing list are injective -/
theorem sorted_inj {l : List Nat} (h : l.Pairwise (· < ·)) {i j : Nat} (hi : i < l.length)
    (hj : j < l.length) (he : l[i] = l[j]) : i = j := by
  by_cases h1 : i < j
  · have := sorted_lt h hi hj h1; omega
  · by_cases h2 : j < i
    · have := sorted_lt h hj hi h2; omega
    · omega

/-- the `k`-th row has `k` rows below it -/
theorem count_lt_getElem {l : List Nat} (h : l.Pairwise (· < ·)) (k : Nat) (hk : k < l.length) :
    (l.filter (· < l[k])).length = k :=
  count_lt_eq l _ k (Nat.le_of_lt hk) (fun _ hj hjk => sorted_lt h hj hk hjk)
    (fun _ hj hkj => Nat.not_lt.mpr (sorted_le h hk hj hkj))

/-- one past the `k`-th row there are `k + 1` rows below -/
theorem count_lt_getElem_succ {l : List Nat} (h : l.Pairwise (· < ·)) (k : Nat) (hk : k < l.length) :
    (l.filter (· < l[k] + 1)).length = k + 1 :=
  count_lt_eq l _ (k + 1) hk
    (fun j hj hjk => Nat.lt_succ_of_le (sorted_le h hj hk (by omega)))
    (fun j hj hkj => by have := sorted_lt h hk hj (by omega); omega)

/-- a bound of all rows has all rows below it -/
theorem count_lt_of_bound {l : List Nat} {x : Nat} (hb : ∀ i ∈ l, i < x) :
    (l.filter (· < x)).length = l.length := by
  rw [List.filter_eq_self.mpr]
  intro a ha
  simpa using hb a ha

theorem count_lt_zero (l : List Nat) : (l.filter (· < 0)).length = 0 := by simp

/-! ### the two look-ups of `SQLiteHistory::get` as positional look-ups -/

theorem zip_getElem? {α : Type} (idx : List Nat) (es : List α) (k : Nat) (h1 : k < idx.length)
    (h2 : k < es.length) : (idx.zip es)[k]? = some (idx[k], es[k]) := by
  rw [List.getElem?_zip_eq_some]
  simp [h1, h2]

/-- `rowid >= i ORDER BY rowid ASC LIMIT 1`: the row at the position "number of rows below `i`" -/
theorem find_forward {α : Type} (idx : List Nat) (es : List α) (h : idx.Pairwise (· < ·)) (i : Nat) :
    (idx.zip es).find? (fun p => decide (i ≤ p.1)) = (idx.zip es)[(idx.filter (· < i)).length]? := by
  induction idx generalizing es with
  | nil => simp
  | cons a t ih =>
    cases es with
    | nil => simp
    | cons e es =>
      rw [List.pairwise_cons] at h
      by_cases ha : i ≤ a
      · have ht : t.filter (· < i) = [] := by
          rw [List.filter_eq_nil_iff]
          intro b hb
          have := h.1 b hb
          simp only [decide_eq_true_eq]
          omega
        have ha' : ¬ a < i := by omega
        simp [ha, ha', ht]
      · have ha' : a < i := by omega
        simp [ha, ha', ih es h.2]

/-- the rows at or before `i` are a prefix of the rows -/
theorem filter_reverse_eq_take {α : Type} (idx : List Nat) (es : List α) (h : idx.Pairwise (· < ·))
    (i : Nat) :
    (idx.zip es).filter (fun p => decide (p.1 ≤ i)) =
      (idx.zip es).take (idx.filter (· < i + 1)).length := by
  induction idx generalizing es with
  | nil => simp
  | cons a t ih =>
    cases es with
    | nil => simp
    | cons e es =>
      rw [List.pairwise_cons] at h
      by_cases ha : a ≤ i
      · have ha' : a < i + 1 := by omega
        simp [ha, ha', ih es h.2]
      · have ha' : ¬ a < i + 1 := by omega
        have ht : t.filter (· < i + 1) = [] := by
          rw [List.filter_eq_nil_iff]
          intro b hb
          have := h.1 b hb
          simp only [decide_eq_true_eq]
          omega
        have hz : (t.zip es).filter (fun p => decide (p.1 ≤ i)) = [] := by
          rw [List.filter_eq_nil_iff]
          intro p hp
          have := h.1 p.1 (List.of_mem_zip hp).1
          simp only [decide_eq_true_eq]
          omega
        simp [ha, ha', ht, hz]

/-- `rowid <= i ORDER BY rowid DESC LIMIT 1`: the row just before the position "number of rows
    below `i + 1`", none when there is no such row -/
theorem filter_reverse_getLast? {α : Type} (idx : List Nat) (es : List α) (h : idx.Pairwise (· < ·))
    (hlen : idx.length = es.length) (i : Nat) :
    ((idx.zip es).filter (fun p => decide (p.1 ≤ i))).getLast? =
      if (idx.filter (· < i + 1)).length = 0 then none
      else (idx.zip es)[(idx.filter (· < i + 1)).length - 1]? := by
  rw [filter_reverse_eq_take idx es h i, List.getLast?_take]
  split
  · rfl
  · next hc =>
    have hle : (idx.filter (· < i + 1)).length ≤ idx.length := List.length_filter_le _ _
    have hlt : (idx.filter (· < i + 1)).length - 1 < idx.length := by omega
    rw [zip_getElem? idx es _ hlt (by omega)]
    rfl

/-! ### equation lemmas for the editor model's view of the SQLite back end -/

theorem histLen_rows (cfg : EdCfg) (r : RowStore) (hr : cfg.histRows = some r) : histLen cfg = r.len := by
  unfold histLen
  rw [hr]

theorem histGetDir_forward_rows (cfg : EdCfg) (r : RowStore) (hr : cfg.histRows = some r)
    (hs : r.idx.Pairwise (· < ·)) (hl : r.len ≠ 0) (i : Nat) :
    histGetDir cfg i .forward = (r.idx.zip cfg.hist)[(r.idx.filter (· < i)).length]? := by
  unfold histGetDir
  rw [hr]
  have : (r.len == 0) = false := by simp [hl]
  simp only [this, Bool.false_eq_true, if_false]
  exact find_forward r.idx cfg.hist hs i

theorem histGetDir_reverse_rows (cfg : EdCfg) (r : RowStore) (hr : cfg.histRows = some r)
    (hs : r.idx.Pairwise (· < ·)) (hlen : r.idx.length = cfg.hist.length) (hl : r.len ≠ 0) (i : Nat) :
    histGetDir cfg i .reverse =
      if (r.idx.filter (· < i + 1)).length = 0 then none
      else (r.idx.zip cfg.hist)[(r.idx.filter (· < i + 1)).length - 1]? := by
  unfold histGetDir
  rw [hr]
  have : (r.len == 0) = false := by simp [hl]
  simp only [this, Bool.false_eq_true, if_false]
  exact filter_reverse_getLast? r.idx cfg.hist hs hlen i

end Rl.Rows
