/-
  A stack whose markers are balanced is well nested (`Nested`), so its top is one undo unit.
  `OpenN d us`: `us` (most recent first) has exactly `d` unmatched `Begin`s, everything between them
  well nested.
-/
import Rl.Lemmas.Undo
namespace Rl

inductive OpenN : Nat → List Change → Prop
  | closed (l : List Change) : Nested l → OpenN 0 l
  | opened (d : Nat) (a l : List Change) : Nested a → OpenN d l → OpenN (d + 1) (a ++ .begin :: l)

theorem openN_cons_change {ch : Change} (hm : ch.isMarker = false) {d : Nat} {l : List Change}
    (h : OpenN d l) : OpenN d (ch :: l) := by
  cases h with
  | closed l hn => exact .closed _ (.change ch l hm hn)
  | opened d a l ha hl => exact .opened d (ch :: a) l (.change ch a hm ha) hl

theorem openN_cons_end {d : Nat} {l : List Change} (h : OpenN (d + 1) l) : OpenN d (.end_ :: l) := by
  cases h with
  | opened _ a l ha hl =>
    cases hl with
    | closed l hn => exact .closed _ (.group a l ha hn)
    | opened d b l' hb hl' =>
      have : Change.end_ :: (a ++ Change.begin :: (b ++ Change.begin :: l')) =
          (Change.end_ :: a ++ Change.begin :: b) ++ Change.begin :: l' := by simp
      rw [this]
      exact .opened d _ l' (.group a b ha hb) hl'

theorem openN_of_depth : ∀ (us : List Change) (d : Nat), depth us = some d → OpenN d us := by
  intro us
  induction us with
  | nil => intro d h; simp only [depth, Option.some.injEq] at h; subst h; exact .closed _ .nil
  | cons ch rest ih =>
    intro d h
    simp only [depth] at h
    cases hd : depth rest with
    | none => rw [hd] at h; cases h
    | some d' =>
      rw [hd] at h
      have ih' := ih d' hd
      cases ch with
      | begin =>
        simp only [Option.some.injEq] at h; subst h
        exact .opened d' [] rest .nil ih'
      | end_ =>
        simp only at h
        split at h
        · cases h
        · simp only [Option.some.injEq] at h; subst h
          cases d' with
          | zero => contradiction
          | succ k => exact openN_cons_end ih'
      | insert i t => simp only [Option.some.injEq] at h; subst h; exact openN_cons_change rfl ih'
      | delete i t => simp only [Option.some.injEq] at h; subst h; exact openN_cons_change rfl ih'
      | replace i o t => simp only [Option.some.injEq] at h; subst h; exact openN_cons_change rfl ih'

/-- a stack with no unmatched marker is well nested -/
theorem nested_of_depth_zero {us : List Change} (h : depth us = some 0) : Nested us := by
  have := openN_of_depth us 0 h
  cases this with
  | closed _ hn => exact hn

/-- a well-nested stretch on top of a stack does not change its marker depth -/
theorem depth_nested_append {a : List Change} (ha : Nested a) : ∀ k : List Change, depth (a ++ k) = depth k := by
  induction ha with
  | nil => intro k; rfl
  | change ch l hm _ ih => intro k; rw [List.cons_append, depth_cons_nonmarker hm]; exact ih k
  | group x y _ _ ihx ihy =>
    intro k
    have e : (Change.end_ :: x ++ Change.begin :: y) ++ k = Change.end_ :: (x ++ Change.begin :: (y ++ k)) := by simp
    rw [e]
    simp only [depth]
    rw [ihx (Change.begin :: (y ++ k))]
    simp only [depth]
    rw [ihy k]
    cases depth k with
    | none => rfl
    | some d => simp

theorem depth_of_nested {a : List Change} (ha : Nested a) : depth a = some 0 := by
  have := depth_nested_append ha []
  simpa [depth] using this

end Rl
