/-
  Helper lemmas for C02: the grapheme loop of `calculate_position` simulates the terminal's cursor.
-/
import Rl.Layout
import Rl.Term
import Rl.Render
namespace Rl

/-- a grapheme of the kind the property quantifies over: a line break, or a printable base character
    followed by zero-width characters, whose cluster width is the width of its base character and
    fits the terminal -/
def PlainG (R : RCfg) (g : Text) : Prop :=
  g = ['\n'] ∨
  ∃ c rest, g = c :: rest ∧ isC0Control c = false ∧ (∀ r ∈ rest, isC0Control r = false ∧ R.cw r = 0) ∧
    R.gw g = R.cw c ∧ R.cw c ≤ R.cols

/-- the loop state `p` of `calculate_position` and the terminal cursor agree
    (`col = cols` ⇔ the wrap is pending on the last column) -/
def Tracks (R : RCfg) (p : Pos) (t : Term) : Prop :=
  t.cols = R.cols ∧ t.ps = .ground ∧ t.cr = p.row ∧
  ((p.col < R.cols ∧ t.cc = p.col ∧ t.pending = false) ∨
   (p.col = R.cols ∧ t.cc = R.cols - 1 ∧ t.pending = true))

theorem Term.feed_append (cw : Char → Nat) (t : Term) (a b : Text) :
    t.feed cw (a ++ b) = (t.feed cw a).feed cw b := by
  simp [Term.feed, List.foldl_append]

theorem Term.feed_cons (cw : Char → Nat) (t : Term) (c : Char) (s : Text) :
    t.feed cw (c :: s) = (t.step cw c).feed cw s := rfl

theorem Term.feed_nil (cw : Char → Nat) (t : Term) : t.feed cw [] = t := rfl

/-- attaching a zero-width character changes cells only -/
theorem attach_frame (t : Term) (ch : Char) :
    (t.attach ch).cols = t.cols ∧ (t.attach ch).ps = t.ps ∧ (t.attach ch).cr = t.cr ∧
    (t.attach ch).cc = t.cc ∧ (t.attach ch).pending = t.pending := by
  unfold Term.attach
  cases t.attachCol <;> simp

theorem tracks_attach {R : RCfg} {p : Pos} {t : Term} (h : Tracks R p t) (ch : Char) :
    Tracks R p (t.attach ch) := by
  obtain ⟨a, b, c, d, e⟩ := attach_frame t ch
  unfold Tracks at *
  rw [a, b, c, d, e]; exact h

/-- zero-width followers of a base character do not move the cursor -/
theorem tracks_feed_zero {R : RCfg} {p : Pos} (rest : Text)
    (hz : ∀ r ∈ rest, isC0Control r = false ∧ R.cw r = 0) :
    ∀ {t : Term}, Tracks R p t → Tracks R p (t.feed R.cw rest) := by
  induction rest with
  | nil => intro t h; exact h
  | cons r rest ih =>
    intro t h
    rw [Term.feed_cons]
    apply ih (fun x hx => hz x (List.mem_cons_of_mem _ hx))
    have hr := hz r (List.mem_cons_self)
    have hps : t.ps = .ground := h.2.1
    have : t.step R.cw r = t.attach r := by
      simp [Term.step, hps, hr.1, hr.2, Term.print]
    rw [this]
    exact tracks_attach h r

/-- the position after one grapheme of width `w` (the wrap rule of `calculate_position`) -/
def advance (R : RCfg) (p : Pos) (w : Nat) : Pos :=
  if p.col + w > R.cols then { row := p.row + 1, col := w } else { row := p.row, col := p.col + w }

/-- printing a character of width `w ≤ cols` moves the terminal cursor as the loop says -/
theorem tracks_print {R : RCfg} {p : Pos} {t : Term} (h : Tracks R p t) (hc : 2 ≤ R.cols)
    (w : Nat) (hw : w ≤ R.cols) (ch : Char) :
    Tracks R (advance R p w) (t.print w ch) := by
  obtain ⟨hcols, hps, hrow, hcase⟩ := h
  by_cases hw0 : w = 0
  · subst hw0
    have : advance R p 0 = p := by
      unfold advance
      rcases hcase with ⟨h1, _, _⟩ | ⟨h1, _, _⟩ <;> simp <;> omega
    rw [this]
    have : t.print 0 ch = t.attach ch := by simp [Term.print]
    rw [this]
    exact tracks_attach ⟨hcols, hps, hrow, hcase⟩ ch
  · have hwp : 0 < w := Nat.pos_of_ne_zero hw0
    unfold Term.print advance Tracks
    simp only [hw0, beq_iff_eq, if_false, Bool.false_eq_true]
    rcases hcase with ⟨h1, h2, h3⟩ | ⟨h1, h2, h3⟩
    · by_cases hwrap : p.col + w > R.cols
      · have hwr : (t.pending || decide (t.cc + w > t.cols)) = true := by
          simp [h3, h2, hcols]; omega
        simp only [hwr, if_true, hwrap]
        by_cases hfull : 0 + w ≥ t.cols
        · simp only [hfull, if_true]
          simp [hcols, hps, hrow]; omega
        · simp only [hfull, if_false]
          simp [hcols, hps, hrow]; omega
      · have hwr : (t.pending || decide (t.cc + w > t.cols)) = false := by
          simp [h3, h2, hcols]; omega
        simp only [hwr, hwrap, if_false, Bool.false_eq_true]
        by_cases hfull : t.cc + w ≥ t.cols
        · simp only [hfull, if_true]
          simp [hcols, hps, hrow]; omega
        · simp only [hfull, if_false]
          simp [hcols, hps, hrow]; omega
    · have hwrap : p.col + w > R.cols := by omega
      have hwr : (t.pending || decide (t.cc + w > t.cols)) = true := by simp [h3]
      simp only [hwr, if_true, hwrap]
      by_cases hfull : 0 + w ≥ t.cols
      · simp only [hfull, if_true]
        simp [hcols, hps, hrow]; omega
      · simp only [hfull, if_false]
        simp [hcols, hps, hrow]; omega

/-- one iteration of the loop on a plain grapheme, skipper idle -/
theorem posStep_plain {R : RCfg} {p : Pos} {g : Text} (c : Char) (rest : Text) (hg : g = c :: rest)
    (hc : isC0Control c = false) (hgw : R.gw g = R.cw c) :
    posStep R (p, 0) g = (advance R p (R.cw c), 0) := by
  have hne : ∀ x : Char, isC0Control x = true → g ≠ [x] := by
    intro x hx h
    rw [hg] at h
    injection h with h1 _
    rw [h1, hx] at hc
    exact absurd hc (by simp)
  have h1 : g ≠ ['\n'] := hne '\n' (by decide)
  have h2 : g ≠ ['\t'] := hne '\t' (by decide)
  have h3 : g ≠ ['\x1b'] := hne '\x1b' (by decide)
  simp only [posStep, widthEsc, h1, h2, h3, advance, hgw, beq_iff_eq, if_false]
  simp
  split <;> rfl

/-- a grapheme of the quantified kind: the loop step and the terminal agree -/
theorem tracks_grapheme {R : RCfg} {p : Pos} {t : Term} (h : Tracks R p t) (hc : 2 ≤ R.cols)
    {g : Text} (hg : PlainG R g) :
    (posStep R (p, 0) g).2 = 0 ∧ Tracks R (posStep R (p, 0) g).1 (t.feed R.cw g) := by
  rcases hg with rfl | ⟨c, rest, rfl, hcc, hrest, hgw, hfit⟩
  · refine ⟨by simp [posStep], ?_⟩
    obtain ⟨hcols, hps, hrow, _⟩ := h
    have : t.feed R.cw ['\n'] = { t with cr := t.cr + 1, cc := 0, pending := false } := by
      simp [Term.feed, Term.step, hps, isC0Control, Term.control]
    rw [this]
    simp only [posStep, if_true, beq_self_eq_true]
    exact ⟨hcols, hps, by simp [hrow], Or.inl ⟨by simp; omega, rfl, rfl⟩⟩
  · rw [posStep_plain c rest rfl hcc hgw]
    refine ⟨rfl, ?_⟩
    rw [Term.feed_cons]
    have hps : t.ps = .ground := h.2.1
    have : t.step R.cw c = t.print (R.cw c) c := by simp [Term.step, hps, hcc]
    rw [this]
    exact tracks_feed_zero rest hrest (tracks_print h hc _ hfit c)

/-- the whole loop -/
theorem tracks_loop {R : RCfg} (hc : 2 ≤ R.cols) (gs : List Text) (hgs : ∀ g ∈ gs, PlainG R g) :
    ∀ {p : Pos} {t : Term}, Tracks R p t →
      (posLoop R gs (p, 0)).2 = 0 ∧ Tracks R (posLoop R gs (p, 0)).1 (t.feed R.cw gs.flatten) := by
  induction gs with
  | nil => intro p t h; exact ⟨rfl, h⟩
  | cons g gs ih =>
    intro p t h
    obtain ⟨he, ht⟩ := tracks_grapheme h hc (hgs g List.mem_cons_self)
    have := ih (fun x hx => hgs x (List.mem_cons_of_mem _ hx)) ht
    simp only [posLoop, List.foldl_cons, List.flatten_cons, Term.feed_append] at *
    have hst : posStep R (p, 0) g = ((posStep R (p, 0) g).1, 0) := Prod.ext rfl he
    rw [hst]
    exact this

end Rl
