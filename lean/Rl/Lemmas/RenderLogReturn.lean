/-
  The render log at the moment a read RETURNS with a line (C02, "when the read returns …"):
  `Rl/Lemmas/RenderLogTop.lean` proves that the log of a whole read replays coherently, and forgets what the
  replay shows at the end.  Here the invariant `Sh` (the screen shows the read's own prompt, the current line
  and cursor, with the current hint or none) is kept for the state in which `readline_edit` returns `Ok`, and
  the final `edit_move_buffer_end` is shown to leave the cursor of the line buffer at the end of the buffer.
-/
import Rl.Lemmas.RenderLogTop
namespace Rl
open EM

section
variable (S : Segmenter) (U : UData) (cfg : EdCfg)

/-- the body of `readline_edit` as `Rl.readline` runs it (initial text, first repaint, main loop, final
    `edit_move_buffer_end`) -/
def readProg (left right : Text) (input : Input) : EM Unit := do
  if !(left.isEmpty && right.isEmpty) then
    lb S U (LB.update S U (left ++ right) (blen left))
  refreshLine S U cfg
  mainLoop S U cfg (input.size + 2)
  editMove S U cfg (LB.moveBufferEnd S U)

/-- `Rl.readline` is `readProg` from the initial state plus the final `writeln` -/
theorem readline_eq_readProg (ring : KillRing) (left right : Text) (input : Input) :
    readline S U cfg ring left right input =
      match readProg S U cfg left right input (initEd cfg ring input) with
      | .ok (_, s) => (.line s.line.buf, { s with render := .writeln :: s.render })
      | .error (o, s) => (o, { s with render := .writeln :: s.render }) := rfl

variable {S U cfg}

/-- after `edit_move_buffer_end` the cursor of the line buffer is at the end of the buffer -/
theorem editMove_bufferEnd_pos {s s' : Ed}
    (h : editMove S U cfg (LB.moveBufferEnd S U) s = .ok ((), s')) : s'.line.pos = blen s'.line.buf := by
  unfold editMove at h
  rw [EM.bind_apply] at h
  cases hq : lbQuiet (LB.moveBufferEnd S U) s with
  | error e => rw [hq] at h; cases h
  | ok r =>
    obtain ⟨moved, s1⟩ := r
    rw [hq] at h
    simp only [] at h
    have h1 : s1.line.pos = blen s1.line.buf := by
      unfold lbQuiet at hq
      cases hop : LB.moveBufferEnd S U s.line with
      | error e => rw [hop] at hq; cases hq
      | ok r2 =>
        obtain ⟨a, l, ns⟩ := r2
        rw [hop] at hq
        simp only [] at hq
        injection hq with hq
        simp only [Prod.mk.injEq] at hq
        obtain ⟨_, rfl⟩ := hq
        show l.pos = blen l.buf
        unfold LB.moveBufferEnd at hop
        simp only [bind, pure, LM.bind', LM.pure', LM.get, LM.setPos] at hop
        by_cases hp : (s.line.pos == s.line.len) = true
        · simp only [hp] at hop
          injection hop with hop; simp only [Prod.mk.injEq] at hop; obtain ⟨_, rfl, _⟩ := hop
          simpa [LB.len] using hp
        · simp only [hp] at hop
          injection hop with hop; simp only [Prod.mk.injEq] at hop; obtain ⟨_, rfl, _⟩ := hop
          rfl
    by_cases hm : moved = true
    · simp only [hm, if_true] at h
      obtain ⟨s2, h2, hcore⟩ := moveCursor_returns S U cfg s1
      rw [h2] at h
      injection h with h; simp only [Prod.mk.injEq] at h; obtain ⟨_, rfl⟩ := h
      have : s2.line = s1.line := congrArg Core.line hcore
      rw [this]; exact h1
    · simp only [hm] at h
      injection h with h; simp only [Prod.mk.injEq] at h; obtain ⟨_, rfl⟩ := h
      exact h1

variable (hc : 2 ≤ cfg.cols) (hprompt : C02_Plain S (edR U cfg) cfg.prompt)
variable (hnext : ∀ fuel sea iep, Pres S U cfg (Sh S U cfg) (nextCmd S U cfg fuel sea iep))
variable (hcl : ∀ fuel, Pres S U cfg (Sh S U cfg) (completeLine S U cfg fuel))
variable (hctl : ∀ c, isC0Control c = true → U.cwidth c = 0)
variable (hexec : ∀ cmd, Pres S U cfg (Sh S U cfg) (execute S U cfg cmd))
include hc hprompt hnext hcl hctl hexec

/-- `readline_prog_logOK` without forgetting: on a normal return the screen invariant `Sh` holds -/
theorem readProg_sh (ring : KillRing) (left right : Text) (input : Input) :
    wp (readProg S U cfg left right input)
      (fun _ s' => Sh S U cfg s') (fun _ s' => LogOK S U cfg s') (initEd cfg ring input) := by
  have h0 : LogInv S U cfg (initEd cfg ring input) := by
    intro _
    exact ⟨_, _, Rep.nil, rfl, plain_nil⟩
  have hrest : Est S U cfg (do
      refreshLine S U cfg
      mainLoop S U cfg (input.size + 2)
      editMove S U cfg (LB.moveBufferEnd S U) : EM Unit) :=
    Est.bind_pres (est_refreshLine hc hprompt) fun _ =>
      Pres.bind (pres_mainLoop hc hprompt hnext hcl hctl hexec _) fun _ =>
        pres_editMove hc hprompt (moveOK_moveBufferEnd hc hprompt)
  have hall : Est S U cfg (readProg S U cfg left right input) := by
    unfold readProg
    simp only []
    split
    · exact Est.bind_keeps (lk_lb _) fun _ => hrest
    · exact hrest
  exact hall.h _ h0

/-- … and the cursor of the line buffer is at its end -/
theorem readProg_returns (ring : KillRing) (left right : Text) (input : Input) {s : Ed}
    (h : readProg S U cfg left right input (initEd cfg ring input) = .ok ((), s)) :
    Sh S U cfg s ∧ s.line.pos = blen s.line.buf := by
  have hsh : Sh S U cfg s := by
    have hw := readProg_sh hc hprompt hnext hcl hctl hexec ring left right input
    unfold wp at hw
    rw [h] at hw
    exact hw
  refine ⟨hsh, ?_⟩
  -- the last step of the program is `edit_move_buffer_end`
  have inv : ∀ {α β : Type} (m : EM α) (f : α → EM β) (s0 s : Ed) (b : β),
      (m >>= f) s0 = .ok (b, s) → ∃ a s1, m s0 = .ok (a, s1) ∧ f a s1 = .ok (b, s) := by
    intro α β m f s0 s b hp
    rw [EM.bind_apply] at hp
    cases hpre : m s0 with
    | error e => rw [hpre] at hp; cases hp
    | ok r => obtain ⟨a, s1⟩ := r; rw [hpre] at hp; exact ⟨a, s1, rfl, hp⟩
  unfold readProg at h
  simp only [] at h
  split at h
  · obtain ⟨_, _, _, h⟩ := inv _ _ _ _ _ h
    obtain ⟨_, _, _, h⟩ := inv _ _ _ _ _ h
    obtain ⟨_, _, _, h⟩ := inv _ _ _ _ _ h
    exact editMove_bufferEnd_pos h
  · obtain ⟨_, _, _, h⟩ := inv _ _ _ _ _ h
    obtain ⟨_, _, _, h⟩ := inv _ _ _ _ _ h
    exact editMove_bufferEnd_pos h

end

/-- the `writeln` after `readline_edit` appends one newline to what a non-panicking replay wrote -/
theorem RS.run_snoc_writeln (S : Segmenter) (R : RCfg) (prompt : Text) (ops : List RenderOp) :
    ∀ (s rs : RS), RS.run S R prompt s ops = (rs, false) →
      RS.run S R prompt s (ops ++ [.writeln]) = (rs.emit ['\n'], false) := by
  induction ops with
  | nil => intro s rs h; simp only [RS.run] at h; injection h with h1 _; subst h1; rfl
  | cons op ops ih =>
    intro s rs h
    simp only [List.cons_append, RS.run] at h ⊢
    cases happ : s.apply S R prompt op with
    | error e => rw [happ] at h; simp at h
    | ok s' => rw [happ] at h; exact ih s' rs h

end Rl
