/-
  C14: the circular completion loop of the editor model (`completeCircular`, `completeLine` in
  Rl/Editor.lean) against the spec (`Spec.shownFor` / `Spec.spliceCand` in Rl/Spec/OracleComplete.lean).

  The original line is `x ++ y ++ z` with the completer's start at `blen x` and the cursor at
  `blen x + blen y` (every start on a boundary at or before a cursor on a boundary has this form).
-/
import Rl.Lemmas.EditorLoops
import Rl.Lemmas.Keymap
import Rl.Spec.OracleComplete
namespace Rl
variable (S : Segmenter) (U : UData) (cfg : EdCfg)

theorem compNext_le (n i : Nat) : compNext n i ≤ n := by
  unfold compNext
  have : (i + 1) % (n + 1) < n + 1 := Nat.mod_lt _ (by omega)
  omega

theorem compPrev_le (n i : Nat) (_h : i ≤ n) : compPrev n i ≤ n := by
  unfold compPrev
  split
  · omega
  · have : (i - 1) % (n + 1) < n + 1 := Nat.mod_lt _ (by omega)
    omega

/-! ### the spec's view -/

/-- the spec state of a completion started on `backup` with the cursor at `backupPos`, showing index `i` -/
def compSt (start : Nat) (cands : List Text) (backup : Text) (backupPos : Nat) (i : Nat) : Spec.CompSt :=
  { start := start, cands := cands, i := i, backup := (backup, backupPos), tail := Spec.dropB backup backupPos }

theorem takeB_append (x r : Text) : Spec.takeB (x ++ r) (blen x) = x := by
  simp [Spec.takeB, splitAtByte_append]

theorem dropB_append3 (x y z : Text) : Spec.dropB (x ++ y ++ z) (blen x + blen y) = z := by
  have := splitAtByte_append (x ++ y) z
  simp only [blen_append] at this
  unfold Spec.dropB
  rw [this]

theorem spliceCand_compSt (x y z : Text) (cands : List Text) (i : Nat) (c : Text) :
    Spec.spliceCand (compSt (blen x) cands (x ++ y ++ z) (blen x + blen y) i) c =
      (x ++ c ++ z, blen x + blen c) := by
  simp only [Spec.spliceCand, compSt, dropB_append3]
  rw [List.append_assoc x y z, takeB_append]

/-- what the spec prescribes for index `i` (index `cands.length` = the original text), spelled out -/
theorem shownFor_compSt (x y z : Text) (cands : List Text) (i : Nat) :
    Spec.shownFor (compSt (blen x) cands (x ++ y ++ z) (blen x + blen y) i) =
      match cands[i]? with
      | some c => (x ++ c ++ z, blen x + blen c)
      | none => (x ++ y ++ z, blen x + blen y) := by
  unfold Spec.shownFor
  show (match cands[i]? with | some c => _ | none => _) = _
  cases h : cands[i]? with
  | none => rfl
  | some c => exact spliceCand_compSt x y z cands i c

/-! ### `replace(start..pos, c)` on a line of the form `x ++ mid ++ z` with the cursor after `mid` -/

theorem LB.replace_span (x mid z c : Text) (l : LB) (hb : l.buf = x ++ mid ++ z) (hp : l.pos = blen x + blen mid) :
    LB.replace S U (blen x) l.pos c l = .ok ((),
      { l with buf := x ++ c ++ z, pos := blen x + blen c, cap := growCap l.cap (blen x + blen z + blen c) },
      [.repl (blen x) mid c]) := by
  unfold LB.replace
  rw [hb, hp, split3_append]

/-- the line is the original one with the span between start and cursor rewritten to something -/
def SpanOnly (x z : Text) (s : Ed) : Prop :=
  ∃ mid, s.line.buf = x ++ mid ++ z ∧ s.line.pos = blen x + blen mid

/-- the line shows what the spec prescribes for index `i` -/
def Shows (x y z : Text) (cands : List Text) (i : Nat) (s : Ed) : Prop :=
  (s.line.buf, s.line.pos) = Spec.shownFor (compSt (blen x) cands (x ++ y ++ z) (blen x + blen y) i)

theorem Shows.spanOnly {x y z : Text} {cands : List Text} {i : Nat} {s : Ed} (h : Shows x y z cands i s) :
    SpanOnly x z s := by
  unfold Shows at h
  rw [shownFor_compSt] at h
  cases hc : cands[i]? with
  | none => rw [hc] at h; simp only [Prod.mk.injEq] at h; exact ⟨y, h.1, h.2⟩
  | some c => rw [hc] at h; simp only [Prod.mk.injEq] at h; exact ⟨c, h.1, h.2⟩

/-- not one of the three keys the circular loop handles itself -/
def Cmd.endsCompletion (cmd : Cmd) : Prop := cmd ≠ .complete ∧ cmd ≠ .completeBackward ∧ cmd ≠ .abort

/-- **circular completion, every exit**: started at a loop head with index `i ≤ n` on a line that is the
    original one with only the span rewritten, the loop ends either with `none` and the original text and
    cursor, or with `some cmd` (a command the loop does not handle) and the line showing what the spec
    prescribes for some index `j ≤ n` — in particular text before the start and after the original cursor
    is intact. -/
theorem completeCircular_shows (x y z : Text) (cands : List Text) (mark : Nat) :
    ∀ (fuel i : Nat) (s : Ed), i ≤ cands.length → s.line.canGrow = true → SpanOnly x z s →
      wp (completeCircular S U cfg (blen x) cands mark (x ++ y ++ z) (blen x + blen y) fuel i)
        (fun r s' => s'.line.canGrow = true ∧
          match r with
          | none => s'.line.buf = x ++ y ++ z ∧ s'.line.pos = blen x + blen y
          | some cmd => Cmd.endsCompletion cmd ∧ ∃ j, j ≤ cands.length ∧ Shows x y z cands j s')
        (fun _ _ => True) s := by
  have hbp : blen x + blen y ≤ blen (x ++ y ++ z) := by simp
  intro fuel
  induction fuel generalizing mark with
  | zero => intro i s _ _ _; unfold completeCircular; exact trivial
  | succ fuel ih =>
    intro i s hi hg hs
    obtain ⟨mid, hb, hp⟩ := hs
    unfold completeCircular
    simp only []
    -- after the show step the line shows index `i`
    have rest : ∀ s1 : Ed, s1.line.canGrow = true → Shows x y z cands i s1 →
        wp (do
          refreshLine S U cfg
          let cmd ← nextCmd S U cfg fuel true true
          let mark ← lowerMark mark
          match cmd with
          | .complete => completeCircular S U cfg (blen x) cands mark (x ++ y ++ z) (blen x + blen y) fuel (compNext cands.length i)
          | .completeBackward => completeCircular S U cfg (blen x) cands mark (x ++ y ++ z) (blen x + blen y) fuel (compPrev cands.length i)
          | .abort => do
            if i < cands.length then do
              lb S U (LB.update S U (x ++ y ++ z) (blen x + blen y))
              refreshLine S U cfg
            truncateChanges mark
            pure none
          | _ => do
            let _ ← changesEnd
            pure (some cmd))
          (fun r s' => s'.line.canGrow = true ∧
            match r with
            | none => s'.line.buf = x ++ y ++ z ∧ s'.line.pos = blen x + blen y
            | some cmd => Cmd.endsCompletion cmd ∧ ∃ j, j ≤ cands.length ∧ Shows x y z cands j s')
          (fun _ _ => True) s1 := by
      intro s1 hg1 hs1
      simp only [wp_bind]
      refine wp_refreshLine S U cfg (fun s2 hc2 => ?_) (fun _ _ _ => trivial)
      obtain ⟨l2, _⟩ := Ed.core_eq hc2
      refine wp_nextCmd S U cfg (fun cmd s3 hc3 => ?_) (fun _ _ _ => trivial)
      rw [wp_lowerMark]
      obtain ⟨l3, _⟩ := Ed.coreNC_eq hc3
      have hg3 : s3.line.canGrow = true := by rw [l3, l2]; exact hg1
      have hs3 : Shows x y z cands i s3 := by unfold Shows; rw [l3, l2]; exact hs1
      split
      · exact ih _ _ s3 (compNext_le _ _) hg3 hs3.spanOnly
      · exact ih _ _ s3 (compPrev_le _ _ hi) hg3 hs3.spanOnly
      · by_cases hlt' : i < cands.length
        · rw [if_pos hlt']
          simp only [wp_bind]
          refine wp_lb_update S U hg3 hbp ?_
          refine wp_refreshLine S U cfg (fun s4 hc4 => ?_) (fun _ _ _ => trivial)
          obtain ⟨l4, _⟩ := Ed.core_eq hc4
          simp only [truncateChanges, wp_modify, wp_pure]
          rw [l4]; exact ⟨hg3, rfl, rfl⟩
        · rw [if_neg hlt']
          simp only [wp_pure, wp_bind, truncateChanges, wp_modify]
          have hn : cands[i]? = none := by simp; omega
          have := hs3
          unfold Shows at this
          rw [shownFor_compSt, hn] at this
          simp only [Prod.mk.injEq] at this
          exact ⟨hg3, this.1, this.2⟩
      · rename_i h1 h2 h3
        simp only [wp_bind, wp_changesEnd, wp_pure]
        exact ⟨hg3, ⟨h1, h2, h3⟩, i, hi, hs3⟩
    by_cases hlt : i < cands.length
    · rw [if_pos hlt]
      have hci : cands[i]? = some cands[i] := by simp [hlt]
      rw [hci]
      simp only [wp_bind, wp_getLine]
      refine wp_lb S U (LB.replace_span S U x mid z cands[i] s.line hb hp) ?_
      have t := rest { s with line := { s.line with buf := x ++ cands[i] ++ z, pos := blen x + blen cands[i],
                                                     cap := growCap s.line.cap (blen x + blen z + blen cands[i]) },
                              changes := s.changes.onNotifs S U.alnum [.repl (blen x) mid cands[i]] } hg
        (by unfold Shows; rw [shownFor_compSt, hci])
      simp only [wp_bind] at t ⊢
      exact t
    · rw [if_neg hlt]
      simp only [wp_bind]
      refine wp_lb_update S U hg hbp ?_
      have hn : cands[i]? = none := by simp; omega
      have t := rest { s with line := s.line.updated (x ++ y ++ z) (blen x + blen y),
                              changes := s.changes.onNotifs S U.alnum (updNotifs s.line.buf (x ++ y ++ z)) } hg
        (by unfold Shows; rw [shownFor_compSt, hn]; rfl)
      simp only [wp_bind] at t ⊢
      exact t

/-! ### the loop turn by turn: which index is shown when which key is read -/

/-- one turn of the circular loop up to the decoded command: show index `i`, repaint, read a command -/
def circTurn (start : Nat) (cands : List Text) (backup : Text) (backupPos : Nat) (fuel i : Nat) : EM Cmd := do
  if i < cands.length then
    match cands[i]? with
    | some c => do
      let l ← getLine
      lb S U (LB.replace S U start l.pos c)
    | none => pure ()
  else lb S U (LB.update S U backup backupPos)
  refreshLine S U cfg
  nextCmd S U cfg fuel true true

/-- `completeCircular` is: one turn, then the dispatch on the command read -/
theorem completeCircular_succ (start : Nat) (cands : List Text) (mark : Nat) (backup : Text) (backupPos : Nat)
    (fuel i : Nat) :
    completeCircular S U cfg start cands mark backup backupPos (fuel + 1) i = (do
      let cmd ← circTurn S U cfg start cands backup backupPos fuel i
      let mark ← lowerMark mark
      match cmd with
      | .complete => completeCircular S U cfg start cands mark backup backupPos fuel (compNext cands.length i)
      | .completeBackward => completeCircular S U cfg start cands mark backup backupPos fuel (compPrev cands.length i)
      | .abort => do
        if i < cands.length then do
          lb S U (LB.update S U backup backupPos)
          refreshLine S U cfg
        truncateChanges mark
        pure none
      | _ => do
        let _ ← changesEnd
        pure (some cmd)) := by
  conv => lhs; unfold completeCircular
  unfold circTurn
  by_cases hlt : i < cands.length
  · simp only [if_pos hlt]
    cases cands[i]? with
    | none => first | rfl | (simp only [EM.bind_assoc']; done) | (simp only [EM.bind_assoc']; rfl)
    | some c => first | rfl | (simp only [EM.bind_assoc']; done) | (simp only [EM.bind_assoc']; rfl)
  · simp only [if_neg hlt]
    first | rfl | (simp only [EM.bind_assoc']; done) | (simp only [EM.bind_assoc']; rfl)

/-- index reached from `i` by a sequence of Tab (`true`) / Shift-Tab (`false`) presses -/
def compWalk (n : Nat) : Nat → List Bool → Nat
  | i, [] => i
  | i, true :: ks => compWalk n (compNext n i) ks
  | i, false :: ks => compWalk n (compPrev n i) ks

/-- `CircPath … fuel i s ks fuel' i' s'`: from the loop head `(fuel, i, s)` the commands decoded in the
    successive turns were `ks` (`true` = `Complete`, `false` = `CompleteBackward`) and the loop is then at
    the head `(fuel', i', s')` -/
inductive CircPath (start : Nat) (cands : List Text) (backup : Text) (backupPos : Nat) :
    Nat → Nat → Ed → List Bool → Nat → Nat → Ed → Prop
  | nil (fuel i : Nat) (s : Ed) : CircPath start cands backup backupPos fuel i s [] fuel i s
  | tab {fuel i : Nat} {s s1 : Ed} {ks : List Bool} {fuel' i' : Nat} {s' : Ed} :
      circTurn S U cfg start cands backup backupPos fuel i s = .ok (.complete, s1) →
      CircPath start cands backup backupPos fuel (compNext cands.length i) s1 ks fuel' i' s' →
      CircPath start cands backup backupPos (fuel + 1) i s (true :: ks) fuel' i' s'
  | backTab {fuel i : Nat} {s s1 : Ed} {ks : List Bool} {fuel' i' : Nat} {s' : Ed} :
      circTurn S U cfg start cands backup backupPos fuel i s = .ok (.completeBackward, s1) →
      CircPath start cands backup backupPos fuel (compPrev cands.length i) s1 ks fuel' i' s' →
      CircPath start cands backup backupPos (fuel + 1) i s (false :: ks) fuel' i' s'

/-- the relation describes the model's loop: running the loop from the first head is running it from
    the head reached (with the mark possibly lowered) -/
theorem CircPath.run {start : Nat} {cands : List Text} {backup : Text} {backupPos : Nat}
    {fuel i : Nat} {s : Ed} {ks : List Bool} {fuel' i' : Nat} {s' : Ed}
    (h : CircPath S U cfg start cands backup backupPos fuel i s ks fuel' i' s') (mark : Nat) :
    ∃ mark', completeCircular S U cfg start cands mark backup backupPos fuel i s =
      completeCircular S U cfg start cands mark' backup backupPos fuel' i' s' := by
  induction h generalizing mark with
  | nil fuel i s => exact ⟨mark, rfl⟩
  | @tab fuel i s s1 ks fuel' i' s' ht _ ih =>
    obtain ⟨m', e⟩ := ih (min mark s1.changes.undos.length)
    refine ⟨m', ?_⟩
    rw [completeCircular_succ, EM.bind_apply, ht]
    exact e
  | @backTab fuel i s s1 ks fuel' i' s' ht _ ih =>
    obtain ⟨m', e⟩ := ih (min mark s1.changes.undos.length)
    refine ⟨m', ?_⟩
    rw [completeCircular_succ, EM.bind_apply, ht]
    exact e

/-- **what is on the line when a key is read**: in the turn for index `i`, started on a line that is the
    original one with only the span rewritten, the command is decoded while the line shows exactly what
    the spec prescribes for `i` -/
theorem circTurn_shows (x y z : Text) (cands : List Text) (fuel i : Nat) (s s1 : Ed) (cmd : Cmd)
    (hg : s.line.canGrow = true) (hs : SpanOnly x z s)
    (ht : circTurn S U cfg (blen x) cands (x ++ y ++ z) (blen x + blen y) fuel i s = .ok (cmd, s1)) :
    Shows x y z cands i s1 ∧ s1.line.canGrow = true := by
  have hbp : blen x + blen y ≤ blen (x ++ y ++ z) := by simp
  obtain ⟨mid, hb, hp⟩ := hs
  have hw : wp (circTurn S U cfg (blen x) cands (x ++ y ++ z) (blen x + blen y) fuel i)
      (fun _ s1 => Shows x y z cands i s1 ∧ s1.line.canGrow = true) (fun _ _ => True) s := by
    have rest : ∀ s1 : Ed, s1.line.canGrow = true → Shows x y z cands i s1 →
        wp (do refreshLine S U cfg; nextCmd S U cfg fuel true true)
          (fun _ s1 => Shows x y z cands i s1 ∧ s1.line.canGrow = true) (fun _ _ => True) s1 := by
      intro s1 hg1 hs1
      simp only [wp_bind]
      refine wp_refreshLine S U cfg (fun s2 hc2 => ?_) (fun _ _ _ => trivial)
      obtain ⟨l2, _⟩ := Ed.core_eq hc2
      refine wp_nextCmd S U cfg (fun cmd s3 hc3 => ?_) (fun _ _ _ => trivial)
      obtain ⟨l3, _⟩ := Ed.coreNC_eq hc3
      exact ⟨by unfold Shows; rw [l3, l2]; exact hs1, by rw [l3, l2]; exact hg1⟩
    unfold circTurn
    by_cases hlt : i < cands.length
    · rw [if_pos hlt]
      have hci : cands[i]? = some cands[i] := by simp [hlt]
      rw [hci]
      simp only [wp_bind, wp_getLine]
      refine wp_lb S U (LB.replace_span S U x mid z cands[i] s.line hb hp) ?_
      have t := rest { s with line := { s.line with buf := x ++ cands[i] ++ z, pos := blen x + blen cands[i],
                                                     cap := growCap s.line.cap (blen x + blen z + blen cands[i]) },
                              changes := s.changes.onNotifs S U.alnum [.repl (blen x) mid cands[i]] } hg
        (by unfold Shows; rw [shownFor_compSt, hci])
      simp only [wp_bind] at t ⊢
      exact t
    · rw [if_neg hlt]
      simp only [wp_bind]
      refine wp_lb_update S U hg hbp ?_
      have hn : cands[i]? = none := by simp; omega
      have t := rest { s with line := s.line.updated (x ++ y ++ z) (blen x + blen y),
                              changes := s.changes.onNotifs S U.alnum (updNotifs s.line.buf (x ++ y ++ z)) } hg
        (by unfold Shows; rw [shownFor_compSt, hn]; rfl)
      simp only [wp_bind] at t ⊢
      exact t
  exact wp_ok hw ht

/-- along a path the line stays "original with only the span rewritten", and the index follows the keys -/
theorem CircPath.inv (x y z : Text) (cands : List Text)
    {fuel i : Nat} {s : Ed} {ks : List Bool} {fuel' i' : Nat} {s' : Ed}
    (h : CircPath S U cfg (blen x) cands (x ++ y ++ z) (blen x + blen y) fuel i s ks fuel' i' s')
    (hi : i ≤ cands.length) (hg : s.line.canGrow = true) (hs : SpanOnly x z s) :
    i' = compWalk cands.length i ks ∧ i' ≤ cands.length ∧ s'.line.canGrow = true ∧ SpanOnly x z s' := by
  induction h with
  | nil fuel i s => exact ⟨rfl, hi, hg, hs⟩
  | tab ht _ ih =>
    obtain ⟨h1, h2⟩ := circTurn_shows S U cfg x y z cands _ _ _ _ _ hg hs ht
    exact ih (compNext_le _ _) h2 h1.spanOnly
  | backTab ht _ ih =>
    obtain ⟨h1, h2⟩ := circTurn_shows S U cfg x y z cands _ _ _ _ _ hg hs ht
    exact ih (compPrev_le _ _ hi) h2 h1.spanOnly

/-- the last turn: a command the loop does not handle is handed back, the line is the one shown in
    that turn and the undo group is closed -/
theorem completeCircular_accept (start : Nat) (cands : List Text) (mark : Nat) (backup : Text) (backupPos : Nat)
    (fuel i : Nat) (s s1 : Ed) (cmd : Cmd) (hc : Cmd.endsCompletion cmd)
    (ht : circTurn S U cfg start cands backup backupPos fuel i s = .ok (cmd, s1)) :
    completeCircular S U cfg start cands mark backup backupPos (fuel + 1) i s =
      .ok (some cmd, { s1 with changes := s1.changes.end_.1 }) := by
  rw [completeCircular_succ, EM.bind_apply, ht]
  obtain ⟨h1, h2, h3⟩ := hc
  cases cmd <;> first | exact absurd rfl h1 | exact absurd rfl h2 | exact absurd rfl h3 | rfl

/-- `k` Tabs from index `i` lead to index `(i + k) mod (n + 1)` -/
theorem compWalk_tabs (n k : Nat) : ∀ i, i ≤ n → compWalk n i (List.replicate k true) = (i + k) % (n + 1) := by
  induction k with
  | zero => intro i hi; simp only [List.replicate, compWalk, Nat.add_zero]; exact (Nat.mod_eq_of_lt (by omega)).symm
  | succ k ih =>
    intro i hi
    simp only [List.replicate, compWalk]
    rw [ih _ (compNext_le n i)]
    unfold compNext
    rw [Nat.mod_add_mod]
    congr 1; omega
end Rl
