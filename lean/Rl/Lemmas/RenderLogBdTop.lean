/-
  C02, the cursor half of `LogFine` derived: `BdI` through completion, incremental search, the dispatch loop, the
  main loop and the whole read.
-/
import Rl.Lemmas.RenderLogBdExec
namespace Rl
open EM

section
variable {S : Segmenter} {U : UData} {cfg : EdCfg}

/-- `replace` slices at both ends: whenever it returns, the new cursor is on a boundary -/
theorem replace_wf (a b : Nat) (t : Text) (lb : LB) (r : Unit) (lb' : LB) (ns : List Notif)
    (h : LB.replace S U a b t lb = .ok (r, lb', ns)) : WF lb' := by
  unfold LB.replace at h
  cases hs : split3 lb.buf a b with
  | error e => rw [hs] at h; cases h
  | ok xyz =>
    obtain ⟨x, y, z⟩ := xyz
    rw [hs] at h
    injection h with h
    simp only [Prod.mk.injEq] at h
    obtain ⟨_, rfl, _⟩ := h
    -- `x` is the prefix of length `a`
    unfold split3 at hs
    split at hs
    · cases h1 : splitAtByte lb.buf b with
      | none => rw [h1] at hs; cases hs
      | some p =>
        obtain ⟨ab, c⟩ := p
        rw [h1] at hs
        simp only [] at hs
        cases h2 : splitAtByte ab a with
        | none => rw [h2] at hs; cases hs
        | some q =>
          obtain ⟨x', y'⟩ := q
          rw [h2] at hs
          injection hs with hs
          simp only [Prod.mk.injEq] at hs
          obtain ⟨rfl, rfl, rfl⟩ := hs
          obtain ⟨_, ha⟩ := splitAtByte_some h2
          exact ⟨x' ++ t, c, rfl, by simp [ha]⟩
    · cases hs

/-- an operation that keeps (or makes) the cursor well formed from any line -/
theorem bdp_lb_u {α : Type} {op : LM α} (hop : ∀ lb r lb' ns, op lb = .ok (r, lb', ns) → WF lb') :
    PresB (lb S U op) := by
  constructor
  intro s h
  cases hs : op s.line with
  | error e => rw [wp, lb_error S U hs]; exact h
  | ok r =>
    obtain ⟨a, l, ns⟩ := r
    exact wp_lb S U hs ⟨hop _ _ _ _ hs, h.2.1, h.2.2⟩

theorem bdp_lowerMark (m : Nat) : PresB (lowerMark m) := ⟨fun _ h => h⟩

theorem bdp_truncateChanges (m : Nat) : PresB (truncateChanges m) :=
  PresB.modify fun _ => ⟨rfl, rfl, rfl⟩

theorem bdp_completeCircular (start : Nat) (cands : List Text) (backup : Text) (backupPos : Nat)
    (hbk : IsBoundary backup backupPos) (fuel : Nat) :
    ∀ (mark i : Nat), PresB (completeCircular S U cfg start cands mark backup backupPos fuel i) := by
  have h1 := fun a b t => bdp_lb_u (S := S) (U := U) (replace_wf (S := S) (U := U) a b t)
  have h2 := bdp_lb (S := S) (U := U) (lmsafe_update (S := S) (U := U) hbk)
  have h3 := bdp_refreshLine (S := S) (U := U) (cfg := cfg)
  have h4 := fun f a b => bdp_nextCmd (S := S) (U := U) (cfg := cfg) f a b
  have h5 := fun m => bdp_lowerMark m
  have h6 := fun m => bdp_truncateChanges m
  induction fuel with
  | zero => intro mark i; unfold completeCircular; exact PresB.exit _
  | succ k ih =>
    intro mark i
    unfold completeCircular
    bd_pres [ih, h1, h2, h3, h4, h5, h6]

theorem bdp_searchLoop (backup : Text) (backupPos : Nat) (hbk : IsBoundary backup backupPos) (fuel : Nat) :
    ∀ (mark : Nat) (sb : Text) (hi : Nat) (d : Dir) (succ : Bool),
      PresB (searchLoop S U cfg mark backup backupPos fuel sb hi d succ) := by
  have h2 := bdp_lb (S := S) (U := U) (lmsafe_update (S := S) (U := U) hbk)
  have h3 := bdp_refreshLine (S := S) (U := U) (cfg := cfg)
  have h3' := fun p => bdp_refreshPromptAndLine (S := S) (U := U) (cfg := cfg) p
  have h4 := fun f a b => bdp_nextCmd (S := S) (U := U) (cfg := cfg) f a b
  have h5 := fun m => bdp_lowerMark m
  have h6 := fun m => bdp_truncateChanges m
  induction fuel with
  | zero => intro mark sb hi d succ; unfold searchLoop; exact PresB.exit _
  | succ k ih =>
    intro mark sb hi d succ
    unfold searchLoop
    bd_pres [ih, h2, h3, h3', h4, h5, h6]
    -- a search result is a position inside the entry (C09)
    all_goals (
      obtain ⟨_, ⟨a, b, he, hoff⟩, _⟩ := C09_search_sound _ _ _ _ _ _ _ ‹MemHist.search _ _ _ _ = some _›
      exact bdp_lb (S := S) (U := U) (lmsafe_update (S := S) (U := U) ⟨a, _, by rw [he, List.append_assoc], hoff⟩))

theorem bdp_reverseIncrementalSearch (fuel : Nat) : PresB (reverseIncrementalSearch S U cfg fuel) := by
  constructor
  intro s h
  unfold reverseIncrementalSearch
  split
  · exact h
  · rw [wp_bind]
    refine wp_mono ((bk_changesBegin).wp s) (fun m s1 e1 => ?_) (fun _ s1 e1 => h.of_bk e1)
    have h1 := h.of_bk e1
    rw [wp_bind, wp_getLine]
    exact (bdp_searchLoop (S := S) (U := U) (cfg := cfg) s1.line.buf s1.line.pos h1.1 fuel _ _ _ _ _).h s1 h1

/-- the listing branch of `complete_line`: the cursor goes to the end of the line and back to where it was -/
theorem bdp_listing : PresB (do
    let savePos ← (fun s => .ok (s.line.pos, s) : EM Nat)
    editMove S U cfg (LB.moveEnd S U)
    lbQuiet (LB.setPosChecked S U savePos)
    refreshLine S U cfg
    Pure.pure none : EM (Option Cmd)) := by
  constructor
  intro s h
  rw [wp_bind', wp_read, wp_bind]
  -- `editMove moveEnd` keeps the text
  unfold editMove
  rw [wp_bind]
  cases hs : LB.moveEnd S U s.line with
  | error e =>
    have e1 : lbQuiet (LB.moveEnd S U) s = .error (.panic, s) := by unfold lbQuiet; rw [hs]
    unfold wp; rw [e1]; exact h
  | ok r =>
    obtain ⟨a, l, ns⟩ := r
    refine wp_lbQuiet hs ?_
    obtain ⟨r', l', ns', e1, hw1⟩ := lmsafe_moveEnd S U s.line h.1
    rw [hs] at e1
    injection e1 with e1
    simp only [Prod.mk.injEq] at e1
    obtain ⟨_, rfl, _⟩ := e1
    obtain ⟨hb1, _⟩ := (lbFaithful S U).moveEnd _ _ _ _ h.1 hs
    have h1 : BdI ({ s with line := l } : Ed) := ⟨hw1, h.2.1, h.2.2⟩
    have hbd : IsBoundary l.buf s.line.pos := by rw [hb1]; exact h.1
    obtain ⟨l3, hset, hw3, _⟩ := C03_setPos_total_wf S U s.line.pos l hbd
    -- after the optional `moveCursor` (which keeps the line) the cursor is put back
    have rest : ∀ s2 : Ed, BdI s2 → s2.line = l →
        wp (do
          lbQuiet (LB.setPosChecked S U s.line.pos)
          refreshLine S U cfg
          Pure.pure none : EM (Option Cmd)) (fun _ s' => BdI s') (fun _ s' => BdI s') s2 := by
      intro s2 h2 hl2
      rw [wp_bind]
      refine wp_lbQuiet (s := s2) (by rw [hl2]; exact hset) ?_
      exact (PresB.bind (bdp_refreshLine (S := S) (U := U) (cfg := cfg)) fun _ => PresB.pure none).h _
        ⟨hw3, h2.2.1, h2.2.2⟩
    cases a with
    | true =>
      simp only [if_true]
      have hk := (keeps_moveCursor S U cfg).wp ({ s with line := l } : Ed)
      have hb := (bdp_moveCursor (S := S) (U := U) (cfg := cfg)).h _ h1
      unfold wp at hk hb ⊢
      cases hm : moveCursor S U cfg ({ s with line := l } : Ed) with
      | error e => rw [hm] at hb; exact hb
      | ok r =>
        obtain ⟨u, s2⟩ := r
        rw [hm] at hb hk
        simp only [] at hb hk ⊢
        have hl2 : s2.line = l := by
          have := congrArg Core.line hk
          simpa [Ed.core] using this
        have := rest s2 hb hl2
        unfold wp at this
        exact this
    | false =>
      simp only [Bool.false_eq_true, if_false, wp_pure]
      exact rest _ h1 rfl

theorem bdp_completeLine (fuel : Nat) : PresB (completeLine S U cfg fuel) := by
  constructor
  intro s h
  unfold completeLine
  rw [wp_bind, wp_getLine]
  have hcc := fun start cands mark i =>
    bdp_completeCircular (S := S) (U := U) (cfg := cfg) start cands s.line.buf s.line.pos h.1 fuel mark i
  have h1 := fun a b t => bdp_lb_u (S := S) (U := U) (replace_wf (S := S) (U := U) a b t)
  have h3 := bdp_refreshLine (S := S) (U := U) (cfg := cfg)
  have h4 := fun f a b => bdp_nextCmd (S := S) (U := U) (cfg := cfg) f a b
  have h5 := bdp_listing (S := S) (U := U) (cfg := cfg)
  refine (show PresB _ from ?_).h s h
  bd_pres [hcc, h1, h3, h4, h5]

theorem bdp_preCmds (fuel : Nat) : ∀ cmd, PresB (preCmds S U cfg fuel cmd) := by
  induction fuel with
  | zero => intro cmd; unfold preCmds; exact PresB.exit _
  | succ k ih =>
    intro cmd
    have h1 := bdp_completeLine (S := S) (U := U) (cfg := cfg) k
    have h2 := bdp_reverseIncrementalSearch (S := S) (U := U) (cfg := cfg) k
    unfold preCmds
    bd_pres [ih, h1, h2]

variable (hind : cfg.indentSize ≤ 255) (hpop : YankPopWF S U) (hundo : UndoWF S U)
include hind hpop hundo

theorem bdp_mainLoop (fuel : Nat) : PresB (mainLoop S U cfg fuel) := by
  induction fuel with
  | zero => unfold mainLoop; exact PresB.exit _
  | succ k ih =>
    have h1 := bdp_nextCmd (S := S) (U := U) (cfg := cfg) k false false
    have h2 := fun cmd => bdp_preCmds (S := S) (U := U) (cfg := cfg) k cmd
    have h3 := bdp_refreshLine (S := S) (U := U) (cfg := cfg)
    have h4 := fun c n => bdp_editInsert (S := S) (U := U) (cfg := cfg) c n
    have h5 := fun cmd => bdp_execute (cfg := cfg) hind hpop hundo cmd
    unfold mainLoop
    bd_pres [ih, h1, h2, h3, h4, h5]

/-- **every cursor logged by a whole read is on a character boundary** -/
theorem readline_logBd (ring : KillRing) (left right : Text) (input : Input) :
    LogBd (readline S U cfg ring left right input).2.render.tail := by
  have hprog : PresB (do
      if !(left.isEmpty && right.isEmpty) then
        lb S U (LB.update S U (left ++ right) (blen left))
      refreshLine S U cfg
      mainLoop S U cfg (input.size + 2)
      editMove S U cfg (LB.moveBufferEnd S U) : EM Unit) := by
    have h1 := bdp_lb (S := S) (U := U) (lmsafe_update (S := S) (U := U) (isBoundary_mid left right))
    have h2 := bdp_refreshLine (S := S) (U := U) (cfg := cfg)
    have h3 := bdp_mainLoop (cfg := cfg) hind hpop hundo (input.size + 2)
    have h4 := bdp_editMove (S := S) (U := U) (cfg := cfg) (lmsafe_moveBufferEnd S U)
    bd_pres [h1, h2, h3, h4]
  have h0 : BdI (initEd cfg ring input) :=
    ⟨isBoundary_zero _, isBoundary_zero _, fun op ho => by cases ho⟩
  have hw := hprog.h _ h0
  unfold readline
  unfold wp at hw
  split at hw
  next a s' heq => simp only [heq, List.tail_cons]; exact hw.2.2
  next o s' heq => simp only [heq, List.tail_cons]; exact hw.2.2

end
end Rl
