/-
  C02, the cursor half of `LogFine` (`LogBd`: every logged cursor is on a character boundary of the logged line) —
  groundwork for deriving it from the line-buffer invariant instead of assuming it of the produced log.

  `BdI s`: the cursor of the line is on a boundary (`WF s.line`, the line part of package L's `EdWF`) and every
  operation logged so far is `OpBd`.  It is a genuine step invariant (unlike `Sh` it is not broken between an edit
  and its repaint), kept by every rendering primitive — they log the line they are called with — by `edit_insert`,
  and by reading and decoding a command (`next_cmd`, both key maps, the `(arg: n)` loops, the callback):
  `bdp_nextCmd`.  What is missing for the whole read is stated in `Props/C02.lean` (`C02_logBd_statement`).
-/
import Rl.Lemmas.RenderLogLift
namespace Rl
open EM

/-- the cursors of the line and of the saved line (`backup` / `restore` of history recall) are on character
    boundaries, and so is every cursor logged so far -/
def BdI (s : Ed) : Prop := WF s.line ∧ WF s.saved ∧ LogBd s.render

/-- the key of `BdI` -/
def Ed.bk (s : Ed) : (List RenderOp × Pos × Text × Nat × Option Text) × LB := (s.sk, s.saved)

theorem BdI.of_bk {s s' : Ed} (h : BdI s) (hk : s'.bk = s.bk) : BdI s' := by
  simp only [Ed.bk, Ed.sk, Prod.mk.injEq] at hk
  unfold BdI WF at *
  rw [hk.1.1, hk.1.2.2.1, hk.1.2.2.2.1, hk.2]; exact h

/-! ### frame facts for the key `Ed.bk` (as for `Ed.sk` in `RenderLogLift.lean`) -/

section
variable {α : Type}

theorem bk_rdErr (e : RdErr) : Keeps Ed.bk (rdErr e : EM α) := by
  constructor; intro s; cases e <;> rfl

theorem bk_nextKey (sea : Bool) : Keeps Ed.bk (nextKey sea) := by
  constructor; intro s; unfold nextKey
  cases h : s.input.nextKey sea with
  | error e => exact (bk_rdErr e).h s
  | ok r => rfl

theorem bk_nextChar : Keeps Ed.bk nextChar := by
  constructor; intro s; unfold nextChar
  cases h : s.input.nextChar with
  | error e => exact (bk_rdErr e).h s
  | ok r => rfl

theorem bk_waitForInput (sea : Bool) : Keeps Ed.bk (waitForInput sea) := bk_nextKey sea

theorem bk_readPasted : Keeps Ed.bk readPasted := by
  constructor; intro s; unfold readPasted
  cases h : s.input.readPasted (s.input.size + 1) [] with
  | error e => exact (bk_rdErr e).h s
  | ok r => rfl

theorem bk_termBinding (k : KeyEvent) : Keeps Ed.bk (termBinding k) := by
  constructor; intro s; unfold termBinding
  simp only []
  by_cases h : ((if k == ⟨.char 'D', 8⟩ then some Cmd.endOfFile
    else if k == ⟨.char 'C', 8⟩ then some .interrupt
    else if k == ⟨.char '\\', 8⟩ then some .interrupt
    else if k == ⟨.char 'Z', 8⟩ then some .suspend
    else none) == some Cmd.endOfFile && !s.line.buf.isEmpty) = true
  · rw [if_pos h]
  · rw [if_neg h]

theorem bk_lastInsert : Keeps Ed.bk lastInsert := ⟨fun _ => rfl⟩
theorem bk_lineEmpty : Keeps Ed.bk lineEmpty := ⟨fun _ => rfl⟩
theorem bk_hasHint : Keeps Ed.bk hasHint := ⟨fun _ => rfl⟩
theorem bk_cursorAtEnd : Keeps Ed.bk cursorAtEnd := ⟨fun _ => rfl⟩
theorem bk_lastCharSearch : Keeps Ed.bk lastCharSearch := ⟨fun _ => rfl⟩
theorem bk_getLastCmd : Keeps Ed.bk getLastCmd := ⟨fun _ => rfl⟩
theorem bk_takeNumArgs : Keeps Ed.bk takeNumArgs := ⟨fun _ => rfl⟩
theorem bk_setInputMode (m : InputMode) : Keeps Ed.bk (setInputMode m) := ⟨fun _ => rfl⟩
theorem bk_setLastCmd (c : Cmd) : Keeps Ed.bk (setLastCmd c) := ⟨fun _ => rfl⟩
theorem bk_getLine : Keeps Ed.bk getLine := ⟨fun _ => rfl⟩
theorem bk_getHistIdx : Keeps Ed.bk getHistIdx := ⟨fun _ => rfl⟩
theorem bk_setHistIdx (i : Nat) : Keeps Ed.bk (setHistIdx i) := ⟨fun _ => rfl⟩
theorem bk_getPromptCol : Keeps Ed.bk getPromptCol := ⟨fun _ => rfl⟩
theorem bk_changesBegin : Keeps Ed.bk changesBegin := ⟨fun _ => rfl⟩
theorem bk_changesEnd : Keeps Ed.bk changesEnd := ⟨fun _ => rfl⟩
theorem bk_doingInsert : Keeps Ed.bk doingInsert := Keeps.bind bk_changesBegin fun _ => Keeps.pure _
theorem bk_doneInserting : Keeps Ed.bk doneInserting := Keeps.bind bk_changesEnd fun _ => Keeps.pure _
theorem bk_redoCmd (c : Cmd) (new : Option Nat) : Keeps Ed.bk (redoCmd c new) :=
  Keeps.bind bk_lastInsert fun _ => Keeps.liftP _
theorem bk_truncateChanges (m : Nat) : Keeps Ed.bk (truncateChanges m) := ⟨fun _ => rfl⟩
theorem bk_ringYankCount (n : Nat) : Keeps Ed.bk (ringYankCount n) := ⟨fun _ => rfl⟩

theorem bk_ringYank : Keeps Ed.bk ringYank := by
  constructor; intro s; unfold ringYank
  cases h : s.ring.yank with
  | error e => rfl
  | ok r => rfl
theorem bk_ringYankPop : Keeps Ed.bk ringYankPop := by
  constructor; intro s; unfold ringYankPop
  cases h : s.ring.yankPop with
  | error e => rfl
  | ok r => rfl
theorem bk_ringKill (t : Text) : Keeps Ed.bk (ringKill t) := by
  constructor; intro s; unfold ringKill
  cases h : s.ring.kill t .append with
  | error e => rfl
  | ok r => rfl

end

theorem logBd_cons {op : RenderOp} {log : List RenderOp} (h1 : OpBd op) (h2 : LogBd log) : LogBd (op :: log) := by
  intro o ho
  rcases List.mem_cons.1 ho with rfl | ho
  · exact h1
  · exact h2 o ho

/-- `BdI` is an invariant of `m`, early exits included -/
structure PresB {α : Type} (m : EM α) : Prop where
  h : ∀ s, BdI s → wp m (fun _ s' => BdI s') (fun _ s' => BdI s') s

namespace PresB
variable {α β : Type}

theorem pure (a : α) : PresB (pure a : EM α) := ⟨fun _ h => h⟩

theorem bind {m : EM α} {g : α → EM β} (hm : PresB m) (hg : ∀ a, PresB (g a)) : PresB (m >>= g) := by
  constructor
  intro s h
  rw [wp_bind]
  exact wp_mono (hm.h s h) (fun a s' h' => (hg a).h s' h') (fun _ _ h' => h')

theorem bind' {m : Ed → Except (Outcome × Ed) (α × Ed)} {g : α → EM β}
    (hm : PresB (m : EM α)) (hg : ∀ a, PresB (g a)) : PresB (@Bind.bind EM _ α β m g) :=
  PresB.bind hm hg

theorem ite {c : Prop} [Decidable c] {a b : EM α} (ha : PresB a) (hb : PresB b) :
    PresB (if c then a else b) := by
  split <;> assumption

theorem of_keeps {m : EM α} (hk : Keeps Ed.bk m) : PresB m := by
  constructor
  intro s h
  exact wp_mono (hk.wp s) (fun _ s' e => h.of_bk e) (fun _ s' e => h.of_bk e)

theorem exit (o : Outcome) : PresB (EM.exit o : EM α) := ⟨fun _ h => h⟩

end PresB

/-! ### display-only steps and the log -/

section
variable {S : Segmenter} {U : UData} {cfg : EdCfg}

theorem PresB.modify {f : Ed → Ed}
    (h : ∀ s, (f s).render = s.render ∧ (f s).line = s.line ∧ (f s).saved = s.saved) : PresB (EM.modify f) := by
  constructor
  intro s hb
  show BdI (f s)
  obtain ⟨h1, h2, h3⟩ := h s
  unfold BdI at *
  rw [h1, h2, h3]; exact hb

theorem bdp_updateHint : PresB (updateHint cfg) := by
  constructor
  intro s h
  rcases updateHint_cases (cfg := cfg) s with ⟨h1, n1, e1⟩ | ⟨n1, e1⟩
  · exact wp_of_eq_ok e1 h
  · unfold wp; rw [e1]; exact h

theorem bdp_highlightCharStep : PresB (highlightCharStep cfg) := by
  constructor
  intro s h
  obtain ⟨b, hc', e2⟩ := highlightCharStep_cases (cfg := cfg) s
  exact wp_of_eq_ok e2 h

theorem bdp_setRefreshLayout (p : Text) (d : Bool) : PresB (setRefreshLayout S U cfg p d) :=
  PresB.modify fun _ => ⟨rfl, rfl, rfl⟩

/-- a logged operation that carries the current line (or no line) -/
theorem bdp_logRender (f : Ed → RenderOp) (hf : ∀ s, WF s.line → OpBd (f s)) : PresB (logRender f) := by
  constructor
  intro s h
  show BdI { s with render := f s :: s.render }
  exact ⟨h.1, h.2.1, logBd_cons (hf s h.1) h.2.2⟩

end

macro "bd_pres_step" : tactic => `(tactic| first
  | intro _
  | with_reducible (first
    | exact PresB.pure _
    | apply PresB.bind
    | apply PresB.bind'
    | apply PresB.ite
    | assumption
    | exact PresB.exit _
    | exact PresB.of_keeps (Keeps.liftP _)
    | exact PresB.of_keeps Keeps.get
    | exact PresB.of_keeps (Keeps.read _)
    | exact PresB.of_keeps (bk_nextKey _)
    | exact PresB.of_keeps bk_nextChar
    | exact PresB.of_keeps (bk_waitForInput _)
    | exact PresB.of_keeps bk_readPasted
    | exact PresB.of_keeps (bk_termBinding _)
    | exact PresB.of_keeps bk_lastInsert
    | exact PresB.of_keeps bk_lineEmpty
    | exact PresB.of_keeps bk_hasHint
    | exact PresB.of_keeps bk_cursorAtEnd
    | exact PresB.of_keeps bk_lastCharSearch
    | exact PresB.of_keeps bk_getLastCmd
    | exact PresB.of_keeps bk_takeNumArgs
    | exact PresB.of_keeps (bk_setInputMode _)
    | exact PresB.of_keeps (bk_setLastCmd _)
    | exact PresB.of_keeps bk_getLine
    | exact PresB.of_keeps bk_getHistIdx
    | exact PresB.of_keeps (bk_setHistIdx _)
    | exact PresB.of_keeps bk_getPromptCol
    | exact PresB.of_keeps (bk_redoCmd _ _)
    | exact PresB.of_keeps bk_changesBegin
    | exact PresB.of_keeps bk_changesEnd
    | exact PresB.of_keeps bk_doingInsert
    | exact PresB.of_keeps bk_doneInserting
    | exact PresB.of_keeps (bk_truncateChanges _)
    | exact PresB.of_keeps (bk_ringYankCount _)
    | exact PresB.of_keeps bk_ringYank
    | exact PresB.of_keeps bk_ringYankPop
    | exact PresB.of_keeps (bk_ringKill _))
  | exact bdp_updateHint
  | exact bdp_highlightCharStep
  | exact bdp_setRefreshLayout _ _
  | ((with_reducible apply PresB.of_keeps) <;> (with_reducible apply Keeps.modify) <;> (intro _; rfl))
  | ((with_reducible apply PresB.modify) <;> (intro _; exact ⟨rfl, rfl, rfl⟩))
  | ((with_reducible apply bdp_logRender) <;> (intro _ hw; first | exact hw | trivial))
  | exact PresB.of_keeps (Keeps.read _)
  | split
  | dsimp only)

syntax "bd_pres" ("[" term,* "]")? : tactic
macro_rules
  | `(tactic| bd_pres) => `(tactic| repeat' bd_pres_step)
  | `(tactic| bd_pres [$ts,*]) =>
    `(tactic| repeat' (first | (with_reducible first $[| apply $ts]*) | bd_pres_step))


section
variable {S : Segmenter} {U : UData} {cfg : EdCfg}

/-- a state that differs from a `BdI` state by one logged operation carrying its line -/
theorem bdi_log {s s' : Ed} {op : RenderOp} (h : BdI s) (hr : s'.render = op :: s.render)
    (hl : s'.line = s.line) (hs : s'.saved = s.saved) (hop : OpBd op) : BdI s' := by
  unfold BdI at *
  rw [hr, hl, hs]
  exact ⟨h.1, h.2.1, logBd_cons hop h.2.2⟩

theorem bdp_refreshLine : PresB (refreshLine S U cfg) := by
  constructor
  intro s h
  unfold refreshLine
  rw [wp_bind]
  rcases updateHint_cases (cfg := cfg) s with ⟨h1, n1, e1⟩ | ⟨n1, e1⟩
  · refine wp_of_eq_ok e1 ?_
    rw [wp_bind]
    obtain ⟨b, hc', e2⟩ := highlightCharStep_cases (cfg := cfg) { s with hint := h1, hintCalls := n1 }
    refine wp_of_eq_ok e2 ?_
    simp only [wp_bind, wp_setRefreshLayout, wp_logRender]
    exact bdi_log h rfl rfl rfl (show IsBoundary s.line.buf s.line.pos from h.1)
  · unfold wp; rw [e1]; exact h

theorem bdp_refreshLineWithMsg (msg : Option Text) : PresB (refreshLineWithMsg S U cfg msg) := by
  constructor
  intro s h
  unfold refreshLineWithMsg
  simp only [wp_bind, wp_modify]
  obtain ⟨b, hc', e2⟩ := highlightCharStep_cases (cfg := cfg) { s with hint := none }
  refine wp_of_eq_ok e2 ?_
  simp only [wp_bind, wp_setRefreshLayout, wp_logRender]
  exact bdi_log h rfl rfl rfl (show IsBoundary s.line.buf s.line.pos from h.1)

theorem bdp_refreshPromptAndLine (p : Text) : PresB (refreshPromptAndLine S U cfg p) := by
  constructor
  intro s h
  unfold refreshPromptAndLine
  rw [wp_bind]
  rcases updateHint_cases (cfg := cfg) s with ⟨h1, n1, e1⟩ | ⟨n1, e1⟩
  · refine wp_of_eq_ok e1 ?_
    rw [wp_bind]
    obtain ⟨b, hc', e2⟩ := highlightCharStep_cases (cfg := cfg) { s with hint := h1, hintCalls := n1 }
    refine wp_of_eq_ok e2 ?_
    simp only [wp_bind, wp_setRefreshLayout, wp_logRender]
    exact bdi_log h rfl rfl rfl (show IsBoundary s.line.buf s.line.pos from h.1)
  · unfold wp; rw [e1]; exact h

theorem bdp_moveCursor : PresB (moveCursor S U cfg) := by
  constructor
  intro s h
  unfold moveCursor
  simp only [wp_bind, wp_get]
  split
  · rw [wp_logRender]
    exact bdi_log h rfl rfl rfl (show IsBoundary s.line.buf s.line.pos from h.1)
  · rw [wp_bind]
    obtain ⟨b, hc', e2⟩ := highlightCharStep_cases (cfg := cfg) s
    refine wp_of_eq_ok e2 ?_
    cases b with
    | true =>
      simp only [if_true, wp_bind, wp_setRefreshLayout, wp_logRender]
      exact bdi_log h rfl rfl rfl (show IsBoundary s.line.buf s.line.pos from h.1)
    | false =>
      simp only [Bool.false_eq_true, if_false, wp_bind, wp_modify, wp_logRender]
      exact bdi_log h rfl rfl rfl (show IsBoundary s.line.buf s.line.pos from h.1)

theorem bdp_customBinding (keys : List KeyEvent) (n : Nat) (p : Bool) : PresB (customBinding cfg keys n p) := by
  constructor
  intro s h
  cases hfind : cfg.binds.find? (fun b => b.1 == keys) with
  | some bc =>
    obtain ⟨x, c⟩ := bc
    have e : customBinding cfg keys n p s = .ok (some c, s) := by unfold customBinding; rw [hfind]
    exact wp_of_eq_ok e h
  | none =>
    have e : customBinding cfg keys n p s = .ok (none, { s with
        obs := { line := s.line.buf, pos := s.line.pos, mode := modeName cfg s, hasHint := s.hint.isSome,
                 keys, n, positive := p } :: s.obs,
        render := .sync s.line.buf s.line.pos s.hint :: s.render }) := by
      unfold customBinding; rw [hfind]
    exact wp_of_eq_ok e (bdi_log h rfl rfl rfl trivial)

theorem bdp_emacsDigitLoop (negative : Bool) (fuel : Nat) (mag : Option Nat) :
    PresB (emacsDigitLoop S U cfg negative fuel mag) := by
  have h1 := fun p => bdp_refreshPromptAndLine (S := S) (U := U) (cfg := cfg) p
  have h2 := bdp_refreshLine (S := S) (U := U) (cfg := cfg)
  induction fuel generalizing mag with
  | zero => unfold emacsDigitLoop; exact PresB.exit _
  | succ k ih => unfold emacsDigitLoop; bd_pres [ih, h1, h2]

theorem bdp_viDigitLoop (fuel : Nat) : PresB (viDigitLoop S U cfg fuel) := by
  have h1 := fun p => bdp_refreshPromptAndLine (S := S) (U := U) (cfg := cfg) p
  have h2 := bdp_refreshLine (S := S) (U := U) (cfg := cfg)
  induction fuel with
  | zero => unfold viDigitLoop; exact PresB.exit _
  | succ k ih => unfold viDigitLoop; bd_pres [ih, h1, h2]

theorem bdp_customSeqBinding (fuel : Nat) (keys : List KeyEvent) (n : Nat) (p : Bool) :
    PresB (customSeqBinding cfg fuel keys n p) := by
  induction fuel generalizing keys with
  | zero => unfold customSeqBinding; bd_pres
  | succ k ih =>
    unfold customSeqBinding
    bd_pres
    exact ih _

theorem bdp_common_fallback (fuel : Nat) (keys : List KeyEvent) (n : Nat) (p : Bool) :
    PresB (common.fallback cfg fuel keys n p) := by
  unfold common.fallback
  bd_pres
  exact bdp_customSeqBinding (cfg := cfg) _ _ _ _

theorem bdp_common (fuel : Nat) (keys : List KeyEvent) (key : KeyEvent) (n : Nat) (p : Bool) :
    PresB (common cfg fuel keys key n p) := by
  have := bdp_common_fallback (cfg := cfg) fuel keys n p
  unfold common
  bd_pres

theorem bdp_emacs (fuel : Nat) (key : KeyEvent) : PresB (emacs S U cfg fuel key) := by
  have h1 := fun ng m => bdp_emacsDigitLoop (S := S) (U := U) (cfg := cfg) ng fuel m
  have h2 := fun keys key n p => bdp_common (cfg := cfg) fuel keys key n p
  have h3 := fun keys n p => bdp_customSeqBinding (cfg := cfg) fuel keys n p
  have h4 := fun keys n p => bdp_customBinding (cfg := cfg) keys n p
  unfold emacs emacsDigitArgument emacsNumArgs emacs.charSearchCmd
  bd_pres [h1, h2, h3, h4]

theorem bdp_viCharSearch (c : Char) : PresB (viCharSearch c) := by
  unfold viCharSearch; bd_pres

theorem bdp_viArgDigit (fuel : Nat) (d : Char) : PresB (viArgDigit S U cfg fuel d) := by
  have := bdp_viDigitLoop (S := S) (U := U) (cfg := cfg) fuel
  unfold viArgDigit; bd_pres

theorem bdp_viNumArgs : PresB viNumArgs := by
  unfold viNumArgs; bd_pres

theorem bdp_viCmdMotion (fuel : Nat) (key : KeyEvent) (n : Nat) :
    PresB (viCmdMotion S U cfg fuel key n) := by
  have h1 := fun d => bdp_viArgDigit (S := S) (U := U) (cfg := cfg) fuel d
  have h2 := bdp_viNumArgs
  have h3 := fun c => bdp_viCharSearch c
  unfold viCmdMotion
  bd_pres [h1, h3]

theorem bdp_viCommand (fuel : Nat) (key : KeyEvent) : PresB (viCommand S U cfg fuel key) := by
  have h1 := fun d => bdp_viArgDigit (S := S) (U := U) (cfg := cfg) fuel d
  have h2 := bdp_viNumArgs
  have h3 := fun c => bdp_viCharSearch c
  have h4 := fun key n => bdp_viCmdMotion (S := S) (U := U) (cfg := cfg) fuel key n
  have h5 := fun keys key n p => bdp_common (cfg := cfg) fuel keys key n p
  have h6 := fun keys n p => bdp_customBinding (cfg := cfg) keys n p
  unfold viCommand
  bd_pres [h1, h3, h4, h5, h6]

theorem bdp_viInsert (fuel : Nat) (key : KeyEvent) : PresB (viInsert S U cfg fuel key) := by
  have h4 := fun key => bdp_viCommand (S := S) (U := U) (cfg := cfg) fuel key
  have h5 := fun keys key n p => bdp_common (cfg := cfg) fuel keys key n p
  have h6 := fun keys n p => bdp_customBinding (cfg := cfg) keys n p
  unfold viInsert
  bd_pres [h4, h5, h6]

/-- **`next_cmd` keeps the screen in step**: reading and decoding the next command — the callback included —
    leaves prompt, line and cursor shown. -/
theorem bdp_nextCmd (fuel : Nat) (sea iep : Bool) : PresB (nextCmd S U cfg fuel sea iep) := by
  have h1 := fun key => bdp_emacs (S := S) (U := U) (cfg := cfg) fuel key
  have h2 := fun key => bdp_viInsert (S := S) (U := U) (cfg := cfg) fuel key
  have h3 := fun key => bdp_viCommand (S := S) (U := U) (cfg := cfg) fuel key
  unfold nextCmd
  bd_pres [h1, h2, h3]


end
end Rl
