/-
  Refinement lemmas for C20, part 5: every operation of the public API keeps the simulation with
  the declarative store; runs.
-/
import Rl.Lemmas.SqliteRefine4
namespace Rl.Sq
open Rl Rl.Spec.Sq

/-- operations that change the store (and `len`) -/
def isStore : QOp → Bool
  | .add _ | .setMax _ | .dups _ | .space _ | .reopen _ | .crash _ _ | .len => true
  | _ => false

theorem setMaxLen_misc (h : Hist) (n : Nat) :
    (h.setMaxLen n).db.index = h.db.index ∧ (h.setMaxLen n).db.sessions = h.db.sessions ∧
    (h.setMaxLen n).sessionId = h.sessionId ∧ (h.setMaxLen n).db.rows.Sublist h.db.rows := by
  unfold Hist.setMaxLen
  simp only
  split
  · exact ⟨rfl, rfl, rfl, List.drop_sublist _ _⟩
  · exact ⟨rfl, rfl, rfl, List.Sublist.refl _⟩

theorem step_sim (ws : Char → Bool) (fts : Text → Text → Bool) {h : Hist} {s : SState}
    (hg : Good2 h) (hs : Sim h.abs s) (op : QOp) :
    Good2 (h.step ws fts op).1 ∧ Sim (h.step ws fts op).1.abs (judge ws s op (h.step ws fts op).2).1 ∧
    (isStore op = true → (judge ws s op (h.step ws fts op).2).2 = none) := by
  have hgood := step_good ws fts hg.good op
  have hinv := hgood.inv
  cases op with
  | add l =>
    obtain ⟨a1, a2, _⟩ := add_abs ws hg.good l
    obtain ⟨s1, s2⟩ := sim_addLine ws hs l
    rw [← a1] at s1
    refine ⟨add_good2 ws hg l, s1, fun _ => ?_⟩
    have : (h.add ws l).2 = (addLine ws s l).2 := by rw [a2, s2]
    show (if QObs.bool (h.add ws l).2 = QObs.bool (addLine ws s l).2 then none else some "add-verdict") = none
    rw [this]; simp
  | setMax n =>
    obtain ⟨m1, m2, m3, m4⟩ := setMaxLen_misc h n
    have s1 := sim_takeLast hs n
    rw [← setMaxLen_abs] at s1
    refine ⟨⟨hgood, ?_, ?_, ?_⟩, s1, fun _ => rfl⟩
    · intro hi
      exact (hg.nodup (by rw [← m1]; exact hi)).sublist (m4.map key)
    · show (h.setMaxLen n).sessionId ≤ (h.setMaxLen n).db.sessions
      rw [m2, m3]; exact hg.sid
    · intro x hx
      show x.1 ≤ (h.setMaxLen n).db.sessions
      rw [m2]; exact hg.sess x ((m4.map key).subset hx)
  | dups b =>
    obtain ⟨m1, m2⟩ := setIgnoreDups_misc h b
    have ha := setIgnoreDups_abs hg.good b
    have s0 := sim_collapse hs b
    have s1 : Sim (h.setIgnoreDups b).abs
        { s with ignoreDups := b, entries := (if b && !s.ignoreDups then collapse s.entries else s.entries) } := by
      rw [ha]; exact s0
    have hent := congrArg (·.entries) ha
    have hdu := congrArg (·.ignoreDups) ha
    simp only [Hist.abs] at hent hdu
    refine ⟨⟨hgood, ?_, ?_, ?_⟩, s1, fun _ => rfl⟩
    · intro hi
      show ((h.setIgnoreDups b).db.rows.map key).Nodup
      have hb : b = true := by
        have := hgood.idx
        change (h.setIgnoreDups b).db.index = (h.setIgnoreDups b).ignoreDups at this
        rw [← hdu, ← this]; exact hi
      rw [hent]
      subst hb
      cases hd : h.ignoreDups
      · simp only [Bool.true_and, Bool.not_false, if_true]; exact collapse_nodup _
      · simp only [Bool.not_true, Bool.and_false, Bool.false_eq_true, if_false]
        exact hg.nodup (by rw [hg.good.idx]; exact hd)
    · show (h.setIgnoreDups b).sessionId ≤ (h.setIgnoreDups b).db.sessions
      rw [m1, m2]; exact hg.sid
    · intro x hx
      show x.1 ≤ (h.setIgnoreDups b).db.sessions
      change x ∈ (h.setIgnoreDups b).db.rows.map key at hx
      rw [m1]
      rw [hent] at hx
      apply hg.sess
      split at hx
      · exact mem_collapse _ _ hx
      · exact hx
  | space b =>
    exact ⟨⟨hgood, hg.nodup, hg.sid, hg.sess⟩, sim_space hs b, fun _ => rfl⟩
  | reopen c =>
    have s1 := sim_reopen hs c h.db.sessions hg.sess
    have ha := openDb_abs hg.good.inv hg.nodup c
    simp only [Hist.abs] at s1
    rw [← ha] at s1
    exact ⟨openDb_good2 c hg, s1, fun _ => rfl⟩
  | crash c ls =>
    have g1 := openDb_good2 c hg
    have s1 := sim_reopen hs c h.db.sessions hg.sess
    have ha := openDb_abs hg.good.inv hg.nodup c
    simp only [Hist.abs] at s1
    rw [← ha] at s1
    have g2 := addAll_good2 ws g1 ls
    obtain ⟨b1, b2, _⟩ := addAll_abs ws g1.good ls
    obtain ⟨s2, s2'⟩ := sim_addLines ws s1 ls
    rw [← b1] at s2
    have g3 := openDb_good2 c g2
    have s3 := sim_reopen s2 c (addAll ws (Hist.openDb c h.db) ls).1.db.sessions g2.sess
    have ha3 := openDb_abs g2.good.inv g2.nodup c
    simp only [Hist.abs] at s3
    rw [← ha3] at s3
    refine ⟨g3, s3, fun _ => ?_⟩
    have : (addAll ws (Hist.openDb c h.db) ls).2 = (addLines ws (reopen s c) ls).2 := by rw [b2, s2']
    show (if QObs.bools (addAll ws (Hist.openDb c h.db) ls).2 = QObs.bools (addLines ws (reopen s c) ls).2
      then none else some "crash-adds") = none
    rw [this]; simp
  | len => exact ⟨hg, hs, fun _ => rfl⟩
  | get i d =>
    have hsame := get_same2 h i d
    refine ⟨hg.of_same hinv hsame, ?_, fun h0 => by simp [isStore] at h0⟩
    show Sim (h.get i d).1.abs s
    rw [hsame.abs]; exact hs
  | walk => exact ⟨hg, hs, fun h0 => by simp [isStore] at h0⟩
  | search t st d =>
    have hsame := searchMatch_same2 fts h t st d false
    refine ⟨hg.of_same hinv hsame, ?_, fun h0 => by simp [isStore] at h0⟩
    show Sim (h.searchMatch fts t st d false).1.abs s
    rw [hsame.abs]; exact hs
  | startsWith t st d =>
    have hsame := searchMatch_same2 fts h t st d true
    refine ⟨hg.of_same hinv hsame, ?_, fun h0 => by simp [isStore] at h0⟩
    show Sim (h.searchMatch fts t st d true).1.abs s
    rw [hsame.abs]; exact hs
  | hint t =>
    have hsame := hint_same2 fts h t (blen t)
    refine ⟨hg.of_same hinv hsame, ?_, fun h0 => by simp [isStore] at h0⟩
    show Sim (h.hint fts t (blen t)).1.abs s
    rw [hsame.abs]; exact hs

/-- the declarative store after judging the given answers -/
def specAfter (ws : Char → Bool) (s : SState) : List QOp → List QObs → SState
  | op :: ops, o :: os => specAfter ws (judge ws s op o).1 ops os
  | _, _ => s

theorem run_sim (ws : Char → Bool) (fts : Text → Text → Bool) {h : Hist} {s : SState}
    (hg : Good2 h) (hs : Sim h.abs s) (ops : List QOp) :
    Good2 (h.run ws fts ops).1 ∧ Sim (h.run ws fts ops).1.abs (specAfter ws s ops (h.run ws fts ops).2) := by
  induction ops generalizing h s with
  | nil => exact ⟨hg, hs⟩
  | cons op ops ih =>
    obtain ⟨g1, s1, _⟩ := step_sim ws fts hg hs op
    exact ih g1 s1

theorem run_judge_store (ws : Char → Bool) (fts : Text → Text → Bool) {h : Hist} {s : SState}
    (hg : Good2 h) (hs : Sim h.abs s) (ops : List QOp) (hall : ops.all isStore = true) (k : Nat) :
    judgeAll ws s k (ops.zip (h.run ws fts ops).2) = none := by
  induction ops generalizing h s k with
  | nil => rfl
  | cons op ops ih =>
    simp only [List.all_cons, Bool.and_eq_true] at hall
    obtain ⟨g1, s1, v1⟩ := step_sim ws fts hg hs op
    have hv := v1 hall.1
    have e : (op :: ops).zip (h.run ws fts (op :: ops)).2 =
        (op, (h.step ws fts op).2) :: ops.zip ((h.step ws fts op).1.run ws fts ops).2 := rfl
    rw [e]
    unfold judgeAll
    generalize hj : judge ws s op (h.step ws fts op).2 = j at hv s1
    obtain ⟨s', v⟩ := j
    simp only at hv s1
    subst hv
    exact ih g1 s1 hall.2 (k + 1)

end Rl.Sq
