/-
  Helper lemmas for C04: cluster offsets (`gidx`) versus the declarative `offOf`.
-/
import Rl.Lemmas.LineBufferSafe
import Rl.Spec.Motion
namespace Rl
open Rl.Spec

theorem gidxGo_take_last (o n : Nat) (gs : List Text) :
    (((gidxGo o gs).take n).getLast?).map (fun ig => ig.1 + blen ig.2) =
      if n = 0 ∨ gs = [] then none else some (o + blen (gs.take n).flatten) := by
  induction gs generalizing o n with
  | nil => simp [gidxGo]
  | cons g gs ih =>
    cases n with
    | zero => simp
    | succ k =>
      simp only [gidxGo, List.take_succ_cons]
      have := ih (o + blen g) k
      by_cases hk : k = 0 ∨ gs = []
      · have hnil : (gidxGo (o + blen g) gs).take k = [] := by
          rcases hk with rfl | rfl
          · simp
          · simp [gidxGo]
        rw [hnil]
        rcases hk with rfl | rfl <;> simp
      · rw [if_neg hk] at this
        cases hl : ((gidxGo (o + blen g) gs).take k).getLast? with
        | none => simp [hl] at this
        | some ig =>
          simp [hl] at this
          have hne : (gidxGo (o + blen g) gs).take k ≠ [] := by
            intro h0; simp [h0] at hl
          rw [List.getLast?_cons_of_ne_nil hne] at *
          simp [hl, this]; omega

theorem offOf_min (gs : List Text) (n : Nat) : offOf gs (min n gs.length) = offOf gs n := by
  unfold offOf
  by_cases h : n ≤ gs.length
  · rw [Nat.min_eq_left h]
  · rw [Nat.min_eq_right (by omega)]
    simp only [List.take_length]
    rw [List.take_of_length_le (by omega)]

theorem seg_ne_nil (S : Segmenter) {s : Text} (h : s ≠ []) : S.seg s ≠ [] := by
  intro h0
  have := S.flatten_eq s
  rw [h0] at this
  exact h (by simpa using this.symm)

theorem gidxGo_drop (o k : Nat) (gs : List Text) :
    (gidxGo o gs).drop k = gidxGo (o + offOf gs k) (gs.drop k) := by
  induction gs generalizing o k with
  | nil => simp [gidxGo, offOf]
  | cons g gs ih =>
    cases k with
    | zero => simp [offOf]
    | succ k =>
      simp only [gidxGo, List.drop_succ_cons, ih]
      congr 1
      simp [offOf]; omega

/-! ### the word loops of `next_word_pos` (after the D9 repair) versus "n-th element of the pair list" -/

/-- offsets of the clusters `y` with `P x y` for adjacent clusters `x y` -/
def pairOffs (P : Text → Text → Bool) : List (Nat × Text) → List Nat
  | [] => []
  | [_] => []
  | (_, x) :: (j, y) :: r => if P x y then j :: pairOffs P ((j, y) :: r) else pairOffs P ((j, y) :: r)

/-- inner loop of `next_word_pos` for `At::Start`: finds the first pair, keeps the list from `y` on -/
theorem nwInner_start (U : UData) (d : Word) (g : Nat × Text) (L : List (Nat × Text)) :
    match pairOffs (isStartOfWord U d) (g :: L) with
    | [] => LB.nwInner U .start d g L = .out ((g :: L).getLast (by simp))
    | j :: js => ∃ gi rest, LB.nwInner U .start d g L = .found j gi rest ∧
        pairOffs (isStartOfWord U d) rest = js ∧ rest.getLast? = (g :: L).getLast? := by
  induction L generalizing g with
  | nil => simp [pairOffs, LB.nwInner]
  | cons h r ih =>
    obtain ⟨i, x⟩ := g
    obtain ⟨j, y⟩ := h
    by_cases hp : isStartOfWord U d x y = true
    · simp only [pairOffs, hp, if_true]
      exact ⟨(i, x), (j, y) :: r, by simp [LB.nwInner, hp], rfl, by simp⟩
    · have hp' : isStartOfWord U d x y = false := by simpa using hp
      have := ih (j, y)
      simp only [pairOffs, hp', Bool.false_eq_true, if_false]
      cases hq : pairOffs (isStartOfWord U d) ((j, y) :: r) with
      | nil =>
        rw [hq] at this
        simp only at this ⊢
        simp [LB.nwInner, hp', this]
      | cons j' js =>
        rw [hq] at this
        simp only at this ⊢
        obtain ⟨gi, rest, h1, h2, h3⟩ := this
        exact ⟨gi, rest, by simp [LB.nwInner, hp', h1], h2, by simp [h3]⟩

/-- outer loop of `next_word_pos` for `At::Start`: the n-th pair, or exhaustion with the last cluster -/
theorem nwOuter_start (U : UData) (d : Word) (n wp0 : Nat) (gi0 : Option (Nat × Text))
    (L : List (Nat × Text)) (hn : n ≠ 0) :
    match (pairOffs (isStartOfWord U d) L)[n - 1]? with
    | some j => (LB.nwOuter U .start d n wp0 gi0 L).1 = j
    | none => LB.nwOuter U .start d n wp0 gi0 L = (0, L.getLast?) := by
  induction n generalizing wp0 gi0 L with
  | zero => exact absurd rfl hn
  | succ k ih =>
    cases L with
    | nil => simp [pairOffs, LB.nwOuter]
    | cons g rest =>
      have hin := nwInner_start U d g rest
      cases hq : pairOffs (isStartOfWord U d) (g :: rest) with
      | nil =>
        rw [hq] at hin
        simp only at hin
        simp [LB.nwOuter, hin, List.getLast?_eq_some_getLast]
      | cons j js =>
        rw [hq] at hin
        simp only at hin
        obtain ⟨gi, rest', h1, h2, h3⟩ := hin
        simp only [LB.nwOuter, h1, Nat.add_sub_cancel]
        cases k with
        | zero => simp [LB.nwOuter]
        | succ k' =>
          have := ih j (some gi) rest' (by omega)
          simp only [Nat.add_sub_cancel] at this
          rw [h2] at this
          simp only [List.getElem?_cons_succ]
          cases hjs : js[k']? with
          | some j' => rw [hjs] at this; exact this
          | none => rw [hjs] at this; simp only at this ⊢; rw [this, h3]

/-- inner loop of `next_word_pos` for `At::AfterEnd`: finds the first pair, keeps the list from `y` on -/
theorem nwInner_afterEnd (U : UData) (d : Word) (g : Nat × Text) (L : List (Nat × Text)) :
    match pairOffs (isEndOfWord U d) (g :: L) with
    | [] => LB.nwInner U .afterEnd d g L = .out ((g :: L).getLast (by simp))
    | j :: js => ∃ gi rest, LB.nwInner U .afterEnd d g L = .found j gi rest ∧
        pairOffs (isEndOfWord U d) rest = js ∧ rest.getLast? = (g :: L).getLast? := by
  induction L generalizing g with
  | nil => simp [pairOffs, LB.nwInner]
  | cons h r ih =>
    obtain ⟨i, x⟩ := g
    obtain ⟨j, y⟩ := h
    by_cases hp : isEndOfWord U d x y = true
    · simp only [pairOffs, hp, if_true]
      exact ⟨(i, x), (j, y) :: r, by simp [LB.nwInner, hp], rfl, by simp⟩
    · have hp' : isEndOfWord U d x y = false := by simpa using hp
      have := ih (j, y)
      simp only [pairOffs, hp', Bool.false_eq_true, if_false]
      cases hq : pairOffs (isEndOfWord U d) ((j, y) :: r) with
      | nil =>
        rw [hq] at this
        simp only at this ⊢
        simp [LB.nwInner, hp', this]
      | cons j' js =>
        rw [hq] at this
        simp only at this ⊢
        obtain ⟨gi, rest, h1, h2, h3⟩ := this
        exact ⟨gi, rest, by simp [LB.nwInner, hp', h1], h2, by simp [h3]⟩

/-- outer loop of `next_word_pos` for `At::AfterEnd`: the n-th pair, or exhaustion with the last cluster -/
theorem nwOuter_afterEnd (U : UData) (d : Word) (n wp0 : Nat) (gi0 : Option (Nat × Text))
    (L : List (Nat × Text)) (hn : n ≠ 0) :
    match (pairOffs (isEndOfWord U d) L)[n - 1]? with
    | some j => (LB.nwOuter U .afterEnd d n wp0 gi0 L).1 = j
    | none => LB.nwOuter U .afterEnd d n wp0 gi0 L = (0, L.getLast?) := by
  induction n generalizing wp0 gi0 L with
  | zero => exact absurd rfl hn
  | succ k ih =>
    cases L with
    | nil => simp [pairOffs, LB.nwOuter]
    | cons g rest =>
      have hin := nwInner_afterEnd U d g rest
      cases hq : pairOffs (isEndOfWord U d) (g :: rest) with
      | nil =>
        rw [hq] at hin
        simp only at hin
        simp [LB.nwOuter, hin, List.getLast?_eq_some_getLast]
      | cons j js =>
        rw [hq] at hin
        simp only at hin
        obtain ⟨gi, rest', h1, h2, h3⟩ := hin
        simp only [LB.nwOuter, h1, Nat.add_sub_cancel]
        cases k with
        | zero => simp [LB.nwOuter]
        | succ k' =>
          have := ih j (some gi) rest' (by omega)
          simp only [Nat.add_sub_cancel] at this
          rw [h2] at this
          simp only [List.getElem?_cons_succ]
          cases hjs : js[k']? with
          | some j' => rw [hjs] at this; exact this
          | none => rw [hjs] at this; simp only at this ⊢; rw [this, h3]

theorem pairIdx_ge (P : Text → Text → Bool) (k : Nat) (gs : List Text) : ∀ j ∈ pairIdx P k gs, k + 1 ≤ j := by
  induction gs generalizing k with
  | nil => simp [pairIdx]
  | cons x t ih =>
    cases t with
    | nil => simp [pairIdx]
    | cons y r =>
      intro j hj
      simp only [pairIdx] at hj
      split at hj
      · simp only [List.mem_cons] at hj
        rcases hj with rfl | hj
        · omega
        · have := ih (k + 1) j hj; omega
      · have := ih (k + 1) j hj; omega

theorem offOf_cons_succ (x : Text) (t : List Text) (m : Nat) : offOf (x :: t) (m + 1) = blen x + offOf t m := by
  simp [offOf]

theorem pairOffs_gidxGo (P : Text → Text → Bool) (o k : Nat) (gs : List Text) :
    pairOffs P (gidxGo o gs) = (pairIdx P k gs).map (fun j => o + offOf gs (j - k)) := by
  induction gs generalizing o k with
  | nil => simp [pairIdx, gidxGo, pairOffs]
  | cons x t ih =>
    cases t with
    | nil => simp [pairIdx, gidxGo, pairOffs]
    | cons y r =>
      have hih := ih (o + blen x) (k + 1)
      have hmap : (pairIdx P (k + 1) (y :: r)).map (fun j => o + blen x + offOf (y :: r) (j - (k + 1))) =
          (pairIdx P (k + 1) (y :: r)).map (fun j => o + offOf (x :: y :: r) (j - k)) := by
        apply List.map_congr_left
        intro j hj
        have := pairIdx_ge P (k + 1) (y :: r) j hj
        have he : j - k = (j - (k + 1)) + 1 := by omega
        rw [he, offOf_cons_succ]; omega
      simp only [gidxGo] at hih ⊢
      simp only [pairOffs, pairIdx]
      split
      · simp only [List.map_cons, hih, hmap]
        congr 1
        have : k + 1 - k = 0 + 1 := by omega
        rw [this, offOf_cons_succ]; simp [offOf]
      · rw [hih, hmap]

theorem gidxGo_getLast? (o : Nat) (gs : List Text) :
    (gidxGo o gs).getLast? = gs.getLast?.map (fun g => (o + offOf gs (gs.length - 1), g)) := by
  induction gs generalizing o with
  | nil => simp [gidxGo]
  | cons x t ih =>
    cases t with
    | nil => simp [gidxGo, offOf]
    | cons y r =>
      have := ih (o + blen x)
      simp only [gidxGo] at this ⊢
      rw [List.getLast?_cons_cons, this, List.getLast?_cons_cons]
      simp only [List.length_cons, Nat.add_sub_cancel]
      have h2 : offOf (x :: y :: r) (r.length + 1) = blen x + offOf (y :: r) r.length := offOf_cons_succ _ _ _
      rw [h2]
      cases (y :: r).getLast? with
      | none => rfl
      | some g => simp; omega


theorem offOf_pos {gs : List Text} (hne : ∀ g ∈ gs, g ≠ []) {j : Nat} (hj : 1 ≤ j) (hgs : gs ≠ []) :
    0 < offOf gs j := by
  cases gs with
  | nil => exact absurd rfl hgs
  | cons x t =>
    obtain ⟨m, rfl⟩ : ∃ m, j = m + 1 := ⟨j - 1, by omega⟩
    rw [offOf_cons_succ]
    have := blen_pos_of_ne_nil (hne x (by simp))
    omega


/-! ### the word loop of `prev_word_pos` -/

/-- on the reversed cluster list: offsets of the clusters `y` whose predecessor `x` (the next list
    element) satisfies `P x y` -/
def pairOffsR (P : Text → Text → Bool) : List (Nat × Text) → List Nat
  | [] => []
  | [_] => []
  | (j, y) :: (i, x) :: r => if P x y then j :: pairOffsR P ((i, x) :: r) else pairOffsR P ((i, x) :: r)

theorem pwInner_spec (U : UData) (d : Word) (g : Nat × Text) (L : List (Nat × Text)) :
    match pairOffsR (isStartOfWord U d) (g :: L) with
    | [] => LB.pwInner U d g L = none
    | j :: js => ∃ rest, LB.pwInner U d g L = some (j, rest) ∧ pairOffsR (isStartOfWord U d) rest = js := by
  induction L generalizing g with
  | nil => simp [pairOffsR, LB.pwInner]
  | cons h r ih =>
    obtain ⟨j, y⟩ := g
    obtain ⟨i, x⟩ := h
    by_cases hp : isStartOfWord U d x y = true
    · simp only [pairOffsR, hp, if_true]
      exact ⟨(i, x) :: r, by simp [LB.pwInner, hp], rfl⟩
    · have hp' : isStartOfWord U d x y = false := by simpa using hp
      have := ih (i, x)
      simp only [pairOffsR, hp', Bool.false_eq_true, if_false]
      cases hq : pairOffsR (isStartOfWord U d) ((i, x) :: r) with
      | nil =>
        rw [hq] at this
        simp only at this ⊢
        simp [LB.pwInner, hp', this]
      | cons j' js =>
        rw [hq] at this
        simp only at this ⊢
        obtain ⟨rest, h1, h2⟩ := this
        exact ⟨rest, by simp [LB.pwInner, hp', h1], h2⟩

theorem pwOuter_spec (U : UData) (d : Word) (n sow : Nat) (L : List (Nat × Text)) (hn : n ≠ 0) :
    LB.pwOuter U d n sow L = ((pairOffsR (isStartOfWord U d) L)[n - 1]?).getD 0 := by
  induction n generalizing sow L with
  | zero => exact absurd rfl hn
  | succ k ih =>
    cases L with
    | nil => simp [pairOffsR, LB.pwOuter]
    | cons g rest =>
      have hin := pwInner_spec U d g rest
      cases hq : pairOffsR (isStartOfWord U d) (g :: rest) with
      | nil =>
        rw [hq] at hin
        simp only at hin
        simp [LB.pwOuter, hin]
      | cons j js =>
        rw [hq] at hin
        simp only at hin
        obtain ⟨rest', h1, h2⟩ := hin
        simp only [LB.pwOuter, h1, Nat.add_sub_cancel]
        cases k with
        | zero => simp [LB.pwOuter]
        | succ k' =>
          rw [ih j rest' (by omega), h2]
          simp

theorem pairOffsR_snoc (P : Text → Text → Bool) (M : List (Nat × Text)) (b a : Nat × Text) :
    pairOffsR P (M ++ [b, a]) = pairOffsR P (M ++ [b]) ++ (if P a.2 b.2 then [b.1] else []) := by
  induction M with
  | nil =>
    obtain ⟨j, y⟩ := b; obtain ⟨i, x⟩ := a
    simp only [List.nil_append, pairOffsR]
  | cons c M ih =>
    cases M with
    | nil =>
      obtain ⟨k, z⟩ := c; obtain ⟨j, y⟩ := b; obtain ⟨i, x⟩ := a
      simp only [List.cons_append, List.nil_append, pairOffsR]
      split <;> split <;> simp
    | cons c' M' =>
      obtain ⟨k, z⟩ := c; obtain ⟨k', z'⟩ := c'
      simp only [List.cons_append] at ih ⊢
      simp only [pairOffsR, ih]
      split <;> simp

theorem pairOffsR_reverse (P : Text → Text → Bool) (L : List (Nat × Text)) :
    pairOffsR P L.reverse = (pairOffs P L).reverse := by
  induction L with
  | nil => simp [pairOffsR, pairOffs]
  | cons a t ih =>
    cases t with
    | nil => simp [pairOffsR, pairOffs]
    | cons b r =>
      obtain ⟨i, x⟩ := a; obtain ⟨j, y⟩ := b
      have h1 : ((i, x) :: (j, y) :: r).reverse = r.reverse ++ [(j, y), (i, x)] := by simp
      have h2 : ((j, y) :: r).reverse = r.reverse ++ [(j, y)] := by simp
      rw [h1, pairOffsR_snoc, ← h2, ih]
      simp only [pairOffs]
      split <;> simp


/-! ### the model's word positions are the declarative targets -/

theorem nextWordPosR_start (S : Segmenter) (U : UData) (lb : LB) (d : Word) (n : Nat) (range : Bool)
    (h : WF lb) (hn : n ≠ 0) :
    LB.nextWordPosR S U lb lb.pos .start d n range =
      .ok (wordTargetFwd S U lb.buf lb.pos .start d n (!range)) := by
  obtain ⟨x, s, hb, hp⟩ := h.split
  have hsp : splitAtByte lb.buf lb.pos = some (x, s) := by rw [hb, hp]; exact splitAtByte_append x s
  have hsf : sliceFrom lb.buf lb.pos = .ok s := by rw [hb, hp]; exact sliceFrom_mid x s
  unfold LB.nextWordPosR wordTargetFwd splitAt?
  by_cases hs : s = []
  · have hlen : lb.pos = lb.len := by simp [LB.len, hb, hp, hs]
    have hsp' : splitAtByte lb.buf lb.len = some (x, []) := by rw [← hlen, ← hs]; exact hsp
    simp [hlen, hsp']
    rfl
  · have hne : (lb.pos == lb.len) = false := by
      have : lb.pos ≠ lb.len := by
        intro he; apply hs
        have : blen s = 0 := by simp [LB.len, hb, hp] at he; omega
        exact blen_eq_zero.mp this
      simpa using this
    have hgs : S.seg s ≠ [] := seg_ne_nil S hs
    have hgne : ∀ g ∈ S.seg s, g ≠ [] := S.ne_nil s
    have hC := pairOffs_gidxGo (isStartOfWord U d) 0 0 (S.seg s)
    have hB := nwOuter_start U d n 0 none (gidxGo 0 (S.seg s)) hn
    rw [hC] at hB
    simp only [Nat.zero_add, Nat.sub_zero] at hB
    simp only [hne, hsf, hsp, bind, Except.bind, pure, Except.pure]
    have hse : s.isEmpty = false := by simpa using hs
    simp only [hse]
    have e1 : (At.start == At.beforeEnd) = false := by decide
    have e2 : (At.start == At.afterEnd) = false := by decide
    simp only [e1, e2, Bool.false_eq_true, if_false, gidx, Bool.or_false, Bool.not_not]
    cases hc : (List.map (offOf (S.seg s)) (pairIdx (isStartOfWord U d) 0 (S.seg s)))[n - 1]? with
    | some o =>
      rw [hc] at hB; simp only at hB
      have ho : 0 < o := by
        have hmem : o ∈ List.map (offOf (S.seg s)) (pairIdx (isStartOfWord U d) 0 (S.seg s)) :=
          List.mem_of_getElem? hc
        obtain ⟨j, hj, rfl⟩ := List.mem_map.mp hmem
        exact offOf_pos hgne (pairIdx_ge _ 0 _ j hj) hgs
      cases hres : LB.nwOuter U At.start d n 0 none (gidxGo 0 (S.seg s)) with
      | mk wp gi =>
        rw [hres] at hB
        simp only at hB
        subst hB
        have : (wp == 0) = false := by simp; omega
        simp [this, Nat.add_comm]
    | none =>
      rw [hc] at hB; simp only at hB
      rw [hB, gidxGo_getLast?]
      simp only [beq_self_eq_true, if_true]
      by_cases hr : (range || d == Word.emacs) = true
      · simp [hr, LB.len]
      · simp only [hr, Bool.false_eq_true, if_false]
        cases hl : (S.seg s).getLast? with
        | none => simp at hl; exact absurd hl hgs
        | some g =>
          simp only [Option.map_some]
          by_cases hm : (S.seg s).length ≥ 2
          · have : 0 < offOf (S.seg s) ((S.seg s).length - 1) := offOf_pos hgne (by omega) hgs
            have hne0 : (0 + offOf (S.seg s) ((S.seg s).length - 1) != 0) = true := by simp; omega
            simp [hm, Nat.add_comm]
            omega
          · have h1 : (S.seg s).length = 1 := by
              have : (S.seg s).length ≠ 0 := by simpa using hgs
              omega
            simp [h1, offOf, hm]

theorem nextWordPosR_afterEnd (S : Segmenter) (U : UData) (lb : LB) (d : Word) (n : Nat) (range : Bool)
    (h : WF lb) (hn : n ≠ 0) :
    LB.nextWordPosR S U lb lb.pos .afterEnd d n range =
      .ok (wordTargetFwd S U lb.buf lb.pos .afterEnd d n (!range)) := by
  obtain ⟨x, s, hb, hp⟩ := h.split
  have hsp : splitAtByte lb.buf lb.pos = some (x, s) := by rw [hb, hp]; exact splitAtByte_append x s
  have hsf : sliceFrom lb.buf lb.pos = .ok s := by rw [hb, hp]; exact sliceFrom_mid x s
  unfold LB.nextWordPosR wordTargetFwd splitAt?
  by_cases hs : s = []
  · have hlen : lb.pos = lb.len := by simp [LB.len, hb, hp, hs]
    have hsp' : splitAtByte lb.buf lb.len = some (x, []) := by rw [← hlen, ← hs]; exact hsp
    simp [hlen, hsp']
    rfl
  · have hne : (lb.pos == lb.len) = false := by
      have : lb.pos ≠ lb.len := by
        intro he; apply hs
        have : blen s = 0 := by simp [LB.len, hb, hp] at he; omega
        exact blen_eq_zero.mp this
      simpa using this
    have hgs : S.seg s ≠ [] := seg_ne_nil S hs
    have hgne : ∀ g ∈ S.seg s, g ≠ [] := S.ne_nil s
    have hC := pairOffs_gidxGo (isEndOfWord U d) 0 0 (S.seg s)
    have hB := nwOuter_afterEnd U d n 0 none (gidxGo 0 (S.seg s)) hn
    rw [hC] at hB
    simp only [Nat.zero_add, Nat.sub_zero] at hB
    simp only [hne, hsf, hsp, bind, Except.bind, pure, Except.pure]
    have hse : s.isEmpty = false := by simpa using hs
    simp only [hse]
    have e1 : (At.afterEnd == At.beforeEnd) = false := by decide
    have e2 : (At.afterEnd == At.afterEnd) = true := by decide
    simp only [e1, e2, Bool.false_eq_true, if_false, gidx, Bool.or_true, if_true]
    cases hc : (List.map (offOf (S.seg s)) (pairIdx (isEndOfWord U d) 0 (S.seg s)))[n - 1]? with
    | some o =>
      rw [hc] at hB; simp only at hB
      have ho : 0 < o := by
        have hmem : o ∈ List.map (offOf (S.seg s)) (pairIdx (isEndOfWord U d) 0 (S.seg s)) :=
          List.mem_of_getElem? hc
        obtain ⟨j, hj, rfl⟩ := List.mem_map.mp hmem
        exact offOf_pos hgne (pairIdx_ge _ 0 _ j hj) hgs
      cases hres : LB.nwOuter U At.afterEnd d n 0 none (gidxGo 0 (S.seg s)) with
      | mk wp gi =>
        rw [hres] at hB
        simp only at hB
        subst hB
        have : (wp == 0) = false := by simp; omega
        simp [this, Nat.add_comm]
    | none =>
      rw [hc] at hB; simp only at hB
      rw [hB]
      simp [LB.len]

theorem prevWordPos_eq (S : Segmenter) (U : UData) (lb : LB) (d : Word) (n : Nat) (h : WF lb) (hn : n ≠ 0) :
    LB.prevWordPos S U lb lb.pos d n = .ok (wordTargetBwd S U lb.buf lb.pos d n) := by
  obtain ⟨x, s, hb, hp⟩ := h.split
  have hsp : splitAtByte lb.buf lb.pos = some (x, s) := by rw [hb, hp]; exact splitAtByte_append x s
  have hst : sliceTo lb.buf lb.pos = .ok x := by rw [hb, hp]; exact sliceTo_mid x s
  unfold LB.prevWordPos wordTargetBwd splitAt?
  by_cases hx : x = []
  · have h0 : lb.pos = 0 := by simp [hp, hx]
    have hsp' : splitAtByte lb.buf 0 = some ([], s) := by rw [← h0, ← hx]; exact hsp
    simp [h0, hsp']
    rfl
  · have hne : (lb.pos == 0) = false := by
      have : lb.pos ≠ 0 := by
        intro he; apply hx
        exact blen_eq_zero.mp (by omega)
      simpa using this
    have hxe : x.isEmpty = false := by simpa using hx
    simp only [hne, hst, hsp, hxe, bind, Except.bind, pure, Except.pure, Bool.false_eq_true, if_false]
    rw [pwOuter_spec U d n 0 _ hn]
    simp only [gidx, pairOffsR_reverse]
    rw [pairOffs_gidxGo (isStartOfWord U d) 0 0 (S.seg x)]
    simp only [Nat.zero_add, Nat.sub_zero]
    cases hc : ((pairIdx (isStartOfWord U d) 0 (S.seg x)).map (offOf (S.seg x))).reverse[n - 1]? with
    | some o => simp
    | none => simp

/-! ### declarative targets are boundaries -/

theorem offOf_boundary (x : Text) (gs : List Text) (k : Nat) :
    IsBoundary (x ++ gs.flatten) (blen x + offOf gs k) := by
  refine ⟨x ++ (gs.take k).flatten, (gs.drop k).flatten, ?_, by simp [offOf]⟩
  rw [List.append_assoc, ← List.flatten_append, List.take_append_drop]

/-- every declarative forward word target is a character boundary at or after the cursor -/
theorem wordTargetFwd_boundary (S : Segmenter) (U : UData) (lb : LB) (a : At) (d : Word) (n : Nat)
    (motion : Bool) (h : WF lb) (t : Nat) (ht : wordTargetFwd S U lb.buf lb.pos a d n motion = some t) :
    IsBoundary lb.buf t ∧ lb.pos ≤ t := by
  obtain ⟨x, s, hb, hp⟩ := h.split
  have hsp : splitAtByte lb.buf lb.pos = some (x, s) := by rw [hb, hp]; exact splitAtByte_append x s
  have hfl : lb.buf = x ++ (S.seg s).flatten := by rw [S.flatten_eq]; exact hb
  unfold wordTargetFwd splitAt? at ht
  simp only [hsp] at ht
  split at ht
  · cases ht
  · split at ht
    · rename_i o ho
      cases ht
      cases a <;> simp only at ho
      · obtain ⟨j, _, rfl⟩ := List.mem_map.mp (List.mem_of_getElem? ho)
        exact ⟨by rw [hfl, hp]; exact offOf_boundary x _ j, by omega⟩
      · obtain ⟨j, _, rfl⟩ := List.mem_map.mp (List.mem_of_getElem? ho)
        exact ⟨by rw [hfl, hp]; exact offOf_boundary x _ (j - 1), by omega⟩
      · obtain ⟨j, _, rfl⟩ := List.mem_map.mp (List.mem_of_getElem? ho)
        exact ⟨by rw [hfl, hp]; exact offOf_boundary x _ j, by omega⟩
    · split at ht
      · cases ht
        exact ⟨isBoundary_len _, h.le_len⟩
      · split at ht
        · cases ht
          exact ⟨by rw [hfl, hp]; exact offOf_boundary x _ _, by omega⟩
        · cases ht

theorem wordTargetBwd_boundary (S : Segmenter) (U : UData) (lb : LB) (d : Word) (n : Nat)
    (h : WF lb) (t : Nat) (ht : wordTargetBwd S U lb.buf lb.pos d n = some t) :
    IsBoundary lb.buf t ∧ t ≤ lb.pos := by
  obtain ⟨x, s, hb, hp⟩ := h.split
  have hsp : splitAtByte lb.buf lb.pos = some (x, s) := by rw [hb, hp]; exact splitAtByte_append x s
  unfold wordTargetBwd splitAt? at ht
  simp only [hsp] at ht
  split at ht
  · cases ht
  · split at ht
    · rename_i o ho
      cases ht
      have hmem := List.mem_of_getElem? ho
      rw [List.mem_reverse] at hmem
      obtain ⟨j, _, rfl⟩ := List.mem_map.mp hmem
      have hbx := offOf_boundary [] (S.seg x) j
      rw [S.flatten_eq] at hbx
      simp only [List.nil_append, blen_nil, Nat.zero_add] at hbx
      obtain ⟨a, b, hab, hoa⟩ := hbx
      refine ⟨⟨a, b ++ s, by rw [hb, hab]; simp, hoa⟩, ?_⟩
      rw [hp, hoa]
      have : blen x = blen a + blen b := by rw [hab]; simp
      omega
    · cases ht
      exact ⟨isBoundary_zero _, Nat.zero_le _⟩


/-! ### word positions: total, on boundaries -/

/-- `next_word_pos_` (anchors Start / AfterEnd, every count incl. 0) from a well-formed state: no
    panic, result on a boundary at or after the cursor -/
theorem nextWordPosR_ok (S : Segmenter) (U : UData) (lb : LB) (a : At) (d : Word) (n : Nat) (range : Bool)
    (h : WF lb) (ha : a ≠ .beforeEnd) :
    ∃ r, LB.nextWordPosR S U lb lb.pos a d n range = .ok r ∧
      ∀ t, r = some t → IsBoundary lb.buf t ∧ lb.pos ≤ t := by
  by_cases hn : n = 0
  · subst hn
    obtain ⟨x, s, hb, hp⟩ := h.split
    have hsf : sliceFrom lb.buf lb.pos = .ok s := by rw [hb, hp]; exact sliceFrom_mid x s
    have hab : (a == At.beforeEnd) = false := by cases a <;> simp at ha ⊢
    unfold LB.nextWordPosR
    by_cases he : (lb.pos == lb.len) = true
    · exact ⟨none, by simp [he]; rfl, by simp⟩
    · simp only [he, hsf, hab, LB.nwOuter, bind, Except.bind, pure, Except.pure, Bool.false_eq_true, if_false,
        beq_self_eq_true, if_true]
      split
      · exact ⟨_, rfl, fun t ht => by cases ht; exact ⟨isBoundary_len _, h.le_len⟩⟩
      · exact ⟨_, rfl, by simp⟩
  · cases a with
    | beforeEnd => exact absurd rfl ha
    | start =>
      refine ⟨_, nextWordPosR_start S U lb d n range h hn, fun t ht => ?_⟩
      exact wordTargetFwd_boundary S U lb _ d n _ h t ht
    | afterEnd =>
      refine ⟨_, nextWordPosR_afterEnd S U lb d n range h hn, fun t ht => ?_⟩
      exact wordTargetFwd_boundary S U lb _ d n _ h t ht

theorem prevWordPos_ok (S : Segmenter) (U : UData) (lb : LB) (d : Word) (n : Nat) (h : WF lb) :
    ∃ r, LB.prevWordPos S U lb lb.pos d n = .ok r ∧
      ∀ t, r = some t → IsBoundary lb.buf t ∧ t ≤ lb.pos := by
  by_cases hn : n = 0
  · subst hn
    obtain ⟨x, s, hb, hp⟩ := h.split
    have hst : sliceTo lb.buf lb.pos = .ok x := by rw [hb, hp]; exact sliceTo_mid x s
    unfold LB.prevWordPos
    by_cases he : (lb.pos == 0) = true
    · exact ⟨none, by simp [he]; rfl, by simp⟩
    · simp only [he, hst, LB.pwOuter, bind, Except.bind, pure, Except.pure, Bool.false_eq_true, if_false]
      exact ⟨_, rfl, fun t ht => by cases ht; exact ⟨isBoundary_zero _, Nat.zero_le _⟩⟩
  · refine ⟨_, prevWordPos_eq S U lb d n h hn, fun t ht => ?_⟩
    exact wordTargetBwd_boundary S U lb d n h t ht


theorem nextWordPosR_target (S : Segmenter) (U : UData) (lb : LB) (a : At) (d : Word) (n : Nat) (range : Bool)
    (h : WF lb) (ha : a ≠ .beforeEnd) (hn : n ≠ 0) :
    LB.nextWordPosR S U lb lb.pos a d n range = .ok (wordTargetFwd S U lb.buf lb.pos a d n (!range)) := by
  cases a with
  | beforeEnd => exact absurd rfl ha
  | start => exact nextWordPosR_start S U lb d n range h hn
  | afterEnd => exact nextWordPosR_afterEnd S U lb d n range h hn


theorem gidxGo_length (o : Nat) (gs : List Text) : (gidxGo o gs).length = gs.length := by
  induction gs generalizing o with
  | nil => rfl
  | cons g gs ih => simp [gidxGo, ih]

theorem gidxGo_head? (o : Nat) (gs : List Text) : (gidxGo o gs).head?.map (·.1) = gs.head?.map (fun _ => o) := by
  cases gs <;> simp [gidxGo]


/-! ### character search: total, on boundaries -/

theorem occGo_mem {c : Char} {t : Text} {o k : Nat} (h : k ∈ occGo c o t) :
    ∃ a b, t = a ++ c :: b ∧ k = o + blen a := by
  induction t generalizing o with
  | nil => simp [occGo] at h
  | cons x t ih =>
    simp only [occGo] at h
    split at h
    · rename_i hx
      have hxc : x = c := by simpa using hx
      simp only [List.mem_cons] at h
      rcases h with rfl | h
      · exact ⟨[], t, by simp [hxc], by simp⟩
      · obtain ⟨a, b, rfl, rfl⟩ := ih h
        exact ⟨x :: a, b, rfl, by simp; omega⟩
    · obtain ⟨a, b, rfl, rfl⟩ := ih h
      exact ⟨x :: a, b, rfl, by simp; omega⟩

theorem occ_mem {c : Char} {t : Text} {k : Nat} (h : k ∈ occ c t) : ∃ a b, t = a ++ c :: b ∧ k = blen a := by
  obtain ⟨a, b, h1, h2⟩ := occGo_mem (o := 0) h
  exact ⟨a, b, h1, by omega⟩

/-- first cluster of a non-empty text: a non-empty prefix -/
theorem seg_head (S : Segmenter) {s : Text} (hs : s ≠ []) :
    ∃ g r, (S.seg s).head? = some g ∧ s = g ++ r ∧ g ≠ [] := by
  have hne := seg_ne_nil S hs
  cases hseg : S.seg s with
  | nil => exact absurd hseg hne
  | cons g gs =>
    refine ⟨g, gs.flatten, rfl, ?_, S.ne_nil s g (by rw [hseg]; simp)⟩
    have := S.flatten_eq s
    rw [hseg] at this
    simpa using this.symm

/-- last cluster of a non-empty text: a non-empty suffix -/
theorem seg_last (S : Segmenter) {s : Text} (hs : s ≠ []) :
    ∃ g r, (S.seg s).getLast? = some g ∧ s = r ++ g ∧ g ≠ [] := by
  have hne := seg_ne_nil S hs
  have hl := List.getLast?_eq_some_getLast hne
  refine ⟨_, (S.seg s).dropLast.flatten, hl, ?_, S.ne_nil s _ (List.getLast_mem hne)⟩
  have := S.flatten_eq s
  conv => lhs; rw [← this]
  conv => lhs; rw [← List.dropLast_concat_getLast hne]
  simp

/-- `search_char_pos` from a well-formed state: no panic; the result is a character boundary -/
theorem searchCharPos_ok (S : Segmenter) (lb : LB) (cs : CharSearch) (n : Nat) (h : WF lb) :
    ∃ r, LB.searchCharPos S lb cs n = .ok r ∧ ∀ p, r = some p → IsBoundary lb.buf p ∧
      (match cs with
       | .forward c => lb.pos ≤ p ∧ IsBoundary lb.buf (p + c.utf8Size)
       | .forwardBefore _ => lb.pos ≤ p
       | _ => p ≤ lb.pos) := by
  obtain ⟨x, s, hb, hp⟩ := h.split
  have hsf : sliceFrom lb.buf lb.pos = .ok s := by rw [hb, hp]; exact sliceFrom_mid x s
  have hst : sliceTo lb.buf lb.pos = .ok x := by rw [hb, hp]; exact sliceTo_mid x s
  have hlen : lb.len = blen x + blen s := by simp [LB.len, hb]
  cases cs with
  | backward c =>
    refine ⟨_, by simp [LB.searchCharPos, hst, bind, Except.bind, pure, Except.pure]; rfl, ?_⟩
    intro p hpe
    have hm : p ∈ occ c x := by
      have := List.mem_of_getLast? hpe
      exact List.mem_reverse.mp (List.mem_of_mem_take this)
    obtain ⟨a, b, rfl, rfl⟩ := occ_mem hm
    exact ⟨⟨a, c :: b ++ s, by rw [hb]; simp, rfl⟩, by rw [hp]; simp⟩
  | backwardAfter c =>
    cases hr : (((occ c x).reverse).take n).getLast? with
    | none => exact ⟨none, by simp [LB.searchCharPos, hst, hr, bind, Except.bind, pure, Except.pure], by simp⟩
    | some p =>
      have hm : p ∈ occ c x := List.mem_reverse.mp (List.mem_of_mem_take (List.mem_of_getLast? hr))
      obtain ⟨a, b, rfl, rfl⟩ := occ_mem hm
      have hmid : slice lb.buf (blen a) lb.pos = .ok (c :: b) := by
        rw [hb, hp]
        have := slice_mid a (c :: b) s
        simpa using this
      obtain ⟨g, r, hg, hgr, _⟩ := seg_head S (s := c :: b) (by simp)
      refine ⟨some (blen a + blen g), by
        simp [LB.searchCharPos, hst, hr, hmid, hg, bind, Except.bind, pure, Except.pure], ?_⟩
      intro q hq
      cases hq
      have hle : blen g ≤ blen (c :: b) := by rw [hgr]; simp
      refine ⟨⟨a ++ g, r ++ s, by rw [hb]; show a ++ (c :: b) ++ s = _; rw [hgr]; simp, by simp⟩, ?_⟩
      rw [hp]; simp at hle ⊢; omega
  | forward c =>
    by_cases hs : s = []
    · have he : (lb.pos == lb.len) = true := by simp [hlen, hp, hs]
      exact ⟨none, by simp [LB.searchCharPos, LB.graphemeAtCursor, he, bind, Except.bind, pure, Except.pure], by simp⟩
    · have he : (lb.pos == lb.len) = false := by
        have : 0 < blen s := blen_pos_of_ne_nil hs
        simp [hlen, hp]; omega
      obtain ⟨g, r, hg, hgr, hgne⟩ := seg_head S hs
      have hgp := blen_pos_of_ne_nil hgne
      have hsh : sliceFrom lb.buf (lb.pos + blen g) = .ok r := by
        rw [hb, hp, hgr]
        have := sliceFrom_mid (x ++ g) r
        simpa using this
      by_cases hlt : lb.pos + blen g < lb.len
      · cases hr : ((occ c r).take n).getLast? with
        | none =>
          exact ⟨none, by simp [LB.searchCharPos, LB.graphemeAtCursor, he, hsf, hg, hlt, hsh, hr, bind,
            Except.bind, pure, Except.pure], by simp⟩
        | some p =>
          have hm : p ∈ occ c r := List.mem_of_mem_take (List.mem_of_getLast? hr)
          obtain ⟨a, b, rfl, rfl⟩ := occ_mem hm
          refine ⟨some (lb.pos + blen g + blen a), by simp [LB.searchCharPos, LB.graphemeAtCursor, he, hsf,
            hg, hlt, hsh, hr, bind, Except.bind, pure, Except.pure], ?_⟩
          intro q hq
          cases hq
          refine ⟨⟨x ++ g ++ a, c :: b, by rw [hb, hgr]; simp, by rw [hp]; simp; omega⟩, by omega,
            ⟨x ++ g ++ a ++ [c], b, by rw [hb, hgr]; simp, by rw [hp]; simp; omega⟩⟩
      · exact ⟨none, by simp [LB.searchCharPos, LB.graphemeAtCursor, he, hsf, hg, hlt, bind, Except.bind,
          pure, Except.pure], by simp⟩
  | forwardBefore c =>
    by_cases hs : s = []
    · have he : (lb.pos == lb.len) = true := by simp [hlen, hp, hs]
      exact ⟨none, by simp [LB.searchCharPos, LB.graphemeAtCursor, he, bind, Except.bind, pure, Except.pure], by simp⟩
    · have he : (lb.pos == lb.len) = false := by
        have : 0 < blen s := blen_pos_of_ne_nil hs
        simp [hlen, hp]; omega
      obtain ⟨g, r, hg, hgr, hgne⟩ := seg_head S hs
      have hgp := blen_pos_of_ne_nil hgne
      have hsh : sliceFrom lb.buf (lb.pos + blen g) = .ok r := by
        rw [hb, hp, hgr]
        have := sliceFrom_mid (x ++ g) r
        simpa using this
      by_cases hlt : lb.pos + blen g < lb.len
      · cases hr : ((occ c r).take n).getLast? with
        | none =>
          exact ⟨none, by simp [LB.searchCharPos, LB.graphemeAtCursor, he, hsf, hg, hlt, hsh, hr, bind,
            Except.bind, pure, Except.pure], by simp⟩
        | some p =>
          have hm : p ∈ occ c r := List.mem_of_mem_take (List.mem_of_getLast? hr)
          obtain ⟨a, b, rfl, rfl⟩ := occ_mem hm
          have hmid : slice lb.buf lb.pos (lb.pos + blen g + blen a) = .ok (g ++ a) := by
            rw [hb, hp, hgr]
            have := slice_mid x (g ++ a) (c :: b)
            simp at this ⊢
            rw [← this]; congr 1; omega
          have hgane : g ++ a ≠ [] := by simp [hgne]
          obtain ⟨l, pre, hl, hpl, hlne⟩ := seg_last S hgane
          have hll : blen l ≤ lb.pos + blen g + blen a := by
            have : blen (g ++ a) = blen pre + blen l := by rw [hpl]; simp
            simp at this; omega
          refine ⟨some (lb.pos + blen g + blen a - blen l), by simp [LB.searchCharPos, LB.graphemeAtCursor,
            he, hsf, hg, hlt, hsh, hr, hmid, hl, hll, bind, Except.bind, pure, Except.pure], ?_⟩
          intro q hq
          cases hq
          have hga : blen g + blen a = blen pre + blen l := by
            have : blen (g ++ a) = blen pre + blen l := by rw [hpl]; simp
            simpa using this
          refine ⟨⟨x ++ pre, l ++ c :: b, ?_, by rw [hp]; simp; omega⟩, by omega⟩
          rw [hb, hgr]
          have : g ++ (a ++ c :: b) = pre ++ (l ++ c :: b) := by
            rw [← List.append_assoc, hpl]; simp
          simp [this]
      · exact ⟨none, by simp [LB.searchCharPos, LB.graphemeAtCursor, he, hsf, hg, hlt, bind, Except.bind,
          pure, Except.pure], by simp⟩


/-! ### line ranges: total, on boundaries -/

/-- `a` is the start of a line of `buf` -/
def IsLineStart (buf : Text) (a : Nat) : Prop := a = 0 ∨ ∃ u v, buf = u ++ '\n' :: v ∧ a = blen u + 1

theorem IsLineStart.boundary {buf : Text} {a : Nat} (h : IsLineStart buf a) : IsBoundary buf a := by
  rcases h with rfl | ⟨u, v, rfl, rfl⟩
  · exact isBoundary_zero _
  · exact ⟨u ++ ['\n'], v, by simp, by simp [utf8Size_newline]⟩

theorem IsLineStart.pred_boundary {buf : Text} {a : Nat} (h : IsLineStart buf a) : IsBoundary buf (a - 1) := by
  rcases h with rfl | ⟨u, v, rfl, rfl⟩
  · exact isBoundary_zero _
  · exact ⟨u, '\n' :: v, rfl, by simp⟩

theorem nluLoop_ok (buf : Text) (k start : Nat) (h : ∃ u v, buf = u ++ '\n' :: v ∧ start = blen u + 1) :
    ∃ s', LB.nluLoop buf k start = .ok s' ∧ IsLineStart buf s' ∧ s' ≤ start := by
  induction k generalizing start with
  | zero => exact ⟨start, rfl, Or.inr h, Nat.le_refl _⟩
  | succ k ih =>
    obtain ⟨u, v, hb, hs⟩ := h
    have hne : (start == 0) = false := by simp [hs]
    have hst : sliceTo buf (start - 1) = .ok u := by
      rw [hb, hs]; simp only [Nat.add_sub_cancel]; exact sliceTo_mid u _
    unfold LB.nluLoop
    simp only [hne, hst, bind, Except.bind, Bool.false_eq_true, if_false]
    cases hf : rfindChar '\n' u with
    | none => exact ⟨0, rfl, Or.inl rfl, Nat.zero_le _⟩
    | some off =>
      obtain ⟨u', v', rfl, rfl⟩ := rfindChar_some hf
      obtain ⟨s', h1, h2, h3⟩ := ih (blen u' + 1) ⟨u', v' ++ '\n' :: v, by rw [hb]; simp, rfl⟩
      exact ⟨s', h1, h2, by rw [hs]; simp; omega⟩

theorem nldLoop_ok (buf : Text) (k e : Nat) (h : IsBoundary buf e) :
    ∃ e', LB.nldLoop buf k e = .ok e' ∧ IsBoundary buf e' ∧ e ≤ e' := by
  induction k generalizing e with
  | zero => exact ⟨e, rfl, h, Nat.le_refl _⟩
  | succ k ih =>
    obtain ⟨x, s, rfl, rfl⟩ := h
    unfold LB.nldLoop
    simp only [sliceFrom_mid, bind, Except.bind]
    cases hf : findChar '\n' s with
    | none => exact ⟨_, rfl, isBoundary_len _, by simp⟩
    | some off =>
      obtain ⟨a, b, rfl, rfl⟩ := findChar_some hf
      obtain ⟨e', h1, h2, h3⟩ := ih (blen x + blen a + 1)
        ⟨x ++ a ++ ['\n'], b, by simp, by simp [utf8Size_newline]; omega⟩
      exact ⟨e', h1, h2, by omega⟩

/-- `n_lines_up` from a well-formed state -/
theorem nLinesUp_ok (lb : LB) (n : Nat) (h : WF lb) :
    ∃ r, LB.nLinesUp lb n = .ok r ∧ ∀ a b, r = some (a, b) →
      IsLineStart lb.buf a ∧ IsBoundary lb.buf b ∧ a ≤ lb.pos ∧ lb.pos ≤ b := by
  obtain ⟨x, s, hb, hp⟩ := h.split
  have hsf : sliceFrom lb.buf lb.pos = .ok s := by rw [hb, hp]; exact sliceFrom_mid x s
  have hst : sliceTo lb.buf lb.pos = .ok x := by rw [hb, hp]; exact sliceTo_mid x s
  unfold LB.nLinesUp
  simp only [hst, hsf, bind, Except.bind, pure, Except.pure]
  cases hf : rfindChar '\n' x with
  | none => exact ⟨none, rfl, by simp⟩
  | some off =>
    obtain ⟨u, v, rfl, rfl⟩ := rfindChar_some hf
    obtain ⟨s', h1, h2, h3⟩ := nluLoop_ok lb.buf n (blen u + 1) ⟨u, v ++ s, by rw [hb]; simp, rfl⟩
    simp only [h1]
    refine ⟨_, rfl, ?_⟩
    intro a b hab
    cases hab
    refine ⟨h2, ?_, by rw [hp]; simp [utf8Size_newline]; omega, ?_⟩
    · cases hg : findChar '\n' s with
      | none => exact isBoundary_len _
      | some k =>
        obtain ⟨a', b', rfl, rfl⟩ := findChar_some hg
        simp only
        exact ⟨u ++ '\n' :: v ++ a' ++ ['\n'], b', by rw [hb]; simp, by rw [hp]; simp [utf8Size_newline]; omega⟩
    · cases hg : findChar '\n' s with
      | none => simp only; rw [hp]; simp [LB.len, hb]
      | some k => simp only; omega

/-- `n_lines_down` from a well-formed state -/
theorem nLinesDown_ok (lb : LB) (n : Nat) (h : WF lb) :
    ∃ r, LB.nLinesDown lb n = .ok r ∧ ∀ a b, r = some (a, b) →
      IsLineStart lb.buf a ∧ IsBoundary lb.buf b ∧ a ≤ lb.pos ∧ lb.pos ≤ b := by
  obtain ⟨x, s, hb, hp⟩ := h.split
  have hsf : sliceFrom lb.buf lb.pos = .ok s := by rw [hb, hp]; exact sliceFrom_mid x s
  have hst : sliceTo lb.buf lb.pos = .ok x := by rw [hb, hp]; exact sliceTo_mid x s
  unfold LB.nLinesDown
  simp only [hst, hsf, bind, Except.bind, pure, Except.pure]
  cases hf : findChar '\n' s with
  | none => exact ⟨none, rfl, by simp⟩
  | some off =>
    obtain ⟨a', b', rfl, rfl⟩ := findChar_some hf
    obtain ⟨e', h1, h2, h3⟩ := nldLoop_ok lb.buf n (lb.pos + blen a' + 1)
      ⟨x ++ a' ++ ['\n'], b', by rw [hb]; simp, by rw [hp]; simp [utf8Size_newline]; omega⟩
    simp only [h1]
    refine ⟨_, rfl, ?_⟩
    intro a b hab
    cases hab
    refine ⟨?_, h2, ?_, by omega⟩
    · cases hg : rfindChar '\n' x with
      | none => exact Or.inl rfl
      | some k =>
        obtain ⟨u, v, rfl, rfl⟩ := rfindChar_some hg
        exact Or.inr ⟨u, v ++ (a' ++ '\n' :: b'), by rw [hb]; simp, rfl⟩
    · cases hg : rfindChar '\n' x with
      | none => exact Nat.zero_le _
      | some k =>
        obtain ⟨u, v, rfl, rfl⟩ := rfindChar_some hg
        rw [hp]; simp [utf8Size_newline]


/-! ### `next_word_pos_` is total for every anchor (membership argument, independent of the target theorems) -/

theorem nwInner_mem (U : UData) (a : At) (d : Word) (g : Nat × Text) (L : List (Nat × Text)) :
    match LB.nwInner U a d g L with
    | .found wp gi rest => (∃ t, (wp, t) ∈ g :: L) ∧ gi ∈ g :: L ∧ (∀ e ∈ rest, e ∈ g :: L)
    | .out gi => gi ∈ g :: L := by
  induction L generalizing g with
  | nil => simp [LB.nwInner]
  | cons h r ih =>
    obtain ⟨i, x⟩ := g
    obtain ⟨j, y⟩ := h
    by_cases h1 : (a == At.start && isStartOfWord U d x y) = true
    · simp only [LB.nwInner, h1, if_true]
      exact ⟨⟨y, by simp⟩, by simp, fun e he => by simp at he ⊢; exact Or.inr he⟩
    · have h1' : (a == At.start && isStartOfWord U d x y) = false := by simpa using h1
      by_cases h2 : (a != At.start && isEndOfWord U d x y) = true
      · simp only [LB.nwInner, h1', h2, Bool.false_eq_true, if_false, if_true]
        refine ⟨?_, by simp, ?_⟩
        · split
          · exact ⟨y, by simp⟩
          · exact ⟨x, by simp⟩
        · intro e he
          split at he
          · simp at he ⊢; exact Or.inr he
          · simp at he ⊢; exact Or.inr (Or.inr he)
      · have h2' : (a != At.start && isEndOfWord U d x y) = false := by simpa using h2
        simp only [LB.nwInner, h1', h2', Bool.false_eq_true, if_false]
        have := ih (j, y)
        cases hres : LB.nwInner U a d (j, y) r with
        | found wp gi rest =>
          rw [hres] at this
          simp only at this ⊢
          obtain ⟨⟨t, ht⟩, h2, h3⟩ := this
          exact ⟨⟨t, List.mem_cons_of_mem _ ht⟩, List.mem_cons_of_mem _ h2, fun e he => List.mem_cons_of_mem _ (h3 e he)⟩
        | out gi =>
          rw [hres] at this
          simp only at this ⊢
          exact List.mem_cons_of_mem _ this

theorem nwOuter_mem (U : UData) (a : At) (d : Word) (n wp0 : Nat) (gi0 : Option (Nat × Text))
    (L : List (Nat × Text)) :
    ((LB.nwOuter U a d n wp0 gi0 L).1 = wp0 ∨ (LB.nwOuter U a d n wp0 gi0 L).1 = 0 ∨
        ∃ t, ((LB.nwOuter U a d n wp0 gi0 L).1, t) ∈ L) ∧
      ((LB.nwOuter U a d n wp0 gi0 L).2 = gi0 ∨ (LB.nwOuter U a d n wp0 gi0 L).2 = none ∨
        ∃ e ∈ L, (LB.nwOuter U a d n wp0 gi0 L).2 = some e) := by
  induction n generalizing wp0 gi0 L with
  | zero => simp [LB.nwOuter]
  | succ k ih =>
    cases L with
    | nil => simp [LB.nwOuter]
    | cons g rest =>
      have hin := nwInner_mem U a d g rest
      cases hres : LB.nwInner U a d g rest with
      | out gi =>
        rw [hres] at hin
        simp only at hin
        simp only [LB.nwOuter, hres]
        exact ⟨Or.inr (Or.inl trivial), Or.inr (Or.inr ⟨gi, hin, rfl⟩)⟩
      | found wp gi rest' =>
        rw [hres] at hin
        simp only at hin
        simp only [LB.nwOuter, hres]
        obtain ⟨⟨t, ht⟩, h2, h3⟩ := hin
        obtain ⟨hw, hg⟩ := ih wp (some gi) rest'
        constructor
        · rcases hw with hw | hw | ⟨t', ht'⟩
          · exact Or.inr (Or.inr ⟨t, by rw [hw]; exact ht⟩)
          · exact Or.inr (Or.inl hw)
          · exact Or.inr (Or.inr ⟨t', h3 _ ht'⟩)
        · rcases hg with hg | hg | ⟨e, he, hg⟩
          · exact Or.inr (Or.inr ⟨gi, h2, hg⟩)
          · exact Or.inr (Or.inl hg)
          · exact Or.inr (Or.inr ⟨e, h3 _ he, hg⟩)

/-- `next_word_pos_` for EVERY anchor, word definition and count: no panic, result on a boundary at or
    after the cursor -/
theorem nextWordPosR_ok_all (S : Segmenter) (U : UData) (lb : LB) (a : At) (d : Word) (n : Nat) (range : Bool)
    (h : WF lb) :
    ∃ r, LB.nextWordPosR S U lb lb.pos a d n range = .ok r ∧
      ∀ t, r = some t → IsBoundary lb.buf t ∧ lb.pos ≤ t := by
  obtain ⟨x, s, hb, hp⟩ := h.split
  have hsf : sliceFrom lb.buf lb.pos = .ok s := by rw [hb, hp]; exact sliceFrom_mid x s
  have hoff : ∀ i t, (i, t) ∈ gidx S s → IsBoundary lb.buf (i + lb.pos) ∧ lb.pos ≤ i + lb.pos := by
    intro i t hm
    obtain ⟨a', b', rfl, rfl⟩ := gidx_mem hm
    exact ⟨⟨x ++ a', t ++ b', by rw [hb]; simp, by rw [hp]; simp; omega⟩, by omega⟩
  unfold LB.nextWordPosR
  by_cases he : (lb.pos == lb.len) = true
  · exact ⟨none, by simp [he]; rfl, by simp⟩
  · simp only [he, hsf, bind, Except.bind, pure, Except.pure, Bool.false_eq_true, if_false]
    -- the list handed to the outer loop is a part of `gidx S s`
    have hsub : ∀ e ∈ (if (a == At.beforeEnd) = true then ((gidx S s).head?, (gidx S s).drop 1)
        else (none, gidx S s)).2, e ∈ gidx S s := by
      intro e he'
      split at he'
      · exact List.mem_of_mem_drop he'
      · exact he'
    have hgi0 : ∀ e, (if (a == At.beforeEnd) = true then ((gidx S s).head?, (gidx S s).drop 1)
        else (none, gidx S s)).1 = some e → e ∈ gidx S s := by
      intro e he'
      split at he'
      · exact List.mem_of_mem_head? he'
      · cases he'
    obtain ⟨hw, hg⟩ := nwOuter_mem U a d n 0
      (if (a == At.beforeEnd) = true then ((gidx S s).head?, (gidx S s).drop 1) else (none, gidx S s)).1
      (if (a == At.beforeEnd) = true then ((gidx S s).head?, (gidx S s).drop 1) else (none, gidx S s)).2
    generalize LB.nwOuter U a d n 0 _ _ = res at hw hg ⊢
    obtain ⟨wp, gi⟩ := res
    simp only at hw hg ⊢
    split
    · split
      · exact ⟨_, rfl, fun t ht => by cases ht; exact ⟨isBoundary_len _, h.le_len⟩⟩
      · cases gi with
        | none => exact ⟨none, rfl, by simp⟩
        | some ig =>
          obtain ⟨i, g⟩ := ig
          simp only
          split
          · refine ⟨_, rfl, fun t ht => ?_⟩
            cases ht
            rcases hg with hg | hg | ⟨e, he', hg⟩
            · exact hoff i g (hgi0 _ hg.symm)
            · cases hg
            · cases hg; exact hoff i g (hsub _ he')
          · exact ⟨none, rfl, by simp⟩
    · rename_i hwp
      refine ⟨_, rfl, fun t ht => ?_⟩
      cases ht
      rcases hw with hw | hw | ⟨t', ht'⟩
      · exact absurd (by simp [hw]) hwp
      · exact absurd (by simp [hw]) hwp
      · exact hoff wp t' (hsub _ ht')


/-! ### vertical motion helpers -/

/-- the line start computed inside a prefix `u` of the buffer -/
theorem lineStart_of_prefix {buf u rest : Text} (hb : buf = u ++ rest) :
    IsLineStart buf (match rfindChar '\n' u with | some k => k + 1 | none => 0) ∧
      (match rfindChar '\n' u with | some k => k + 1 | none => 0) ≤ blen u := by
  cases hf : rfindChar '\n' u with
  | none => exact ⟨Or.inl rfl, Nat.zero_le _⟩
  | some k =>
    obtain ⟨a, b, rfl, rfl⟩ := rfindChar_some hf
    exact ⟨Or.inr ⟨a, b ++ rest, by rw [hb]; simp, rfl⟩, by simp [utf8Size_newline]⟩

theorem luLoop_ok (buf : Text) (k ds de : Nat) (h1 : IsLineStart buf ds) (h2 : IsBoundary buf de) (h3 : ds ≤ de) :
    ∃ ds' de', LB.luLoop buf k ds de = .ok (ds', de') ∧ IsLineStart buf ds' ∧ IsBoundary buf de' ∧ ds' ≤ de' := by
  induction k generalizing ds de with
  | zero => exact ⟨ds, de, rfl, h1, h2, h3⟩
  | succ k ih =>
    unfold LB.luLoop
    by_cases h0 : (ds == 0) = true
    · exact ⟨ds, de, by simp [h0]; rfl, h1, h2, h3⟩
    · rcases h1 with rfl | ⟨u, v, hb, hds⟩
      · simp at h0
      · have hst : sliceTo buf (ds - 1) = .ok u := by
          rw [hb, hds]; simp only [Nat.add_sub_cancel]; exact sliceTo_mid u _
        obtain ⟨hl1, hl2⟩ := lineStart_of_prefix (buf := buf) (u := u) (rest := '\n' :: v) hb
        have hde : IsBoundary buf (ds - 1) := by
          rw [hb, hds]; simp only [Nat.add_sub_cancel]; exact isBoundary_mid u _
        obtain ⟨ds', de', h4, h5, h6, h7⟩ := ih _ (ds - 1) hl1 hde (by rw [hds]; simpa using hl2)
        refine ⟨ds', de', ?_, h5, h6, h7⟩
        simp only [h0, hst, bind, Except.bind, Bool.false_eq_true, if_false]
        exact h4

/-- the end of the line starting at a boundary `ds`: either the buffer end or the offset of a line break -/
def IsLineEnd (buf : Text) (e : Nat) : Prop := e = blen buf ∨ ∃ p q, buf = p ++ '\n' :: q ∧ e = blen p

theorem IsLineEnd.boundary {buf : Text} {e : Nat} (h : IsLineEnd buf e) : IsBoundary buf e := by
  rcases h with rfl | ⟨p, q, rfl, rfl⟩
  · exact isBoundary_len _
  · exact isBoundary_mid p _

theorem lineEnd_of_suffix {buf x s : Text} (hb : buf = x ++ s) :
    IsLineEnd buf (match findChar '\n' s with | some v => blen x + v | none => blen buf) ∧
      blen x ≤ (match findChar '\n' s with | some v => blen x + v | none => blen buf) := by
  cases hf : findChar '\n' s with
  | none => exact ⟨Or.inl rfl, by rw [hb]; simp⟩
  | some v =>
    obtain ⟨a, b, rfl, rfl⟩ := findChar_some hf
    exact ⟨Or.inr ⟨x ++ a, b, by rw [hb]; simp, by simp⟩, by simp⟩

theorem ldLoop_ok (buf : Text) (k ds de : Nat) (h1 : IsBoundary buf ds) (h2 : IsLineEnd buf de) (h3 : ds ≤ de) :
    ∃ ds' de', LB.ldLoop buf k ds de = .ok (ds', de') ∧ IsBoundary buf ds' ∧ IsBoundary buf de' ∧ ds' ≤ de' := by
  induction k generalizing ds de with
  | zero => exact ⟨ds, de, rfl, h1, h2.boundary, h3⟩
  | succ k ih =>
    unfold LB.ldLoop
    by_cases h0 : (de == blen buf) = true
    · exact ⟨ds, de, by simp [h0]; rfl, h1, h2.boundary, h3⟩
    · rcases h2 with rfl | ⟨p, q, hb, hde⟩
      · simp at h0
      · have hsf : sliceFrom buf (de + 1) = .ok q := by
          rw [hb, hde]
          have := sliceFrom_mid (p ++ ['\n']) q
          simpa [utf8Size_newline] using this
        have hds' : IsBoundary buf (de + 1) := by
          rw [hb, hde]; exact ⟨p ++ ['\n'], q, by simp, by simp [utf8Size_newline]⟩
        obtain ⟨hl1, hl2⟩ := lineEnd_of_suffix (buf := buf) (x := p ++ ['\n']) (s := q) (by rw [hb]; simp)
        have hbl : blen (p ++ ['\n']) = de + 1 := by rw [hde]; simp [utf8Size_newline]
        rw [hbl] at hl1 hl2
        obtain ⟨ds', de', h4, h5, h6, h7⟩ := ih (de + 1) _ hds' hl1 hl2
        refine ⟨ds', de', ?_, h5, h6, h7⟩
        simp only [h0, hsf, bind, Except.bind, Bool.false_eq_true, if_false]
        exact h4

/-- a cluster offset inside a slice of the buffer is a boundary of the buffer -/
theorem gidx_slice_boundary (S : Segmenter) {buf line : Text} {a b : Nat}
    (hs : slice buf a b = .ok line) {i : Nat} {g : Text} (hm : (i, g) ∈ gidx S line) :
    IsBoundary buf (a + i) := by
  unfold slice at hs
  cases h3 : split3 buf a b with
  | error e => simp [h3] at hs
  | ok xyz =>
    obtain ⟨x, y, z⟩ := xyz
    simp [h3] at hs
    subst hs
    obtain ⟨hb, ha, _⟩ := split3_ok h3
    obtain ⟨p, q, rfl, rfl⟩ := gidx_mem hm
    exact ⟨x ++ p, g ++ q ++ z, by rw [hb]; simp, by rw [ha]; simp⟩


/-- `colFind` over (a part of) the cluster list of `line`: no panic, the result is a cluster offset -/
theorem colFind_ok (S : Segmenter) (U : UData) (line : Text) (w : Nat) (L : List (Nat × Text))
    (hL : ∀ e ∈ L, e ∈ gidx S line) :
    ∃ r, LB.colFind U line w L = .ok r ∧ ∀ idx, r = some idx → ∃ g, (idx, g) ∈ gidx S line := by
  induction L with
  | nil => exact ⟨none, rfl, by simp⟩
  | cons e rest ih =>
    obtain ⟨idx, g⟩ := e
    have hm := hL (idx, g) (by simp)
    obtain ⟨a, b, hab, hi⟩ := gidx_mem hm
    have hst : sliceTo line idx = .ok a := by rw [hab, hi, List.append_assoc]; exact sliceTo_mid a _
    unfold LB.colFind
    simp only [hst, bind, Except.bind]
    by_cases hc : U.width a ≥ w
    · exact ⟨some idx, by simp [hc, pure, Except.pure], fun i hi' => by cases hi'; exact ⟨g, hm⟩⟩
    · obtain ⟨r, hr, hp⟩ := ih (fun e he => hL e (by simp [he]))
      exact ⟨r, by simp [hc, hr], hp⟩

/-- `colFind_ok` with the run given as an equation (the wanted column is inferred from it) -/
theorem colFind_ok' (S : Segmenter) {U : UData} {line : Text} {w : Nat} {L : List (Nat × Text)}
    {o : Except Panic (Option Nat)} (h : LB.colFind U line w L = o) (hL : ∀ e ∈ L, e ∈ gidx S line) :
    ∃ r, o = .ok r ∧ ∀ idx, r = some idx → ∃ g, (idx, g) ∈ gidx S line := by
  obtain ⟨r, hr, hp⟩ := colFind_ok S U line w L hL
  exact ⟨r, by rw [← h, hr], hp⟩

/-- `first_print` (vi `^`) from a well-formed state: no panic, the result is a character boundary -/
theorem firstPrint_ok (S : Segmenter) (U : UData) (lb : LB) (h : WF lb) :
    ∃ p, LB.firstPrint S U lb = .ok p ∧ IsBoundary lb.buf p := by
  obtain ⟨st, hst, hsb, hsle⟩ := startOfLine_ok lb h
  obtain ⟨e, he, heb, hele⟩ := endOfLine_ok lb h
  obtain ⟨line, hline⟩ := slice_ok hsb heb (by omega)
  unfold LB.firstPrint
  simp only [hst, he, hline, bind, Except.bind]
  cases hf : (gidx S line).find? (fun x => !x.2.any U.ws) with
  | none => exact ⟨e, by simp [hf, pure, Except.pure], heb⟩
  | some ig =>
    obtain ⟨i, g⟩ := ig
    exact ⟨st + i, by simp [hf, pure, Except.pure],
      gidx_slice_boundary S hline (List.mem_of_find?_eq_some hf)⟩

theorem lineStart_cases {buf u rest : Text} (hb : buf = u ++ rest) :
    ∃ ds0, ((rfindChar '\n' u = none ∧ ds0 = 0) ∨ (∃ k, rfindChar '\n' u = some k ∧ ds0 = k + 1)) ∧
      IsLineStart buf ds0 ∧ ds0 ≤ blen u := by
  have := lineStart_of_prefix (buf := buf) (u := u) (rest := rest) hb
  cases hf : rfindChar '\n' u with
  | none => rw [hf] at this; exact ⟨0, Or.inl ⟨rfl, rfl⟩, this.1, this.2⟩
  | some k => rw [hf] at this; exact ⟨k + 1, Or.inr ⟨k, rfl, rfl⟩, this.1, this.2⟩



/-! ### character motion = declarative target; non-trivial motions return `some` -/

theorem nextPos_eq_target (S : Segmenter) (lb : LB) (n : Nat) (h : WF lb) (hne : lb.pos ≠ lb.len)
    (hn : n ≠ 0) : LB.nextPos S lb n = .ok (charTargetFwd S lb.buf lb.pos n) := by
  obtain ⟨x, s, hb, hp⟩ := h.split
  have hsne : s ≠ [] := by
    intro h0; apply hne; simp [LB.len, hb, hp, h0]
  have hsp : splitAtByte lb.buf lb.pos = some (x, s) := by rw [hb, hp]; exact splitAtByte_append x s
  have hsf : sliceFrom lb.buf lb.pos = .ok s := by rw [hb, hp]; exact sliceFrom_mid x s
  unfold LB.nextPos charTargetFwd splitAt?
  have hne' : (lb.pos == lb.len) = false := by simpa using hne
  simp only [hne', hsf, hsp, bind, Except.bind, pure, Except.pure, Option.bind]
  have hl := gidxGo_take_last 0 n (S.seg s)
  rw [if_neg (by simp [hn, seg_ne_nil S hsne])] at hl
  rw [offOf_min]
  cases hg : ((gidxGo 0 (S.seg s)).take n).getLast? with
  | none => simp [hg] at hl
  | some ig =>
    obtain ⟨i, g⟩ := ig
    simp [hg] at hl
    simp [gidx, hg, offOf, ← hl]; omega


theorem prevPos_eq_target (S : Segmenter) (lb : LB) (n : Nat) (h : WF lb) (hne : lb.pos ≠ 0)
    (hn : n ≠ 0) : LB.prevPos S lb n = .ok (charTargetBwd S lb.buf lb.pos n) := by
  obtain ⟨x, s, hb, hp⟩ := h.split
  have hxne : x ≠ [] := by
    intro h0; apply hne; simp [hp, h0]
  have hsp : splitAtByte lb.buf lb.pos = some (x, s) := by rw [hb, hp]; exact splitAtByte_append x s
  have hst : sliceTo lb.buf lb.pos = .ok x := by rw [hb, hp]; exact sliceTo_mid x s
  unfold LB.prevPos charTargetBwd splitAt?
  have hne' : (lb.pos == 0) = false := by simpa using hne
  simp only [hne', hst, hsp, bind, Except.bind, pure, Except.pure, Option.bind, Bool.false_eq_true, if_false]
  have hgs := seg_ne_nil S hxne
  have hlen : 0 < (S.seg x).length := List.length_pos_iff.mpr hgs
  simp only [gidx, List.take_reverse, List.getLast?_reverse, gidxGo_length, gidxGo_drop, Nat.zero_add]
  have hk : (S.seg x).length - n < (S.seg x).length := by omega
  have hd : List.drop ((S.seg x).length - n) (S.seg x) ≠ [] := by
    intro h0
    have := congrArg List.length h0
    simp at this; omega
  have hm : (S.seg x).length - min n (S.seg x).length = (S.seg x).length - n := by omega
  rw [hm]
  cases hdd : List.drop ((S.seg x).length - n) (S.seg x) with
  | nil => exact absurd hdd hd
  | cons g r => simp [gidxGo]


theorem nextPos_some (S : Segmenter) (lb : LB) (n : Nat) (h : WF lb) (hne : lb.pos ≠ lb.len) (hn : n ≠ 0) :
    ∃ p, LB.nextPos S lb n = .ok (some p) ∧ IsBoundary lb.buf p ∧ lb.pos < p := by
  obtain ⟨r, hr, hp⟩ := nextPos_ok S lb n h
  have ht := nextPos_eq_target S lb n h hne hn
  obtain ⟨x, s, hb, hpos⟩ := h.split
  have : ∃ p, charTargetFwd S lb.buf lb.pos n = some p := by
    simp [charTargetFwd, splitAt?, hb, hpos, splitAtByte_append]
  obtain ⟨p, hpp⟩ := this
  rw [hpp] at ht
  rw [ht] at hr
  cases hr
  exact ⟨p, ht, hp p rfl⟩

theorem prevPos_some (S : Segmenter) (lb : LB) (n : Nat) (h : WF lb) (hne : lb.pos ≠ 0) (hn : n ≠ 0) :
    ∃ p, LB.prevPos S lb n = .ok (some p) ∧ IsBoundary lb.buf p ∧ p < lb.pos := by
  obtain ⟨r, hr, hp⟩ := prevPos_ok S lb n h
  have ht := prevPos_eq_target S lb n h hne hn
  obtain ⟨x, s, hb, hpos⟩ := h.split
  have : ∃ p, charTargetBwd S lb.buf lb.pos n = some p := by
    simp [charTargetBwd, splitAt?, hb, hpos, splitAtByte_append]
  obtain ⟨p, hpp⟩ := this
  rw [hpp] at ht
  rw [ht] at hr
  cases hr
  exact ⟨p, ht, hp p rfl⟩


theorem skipWhitespace_ok (S : Segmenter) (U : UData) (lb : LB) (h : WF lb) :
    ∃ r, LB.skipWhitespace S U lb = .ok r ∧ ∀ st, r = some st → IsBoundary lb.buf st ∧ lb.pos ≤ st := by
  obtain ⟨x, s, hb, hp⟩ := h.split
  have hsf : sliceFrom lb.buf lb.pos = .ok s := by rw [hb, hp]; exact sliceFrom_mid x s
  unfold LB.skipWhitespace
  by_cases he : (lb.pos == lb.len) = true
  · exact ⟨none, by simp [he]; rfl, by simp⟩
  · simp only [he, hsf, bind, Except.bind, pure, Except.pure, Bool.false_eq_true, if_false]
    refine ⟨_, rfl, ?_⟩
    intro st hst
    cases hf : (gidx S s).find? (fun x => x.2.all U.alnum) with
    | none => simp [hf] at hst
    | some ig =>
      obtain ⟨i, g⟩ := ig
      simp [hf] at hst
      subst hst
      obtain ⟨a, b, rfl, rfl⟩ := gidx_mem (List.mem_of_find?_eq_some hf)
      exact ⟨⟨x ++ a, g ++ b, by rw [hb]; simp, by rw [hp]; simp; omega⟩, by omega⟩


theorem drain_at (x y z : Text) (d : Direction) (lb : LB) (hb : lb.buf = x ++ y ++ z) :
    LB.drain (blen x) (blen x + blen y) d lb = .ok (y, { lb with buf := x ++ z }, [.del (blen x) y d]) := by
  unfold LB.drain
  rw [hb, split3_append]

theorem insertStr_at (S : Segmenter) (U : UData) (x z s : Text) (lb : LB) (hb : lb.buf = x ++ z) :
    LB.insertStr S U (blen x) s lb =
      .ok (blen x == blen lb.buf, { lb with buf := x ++ s ++ z, cap := growCap lb.cap (blen lb.buf + blen s) },
           [.insStr (blen x) s]) := by
  simp [LB.insertStr, hb, splitAtByte_append]

theorem moveToNextWord_run (S : Segmenter) (U : UData) (a : At) (d : Word) (n : Nat) (lb : LB) (h : WF lb) :
    ∃ r p, LB.moveToNextWord S U a d n lb = .ok (r, { lb with pos := p }, []) ∧ IsBoundary lb.buf p ∧ lb.pos ≤ p := by
  obtain ⟨r, hr, hp⟩ := nextWordPosR_ok_all S U lb a d n false h
  unfold LB.moveToNextWord LB.nextWordPos
  simp only [LM.bind_apply, LM.ro, hr]
  cases r with
  | none => exact ⟨false, lb.pos, rfl, h, Nat.le_refl _⟩
  | some p => exact ⟨true, p, rfl, (hp p rfl).1, (hp p rfl).2⟩

theorem moveToPrevWord_run (S : Segmenter) (U : UData) (d : Word) (n : Nat) (lb : LB) (h : WF lb) :
    ∃ r p, LB.moveToPrevWord S U d n lb = .ok (r, { lb with pos := p }, []) ∧ IsBoundary lb.buf p ∧ p ≤ lb.pos := by
  obtain ⟨r, hr, hp⟩ := prevWordPos_ok S U lb d n h
  unfold LB.moveToPrevWord
  simp only [LM.bind_apply, LM.ro, hr]
  cases r with
  | none => exact ⟨false, lb.pos, rfl, h, Nat.le_refl _⟩
  | some p => exact ⟨true, p, rfl, (hp p rfl).1, (hp p rfl).2⟩


end Rl
