/-
  Frame facts about the keymap functions of Rl/Editor.lean (`next_cmd` and everything below it):
  reading and decoding a command never touches the line, the saved line, the kill ring, the history
  index, the validator log; in emacs mode it does not touch the undo log either (except for the
  group opened for a `Replace` command).
-/
import Rl.Lemmas.EditorM
namespace Rl
variable (S : Segmenter) (U : UData) (cfg : EdCfg)

theorem keeps_customSeqBinding (fuel : Nat) (keys : List KeyEvent) (n : Nat) (p : Bool) :
    Keeps Ed.core (customSeqBinding cfg fuel keys n p) := by
  induction fuel generalizing keys with
  | zero => unfold customSeqBinding; em_keeps
  | succ k ih =>
    unfold customSeqBinding
    em_keeps
    exact ih _

theorem keeps_common_fallback (fuel : Nat) (keys : List KeyEvent) (n : Nat) (p : Bool) :
    Keeps Ed.core (common.fallback cfg fuel keys n p) := by
  unfold common.fallback
  em_keeps
  exact keeps_customSeqBinding cfg _ _ _ _

theorem keeps_common (fuel : Nat) (keys : List KeyEvent) (key : KeyEvent) (n : Nat) (p : Bool) :
    Keeps Ed.core (common cfg fuel keys key n p) := by
  have := keeps_common_fallback cfg fuel keys n p
  unfold common
  em_keeps

theorem keeps_emacsDigitLoop (negative : Bool) (fuel : Nat) (mag : Option Nat) :
    Keeps Ed.core (emacsDigitLoop S U cfg negative fuel mag) := by
  induction fuel generalizing mag with
  | zero => unfold emacsDigitLoop; em_keeps
  | succ k ih =>
    unfold emacsDigitLoop; em_keeps [ih]

theorem keeps_viDigitLoop (fuel : Nat) : Keeps Ed.core (viDigitLoop S U cfg fuel) := by
  induction fuel with
  | zero => unfold viDigitLoop; em_keeps
  | succ k ih => unfold viDigitLoop; em_keeps

theorem keeps_emacs (fuel : Nat) (key : KeyEvent) : Keeps Ed.core (emacs S U cfg fuel key) := by
  have h1 := fun ng m => keeps_emacsDigitLoop S U cfg ng fuel m
  have h2 := fun keys key n p => keeps_common cfg fuel keys key n p
  have h3 := fun keys n p => keeps_customSeqBinding cfg fuel keys n p
  unfold emacs emacsDigitArgument emacsNumArgs emacs.charSearchCmd
  em_keeps [h1, h2, h3]

theorem keeps_viCharSearch (c : Char) : Keeps Ed.core (viCharSearch c) := by
  unfold viCharSearch; em_keeps

theorem keeps_viArgDigit (fuel : Nat) (d : Char) : Keeps Ed.core (viArgDigit S U cfg fuel d) := by
  have := keeps_viDigitLoop S U cfg fuel
  unfold viArgDigit; em_keeps

theorem keeps_viNumArgs : Keeps Ed.core viNumArgs := by
  unfold viNumArgs; em_keeps

theorem keeps_viCmdMotion (fuel : Nat) (key : KeyEvent) (n : Nat) :
    Keeps Ed.core (viCmdMotion S U cfg fuel key n) := by
  have h1 := fun d => keeps_viArgDigit S U cfg fuel d
  have h2 := keeps_viNumArgs
  have h3 := fun c => keeps_viCharSearch c
  unfold viCmdMotion
  em_keeps [h1, h3]

theorem keeps_viCommand (fuel : Nat) (key : KeyEvent) : Keeps Ed.coreNC (viCommand S U cfg fuel key) := by
  have h1 := fun d => (keeps_viArgDigit S U cfg fuel d).nc
  have h2 := keeps_viNumArgs.nc
  have h3 := fun c => (keeps_viCharSearch c).nc
  have h4 := fun key n => (keeps_viCmdMotion S U cfg fuel key n).nc
  have h5 := fun keys key n p => (keeps_common cfg fuel keys key n p).nc
  unfold viCommand
  em_keeps [h1, h3, h4, h5]

theorem keeps_viInsert (fuel : Nat) (key : KeyEvent) : Keeps Ed.coreNC (viInsert S U cfg fuel key) := by
  have h4 := fun key => keeps_viCommand S U cfg fuel key
  have h5 := fun keys key n p => (keeps_common cfg fuel keys key n p).nc
  unfold viInsert
  em_keeps [h4, h5]

/-- **`next_cmd` frame**: reading and decoding the next command leaves the line, the saved line, the
    kill ring, the history index, the validator log and the suspend count alone. -/
theorem keeps_nextCmd (fuel : Nat) (sea iep : Bool) : Keeps Ed.coreNC (nextCmd S U cfg fuel sea iep) := by
  have h1 := fun key => (keeps_emacs S U cfg fuel key).nc
  have h2 := fun key => keeps_viInsert S U cfg fuel key
  have h3 := fun key => keeps_viCommand S U cfg fuel key
  unfold nextCmd
  em_keeps [h1, h2, h3]

/-- `next_cmd` under `wp`: whatever it returns or however it exits, the core-without-undo-log is kept -/
theorem wp_nextCmd {fuel : Nat} {sea iep : Bool} {s : Ed} {Q : Cmd → Ed → Prop} {E : Outcome → Ed → Prop}
    (hq : ∀ c s', s'.coreNC = s.coreNC → Q c s') (he : ∀ o s', s'.coreNC = s.coreNC → E o s') :
    wp (nextCmd S U cfg fuel sea iep) Q E s :=
  wp_mono ((keeps_nextCmd S U cfg fuel sea iep).wp s) hq he


end Rl
