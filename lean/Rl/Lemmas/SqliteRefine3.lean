/-
  Refinement lemmas for C20, part 3: session tags of the model (the `session` table's ids) and of
  the declarative store (one epoch per open) are related by a renaming that is injective where it
  matters; every store operation of the spec preserves the simulation.
-/
import Rl.Lemmas.SqliteRefine2
namespace Rl.Sq
open Rl Rl.Spec.Sq

/-- rename the session tags -/
def ren (f : Nat → Nat) (es : List (Nat × Text)) : List (Nat × Text) := es.map (fun x => (f x.1, x.2))

def InjOn (f : Nat → Nat) (es : List (Nat × Text)) (e0 : Nat) : Prop :=
  (∀ x ∈ es, ∀ y ∈ es, f x.1 = f y.1 → x.1 = y.1) ∧ (∀ x ∈ es, f x.1 = f e0 → x.1 = e0)

theorem InjOn.mono {f : Nat → Nat} {es es' : List (Nat × Text)} {e0 : Nat} (h : InjOn f es e0)
    (hsub : ∀ x ∈ es', x ∈ es) : InjOn f es' e0 :=
  ⟨fun x hx y hy => h.1 x (hsub x hx) y (hsub y hy), fun x hx => h.2 x (hsub x hx)⟩

theorem ren_filter {f : Nat → Nat} {es : List (Nat × Text)} {e0 : Nat} (h : InjOn f es e0) (l : Text) :
    (ren f es).filter (· != (f e0, l)) = ren f (es.filter (· != (e0, l))) := by
  unfold ren
  rw [List.filter_map]
  congr 1
  apply List.filter_congr
  intro x hx
  obtain ⟨a, b⟩ := x
  simp only [Function.comp, bne]
  congr 1
  rw [Bool.eq_iff_iff]
  simp only [beq_iff_eq, Prod.mk.injEq]
  constructor
  · rintro ⟨h1, h2⟩; exact ⟨h.2 (a, b) hx h1, h2⟩
  · rintro ⟨h1, h2⟩; exact ⟨by rw [h1], h2⟩

theorem ren_contains {f : Nat → Nat} {xs : List (Nat × Text)} {x : Nat × Text}
    (h : ∀ y ∈ xs, f y.1 = f x.1 → y.1 = x.1) :
    (ren f xs).contains (f x.1, x.2) = xs.contains x := by
  rw [Bool.eq_iff_iff]
  simp only [List.contains_iff_mem, ren, List.mem_map]
  constructor
  · rintro ⟨y, hy, he⟩
    simp only [Prod.mk.injEq] at he
    have : y = x := Prod.ext (h y hy he.1) he.2
    rw [← this]; exact hy
  · intro hx; exact ⟨x, hx, rfl⟩

theorem ren_collapse {f : Nat → Nat} : ∀ (es : List (Nat × Text)),
    (∀ x ∈ es, ∀ y ∈ es, f x.1 = f y.1 → x.1 = y.1) → collapse (ren f es) = ren f (collapse es)
  | [], _ => rfl
  | x :: xs, h => by
    have ih := ren_collapse xs (fun a ha b hb => h a (List.mem_cons_of_mem _ ha) b (List.mem_cons_of_mem _ hb))
    have hc := ren_contains (f := f) (xs := xs) (x := x)
      (fun y hy he => h y (List.mem_cons_of_mem _ hy) x (by simp) he)
    have e : ren f (x :: xs) = (f x.1, x.2) :: ren f xs := rfl
    rw [e]
    unfold collapse
    rw [hc]
    cases xs.contains x
    · simp only [Bool.false_eq_true, if_false, ih]; rfl
    · simp only [if_true, ih]

theorem ren_takeLast (f : Nat → Nat) (n : Nat) (es : List (Nat × Text)) :
    takeLast n (ren f es) = ren f (takeLast n es) := by
  simp [takeLast, ren, List.map_drop]

/-- simulation between the model's content (`a`, session ids of the `session` table) and the
    declarative store (`s`, one epoch per open) -/
structure Sim (a s : SState) : Prop where
  max : a.max = s.max
  space : a.ignoreSpace = s.ignoreSpace
  dups : a.ignoreDups = s.ignoreDups
  le : ∀ x ∈ s.entries, x.1 ≤ s.epoch
  ex : ∃ f : Nat → Nat, a.entries = ren f s.entries ∧ f s.epoch = a.epoch ∧ InjOn f s.entries s.epoch

theorem Sim.lines {a s : SState} (h : Sim a s) : Spec.Sq.lines a = Spec.Sq.lines s := by
  obtain ⟨f, h1, _, _⟩ := h.ex
  simp [Spec.Sq.lines, h1, ren, List.map_map, Function.comp_def]

theorem refused_sim (ws : Char → Bool) {a s : SState} (h : Sim a s) (l : Text) :
    refused ws a l = refused ws s l := by
  simp [refused, h.max, h.space]

theorem sim_addLine (ws : Char → Bool) {a s : SState} (h : Sim a s) (l : Text) :
    Sim (addLine ws a l).1 (addLine ws s l).1 ∧ (addLine ws a l).2 = (addLine ws s l).2 := by
  unfold addLine
  rw [refused_sim ws h l]
  cases refused ws s l
  · simp only [Bool.false_eq_true, if_false, and_true]
    obtain ⟨f, h1, h2, h3⟩ := h.ex
    have hsub : ∀ x ∈ (if s.ignoreDups = true then s.entries.filter (· != (s.epoch, l)) else s.entries),
        x ∈ s.entries := by
      intro x hx; split at hx
      · exact (List.mem_filter.mp hx).1
      · exact hx
    refine ⟨h.max, h.space, h.dups, ?_, f, ?_, h2, ?_, ?_⟩
    · intro x hx
      rcases List.mem_append.mp hx with hx | hx
      · exact h.le x (hsub x hx)
      · simp at hx; subst hx; exact Nat.le_refl _
    · simp only [h.dups, h1, ← h2]
      cases s.ignoreDups
      · simp [ren]
      · simp only [if_true, ren_filter h3]; simp [ren]
    · intro x hx y hy he
      rcases List.mem_append.mp hx with hx | hx <;> rcases List.mem_append.mp hy with hy | hy
      · exact h3.1 x (hsub x hx) y (hsub y hy) he
      · simp at hy; subst hy; exact h3.2 x (hsub x hx) he
      · simp at hx; subst hx; exact (h3.2 y (hsub y hy) he.symm).symm
      · simp at hx hy; subst hx; subst hy; rfl
    · intro x hx he
      rcases List.mem_append.mp hx with hx | hx
      · exact h3.2 x (hsub x hx) he
      · simp at hx; subst hx; rfl
  · simp only [if_true, and_true]; exact h

theorem sim_addLines (ws : Char → Bool) {a s : SState} (h : Sim a s) (ls : List Text) :
    Sim (addLines ws a ls).1 (addLines ws s ls).1 ∧ (addLines ws a ls).2 = (addLines ws s ls).2 := by
  induction ls generalizing a s with
  | nil => exact ⟨h, rfl⟩
  | cons l ls ih =>
    obtain ⟨h1, h2⟩ := sim_addLine ws h l
    obtain ⟨h3, h4⟩ := ih h1
    simp only [addLines]
    exact ⟨h3, by rw [h2, h4]⟩

theorem sim_takeLast {a s : SState} (h : Sim a s) (n : Nat) :
    Sim { a with max := n, entries := takeLast n a.entries } { s with max := n, entries := takeLast n s.entries } := by
  obtain ⟨f, h1, h2, h3⟩ := h.ex
  have hsub : ∀ x ∈ takeLast n s.entries, x ∈ s.entries := fun x hx => List.mem_of_mem_drop hx
  exact ⟨rfl, h.space, h.dups, fun x hx => h.le x (hsub x hx), f, by simp only [h1, ren_takeLast], h2, h3.mono hsub⟩

theorem sim_collapse {a s : SState} (h : Sim a s) (b : Bool) :
    Sim { a with entries := (if b && !a.ignoreDups then collapse a.entries else a.entries), ignoreDups := b }
        { s with ignoreDups := b, entries := (if b && !s.ignoreDups then collapse s.entries else s.entries) } := by
  obtain ⟨f, h1, h2, h3⟩ := h.ex
  have hsub : ∀ x ∈ (if (b && !s.ignoreDups) = true then collapse s.entries else s.entries), x ∈ s.entries := by
    intro x hx; split at hx
    · exact mem_collapse _ _ hx
    · exact hx
  refine ⟨h.max, h.space, rfl, fun x hx => h.le x (hsub x hx), f, ?_, h2, h3.mono hsub⟩
  simp only [h.dups, h1]
  split
  · exact ren_collapse _ h3.1
  · rfl

theorem sim_space {a s : SState} (h : Sim a s) (b : Bool) :
    Sim { a with ignoreSpace := b } { s with ignoreSpace := b } :=
  ⟨h.max, rfl, h.dups, h.le, h.ex⟩

/-- reopening: the model's next session id `k + 1` is above every stored session id -/
theorem sim_reopen {a s : SState} (h : Sim a s) (c : Cfg) (k : Nat) (hk : ∀ x ∈ a.entries, x.1 ≤ k) :
    Sim { entries := if c.ignoreDups then collapse a.entries else a.entries, epoch := k + 1,
          max := c.maxLen, ignoreSpace := c.ignoreSpace, ignoreDups := c.ignoreDups } (reopen s c) := by
  obtain ⟨f, h1, h2, h3⟩ := h.ex
  unfold reopen
  have hsub : ∀ x ∈ (if c.ignoreDups = true then collapse s.entries else s.entries), x ∈ s.entries := by
    intro x hx; split at hx
    · exact mem_collapse _ _ hx
    · exact hx
  let g : Nat → Nat := fun e => if e = s.epoch + 1 then k + 1 else f e
  have hg : ∀ x ∈ s.entries, g x.1 = f x.1 := by
    intro x hx
    have := h.le x hx
    simp only [g]
    rw [if_neg (by omega)]
  have hren : ∀ es : List (Nat × Text), (∀ x ∈ es, x ∈ s.entries) → ren g es = ren f es := by
    intro es hes
    unfold ren
    apply List.map_congr_left
    intro x hx
    rw [hg x (hes x hx)]
  have hfk : ∀ x ∈ s.entries, f x.1 ≤ k := by
    intro x hx
    have : (f x.1, x.2) ∈ a.entries := by rw [h1]; exact List.mem_map.mpr ⟨x, hx, rfl⟩
    exact hk _ this
  refine ⟨rfl, rfl, rfl, ?_, g, ?_, by simp [g], ?_, ?_⟩
  · intro x hx
    have := h.le x (hsub x hx)
    simp only; omega
  · simp only
    rw [hren _ hsub, h1]
    split
    · exact ren_collapse _ h3.1
    · rfl
  · intro x hx y hy he
    rw [hg x (hsub x hx), hg y (hsub y hy)] at he
    exact h3.1 x (hsub x hx) y (hsub y hy) he
  · intro x hx he
    have h5 := hfk x (hsub x hx)
    rw [hg x (hsub x hx)] at he
    simp [g] at he
    omega

end Rl.Sq
