/-
  C02: the render log of the editor model is coherent.  Part 5 — `execute`.

  Every command keeps prompt, line and cursor shown (`Pres (Sh) (execute cmd)`), given that the line-buffer
  operations are *faithful* (`LBFaithful`): a motion leaves the text alone and reports `false` only if the cursor
  did not move; an edit that reports "nothing changed" (`false` / `none`) changed neither text nor cursor.  Those
  are statements about `Rl/LineBuffer.lean` alone (the province of C03 / C04).

  Two modes of reasoning, and a tactic for each: `Pres` — `Sh` holds before and after (reading keys, callbacks,
  commands that repaint themselves) — and `Est` — from "the log is coherent and the believed cursor is known"
  (`LogInv`: the line may have changed) to `Sh`, for pieces that end in a repaint.
-/
import Rl.Lemmas.RenderLogTop
namespace Rl
open EM

/-- an edit of the line buffer that reports whether it changed anything -/
def EditOK {α : Type} (op : LM α) (chg : α → Bool) : Prop :=
  ∀ lb r lb' ns, IsBoundary lb.buf lb.pos → op lb = .ok (r, lb', ns) → chg r = false →
    lb'.buf = lb.buf ∧ lb'.pos = lb.pos

/-- a motion: the text stays; `false` = the cursor did not move -/
def MoveOKB (op : LM Bool) : Prop :=
  ∀ lb r lb' ns, IsBoundary lb.buf lb.pos → op lb = .ok (r, lb', ns) →
    lb'.buf = lb.buf ∧ (r = false → lb'.pos = lb.pos)

/-- what `execute` needs of the line buffer (and of the undo log) -/
structure LBFaithful (S : Segmenter) (U : UData) : Prop where
  moveHome : MoveOKB (LB.moveHome S U)
  moveEnd : MoveOKB (LB.moveEnd S U)
  moveToFirstPrint : MoveOKB (LB.moveToFirstPrint S U)
  moveBackward : ∀ n, MoveOKB (LB.moveBackward S U n)
  moveForward : ∀ n, MoveOKB (LB.moveForward S U n)
  moveToPrevWord : ∀ w n, MoveOKB (LB.moveToPrevWord S U w n)
  moveToNextWord : ∀ a w n, MoveOKB (LB.moveToNextWord S U a w n)
  moveBufferStart : MoveOKB (LB.moveBufferStart S U)
  moveBufferEnd : MoveOKB (LB.moveBufferEnd S U)
  moveTo : ∀ cs n, MoveOKB (LB.moveTo S U cs n)
  moveToLineUp : ∀ n pc, MoveOKB (LB.moveToLineUp S U n pc)
  moveToLineDown : ∀ n pc, MoveOKB (LB.moveToLineDown S U n pc)
  kill : ∀ mvt, EditOK (LB.kill S U mvt) id
  transposeChars : EditOK (LB.transposeChars S U) id
  editWord : ∀ a, EditOK (LB.editWord S U a) id
  transposeWords : ∀ n, EditOK (LB.transposeWords S U n) id
  indent : ∀ m k d, EditOK (LB.indent S U m k d) id
  /-- a refused paste left the line alone — from every state (it is asked after the step forward of
      `Anchor::After`, where nothing is known of the cursor) -/
  yank : ∀ t n lb r lb' ns, LB.yank S U t n lb = .ok (r, lb', ns) → r.isSome = false →
    lb'.buf = lb.buf ∧ lb'.pos = lb.pos
  yankPop : ∀ k t, EditOK (LB.yankPop S U k t) Option.isSome
  delete : ∀ n, EditOK (LB.delete S U n) Option.isSome
  /-- `Undo` that undid nothing left the line alone -/
  undo : ∀ (c c' : Changeset) (l l' : LB) (n : Nat), IsBoundary l.buf l.pos →
    c.undo S U l n = .ok (c', l', false) → l'.buf = l.buf ∧ l'.pos = l.pos

section
variable {S : Segmenter} {U : UData} {cfg : EdCfg}

/-! ### frame facts for the log key, and the tactic that finds them -/

theorem lk_lbKill {α : Type} (op : LM α) : Keeps Ed.lk (lbKill S U op) := by
  constructor; intro s; unfold lbKill
  cases h : op s.line with
  | error e => rfl
  | ok r =>
    obtain ⟨a, l, ns⟩ := r
    simp only []
    cases lbKill.go ns s.ring with
    | error e => rfl
    | ok k => rfl

theorem lk_backup : Keeps Ed.lk (backup S U) := by
  constructor; intro s; unfold backup
  cases h : LB.update S U s.line.buf s.line.pos s.saved with
  | error e => rfl
  | ok r => obtain ⟨a, l, ns⟩ := r; rfl

theorem sk_backup : Keeps Ed.sk (backup S U) := by
  constructor; intro s; unfold backup
  cases h : LB.update S U s.line.buf s.line.pos s.saved with
  | error e => rfl
  | ok r => obtain ⟨a, l, ns⟩ := r; rfl

theorem lk_set_line (f : Ed → Ed) (h : ∀ s, (f s).lk = s.lk) : Keeps Ed.lk (EM.modify f) := ⟨fun s => h s⟩

end

/-- closes / decomposes a goal `Keeps Ed.lk m`: nothing is logged, the believed cursor is not touched -/
macro "lk_keeps_step" : tactic => `(tactic| first
  | intro _
  | with_reducible (first
    | exact Keeps.pure _
    | apply Keeps.bind
    | apply Keeps.bind'
    | apply Keeps.ite
    | assumption
    | exact Keeps.exit _
    | exact Keeps.liftP _
    | exact Keeps.get
    | exact Keeps.read _
    | exact lk_lb _
    | exact lk_lbQuiet _
    | exact lk_lbKill _
    | exact lk_backup
    | exact lk_getLine
    | exact lk_of_sk (sk_nextKey _)
    | exact lk_of_sk sk_nextChar
    | exact lk_of_sk sk_lineEmpty
    | exact lk_of_sk sk_hasHint
    | exact lk_of_sk sk_cursorAtEnd
    | exact lk_of_sk sk_getHistIdx
    | exact lk_of_sk (sk_setHistIdx _)
    | exact lk_of_sk sk_getPromptCol
    | exact lk_of_sk sk_changesBegin
    | exact lk_of_sk sk_changesEnd
    | exact lk_of_sk (sk_truncateChanges _)
    | exact lk_of_sk (sk_ringYankCount _)
    | exact lk_of_sk sk_ringYank
    | exact lk_of_sk sk_ringYankPop
    | exact lk_of_sk (sk_ringKill _))
  | ((with_reducible apply Keeps.modify) <;> (intro _; rfl))
  | exact Keeps.read _
  | split
  | dsimp only)

syntax "lk_keeps" ("[" term,* "]")? : tactic
macro_rules
  | `(tactic| lk_keeps) => `(tactic| repeat' lk_keeps_step)
  | `(tactic| lk_keeps [$ts,*]) =>
    `(tactic| repeat' (first | (with_reducible first $[| apply $ts]*) | lk_keeps_step))

section
variable {S : Segmenter} {U : UData} {cfg : EdCfg}
variable (hc : 2 ≤ cfg.cols) (hprompt : C02_Plain S (edR U cfg) cfg.prompt)
include hc hprompt
set_option linter.unusedSectionVars false

theorem Est.of_keeps_refresh {α : Type} {m : EM α} (hm : Keeps Ed.lk m) :
    Est S U cfg (do let _ ← m; refreshLine S U cfg) :=
  Est.bind_keeps hm fun _ => est_refreshLine hc hprompt

/-- the boundary of the cursor, under the assumption of the invariants -/
theorem Sh.boundary {s : Ed} (h : Sh S U cfg s) (hf : LogFine S (edR U cfg) cfg.prompt s.render) :
    IsBoundary s.line.buf s.line.pos := by
  obtain ⟨rs, g, _, hs⟩ := h hf
  exact isBoundary_iff_split.2 ⟨_, _, hs⟩

/-- an edit through `lb` that may report "nothing changed" -/
theorem wp_lb_sh {α : Type} {op : LM α} {chg : α → Bool} (hop : EditOK op chg) {s : Ed} (h : Sh S U cfg s) :
    wp (lb S U op) (fun a s' => LogInv S U cfg s' ∧ (chg a = false → Sh S U cfg s'))
      (fun _ s' => LogOK S U cfg s') s := by
  cases hs : op s.line with
  | error e => rw [wp, lb_error S U hs]; exact h.ok
  | ok r =>
    obtain ⟨a, l, ns⟩ := r
    refine wp_lb S U hs ⟨h.inv.of_eq rfl rfl, fun hch hf => ?_⟩
    obtain ⟨hb, hp⟩ := hop _ _ _ _ (h.boundary hc hprompt hf) hs hch
    exact (h.of_eq (s' := { s with line := l, changes := s.changes.onNotifs S U.alnum ns }) rfl rfl hb hp rfl) hf

theorem wp_lbKill_sh {α : Type} {op : LM α} {chg : α → Bool} (hop : EditOK op chg) {s : Ed} (h : Sh S U cfg s) :
    wp (lbKill S U op) (fun a s' => LogInv S U cfg s' ∧ (chg a = false → Sh S U cfg s'))
      (fun _ s' => LogOK S U cfg s') s := by
  unfold wp lbKill
  cases hs : op s.line with
  | error e => exact h.ok
  | ok r =>
    obtain ⟨a, l, ns⟩ := r
    simp only []
    cases lbKill.go ns s.ring with
    | error e => exact h.ok
    | ok k =>
      refine ⟨h.inv.of_eq rfl rfl, fun hch hf => ?_⟩
      obtain ⟨hb, hp⟩ := hop _ _ _ _ (h.boundary hc hprompt hf) hs hch
      exact (h.of_eq (s' := { s with line := l, changes := s.changes.onNotifs S U.alnum ns, ring := k })
        rfl rfl hb hp rfl) hf

/-- `edit_move` over a faithful motion -/
theorem pres_editMoveB {op : LM Bool} (hop : MoveOKB op) : Pres S U cfg (Sh S U cfg) (editMove S U cfg op) := by
  constructor
  intro s h
  unfold editMove
  rw [wp_bind]
  cases hs : op s.line with
  | error e =>
    have e1 : lbQuiet op s = .error (.panic, s) := by unfold lbQuiet; rw [hs]
    unfold wp; rw [e1]; exact h.ok
  | ok r =>
    obtain ⟨a, l, ns⟩ := r
    refine wp_lbQuiet hs ?_
    cases a with
    | true =>
      simp only [if_true]
      refine wp_moveCursor_sh hc hprompt (s := { s with line := l }) (fun hf => ?_)
      obtain ⟨hb, _⟩ := hop _ _ _ _ (h.boundary hc hprompt hf) hs
      exact (h.tsh.of_eq (s' := { s with line := l }) rfl rfl hb rfl) hf
    | false =>
      simp only [Bool.false_eq_true, if_false]
      intro hf
      obtain ⟨hb, hp⟩ := hop _ _ _ _ (h.boundary hc hprompt hf) hs
      exact (h.of_eq (s' := { s with line := l }) rfl rfl hb (hp rfl) rfl) hf

omit hc hprompt in
theorem lk_eq_of_sk {s s' : Ed} (h : s'.sk = s.sk) : s'.lk = s.lk := by
  simp only [Ed.sk, Ed.lk, Prod.mk.injEq] at h ⊢; exact ⟨h.1, h.2.1⟩

omit hc hprompt in
theorem wp_sk {α : Type} {m : EM α} (hk : Keeps Ed.sk m) {s : Ed} {Q : α → Ed → Prop} {E : Outcome → Ed → Prop}
    (hq : ∀ a s', s'.sk = s.sk → Q a s') (he : ∀ o s', s'.sk = s.sk → E o s') : wp m Q E s :=
  wp_mono (hk.wp s) hq he

omit hc hprompt in
theorem wp_lk {α : Type} {m : EM α} (hk : Keeps Ed.lk m) {s : Ed} {Q : α → Ed → Prop} {E : Outcome → Ed → Prop}
    (hq : ∀ a s', s'.lk = s.lk → Q a s') (he : ∀ o s', s'.lk = s.lk → E o s') : wp m Q E s :=
  wp_mono (hk.wp s) hq he

variable (hf : LBFaithful S U)
include hf

theorem pres_editKill (mvt : Movement) : Pres S U cfg (Sh S U cfg) (editKill S U cfg mvt) := by
  constructor
  intro s h
  unfold editKill
  rw [wp_bind]
  refine wp_mono (wp_lbKill_sh hc hprompt (hf.kill mvt) h) (fun a s' hh => ?_) (fun _ _ e => e)
  obtain ⟨hi, hs⟩ := hh
  cases a with
  | true => simp only [if_true]; exact wp_refreshLine_sh hc hprompt hi
  | false => simp only [Bool.false_eq_true, if_false]; exact hs rfl

/-- `if ← lb op then refreshLine` (indent / dedent) -/
theorem pres_lb_ifRefresh {op : LM Bool} (hop : EditOK op id) :
    Pres S U cfg (Sh S U cfg) (do if ← lb S U op then refreshLine S U cfg : EM Unit) := by
  constructor
  intro s h
  rw [wp_bind]
  refine wp_mono (wp_lb_sh hc hprompt hop h) (fun a s' hh => ?_) (fun _ _ e => e)
  obtain ⟨hi, hs⟩ := hh
  cases a with
  | true => simp only [if_true]; exact wp_refreshLine_sh hc hprompt hi
  | false => simp only [Bool.false_eq_true, if_false]; exact hs rfl

theorem pres_grouped {op : LM Bool} (hop : EditOK op id) : Pres S U cfg (Sh S U cfg) (grouped S U cfg op) := by
  constructor
  intro s h
  unfold grouped
  rw [wp_bind]
  refine wp_sk sk_changesBegin (fun _ s1 e1 => ?_) (fun _ s1 e1 => (h.of_sk e1).ok)
  rw [wp_bind]
  refine wp_mono (wp_lb_sh hc hprompt hop (h.of_sk e1)) (fun a s2 hh => ?_) (fun _ _ e => e)
  obtain ⟨hi, hs⟩ := hh
  rw [wp_bind]
  refine wp_sk sk_changesEnd (fun _ s3 e3 => ?_) (fun _ s3 e3 => (hi.of_lk (lk_eq_of_sk e3)).ok)
  cases a with
  | true => simp only [if_true]; exact wp_refreshLine_sh hc hprompt (hi.of_lk (lk_eq_of_sk e3))
  | false => simp only [Bool.false_eq_true, if_false]; exact (hs rfl).of_sk e3

theorem pres_editYankPop (k : Nat) (t : Text) : Pres S U cfg (Sh S U cfg) (editYankPop S U cfg k t) := by
  constructor
  intro s h
  unfold editYankPop
  rw [wp_bind]
  refine wp_sk sk_changesBegin (fun _ s1 e1 => ?_) (fun _ s1 e1 => (h.of_sk e1).ok)
  simp only [wp_bind]
  refine wp_mono (wp_lb_sh hc hprompt (hf.yankPop k t) (h.of_sk e1)) (fun a s2 hh => ?_) (fun _ _ e => e)
  obtain ⟨hi, hs⟩ := hh
  cases a with
  | some x =>
    exact (Est.bind_pres (est_refreshLine hc hprompt) fun _ =>
      Pres.bind (Pres.of_keeps sk_changesEnd) fun _ => Pres.pure ()).h s2 hi
  | none =>
    exact (Pres.bind (Pres.pure ()) fun _ =>
      Pres.bind (Pres.of_keeps sk_changesEnd) fun _ => Pres.pure ()).h s2 (hs rfl)

omit hf in
theorem lk_showEntry (b : Text) (p : Nat) : Keeps Ed.lk (showEntry S U b p) := by
  unfold showEntry; lk_keeps

omit hf in
theorem lk_restore : Keeps Ed.lk (restore S U) := by
  unfold restore; lk_keeps

omit hf in
theorem pres_showEntry_refresh (b : Text) (p : Nat) :
    Pres S U cfg (Sh S U cfg) (showEntry S U b p >>= fun _ => refreshLine S U cfg) :=
  Pres.of_est (Est.bind_keeps (lk_showEntry hc hprompt b p) fun _ => est_refreshLine hc hprompt)

omit hf in
theorem pres_restore_refresh : Pres S U cfg (Sh S U cfg) (restore S U >>= fun _ => refreshLine S U cfg) :=
  Pres.of_est (Est.bind_keeps (lk_restore hc hprompt) fun _ => est_refreshLine hc hprompt)

omit hf in
theorem pres_editHistoryNext (prev : Bool) : Pres S U cfg (Sh S U cfg) (editHistoryNext S U cfg prev) := by
  have h1 := fun b p => pres_showEntry_refresh hc hprompt (S := S) (U := U) (cfg := cfg) b p
  have h2 := pres_restore_refresh hc hprompt (S := S) (U := U) (cfg := cfg)
  have h3 : Pres S U cfg (Sh S U cfg) (backup S U) := Pres.of_keeps sk_backup
  unfold editHistoryNext
  sh_pres [h1, h2, h3]

omit hf in
theorem pres_editHistory (first : Bool) : Pres S U cfg (Sh S U cfg) (editHistory S U cfg first) := by
  have h1 := fun b p => pres_showEntry_refresh hc hprompt (S := S) (U := U) (cfg := cfg) b p
  have h2 := pres_restore_refresh hc hprompt (S := S) (U := U) (cfg := cfg)
  have h3 : Pres S U cfg (Sh S U cfg) (backup S U) := Pres.of_keeps sk_backup
  unfold editHistory
  sh_pres [h1, h2, h3]

omit hf in
theorem pres_editHistorySearch (d : Dir) : Pres S U cfg (Sh S U cfg) (editHistorySearch S U cfg d) := by
  have h1 := fun b p => pres_showEntry_refresh hc hprompt (S := S) (U := U) (cfg := cfg) b p
  unfold editHistorySearch
  sh_pres [h1]

omit hf in
theorem pres_completeHintLine : Pres S U cfg (Sh S U cfg) (completeHintLine S U cfg) := by
  have h1 : ∀ text, Pres S U cfg (Sh S U cfg) (do
      let _ ← lbQuiet (LB.moveEnd S U)
      let _ ← lb S U (LB.yank S U text 1)
      refreshLine S U cfg : EM Unit) := fun text =>
    Pres.of_est (Est.bind_keeps (lk_lbQuiet _) fun _ => Est.bind_keeps (lk_lb _) fun _ => est_refreshLine hc hprompt)
  unfold completeHintLine
  sh_pres [h1]

omit hf in
theorem pres_editOverwriteChar (c : Char) : Pres S U cfg (Sh S U cfg) (editOverwriteChar S U cfg c) := by
  have h1 : ∀ a b t, Pres S U cfg (Sh S U cfg) (do
      lb S U (LB.replace S U a b t)
      refreshLine S U cfg : EM Unit) := fun a b t =>
    Pres.of_est (Est.bind_keeps (lk_lb _) fun _ => est_refreshLine hc hprompt)
  unfold editOverwriteChar
  sh_pres [h1]

omit hf in
theorem pres_editInsertText (t : Text) : Pres S U cfg (Sh S U cfg) (editInsertText S U cfg t) := by
  have h1 : ∀ i, Pres S U cfg (Sh S U cfg) (do
      let _ ← lb S U (LB.insertStr S U i t)
      refreshLine S U cfg : EM Unit) := fun i =>
    Pres.of_est (Est.bind_keeps (lk_lb _) fun _ => est_refreshLine hc hprompt)
  unfold editInsertText
  sh_pres [h1]

omit hf in
theorem pres_validate : Pres S U cfg (Sh S U cfg) (validate S U cfg) := by
  have h1 := pres_refreshLineWithMsg hc hprompt (S := S) (U := U) (cfg := cfg)
  unfold validate
  sh_pres [h1]

omit hf in
/-- `if ← lbQuiet motion then moveCursor else alt` (line up / down, falling back to history recall) -/
theorem pres_moveOrElse {op : LM Bool} (hop : MoveOKB op) {alt : EM Unit} (halt : Pres S U cfg (Sh S U cfg) alt) :
    Pres S U cfg (Sh S U cfg) (do if ← lbQuiet op then moveCursor S U cfg else alt : EM Unit) := by
  constructor
  intro s h
  rw [wp_bind]
  cases hs : op s.line with
  | error e =>
    have e1 : lbQuiet op s = .error (.panic, s) := by unfold lbQuiet; rw [hs]
    unfold wp; rw [e1]; exact h.ok
  | ok r =>
    obtain ⟨a, l, ns⟩ := r
    refine wp_lbQuiet hs ?_
    cases a with
    | true =>
      simp only [if_true]
      refine wp_moveCursor_sh hc hprompt (s := { s with line := l }) (fun hf => ?_)
      obtain ⟨hb, _⟩ := hop _ _ _ _ (h.boundary hc hprompt hf) hs
      exact (h.tsh.of_eq (s' := { s with line := l }) rfl rfl hb rfl) hf
    | false =>
      simp only [Bool.false_eq_true, if_false]
      refine halt.h _ (fun hf => ?_)
      obtain ⟨hb, hp⟩ := hop _ _ _ _ (h.boundary hc hprompt hf) hs
      exact (h.of_eq (s' := { s with line := l }) rfl rfl hb (hp rfl) rfl) hf

omit hf in
/-- `Cmd::ClearScreen`: the screen is cleared, the believed cursor reset, the line repainted -/
theorem pres_clearScreen : Pres S U cfg (Sh S U cfg) (do
    logRender (fun _ => .clearScreen)
    modify (fun s => { s with layoutCursor := {} })
    refreshLine S U cfg
    Pure.pure Status.proceed : EM Status) := by
  constructor
  intro s h
  simp only [wp_bind, wp_logRender, wp_modify]
  refine wp_mono (wp_refreshLine_sh hc hprompt (fun hfine => ?_)) (fun _ _ e => e) (fun _ _ e => e)
  obtain ⟨_, hf'⟩ := logFine_cons hfine
  exact dirty_clearScreen hc hprompt (h.inv hf')

omit hf in
/-- `Cmd::Interrupt`: `move_cursor_to_end`, then the read ends -/
theorem pres_interrupt {α : Type} : Pres S U cfg (Sh S U cfg) (do
    logRender (fun _ => .moveToEnd)
    exit .interrupted : EM α) := by
  constructor
  intro s h
  simp only [wp_bind, wp_logRender, wp_exit]
  intro hfine
  obtain ⟨_, hf'⟩ := logFine_cons hfine
  exact dirty_moveToEnd hc hprompt (h.inv hf')

/-- `Cmd::Undo` -/
theorem pres_undo (n : Nat) : Pres S U cfg (Sh S U cfg) (do
    let s ← get
    match s.changes.undo S U s.line n with
    | .ok (c, l, undone) => do
      set { s with changes := c, line := l }
      if undone then refreshLine S U cfg
      Pure.pure Status.proceed
    | .error _ => exit .panic : EM Status) := by
  constructor
  intro s h
  simp only [wp_bind, wp_get]
  cases hu : s.changes.undo S U s.line n with
  | error e => exact h.ok
  | ok r =>
    obtain ⟨c, l, undone⟩ := r
    simp only [wp_bind, wp_set]
    cases undone with
    | true =>
      simp only [if_true]
      exact (Est.bind_pres (est_refreshLine hc hprompt) fun _ => Pres.pure Status.proceed).h _
        (h.inv.of_eq (s' := { s with changes := c, line := l }) rfl rfl)
    | false =>
      simp only [Bool.false_eq_true, if_false, wp_pure]
      intro hfine
      obtain ⟨hb, hp⟩ := hf.undo _ _ _ _ _ (h.boundary hc hprompt hfine) hu
      exact (h.of_eq (s' := { s with changes := c, line := l }) rfl rfl hb hp rfl) hfine

theorem pres_editReplaceChar (c : Char) (n : Nat) : Pres S U cfg (Sh S U cfg) (editReplaceChar S U cfg c n) := by
  constructor
  intro s h
  unfold editReplaceChar
  rw [wp_bind]
  refine wp_sk sk_changesBegin (fun _ s1 e1 => ?_) (fun _ s1 e1 => (h.of_sk e1).ok)
  have h1 := h.of_sk e1
  rw [wp_bind]
  have hmid : wp (do
      match ← lb S U (LB.delete S U n) with
        | some chars => do
          let count := graphemeCount S chars
          if count > 65535 then exit .panic
          let _ ← lb S U (LB.insert S U c count)
          let _ ← lbQuiet (LB.moveBackward S U 1)
          Pure.pure true
        | none => Pure.pure false : EM Bool)
      (fun succeed s' => LogInv S U cfg s' ∧ (succeed = false → Sh S U cfg s'))
      (fun _ s' => LogOK S U cfg s') s1 := by
    rw [wp_bind]
    refine wp_mono (wp_lb_sh hc hprompt (hf.delete n) h1) (fun a s2 hh => ?_) (fun _ _ e => e)
    obtain ⟨hi, hs⟩ := hh
    cases a with
    | none => exact ⟨hi, fun _ => hs rfl⟩
    | some chars =>
      simp only [wp_bind, wp_ite]
      split
      · exact hi.ok
      · simp only [wp_pure]
        refine wp_lk (lk_lb _) (fun _ s3 e3 => ?_) (fun _ s3 e3 => (hi.of_lk e3).ok)
        refine wp_lk (lk_lbQuiet _) (fun _ s4 e4 => ?_) (fun _ s4 e4 => ((hi.of_lk e3).of_lk e4).ok)
        exact ⟨(hi.of_lk e3).of_lk e4, fun hb => by cases hb⟩
  refine wp_mono hmid (fun succeed s2 hh => ?_) (fun _ _ e => e)
  obtain ⟨hi, hs⟩ := hh
  rw [wp_bind]
  refine wp_sk sk_changesEnd (fun _ s3 e3 => ?_) (fun _ s3 e3 => (hi.of_lk (lk_eq_of_sk e3)).ok)
  cases succeed with
  | true => simp only [if_true]; exact wp_refreshLine_sh hc hprompt (hi.of_lk (lk_eq_of_sk e3))
  | false => simp only [Bool.false_eq_true, if_false]; exact (hs rfl).of_sk e3

theorem pres_editYank (text : Text) (anchor : Anchor) (n : Nat) :
    Pres S U cfg (Sh S U cfg) (editYank S U cfg text anchor n) := by
  have hsome : Est S U cfg (do
      if cfg.vi then do let _ ← lbQuiet (LB.moveBackward S U 1); Pure.pure ()
      refreshLine S U cfg : EM Unit) := by
    simp only []
    split
    · exact Est.bind_keeps (lk_lbQuiet _) fun _ => est_refreshLine hc hprompt
    · exact est_refreshLine hc hprompt
  -- the paste, and on refusal `set_pos(pos)`: from a state whose line holds the text of `s` (the cursor may
  -- have stepped forward)
  have tail : ∀ (s : Ed) (l1 : LB), Sh S U cfg s → l1.buf = s.line.buf →
      wp (do match ← lb S U (LB.yank S U text n) with
             | some _ => do
               if cfg.vi then do let _ ← lbQuiet (LB.moveBackward S U 1); Pure.pure ()
               refreshLine S U cfg
             | none => lbQuiet (LB.setPosChecked S U s.line.pos) : EM Unit)
        (fun _ s' => Sh S U cfg s') (fun _ s' => LogOK S U cfg s') ({ s with line := l1 } : Ed) := by
    intro s l1 h hb1
    have hi1 : LogInv S U cfg ({ s with line := l1 } : Ed) := h.inv.of_eq rfl rfl
    rw [wp_bind]
    cases hs2 : LB.yank S U text n l1 with
    | error e =>
      rw [wp, lb_error S U (s := { s with line := l1 }) hs2]; exact hi1.ok
    | ok r =>
      obtain ⟨a, l2, ns2⟩ := r
      refine wp_lb S U (s := { s with line := l1 }) hs2 ?_
      cases a with
      | some x => exact hsome.h _ (hi1.of_eq rfl rfl)
      | none =>
        simp only []
        obtain ⟨hb2, _⟩ := hf.yank text n l1 none l2 ns2 hs2 rfl
        by_cases hle : s.line.pos ≤ l2.len
        · have hs3 : LB.setPosChecked S U s.line.pos l2 = .ok ((), { l2 with pos := s.line.pos }, []) := by
            simp [LB.setPosChecked, hle]
          refine wp_lbQuiet (s := { s with line := l2, changes := s.changes.onNotifs S U.alnum ns2 }) hs3 ?_
          exact h.of_eq rfl rfl (by show l2.buf = s.line.buf; rw [hb2, hb1]) rfl rfl
        · have hs3 : LB.setPosChecked S U s.line.pos l2 = .error .panic := by
            simp [LB.setPosChecked, hle]
          have e3 : lbQuiet (LB.setPosChecked S U s.line.pos) ({ s with line := l2, changes := s.changes.onNotifs S U.alnum ns2 } : Ed) = .error (.panic, ({ s with line := l2, changes := s.changes.onNotifs S U.alnum ns2 } : Ed)) := by
            unfold lbQuiet; simp only []; rw [hs3]
          unfold wp; rw [e3]; exact (hi1.of_eq rfl rfl).ok
  constructor
  intro s h
  unfold editYank
  rw [wp_bind, wp_get]
  simp only []
  by_cases ha : (anchor == Anchor.after) = true
  · rw [if_pos ha, wp_bind]
    cases hs1 : LB.moveForward S U 1 s.line with
    | error e =>
      have e1 : lbQuiet (LB.moveForward S U 1) s = .error (.panic, s) := by unfold lbQuiet; rw [hs1]
      unfold wp; rw [e1]; exact h.ok
    | ok r =>
      obtain ⟨r1, l1, ns1⟩ := r
      refine wp_lbQuiet hs1 ?_
      exact tail s l1 h ((PosOnly.moveForward S U 1).h _ _ _ _ hs1).1
  · rw [if_neg ha]
    have := tail s s.line h rfl
    exact this

omit hf in
/-- the `Indent` / `Dedent` arms of `execute` -/
theorem pres_indent_arm {op : LM Bool} (hop : EditOK op id) : Pres S U cfg (Sh S U cfg) (do
    if ← lb S U op then refreshLine S U cfg
    Pure.pure Status.proceed : EM Status) := by
  constructor
  intro s h
  simp only []
  rw [wp_bind]
  refine wp_mono (wp_lb_sh hc hprompt hop h) (fun a s' hh => ?_) (fun _ _ e => e)
  obtain ⟨hi, hs⟩ := hh
  cases a with
  | true =>
    simp only [if_true]
    exact (Est.bind_pres (est_refreshLine hc hprompt) fun _ => Pres.pure Status.proceed).h _ hi
  | false => simp only [Bool.false_eq_true, if_false]; exact hs rfl

omit hf in
/-- the `LineUpOrPreviousHistory` / `LineDownOrNextHistory` arms of `execute` -/
theorem pres_line_arm {op : Nat → LM Bool} (hop : ∀ pc, MoveOKB (op pc)) {alt : EM Unit}
    (halt : Pres S U cfg (Sh S U cfg) alt) : Pres S U cfg (Sh S U cfg) (do
    let pc ← getPromptCol
    if ← lbQuiet (op pc) then moveCursor S U cfg else alt
    Pure.pure Status.proceed : EM Status) := by
  constructor
  intro s h
  simp only []
  rw [wp_bind]
  refine wp_sk sk_getPromptCol (fun pc s0 e0 => ?_) (fun _ s0 e0 => (h.of_sk e0).ok)
  have h0 := h.of_sk e0
  rw [wp_bind]
  cases hs : op pc s0.line with
  | error e =>
    have e1 : lbQuiet (op pc) s0 = .error (.panic, s0) := by unfold lbQuiet; rw [hs]
    unfold wp; rw [e1]; exact h0.ok
  | ok r =>
    obtain ⟨a, l, ns⟩ := r
    refine wp_lbQuiet hs ?_
    cases a with
    | true =>
      simp only [if_true]
      rw [wp_bind]
      refine wp_mono (wp_moveCursor_sh hc hprompt (s := { s0 with line := l }) (fun hf => ?_))
        (fun _ _ e => e) (fun _ _ e => e)
      obtain ⟨hb, _⟩ := hop pc _ _ _ _ (h0.boundary hc hprompt hf) hs
      exact (h0.tsh.of_eq (s' := { s0 with line := l }) rfl rfl hb rfl) hf
    | false =>
      simp only [Bool.false_eq_true, if_false]
      refine (Pres.bind halt fun _ => Pres.pure Status.proceed).h _ (fun hf => ?_)
      obtain ⟨hb, hp⟩ := hop pc _ _ _ _ (h0.boundary hc hprompt hf) hs
      exact (h0.of_eq (s' := { s0 with line := l }) rfl rfl hb (hp rfl) rfl) hf

theorem pres_execAccept (hctl : ∀ c, isC0Control c = true → U.cwidth c = 0) (aim : Bool) :
    Pres S U cfg (Sh S U cfg) (execAccept S U cfg aim) := by
  have h1 := pres_validate hc hprompt (S := S) (U := U) (cfg := cfg)
  have h2 : ∀ c n, Pres S U cfg (Sh S U cfg) (editInsert S U cfg c n) :=
    fun c n => ⟨fun _ h => wp_editInsert_sh hc hprompt hctl c n h⟩
  unfold execAccept
  sh_pres [h1, h2]

/-- **every command keeps prompt, line and cursor shown**, over a faithful line buffer -/
theorem pres_execute (hctl : ∀ c, isC0Control c = true → U.cwidth c = 0) (cmd : Cmd) :
    Pres S U cfg (Sh S U cfg) (execute S U cfg cmd) := by
  have a1 : ∀ c n, Pres S U cfg (Sh S U cfg) (editInsert S U cfg c n) :=
    fun c n => ⟨fun _ h => wp_editInsert_sh hc hprompt hctl c n h⟩
  have a2 := pres_refreshLine hc hprompt (S := S) (U := U) (cfg := cfg)
  have a3 := pres_refreshLineWithMsg hc hprompt (S := S) (U := U) (cfg := cfg)
  have m1 := pres_editMoveB hc hprompt (cfg := cfg) hf.moveHome
  have m2 := pres_editMoveB hc hprompt (cfg := cfg) hf.moveEnd
  have m12 := pres_editMoveB hc hprompt (cfg := cfg) hf.moveToFirstPrint
  have m3 := fun n => pres_editMoveB hc hprompt (cfg := cfg) (hf.moveBackward n)
  have m4 := fun n => pres_editMoveB hc hprompt (cfg := cfg) (hf.moveForward n)
  have m5 := fun w n => pres_editMoveB hc hprompt (cfg := cfg) (hf.moveToPrevWord w n)
  have m6 := fun a w n => pres_editMoveB hc hprompt (cfg := cfg) (hf.moveToNextWord a w n)
  have m7 := pres_editMoveB hc hprompt (cfg := cfg) hf.moveBufferStart
  have m8 := pres_editMoveB hc hprompt (cfg := cfg) hf.moveBufferEnd
  have m9 := fun cs n => pres_editMoveB hc hprompt (cfg := cfg) (hf.moveTo cs n)
  have m10 := fun n pc => pres_editMoveB hc hprompt (cfg := cfg) (hf.moveToLineUp n pc)
  have m11 := fun n pc => pres_editMoveB hc hprompt (cfg := cfg) (hf.moveToLineDown n pc)
  have b1 := fun p => pres_editHistoryNext hc hprompt (S := S) (U := U) (cfg := cfg) p
  have b2 := fun p => pres_editHistory hc hprompt (S := S) (U := U) (cfg := cfg) p
  have b3 := fun d => pres_editHistorySearch hc hprompt (S := S) (U := U) (cfg := cfg) d
  have l1 := fun n => pres_line_arm hc hprompt (cfg := cfg) (op := fun pc => LB.moveToLineUp S U n pc) (fun pc => hf.moveToLineUp n pc) (b1 true)
  have l2 := fun n => pres_line_arm hc hprompt (cfg := cfg) (op := fun pc => LB.moveToLineDown S U n pc) (fun pc => hf.moveToLineDown n pc) (b1 false)
  have e1 := fun mvt => pres_editKill hc hprompt (cfg := cfg) hf mvt
  have e2 := pres_grouped hc hprompt (cfg := cfg) hf hf.transposeChars
  have e3 := fun a => pres_grouped hc hprompt (cfg := cfg) hf (hf.editWord a)
  have e4 := fun n => pres_grouped hc hprompt (cfg := cfg) hf (hf.transposeWords n)
  have e5 := fun m k d => pres_indent_arm hc hprompt (cfg := cfg) (hf.indent m k d)
  have e6 := fun t a n => pres_editYank hc hprompt (cfg := cfg) hf t a n
  have e7 := fun k t => pres_editYankPop hc hprompt (cfg := cfg) hf k t
  have e8 := fun c n => pres_editReplaceChar hc hprompt (cfg := cfg) hf c n
  have e9 := fun c => pres_editOverwriteChar hc hprompt (S := S) (U := U) (cfg := cfg) c
  have e10 := fun t => pres_editInsertText hc hprompt (S := S) (U := U) (cfg := cfg) t
  have e11 := pres_completeHintLine hc hprompt (S := S) (U := U) (cfg := cfg)
  have e12 := pres_validate hc hprompt (S := S) (U := U) (cfg := cfg)
  have e13 := fun aim => pres_execAccept hc hprompt (cfg := cfg) hf hctl aim
  have c1 := pres_clearScreen hc hprompt (S := S) (U := U) (cfg := cfg)
  have c2 := pres_interrupt hc hprompt (S := S) (U := U) (cfg := cfg) (α := Status)
  have c3 := fun n => pres_undo hc hprompt (cfg := cfg) hf n
  cases cmd with
  | undo n =>
    unfold execute
    first | exact c3 n | exact Pres.bind (Pres.pure _) fun _ => c3 n
  | _ =>
    unfold execute
    sh_pres [c1, c2, l1, l2, e5, a1, a2, a3, m1, m2, m3, m4, m5, m6, m7, m8, m9, m10, m11, m12, b1, b2, b3, e1, e2, e3, e4,
      e6, e7, e8, e9, e10, e11, e12, e13]
    all_goals contradiction

omit hf in
/-- "change the line, repaint, go on" -/
theorem pres_lb_refresh_then {α β : Type} (op : LM α) (k : Unit → EM β) (hk : ∀ r, Pres S U cfg (Sh S U cfg) (k r)) :
    Pres S U cfg (Sh S U cfg) (lb S U op >>= fun _ => refreshLine S U cfg >>= k) :=
  Pres.of_est (Est.bind_keeps (lk_lb _) fun _ => Est.bind_pres (est_refreshLine hc hprompt) hk)

omit hf in
theorem pres_lbQuiet_refresh_then {α β : Type} (op : LM α) (k : Unit → EM β)
    (hk : ∀ r, Pres S U cfg (Sh S U cfg) (k r)) :
    Pres S U cfg (Sh S U cfg) (lbQuiet op >>= fun _ => refreshLine S U cfg >>= k) :=
  Pres.of_est (Est.bind_keeps (lk_lbQuiet _) fun _ => Est.bind_pres (est_refreshLine hc hprompt) hk)

/-- `complete_line`: circular completion, or the common prefix and the listing -/
theorem pres_completeLine (hnext : ∀ fuel sea iep, Pres S U cfg (Sh S U cfg) (nextCmd S U cfg fuel sea iep))
    (fuel : Nat) : Pres S U cfg (Sh S U cfg) (completeLine S U cfg fuel) := by
  have hcc := fun start cands mark b bp i => pres_completeCircular hc hprompt hnext start cands mark b bp fuel i
  have hn := hnext fuel true true
  have hme := pres_editMoveB hc hprompt (cfg := cfg) hf.moveEnd
  have h1 := fun (op : LM Unit) (k : Unit → EM (Option Cmd)) => pres_lb_refresh_then hc hprompt (cfg := cfg) op k
  have h2 := fun (op : LM Unit) (k : Unit → EM (Option Cmd)) => pres_lbQuiet_refresh_then hc hprompt (cfg := cfg) op k
  unfold completeLine
  sh_pres [hcc, hn, hme, h1, h2]

end
end Rl
