/-
  `Grow m`: the line-buffer operation `m` never changes `canGrow` (the buffer's "may reallocate" flag:
  every method only rewrites text, cursor and capacity).  Same compositional scheme as `Replays` /
  `PosOnly` in Rl/Lemmas/LineBuffer.lean.  Used by C17 (a growable line is what makes
  `LineBuffer::update` restore a text exactly, which the completion loop relies on).
-/
import Rl.Lemmas.LineBuffer
namespace Rl
open LM

structure Grow {α : Type} (m : LM α) : Prop where
  h : ∀ lb r lb' ns, m lb = .ok (r, lb', ns) → lb'.canGrow = lb.canGrow

namespace Grow
variable {α β : Type}

theorem bind {m : LM α} {f : α → LM β} (hm : Grow m) (hf : ∀ a, Grow (f a)) : Grow (m >>= f) := by
  constructor
  intro lb r lb' ns h
  obtain ⟨a, lb1, n1, n2, h1, h2, rfl⟩ := LM.bind_ok h
  rw [(hf a).h _ _ _ _ h2, hm.h _ _ _ _ h1]

theorem pure (a : α) : Grow (pure a : LM α) := by
  constructor; intro lb r lb' ns h; cases h; rfl
theorem get : Grow LM.get := by
  constructor; intro lb r lb' ns h; cases h; rfl
theorem setPos (p : Nat) : Grow (LM.setPos p) := by
  constructor; intro lb r lb' ns h; cases h; rfl
theorem notify (n : Notif) : Grow (LM.notify n) := by
  constructor; intro lb r lb' ns h; cases h; rfl
theorem ro (f : LB → Except Panic α) : Grow (LM.ro f) := by
  constructor; intro lb r lb' ns h
  unfold LM.ro at h
  split at h
  · cases h; rfl
  · cases h
theorem lift (e : Except Panic α) : Grow (LM.lift e) := by
  constructor; intro lb r lb' ns h
  unfold LM.lift at h
  split at h
  · cases h; rfl
  · cases h
theorem panic : Grow (LM.panic : LM α) := by
  constructor; intro lb r lb' ns h; cases h
theorem drain (a b : Nat) (d : Direction) : Grow (LB.drain a b d) := by
  constructor; intro lb r lb' ns h
  unfold LB.drain at h
  split at h
  · cases h; rfl
  · cases h
theorem insertStr (S : Segmenter) (U : UData) (i : Nat) (s : Text) : Grow (LB.insertStr S U i s) := by
  constructor; intro lb r lb' ns h
  unfold LB.insertStr at h
  split at h
  · cases h; rfl
  · cases h
theorem insertCharAtPos (c : Char) : Grow (LB.insertCharAtPos c) := by
  constructor; intro lb r lb' ns h
  unfold LB.insertCharAtPos at h
  split at h
  · cases h; rfl
  · cases h
theorem setPosChecked (S : Segmenter) (U : UData) (p : Nat) : Grow (LB.setPosChecked S U p) := by
  constructor; intro lb r lb' ns h
  unfold LB.setPosChecked at h
  split at h
  · cases h; rfl
  · cases h
theorem replace (S : Segmenter) (U : UData) (a b : Nat) (t : Text) : Grow (LB.replace S U a b t) := by
  constructor; intro lb r lb' ns h
  unfold LB.replace at h
  split at h
  · cases h; rfl
  · cases h

end Grow

syntax "gr_extra" : tactic
macro_rules | `(tactic| gr_extra) => `(tactic| fail "no rule")

macro "gr_step" : tactic => `(tactic| first
  | with_reducible apply Grow.bind | with_reducible apply Grow.pure | with_reducible apply Grow.get
  | with_reducible apply Grow.setPos | with_reducible apply Grow.notify
  | with_reducible apply Grow.ro | with_reducible apply Grow.lift | with_reducible apply Grow.panic
  | with_reducible apply Grow.drain | with_reducible apply Grow.insertStr
  | with_reducible apply Grow.setPosChecked | with_reducible apply Grow.replace
  | with_reducible apply Grow.insertCharAtPos
  | assumption
  | gr_extra
  | intro _
  | dsimp only
  | split)

macro "gr_auto" : tactic => `(tactic| repeat (any_goals gr_step))

namespace Grow

theorem drainAround (a b c : Nat) : Grow (LB.drainAround a b c) := by
  unfold LB.drainAround; gr_auto

macro_rules | `(tactic| gr_extra) => `(tactic| with_reducible apply Grow.drainAround)

theorem indentInserts (S : Segmenter) (U : UData) (index amount fuel off : Nat) :
    Grow (LB.indentInserts S U index amount fuel off) := by
  induction fuel generalizing off with
  | zero => unfold LB.indentInserts; gr_auto
  | succ k ih => unfold LB.indentInserts; gr_auto; all_goals exact ih _

macro_rules | `(tactic| gr_extra) => `(tactic| with_reducible apply Grow.indentInserts)

macro_rules | `(tactic| gr_extra) => `(tactic| with_reducible apply Grow.indentInserts)

theorem indentLines (S : Segmenter) (U : UData) (amount : Nat) (ls : List Text) (index : Nat) :
    Grow (LB.indentLines S U amount ls index) := by
  induction ls generalizing index with
  | nil => unfold LB.indentLines; gr_auto
  | cons l ls ih =>
    unfold LB.indentLines; gr_auto; all_goals exact ih _

macro_rules | `(tactic| gr_extra) => `(tactic| with_reducible apply Grow.indentLines)

theorem dedentLines (ws : Char → Bool) (amount : Nat) (ls : List Text) (index : Nat) :
    Grow (LB.dedentLines ws amount ls index) := by
  induction ls generalizing index with
  | nil => unfold LB.dedentLines; gr_auto
  | cons l ls ih => unfold LB.dedentLines; gr_auto; all_goals exact ih _

macro_rules | `(tactic| gr_extra) => `(tactic| with_reducible apply Grow.dedentLines)

theorem update (S : Segmenter) (U : UData) (b : _) (p : _) :
    Grow (LB.update S U b p) := by
  unfold LB.update; gr_auto

macro_rules | `(tactic| gr_extra) => `(tactic| with_reducible apply Grow.update)

theorem insert (S : Segmenter) (U : UData) (c : _) (n : _) :
    Grow (LB.insert S U c n) := by
  unfold LB.insert; gr_auto

macro_rules | `(tactic| gr_extra) => `(tactic| with_reducible apply Grow.insert)

theorem yank (S : Segmenter) (U : UData) (t : _) (n : _) :
    Grow (LB.yank S U t n) := by
  unfold LB.yank; gr_auto

macro_rules | `(tactic| gr_extra) => `(tactic| with_reducible apply Grow.yank)

theorem yankPop (S : Segmenter) (U : UData) (k : _) (t : _) :
    Grow (LB.yankPop S U k t) := by
  unfold LB.yankPop; gr_auto

macro_rules | `(tactic| gr_extra) => `(tactic| with_reducible apply Grow.yankPop)

theorem moveBackward (S : Segmenter) (U : UData) (n : _) :
    Grow (LB.moveBackward S U n) := by
  unfold LB.moveBackward; gr_auto

macro_rules | `(tactic| gr_extra) => `(tactic| with_reducible apply Grow.moveBackward)

theorem moveForward (S : Segmenter) (U : UData) (n : _) :
    Grow (LB.moveForward S U n) := by
  unfold LB.moveForward; gr_auto

macro_rules | `(tactic| gr_extra) => `(tactic| with_reducible apply Grow.moveForward)

theorem moveBufferStart (S : Segmenter) (U : UData) :
    Grow (LB.moveBufferStart S U ) := by
  unfold LB.moveBufferStart; gr_auto

macro_rules | `(tactic| gr_extra) => `(tactic| with_reducible apply Grow.moveBufferStart)

theorem moveBufferEnd (S : Segmenter) (U : UData) :
    Grow (LB.moveBufferEnd S U ) := by
  unfold LB.moveBufferEnd; gr_auto

macro_rules | `(tactic| gr_extra) => `(tactic| with_reducible apply Grow.moveBufferEnd)

theorem moveHome (S : Segmenter) (U : UData) :
    Grow (LB.moveHome S U ) := by
  unfold LB.moveHome; gr_auto

macro_rules | `(tactic| gr_extra) => `(tactic| with_reducible apply Grow.moveHome)

theorem moveToFirstPrint (S : Segmenter) (U : UData) :
    Grow (LB.moveToFirstPrint S U) := by
  unfold LB.moveToFirstPrint; gr_auto

macro_rules | `(tactic| gr_extra) => `(tactic| with_reducible apply Grow.moveToFirstPrint)

theorem moveEnd (S : Segmenter) (U : UData) :
    Grow (LB.moveEnd S U ) := by
  unfold LB.moveEnd; gr_auto

macro_rules | `(tactic| gr_extra) => `(tactic| with_reducible apply Grow.moveEnd)

theorem delete (S : Segmenter) (U : UData) (n : _) :
    Grow (LB.delete S U n) := by
  unfold LB.delete; gr_auto

macro_rules | `(tactic| gr_extra) => `(tactic| with_reducible apply Grow.delete)

theorem backspace (S : Segmenter) (U : UData) (n : _) :
    Grow (LB.backspace S U n) := by
  unfold LB.backspace; gr_auto

macro_rules | `(tactic| gr_extra) => `(tactic| with_reducible apply Grow.backspace)

theorem killLine (S : Segmenter) (U : UData) :
    Grow (LB.killLine S U ) := by
  unfold LB.killLine; gr_auto

macro_rules | `(tactic| gr_extra) => `(tactic| with_reducible apply Grow.killLine)

theorem killBuffer (S : Segmenter) (U : UData) :
    Grow (LB.killBuffer S U ) := by
  unfold LB.killBuffer; gr_auto

macro_rules | `(tactic| gr_extra) => `(tactic| with_reducible apply Grow.killBuffer)

theorem discardLine (S : Segmenter) (U : UData) :
    Grow (LB.discardLine S U ) := by
  unfold LB.discardLine; gr_auto

macro_rules | `(tactic| gr_extra) => `(tactic| with_reducible apply Grow.discardLine)

theorem discardBuffer (S : Segmenter) (U : UData) :
    Grow (LB.discardBuffer S U ) := by
  unfold LB.discardBuffer; gr_auto

macro_rules | `(tactic| gr_extra) => `(tactic| with_reducible apply Grow.discardBuffer)

theorem transposeChars (S : Segmenter) (U : UData) :
    Grow (LB.transposeChars S U ) := by
  unfold LB.transposeChars; gr_auto

macro_rules | `(tactic| gr_extra) => `(tactic| with_reducible apply Grow.transposeChars)

theorem moveToPrevWord (S : Segmenter) (U : UData) (d : _) (n : _) :
    Grow (LB.moveToPrevWord S U d n) := by
  unfold LB.moveToPrevWord; gr_auto

macro_rules | `(tactic| gr_extra) => `(tactic| with_reducible apply Grow.moveToPrevWord)

theorem deletePrevWord (S : Segmenter) (U : UData) (d : _) (n : _) :
    Grow (LB.deletePrevWord S U d n) := by
  unfold LB.deletePrevWord; gr_auto

macro_rules | `(tactic| gr_extra) => `(tactic| with_reducible apply Grow.deletePrevWord)

theorem moveToNextWord (S : Segmenter) (U : UData) (a : _) (d : _) (n : _) :
    Grow (LB.moveToNextWord S U a d n) := by
  unfold LB.moveToNextWord; gr_auto

macro_rules | `(tactic| gr_extra) => `(tactic| with_reducible apply Grow.moveToNextWord)

theorem moveToLineUp (S : Segmenter) (U : UData) (n : _) (pc : _) :
    Grow (LB.moveToLineUp S U n pc) := by
  unfold LB.moveToLineUp; gr_auto

macro_rules | `(tactic| gr_extra) => `(tactic| with_reducible apply Grow.moveToLineUp)

theorem moveToLineDown (S : Segmenter) (U : UData) (n : _) (pc : _) :
    Grow (LB.moveToLineDown S U n pc) := by
  unfold LB.moveToLineDown; gr_auto

macro_rules | `(tactic| gr_extra) => `(tactic| with_reducible apply Grow.moveToLineDown)

theorem moveTo (S : Segmenter) (U : UData) (cs : _) (n : _) :
    Grow (LB.moveTo S U cs n) := by
  unfold LB.moveTo; gr_auto

macro_rules | `(tactic| gr_extra) => `(tactic| with_reducible apply Grow.moveTo)

theorem deleteWord (S : Segmenter) (U : UData) (a : _) (d : _) (n : _) :
    Grow (LB.deleteWord S U a d n) := by
  unfold LB.deleteWord; gr_auto

macro_rules | `(tactic| gr_extra) => `(tactic| with_reducible apply Grow.deleteWord)

theorem deleteTo (S : Segmenter) (U : UData) (cs : _) (n : _) :
    Grow (LB.deleteTo S U cs n) := by
  unfold LB.deleteTo; gr_auto

macro_rules | `(tactic| gr_extra) => `(tactic| with_reducible apply Grow.deleteTo)

theorem editWord (S : Segmenter) (U : UData) (a : _) :
    Grow (LB.editWord S U a) := by
  unfold LB.editWord; gr_auto

macro_rules | `(tactic| gr_extra) => `(tactic| with_reducible apply Grow.editWord)

theorem transposeWords (S : Segmenter) (U : UData) (n : _) :
    Grow (LB.transposeWords S U n) := by
  unfold LB.transposeWords; gr_auto

macro_rules | `(tactic| gr_extra) => `(tactic| with_reducible apply Grow.transposeWords)

theorem deleteRange (S : Segmenter) (U : UData) (a : _) (b : _) :
    Grow (LB.deleteRange S U a b) := by
  unfold LB.deleteRange; gr_auto

macro_rules | `(tactic| gr_extra) => `(tactic| with_reducible apply Grow.deleteRange)

theorem kill (S : Segmenter) (U : UData) (m : _) :
    Grow (LB.kill S U m) := by
  unfold LB.kill; gr_auto

macro_rules | `(tactic| gr_extra) => `(tactic| with_reducible apply Grow.kill)

theorem indent (S : Segmenter) (U : UData) (m : Movement) (k : Nat) (d : Bool) :
    Grow (LB.indent S U m k d) := by
  unfold LB.indent; gr_auto

macro_rules | `(tactic| gr_extra) => `(tactic| with_reducible apply Grow.indent)

end Grow

end Rl
