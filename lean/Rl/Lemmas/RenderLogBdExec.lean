/-
  C02, the cursor half of `LogFine` derived: `BdI` (`WF s.line ∧ WF s.saved ∧ LogBd s.render`) through the edit
  functions and `execute`.  Every `lb` / `lbQuiet` / `lbKill` step needs "the operation keeps the cursor on a
  character boundary": C03's totality theorems and package L's `lmsafe_*` lemmas.
-/
import Rl.Lemmas.RenderLogBd
import Rl.Lemmas.EditorSafe2
import Rl.Lemmas.LBFaithful
import Rl.Props.C09
namespace Rl
open EM

section
variable {S : Segmenter} {U : UData} {cfg : EdCfg}

/-- a total, `WF`-keeping line-buffer operation keeps `BdI` under each of the three runners -/
theorem bdp_lb {α : Type} {op : LM α} (hop : LMSafe op) : PresB (lb S U op) := by
  constructor
  intro s h
  cases hs : op s.line with
  | error e => rw [wp, lb_error S U hs]; exact h
  | ok r =>
    obtain ⟨a, l, ns⟩ := r
    refine wp_lb S U hs ?_
    obtain ⟨r', l', ns', h1, h2⟩ := hop s.line h.1
    rw [hs] at h1
    injection h1 with h1
    simp only [Prod.mk.injEq] at h1
    obtain ⟨_, rfl, _⟩ := h1
    exact ⟨h2, h.2.1, h.2.2⟩

theorem bdp_lbQuiet {α : Type} {op : LM α} (hop : LMSafe op) : PresB (lbQuiet op) := by
  constructor
  intro s h
  cases hs : op s.line with
  | error e =>
    have e1 : lbQuiet op s = .error (.panic, s) := by unfold lbQuiet; rw [hs]
    unfold wp; rw [e1]; exact h
  | ok r =>
    obtain ⟨a, l, ns⟩ := r
    refine wp_lbQuiet hs ?_
    obtain ⟨r', l', ns', h1, h2⟩ := hop s.line h.1
    rw [hs] at h1
    injection h1 with h1
    simp only [Prod.mk.injEq] at h1
    obtain ⟨_, rfl, _⟩ := h1
    exact ⟨h2, h.2.1, h.2.2⟩

theorem bdp_lbKill {α : Type} {op : LM α} (hop : LMSafe op) : PresB (lbKill S U op) := by
  constructor
  intro s h
  unfold wp lbKill
  cases hs : op s.line with
  | error e => exact h
  | ok r =>
    obtain ⟨a, l, ns⟩ := r
    simp only []
    obtain ⟨r', l', ns', h1, h2⟩ := hop s.line h.1
    rw [hs] at h1
    injection h1 with h1
    simp only [Prod.mk.injEq] at h1
    obtain ⟨_, rfl, _⟩ := h1
    cases lbKill.go ns s.ring with
    | error e => exact h
    | ok k => exact ⟨h2, h.2.1, h.2.2⟩

/-- the same for an operation chosen from the current line (`do let l ← getLine; lb (op l)`) -/
theorem bdp_lb_at {α : Type} {op : LB → LM α}
    (hop : ∀ lb, WF lb → ∃ r lb' ns, op lb lb = .ok (r, lb', ns) ∧ WF lb') :
    PresB (do let l ← getLine; lb S U (op l)) := by
  constructor
  intro s h
  rw [wp_bind]
  show wp (lb S U (op s.line)) _ _ s
  cases hs : op s.line s.line with
  | error e => rw [wp, lb_error S U hs]; exact h
  | ok r =>
    obtain ⟨a, l, ns⟩ := r
    refine wp_lb S U hs ?_
    obtain ⟨r', l', ns', h1, h2⟩ := hop s.line h.1
    rw [hs] at h1
    injection h1 with h1
    simp only [Prod.mk.injEq] at h1
    obtain ⟨_, rfl, _⟩ := h1
    exact ⟨h2, h.2.1, h.2.2⟩

theorem lmsafe_insert (c : Char) (n : Nat) : LMSafe (LB.insert S U c n) :=
  fun lb h => C03_insert_total_wf S U c n lb h

theorem lmsafe_delete (n : Nat) : LMSafe (LB.delete S U n) := fun lb h =>
  let ⟨r, lb', ns, h1, h2, _⟩ := C03_delete_total_wf S U lb n h; ⟨r, lb', ns, h1, h2⟩

theorem lmsafe_indent (m : Movement) (k : Nat) (d : Bool) (hk : k ≤ 255) : LMSafe (LB.indent S U m k d) :=
  fun lb h => C03_indent_total_wf S U m k d lb h hk

theorem lmsafe_update {b : Text} {p : Nat} (hp : IsBoundary b p) : LMSafe (LB.update S U b p) := fun lb _ =>
  let ⟨lb', ns, h1, h2, _⟩ := C03_update_total_wf_capacity S U b p lb hp; ⟨(), lb', ns, h1, h2⟩

theorem isBoundary_blen (t : Text) : IsBoundary t (blen t) := ⟨t, [], by simp, rfl⟩

/-! ### the edit functions -/

theorem bdp_editMove {op : LM Bool} (hop : LMSafe op) : PresB (editMove S U cfg op) := by
  have h1 := bdp_lbQuiet hop
  have h2 := bdp_moveCursor (S := S) (U := U) (cfg := cfg)
  unfold editMove
  bd_pres [h1, h2]

theorem bdp_editKill (mvt : Movement) : PresB (editKill S U cfg mvt) := by
  have h1 := bdp_lbKill (S := S) (U := U) (lmsafe_kill S U mvt)
  have h2 := bdp_refreshLine (S := S) (U := U) (cfg := cfg)
  unfold editKill
  bd_pres [h1, h2]

theorem bdp_grouped {op : LM Bool} (hop : LMSafe op) : PresB (grouped S U cfg op) := by
  have h1 := bdp_lb (S := S) (U := U) hop
  have h2 := bdp_refreshLine (S := S) (U := U) (cfg := cfg)
  unfold grouped
  bd_pres [h1, h2]

theorem bdp_editInsert (c : Char) (n : Nat) : PresB (editInsert S U cfg c n) := by
  have h1 := bdp_lb (S := S) (U := U) (lmsafe_insert (S := S) (U := U) c n)
  unfold editInsert
  bd_pres [h1]

theorem bdp_editReplaceChar (c : Char) (n : Nat) : PresB (editReplaceChar S U cfg c n) := by
  have h1 := bdp_lb (S := S) (U := U) (lmsafe_delete (S := S) (U := U) n)
  have h2 := fun k => bdp_lb (S := S) (U := U) (lmsafe_insert (S := S) (U := U) c k)
  have h3 := bdp_lbQuiet (lmsafe_moveBackward S U 1)
  have h4 := bdp_refreshLine (S := S) (U := U) (cfg := cfg)
  unfold editReplaceChar
  bd_pres [h1, h2, h3, h4]

theorem bdp_completeHintLine : PresB (completeHintLine S U cfg) := by
  have h1 := bdp_lbQuiet (lmsafe_moveEnd S U)
  have h2 := fun t => bdp_lb (S := S) (U := U) (lmsafe_yank S U t 1)
  have h3 := bdp_refreshLine (S := S) (U := U) (cfg := cfg)
  unfold completeHintLine
  bd_pres [h1, h2, h3]

theorem bdp_validate : PresB (validate S U cfg) := by
  have h1 := bdp_refreshLineWithMsg (S := S) (U := U) (cfg := cfg) none
  unfold validate
  bd_pres [h1]

theorem bdp_execAccept (aim : Bool) : PresB (execAccept S U cfg aim) := by
  have h1 := bdp_validate (S := S) (U := U) (cfg := cfg)
  have h2 := fun c n => bdp_editInsert (S := S) (U := U) (cfg := cfg) c n
  unfold execAccept
  bd_pres [h1, h2]

/-- `backup`: the saved line becomes a copy of the line -/
theorem bdp_backup : PresB (backup S U) := by
  constructor
  intro s h
  unfold wp backup
  obtain ⟨r', l', ns', h1, h2⟩ := lmsafe_update (S := S) (U := U) (show IsBoundary s.line.buf s.line.pos from h.1)
    s.saved h.2.1
  rw [h1]
  exact ⟨h.1, h2, h.2.2⟩

/-- `restore`: the line becomes a copy of the saved line -/
theorem bdp_restore : PresB (restore S U) := by
  constructor
  intro s h
  unfold restore
  rw [wp_bind', wp_read]
  exact (bdp_lb (S := S) (U := U) (lmsafe_update (S := S) (U := U)
    (show IsBoundary s.saved.buf s.saved.pos from h.2.1))).h s h

theorem bdp_showEntry {b : Text} {p : Nat} (hp : IsBoundary b p) : PresB (showEntry S U b p) := by
  have h1 := bdp_lb (S := S) (U := U) (lmsafe_update (S := S) (U := U) hp)
  unfold showEntry
  bd_pres [h1]

theorem bdp_editHistoryNext (prev : Bool) : PresB (editHistoryNext S U cfg prev) := by
  have h1 := fun b => bdp_showEntry (S := S) (U := U) (isBoundary_blen b)
  have h2 := bdp_restore (S := S) (U := U)
  have h3 := bdp_backup (S := S) (U := U)
  have h4 := bdp_refreshLine (S := S) (U := U) (cfg := cfg)
  unfold editHistoryNext
  bd_pres [h1, h2, h3, h4]

theorem bdp_editHistory (first : Bool) : PresB (editHistory S U cfg first) := by
  have h1 := fun b => bdp_showEntry (S := S) (U := U) (isBoundary_blen b)
  have h2 := bdp_restore (S := S) (U := U)
  have h3 := bdp_backup (S := S) (U := U)
  have h4 := bdp_refreshLine (S := S) (U := U) (cfg := cfg)
  unfold editHistory
  bd_pres [h1, h2, h3, h4]

/-- `do let l ← getLine; let r ← lb (op l); k r`, the operation chosen from the current line -/
theorem bdp_getLine_lb_then {α β : Type} {op : LB → LM α} {k : α → EM β}
    (hop : ∀ lb, WF lb → ∃ r lb' ns, op lb lb = .ok (r, lb', ns) ∧ WF lb') (hk : ∀ r, PresB (k r)) :
    PresB (getLine >>= fun l => lb S U (op l) >>= k) := by
  constructor
  intro s h
  rw [wp_bind, wp_getLine, wp_bind]
  cases hs : op s.line s.line with
  | error e => rw [wp, lb_error S U hs]; exact h
  | ok r =>
    obtain ⟨a, l, ns⟩ := r
    refine wp_lb S U hs ?_
    obtain ⟨r', l', ns', h1, h2⟩ := hop s.line h.1
    rw [hs] at h1
    injection h1 with h1
    simp only [Prod.mk.injEq] at h1
    obtain ⟨_, rfl, _⟩ := h1
    exact (hk a).h _ ⟨h2, h.2.1, h.2.2⟩

theorem bdp_editInsertText (t : Text) : PresB (editInsertText S U cfg t) := by
  have h2 := bdp_refreshLine (S := S) (U := U) (cfg := cfg)
  have h1 : PresB (getLine >>= fun l => lb S U (LB.insertStr S U l.pos t) >>= fun _ => refreshLine S U cfg) :=
    bdp_getLine_lb_then (op := fun l => LB.insertStr S U l.pos t)
      (fun lb hw => C03_insertStr_total_wf S U lb.pos t lb hw hw (Nat.le_refl _)) (fun _ => h2)
  unfold editInsertText
  bd_pres [h1]

theorem bdp_editOverwriteChar (c : Char) : PresB (editOverwriteChar S U cfg c) := by
  constructor
  intro s h
  unfold editOverwriteChar
  simp only [wp_bind, wp_getLine]
  obtain ⟨r, hr, hp⟩ := nextPos_ok S s.line 1 h.1
  refine wp_liftP_ok hr ?_
  cases r with
  | none => exact h
  | some e =>
    obtain ⟨hb, hlt⟩ := hp e rfl
    obtain ⟨l, ns, hrep, hw⟩ := C03_replace_total_wf S U s.line.pos e [c] s.line h.1 hb (Nat.le_of_lt hlt)
    simp only [wp_bind]
    refine wp_lb S U hrep ?_
    exact (bdp_refreshLine (S := S) (U := U) (cfg := cfg)).h _ ⟨hw, h.2.1, h.2.2⟩

theorem bdp_editHistorySearch (dir : Dir) : PresB (editHistorySearch S U cfg dir) := by
  constructor
  intro s h
  unfold editHistorySearch
  simp only [wp_bind, wp_ite, wp_pure, wp_getHistIdx, wp_setHistIdx, wp_getLine]
  split
  · exact h
  · split
    · exact h
    · obtain ⟨x, z, hb, hp⟩ := WF.split h.1
      have hs : sliceTo s.line.buf s.line.pos = .ok x := by rw [hb, hp]; exact sliceTo_mid x z
      refine wp_liftP_ok hs ?_
      cases hst : (memHist cfg).startsWith x (if (dir == Dir.reverse) = true then s.histIdx - 1 else s.histIdx + 1) dir with
      | none => exact h
      | some r =>
        obtain ⟨idx, entry, pos⟩ := r
        obtain ⟨_, hpre, hoff, _⟩ := C09_starts_with_sound _ _ _ _ _ _ _ hst
        simp only [wp_bind, wp_setHistIdx]
        have hbd : IsBoundary entry pos := by
          obtain ⟨rest, hr⟩ := hpre
          exact ⟨x, rest, hr.symm, hoff⟩
        have := (PresB.bind (bdp_showEntry (S := S) (U := U) hbd) fun _ =>
          bdp_refreshLine (S := S) (U := U) (cfg := cfg)).h { s with histIdx := idx } ⟨h.1, h.2.1, h.2.2⟩
        rw [wp_bind] at this
        exact this

/-- what is asked of `yank_pop` and of the undo log: whenever they return, the cursor is on a boundary
    (`yank_pop` removes `yankSize` bytes before the cursor by slicing, `Changeset::undo` replays recorded edits by
    slicing: an answer other than a panic means the slices were on boundaries) -/
def YankPopWF (S : Segmenter) (U : UData) : Prop :=
  ∀ k t lb r lb' ns, WF lb → LB.yankPop S U k t lb = .ok (r, lb', ns) → WF lb'

def UndoWF (S : Segmenter) (U : UData) : Prop :=
  ∀ (c c' : Changeset) (l l' : LB) (n : Nat) (u : Bool), WF l → c.undo S U l n = .ok (c', l', u) → WF l'

theorem bdp_editYankPop (hpop : YankPopWF S U) (k : Nat) (t : Text) : PresB (editYankPop S U cfg k t) := by
  have h2 := bdp_refreshLine (S := S) (U := U) (cfg := cfg)
  have h1 : PresB (lb S U (LB.yankPop S U k t)) := by
    constructor
    intro s h
    cases hs : LB.yankPop S U k t s.line with
    | error e => rw [wp, lb_error S U hs]; exact h
    | ok r =>
      obtain ⟨a, l, ns⟩ := r
      exact wp_lb S U hs ⟨hpop _ _ _ _ _ _ h.1 hs, h.2.1, h.2.2⟩
  unfold editYankPop
  bd_pres [h1, h2]

theorem bdp_editYank (text : Text) (anchor : Anchor) (n : Nat) : PresB (editYank S U cfg text anchor n) := by
  have hsome : PresB (do
      if cfg.vi then do let _ ← lbQuiet (LB.moveBackward S U 1); Pure.pure ()
      refreshLine S U cfg : EM Unit) := by
    have h3 := bdp_lbQuiet (lmsafe_moveBackward S U 1)
    have h4 := bdp_refreshLine (S := S) (U := U) (cfg := cfg)
    bd_pres [h3, h4]
  constructor
  intro s h
  -- the rest of the command, from any state with the same text
  have tail : ∀ s1 : Ed, BdI s1 → s1.line.buf = s.line.buf →
      wp (do
        match ← lb S U (LB.yank S U text n) with
        | some _ => do
          if cfg.vi then do let _ ← lbQuiet (LB.moveBackward S U 1); Pure.pure ()
          refreshLine S U cfg
        | none => lbQuiet (LB.setPosChecked S U s.line.pos) : EM Unit)
        (fun _ s' => BdI s') (fun _ s' => BdI s') s1 := by
    intro s1 h1 hb1
    rw [wp_bind]
    cases hs2 : LB.yank S U text n s1.line with
    | error e => rw [wp, lb_error S U hs2]; exact h1
    | ok r =>
      obtain ⟨a, l2, ns2⟩ := r
      refine wp_lb S U hs2 ?_
      obtain ⟨r', l', ns', e1, hw2⟩ := lmsafe_yank S U text n s1.line h1.1
      rw [hs2] at e1
      injection e1 with e1
      simp only [Prod.mk.injEq] at e1
      obtain ⟨_, rfl, _⟩ := e1
      cases a with
      | some x => exact hsome.h _ ⟨hw2, h1.2.1, h1.2.2⟩
      | none =>
        simp only []
        -- nothing was pasted: the text is the one the command started with
        obtain ⟨hb2, _⟩ := (lbFaithful S U).yank text n _ _ _ _ hs2 rfl
        have hbd : IsBoundary l2.buf s.line.pos := by rw [hb2, hb1]; exact h.1
        obtain ⟨l3, hset, hw3, _⟩ := C03_setPos_total_wf S U s.line.pos l2 hbd
        refine wp_lbQuiet (s := { s1 with line := l2, changes := s1.changes.onNotifs S U.alnum ns2 }) hset ?_
        exact ⟨hw3, h1.2.1, h1.2.2⟩
  unfold editYank
  simp only [wp_bind, wp_get]
  by_cases ha : (anchor == Anchor.after) = true
  · simp only [ha, if_true, wp_bind]
    cases hs1 : LB.moveForward S U 1 s.line with
    | error e =>
      have e1 : lbQuiet (LB.moveForward S U 1) s = .error (.panic, s) := by unfold lbQuiet; rw [hs1]
      unfold wp; rw [e1]; exact h
    | ok r =>
      obtain ⟨r1, l1, ns1⟩ := r
      refine wp_lbQuiet hs1 ?_
      obtain ⟨r', l', ns', e1, hw1⟩ := lmsafe_moveForward S U 1 s.line h.1
      rw [hs1] at e1
      injection e1 with e1
      simp only [Prod.mk.injEq] at e1
      obtain ⟨_, rfl, _⟩ := e1
      obtain ⟨hb1, _⟩ := (lbFaithful S U).moveForward 1 _ _ _ _ h.1 hs1
      have := tail { s with line := l1 } ⟨hw1, h.2.1, h.2.2⟩ hb1
      rw [wp_bind] at this
      exact this
  · simp only [ha, Bool.false_eq_true, if_false, wp_pure]
    exact tail s h rfl

/-- `Cmd::Undo`, given that the undo log leaves the cursor on a boundary -/
theorem bdp_undo (hundo : UndoWF S U) (n : Nat) : PresB (do
    let s ← get
    match s.changes.undo S U s.line n with
    | .ok (c, l, undone) => do
      set { s with changes := c, line := l }
      if undone then refreshLine S U cfg
      Pure.pure Status.proceed
    | .error _ => exit .panic : EM Status) := by
  constructor
  intro s h
  simp only [wp_bind, wp_get]
  cases hu : s.changes.undo S U s.line n with
  | error e => exact h
  | ok r =>
    obtain ⟨c, l, undone⟩ := r
    simp only [wp_bind, wp_set]
    have h1 : BdI ({ s with changes := c, line := l } : Ed) := ⟨hundo _ _ _ _ _ _ h.1 hu, h.2.1, h.2.2⟩
    cases undone with
    | true =>
      simp only [if_true]
      exact (PresB.bind (bdp_refreshLine (S := S) (U := U) (cfg := cfg)) fun _ => PresB.pure Status.proceed).h _ h1
    | false =>
      simp only [Bool.false_eq_true, if_false]
      exact h1

/-- **every command keeps the cursor on a boundary wherever it calls the renderer** — `indentSize ≤ 255` (the
    code's `u8`), and what is asked of `yank_pop` and of the undo log -/
theorem bdp_execute (hind : cfg.indentSize ≤ 255) (hpop : YankPopWF S U) (hundo : UndoWF S U) (cmd : Cmd) :
    PresB (execute S U cfg cmd) := by
  have a1 := fun c n => bdp_editInsert (S := S) (U := U) (cfg := cfg) c n
  have a2 := bdp_refreshLine (S := S) (U := U) (cfg := cfg)
  have a3 := bdp_refreshLineWithMsg (S := S) (U := U) (cfg := cfg) none
  have a4 := bdp_moveCursor (S := S) (U := U) (cfg := cfg)
  have m1 := bdp_editMove (S := S) (U := U) (cfg := cfg) (lmsafe_moveHome S U)
  have m2 := bdp_editMove (S := S) (U := U) (cfg := cfg) (lmsafe_moveEnd S U)
  have m3 := fun n => bdp_editMove (S := S) (U := U) (cfg := cfg) (lmsafe_moveBackward S U n)
  have m4 := fun n => bdp_editMove (S := S) (U := U) (cfg := cfg) (lmsafe_moveForward S U n)
  have m5 := fun w n => bdp_editMove (S := S) (U := U) (cfg := cfg) (lmsafe_moveToPrevWord S U w n)
  have m6 := fun a w n => bdp_editMove (S := S) (U := U) (cfg := cfg) (lmsafe_moveToNextWord S U a w n)
  have m7 := bdp_editMove (S := S) (U := U) (cfg := cfg) (lmsafe_moveBufferStart S U)
  have m8 := bdp_editMove (S := S) (U := U) (cfg := cfg) (lmsafe_moveBufferEnd S U)
  have m9 := fun cs n => bdp_editMove (S := S) (U := U) (cfg := cfg) (lmsafe_moveTo S U cs n)
  have m10 := fun n pc => bdp_editMove (S := S) (U := U) (cfg := cfg) (lmsafe_moveToLineUp S U n pc)
  have m11 := fun n pc => bdp_editMove (S := S) (U := U) (cfg := cfg) (lmsafe_moveToLineDown S U n pc)
  have m12 := bdp_editMove (S := S) (U := U) (cfg := cfg) (lmsafe_moveToFirstPrint S U)
  have l1 := fun n pc => bdp_lbQuiet (lmsafe_moveToLineUp S U n pc)
  have l2 := fun n pc => bdp_lbQuiet (lmsafe_moveToLineDown S U n pc)
  have i1 := fun m d => bdp_lb (S := S) (U := U) (lmsafe_indent (S := S) (U := U) m cfg.indentSize d hind)
  have b1 := fun p => bdp_editHistoryNext (S := S) (U := U) (cfg := cfg) p
  have b2 := fun p => bdp_editHistory (S := S) (U := U) (cfg := cfg) p
  have b3 := fun d => bdp_editHistorySearch (S := S) (U := U) (cfg := cfg) d
  have e1 := fun mvt => bdp_editKill (S := S) (U := U) (cfg := cfg) mvt
  have e2 := bdp_grouped (S := S) (U := U) (cfg := cfg) (lmsafe_transposeChars S U)
  have e3 := fun a => bdp_grouped (S := S) (U := U) (cfg := cfg) (lmsafe_editWord S U a)
  have e4 := fun n => bdp_grouped (S := S) (U := U) (cfg := cfg) (lmsafe_transposeWords S U n)
  have e6 := fun t a n => bdp_editYank (S := S) (U := U) (cfg := cfg) t a n
  have e7 := fun k t => bdp_editYankPop (cfg := cfg) hpop k t
  have e8 := fun c n => bdp_editReplaceChar (S := S) (U := U) (cfg := cfg) c n
  have e9 := fun c => bdp_editOverwriteChar (S := S) (U := U) (cfg := cfg) c
  have e10 := fun t => bdp_editInsertText (S := S) (U := U) (cfg := cfg) t
  have e11 := bdp_completeHintLine (S := S) (U := U) (cfg := cfg)
  have e12 := bdp_validate (S := S) (U := U) (cfg := cfg)
  have e13 := fun aim => bdp_execAccept (S := S) (U := U) (cfg := cfg) aim
  have c3 := fun n => bdp_undo (cfg := cfg) hundo n
  cases cmd with
  | undo n =>
    unfold execute
    first | exact c3 n | exact PresB.bind (PresB.pure _) fun _ => c3 n
  | _ =>
    unfold execute
    bd_pres [a1, a2, a3, a4, m1, m2, m3, m4, m5, m6, m7, m8, m9, m10, m11, m12, l1, l2, i1, b1, b2, b3, e1, e2, e3, e4,
      e6, e7, e8, e9, e10, e11, e12, e13]
    all_goals contradiction

end
end Rl
