/-
  Helper lemmas for the bracket-matching model (`Rl/Highlight.lean`): the scan of
  `find_matching_bracket` characterised by counting.
-/
import Rl.Highlight
namespace Rl.Highlight

theorem matching_ne_of_open {b : UInt8} (h : isOpenB b = true) : matchingBracket b ≠ b := by
  simp only [isOpenB, Bool.or_eq_true, beq_iff_eq] at h
  rcases h with (h | h) | h <;> subst h <;> decide

theorem matching_ne_of_close {b : UInt8} (h : isCloseB b = true) : matchingBracket b ≠ b := by
  simp only [isCloseB, Bool.or_eq_true, beq_iff_eq] at h
  rcases h with (h | h) | h <;> subst h <;> decide

/-- A successful scan stops on a byte `m`; before it the depth (starting at `u`, `+1` for every `b`,
    `-1` for every `m`) never reached 0 and is exactly 1 just before the stop. -/
theorem scan_some {m b : UInt8} (hne : m ≠ b) {l : Bytes} {k u q : Nat} (hu : 1 ≤ u)
    (h : scan m b l k u = some q) :
    ∃ j, q = k + j ∧ l[j]? = some m ∧
      (l.take j).count m + 1 = (l.take j).count b + u ∧
      ∀ n, n ≤ j → (l.take n).count m < (l.take n).count b + u := by
  induction l generalizing k u with
  | nil => simp [scan] at h
  | cons b0 bs ih =>
    simp only [scan] at h
    split at h
    · rename_i hm
      have hm' : b0 = m := by simpa using hm
      have hb : (b0 == b) = false := by subst hm'; simpa using hne
      split at h
      · rename_i hu1
        have hu1' : u = 1 := by simp at hu1; omega
        simp at h; subst h
        refine ⟨0, rfl, by simp [hm'], by simp [hu1'], ?_⟩
        intro n hn
        have : n = 0 := by omega
        subst this; simp; omega
      · rename_i hu1
        have hu2 : 1 ≤ u - 1 := by simp at hu1; omega
        obtain ⟨j, hq, hj, hc, hp⟩ := ih hu2 h
        refine ⟨j + 1, by omega, by simpa using hj, ?_, ?_⟩
        · simp only [List.take_succ_cons, List.count_cons, hm, hb]
          simp; omega
        · intro n hn
          cases n with
          | zero => simp; omega
          | succ n =>
            have := hp n (by omega)
            simp only [List.take_succ_cons, List.count_cons, hm, hb]
            simp; omega
    · rename_i hm
      have hm' : (b0 == m) = false := by simpa using hm
      split at h
      · rename_i hb
        obtain ⟨j, hq, hj, hc, hp⟩ := ih (by omega : 1 ≤ u + 1) h
        refine ⟨j + 1, by omega, by simpa using hj, ?_, ?_⟩
        · simp only [List.take_succ_cons, List.count_cons, hm', hb]
          simp; omega
        · intro n hn
          cases n with
          | zero => simp; omega
          | succ n =>
            have := hp n (by omega)
            simp only [List.take_succ_cons, List.count_cons, hm', hb]
            simp; omega
      · rename_i hb
        have hb' : (b0 == b) = false := by simpa using hb
        obtain ⟨j, hq, hj, hc, hp⟩ := ih hu h
        refine ⟨j + 1, by omega, by simpa using hj, ?_, ?_⟩
        · simp only [List.take_succ_cons, List.count_cons, hm', hb']
          simp; omega
        · intro n hn
          cases n with
          | zero => simp; omega
          | succ n =>
            have := hp n (by omega)
            simp only [List.take_succ_cons, List.count_cons, hm', hb']
            simp; omega

/-- A failing scan: the depth never reaches 0 on the whole list. -/
theorem scan_none {m b : UInt8} (hne : m ≠ b) {l : Bytes} {k u : Nat} (hu : 1 ≤ u)
    (h : scan m b l k u = none) :
    ∀ n, (l.take n).count m < (l.take n).count b + u := by
  induction l generalizing k u with
  | nil => intro n; simp; omega
  | cons b0 bs ih =>
    simp only [scan] at h
    split at h
    · rename_i hm
      have hm' : b0 = m := by simpa using hm
      have hb : (b0 == b) = false := by subst hm'; simpa using hne
      split at h
      · simp at h
      · rename_i hu1
        have hu2 : 1 ≤ u - 1 := by simp at hu1; omega
        intro n
        cases n with
        | zero => simp; omega
        | succ n =>
          have := ih hu2 h n
          simp only [List.take_succ_cons, List.count_cons, hm, hb]
          simp; omega
    · rename_i hm
      have hm' : (b0 == m) = false := by simpa using hm
      split at h
      · rename_i hb
        intro n
        cases n with
        | zero => simp; omega
        | succ n =>
          have := ih (by omega : 1 ≤ u + 1) h n
          simp only [List.take_succ_cons, List.count_cons, hm', hb]
          simp; omega
      · rename_i hb
        have hb' : (b0 == b) = false := by simpa using hb
        intro n
        cases n with
        | zero => simp; omega
        | succ n =>
          have := ih hu h n
          simp only [List.take_succ_cons, List.count_cons, hm', hb']
          simp; omega

end Rl.Highlight
