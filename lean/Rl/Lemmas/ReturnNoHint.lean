/-
  "No hint is on display when the read returns with a line" (C02, last clause): the main loop returns normally
  only after `execute` answered `Submit`, and `execute` answers `Submit` only for an accepting command, after
  `refresh_line_with_msg` cleared the hint (or with no hint to clear); `validate` and the final
  `edit_move_buffer_end` do not bring one back.
-/
import Rl.Lemmas.RenderLogReturn
import Rl.Lemmas.EditorOps
import Rl.Lemmas.Keymap
namespace Rl
open EM

section
variable {S : Segmenter} {U : UData} {cfg : EdCfg}

/-- from a state without hint, `m` returns in a state without hint -/
structure HNone {α : Type} (m : EM α) : Prop where
  h : ∀ s : Ed, s.hint = none → wp m (fun _ s' => s'.hint = none) (fun _ _ => True) s

theorem HNone.pure {α : Type} (a : α) : HNone (pure a : EM α) := ⟨fun _ h => h⟩
theorem HNone.exit {α : Type} (o : Outcome) : HNone (EM.exit o : EM α) := ⟨fun _ _ => trivial⟩
theorem HNone.bind {α β : Type} {m : EM α} {g : α → EM β} (hm : HNone m) (hg : ∀ a, HNone (g a)) :
    HNone (m >>= g) := by
  constructor
  intro s h
  rw [wp_bind]
  exact wp_mono (hm.h s h) (fun a s' h' => (hg a).h s' h') (fun _ _ _ => trivial)
theorem HNone.of_keeps {α : Type} {m : EM α} (hk : Keeps Ed.hint m) : HNone m := by
  constructor
  intro s h
  exact wp_mono (hk.wp s) (fun _ s' h' => by rw [h', h]) (fun _ _ _ => trivial)

theorem wp_any {α : Type} {m : EM α} {P : α → Ed → Prop} {s : Ed} (h : ∀ a s', P a s') :
    wp m P (fun _ _ => True) s := by
  unfold wp; cases m s with
  | error e => trivial
  | ok r => exact h _ _

theorem kh_highlightCharStep : Keeps Ed.hint (highlightCharStep cfg) := by
  constructor
  intro s
  unfold highlightCharStep
  by_cases h1 : cfg.hasHelper = true
  · by_cases h2 : cfg.highlightChar s.line.buf s.line.pos = true
    · simp only [h1, h2, if_true]
    · by_cases h3 : s.highlightChar = true
      · simp only [h1, h2, h3, if_true, if_false, Bool.false_eq_true]
      · simp only [h1, h2, h3, if_true, if_false, Bool.false_eq_true]
  · simp only [h1, if_false, Bool.false_eq_true]

theorem kh_changesBegin : Keeps Ed.hint changesBegin := by
  constructor; intro s; unfold changesBegin
  generalize s.changes.begin = p; obtain ⟨c, m⟩ := p; rfl

theorem kh_changesEnd : Keeps Ed.hint changesEnd := by
  constructor; intro s; unfold changesEnd
  generalize s.changes.end_ = p; obtain ⟨c, m⟩ := p; rfl

/-- `refresh_line_with_msg` leaves no hint, whatever the state before -/
theorem refreshLineWithMsg_nohint (msg : Option Text) (s : Ed) :
    wp (refreshLineWithMsg S U cfg msg) (fun _ s' => s'.hint = none) (fun _ _ => True) s := by
  unfold refreshLineWithMsg
  rw [wp_bind, wp_modify]
  have hk : Keeps Ed.hint (do
      let _ ← highlightCharStep cfg
      setRefreshLayout S U cfg cfg.prompt true
      logRender (fun s => .refresh none s.line.buf s.line.pos msg) : EM Unit) :=
    Keeps.bind kh_highlightCharStep fun _ => Keeps.bind (Keeps.modify fun _ => rfl) fun _ => Keeps.modify fun _ => rfl
  exact (HNone.of_keeps hk).h _ rfl

theorem hn_refreshLineWithMsg (msg : Option Text) : HNone (refreshLineWithMsg S U cfg msg) :=
  ⟨fun s _ => refreshLineWithMsg_nohint msg s⟩

/-- structural descent for `HNone` goals -/
macro "hn_step" : tactic => `(tactic| first
  | intro _
  | exact HNone.pure _
  | exact HNone.exit _
  | exact hn_refreshLineWithMsg _
  | assumption
  | exact HNone.of_keeps kh_changesBegin
  | exact HNone.of_keeps kh_changesEnd
  | exact HNone.of_keeps (Keeps.read _)
  | exact HNone.of_keeps (Keeps.modify fun _ => rfl)
  | apply HNone.bind
  | simp only []
  | split)

theorem hn_validate : HNone (validate S U cfg) := by
  unfold validate
  repeat' hn_step

/-- "a `Submit` comes without a hint" -/
def SubQ (st : Status) (s' : Ed) : Prop := st = .submit → s'.hint = none

theorem wp_proceed {s : Ed} : wp (pure Status.proceed : EM Status) SubQ (fun _ _ => True) s :=
  fun h => by cases h

theorem subq_of_hn {k : EM Status} (hk : HNone k) {s : Ed} (h : s.hint = none) :
    wp k SubQ (fun _ _ => True) s :=
  wp_mono (hk.h s h) (fun _ _ h' _ => h') (fun _ _ _ => trivial)

theorem withPreAccept_subq {k : EM Status} {s : Ed}
    (hk : ∀ s1 : Ed, s1.hint = none → wp k SubQ (fun _ _ => True) s1) :
    wp (withPreAccept S U cfg k) SubQ (fun _ _ => True) s := by
  unfold withPreAccept
  simp only [wp_bind, wp_get, wp_ite]
  split
  · exact wp_mono (refreshLineWithMsg_nohint none s) (fun _ s1 h1 => hk s1 h1) (fun _ _ _ => trivial)
  · next hneg =>
    refine hk s ?_
    cases hh : s.hint with
    | none => rfl
    | some x => simp [hh] at hneg

theorem execute_acceptLine' :
    execute S U cfg .acceptLine = withPreAccept S U cfg (do
      let _ ← validate S U cfg
      pure .submit) := by
  unfold execute withPreAccept
  simp only []

theorem execAccept_subq (aim : Bool) {s : Ed} (h : s.hint = none) :
    wp (execAccept S U cfg aim) SubQ (fun _ _ => True) s := by
  unfold execAccept
  rw [wp_bind]
  refine wp_mono (hn_validate.h s h) (fun v s1 h1 => ?_) (fun _ _ _ => trivial)
  simp only []
  rw [wp_bind, wp_getLine]
  split
  · exact fun _ => h1
  · rw [wp_bind]; exact wp_any fun _ _ => wp_proceed
  · exact wp_proceed

theorem execute_subq (cmd : Cmd) (s : Ed) : wp (execute S U cfg cmd) SubQ (fun _ _ => True) s := by
  by_cases h1 : cmd = .endOfFile
  · subst h1
    rw [execute_endOfFile]
    refine withPreAccept_subq fun s1 hs1 => subq_of_hn ?_ hs1
    repeat' hn_step
  by_cases h2 : cmd = .acceptLine
  · subst h2
    rw [execute_acceptLine']
    refine withPreAccept_subq fun s1 hs1 => subq_of_hn ?_ hs1
    exact HNone.bind hn_validate fun _ => HNone.pure _
  by_cases h3 : ∃ aim, cmd = .acceptOrInsertLine aim
  · obtain ⟨aim, rfl⟩ := h3
    rw [execute_acceptOrInsertLine]
    exact withPreAccept_subq fun s1 hs1 => execAccept_subq aim hs1
  have h3' : ∀ aim, ¬ cmd = .acceptOrInsertLine aim := fun aim h => h3 ⟨aim, h⟩
  unfold execute
  simp only []
  repeat' (first
    | exact wp_proceed
    | exact (trivial : wp (EM.exit _ : EM Status) SubQ (fun _ _ => True) _)
    | exact absurd rfl h1
    | exact absurd rfl h2
    | exact absurd rfl (h3' _)
    | (rw [wp_bind]; refine wp_any (fun _ _ => ?_))
    | (rw [wp_bind']; refine wp_any (fun _ _ => ?_))
    | simp only []
    | split)

/-- the main loop returns normally only without a hint -/
theorem mainLoop_nohint (fuel : Nat) :
    ∀ s : Ed, wp (mainLoop S U cfg fuel) (fun _ s' => s'.hint = none) (fun _ _ => True) s := by
  induction fuel with
  | zero => intro s; unfold mainLoop; trivial
  | succ k ih =>
    intro s
    unfold mainLoop
    repeat' (first
      | exact ih _
      | exact (‹SubQ _ _› : SubQ _ _) rfl
      | exact (trivial : wp (EM.exit _ : EM Unit) _ (fun _ _ => True) _)
      | (rw [wp_bind]; refine wp_mono (execute_subq _ _) (fun _ _ _ => ?_) (fun _ _ _ => trivial))
      | (rw [wp_bind]; refine wp_any (fun _ _ => ?_))
      | (rw [wp_bind']; refine wp_any (fun _ _ => ?_))
      | simp only []
      | split)

/-- `edit_move_buffer_end` keeps the hint field -/
theorem kh_editMove_bufferEnd : Keeps Ed.hint (editMove S U cfg (LB.moveBufferEnd S U)) := by
  unfold editMove
  refine Keeps.bind ?_ fun moved => ?_
  · constructor
    intro s
    unfold lbQuiet
    cases LB.moveBufferEnd S U s.line with
    | error e => rfl
    | ok r => rfl
  · split
    · unfold moveCursor
      refine Keeps.bind Keeps.get fun s0 => ?_
      simp only []
      split
      · exact Keeps.modify fun _ => rfl
      · refine Keeps.bind kh_highlightCharStep fun hl => ?_
        split
        · exact Keeps.bind (Keeps.modify fun _ => rfl) fun _ => Keeps.modify fun _ => rfl
        · exact Keeps.bind (Keeps.modify fun _ => rfl) fun _ => Keeps.modify fun _ => rfl
    · exact Keeps.pure _

/-- **a normal return of the body of `readline_edit` carries no hint** -/
theorem readProg_nohint (ring : KillRing) (left right : Text) (input : Input) {s : Ed}
    (h : readProg S U cfg left right input (initEd cfg ring input) = .ok ((), s)) : s.hint = none := by
  have key : ∀ s0 : Ed,
      wp (mainLoop S U cfg (input.size + 2) >>= fun _ =>
        editMove S U cfg (LB.moveBufferEnd S U)) (fun _ s' => s'.hint = none) (fun _ _ => True) s0 := by
    intro s0
    rw [wp_bind]
    refine wp_mono (mainLoop_nohint _ s0) (fun _ s2 h2 => ?_) (fun _ _ _ => trivial)
    exact (HNone.of_keeps kh_editMove_bufferEnd).h s2 h2
  have hw : wp (readProg S U cfg left right input) (fun _ s' => s'.hint = none) (fun _ _ => True)
      (initEd cfg ring input) := by
    unfold readProg
    simp only []
    split
    · rw [wp_bind]; refine wp_any fun _ _ => ?_
      rw [wp_bind]; refine wp_any fun _ _ => ?_
      exact key _
    · rw [wp_bind]; refine wp_any fun _ _ => ?_
      exact key _
  unfold wp at hw
  rw [h] at hw
  exact hw

end
end Rl
