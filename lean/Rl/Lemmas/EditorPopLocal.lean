/-
  C17: the three one-command facts `PopLocal` that carrying `PopOK` through an emacs-mode read rests
  on: after `Yank` and after `YankPop` the pasted text — exactly as many bytes as the kill ring
  recorded — stands right before the cursor; a `Kill` sets the ring's last action to Kill or, when
  nothing was killed, leaves line, cursor and ring alone.
-/
import Rl.Lemmas.EditorPop
import Rl.Lemmas.LineBufferGrow
import Rl.Props.C03
import Rl.Lemmas.LBFaithful
namespace Rl
open EM

section
variable (S : Segmenter) (U : UData) (cfg : EdCfg)

theorem mustTruncate_of_canGrow {lb : LB} (hg : lb.canGrow = true) (n : Nat) : lb.mustTruncate n = false := by
  unfold LB.mustTruncate; rw [hg]; rfl

/-- `edit_yank` in emacs mode, the ring having recorded `blen t * n` bytes: these bytes stand right
    before the cursor afterwards (nothing pasted: `t` is empty, the cursor is back where it was) -/
theorem pop_editYank (hvi : cfg.vi = false) (t : Text) (a : Anchor) (n : Nat) {s : Ed}
    (hw : WF s.line) (hg : s.line.canGrow = true) (hla : s.ring.lastAction = .yank (blen t * n)) :
    wp (editYank S U cfg t a n) (fun _ s' => PopOK s') (fun _ _ => True) s := by
  -- after the optional step forward
  have rest : ∀ s1 : Ed, WF s1.line → s1.line.canGrow = true → s1.ring.lastAction = .yank (blen t * n) →
      s1.line.buf = s.line.buf →
      wp (do
        match ← lb S U (LB.yank S U t n) with
        | some _ => do
          if cfg.vi then do let _ ← lbQuiet (LB.moveBackward S U 1); pure ()
          refreshLine S U cfg
        | none => lbQuiet (LB.setPosChecked S U s.line.pos)) (fun _ s' => PopOK s') (fun _ _ => True) s1 := by
    intro s1 hw1 hg1 hla1 hb1
    rw [wp_bind]
    have hy := yank_eval S U t n s1.line
    rw [mustTruncate_of_canGrow hg1, Bool.or_false] at hy
    by_cases ht : t.isEmpty = true
    · rw [if_pos ht] at hy
      refine wp_lb S U hy ?_
      simp only []
      have hp : s.line.pos ≤ s1.line.len := by
        obtain ⟨x, z, e1, e2⟩ := hw
        show s.line.pos ≤ blen s1.line.buf
        rw [hb1, e1, e2]; simp
      have hs : LB.setPosChecked S U s.line.pos s1.line = .ok ((), { s1.line with pos := s.line.pos }, []) := by
        unfold LB.setPosChecked; rw [if_pos hp]
      refine wp_lbQuiet hs ?_
      intro size hsz
      have hsz' : Rl.KAction.yank (blen t * n) = .yank size := by rw [← hla1]; exact hsz
      have ht0 : t = [] := by simpa using ht
      have : size = 0 := by cases hsz'; rw [ht0]; simp
      subst this
      refine ⟨Nat.zero_le _, ?_⟩
      show IsBoundary s1.line.buf (s.line.pos - 0)
      rw [hb1]; exact hw
    · rw [if_neg ht] at hy
      obtain ⟨x, z, e1, e2⟩ := hw1
      have hsp : splitAtByte s1.line.buf s1.line.pos = some (x, z) := by rw [e1, e2]; exact splitAtByte_append x z
      rw [hsp] at hy
      refine wp_lb S U hy ?_
      simp only [hvi, Bool.false_eq_true, if_false, wp_bind, wp_pure]
      refine wp_refreshLine S U cfg (fun s3 hc3 => ?_) (fun _ _ _ => trivial)
      obtain ⟨l3, _, _, r3, _⟩ := Ed.core_eq hc3
      intro size hsz
      rw [r3] at hsz
      have hsz' : Rl.KAction.yank (blen t * n) = .yank size := by rw [← hla1]; exact hsz
      cases hsz'
      rw [l3]
      refine ⟨Nat.le_add_left _ _, ?_⟩
      show IsBoundary (x ++ yankText t n ++ z) (s1.line.pos + blen t * n - blen t * n)
      rw [Nat.add_sub_cancel]
      exact ⟨x, yankText t n ++ z, by simp, e2⟩
  unfold editYank
  rw [wp_bind, wp_get]
  simp only []
  by_cases ha : (a == Anchor.after) = true
  · rw [if_pos ha]
    obtain ⟨r, l1, hm, hw1, hb1⟩ := C03_moveForward_total_wf S U s.line 1 hw
    have hg1 : l1.canGrow = true := ((Grow.moveForward S U 1).h _ _ _ _ hm).trans hg
    simp only [wp_bind]
    refine wp_lbQuiet hm ?_
    have t1 := rest { s with line := l1 } hw1 hg1 hla hb1
    simp only [wp_bind, wp_pure] at t1 ⊢
    exact t1
  · rw [if_neg ha]
    have t1 := rest s hw hg hla rfl
    simp only [wp_bind, wp_pure] at t1 ⊢
    exact t1

theorem wp_ringYankCount (n : Nat) (Q : Unit → Ed → Prop) (E : Outcome → Ed → Prop) (s : Ed) :
    wp (ringYankCount n) Q E s ↔ Q () { s with ring := s.ring.yankCount n } := Iff.rfl

/-- **after `Yank`** (emacs mode) the text the ring recorded stands right before the cursor; an empty ring
    pastes nothing and changes nothing -/
theorem popLocal_yank (hvi : cfg.vi = false) (n : Nat) (a : Anchor) (s : Ed) (h : RdInv cfg s) (hp : PopOK s) :
    wp (execute S U cfg (.yank n a)) (fun _ s' => PopOK s') (fun _ _ => True) s := by
  unfold execute
  simp only [wp_bind]
  unfold wp ringYank
  cases hy : s.ring.yank with
  | error e => trivial
  | ok r =>
    obtain ⟨k, ot⟩ := r
    simp only []
    unfold KillRing.yank at hy
    split at hy
    · cases hy
      show wp (pure Status.proceed) (fun _ s' => PopOK s') (fun _ _ => True) _
      rw [wp_pure]
      exact hp.of_eq rfl rfl
    · split at hy
      · cases hy
      · rename_i t _
        cases hy
        show wp (do ringYankCount n; editYank S U cfg t a n; pure Status.proceed) (fun _ s' => PopOK s')
          (fun _ _ => True) _
        rw [wp_bind, wp_ringYankCount, wp_bind]
        refine wp_mono (pop_editYank S U cfg hvi t a n (s := _) h.1.line h.2.1 ?_) ?_ (fun _ _ h => h)
        · rfl
        · intro _ s' hq
          rw [wp_pure]; exact hq

/-- `yank_pop` inside its contract on a growable line: it answers `some _`, and `text` stands right
    before the cursor afterwards -/
theorem yankPop_shape (k : Nat) (t : Text) (lb : LB) (h : WF lb) (hg : lb.canGrow = true)
    (hk : k ≤ lb.pos) (hb : IsBoundary lb.buf (lb.pos - k)) :
    ∃ r lb' ns, LB.yankPop S U k t lb = .ok (some r, lb', ns) ∧
      blen t ≤ lb'.pos ∧ IsBoundary lb'.buf (lb'.pos - blen t) := by
  obtain ⟨x, y, z, hd, hbuf, hx, _⟩ := drain_ok .forward hb h (Nat.sub_le _ _)
  have hng : ¬ k > lb.pos := by omega
  have hng2 : ¬ k > lb.len := by have := h.le_len; have : lb.len = blen lb.buf := rfl; omega
  have hmt : lb.mustTruncate (lb.len - k + blen t) = false := mustTruncate_of_canGrow hg _
  have hy := yank_eval S U t 1 ({ lb with buf := x ++ z, pos := lb.pos - k } : LB)
  rw [mustTruncate_of_canGrow (by exact hg), Bool.or_false] at hy
  by_cases ht : t.isEmpty = true
  · rw [if_pos ht] at hy
    refine ⟨false, { lb with buf := x ++ z, pos := lb.pos - k }, [.del (lb.pos - k) y .forward] ++ [], ?_, ?_, ?_⟩
    · unfold LB.yankPop
      simp [LM.bind_apply, LM.get, hng, hng2, hmt, hd, LM.setPos, hy]
    · have : t = [] := by simpa using ht
      subst this; exact Nat.zero_le _
    · have : t = [] := by simpa using ht
      subst this
      show IsBoundary (x ++ z) (lb.pos - k - 0)
      rw [Nat.sub_zero, hx]; exact isBoundary_mid x z
  · rw [if_neg ht] at hy
    have hsp : splitAtByte (x ++ z) (lb.pos - k) = some (x, z) := by rw [hx]; exact splitAtByte_append x z
    simp only [hsp] at hy
    have heq : LB.yankPop S U k t lb = .ok
        (some (lb.pos - k == ({ lb with buf := x ++ z, pos := lb.pos - k } : LB).len),
         { lb with buf := x ++ yankText t 1 ++ z, pos := lb.pos - k + blen t * 1,
                   cap := growCap lb.cap (blen (x ++ z) + blen t * 1) },
         [.del (lb.pos - k) y .forward] ++ [.insStr (lb.pos - k) (yankText t 1)]) := by
      unfold LB.yankPop
      simp [LM.bind_apply, LM.get, hng, hng2, hmt, hd, LM.setPos, hy]
    refine ⟨_, _, _, heq, ?_, ?_⟩
    · show blen t ≤ lb.pos - k + blen t * 1
      omega
    · show IsBoundary (x ++ yankText t 1 ++ z) (lb.pos - k + blen t * 1 - blen t)
      have : lb.pos - k + blen t * 1 - blen t = blen x := by omega
      rw [this]
      exact ⟨x, yankText t 1 ++ z, by simp, rfl⟩

/-- `edit_yank_pop` when the ring has just recorded `blen t` bytes for `t` and the previous paste (`size`
    bytes) stands before the cursor: afterwards `t` does -/
theorem pop_editYankPop (size : Nat) (t : Text) {s : Ed} (hw : WF s.line) (hg : s.line.canGrow = true)
    (hla : s.ring.lastAction = .yank (blen t)) (hk : size ≤ s.line.pos)
    (hb : IsBoundary s.line.buf (s.line.pos - size)) :
    wp (editYankPop S U cfg size t) (fun _ s' => PopOK s') (fun _ _ => True) s := by
  obtain ⟨r, l, ns, hy, h1, h2⟩ := yankPop_shape S U size t s.line hw hg hk hb
  unfold editYankPop
  simp only [wp_bind, wp_changesBegin]
  refine wp_lb S U (s := { s with changes := s.changes.begin.1 }) hy ?_
  simp only [wp_bind]
  refine wp_refreshLine S U cfg (fun s3 hc3 => ?_) (fun _ _ _ => trivial)
  simp only [wp_changesEnd, wp_pure]
  obtain ⟨l3, _, _, r3, _⟩ := Ed.core_eq hc3
  intro sz hsz
  have hsz' : s3.ring.lastAction = .yank sz := hsz
  rw [r3] at hsz'
  have e : Rl.KAction.yank (blen t) = .yank sz := by rw [← hla]; exact hsz'
  cases e
  show blen t ≤ s3.line.pos ∧ IsBoundary s3.line.buf (s3.line.pos - blen t)
  rw [l3]
  exact ⟨h1, h2⟩

/-- **after `YankPop`** the replacement stands right before the cursor (when the last action is not a
    yank, or the ring is empty, nothing changes) -/
theorem popLocal_pop (s : Ed) (h : RdInv cfg s) (hp : PopOK s) :
    wp (execute S U cfg .yankPop) (fun _ s' => PopOK s') (fun _ _ => True) s := by
  have he : execute S U cfg .yankPop = (do
      pure ()
      match ← ringYankPop with
      | some (size, text) => editYankPop S U cfg size text
      | none => pure ()
      pure .proceed) := rfl
  rw [he]
  simp only [wp_bind, wp_pure]
  unfold wp ringYankPop
  cases hy : s.ring.yankPop with
  | error e => trivial
  | ok r =>
    obtain ⟨k, ot⟩ := r
    simp only []
    have same : k = s.ring → ot = none →
        wp (match ot with
            | some (size, text) => do editYankPop S U cfg size text; pure Status.proceed
            | none => pure Status.proceed) (fun _ s' => PopOK s') (fun _ _ => True) { s with ring := k } := by
      intro hk ho
      subst hk; subst ho
      simp only [wp_pure]
      exact hp.of_eq rfl rfl
    unfold KillRing.yankPop at hy
    cases hla : s.ring.lastAction with
    | kill => rw [hla] at hy; cases hy; exact same rfl rfl
    | other => rw [hla] at hy; cases hy; exact same rfl rfl
    | yank sz =>
      rw [hla] at hy
      simp only [] at hy
      split at hy
      · cases hy; exact same rfl rfl
      · split at hy
        · cases hy
        · rename_i t _
          cases hy
          obtain ⟨hle, hb⟩ := hp sz hla
          show wp (do editYankPop S U cfg sz t; pure Status.proceed) (fun _ s' => PopOK s') (fun _ _ => True)
            { s with ring := { s.ring with yankIndex := _, lastAction := .yank (blen t) } }
          rw [wp_bind]
          refine wp_mono (pop_editYankPop S U cfg sz t h.1.line h.2.1 rfl hle hb) ?_ (fun _ _ h => h)
          intro _ s' hq
          rw [wp_pure]; exact hq

/-! ### `Kill` -/

theorem kill_lastAction {k k' : KillRing} {t : Text} {d : KMode} (h : k.kill t d = .ok k') :
    k'.lastAction = .kill := by
  unfold KillRing.kill at h
  split at h
  · rename_i hk
    have hk' : k.lastAction = .kill := by simpa using hk
    split at h
    · cases h; exact hk'
    · split at h
      · cases h
      · cases h; exact hk'
  · simp only [] at h
    repeat' split at h
    all_goals first | (cases h; rfl) | (cases h)

/-- a notification leaves the ring's last action alone or sets it to Kill -/
theorem ringNotif_lastAction {k k' : KillRing} {n : Notif} (h : ringNotif k n = .ok k') :
    k'.lastAction = k.lastAction ∨ k'.lastAction = .kill := by
  cases n <;> simp only [ringNotif] at h
  case startKill => cases h; exact Or.inl rfl
  case stopKill => cases h; exact Or.inl rfl
  case del a t d =>
    unfold KillRing.onDelete at h
    split at h
    · cases h; exact Or.inl rfl
    · cases d with
      | forward => exact Or.inr (kill_lastAction h)
      | backward => exact Or.inr (kill_lastAction h)
      | around m =>
        simp only [] at h
        split at h
        · cases h
        · rename_i k1 h1
          have e1 : k1.lastAction = k.lastAction ∨ k1.lastAction = .kill := by
            split at h1
            · cases h1; exact Or.inl rfl
            · exact Or.inr (kill_lastAction h1)
          split at h
          · cases h; exact e1
          · exact Or.inr (kill_lastAction h)
  all_goals (cases h; exact Or.inl rfl)

/-- **no kill sets the last action to Yank**: the fan-out of a line-buffer operation's notifications
    to the ring leaves the last action alone or sets it to Kill -/
theorem lbKill_go_lastAction : ∀ (ns : List Notif) {k k' : KillRing}, lbKill.go ns k = .ok k' →
    k'.lastAction = k.lastAction ∨ k'.lastAction = .kill := by
  intro ns
  induction ns with
  | nil => intro k k' h; unfold lbKill.go at h; cases h; exact Or.inl rfl
  | cons n rest ih =>
    intro k k' h
    unfold lbKill.go at h
    cases h1 : ringNotif k n with
    | error e => rw [h1] at h; cases h
    | ok k1 =>
      rw [h1] at h
      rcases ih h with e | e
      · rcases ringNotif_lastAction h1 with e1 | e1
        · exact Or.inl (e.trans e1)
        · exact Or.inr (e.trans e1)
      · exact Or.inr e

/-- the one fact about `LineBuffer::kill` and the ring that is NOT proved here: a kill of a movement other
    than the two character movements (those are bracketed by `start_killing` / `stop_killing`) that
    answers `true` has reported a deletion to the ring while killing, so the last action is Kill -/
def KillTrueKills (S : Segmenter) (U : UData) : Prop :=
  ∀ (m : Movement) (lb lb' : LB) (ns : List Notif) (k k' : KillRing),
    (∀ n, m ≠ .backwardChar n) → (∀ n, m ≠ .forwardChar n) → WF lb →
    LB.kill S U m lb = .ok (true, lb', ns) → lbKill.go ns k = .ok k' → k'.lastAction = .kill

/-- **a `Kill` run from `PopPre` leaves `PopOK`** (emacs mode): the two character kills run after a reset
    and no kill sets the last action to Yank; any other kill that answers `false` leaves line and cursor
    alone (`faithful_kill`), and one that answers `true` sets the last action to Kill (`KillTrueKills`) -/
theorem popLocal_kill (hK : KillTrueKills S U) (hvi : cfg.vi = false) (m : Movement) (s : Ed) (h : RdInv cfg s)
    (hp : PopPre cfg (.kill m) s) :
    wp (execute S U cfg (.kill m)) (fun _ s' => PopOK s') (fun _ _ => True) s := by
  obtain ⟨hpo, hres⟩ := hp hvi
  have he : execute S U cfg (.kill m) = (do editKill S U cfg m; pure .proceed) := by
    cases m <;> rfl
  rw [he]
  unfold editKill
  simp only [wp_bind, wp_pure]
  unfold wp lbKill
  cases ho : LB.kill S U m s.line with
  | error e => trivial
  | ok r3 =>
    obtain ⟨r, l, ns⟩ := r3
    simp only []
    cases hgo : lbKill.go ns s.ring with
    | error e => trivial
    | ok k =>
      simp only []
      -- the state after the kill satisfies `PopOK`
      have hpost : PopOK ({ s with line := l, changes := s.changes.onNotifs S U.alnum ns, ring := k } : Ed) := by
        intro size hsz
        have hsz' : k.lastAction = .yank size := hsz
        rcases lbKill_go_lastAction ns hgo with e | e
        · -- the last action was already that yank: not after a reset, so not a character kill
          have hy : s.ring.lastAction = .yank size := by rw [← e]; exact hsz'
          have hnb : ∀ n, m ≠ .backwardChar n := by
            intro n hm; subst hm; exact (hres rfl) size hy
          have hnf : ∀ n, m ≠ .forwardChar n := by
            intro n hm; subst hm; exact (hres rfl) size hy
          cases r with
          | true =>
            have := hK m s.line l ns s.ring k hnb hnf h.1.line ho hgo
            rw [this] at hsz'; cases hsz'
          | false =>
            obtain ⟨e1, e2⟩ := faithful_kill S U m s.line false l ns h.1.line ho rfl
            show size ≤ l.pos ∧ IsBoundary l.buf (l.pos - size)
            rw [e1, e2]; exact hpo size hy
        · rw [e] at hsz'; cases hsz'
      cases r with
      | false =>
        show wp (pure ()) (fun _ s' => PopOK s') (fun _ _ => True) _
        rw [wp_pure]; exact hpost
      | true =>
        show wp (refreshLine S U cfg) (fun _ s' => PopOK s') (fun _ _ => True) _
        refine wp_refreshLine S U cfg (fun s3 hc3 => ?_) (fun _ _ _ => trivial)
        exact hpost.of_eq (Ed.core_eq hc3).1 (Ed.core_eq hc3).2.2.2.1

/-! ### the ring-level half of `KillTrueKills` -/

theorem kill_killing {k k' : KillRing} {t : Text} {d : KMode} (h : k.kill t d = .ok k') :
    k'.killing = k.killing := by
  unfold KillRing.kill at h
  simp only [] at h
  repeat' split at h
  all_goals first | (cases h; rfl) | (cases h)

theorem cutBytes_append (t : Text) (n : Nat) : (KillRing.cutBytes t n).1 ++ (KillRing.cutBytes t n).2 = t := by
  induction t generalizing n with
  | nil => rfl
  | cons c t ih =>
    unfold KillRing.cutBytes
    split
    · rfl
    · simp only [List.cons_append]; rw [ih]

/-- a deletion the ring takes up while killing: forward, backward, or around the cursor with some text -/
def HardDel : Notif → Prop
  | .del _ t d => match d with | .around _ => t ≠ [] | _ => True
  | _ => False

/-- while killing, such a deletion sets the last action to Kill -/
theorem ringNotif_hard {k k' : KillRing} {n : Notif} (hk : k.killing = true) (hn : HardDel n)
    (h : ringNotif k n = .ok k') : k'.lastAction = .kill := by
  cases n <;> simp only [HardDel] at hn
  case del a t d =>
    simp only [ringNotif] at h
    unfold KillRing.onDelete at h
    rw [hk] at h
    simp only [Bool.not_true, Bool.false_eq_true, if_false] at h
    cases d with
    | forward => exact kill_lastAction h
    | backward => exact kill_lastAction h
    | around m =>
      simp only [] at h hn
      have hc := cutBytes_append t m
      split at h
      · cases h
      · rename_i k1 h1
        split at h
        · -- nothing behind the cursor: the part before it is not empty
          rename_i ha
          cases h
          split at h1
          · rename_i hb
            exfalso
            have e1 : (KillRing.cutBytes t m).1 = [] := by simpa using hb
            have e2 : (KillRing.cutBytes t m).2 = [] := by simpa using ha
            rw [e1, e2] at hc
            exact hn hc.symm
          · exact kill_lastAction h1
        · exact kill_lastAction h

theorem ringNotif_killing {k k' : KillRing} {n : Notif} (hk : k.killing = true) (hn : n ≠ .stopKill)
    (h : ringNotif k n = .ok k') : k'.killing = true := by
  cases n <;> simp only [ringNotif] at h
  case startKill => cases h; rfl
  case stopKill => exact absurd rfl hn
  case del a t d =>
    unfold KillRing.onDelete at h
    rw [hk] at h
    simp only [Bool.not_true, Bool.false_eq_true, if_false] at h
    cases d with
    | forward => rw [kill_killing h]; exact hk
    | backward => rw [kill_killing h]; exact hk
    | around m =>
      simp only [] at h
      split at h
      · cases h
      · rename_i k1 h1
        have e1 : k1.killing = true := by
          split at h1
          · cases h1; exact hk
          · rw [kill_killing h1]; exact hk
        split at h
        · cases h; exact e1
        · rw [kill_killing h]; exact e1
  all_goals (cases h; exact hk)

theorem lbKill_go_mid : ∀ (mid : List Notif) {k k' : KillRing}, k.killing = true → (∀ n ∈ mid, n ≠ .stopKill) →
    lbKill.go mid k = .ok k' →
    k'.killing = true ∧ ((k.lastAction = .kill ∨ ∃ n ∈ mid, HardDel n) → k'.lastAction = .kill) := by
  intro mid
  induction mid with
  | nil =>
    intro k k' hk _ h
    unfold lbKill.go at h; cases h
    exact ⟨hk, fun hh => hh.elim id (fun ⟨n, hm, _⟩ => by cases hm)⟩
  | cons n rest ih =>
    intro k k' hk hns h
    unfold lbKill.go at h
    cases h1 : ringNotif k n with
    | error e => rw [h1] at h; cases h
    | ok k1 =>
      rw [h1] at h
      have hk1 := ringNotif_killing hk (hns n (List.mem_cons_self ..)) h1
      obtain ⟨r1, r2⟩ := ih hk1 (fun m hm => hns m (List.mem_cons_of_mem _ hm)) h
      refine ⟨r1, fun hh => r2 ?_⟩
      rcases hh with hh | ⟨m, hm, hd⟩
      · rcases ringNotif_lastAction h1 with e | e
        · exact Or.inl (e.trans hh)
        · exact Or.inl e
      · rcases List.mem_cons.mp hm with rfl | hm'
        · exact Or.inl (ringNotif_hard hk hd h1)
        · exact Or.inr ⟨m, hm', hd⟩

theorem lbKill_go_nil (k : KillRing) : lbKill.go [] k = .ok k := by unfold lbKill.go; rfl

theorem lbKill_go_cons (n : Notif) (rest : List Notif) (k : KillRing) :
    lbKill.go (n :: rest) k = (match ringNotif k n with | .ok k' => lbKill.go rest k' | .error e => .error e) := by
  conv => lhs; unfold lbKill.go
  rfl

theorem lbKill_go_append : ∀ (a b : List Notif) (k : KillRing),
    lbKill.go (a ++ b) k = (match lbKill.go a k with | .ok k1 => lbKill.go b k1 | .error e => .error e) := by
  intro a
  induction a with
  | nil => intro b k; rw [lbKill_go_nil]; rfl
  | cons n rest ih =>
    intro b k
    rw [List.cons_append, lbKill_go_cons, lbKill_go_cons]
    cases ringNotif k n with
    | error e => rfl
    | ok k1 => exact ih b k1

/-- a notification stream bracketed by `start_killing` / `stop_killing` that contains a deletion the ring takes
    up leaves the last action = Kill -/
theorem lbKill_go_bracket (mid : List Notif) {k k' : KillRing} (hns : ∀ n ∈ mid, n ≠ .stopKill)
    (hh : ∃ n ∈ mid, HardDel n) (h : lbKill.go (.startKill :: (mid ++ [.stopKill])) k = .ok k') :
    k'.lastAction = .kill := by
  unfold lbKill.go at h
  simp only [ringNotif] at h
  rw [lbKill_go_append] at h
  cases h1 : lbKill.go mid k.startKilling with
  | error e => rw [h1] at h; cases h
  | ok k1 =>
    rw [h1] at h
    simp only [] at h
    obtain ⟨_, r2⟩ := lbKill_go_mid mid (k := k.startKilling) rfl hns h1
    unfold lbKill.go at h
    simp only [ringNotif] at h
    unfold lbKill.go at h
    cases h
    exact r2 (Or.inr hh)

/-- what is left of `KillTrueKills`, about `LineBuffer::kill` alone: for a movement other than the two character
    movements the answer `true` comes with notifications bracketed by `start_killing` / `stop_killing` among
    which there is a deletion the ring takes up -/
def KillReports (S : Segmenter) (U : UData) : Prop :=
  ∀ (m : Movement) (lb lb' : LB) (ns : List Notif),
    (∀ n, m ≠ .backwardChar n) → (∀ n, m ≠ .forwardChar n) → WF lb →
    LB.kill S U m lb = .ok (true, lb', ns) →
    ∃ mid, ns = .startKill :: (mid ++ [.stopKill]) ∧ (∀ n ∈ mid, n ≠ .stopKill) ∧ ∃ n ∈ mid, HardDel n

theorem killTrueKills_of_reports (h : KillReports S U) : KillTrueKills S U := by
  intro m lb lb' ns k k' h1 h2 hw hk hgo
  obtain ⟨mid, rfl, hns, hh⟩ := h m lb lb' ns h1 h2 hw hk
  exact lbKill_go_bracket mid hns hh hgo

end
end Rl
