/-
  Helper lemmas for C15: what `filename_complete` puts into a candidate (the replacement is the
  escape of the WHOLE path: directory part, entry name, separator for a directory), and how the
  escape function treats the trailing separator.
-/
import Rl.Completion
import Rl.Lemmas.Completion
namespace Rl.Completion

/-- the directory key `filename_complete` looks up for a path -/
def dirKey (path : Text) : Text := ((components (splitPath path).1).intersperse ['/']).flatten

/-- every candidate of `filename_complete` comes from an entry of the addressed directory whose
    name starts with the typed file-name part; its display is the name and its replacement the
    escape of (directory part as typed ++ name ++ separator if it is a directory) -/
theorem filenameComplete_mem (fs : Listing) (path : Text) (esc : Option Char) (brk : Char → Bool)
    (q : Quote) (ms : List (Text × Text)) (h : filenameComplete fs path esc brk q = some ms)
    (d r : Text) (hm : (d, r) ∈ ms) :
    ∃ e ∈ fs, e.name = d ∧ (splitPath path).2 <+: d ∧ e.dir = dirKey path ∧
      r = escape esc brk q ((splitPath path).1 ++ d ++ (if e.isDir then ['/'] else [])) := by
  unfold filenameComplete at h
  unfold dirKey
  generalize splitPath path = sp at h ⊢
  obtain ⟨dn, fname⟩ := sp
  simp only at h ⊢
  split at h
  · cases h
  · split at h
    · simp only [Option.some.injEq] at h
      subst h; cases hm
    · simp only [Option.some.injEq] at h
      subst h
      obtain ⟨en, hen, heq⟩ := List.mem_map.mp hm
      simp only [Prod.mk.injEq] at heq
      obtain ⟨hn, hr⟩ := heq
      have hf := List.mem_filter.mp hen
      simp only [Bool.and_eq_true, beq_iff_eq] at hf
      subst hn
      exact ⟨en, hf.1, rfl, List.isPrefixOf_iff_prefix.mp hf.2.2, hf.2.1, hr.symm⟩

/-- conversely: when the addressed directory exists in the listing, every entry of it whose name
    starts with the typed file-name part is a candidate -/
theorem filenameComplete_complete (fs : Listing) (path : Text) (esc : Option Char) (brk : Char → Bool)
    (q : Quote) (ms : List (Text × Text)) (h : filenameComplete fs path esc brk q = some ms)
    (hex : (dirKey path).isEmpty = true ∨ ∃ e ∈ fs, e.isDir = true ∧ e.full = dirKey path)
    (e : Entry) (he : e ∈ fs) (hdir : e.dir = dirKey path) (hp : (splitPath path).2 <+: e.name) :
    (e.name, escape esc brk q ((splitPath path).1 ++ e.name ++ (if e.isDir then ['/'] else []))) ∈ ms := by
  unfold filenameComplete at h
  unfold dirKey at hex hdir
  generalize splitPath path = sp at h hex hdir hp
  obtain ⟨dn, fname⟩ := sp
  simp only at h hex hdir hp
  split at h
  · cases h
  · split at h
    · rename_i hne
      exfalso
      rcases hex with h0 | ⟨e', he', hd', hf'⟩
      · simp [h0] at hne
      · have : fs.any (fun e => e.isDir && e.full == ((components dn).intersperse ['/']).flatten) = true :=
          List.any_eq_true.mpr ⟨e', he', by simp [hd', hf']⟩
        simp [this] at hne
    · simp only [Option.some.injEq] at h
      subst h
      apply List.mem_map.mpr
      refine ⟨e, List.mem_filter.mpr ⟨he, ?_⟩, rfl⟩
      simp only [Bool.and_eq_true, beq_iff_eq]
      exact ⟨hdir, List.isPrefixOf_iff_prefix.mpr hp⟩

/-- the separator appended to a directory candidate is not a break character, so it is copied:
    the replacement of a directory is the replacement of its name followed by the separator -/
theorem escape_append_sep (esc : Option Char) (brk : Char → Bool) (q : Quote)
    (hs : brk '/' = false) (x : Text) :
    escape esc brk q (x ++ ['/']) = escape esc brk q x ++ ['/'] := by
  unfold escape
  simp only [List.filter_append, List.filter_cons, hs, List.filter_nil, List.append_nil,
    Bool.false_eq_true, if_false]
  split
  · rfl
  · split
    · rfl
    · cases esc with
      | none => rfl
      | some e => simp [List.flatMap_append, escChar, hs]

/-! ### completing inside a directory candidate -/

def compGo (acc : List Text × Text) (c : Char) : List Text × Text :=
  if c = '/' then (if acc.2.isEmpty then acc.1 else acc.1 ++ [acc.2], []) else (acc.1, acc.2 ++ [c])
def compFin (r : List Text × Text) : List Text := if r.2.isEmpty then r.1 else r.1 ++ [r.2]

theorem components_eq (t : Text) : components t = compFin (t.foldl compGo ([], [])) := by
  cases t with
  | nil => rfl
  | cons a t => rfl

theorem compGo_foldl_noSep (d : Text) (hd : '/' ∉ d) (cs : List Text) (w : Text) :
    d.foldl compGo (cs, w) = (cs, w ++ d) := by
  induction d generalizing w with
  | nil => simp
  | cons a t ih =>
    have ha : a ≠ '/' := fun h => hd (by simp [h])
    have ht : '/' ∉ t := fun h => hd (List.mem_cons_of_mem _ h)
    simp only [List.foldl_cons, compGo, if_neg ha]
    rw [ih ht]; simp

/-- a directory part: empty or ending in the separator -/
def DirPart (dn : Text) : Prop := dn = [] ∨ ∃ dn', dn = dn' ++ ['/']

theorem dirPart_splitPath (path : Text) : DirPart (splitPath path).1 := by
  obtain ⟨R, hR, hT⟩ := splitPath_fst_rev path
  rw [hR]
  cases R with
  | nil => exact Or.inl rfl
  | cons x xs =>
    right
    refine ⟨xs.reverse, ?_⟩
    have : x = '/' := by
      by_cases hx : x = '/'
      · exact hx
      · simp [List.takeWhile, hx] at hT
    simp [this]

theorem compGo_foldl_dirPart (dn : Text) (h : DirPart dn) :
    dn.foldl compGo ([], []) = (components dn, []) := by
  rcases h with rfl | ⟨dn', rfl⟩
  · rfl
  · rw [components_eq]
    simp only [List.foldl_append, List.foldl_cons, List.foldl_nil]
    simp [compGo, compFin]

theorem components_dir_append (dn d : Text) (h : DirPart dn) (hd : '/' ∉ d) (hne : d ≠ []) :
    components (dn ++ d ++ ['/']) = components dn ++ [d] := by
  rw [components_eq]
  simp only [List.foldl_append, compGo_foldl_dirPart dn h, compGo_foldl_noSep d hd, List.foldl_cons,
    List.foldl_nil, List.nil_append]
  simp [compGo, compFin, hne]

theorem compGo_foldl_ne (t : Text) (acc : List Text × Text) (h : ∀ c ∈ acc.1, c ≠ []) :
    ∀ c ∈ (t.foldl compGo acc).1, c ≠ [] := by
  induction t generalizing acc with
  | nil => simpa using h
  | cons a t ih =>
    simp only [List.foldl_cons]
    apply ih
    unfold compGo
    split
    · split
      · exact h
      · rename_i hne
        intro c hc
        simp only [List.mem_append, List.mem_singleton] at hc
        rcases hc with hc | rfl
        · exact h c hc
        · simpa using hne
    · exact h

theorem components_ne (t : Text) : ∀ c ∈ components t, c ≠ [] := by
  rw [components_eq]
  have := compGo_foldl_ne t ([], []) (by simp)
  unfold compFin
  split
  · exact this
  · rename_i hne
    intro c hc
    simp only [List.mem_append, List.mem_singleton] at hc
    rcases hc with hc | rfl
    · exact this c hc
    · simpa using hne

theorem flatten_intersperse_snoc (s : Text) (l : List Text) (hl : l ≠ []) (d : Text) :
    ((l ++ [d]).intersperse s).flatten = (l.intersperse s).flatten ++ s ++ d := by
  induction l with
  | nil => exact absurd rfl hl
  | cons a t ih =>
    cases t with
    | nil => simp [List.intersperse]
    | cons b t =>
      have := ih (by simp)
      simp only [List.cons_append, List.intersperse_cons_cons, List.flatten_cons] at this ⊢
      rw [this]; simp

theorem flatten_intersperse_ne (s : Text) (l : List Text) (hl : l ≠ []) (h : ∀ c ∈ l, c ≠ []) :
    (l.intersperse s).flatten ≠ [] := by
  cases l with
  | nil => exact absurd rfl hl
  | cons a t =>
    have ha : a ≠ [] := h a (by simp)
    cases t <;> simp [List.intersperse, ha]

/-- the key of the directory `d` inside the directory addressed by `dn` is the full path of the
    entry `d` -/
theorem dirKey_into (dn d : Text) (h : DirPart dn) (hd : '/' ∉ d) (hne : d ≠ []) :
    ((components (dn ++ d ++ ['/'])).intersperse ['/']).flatten
      = Entry.full ⟨((components dn).intersperse ['/']).flatten, d, true⟩ := by
  rw [components_dir_append dn d h hd hne]
  unfold Entry.full
  by_cases hc : components dn = []
  · simp [hc, List.intersperse]
  · rw [flatten_intersperse_snoc _ _ hc]
    have := flatten_intersperse_ne ['/'] _ hc (components_ne dn)
    simp [this]

theorem splitPath_dir (x : Text) : splitPath (x ++ ['/']) = (x ++ ['/'], []) := by
  simp only [splitPath, List.reverse_append, List.reverse_cons, List.reverse_nil, List.nil_append,
    List.singleton_append, List.takeWhile, ne_eq, not_true_eq_false, decide_false, List.length_nil,
    Nat.sub_zero, List.reverse_nil, Prod.mk.injEq, and_true]
  exact List.take_of_length_le (by simp)

/-- completing from (directory part ++ name of a directory candidate ++ separator) lists exactly
    the entries of that directory, each replacement extending the typed path -/
theorem filenameComplete_into_dir (fs : Listing) (path : Text) (esc : Option Char) (brk : Char → Bool)
    (q : Quote) (ms : List (Text × Text)) (h : filenameComplete fs path esc brk q = some ms)
    (e : Entry) (he : e ∈ fs) (hdir : e.dir = dirKey path) (hisd : e.isDir = true)
    (hne : e.name ≠ []) (hd : '/' ∉ e.name)
    (hdot : e.name ≠ ['.'] ∧ e.name ≠ ['.', '.'] ∧ e.name ≠ ['~']) :
    filenameComplete fs ((splitPath path).1 ++ e.name ++ ['/']) esc brk q =
      some ((fs.filter (fun e' => e'.dir == e.full)).map (fun e' =>
        (e'.name, escape esc brk q ((splitPath path).1 ++ e.name ++ ['/'] ++ e'.name
            ++ (if e'.isDir then ['/'] else []))))) := by
  have hdp := dirPart_splitPath path
  have hkey := dirKey_into (splitPath path).1 e.name hdp hd hne
  have hcomp := components_dir_append (splitPath path).1 e.name hdp hd hne
  have hfull : e.full = Entry.full ⟨dirKey path, e.name, true⟩ := by
    unfold Entry.full; rw [hdir]
  unfold dirKey at hfull
  unfold filenameComplete at h ⊢
  rw [splitPath_dir]
  generalize splitPath path = sp at *
  obtain ⟨dn, fname⟩ := sp
  simp only at *
  split at h
  · cases h
  · rename_i hcond
    have hcond' : ¬ ((dn ++ e.name ++ ['/']).head? = some '/' ∨
        (components (dn ++ e.name ++ ['/'])).any (fun c => c = ['.'] ∨ c = ['.', '.'] ∨ c = ['~']) = true) := by
      rw [hcomp]
      intro hh
      rcases hh with h1 | h2
      · cases dn with
        | nil =>
          cases hn : e.name with
          | nil => exact hne hn
          | cons c t =>
            rw [hn] at h1 hd
            simp at h1
            exact hd (by simp [h1])
        | cons a t => exact hcond (Or.inl (by simpa using h1))
      · rw [List.any_append] at h2
        simp only [Bool.or_eq_true] at h2
        rcases h2 with h2 | h2
        · exact hcond (Or.inr h2)
        · simp [hdot.1, hdot.2.1, hdot.2.2] at h2
    rw [if_neg hcond', hkey, ← hfull]
    have hex : (e.full.isEmpty || fs.any (fun e' => e'.isDir && e'.full == e.full)) = true := by
      have : fs.any (fun e' => e'.isDir && e'.full == e.full) = true :=
        List.any_eq_true.mpr ⟨e, he, by simp [hisd]⟩
      simp [this]
    simp [hex]

end Rl.Completion
