/-
  C01, vi modes: the README tables of vi command mode and vi insert mode against the model's
  `viCommand` / `viInsert` (chunk lemmas; the property theorems in Rl/Props/C01.lean assemble them),
  and the movement `viCmdMotion` builds for an operator (`d` / `c` / `y` + [count] motion).
  Kept in a file of its own so that it compiles in parallel with the emacs tables.
-/
import Rl.Editor
import Rl.Spec.Doc
import Rl.Lemmas.Keymap
import Rl.Lemmas.EditorM
import Rl.Lemmas.EditorFrame
set_option linter.unusedSimpArgs false
set_option linter.unusedVariables false
namespace Rl
open Rl.Spec Rl.Spec.Doc

set_option hygiene false in
/-- one entry of a vi command-mode table: evaluate `viCommand` on the concrete key -/
macro "vi_command_entry" : tactic => `(tactic| (
    first
    | (simp [DocAction.resolve, DocMove.toMovement, Doc.Act.toCmd] at hc <;>
       (try subst hc) <;>
       simp [viCommand, common, EM.bind_read, EM.bind_apply, EM.pure_apply, hna, customBinding, hb, termBinding, ctrl, plain, key,
         dirMove, lineEmpty, setInputMode, doingInsert, changesBegin, setLastCmd, EM.modify, Cmd.isRepeatableChange]; done)
    | (cases hem : s.line.buf.isEmpty <;>
       simp [DocAction.resolve, DocMove.toMovement, Doc.Act.toCmd, hem] at hc <;>
       (try subst hc) <;>
       simp [viCommand, common, EM.bind_read, EM.bind_apply, EM.pure_apply, hna, customBinding, hb, termBinding, ctrl, plain, key,
         dirMove, lineEmpty, setInputMode, doingInsert, changesBegin, setLastCmd, EM.modify, Cmd.isRepeatableChange, hem] <;> simp_all; done)
    | (by_cases hn1 : n = 1 <;>
       simp [DocAction.resolve, DocMove.toMovement, Doc.Act.toCmd, hn1] at hc <;>
       (try subst hc) <;>
       simp [viCommand, common, EM.bind_read, EM.bind_apply, EM.pure_apply, hna, customBinding, hb, termBinding, ctrl, plain, key,
         dirMove, lineEmpty, setInputMode, doingInsert, changesBegin, setLastCmd, EM.modify, Cmd.isRepeatableChange])))

set_option maxHeartbeats 1600000 in
/-- vi command mode, entries 1–16 of the mode's own table -/
theorem viCommand_table_1 (S : Segmenter) (U : UData) (cfg : EdCfg) (hb : cfg.binds = [])
    (fuel : Nat) (s : Ed) (h0 : 0 ≤ s.inp.numArgs) (e : KeyEvent × DocAction) (he : e ∈ viCommandTable.take 16) (cmd : Cmd)
    (hc : (e.2.resolve (countOf s.inp.numArgs).1 true s.line.buf.isEmpty true).toCmd = some cmd) :
    ∃ s', viCommand S U cfg fuel e.1 s = .ok (cmd, s') ∧ s'.line = s.line := by
  obtain ⟨k, a⟩ := e
  simp [viCommandTable, commonTable] at he
  have hna := viNumArgs_eq s h0
  generalize (countOf s.inp.numArgs).1 = n at hc hna
  rcases he with he | he | he | he | he | he | he | he | he | he | he | he | he | he | he | he
  all_goals (
    obtain ⟨rfl, rfl⟩ := he
    simp only [] at hc ⊢
    vi_command_entry)

set_option maxHeartbeats 1600000 in
/-- vi command mode, entries 17–32 -/
theorem viCommand_table_2 (S : Segmenter) (U : UData) (cfg : EdCfg) (hb : cfg.binds = [])
    (fuel : Nat) (s : Ed) (h0 : 0 ≤ s.inp.numArgs) (e : KeyEvent × DocAction) (he : e ∈ (viCommandTable.drop 16).take 16) (cmd : Cmd)
    (hc : (e.2.resolve (countOf s.inp.numArgs).1 true s.line.buf.isEmpty true).toCmd = some cmd) :
    ∃ s', viCommand S U cfg fuel e.1 s = .ok (cmd, s') ∧ s'.line = s.line := by
  obtain ⟨k, a⟩ := e
  simp [viCommandTable, commonTable] at he
  have hna := viNumArgs_eq s h0
  generalize (countOf s.inp.numArgs).1 = n at hc hna
  rcases he with he | he | he | he | he | he | he | he | he | he | he | he | he | he | he | he
  all_goals (
    obtain ⟨rfl, rfl⟩ := he
    simp only [] at hc ⊢
    vi_command_entry)

set_option maxHeartbeats 1600000 in
/-- vi command mode, entries 33–48 -/
theorem viCommand_table_3 (S : Segmenter) (U : UData) (cfg : EdCfg) (hb : cfg.binds = [])
    (fuel : Nat) (s : Ed) (h0 : 0 ≤ s.inp.numArgs) (e : KeyEvent × DocAction) (he : e ∈ viCommandTable.drop 32) (cmd : Cmd)
    (hc : (e.2.resolve (countOf s.inp.numArgs).1 true s.line.buf.isEmpty true).toCmd = some cmd) :
    ∃ s', viCommand S U cfg fuel e.1 s = .ok (cmd, s') ∧ s'.line = s.line := by
  obtain ⟨k, a⟩ := e
  simp [viCommandTable, commonTable] at he
  have hna := viNumArgs_eq s h0
  generalize (countOf s.inp.numArgs).1 = n at hc hna
  rcases he with he | he | he | he | he | he | he | he | he | he | he | he | he | he | he | he
  all_goals (
    obtain ⟨rfl, rfl⟩ := he
    simp only [] at hc ⊢
    vi_command_entry)

set_option maxHeartbeats 1600000 in
/-- vi command mode, the "For all modes" table -/
theorem viCommand_table_common (S : Segmenter) (U : UData) (cfg : EdCfg) (hb : cfg.binds = [])
    (fuel : Nat) (s : Ed) (h0 : 0 ≤ s.inp.numArgs) (e : KeyEvent × DocAction) (he : e ∈ commonTable) (cmd : Cmd)
    (hc : (e.2.resolve (countOf s.inp.numArgs).1 true s.line.buf.isEmpty true).toCmd = some cmd) :
    ∃ s', viCommand S U cfg fuel e.1 s = .ok (cmd, s') ∧ s'.line = s.line := by
  obtain ⟨k, a⟩ := e
  simp [viCommandTable, commonTable] at he
  have hna := viNumArgs_eq s h0
  generalize (countOf s.inp.numArgs).1 = n at hc hna
  rcases he with he | he | he | he | he | he | he | he | he | he | he | he | he | he | he | he | he | he | he | he
  all_goals (
    obtain ⟨rfl, rfl⟩ := he
    simp only [] at hc ⊢
    vi_command_entry)

theorem viCommandTable_split :
    viCommandTable = viCommandTable.take 16 ++ ((viCommandTable.drop 16).take 16 ++ viCommandTable.drop 32) := by
  simp [viCommandTable]

set_option hygiene false in
/-- one entry of a vi insert-mode table: evaluate `viInsert` on the concrete key -/
macro "vi_insert_entry" : tactic => `(tactic| (
    first
    | (simp [DocAction.resolve, DocMove.toMovement, Doc.Act.toCmd] at hc <;>
       (try subst hc) <;>
       simp [viInsert, common, EM.bind_read, EM.bind_apply, EM.pure_apply, customBinding, hb, termBinding, ctrl, plain, key,
         dirMove, lineEmpty, hasHint, cursorAtEnd, setInputMode, doneInserting, changesEnd, getLastCmd, setLastCmd, EM.modify,
         Cmd.isRepeatableChange]; done)
    | (cases hem : s.line.buf.isEmpty <;>
       simp [DocAction.resolve, DocMove.toMovement, Doc.Act.toCmd, hem] at hc <;>
       (try subst hc) <;>
       simp [viInsert, common, EM.bind_read, EM.bind_apply, EM.pure_apply, customBinding, hb, termBinding, ctrl, plain, key,
         dirMove, lineEmpty, hasHint, cursorAtEnd, setInputMode, doneInserting, changesEnd, getLastCmd, setLastCmd, EM.modify,
         Cmd.isRepeatableChange, hem] <;> simp_all; done)
    | (by_cases hh : (s.hint.isSome = true ∧ s.line.pos = blen s.line.buf) <;>
       simp [DocAction.resolve, DocMove.toMovement, Doc.Act.toCmd] at hc <;>
       (try subst hc) <;>
       simp [viInsert, common, EM.bind_read, EM.bind_apply, EM.pure_apply, customBinding, hb, termBinding, ctrl, plain, key,
         dirMove, lineEmpty, hasHint, cursorAtEnd, setInputMode, doneInserting, changesEnd, getLastCmd, setLastCmd, EM.modify,
         Cmd.isRepeatableChange, hh] <;> simp_all)))

set_option maxHeartbeats 1600000 in
/-- vi insert mode: the mode's own table and the "For all modes" table -/
theorem viInsert_table (S : Segmenter) (U : UData) (cfg : EdCfg) (hb : cfg.binds = [])
    (fuel : Nat) (s : Ed) (e : KeyEvent × DocAction) (he : e ∈ viInsertTable ++ commonTable) (cmd : Cmd)
    (hc : (e.2.resolve 1 true s.line.buf.isEmpty true).toCmd = some cmd)
    (hr : ¬ (e.1 = key .right ∧ s.hint.isSome = true ∧ s.line.pos = blen s.line.buf)) :
    ∃ s', viInsert S U cfg fuel e.1 s = .ok (cmd, s') ∧ s'.line = s.line := by
  obtain ⟨k, a⟩ := e
  simp [viInsertTable, commonTable] at he
  rcases he with he | he | he | he | he | he | he | he | he | he | he | he | he | he | he | he | he | he | he | he | he | he | he | he | he
  all_goals (
    obtain ⟨rfl, rfl⟩ := he
    simp only [] at hc hr ⊢
    vi_insert_entry)

/-! ### operator + motion -/

/-- the movement the documentation gives an operator for a motion-table entry: count `n`
    (count before the operator × count before the motion), `isChange` for `c` (`cw` = `ce`),
    the last character search (for `;` `,`) and the character typed after `f t F T` -/
def docMotion (a : DocAction) (n : Nat) (isChange : Bool) (last : Option CharSearch) (ch : Option Char) :
    Option Movement :=
  match a with
  | .move dm => operatorMovement dm n isChange
  | .charSearch kind => ch.map (fun c => .viCharSearch n (charSearchOf kind c))
  | .repeatSearch opp => last.map (fun cs => .viCharSearch n (if opp then cs.opposite else cs))
  | _ => none

def isOperatorKey (k : KeyEvent) : Prop := k = plain 'd' ∨ k = plain 'c' ∨ k = plain 'y'

set_option maxHeartbeats 1600000 in
/-- no count before the motion, motion key without argument -/
theorem viCmdMotion_plain (S : Segmenter) (U : UData) (cfg : EdCfg) (fuel : Nat) (op : KeyEvent) (hop : isOperatorKey op)
    (n0 : Nat) (s s1 : Ed) (e : KeyEvent × DocAction) (he : e ∈ viMotionTable) (hcs : ∀ k, e.2 ≠ .charSearch k)
    (hk : nextKey false s = .ok (e.1, s1)) :
    viCmdMotion S U cfg fuel op n0 s =
      .ok (docMotion e.2 n0 (op == plain 'c') s1.inp.lastCharSearch none, s1) := by
  obtain ⟨k, a⟩ := e
  simp [viMotionTable] at he
  rcases hop with rfl | rfl | rfl <;>
  rcases he with he | he | he | he | he | he | he | he | he | he | he | he | he | he | he | he | he | he | he | he | he | he | he | he
  all_goals (
    obtain ⟨rfl, rfl⟩ := he
    simp only [] at hk hcs ⊢
    first
    | (exact absurd rfl (hcs _))
    | (simp [viCmdMotion, EM.bind_apply, EM.pure_apply, hk, docMotion, operatorMovement, DocMove.toMovement, plain, ctrl, key,
        lastCharSearch, EM.bind_read]))

set_option maxHeartbeats 1600000 in
/-- no count before the motion, `f t F T` + a plain character: the search is also remembered -/
theorem viCmdMotion_charSearch (S : Segmenter) (U : UData) (cfg : EdCfg) (fuel : Nat) (op : KeyEvent) (hop : isOperatorKey op)
    (n0 : Nat) (s s1 s2 : Ed) (k : KeyEvent) (kind ch : Char) (he : (k, DocAction.charSearch kind) ∈ viMotionTable)
    (hk : nextKey false s = .ok (k, s1)) (hk2 : nextKey false s1 = .ok (⟨.char ch, 0⟩, s2)) :
    viCmdMotion S U cfg fuel op n0 s =
      .ok (docMotion (.charSearch kind) n0 (op == plain 'c') s1.inp.lastCharSearch (some ch),
           { s2 with inp := { s2.inp with lastCharSearch := some (charSearchOf kind ch) } }) := by
  simp [viMotionTable] at he
  rcases hop with rfl | rfl | rfl <;>
  rcases he with he | he | he | he
  all_goals (
    obtain ⟨rfl, rfl⟩ := he
    simp [viCmdMotion, viCharSearch, EM.bind_apply, EM.pure_apply, hk, hk2, docMotion, charSearchOf, plain, EM.modify])

set_option maxHeartbeats 1600000 in
/-- the operator key typed twice is the whole line -/
theorem viCmdMotion_doubled (S : Segmenter) (U : UData) (cfg : EdCfg) (fuel : Nat) (op : KeyEvent)
    (n0 : Nat) (s s1 : Ed) (hk : nextKey false s = .ok (op, s1)) :
    viCmdMotion S U cfg fuel op n0 s = .ok (some .wholeLine, s1) := by
  simp [viCmdMotion, EM.bind_apply, EM.pure_apply, hk]

set_option maxHeartbeats 3200000 in
/-- a count `c₂` typed between the operator and the motion: the counts multiply (capped at the
    `u16` range of `RepeatCount`) -/
theorem viCmdMotion_count (S : Segmenter) (U : UData) (cfg : EdCfg) (fuel : Nat) (op : KeyEvent) (hop : isOperatorKey op)
    (n0 : Nat) (s s1 s2 : Ed) (d : Char) (hd1 : '1' ≤ d) (hd9 : d ≤ '9') (e : KeyEvent × DocAction)
    (he : e ∈ viMotionTable) (hcs : ∀ k, e.2 ≠ .charSearch k)
    (hk : nextKey false s = .ok (⟨.char d, 0⟩, s1))
    (hdig : viArgDigit S U cfg fuel d s1 = .ok (e.1, s2)) (h0 : 0 ≤ s2.inp.numArgs) :
    viCmdMotion S U cfg fuel op n0 s =
      .ok (docMotion e.2 (min ((countOf s2.inp.numArgs).1 * n0) 65535) (op == plain 'c') s2.inp.lastCharSearch none,
           { s2 with inp := { s2.inp with numArgs := 0 } }) := by
  obtain ⟨k, a⟩ := e
  have hna := viNumArgs_eq s2 h0
  generalize (countOf s2.inp.numArgs).1 = c2 at hna ⊢
  have hne : ∀ o, isOperatorKey o → (⟨.char d, 0⟩ : KeyEvent) ≠ o := by
    intro o ho h
    rcases ho with rfl | rfl | rfl <;> (simp [plain] at h; subst h; revert hd9; decide)
  have hne' := hne op hop
  simp [viMotionTable] at he
  rcases hop with rfl | rfl | rfl <;> simp [plain] at hne' <;>
  rcases he with he | he | he | he | he | he | he | he | he | he | he | he | he | he | he | he | he | he | he | he | he | he | he | he
  all_goals (
    obtain ⟨rfl, rfl⟩ := he
    simp only [] at hdig hcs ⊢
    first
    | (exact absurd rfl (hcs _))
    | (simp [viCmdMotion, EM.bind_apply, EM.pure_apply, hk, hdig, hna, hd1, hd9, hne', docMotion, operatorMovement,
        DocMove.toMovement, plain, ctrl, key, lastCharSearch, EM.bind_read]))

/-! ### `next_cmd` in the vi modes -/

theorem nextCmd_vi_insert (S : Segmenter) (U : UData) (cfg : EdCfg) (hvi : cfg.vi = true) (fuel : Nat) (s s0 s1 : Ed)
    (k : KeyEvent) (cmd : Cmd) (hk : nextKey false s = .ok (k, s0)) (hm : s0.inp.inputMode ≠ .command)
    (he : viInsert S U cfg fuel k s0 = .ok (cmd, s1)) (hnr : ∀ m t, cmd ≠ .replace m t) :
    nextCmd S U cfg fuel false false s = .ok (cmd, s1) := by
  unfold nextCmd
  simp [hvi, EM.bind_apply, waitForInput, hk, he, EM.bind_read, hm]
  first | done | (cases cmd <;> simp_all)

theorem nextCmd_vi_command (S : Segmenter) (U : UData) (cfg : EdCfg) (hvi : cfg.vi = true) (fuel : Nat) (s s0 s1 : Ed)
    (k : KeyEvent) (cmd : Cmd) (hk : nextKey false s = .ok (k, s0)) (hm : s0.inp.inputMode = .command)
    (he : viCommand S U cfg fuel k s0 = .ok (cmd, s1)) (hnr : ∀ m t, cmd ≠ .replace m t) :
    nextCmd S U cfg fuel false false s = .ok (cmd, s1) := by
  unfold nextCmd
  simp [hvi, EM.bind_apply, waitForInput, hk, he, EM.bind_read, hm]
  first | done | (cases cmd <;> simp_all)

theorem viInsertTable_right : ∀ e ∈ table .viInsert, e.1 = key .right → e.2 = .move .charRight := by decide


end Rl
