/-
  C11, the size limit along whole traces and what remains of it without distinguishable
  modification times.  Helper lemmas for the theorems appended to Rl/Props/C11.lean.
-/
import Rl.Lemmas.FileSession
namespace Rl.FS
open Rl

theorem step_maxLen (ws : Char → Bool) (s : Sys) (op : Op) (hg : Good s) (j : Nat) :
    ((s.step ws op).1.sess j).fh.mem.maxLen = (s.sess j).fh.mem.maxLen := by
  have := congrArg Spec.FS.Cfg.max (step_cfg ws s op hg j)
  simpa [cfgOf] using this

/-- With NO assumption on the remembered (modification time, size): what `append` writes is within
    the session's limit, or the fast path was taken — then it is the whole old file followed by
    the new lines, and it exceeds the limit by at most `|file| - remembered size`. -/
theorem appendOut_bound_or_fast (ws : Char → Bool) (x : Sess) (fm : Nat) (F : List Text) (hx : SessOk x) :
    (appendOut ws x fm F).1.length ≤ x.fh.mem.maxLen ∨
    ((appendOut ws x fm F).1 = F ++ newOnes x.fh ∧
      ∃ pm size, x.pathInfo = some (pm, size) ∧ pm = fm ∧
        (appendOut ws x fm F).2 = size + x.fh.newEntries ∧
        (appendOut ws x fm F).1.length ≤ x.fh.mem.maxLen + (F.length - size)) := by
  unfold appendOut
  by_cases h1 : (x.fh.newEntries == x.fh.mem.maxLen) = true
  · simp only [h1, if_true]; exact Or.inl hx.1
  · simp only [h1, Bool.false_eq_true, if_false]
    by_cases h2 : canJustAppend x { content := atomsOf (fileOf F), mtime := fm } = true
    · simp only [h2, if_true]
      obtain ⟨pm, size, hp, hpm, hlt, hle⟩ := (canJustAppend_iff _ _).mp h2
      refine Or.inr ⟨trivial, pm, size, hp, hpm, ?_, ?_⟩
      · simp only [hp, Option.map_some, Option.getD_some]
      · simp only [List.length_append, newOnes_length _ hx.2]
        omega
    · simp only [h2, Bool.false_eq_true, if_false]
      have hs := addAll_spec ws F (freshHist x.fh) (by simp [freshHist, FileHist.new, MemHist.new])
      have hs2 := addAll_spec ws (newOnes x.fh)
        { addAll ws (freshHist x.fh) F with newEntries := 0 } hs.2.2
      have hmax := congrArg Spec.FS.Cfg.max hs2.2.1
      have hmax1 := congrArg Spec.FS.Cfg.max hs.2.1
      simp only [cfgOf] at hmax hmax1
      left
      have := hs2.2.2
      rw [hmax, hmax1] at this
      simpa [freshHist, FileHist.new, MemHist.new] using this

/-- the file holds `es0` (never written) or at most `max_len j` entries for some session `j` -/
def Bounded (es0 : List Text) (s : Sys) : Prop :=
  ∃ F, FileIs s F ∧ (F = es0 ∨ ∃ j, F.length ≤ (s.sess j).fh.mem.maxLen)

theorem wrote_fileIs (s : Sys) (i : Nat) (es' : List Text) (mt size : Nat) :
    FileIs (s.wrote i es' mt size) es' := ⟨mt, by simp [Sys.wrote]⟩

theorem wrote_maxLen (s : Sys) (i : Nat) (es' : List Text) (mt size j : Nat) :
    ((s.wrote i es' mt size).sess j).fh.mem.maxLen = (s.sess j).fh.mem.maxLen := by
  have := congrArg Spec.FS.Cfg.max (wrote_cfg s i es' mt size j)
  simpa [cfgOf] using this

theorem step_bounded (ws : Char → Bool) (es0 : List Text) (s : Sys) (op : Op) (hg : Good s)
    (hacc : Accurate s) (hb : Bounded es0 s) : Bounded es0 (s.step ws op).1 := by
  obtain ⟨F, ⟨fm, hf⟩, hF⟩ := hb
  have keep : ∀ t : Sys, t.file = s.file → (∀ j, (t.sess j).fh.mem.maxLen = (s.sess j).fh.mem.maxLen) →
      Bounded es0 t := fun t ht hm =>
    ⟨F, ⟨fm, by rw [ht, hf]⟩, hF.imp id (fun ⟨j, hj⟩ => ⟨j, by rw [hm j]; exact hj⟩)⟩
  have hm := fun j => step_maxLen ws s op hg j
  cases op with
  | load i =>
    refine keep _ ?_ hm
    simp only [Sys.step, Sys.load, hf]
    split
    · split <;> exact hf
    · exact hf
  | add i l => exact keep _ rfl hm
  | touch mt =>
    refine ⟨F, ⟨mt, by simp only [Sys.step, Sys.touch, hf]⟩, hF.imp id (fun ⟨j, hj⟩ => ⟨j, by rw [hm j]; exact hj⟩)⟩
  | append i mt =>
    rcases newFlag s i with hnew | hnew
    · refine keep _ ?_ hm
      simp only [Sys.step, append_nothing ws s i mt hnew]
    · obtain ⟨F0, fm0, hf0, hne0, _, hall⟩ := hacc
      simp only [Sys.step]
      rw [append_eq ws s i mt fm0 F0 hf0 hne0 hnew]
      refine ⟨_, wrote_fileIs .., Or.inr ⟨i, ?_⟩⟩
      rw [wrote_maxLen]
      exact (appendOut_bound ws s i fm0 F0 hg (fun pm size hp => (hall i pm size hp).2)).1
  | save i mt =>
    rcases newFlag s i with hnew | hnew
    · refine keep _ ?_ hm
      simp only [Sys.step, save_nothing s i mt hnew]
    · simp only [Sys.step]
      rw [save_eq s i mt hnew]
      refine ⟨_, wrote_fileIs .., Or.inr ⟨i, ?_⟩⟩
      rw [wrote_maxLen]
      exact (hg.2 i).1

theorem run_bounded (ws : Char → Bool) (es0 : List Text) (ops : List Op) (s : Sys) (hg : Good s)
    (hacc : Accurate s) (hb : Bounded es0 s) (hd : DistRun ws s ops) : Bounded es0 (s.run ws ops) := by
  induction ops generalizing s with
  | nil => exact hb
  | cons op ops ih =>
    exact ih _ (step_good ws s op hg) (step_accurate ws s op hg hacc hd.1)
      (step_bounded ws es0 s op hg hacc hb) hd.2

end Rl.FS
