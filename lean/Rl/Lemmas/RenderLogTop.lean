/-
  C02: the render log of the editor model is coherent.  Part 4 — the loops of `readline_edit`.

  Given that every command keeps the screen in step (`Pres (execute cmd)`, see `Props/C02.lean` for what is
  proved of it), and so does listing completion (hypothesis `hcl`), so do circular completion, incremental search (since the repair
  of D42 every way out of the search repaints under the read's own prompt; inside it the search prompt is the
  prompt on display, `ShA`), the dispatch loop and the main loop.  The log of a
  whole read — without the final `writeln` — is then coherent and replays without panic.
-/
import Rl.Lemmas.RenderLogLift
namespace Rl
open EM

/-- a cursor motion of the line buffer: the text stays, and `false` means the cursor did not move -/
def MoveOK (op : LM Bool) : Prop :=
  ∀ lb r lb' ns, op lb = .ok (r, lb', ns) → lb'.buf = lb.buf ∧ (r = false → lb'.pos = lb.pos)

section
variable {S : Segmenter} {U : UData} {cfg : EdCfg}

theorem lk_lb {α : Type} (op : LM α) : Keeps Ed.lk (lb S U op) := by
  constructor; intro s; unfold lb
  cases h : op s.line with
  | error e => rfl
  | ok r => obtain ⟨a, l, ns⟩ := r; rfl

theorem lk_lbQuiet {α : Type} (op : LM α) : Keeps Ed.lk (lbQuiet op) := by
  constructor; intro s; unfold lbQuiet
  cases h : op s.line with
  | error e => rfl
  | ok r => obtain ⟨a, l, ns⟩ := r; rfl

theorem lk_getLine : Keeps Ed.lk getLine := ⟨fun _ => rfl⟩
theorem sk_lowerMark (m : Nat) : Keeps Ed.sk (lowerMark m) := ⟨fun _ => rfl⟩
theorem wp_lowerMark_top {mark : Nat} {Q : Nat → Ed → Prop} {E : Outcome → Ed → Prop} {s : Ed} :
    wp (lowerMark mark) Q E s = Q (min mark s.changes.undos.length) s := rfl

theorem Est.bind_pres {α β : Type} {m : EM α} {g : α → EM β} (hm : Est S U cfg m) (hg : ∀ a, Pres S U cfg (Sh S U cfg) (g a)) :
    Est S U cfg (m >>= g) := by
  constructor
  intro s h
  rw [wp_bind]
  exact wp_mono (hm.h s h) (fun a s' h' => (hg a).h s' h') (fun _ _ h' => h')

theorem Est.ite {α : Type} {c : Prop} [Decidable c] {a b : EM α} (ha : Est S U cfg a) (hb : Est S U cfg b) :
    Est S U cfg (if c then a else b) := by
  split <;> assumption

variable (hc : 2 ≤ cfg.cols) (hprompt : C02_Plain S (edR U cfg) cfg.prompt)
include hc hprompt
set_option linter.unusedSectionVars false

/-- `edit_move`: a motion of the line buffer, then `move_cursor` if it moved -/
theorem pres_editMove {op : LM Bool} (hop : MoveOK op) : Pres S U cfg (Sh S U cfg) (editMove S U cfg op) := by
  constructor
  intro s h
  unfold editMove
  rw [wp_bind]
  cases hs : op s.line with
  | error e =>
    have e1 : lbQuiet op s = .error (.panic, s) := by unfold lbQuiet; rw [hs]
    unfold wp; rw [e1]; exact h.ok
  | ok r =>
    obtain ⟨a, l, ns⟩ := r
    obtain ⟨hb, hp⟩ := hop _ _ _ _ hs
    refine wp_lbQuiet hs ?_
    cases a with
    | true =>
      simp only [if_true]
      exact wp_moveCursor_sh hc hprompt (s := { s with line := l }) (h.tsh.of_eq rfl rfl hb rfl)
    | false =>
      simp only [Bool.false_eq_true, if_false]
      exact h.of_eq rfl rfl hb (hp rfl) rfl

theorem moveOK_moveBufferEnd : MoveOK (LB.moveBufferEnd S U) := by
  intro lb r lb' ns h
  unfold LB.moveBufferEnd at h
  simp only [bind, pure, LM.bind', LM.pure', LM.get, LM.setPos] at h
  by_cases hp : (lb.pos == lb.len) = true
  · simp only [hp, if_true] at h
    injection h with h; simp only [Prod.mk.injEq] at h; obtain ⟨rfl, rfl, _⟩ := h; exact ⟨rfl, fun _ => rfl⟩
  · simp only [hp, if_false] at h
    injection h with h; simp only [Prod.mk.injEq] at h; obtain ⟨rfl, rfl, _⟩ := h
    exact ⟨rfl, fun h => by cases h⟩

/-- "change the line, then repaint" -/
theorem est_lb_refresh {α : Type} (op : LM α) : Est S U cfg (do let _ ← lb S U op; refreshLine S U cfg) :=
  Est.bind_keeps (lk_lb op) fun _ => est_refreshLine hc hprompt

variable (hnext : ∀ fuel sea iep, Pres S U cfg (Sh S U cfg) (nextCmd S U cfg fuel sea iep))
include hnext

theorem pres_completeCircular (start : Nat) (cands : List Text) (mark : Nat) (backup : Text) (backupPos : Nat)
    (fuel i : Nat) : Pres S U cfg (Sh S U cfg) (completeCircular S U cfg start cands mark backup backupPos fuel i) := by
  induction fuel generalizing i mark with
  | zero => unfold completeCircular; exact Pres.exit _
  | succ k ih =>
    unfold completeCircular
    apply Pres.of_est
    have hfin : ∀ mark : Nat, Pres S U cfg (Sh S U cfg) (do truncateChanges mark; Pure.pure none : EM (Option Cmd)) :=
      fun _ => Pres.bind (Pres.of_keeps (sk_truncateChanges _)) fun _ => Pres.pure _
    have hab1 : ∀ mark : Nat, Pres S U cfg (Sh S U cfg) (do
        lb S U (LB.update S U backup backupPos)
        refreshLine S U cfg
        truncateChanges mark
        Pure.pure none : EM (Option Cmd)) :=
      fun m => Pres.of_est (Est.bind_keeps (lk_lb _) fun _ => Est.bind_pres (est_refreshLine hc hprompt) fun _ => hfin m)
    have hcont : ∀ ab : Nat → EM (Option Cmd), (∀ m, Pres S U cfg (Sh S U cfg) (ab m)) → Est S U cfg (do
        refreshLine S U cfg
        let cmd ← nextCmd S U cfg k true true
        let mark ← lowerMark mark
        match cmd with
          | .complete => completeCircular S U cfg start cands mark backup backupPos k (compNext cands.length i)
          | .completeBackward => completeCircular S U cfg start cands mark backup backupPos k (compPrev cands.length i)
          | .abort => ab mark
          | _ => do
            let _ ← changesEnd
            Pure.pure (some cmd)) := by
      intro ab hab
      refine Est.bind_pres (est_refreshLine hc hprompt) fun _ => Pres.bind (hnext k true true) fun cmd =>
        Pres.bind (Pres.of_keeps (sk_lowerMark _)) fun mark' => ?_
      split
      · exact ih _ _
      · exact ih _ _
      · exact hab _
      · exact Pres.bind (Pres.of_keeps sk_changesEnd) fun _ => Pres.pure _
    simp only []
    split
    · split
      · exact Est.bind_keeps lk_getLine fun l => Est.bind_keeps (lk_lb _) fun _ => hcont _ hab1
      · exact hcont _ hab1
    · exact Est.bind_keeps (lk_lb _) fun _ => hcont _ hfin

omit hnext in
/-- **incremental search**: inside the loop the search prompt, the line and the cursor are shown at every
    callback; every way out (abort, or any other command since the repair of D42) repaints under the read's own
    prompt -/
theorem est_searchLoop (mark : Nat) (backup : Text) (backupPos : Nat) :
    ∀ (fuel : Nat) (sb : Text) (hi : Nat) (d : Dir) (succ : Bool),
      Est S U cfg (searchLoop S U cfg mark backup backupPos fuel sb hi d succ) := by
  intro fuel
  induction fuel generalizing mark with
  | zero => intro sb hi d succ; unfold searchLoop; exact ⟨fun s h => h.ok⟩
  | succ fuel ih =>
    intro sb hi d succ
    unfold searchLoop
    constructor
    intro s h
    simp only [wp_bind]
    refine wp_mono (wp_refreshPromptAndLine_sha hc hprompt _ ⟨sb, succ, rfl⟩ h) (fun _ s1 h1 => ?_) (fun _ _ e => e)
    refine wp_mono ((pres_nextCmd_any hc hprompt fuel true true).h s1 h1) (fun cmd s2 h2a => ?_) (fun _ _ e => e)
    have h2 : LogInv S U cfg s2 := h2a.inv
    show wp (lowerMark mark) _ _ s2
    rw [wp_lowerMark_top]
    have hds : ∀ (mark : Nat) (sb : Text) (hi hi0 : Nat) (d : Dir),
        wp (match (memHist cfg).search sb hi d with
            | some (idx, entry, pos) => do
              lb S U (LB.update S U entry pos)
              searchLoop S U cfg mark backup backupPos fuel sb idx d true
            | none => searchLoop S U cfg mark backup backupPos fuel sb hi0 d false)
          (fun _ s' => Sh S U cfg s') (fun _ s' => LogOK S U cfg s') s2 := by
      intro mark sb hi hi0 d
      cases (memHist cfg).search sb hi d with
      | none => exact (ih _ _ _ _ _).h s2 h2
      | some r =>
        obtain ⟨idx, entry, pos⟩ := r
        exact (Est.bind_keeps (lk_lb _) fun _ => ih _ _ _ _ _).h s2 h2
    split
    · exact hds _ _ _ _ _
    · exact (ih _ _ _ _ _).h s2 h2
    · split
      · exact hds _ _ _ _ _
      · exact (ih _ _ _ _ _).h s2 h2
    · split
      · exact hds _ _ _ _ _
      · exact (ih _ _ _ _ _).h s2 h2
    · exact (Est.bind_keeps (lk_lb _) fun _ => Est.bind_pres (est_refreshLine hc hprompt) fun _ =>
        Pres.bind (Pres.of_keeps (sk_truncateChanges _)) fun _ => Pres.pure _).h s2 h2
    · exact (Est.bind_pres (est_refreshLine hc hprompt) fun _ =>
        Pres.bind (Pres.of_keeps sk_changesEnd) fun _ => Pres.pure _).h s2 h2

omit hnext in
theorem pres_reverseIncrementalSearch (fuel : Nat) :
    Pres S U cfg (Sh S U cfg) (reverseIncrementalSearch S U cfg fuel) := by
  unfold reverseIncrementalSearch
  split
  · exact Pres.pure _
  · exact Pres.bind (Pres.of_keeps sk_changesBegin) fun _ => Pres.bind (Pres.of_keeps sk_getLine) fun _ =>
      Pres.of_est (est_searchLoop hc hprompt _ _ _ _ _ _ _ _)

variable (hcl : ∀ fuel, Pres S U cfg (Sh S U cfg) (completeLine S U cfg fuel))
include hcl

theorem pres_preCmds (fuel : Nat) (cmd : Cmd) : Pres S U cfg (Sh S U cfg) (preCmds S U cfg fuel cmd) := by
  induction fuel generalizing cmd with
  | zero => unfold preCmds; exact Pres.exit _
  | succ k ih =>
    have h1 := hcl k
    have h2 := pres_reverseIncrementalSearch hc hprompt (S := S) (U := U) (cfg := cfg) k
    unfold preCmds
    sh_pres [ih]

variable (hctl : ∀ c, isC0Control c = true → U.cwidth c = 0)
variable (hexec : ∀ cmd, Pres S U cfg (Sh S U cfg) (execute S U cfg cmd))
include hctl hexec

theorem pres_editInsert (ch : Char) (n : Nat) : Pres S U cfg (Sh S U cfg) (editInsert S U cfg ch n) :=
  ⟨fun _ h => wp_editInsert_sh hc hprompt hctl ch n h⟩

theorem pres_mainLoop (fuel : Nat) : Pres S U cfg (Sh S U cfg) (mainLoop S U cfg fuel) := by
  induction fuel with
  | zero => unfold mainLoop; exact Pres.exit _
  | succ k ih =>
    have h1 := hnext k false false
    have h2 := fun cmd => pres_preCmds hc hprompt hnext hcl k cmd
    have h3 := pres_refreshLine hc hprompt (S := S) (U := U) (cfg := cfg)
    have h4 := fun c n => pres_editInsert hc hprompt hnext hcl hctl hexec c n
    unfold mainLoop
    sh_pres [h2, h3, h4, hexec]

omit hnext hcl hexec in
/-- three commands of `execute`, as samples of how a command is lifted once its edit function is:
    `unfold execute` and the structural tactic -/
theorem pres_execute_selfInsert (n : Nat) (c : Char) : Pres S U cfg (Sh S U cfg) (execute S U cfg (.selfInsert n c)) := by
  have h4 : ∀ c n, Pres S U cfg (Sh S U cfg) (editInsert S U cfg c n) :=
    fun c n => ⟨fun _ h => wp_editInsert_sh hc hprompt hctl c n h⟩
  unfold execute
  sh_pres [h4]

omit hnext hcl hexec hctl in
theorem pres_execute_repaint : Pres S U cfg (Sh S U cfg) (execute S U cfg .repaint) := by
  have h3 := pres_refreshLine hc hprompt (S := S) (U := U) (cfg := cfg)
  unfold execute
  sh_pres [h3]

omit hnext hcl hexec hctl in
theorem pres_execute_move_endOfBuffer : Pres S U cfg (Sh S U cfg) (execute S U cfg (.move .endOfBuffer)) := by
  have h3 := pres_editMove hc hprompt (moveOK_moveBufferEnd (S := S) (U := U) hc hprompt)
  unfold execute
  sh_pres [h3]

omit hnext hcl hexec hctl in
theorem pres_refreshLineWithMsg : Pres S U cfg (Sh S U cfg) (refreshLineWithMsg S U cfg) :=
  ⟨fun _ h => wp_refreshLineWithMsg_sh hc hprompt h.inv⟩

omit hnext hcl hexec hctl in
theorem pres_moveCursor : Pres S U cfg (Sh S U cfg) (moveCursor S U cfg) :=
  ⟨fun _ h => wp_moveCursor_sh hc hprompt h.tsh⟩

/-- **the log of a whole read** (before the final `writeln`) replays coherently -/
theorem readline_prog_logOK (ring : KillRing) (left right : Text) (input : Input) :
    wp (do
        if !(left.isEmpty && right.isEmpty) then
          lb S U (LB.update S U (left ++ right) (blen left))
        refreshLine S U cfg
        mainLoop S U cfg (input.size + 2)
        editMove S U cfg (LB.moveBufferEnd S U) : EM Unit)
      (fun _ s' => LogOK S U cfg s') (fun _ s' => LogOK S U cfg s') (initEd cfg ring input) := by
  have h0 : LogInv S U cfg (initEd cfg ring input) := by
    intro _
    exact ⟨_, _, Rep.nil, rfl, plain_nil⟩
  have hrest : Est S U cfg (do
      refreshLine S U cfg
      mainLoop S U cfg (input.size + 2)
      editMove S U cfg (LB.moveBufferEnd S U) : EM Unit) :=
    Est.bind_pres (est_refreshLine hc hprompt) fun _ =>
      Pres.bind (pres_mainLoop hc hprompt hnext hcl hctl hexec _) fun _ =>
        pres_editMove hc hprompt (moveOK_moveBufferEnd hc hprompt)
  have hall : Est S U cfg (do
      if !(left.isEmpty && right.isEmpty) then
        lb S U (LB.update S U (left ++ right) (blen left))
      refreshLine S U cfg
      mainLoop S U cfg (input.size + 2)
      editMove S U cfg (LB.moveBufferEnd S U) : EM Unit) := by
    simp only []
    split
    · exact Est.bind_keeps (lk_lb _) fun _ => hrest
    · exact hrest
  exact wp_mono (hall.h _ h0) (fun _ _ h => h.ok) (fun _ _ h => h)

end
end Rl
