/- Helper lemmas for the gap-filling theorems of property C18 (end of Rl/Props/C18.lean):
   the stack evaluation as a fold, runs of backspaces, the accumulation under a validator in closed
   form, and what happens after end of file. -/
import Rl.Lemmas.Direct
namespace Rl.Direct
open Rl.Spec.Direct

/-! ### the stack evaluation as a left fold -/

/-- one step of "each backspace removes the cluster before it" on the clusters kept so far
    (first to last): a backspace cluster drops the last one (nothing if there is none), any other
    cluster is appended -/
def bsStep (kept : List Text) (g : Text) : List Text := if g = [bs] then kept.dropLast else kept ++ [g]

theorem stackGo_fold (st gs : List Text) : (stackGo st gs).reverse = gs.foldl bsStep st.reverse := by
  induction gs generalizing st with
  | nil => rfl
  | cons g gs ih =>
    simp only [stackGo, List.foldl_cons, bsStep]
    split
    · rw [ih]; congr 1; cases st <;> simp
    · rw [ih]; simp

theorem stackEval_fold (gs : List Text) : stackEval gs = gs.foldl bsStep [] := by
  simpa [stackEval] using stackGo_fold [] gs

theorem stackGo_bs_run (st : List Text) (n : Nat) : stackGo st (List.replicate n [bs]) = st.drop n := by
  induction n generalizing st with
  | zero => simp [stackGo]
  | succ n ih =>
    simp only [List.replicate_succ, stackGo, if_true]
    rw [ih]; cases st <;> simp

theorem stackEval_append (a b : List Text) :
    stackEval (a ++ b) = (stackGo (stackEval a).reverse b).reverse := by
  simp [stackEval, stackGo_append]

/-- a run of `n` backspaces removes the last `n` clusters kept (all of them if there are fewer) -/
theorem stackEval_bs_run (gs : List Text) (n : Nat) :
    stackEval (gs ++ List.replicate n [bs]) = (stackEval gs).take ((stackEval gs).length - n) := by
  rw [stackEval_append, stackGo_bs_run]
  simp [List.reverse_drop]

theorem stackGo_sublist (st gs : List Text) : (stackGo st gs).reverse.Sublist (st.reverse ++ gs) := by
  induction gs generalizing st with
  | nil => simp [stackGo]
  | cons g gs ih =>
    simp only [stackGo]
    split
    · refine (ih st.tail).trans ?_
      refine List.Sublist.append ?_ (List.sublist_cons_self _ _)
      cases st with
      | nil => simp
      | cons s st => simp
    · have := ih (g :: st)
      simpa using this

/-- the clusters kept are clusters of the input, in their order -/
theorem stackEval_sublist (gs : List Text) : (stackEval gs).Sublist gs := by
  simpa [stackEval] using stackGo_sublist [] gs

theorem stackGo_no_bs_mem (st gs : List Text) (h : ∀ x ∈ st, x ≠ [bs]) : ∀ x ∈ stackGo st gs, x ≠ [bs] := by
  induction gs generalizing st with
  | nil => simpa [stackGo] using h
  | cons g gs ih =>
    simp only [stackGo]
    split
    · exact ih _ (fun x hx => h x (List.mem_of_mem_tail hx))
    · rename_i hg
      refine ih _ ?_
      intro x hx
      rcases List.mem_cons.mp hx with rfl | hx
      · exact hg
      · exact h x hx

/-- no backspace cluster is kept -/
theorem stackEval_no_bs_mem (gs : List Text) : ∀ x ∈ stackEval gs, x ≠ [bs] := by
  intro x hx
  exact stackGo_no_bs_mem [] gs (by simp) x (by simpa [stackEval] using hx)

theorem stackEval_length_le (gs : List Text) : (stackEval gs).length ≤ gs.length :=
  (stackEval_sublist gs).length_le

/-- a run of backspaces at least as long as everything before it wipes the slate: what follows is
    evaluated as if it stood alone -/
theorem stackEval_overrun (a b : List Text) (n : Nat) (hn : (stackEval a).length ≤ n) :
    stackEval (a ++ List.replicate n [bs] ++ b) = stackEval b := by
  rw [stackEval_append, stackEval_bs_run]
  have : (stackEval a).length - n = 0 := by omega
  rw [this]
  simp [stackEval]

/-- the loop of `apply_backspace_direct` on an arbitrary cluster sequence -/
theorem applyGo_id (gs : List Text) : applyGo id gs [] [] = some (stackEval gs).flatten := by
  have := applyGo_eq id gs [] (fun _ _ => rfl)
  simpa [stackEval] using this

/-! ### texts without backspace -/

theorem removeBackspaces_of_not_mem (S : Segmenter) (t : Text) (h : bs ∉ t) : removeBackspaces S t = t := by
  unfold removeBackspaces
  rw [stackEval_no_bs, S.flatten_eq]
  intro g hg hb
  apply h
  rw [← S.flatten_eq t]
  exact List.mem_flatten.mpr ⟨g, hg, by simp [hb]⟩

theorem dropLast_append_of_getLast? {l : List Char} {c : Char} (h : l.getLast? = some c) :
    l.dropLast ++ [c] = l := by
  have hne : l ≠ [] := by intro h0; simp [h0] at h
  rw [List.getLast?_eq_some_getLast hne] at h
  have := List.dropLast_concat_getLast hne
  simp only [Option.some.injEq] at h
  rw [h] at this; exact this

/-- a raw line is its content followed by its terminator -/
theorem lineOf_text (l : Text) : (lineOf l).1 ++ (lineOf l).2.text = l := by
  unfold lineOf stripKept popIf
  simp only [List.nil_append, blen_nil]
  by_cases hn : l.getLast? = some '\n'
  · have h1 : l = l.dropLast ++ ['\n'] := (dropLast_append_of_getLast? hn).symm
    by_cases hr : 0 < blen l.dropLast ∧ l.dropLast.getLast? = some '\r'
    · have h2 : l.dropLast = l.dropLast.dropLast ++ ['\r'] := (dropLast_append_of_getLast? hr.2).symm
      simp only [hn, hr, if_true, and_self, Term.text]
      conv => rhs; rw [h1, h2]
      simp
    · simp only [hn, hr, if_true, if_false, Term.text]
      exact h1.symm
  · simp [hn, Term.text]

/-! ### accumulation under a validator, closed form -/

/-- If no backspace occurs, the validator says Incomplete after each of the raw lines `pre` and
    Valid after the line `l`, the read returns everything consumed, terminators included, except
    the terminator of the last line. -/
theorem readlineDirectW_accum (S : Segmenter) (V : Text → Verdict) (pre : List Text) (l : Text)
    (rest : List Text) (acc : Text) (hne : ∀ x ∈ pre, x ≠ []) (hl : l ≠ [])
    (hbs : bs ∉ acc ++ pre.flatten ++ l)
    (hinc : ∀ p x q, pre = p ++ x :: q → V (acc ++ p.flatten ++ (lineOf x).1) = .incomplete)
    (hval : V (acc ++ pre.flatten ++ (lineOf l).1) = .valid) :
    readlineDirectW id S (some V) acc (pre ++ l :: rest) = (.line (acc ++ pre.flatten ++ (lineOf l).1), rest) := by
  induction pre generalizing acc with
  | nil =>
    obtain ⟨tr, tn, h1, _⟩ := stripKept_lineOf acc l hl
    have hb : bs ∉ acc ++ (lineOf l).1 := by
      intro hm; apply hbs
      simp only [List.flatten_nil, List.append_nil, List.mem_append] at hm ⊢
      rcases hm with hm | hm
      · exact Or.inl hm
      · exact Or.inr (by rw [← lineOf_text l]; exact List.mem_append_left _ hm)
    simp only [List.flatten_nil, List.append_nil] at hval
    simp [readlineDirectW, hl, h1, applyBackspace_eq, removeBackspaces_of_not_mem S _ hb, hval]
  | cons x pre ih =>
    have hx : x ≠ [] := hne x (by simp)
    obtain ⟨tr, tn, h1, h2⟩ := stripKept_lineOf acc x hx
    have hb : bs ∉ acc ++ (lineOf x).1 := by
      intro hm; apply hbs
      simp only [List.flatten_cons, List.mem_append] at hm ⊢
      rcases hm with hm | hm
      · exact Or.inl (Or.inl hm)
      · exact Or.inl (Or.inr (Or.inl (by rw [← lineOf_text x]; exact List.mem_append_left _ hm)))
    have hv : V (acc ++ (lineOf x).1) = .incomplete := by
      have := hinc [] x pre rfl
      simpa using this
    have key := ih (acc ++ x) (fun y hy => hne y (by simp [hy]))
      (by simpa [List.append_assoc] using hbs)
      (by
        intro p y q hpq
        have := hinc (x :: p) y q (by simp [hpq])
        simpa [List.append_assoc] using this)
      (by simpa [List.append_assoc] using hval)
    simp only [List.cons_append, readlineDirectW, hx, if_false, h1, applyBackspace_eq,
      removeBackspaces_of_not_mem S _ hb, hv]
    simp only [List.append_assoc] at h2 ⊢
    rw [h2]
    have h3 : acc ++ ((lineOf x).1 ++ (lineOf x).2.text) = acc ++ x := by rw [lineOf_text]
    rw [h3]
    simpa [List.append_assoc] using key

/-! ### a validator that never accepts; end of file is final -/

/-- If the validator never says Valid and never fails, the read consumes the whole input and
    reports end of file: the text accumulated so far is dropped. -/
theorem readlineDirectW_never_valid (S : Segmenter) (V : Text → Verdict)
    (hV : ∀ x, V x ≠ .valid ∧ V x ≠ .error) (ls : List Text) (acc : Text) :
    readlineDirectW id S (some V) acc ls = (.eof, []) ∨
    ∃ r, readlineDirectW id S (some V) acc ls = (.eof, r) ∧ ∃ p, ls = p ++ [] :: r := by
  induction ls generalizing acc with
  | nil => left; rfl
  | cons l ls ih =>
    by_cases hl : l = []
    · right; exact ⟨ls, by simp [readlineDirectW, hl], [], by simp [hl]⟩
    · obtain ⟨tr, tn, h1, _⟩ := stripKept_lineOf acc l hl
      simp only [readlineDirectW, hl, if_false, h1, applyBackspace_eq]
      have hv := hV (removeBackspaces S (acc ++ (lineOf l).1))
      cases hc : V (removeBackspaces S (acc ++ (lineOf l).1)) with
      | valid => exact absurd hc hv.1
      | error => exact absurd hc hv.2
      | invalidMsg =>
        rcases ih (removeBackspaces S (acc ++ (lineOf l).1)) with h | ⟨r, h, p, hp⟩
        · left; exact h
        · right; exact ⟨r, h, l :: p, by simp [hp]⟩
      | invalidNone =>
        rcases ih (removeBackspaces S (acc ++ (lineOf l).1)) with h | ⟨r, h, p, hp⟩
        · left; exact h
        · right; exact ⟨r, h, l :: p, by simp [hp]⟩
      | incomplete =>
        rcases ih (removeBackspaces S (acc ++ (lineOf l).1) ++
            (if tr then ['\r'] else []) ++ (if tn then ['\n'] else [])) with h | ⟨r, h, p, hp⟩
        · left; exact h
        · right; exact ⟨r, h, l :: p, by simp [hp]⟩

/-- when a read of non-empty raw lines reports end of file, nothing is left in the reader -/
theorem readlineDirectW_eof_rest (S : Segmenter) (V : Option (Text → Verdict)) (ls : List Text)
    (hne : ∀ l ∈ ls, l ≠ []) (acc : Text) (h : (readlineDirectW id S V acc ls).1 = .eof) :
    (readlineDirectW id S V acc ls).2 = [] := by
  induction ls generalizing acc with
  | nil => rfl
  | cons l ls ih =>
    have hl : l ≠ [] := hne l (by simp)
    have hne' : ∀ x ∈ ls, x ≠ [] := fun x hx => hne x (by simp [hx])
    obtain ⟨tr, tn, h1, _⟩ := stripKept_lineOf acc l hl
    cases V with
    | none => simp [readlineDirectW, hl, h1, applyBackspace_eq] at h
    | some v =>
      simp only [readlineDirectW, hl, if_false, h1, applyBackspace_eq] at h ⊢
      cases hc : v (removeBackspaces S (acc ++ (lineOf l).1)) with
      | valid => simp [hc] at h
      | error => simp [hc] at h
      | invalidMsg => simp only [hc] at h ⊢; exact ih hne' _ h
      | invalidNone => simp only [hc] at h ⊢; exact ih hne' _ h
      | incomplete => simp only [hc] at h ⊢; exact ih hne' _ h

end Rl.Direct

/-! ### a character that never glues is a cluster of its own -/

namespace Rl

theorem groupGo_split {σ : Type} (glue : σ → Char → Bool) (upd : σ → Char → σ) (init : Char → σ)
    (c : Char) (h1 : ∀ st, glue st c = false) (h2 : ∀ d, glue (init c) d = false)
    (st : σ) (cur a b : Text) :
    groupGo glue upd init st cur (a ++ c :: b) =
      groupGo glue upd init st cur a ++ [c] :: group glue upd init b := by
  induction a generalizing st cur with
  | nil =>
    simp only [List.nil_append, groupGo, h1, Bool.false_eq_true, if_false, List.cons_append]
    cases b with
    | nil => simp [groupGo, group]
    | cons d b => simp [groupGo, group, h2]
  | cons x a ih =>
    simp only [List.cons_append, groupGo]
    split
    · exact ih _ _
    · simp [ih]

theorem group_split {σ : Type} (glue : σ → Char → Bool) (upd : σ → Char → σ) (init : Char → σ)
    (c : Char) (h1 : ∀ st, glue st c = false) (h2 : ∀ d, glue (init c) d = false) (a b : Text) :
    group glue upd init (a ++ c :: b) = group glue upd init a ++ [c] :: group glue upd init b := by
  cases a with
  | nil =>
    have := groupGo_split glue upd init c h1 h2 (init c) [c] [] b
    cases b with
    | nil => simp [group, groupGo]
    | cons d b => simp [group, groupGo, h2]
  | cons x a => exact groupGo_split glue upd init c h1 h2 (init x) [x] a b

theorem uaxGlue_control_right (cls : Char → String) (c : Char) (hc : gcbBase (cls c) = "Control")
    (st : UaxSt) : uaxGlue cls st c = false := by
  unfold uaxGlue
  simp only [hc]
  have e1 : ("Control" == "LF") = false := by decide
  have e2 : ("Control" == "Control") = true := by decide
  simp only [e1, e2, Bool.and_false, Bool.or_true, Bool.false_eq_true, if_false, if_true]
  split <;> rfl

theorem uaxGlue_control_left (cls : Char → String) (c : Char) (hc : gcbBase (cls c) = "Control")
    (d : Char) : uaxGlue cls (uaxInit cls c) d = false := by
  unfold uaxGlue uaxInit
  simp only [hc]
  have e1 : ("Control" == "CR") = false := by decide
  simp [e1]

theorem seg_ne_bs (S : Segmenter) (t : Text) (h : Rl.Direct.bs ∉ t) : ∀ g ∈ S.seg t, g ≠ [Rl.Direct.bs] := by
  intro g hg hb
  apply h
  rw [← S.flatten_eq t]
  exact List.mem_flatten.mpr ⟨g, hg, by simp [hb]⟩

/-- under the UAX #29 rules a Control character is a cluster by itself, and the text before and
    after it is segmented independently -/
theorem uaxSeg_split (cls : Char → String) (c : Char) (hc : gcbBase (cls c) = "Control") (a b : Text) :
    (uaxSeg cls).seg (a ++ c :: b) = (uaxSeg cls).seg a ++ [c] :: (uaxSeg cls).seg b :=
  group_split _ _ _ c (uaxGlue_control_right cls c hc) (uaxGlue_control_left cls c hc) a b

theorem uaxSeg_split_run (cls : Char → String) (c : Char) (hc : gcbBase (cls c) = "Control")
    (a b : Text) (n : Nat) :
    (uaxSeg cls).seg (a ++ List.replicate (n + 1) c ++ b) =
      (uaxSeg cls).seg a ++ List.replicate (n + 1) [c] ++ (uaxSeg cls).seg b := by
  have hnil : (uaxSeg cls).seg [] = [] := rfl
  induction n generalizing a with
  | zero => simpa using uaxSeg_split cls c hc a b
  | succ n ih =>
    have e : a ++ List.replicate (n + 1 + 1) c ++ b = a ++ c :: ([] ++ List.replicate (n + 1) c ++ b) := by
      simp [List.replicate_succ]
    rw [e, uaxSeg_split cls c hc, ih []]
    simp [hnil, List.replicate_succ]

end Rl
