/-
  C17: the commands that reach `execute`.  The sub-loops of a read (completion, incremental search,
  the dispatch loop) hand back either nothing or a command that `next_cmd` returned; so every
  command the main loop executes is acceptable (`CmdI`: a `ReplaceChar` count fits a `u16`, no
  `YankPop` in vi mode), and the input state stays acceptable (`RI`) all along.
-/
import Rl.Lemmas.EditorNextRet
namespace Rl
open EM

/-- nothing, or an acceptable command -/
def OptI (cfg : EdCfg) (r : Option Cmd) : Prop := ∀ c, r = some c → CmdI cfg c

section
variable (S : Segmenter) (U : UData) (cfg : EdCfg)

theorem rt_lb {α : Type} (op : LM α) : RT cfg (fun _ => True) (lb S U op) := RT.of_keeps (keeps_inp_lb S U op)
theorem rt_lbQuiet {α : Type} (op : LM α) : RT cfg (fun _ => True) (lbQuiet op) := RT.of_keeps (keeps_inp_lbQuiet op)
theorem rt_getLine : RT cfg (fun _ => True) getLine := RT.of_keeps keeps_inp_getLine
theorem rt_truncateChanges (m : Nat) : RT cfg (fun _ => True) (truncateChanges m) :=
  RT.of_keeps (keeps_inp_truncateChanges m)
theorem rt_editMove (op : LM Bool) : RT cfg (fun _ => True) (editMove S U cfg op) :=
  RT.of_keeps (keeps_inp_editMove S U cfg op)

theorem rt_lowerMark (m : Nat) : RT cfg (fun _ => True) (lowerMark m) :=
  ⟨fun _ hs _ _ he => by cases he; exact ⟨hs, trivial⟩⟩

theorem rt_completeCircular (hb : BindsI cfg) (start : Nat) (cands : List Text) (mark : Nat) (backup : Text)
    (backupPos : Nat) : ∀ (fuel i : Nat),
    RT cfg (OptI cfg) (completeCircular S U cfg start cands mark backup backupPos fuel i) := by
  have h0 := fun m => rt_lowerMark cfg m
  have h1 := fun {α : Type} (op : LM α) => rt_lb S U cfg op
  have h2 := rt_getLine cfg
  have h3 := fun m => rt_truncateChanges cfg m
  intro fuel
  induction fuel generalizing mark with
  | zero => intro i; unfold completeCircular; em_rt
  | succ k ih =>
    intro i
    unfold completeCircular
    em_rt [ih, h0, h1, h3, RT.bindQ (rt_nextCmd S U cfg hb _ _ _)]

theorem rt_completeLine (hb : BindsI cfg) (fuel : Nat) : RT cfg (OptI cfg) (completeLine S U cfg fuel) := by
  have h1 := fun {α : Type} (op : LM α) => rt_lb S U cfg op
  have h2 := rt_getLine cfg
  have h4 := fun {α : Type} (op : LM α) => rt_lbQuiet cfg op
  have h5 := fun op => rt_editMove S U cfg op
  have h6 := fun start cands mark backup backupPos fuel i =>
    rt_completeCircular S U cfg hb start cands mark backup backupPos fuel i
  unfold completeLine
  em_rt [h6, h1, h4, h5, RT.bindQ (rt_nextCmd S U cfg hb _ _ _)]

theorem rt_searchLoop (hb : BindsI cfg) (mark : Nat) (backup : Text) (backupPos : Nat) :
    ∀ (fuel : Nat) (sb : Text) (hi : Nat) (d : Dir) (succ : Bool),
    RT cfg (OptI cfg) (searchLoop S U cfg mark backup backupPos fuel sb hi d succ) := by
  have h0 := fun m => rt_lowerMark cfg m
  have h1 := fun {α : Type} (op : LM α) => rt_lb S U cfg op
  have h3 := fun m => rt_truncateChanges cfg m
  intro fuel
  induction fuel generalizing mark with
  | zero => intro sb hi d succ; unfold searchLoop; em_rt
  | succ k ih =>
    intro sb hi d succ
    unfold searchLoop
    em_rt [ih, h0, h1, h3, RT.bindQ (rt_nextCmd S U cfg hb _ _ _)]

theorem rt_reverseIncrementalSearch (hb : BindsI cfg) (fuel : Nat) :
    RT cfg (OptI cfg) (reverseIncrementalSearch S U cfg fuel) := by
  have h2 := rt_getLine cfg
  have h6 := fun mark backup backupPos fuel sb hi d succ =>
    rt_searchLoop S U cfg hb mark backup backupPos fuel sb hi d succ
  unfold reverseIncrementalSearch
  em_rt [h6]

theorem rt_preCmds (hb : BindsI cfg) : ∀ (fuel : Nat) (cmd : Cmd), CmdI cfg cmd →
    RT cfg (OptI cfg) (preCmds S U cfg fuel cmd) := by
  intro fuel
  induction fuel with
  | zero => intro cmd _; unfold preCmds; em_rt
  | succ k ih =>
    intro cmd hc
    unfold preCmds
    refine RT.ite (RT.bindQ (rt_completeLine S U cfg hb k) ?_)
      (RT.ite (RT.bindQ (rt_reverseIncrementalSearch S U cfg hb k) ?_) (RT.pure _ ?_))
    · intro r hr
      cases r with
      | some next => exact ih next (hr next rfl)
      | none => exact RT.pure _ (fun c h => by cases h)
    · intro r hr
      cases r with
      | some next => exact ih next (hr next rfl)
      | none => exact RT.pure _ (fun c h => by cases h)
    · intro c h; cases h; exact hc

/-- combine a weakest-precondition fact with what `RT` says of the same run -/
theorem RT.wp_and {α : Type} {P : α → Prop} {m : EM α} (hr : RT cfg P m) {s : Ed} (hs : RI cfg s)
    {Q : α → Ed → Prop} {E : Outcome → Ed → Prop} (hw : wp m Q E s) :
    wp m (fun a s' => Q a s' ∧ RI cfg s' ∧ P a) E s := by
  unfold wp at hw ⊢
  cases hm : m s with
  | error e => rw [hm] at hw; exact hw
  | ok r =>
    obtain ⟨a, s'⟩ := r
    rw [hm] at hw
    exact ⟨hw, hr.h s hs a s' hm⟩

end
end Rl
