/-
  `LineBuffer::insert(ch, n)` with a repeat count `n ≥ 2` reports exactly one `insert_str` notification
  (used by `C05_counted_insert_one_unit`).
-/
import Rl.Lemmas.YankOneUnit
namespace Rl

theorem insert_reports_one (S : Segmenter) (U : UData) (lb0 l : LB) (ch : Char) (n : Nat) (hn : 2 ≤ n)
    (r : Option Bool) (ns : List Notif) (hy : LB.insert S U ch n lb0 = .ok (r, l, ns)) :
    (r = none ∧ ns = [] ∧ l = lb0) ∨
    (∃ x z, splitAtByte lb0.buf lb0.pos = some (x, z) ∧ l.buf = x ++ List.replicate n ch ++ z ∧
      ns = [.insStr lb0.pos (List.replicate n ch)] ∧ r.isSome = true) := by
  unfold LB.insert at hy
  simp only [bind, LM.bind', LM.get, pure] at hy
  split at hy
  · cases hy
  · rename_i b lb2 n2 h2
    simp only [List.nil_append, Except.ok.injEq, Prod.mk.injEq] at hy
    obtain ⟨rfl, rfl, rfl⟩ := hy
    split at h2
    · simp only [LM.pure', Except.ok.injEq, Prod.mk.injEq] at h2
      obtain ⟨rfl, rfl, rfl⟩ := h2
      exact .inl ⟨rfl, rfl, rfl⟩
    · right
      have h1 : (n == 1) = false := by
        cases hb : n == 1
        · rfl
        · have : n = 1 := by simpa using hb
          omega
      simp only [h1, Bool.false_eq_true, if_false] at h2
      obtain ⟨x, z, e1, e2, e3, e4⟩ := insertStr_then h2
      exact ⟨x, z, e1, e2, e3, by simp [e4]⟩
end Rl
