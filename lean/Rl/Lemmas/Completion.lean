/- Helper lemmas for property C15 (model: Rl/Completion.lean). -/
import Rl.Completion
import Rl.Spec.Completion
namespace Rl.Completion

/-! ### unescape ∘ escape -/

theorem unescapeGo_cons_ne {e c : Char} (h : c ≠ e) (r : Text) :
    unescapeGo e (c :: r) = c :: unescapeGo e r := by
  cases r with
  | nil => simp [unescapeGo, h]
  | cons d t => simp [unescapeGo, h]

theorem unescapeGo_esc_cons (e d : Char) (r : Text) :
    unescapeGo e (e :: d :: r) = d :: unescapeGo e r := by
  simp [unescapeGo]

/-- the fast path of `unescape` (no escape character present) agrees with the loop -/
theorem unescapeGo_of_not_mem {e : Char} : ∀ {s : Text}, (s.any (· == e)) = false → unescapeGo e s = s
  | [], _ => rfl
  | c :: t, h => by
    simp only [List.any_cons, Bool.or_eq_false_iff, beq_eq_false_iff_ne] at h
    rw [unescapeGo_cons_ne h.1, unescapeGo_of_not_mem h.2]

theorem unescape_some (e : Char) (s : Text) : unescape (some e) s = unescapeGo e s := by
  unfold unescape
  cases h : s.any (· == e) <;> simp [unescapeGo_of_not_mem, h]

theorem unescapeGo_flatMap_escChar (e : Char) (isBreak : Char → Bool) (hb : isBreak e = true)
    (s r : Text) :
    unescapeGo e (s.flatMap (escChar e isBreak) ++ r) = s ++ unescapeGo e r := by
  induction s with
  | nil => rfl
  | cons c t ih =>
    simp only [List.flatMap_cons, List.append_assoc, escChar]
    by_cases hc : isBreak c = true
    · simp only [hc, if_true, List.cons_append, List.nil_append]
      rw [unescapeGo_esc_cons, ih]
    · have hne : c ≠ e := fun h => hc (h ▸ hb)
      have hc' : isBreak c = false := by simpa using hc
      simp only [hc', Bool.false_eq_true, if_false, List.cons_append, List.nil_append]
      rw [unescapeGo_cons_ne hne, ih]

theorem escape_eq_flatMap (e : Char) (isBreak : Char → Bool) (q : Quote) (hq : q ≠ .single) (s : Text) :
    escape (some e) isBreak q s = s.flatMap (escChar e isBreak) := by
  unfold escape
  simp only [hq, if_false]
  split
  · rename_i h
    have hf : ∀ c ∈ s, isBreak c = false := by
      intro c hc
      cases hbc : isBreak c with
      | false => rfl
      | true =>
        have : c ∈ s.filter isBreak := List.mem_filter.mpr ⟨hc, hbc⟩
        rw [List.eq_nil_of_length_eq_zero h] at this
        cases this
    clear h
    induction s with
    | nil => rfl
    | cons c t ih =>
      have h1 := hf c (by simp)
      simp only [List.flatMap_cons, escChar, h1]
      rw [← ih (fun d hd => hf d (by simp [hd]))]; rfl
  · rfl

/-! ### extract_word: the reverse scan on `pre ++ escape s` -/

section extract
variable (e : Char) (B : Char → Bool)

theorem go_nil (st : Option Nat) (k : Nat) : extractGo (some e) B [] st k = (st, k) := by
  simp [extractGo]

theorem go_none_nb {c : Char} (h : B c = false) (r : List Char) (k : Nat) :
    extractGo (some e) B (c :: r) none k = extractGo (some e) B r none k := by
  simp [extractGo, h]

theorem go_none_b {c : Char} (h : B c = true) (r : List Char) (k : Nat) :
    extractGo (some e) B (c :: r) none k = extractGo (some e) B r (some (blen r + c.utf8Size)) k := by
  simp [extractGo, h]

theorem go_some_e (r : List Char) (s k : Nat) :
    extractGo (some e) B (e :: r) (some s) k = extractGo (some e) B r (some s) (k + 1) := by
  simp [extractGo]

theorem go_some_even {c : Char} (hc : c ≠ e) (r : List Char) (s : Nat) {k : Nat} (hk : k % 2 = 0) :
    extractGo (some e) B (c :: r) (some s) k = (some s, k) := by
  simp [extractGo, Ne.symm hc, hk]

theorem go_some_odd_b {c : Char} (hc : c ≠ e) (hb : B c = true) (r : List Char) (s : Nat) {k : Nat}
    (hk : k % 2 = 1) :
    extractGo (some e) B (c :: r) (some s) k
      = extractGo (some e) B r (some (blen r + c.utf8Size)) 0 := by
  simp [extractGo, Ne.symm hc, hk, hb]

theorem go_some_odd_nb {c : Char} (hc : c ≠ e) (hb : B c = false) (r : List Char) (s : Nat) {k : Nat}
    (hk : k % 2 = 1) :
    extractGo (some e) B (c :: r) (some s) k = extractGo (some e) B r none 0 := by
  simp [extractGo, Ne.symm hc, hk, hb]

/-- the start reported from the final loop state (`if escapes % 2 == 1 { start = None }`,
    then `None => 0`) -/
def fin (r : Option Nat × Nat) : Nat := if r.2 % 2 = 1 then 0 else r.1.getD 0

/-- a found break char stays the start iff the run of escape chars before it is even -/
theorem fin_go_run (r : List Char) (X k : Nat)
    (h : (k + (r.takeWhile (· == e)).length) % 2 = 0) :
    fin (extractGo (some e) B r (some X) k) = X := by
  induction r generalizing k with
  | nil =>
    simp at h
    simp [go_nil, fin, h]
  | cons x r ih =>
    by_cases hx : x = e
    · subst hx
      rw [go_some_e]
      apply ih
      simp at h
      omega
    · have : ((x :: r).takeWhile (· == e)) = [] := by
        have : (x == e) = false := by simpa using hx
        simp [List.takeWhile, this]
      rw [this] at h
      simp at h
      rw [go_some_even e B hx r X h]
      simp [fin, h]

/-- what is typed before the word, reversed: empty, or a break char other than the escape char
    preceded by an even run of escape chars -/
def UnquotedRev (R : List Char) : Prop :=
  R = [] ∨ ∃ b r, R = b :: r ∧ B b = true ∧ b ≠ e ∧ ((r.takeWhile (· == e)).length) % 2 = 0

/-- from either loop state that can arise at the left end of an escaped word, the scan of an
    unquoted prefix reports the end of the prefix -/
def BaseOK (R : List Char) : Prop :=
  (∀ st k, k % 2 = 1 → fin (extractGo (some e) B R (some st) k) = blen R)
    ∧ fin (extractGo (some e) B R none 0) = blen R

theorem baseOK_of_unquotedRev {R : List Char} (h : UnquotedRev e B R) : BaseOK e B R := by
  rcases h with rfl | ⟨b, r, rfl, hb, hne, hpar⟩
  · constructor
    · intro st k hk; simp [go_nil, fin, hk]
    · simp [go_nil, fin]
  · have hX : blen r + b.utf8Size = blen (b :: r) := by simp; omega
    constructor
    · intro st k hk
      rw [go_some_odd_b e B hne hb r st hk, hX]
      exact fin_go_run e B r _ 0 (by simpa using hpar)
    · rw [go_none_b e B hb, hX]
      exact fin_go_run e B r _ 0 (by simpa using hpar)

/-- `escape` output, reversed, for a reversed text -/
def rescape (sr : List Char) : List Char := sr.flatMap (fun c => if B c then [c, e] else [c])

theorem reverse_flatMap_escChar (s : Text) :
    (s.flatMap (escChar e B)).reverse = rescape e B s.reverse := by
  induction s with
  | nil => rfl
  | cons c t ih =>
    simp only [List.flatMap_cons, List.reverse_append, ih, List.reverse_cons, rescape,
      List.flatMap_append, List.flatMap_singleton, escChar]
    cases B c <;> simp

theorem go_rescape (he : B e = true) {R : List Char} (hR : BaseOK e B R) (sr : List Char) :
    (∀ st k, k % 2 = 1 → fin (extractGo (some e) B (rescape e B sr ++ R) (some st) k) = blen R)
      ∧ fin (extractGo (some e) B (rescape e B sr ++ R) none 0) = blen R := by
  induction sr with
  | nil => simpa [rescape, BaseOK] using hR
  | cons d sr ih =>
    obtain ⟨ih1, ih2⟩ := ih
    have hcons : rescape e B (d :: sr) ++ R
        = (if B d then [d, e] else [d]) ++ (rescape e B sr ++ R) := by
      simp [rescape]
    rw [hcons]
    by_cases hd : B d = true
    · simp only [hd, if_true, List.cons_append, List.nil_append]
      by_cases hde : d = e
      · subst hde
        constructor
        · intro st k hk
          rw [go_some_e, go_some_e]
          exact ih1 st (k + 1 + 1) (by omega)
        · rw [go_none_b d B hd, go_some_e]
          exact ih1 _ 1 rfl
      · constructor
        · intro st k hk
          rw [go_some_odd_b e B hde hd _ st hk, go_some_e]
          exact ih1 _ 1 rfl
        · rw [go_none_b e B hd, go_some_e]
          exact ih1 _ 1 rfl
    · have hd' : B d = false := by simpa using hd
      have hde : d ≠ e := fun h => hd (h ▸ he)
      simp only [hd', Bool.false_eq_true, if_false, List.cons_append, List.nil_append]
      constructor
      · intro st k hk
        rw [go_some_odd_nb e B hde hd' _ st hk]
        exact ih2
      · rw [go_none_nb e B hd']
        exact ih2

theorem blen_reverse (t : Text) : blen t.reverse = blen t := by
  induction t with
  | nil => rfl
  | cons c t ih => simp [ih]; omega

theorem splitAtByte_full (t : Text) : splitAtByte t (blen t) = some (t, []) := by
  have := splitAtByte_append t []
  simpa using this

/-- `extract_word` with the cursor at the end of `pre ++ E`, where `E` is an escaped text and
    `pre` is unquoted: the word is `E` -/
theorem extractWord_escaped (he : B e = true) (pre s : Text) (hpre : UnquotedRev e B pre.reverse) :
    extractWord (pre ++ s.flatMap (escChar e B)) (blen (pre ++ s.flatMap (escChar e B))) (some e) B
      = some (blen pre, s.flatMap (escChar e B)) := by
  generalize hE : s.flatMap (escChar e B) = E
  have hfin : fin (extractGo (some e) B (pre ++ E).reverse none 0) = blen pre := by
    rw [List.reverse_append, ← hE, reverse_flatMap_escChar]
    have := (go_rescape e B he (baseOK_of_unquotedRev e B hpre) s.reverse).2
    rw [this, blen_reverse]
  unfold extractWord
  rw [splitAtByte_full]
  simp only
  by_cases hemp : (pre ++ E).isEmpty = true
  · simp only [hemp, if_true]
    have : pre ++ E = [] := by simpa using hemp
    have hp : pre = [] := (List.append_eq_nil_iff.mp this).1
    have hE' : E = [] := (List.append_eq_nil_iff.mp this).2
    simp [hp, hE']
  · simp only [hemp]
    generalize extractGo (some e) B (pre ++ E).reverse none 0 = r at hfin
    unfold fin at hfin
    by_cases hk : r.2 % 2 = 1
    · simp only [hk, if_true] at hfin ⊢
      have hp : pre = [] := blen_eq_zero.mp hfin.symm
      simp [hp]
    · simp only [hk, if_false] at hfin ⊢
      cases hr : r.1 with
      | none =>
        simp only [hr, Option.getD_none] at hfin
        have hp : pre = [] := blen_eq_zero.mp hfin.symm
        simp [hp]
      | some st =>
        simp only [hr, Option.getD_some] at hfin
        subst hfin
        simp [splitAtByte_append]

end extract

/-! ### find_unclosed_quote on `pre ++ quote ++ escaped` -/

theorem scanGo_append (a b : Text) (i : Nat) (m : ScanMode) (qi : Nat) :
    scanGo (a ++ b) i m qi
      = scanGo b (i + blen a) (scanGo a i m qi).1 (scanGo a i m qi).2 := by
  induction a generalizing i m qi with
  | nil => simp [scanGo]
  | cons c t ih =>
    simp only [List.cons_append, scanGo, blen_cons]
    rw [ih]
    congr 1
    omega

/-- inside double quotes the escaped text keeps the scanner inside the quotes -/
theorem scanGo_escaped_dq (D : Char → Bool) (h1 : D '"' = true) (h2 : D '\\' = true) (s : Text)
    (i qi : Nat) :
    scanGo (s.flatMap (escChar '\\' D)) i .doubleQuote qi = (.doubleQuote, qi) := by
  induction s generalizing i with
  | nil => rfl
  | cons c t ih =>
    simp only [List.flatMap_cons, escChar]
    by_cases hc : D c = true
    · simp only [hc, if_true, List.cons_append, List.nil_append, scanGo, scanStep]
      simp [ih]
    · have hc' : D c = false := by simpa using hc
      have n1 : c ≠ '"' := fun h => hc (h ▸ h1)
      have n2 : c ≠ '\\' := fun h => hc (h ▸ h2)
      simp only [hc', Bool.false_eq_true, if_false, List.cons_append, List.nil_append, scanGo, scanStep,
        n1, n2]
      exact ih _

/-- bare: the escaped text leaves the scanner in normal mode -/
theorem scanGo_escaped_bare (B : Char → Bool) (h1 : B '"' = true) (h2 : B '\\' = true)
    (h3 : B '\'' = true) (s : Text) (i qi : Nat) :
    scanGo (s.flatMap (escChar '\\' B)) i .normal qi = (.normal, qi) := by
  induction s generalizing i with
  | nil => rfl
  | cons c t ih =>
    simp only [List.flatMap_cons, escChar]
    by_cases hc : B c = true
    · simp only [hc, if_true, List.cons_append, List.nil_append, scanGo, scanStep]
      simp [ih]
    · have hc' : B c = false := by simpa using hc
      have n1 : c ≠ '"' := fun h => hc (h ▸ h1)
      have n2 : c ≠ '\\' := fun h => hc (h ▸ h2)
      have n3 : c ≠ '\'' := fun h => hc (h ▸ h3)
      simp only [hc', Bool.false_eq_true, if_false, List.cons_append, List.nil_append, scanGo, scanStep,
        n1, n2, n3]
      exact ih _

/-- inside single quotes a text without a single quote keeps the scanner inside -/
theorem scanGo_sq (s : Text) (hs : '\'' ∉ s) (i qi : Nat) :
    scanGo s i .singleQuote qi = (.singleQuote, qi) := by
  induction s generalizing i with
  | nil => rfl
  | cons c t ih =>
    have n : c ≠ '\'' := fun h => hs (by simp [h])
    simp only [scanGo, scanStep, n, if_false]
    exact ih (fun h => hs (by simp [h])) _


/-! ### bare_word_start: the forward scan of the completer -/

section bare
variable (B : Char → Bool)

theorem bareGo_append (a b : Text) (i : Nat) (m : ScanMode) (st : Nat) :
    bareGo B (a ++ b) i m st
      = bareGo B b (i + blen a) (bareGo B a i m st).1 (bareGo B a i m st).2 := by
  induction a generalizing i m st with
  | nil => simp [bareGo]
  | cons c t ih =>
    simp only [List.cons_append, bareGo, blen_cons]
    rw [ih]
    congr 1
    omega

/-- one iteration leaves `start` alone or moves it to the end of the character just read -/
theorem bareStep_start (m : ScanMode) (st i : Nat) (c : Char) :
    (bareStep B m st i c).2 = st ∨ (bareStep B m st i c).2 = i + c.utf8Size := by
  cases hB : B c <;> cases m <;> simp only [bareStep, hB] <;> (repeat' split) <;> simp

/-- `start` is always a character boundary of the part of the line read so far -/
theorem bareGo_boundary (rest done : Text) (m : ScanMode) (st : Nat)
    (hst : ∃ a b, done = a ++ b ∧ st = blen a) :
    ∃ a b, done ++ rest = a ++ b ∧ (bareGo B rest (blen done) m st).2 = blen a := by
  induction rest generalizing done m st with
  | nil =>
    obtain ⟨a, b, h1, h2⟩ := hst
    exact ⟨a, b, by simpa using h1, by simpa [bareGo] using h2⟩
  | cons c t ih =>
    simp only [bareGo]
    have hb : blen done + c.utf8Size = blen (done ++ [c]) := by simp
    have hl : done ++ c :: t = (done ++ [c]) ++ t := by simp
    rw [hb, hl]
    apply ih
    rcases bareStep_start B m st (blen done) c with h | h
    · obtain ⟨a, b, h1, h2⟩ := hst
      exact ⟨a, b ++ [c], by rw [h1]; simp, by rw [h, h2]⟩
    · exact ⟨done ++ [c], [], by simp, by rw [h, hb]⟩

/-- the slice `&line[start..pos]` of `complete_path` never panics -/
theorem bareWordStart_split (l : Text) :
    ∃ a w, l = a ++ w ∧ bareWordStart B l = blen a ∧ splitAtByte l (bareWordStart B l) = some (a, w) := by
  obtain ⟨a, w, h1, h2⟩ := bareGo_boundary B l [] .normal 0 ⟨[], [], rfl, rfl⟩
  simp only [List.nil_append, blen_nil] at h1 h2
  refine ⟨a, w, h1, h2, ?_⟩
  unfold bareWordStart
  rw [h2]
  conv => lhs; arg 1; rw [h1]
  exact splitAtByte_append a w

/-- in normal mode the escaped text is read as one word: neither the mode nor `start` moves -/
theorem bareGo_escaped (h1 : B '"' = true) (h2 : B '\\' = true) (h3 : B '\'' = true) (s : Text)
    (i st : Nat) :
    bareGo B (s.flatMap (escChar '\\' B)) i .normal st = (.normal, st) := by
  induction s generalizing i with
  | nil => rfl
  | cons c t ih =>
    simp only [List.flatMap_cons, escChar]
    by_cases hc : B c = true
    · simp only [hc, if_true, List.cons_append, List.nil_append, bareGo, bareStep]
      simp [ih]
    · have hc' : B c = false := by simpa using hc
      have n1 : c ≠ '"' := fun h => hc (h ▸ h1)
      have n2 : c ≠ '\\' := fun h => hc (h ▸ h2)
      have n3 : c ≠ '\'' := fun h => hc (h ▸ h3)
      simp only [hc', Bool.false_eq_true, if_false, List.cons_append, List.nil_append, bareGo, bareStep,
        n1, n2, n3]
      exact ih _

/-- the scan of `pre ++ E`, where `E` is an escaped text and the scan of `pre` ends in normal
    mode with an empty word: the word is `E` -/
theorem bareWordStart_escaped (h1 : B '"' = true) (h2 : B '\\' = true) (h3 : B '\'' = true)
    (pre s : Text) (hpre : bareGo B pre 0 .normal 0 = (.normal, blen pre)) :
    bareWordStart B (pre ++ s.flatMap (escChar '\\' B)) = blen pre := by
  unfold bareWordStart
  simp only [bareGo_append, hpre, bareGo_escaped B h1 h2 h3]

/-- the loop of `bare_word_start` and the loop of `find_unclosed_quote` are in the same mode
    after every text, whatever the break set -/
theorem bareGo_mode (l : Text) (i j st qi : Nat) (m : ScanMode) :
    (bareGo B l i m st).1 = (scanGo l j m qi).1 := by
  induction l generalizing i j st qi m with
  | nil => rfl
  | cons c t ih =>
    simp only [bareGo, scanGo]
    have hs : (bareStep B m st i c).1 = (scanStep m qi j c).1 := by
      cases m <;> simp only [bareStep, scanStep] <;> (repeat' split) <;> simp_all
    rw [hs]
    exact ih _ _ _ _ _

end bare

/-! ### bare_word_start against the declarative reader -/

section reader
open Rl.Spec.Completion

/-- the reader's modes are the scanner's modes -/
def modeOf : LMode → ScanMode
  | .bare => .normal
  | .bareEsc => .escape
  | .dq => .doubleQuote
  | .dqEsc => .escapeInDoubleQuote
  | .sq => .singleQuote

theorem bareStep_lexStep (st : Lexed) (i : Nat) (c : Char) :
    bareStep defaultBreak (modeOf st.mode) st.start i c
      = (modeOf (lexStep defaultBreak st i c).mode, (lexStep defaultBreak st i c).start) := by
  have b1 : defaultBreak '"' = true := by decide
  have b3 : defaultBreak '\'' = true := by decide
  obtain ⟨start, mode, path, plain⟩ := st
  cases mode with
  | bare =>
    simp only [modeOf, bareStep, lexStep]
    by_cases h2 : c = '\\'
    · simp [h2]
    · by_cases h1 : c = '"'
      · subst h1; simp [b1]
      · by_cases h3 : c = '\''
        · subst h3; simp [b3]
        · cases hb : defaultBreak c <;> simp [h1, h2, h3]
  | bareEsc => simp [modeOf, bareStep, lexStep]
  | dq =>
    simp only [modeOf, bareStep, lexStep]
    by_cases h1 : c = '"'
    · subst h1; simp [b1]
    · by_cases h2 : c = '\\'
      · simp [h2]
      · simp [h1, h2]
  | dqEsc => simp [modeOf, bareStep, lexStep]
  | sq =>
    simp only [modeOf, bareStep, lexStep]
    by_cases h3 : c = '\''
    · subst h3; simp [b3]
    · simp [h3]

/-- the loop of `bare_word_start` (unix break set) computes the reader's mode and the reader's
    word start, on every text -/
theorem bareGo_lexGo (l : Text) (i : Nat) (st : Lexed) :
    bareGo defaultBreak l i (modeOf st.mode) st.start
      = (modeOf (lexGo defaultBreak l i st).mode, (lexGo defaultBreak l i st).start) := by
  induction l generalizing i st with
  | nil => rfl
  | cons c t ih =>
    simp only [bareGo, lexGo]
    rw [bareStep_lexStep]
    exact ih _ _

theorem bareGo_lex (l : Text) :
    bareGo defaultBreak l 0 .normal 0
      = (modeOf (lex defaultBreak l).mode, (lex defaultBreak l).start) :=
  bareGo_lexGo l 0 {}

end reader

/-! ### UTF-8 facts needed for `longest_common_prefix` -/

theorem bytes_cons (c : Char) (t : Text) : bytes (c :: t) = String.utf8EncodeChar c ++ bytes t := by
  simp [bytes]

theorem bytes_append (a b : Text) : bytes (a ++ b) = bytes a ++ bytes b := by
  simp [bytes]

theorem length_bytes (t : Text) : (bytes t).length = blen t := by
  induction t with
  | nil => rfl
  | cons c t ih => simp [bytes_cons, ih]

theorem byte_cont (y : UInt8) : ((y &&& 0x3f ||| 0x80) < 128 || (y &&& 0x3f ||| 0x80) ≥ 192) = false := by
  have : ∀ n : Fin 256, ((UInt8.ofNat n.val &&& 0x3f ||| 0x80) < 128
      || (UInt8.ofNat n.val &&& 0x3f ||| 0x80) ≥ 192) = false := by decide +kernel
  have h := this ⟨y.toNat, y.toNat_lt⟩
  simpa using h

theorem byte_first (x : UInt8) (h : x.IsUTF8FirstByte) : (x < 128 || x ≥ 192) = true := by
  have : ∀ n : Fin 256, (UInt8.ofNat n.val).IsUTF8FirstByte →
      ((UInt8.ofNat n.val) < 128 || (UInt8.ofNat n.val) ≥ 192) = true := by decide +kernel
  have h2 := this ⟨x.toNat, x.toNat_lt⟩
  simp at h2
  simpa using h2 h

/-- shape of one encoded character: a non-continuation byte, then continuation bytes only -/
theorem enc_shape (c : Char) : ∃ x rest, String.utf8EncodeChar c = x :: rest
    ∧ (x < 128 || x ≥ 192) = true ∧ ∀ y ∈ rest, (y < 128 || y ≥ 192) = false := by
  have hlen := String.length_utf8EncodeChar c
  cases henc : String.utf8EncodeChar c with
  | nil => exact absurd henc String.utf8EncodeChar_ne_nil
  | cons x rest =>
    refine ⟨x, rest, rfl, ?_, ?_⟩
    · have h0 : 0 < (String.utf8EncodeChar c).length := by simp [henc]
      have := (UInt8.isUTF8FirstByte_getElem_utf8EncodeChar (c := c) (i := 0) (hi := h0)).2 rfl
      have hx : (String.utf8EncodeChar c)[0] = x := by simp [henc]
      rw [hx] at this
      exact byte_first x this
    · match h : c.utf8Size, c.utf8Size_pos, c.utf8Size_le_four with
      | 1, _, _ =>
        rw [String.utf8EncodeChar_eq_singleton h] at henc
        have hr := (List.cons.inj henc).2
        intro y hy; rw [← hr] at hy; cases hy
      | 2, _, _ =>
        rw [String.utf8EncodeChar_eq_cons_cons h] at henc
        have hr := (List.cons.inj henc).2
        intro y hy; rw [← hr] at hy
        simp only [List.mem_cons, List.not_mem_nil, or_false] at hy
        subst hy; exact byte_cont _
      | 3, _, _ =>
        rw [String.utf8EncodeChar_eq_cons_cons_cons h] at henc
        have hr := (List.cons.inj henc).2
        intro y hy; rw [← hr] at hy
        simp only [List.mem_cons, List.not_mem_nil, or_false] at hy
        rcases hy with rfl | rfl <;> exact byte_cont _
      | 4, _, _ =>
        rw [String.utf8EncodeChar_eq_cons_cons_cons_cons h] at henc
        have hr := (List.cons.inj henc).2
        intro y hy; rw [← hr] at hy
        simp only [List.mem_cons, List.not_mem_nil, or_false] at hy
        rcases hy with rfl | rfl | rfl <;> exact byte_cont _

/-- the encoding is prefix free -/
theorem enc_prefix_free {a b : Char} {X Y : List UInt8}
    (h : String.utf8EncodeChar a ++ X = String.utf8EncodeChar b ++ Y) : a = b := by
  have ha := ByteArray.utf8DecodeChar?_utf8EncodeChar_append (b := X.toByteArray) (c := a)
  have hb := ByteArray.utf8DecodeChar?_utf8EncodeChar_append (b := Y.toByteArray) (c := b)
  rw [← List.toByteArray_append] at ha hb
  rw [h, hb] at ha
  exact (Option.some.inj ha).symm

/-- the test of `is_char_boundary` for an index other than 0 -/
def bd (b : List UInt8) (i : Nat) : Bool :=
  if i ≥ b.length then i = b.length
  else
    match b[i]? with
    | some x => x < 128 || x ≥ 192
    | none => false

theorem isCharBoundary_eq (b : List UInt8) (i : Nat) :
    isCharBoundary b i = if i = 0 then true else bd b i := rfl

theorem bd_append_right (a b : List UInt8) (i : Nat) (h : a.length ≤ i) :
    bd (a ++ b) i = bd b (i - a.length) := by
  unfold bd
  simp only [List.length_append, List.getElem?_append_right h]
  by_cases h1 : i ≥ a.length + b.length
  · have h2 : i - a.length ≥ b.length := by omega
    simp only [h1, h2, if_true]
    by_cases h3 : i = a.length + b.length
    · have : i - a.length = b.length := by omega
      simp [h3]
    · have : ¬ (i - a.length = b.length) := by omega
      simp [h3, this]
  · have h2 : ¬ (i - a.length ≥ b.length) := by omega
    simp only [h1, h2, if_false]

theorem bd_bytes_zero (t : Text) : bd (bytes t) 0 = true := by
  cases t with
  | nil => simp [bd, bytes]
  | cons c t =>
    obtain ⟨x, rest, henc, hx, _⟩ := enc_shape c
    simp [bd, bytes_cons, henc]
    simpa using hx

theorem isCharBoundary_bytes_eq_bd (t : Text) (i : Nat) : isCharBoundary (bytes t) i = bd (bytes t) i := by
  rw [isCharBoundary_eq]
  split
  · rename_i h; subst h; exact (bd_bytes_zero t).symm
  · rfl

/-- `is_char_boundary` on the bytes of a text is exactly "the text can be split there" -/
theorem isCharBoundary_bytes (t : Text) (i : Nat) :
    isCharBoundary (bytes t) i = (splitAtByte t i).isSome := by
  induction t generalizing i with
  | nil =>
    cases i with
    | zero => simp [isCharBoundary, splitAtByte]
    | succ n => simp [isCharBoundary, splitAtByte, bytes]
  | cons c t ih =>
    cases i with
    | zero => simp [isCharBoundary, splitAtByte]
    | succ n =>
      obtain ⟨x, rest, henc, hx, hrest⟩ := enc_shape c
      have hsz : c.utf8Size = rest.length + 1 := by
        rw [← String.length_utf8EncodeChar, henc]; rfl
      rw [isCharBoundary_bytes_eq_bd, bytes_cons]
      simp only [splitAtByte]
      by_cases hle : c.utf8Size ≤ n + 1
      · simp only [hle, if_true]
        rw [bd_append_right _ _ _ (by simpa using hle), String.length_utf8EncodeChar,
          ← isCharBoundary_bytes_eq_bd, ih]
        cases splitAtByte t (n + 1 - c.utf8Size) <;> rfl
      · simp only [hle, if_false]
        have hn : n < rest.length := by omega
        unfold bd
        rw [henc]
        simp only [List.cons_append, List.getElem?_cons_succ]
        rw [List.getElem?_append_left hn, List.getElem?_eq_getElem hn]
        simp only [Option.isSome_none]
        rw [if_neg (by simp; omega)]
        exact hrest _ (List.getElem_mem hn)

theorem bytes_prefix {p c : Text} (h : bytes p <+: bytes c) : p <+: c := by
  induction p generalizing c with
  | nil => exact List.nil_prefix
  | cons a p ih =>
    cases c with
    | nil =>
      exfalso
      have := h.length_le
      simp [length_bytes] at this
      have := Char.utf8Size_pos a
      omega
    | cons b c =>
      obtain ⟨Z, hZ⟩ := h
      rw [bytes_cons, bytes_cons, List.append_assoc] at hZ
      have hab : a = b := enc_prefix_free hZ
      subst hab
      have hZ' := List.append_cancel_left hZ
      have := ih ⟨Z, hZ'⟩
      exact (List.cons_prefix_cons).2 ⟨rfl, this⟩

/-! ### the byte loop and the back-off -/

/-- every candidate has a byte at `n`, equal to the first candidate's -/
def AgreeAll (b0 : List UInt8) (tl : List (List UInt8)) (n : Nat) : Prop :=
  n < b0.length ∧ ∀ b ∈ tl, n < b.length ∧ b[n]? = b0[n]?

theorem agreeAt_iff (b0 : List UInt8) (tl : List (List UInt8)) (htl : tl ≠ []) (n : Nat) :
    agreeAt (b0 :: tl) n = true ↔ AgreeAll b0 tl n := by
  induction tl generalizing b0 with
  | nil => exact absurd rfl htl
  | cons b1 r ih =>
    cases r with
    | nil =>
      simp only [agreeAt, AgreeAll, List.mem_singleton, forall_eq]
      by_cases h : b0.length ≤ n ∨ b1.length ≤ n ∨ b0[n]? ≠ b1[n]?
      · simp only [h, if_true, Bool.false_eq_true, false_iff]
        rintro ⟨h0, h1, h2⟩
        rcases h with h | h | h
        · omega
        · omega
        · exact h h2.symm
      · simp only [h, if_false, true_iff]
        simp only [not_or, Nat.not_le, ne_eq, Decidable.not_not] at h
        exact ⟨h.1, h.2.1, h.2.2.symm⟩
    | cons b2 r' =>
      have ih' := ih b1 (by simp)
      simp only [agreeAt] at ih' ⊢
      by_cases h : b0.length ≤ n ∨ b1.length ≤ n ∨ b0[n]? ≠ b1[n]?
      · simp only [h, if_true, Bool.false_eq_true, false_iff]
        rintro ⟨h0, hall⟩
        have := hall b1 (by simp)
        rcases h with h | h | h
        · omega
        · omega
        · exact h this.2.symm
      · simp only [h, if_false]
        simp only [not_or, Nat.not_le, ne_eq, Decidable.not_not] at h
        rw [ih']
        constructor
        · rintro ⟨h1, hall⟩
          refine ⟨h.1, ?_⟩
          intro b hb
          rcases List.mem_cons.mp hb with rfl | hb
          · exact ⟨h.2.1, h.2.2.symm⟩
          · have := hall b hb
            exact ⟨this.1, this.2.trans h.2.2.symm⟩
        · rintro ⟨h0, hall⟩
          refine ⟨h.2.1, ?_⟩
          intro b hb
          have := hall b (List.mem_cons_of_mem _ hb)
          exact ⟨this.1, this.2.trans h.2.2⟩

theorem lcpLoop_spec (bs : List (List UInt8)) (fuel n : Nat) :
    n ≤ lcpLoop bs fuel n ∧ lcpLoop bs fuel n ≤ n + fuel
      ∧ (∀ j, n ≤ j → j < lcpLoop bs fuel n → agreeAt bs j = true)
      ∧ (lcpLoop bs fuel n < n + fuel → agreeAt bs (lcpLoop bs fuel n) = false) := by
  induction fuel generalizing n with
  | zero =>
    simp only [lcpLoop]
    refine ⟨Nat.le_refl _, by omega, ?_, ?_⟩
    · intro j h1 h2; omega
    · intro h; omega
  | succ f ih =>
    simp only [lcpLoop]
    by_cases ha : agreeAt bs n = true
    · rw [if_pos ha]
      obtain ⟨h1, h2, h3, h4⟩ := ih (n + 1)
      refine ⟨by omega, by omega, ?_, ?_⟩
      · intro j hj1 hj2
        by_cases hjn : j = n
        · subst hjn; exact ha
        · exact h3 j (by omega) hj2
      · intro h; exact h4 (by omega)
    · rw [if_neg ha]
      refine ⟨Nat.le_refl _, by omega, ?_, ?_⟩
      · intro j h1 h2; omega
      · intro _; simpa using ha

theorem backOff_spec (b : List UInt8) (n : Nat) :
    backOff b n ≤ n ∧ isCharBoundary b (backOff b n) = true
      ∧ ∀ j, backOff b n < j → j ≤ n → isCharBoundary b j = false := by
  induction n with
  | zero =>
    simp only [backOff]
    refine ⟨Nat.le_refl _, rfl, ?_⟩
    intro j h1 h2; omega
  | succ n ih =>
    simp only [backOff]
    by_cases h : isCharBoundary b (n + 1) = true
    · rw [if_pos h]
      refine ⟨Nat.le_refl _, h, ?_⟩
      intro j h1 h2; omega
    · rw [if_neg h]
      obtain ⟨h1, h2, h3⟩ := ih
      refine ⟨by omega, h2, ?_⟩
      intro j hj1 hj2
      by_cases hj : j = n + 1
      · subst hj; simpa using h
      · exact h3 j hj1 (by omega)

theorem take_eq_of_agree {a b : List UInt8} {m : Nat}
    (h : ∀ j, j < m → a[j]? = b[j]?) : a.take m = b.take m := by
  apply List.ext_getElem?
  intro i
  simp only [List.getElem?_take]
  split
  · rename_i hi; exact h i hi
  · rfl

/-- what `longest_common_prefix` computes for at least two candidates -/
theorem lcp_core (c0 : Text) (ctl : List Text) (hne : ctl ≠ []) :
    ∃ p r, c0 = p ++ r ∧ lcpLen (c0 :: ctl) = blen p
      ∧ (∀ c ∈ c0 :: ctl, p <+: c)
      ∧ (∀ q, (∀ c ∈ c0 :: ctl, q <+: c) → q <+: p) := by
  have htl : ctl.map bytes ≠ [] := by simpa using hne
  have hlen : lcpLen (c0 :: ctl)
      = backOff (bytes c0) (lcpLoop (bytes c0 :: ctl.map bytes) ((bytes c0).length + 1) 0) := by
    simp [lcpLen]
  generalize hn0 : lcpLoop (bytes c0 :: ctl.map bytes) ((bytes c0).length + 1) 0 = n0 at hlen
  obtain ⟨_, hub, hagree, hstop⟩ := lcpLoop_spec (bytes c0 :: ctl.map bytes) ((bytes c0).length + 1) 0
  rw [hn0] at hub hagree hstop
  have hall : ∀ j, j < n0 → AgreeAll (bytes c0) (ctl.map bytes) j := fun j hj =>
    (agreeAt_iff _ _ htl j).1 (hagree j (Nat.zero_le _) hj)
  have hn0le : n0 ≤ (bytes c0).length := by
    by_cases h : n0 ≤ (bytes c0).length
    · exact h
    · have := (hall (bytes c0).length (by omega)).1
      omega
  have hstop' : ¬ AgreeAll (bytes c0) (ctl.map bytes) n0 := by
    intro h
    have := hstop (by omega)
    rw [(agreeAt_iff _ _ htl n0).2 h] at this
    cases this
  obtain ⟨hnle, hbnd, hmax⟩ := backOff_spec (bytes c0) n0
  rw [← hlen] at hnle hbnd hmax
  generalize lcpLen (c0 :: ctl) = n at *
  rw [isCharBoundary_bytes] at hbnd
  cases hsp : splitAtByte c0 n with
  | none => simp [hsp] at hbnd
  | some pr =>
    obtain ⟨p, r⟩ := pr
    obtain ⟨hc0, hnp⟩ := splitAtByte_some hsp
    refine ⟨p, r, hc0, hnp, ?_, ?_⟩
    · intro c hc
      rcases List.mem_cons.mp hc with rfl | hc
      · exact ⟨r, hc0.symm⟩
      · apply bytes_prefix
        have hb : bytes c ∈ ctl.map bytes := List.mem_map_of_mem hc
        have ht : (bytes c).take n = (bytes c0).take n :=
          take_eq_of_agree (fun j hj => ((hall j (by omega)).2 _ hb).2)
        have : (bytes c0).take n = bytes p := by
          rw [hc0, bytes_append, hnp, ← length_bytes p, List.take_left']
          rfl
        rw [← this, ← ht]
        exact List.take_prefix _ _
    · intro q hq
      obtain ⟨r', hr'⟩ := hq c0 (by simp)
      have hk : blen q ≤ n0 := by
        by_cases h : blen q ≤ n0
        · exact h
        · exfalso
          apply hstop'
          have hq0 : (bytes c0)[n0]? = (bytes q)[n0]? := by
            rw [← hr', bytes_append, List.getElem?_append_left (by rw [length_bytes]; omega)]
          refine ⟨by rw [← hr', bytes_append, List.length_append, length_bytes q]; omega, ?_⟩
          intro b hb
          obtain ⟨c, hc, rfl⟩ := List.mem_map.mp hb
          obtain ⟨x, hx⟩ := hq c (List.mem_cons_of_mem _ hc)
          refine ⟨by rw [← hx, bytes_append, List.length_append, length_bytes q]; omega, ?_⟩
          rw [hq0, ← hx, bytes_append, List.getElem?_append_left (by rw [length_bytes]; omega)]
      have hkb : isCharBoundary (bytes c0) (blen q) = true := by
        rw [isCharBoundary_bytes, ← hr', splitAtByte_append]; rfl
      have hkn : blen q ≤ n := by
        by_cases h : blen q ≤ n
        · exact h
        · have := hmax (blen q) (by omega) hk
          rw [hkb] at this; cases this
      have hp : p <+: c0 := ⟨r, hc0.symm⟩
      have hq' : q <+: c0 := ⟨r', hr'⟩
      rcases List.prefix_or_prefix_of_prefix hq' hp with h | ⟨x, hx⟩
      · exact h
      · have : blen x = 0 := by
          have := congrArg blen hx
          simp at this; omega
        have hx0 : x = [] := blen_eq_zero.mp this
        subst hx0
        simp at hx
        subst hx
        exact List.prefix_refl _


/-! ### completing again from the inserted text -/

/-- the directory part of a path is empty or ends with the separator -/
theorem splitPath_fst_rev (path : Text) :
    ∃ R : Text, (splitPath path).1 = R.reverse ∧ R.takeWhile (· ≠ '/') = [] := by
  refine ⟨path.reverse.dropWhile (· ≠ '/'), ?_, ?_⟩
  · unfold splitPath
    simp only
    have h := List.takeWhile_append_dropWhile (p := (· ≠ '/')) (l := path.reverse)
    have hp : path = (path.reverse.dropWhile (· ≠ '/')).reverse ++ (path.reverse.takeWhile (· ≠ '/')).reverse := by
      rw [← List.reverse_append, h, List.reverse_reverse]
    have hl : path.length - (path.reverse.takeWhile (· ≠ '/')).length
        = ((path.reverse.dropWhile (· ≠ '/')).reverse).length := by
      have := congrArg List.length hp
      simp at this ⊢
      omega
    rw [hl]
    conv => lhs; arg 2; rw [hp]
    exact List.take_left' rfl
  · cases h : path.reverse.dropWhile (· ≠ '/') with
    | nil => rfl
    | cons x xs =>
      have hne : path.reverse.dropWhile (· ≠ '/') ≠ [] := by rw [h]; exact List.cons_ne_nil _ _
      have := List.head_dropWhile_not (p := (· ≠ '/')) (l := path.reverse) hne
      simp only [h, List.head_cons] at this
      simp [List.takeWhile, this]

theorem splitPath_append (path d : Text) (hd : '/' ∉ d) :
    splitPath ((splitPath path).1 ++ d) = ((splitPath path).1, d) := by
  obtain ⟨R, hR, hT⟩ := splitPath_fst_rev path
  rw [hR]
  unfold splitPath
  simp only
  have htw : ((R.reverse ++ d).reverse).takeWhile (· ≠ '/') = d.reverse := by
    rw [List.reverse_append, List.reverse_reverse,
      List.takeWhile_append_of_pos (by
        intro a ha
        have : a ∈ d := by simpa using ha
        simp; intro h; exact hd (h ▸ this)), hT]
    simp
  rw [htw]
  simp only [List.reverse_reverse, List.length_append, List.length_reverse, Prod.mk.injEq, and_true]
  have : R.length + d.length - d.length = R.reverse.length := by simp
  rw [this]
  exact List.take_left' rfl

/-- an entry offered for a path is offered again for (directory part ++ its name), with the
    same replacement -/
theorem filenameComplete_again (fs : Listing) (path : Text) (esc : Option Char) (brk : Char → Bool)
    (q : Quote) (ms : List (Text × Text)) (h : filenameComplete fs path esc brk q = some ms)
    (d r : Text) (hm : (d, r) ∈ ms) (hd : '/' ∉ d) :
    ∃ ms', filenameComplete fs ((splitPath path).1 ++ d) esc brk q = some ms' ∧ (d, r) ∈ ms' := by
  have hs2 := splitPath_append path d hd
  unfold filenameComplete at h ⊢
  rw [hs2]
  generalize splitPath path = sp at h
  obtain ⟨dn, fname⟩ := sp
  simp only at h ⊢
  split at h
  · cases h
  · rename_i hcond
    rw [if_neg hcond]
    split at h
    · simp only [Option.some.injEq] at h
      subst h; cases hm
    · rename_i hex
      rw [if_neg hex]
      simp only [Option.some.injEq] at h
      subst h
      refine ⟨_, rfl, ?_⟩
      obtain ⟨en, hen, heq⟩ := List.mem_map.mp hm
      simp only [Prod.mk.injEq] at heq
      obtain ⟨hn, hr⟩ := heq
      have hf := (List.mem_filter.mp hen)
      apply List.mem_map.mpr
      refine ⟨en, List.mem_filter.mpr ⟨hf.1, ?_⟩, by rw [hn] at hr; simp [hn, ← hr]⟩
      simp only [Bool.and_eq_true] at hf ⊢
      refine ⟨hf.2.1, ?_⟩
      rw [← hn]
      simp

/-- `complete_path` level: if the re-typed line is parsed to the same context and to the path
    (directory part ++ name), the entry is among the candidates again, same replacement -/
theorem completePath_again (B D : Char → Bool) (fs : Listing) (path : Text) (esc : Option Char)
    (brk : Char → Bool) (q : Quote) (ms : List (Text × Text))
    (h : filenameComplete fs path esc brk q = some ms) (d r : Text) (hm : (d, r) ∈ ms) (hd : '/' ∉ d)
    (line2 : Text) (start : Nat)
    (hp : parsePath B D line2 (blen line2) = some (start, (splitPath path).1 ++ d, esc, brk, q)) :
    ∃ cs, completePath B D fs line2 (blen line2) = .ok (start, cs) ∧ (d, r) ∈ cs := by
  obtain ⟨ms', h', hm'⟩ := filenameComplete_again fs path esc brk q ms h d r hm hd
  unfold completePath
  rw [hp]
  simp only [h']
  exact ⟨_, rfl, List.mem_mergeSort.mpr hm'⟩

end Rl.Completion
