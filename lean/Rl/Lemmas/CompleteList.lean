/-
  C14, list mode: `complete_line` with `CompletionType::List` rewrites the span between the completer's
  start and the cursor to the longest common prefix when that is longer than the span (or there is one
  candidate), and leaves line and cursor alone otherwise — whatever follows (second Tab, listing).
-/
import Rl.Lemmas.CompleteLoop
namespace Rl
variable (S : Segmenter) (U : UData) (cfg : EdCfg)

theorem wp_lbQuiet_any {α : Type} {op : LM α} {s : Ed} {Q : α → Ed → Prop} {E : Outcome → Ed → Prop}
    (hq : ∀ a l ns, op s.line = .ok (a, l, ns) → Q a { s with line := l }) (he : E .panic s) :
    wp (lbQuiet op) Q E s := by
  unfold wp lbQuiet
  cases h : op s.line with
  | error e => exact he
  | ok r => obtain ⟨a, l, ns⟩ := r; exact hq a l ns h

/-- what list mode leaves on the line (`x ++ y ++ z`, start `blen x`, cursor after `y`) -/
def listShown (x y z : Text) (cands : List Text) : Text × Nat :=
  match lcpChars cands with
  | some lcp =>
    if blen lcp > blen y || cands.length == 1 then (x ++ lcp ++ z, blen x + blen lcp)
    else (x ++ y ++ z, blen x + blen y)
  | none => (x ++ y ++ z, blen x + blen y)

theorem completeLine_list (x y z : Text) (cands : List Text) (fuel : Nat) (s : Ed)
    (hlist : cfg.listCompletion = true) (hne : cands.isEmpty = false)
    (hb : s.line.buf = x ++ y ++ z) (hp : s.line.pos = blen x + blen y)
    (hc : cfg.completer s.line.buf s.line.pos = (blen x, cands)) :
    wp (completeLine S U cfg fuel) (fun _ s' => (s'.line.buf, s'.line.pos) = listShown x y z cands)
      (fun _ _ => True) s := by
  -- the part after the prefix has been put in: nothing changes the text, the cursor comes back
  have tail : ∀ s1 : Ed, (s1.line.buf, s1.line.pos) = listShown x y z cands →
      wp (if cands.length ≤ 1 then pure none
          else do
            let cmd ← nextCmd S U cfg fuel true true
            if (cmd != Cmd.complete) = true then pure (some cmd)
            else do
              let savePos ← (fun s => .ok (s.line.pos, s) : EM Nat)
              editMove S U cfg (LB.moveEnd S U)
              lbQuiet (LB.setPosChecked S U savePos)
              refreshLine S U cfg
              pure none : EM (Option Cmd))
        (fun _ s' => (s'.line.buf, s'.line.pos) = listShown x y z cands) (fun _ _ => True) s1 := by
    intro s1 h1
    split
    · exact h1
    · rw [wp_bind]
      refine wp_nextCmd S U cfg (fun cmd s2 hc2 => ?_) (fun _ _ _ => trivial)
      obtain ⟨l2, _⟩ := Ed.coreNC_eq hc2
      split
      · rw [wp_pure, l2]; exact h1
      · rw [wp_bind', wp_read, wp_bind]
        unfold editMove
        rw [wp_bind]
        refine wp_lbQuiet_any (fun a l ns ho => ?_) trivial
        obtain ⟨e1, _, _, _⟩ := (PosOnly.moveEnd S U).h _ _ _ _ ho
        have fin : ∀ s3 : Ed, s3.line = l →
            wp (do
              lbQuiet (LB.setPosChecked S U s2.line.pos)
              refreshLine S U cfg
              pure none : EM (Option Cmd))
              (fun _ s' => (s'.line.buf, s'.line.pos) = listShown x y z cands) (fun _ _ => True) s3 := by
          intro s3 h3
          rw [wp_bind]
          refine wp_lbQuiet_any (fun a l' ns' ho' => ?_) trivial
          rw [wp_bind]
          refine wp_refreshLine S U cfg (fun s5 hc5 => ?_) (fun _ _ _ => trivial)
          rw [wp_pure, (Ed.core_eq hc5).1]
          unfold LB.setPosChecked at ho'
          split at ho'
          · cases ho'
            show (s3.line.buf, s2.line.pos) = _
            rw [h3, e1, l2]; exact h1
          · cases ho'
        split
        · refine wp_moveCursor S U cfg fun s3 hc3 => ?_
          exact fin s3 (Ed.core_eq hc3).1
        · rw [wp_pure]
          exact fin _ rfl
  unfold completeLine
  simp only [wp_bind, wp_getLine, hc, hne, hlist, Bool.false_eq_true, if_false, Bool.not_true]
  cases hl : lcpChars cands with
  | none =>
    refine tail s ?_
    unfold listShown; rw [hl, hb, hp]
  | some lcp =>
    have hnp : ¬ (blen x > s.line.pos) := by rw [hp]; omega
    simp only [hnp, if_false]
    have hsub : s.line.pos - blen x = blen y := by rw [hp]; omega
    rw [hsub]
    split
    · rename_i hext
      simp only [wp_bind]
      refine wp_lb S U (LB.replace_span S U x y z lcp s.line hb hp) ?_
      refine wp_refreshLine S U cfg (fun s2 hc2 => ?_) (fun _ _ _ => trivial)
      refine tail s2 ?_
      rw [(Ed.core_eq hc2).1]
      unfold listShown; simp only [hl, if_pos hext]
    · rename_i hext
      refine tail s ?_
      unfold listShown; simp only [hl, if_neg hext, hb, hp]

/-! ### the model's `lcpChars` and the spec's `lcpOf` -/

theorem lcpChars_common_eq : ∀ a b : Text, lcpChars.common a b = Spec.commonPrefix a b
  | [], _ => by cases ‹Text› <;> rfl
  | _ :: _, [] => rfl
  | x :: xs, y :: ys => by
    unfold lcpChars.common Spec.commonPrefix
    rw [lcpChars_common_eq xs ys]

theorem lcpChars_common_fun : lcpChars.common = Spec.commonPrefix := by
  funext a b; exact lcpChars_common_eq a b

/-- the model's prefix function in terms of the spec's: nothing for no candidate, the candidate itself
    for one (even an empty one), the spec's common prefix for two or more unless that is empty -/
theorem lcpChars_spec (cands : List Text) :
    lcpChars cands =
      match cands with
      | [] => none
      | [c] => some c
      | c :: d :: cs => if (Spec.lcpOf (c :: d :: cs)).isEmpty then none else some (Spec.lcpOf (c :: d :: cs)) := by
  match cands with
  | [] => rfl
  | [c] => rfl
  | c :: d :: cs =>
    simp only [lcpChars, Spec.lcpOf, lcpChars_common_fun]
    first | rfl | (split <;> rfl) | (congr 1)

theorem commonPrefix_prefix_left : ∀ a b : Text, Spec.commonPrefix a b <+: a
  | [], b => by cases b <;> exact List.nil_prefix
  | _ :: _, [] => List.nil_prefix
  | x :: xs, y :: ys => by
    unfold Spec.commonPrefix
    split
    · exact List.cons_prefix_cons.mpr ⟨rfl, commonPrefix_prefix_left xs ys⟩
    · exact List.nil_prefix

theorem commonPrefix_prefix_right : ∀ a b : Text, Spec.commonPrefix a b <+: b
  | [], b => by cases b <;> exact List.nil_prefix
  | _ :: _, [] => List.nil_prefix
  | x :: xs, y :: ys => by
    unfold Spec.commonPrefix
    split
    · rename_i h
      have : x = y := by simpa using h
      exact List.cons_prefix_cons.mpr ⟨this, commonPrefix_prefix_right xs ys⟩
    · exact List.nil_prefix

theorem foldl_commonPrefix_prefix (cs : List Text) : ∀ acc : Text,
    cs.foldl Spec.commonPrefix acc <+: acc ∧ ∀ c ∈ cs, cs.foldl Spec.commonPrefix acc <+: c := by
  induction cs with
  | nil => intro acc; exact ⟨List.prefix_refl _, fun _ h => by cases h⟩
  | cons d cs ih =>
    intro acc
    obtain ⟨h1, h2⟩ := ih (Spec.commonPrefix acc d)
    refine ⟨h1.trans (commonPrefix_prefix_left acc d), fun c hc => ?_⟩
    rcases List.mem_cons.mp hc with rfl | hc
    · exact h1.trans (commonPrefix_prefix_right acc c)
    · exact h2 c hc

/-- the spec's longest common prefix is a prefix of every candidate -/
theorem lcpOf_prefix (cands : List Text) : ∀ c ∈ cands, Spec.lcpOf cands <+: c := by
  cases cands with
  | nil => intro c h; cases h
  | cons c0 cs =>
    intro c hc
    obtain ⟨h1, h2⟩ := foldl_commonPrefix_prefix cs c0
    rcases List.mem_cons.mp hc with rfl | hc
    · exact h1
    · exact h2 c hc
end Rl
