/-
  C17: `KillReports` — for every movement other than the two character movements, a `LineBuffer::kill`
  that answers `true` has notified, between `start_killing` and `stop_killing`, a deletion the kill ring
  takes up (forward, backward, or around the cursor with some text).  A small calculus over `LM`
  (`KSil`: notifies nothing; `KHd`: notifies such a deletion and no `stop_killing`; `KRep`: does so whenever
  it answers `true`), one lemma per helper of `kill`, then the 13 arms.
-/
import Rl.Lemmas.EditorPopLocal
namespace Rl
open LM

/-- notifies nothing -/
def KSil {α : Type} (m : LM α) : Prop := ∀ lb a lb' ns, m lb = .ok (a, lb', ns) → ns = []

/-- notifies a deletion the ring takes up, and no `stop_killing` -/
def KHd {α : Type} (m : LM α) : Prop :=
  ∀ lb a lb' ns, m lb = .ok (a, lb', ns) → (∀ n ∈ ns, n ≠ .stopKill) ∧ ∃ n ∈ ns, HardDel n

/-- notifies no `stop_killing`, and a deletion the ring takes up whenever the answer satisfies `P` -/
def KRep {α : Type} (P : α → Prop) (m : LM α) : Prop :=
  ∀ lb a lb' ns, m lb = .ok (a, lb', ns) → (∀ n ∈ ns, n ≠ .stopKill) ∧ (P a → ∃ n ∈ ns, HardDel n)

namespace KSil
variable {α β : Type}
theorem get : KSil LM.get := by intro lb a lb' ns h; cases h; rfl
theorem pure (a : α) : KSil (Pure.pure a : LM α) := by intro lb r lb' ns h; cases h; rfl
theorem panic : KSil (LM.panic : LM α) := by intro lb r lb' ns h; cases h
theorem setPos (p : Nat) : KSil (LM.setPos p) := by intro lb r lb' ns h; cases h; rfl
theorem ro (f : LB → Except Panic α) : KSil (LM.ro f) := by
  intro lb r lb' ns h; unfold LM.ro at h; split at h <;> cases h; rfl
theorem lift (e : Except Panic α) : KSil (LM.lift e) := by
  intro lb r lb' ns h; unfold LM.lift at h; split at h <;> cases h; rfl
theorem setPosChecked (S : Segmenter) (U : UData) (p : Nat) : KSil (LB.setPosChecked S U p) := by
  intro lb r lb' ns h; unfold LB.setPosChecked at h; split at h <;> cases h; rfl
theorem bind {m : LM α} {k : α → LM β} (hm : KSil m) (hk : ∀ a, KSil (k a)) : KSil (m >>= k) := by
  intro lb r lb' ns h
  obtain ⟨a, lb1, n1, n2, h1, h2, rfl⟩ := LM.bind_ok h
  rw [hm _ _ _ _ h1, hk a _ _ _ _ h2]; rfl
end KSil

macro "sil_step" : tactic => `(tactic| first
  | with_reducible refine KSil.bind ?_ (fun _ => ?_) | with_reducible exact KSil.get | with_reducible exact KSil.pure _
  | with_reducible exact KSil.ro _ | with_reducible exact KSil.lift _ | with_reducible exact KSil.setPos _
  | with_reducible exact KSil.setPosChecked _ _ _ | with_reducible exact KSil.panic
  | dsimp only | split)
macro "sil_auto" : tactic => `(tactic| repeat (any_goals sil_step))

theorem sil_moveHome (S : Segmenter) (U : UData) : KSil (LB.moveHome S U) := by unfold LB.moveHome; sil_auto
theorem sil_moveBufferStart (S : Segmenter) (U : UData) : KSil (LB.moveBufferStart S U) := by
  unfold LB.moveBufferStart; sil_auto

namespace KHd
variable {α β : Type}
theorem drain_fwd (a b : Nat) : KHd (LB.drain a b .forward) := by
  intro lb r lb' ns h
  unfold LB.drain at h
  split at h
  · cases h
    refine ⟨?_, _, List.mem_singleton.mpr rfl, trivial⟩
    intro n hn; rw [List.mem_singleton] at hn; subst hn; intro hh; cases hh
  · cases h
theorem drain_bwd (a b : Nat) : KHd (LB.drain a b .backward) := by
  intro lb r lb' ns h
  unfold LB.drain at h
  split at h
  · cases h
    refine ⟨?_, _, List.mem_singleton.mpr rfl, trivial⟩
    intro n hn; rw [List.mem_singleton] at hn; subst hn; intro hh; cases hh
  · cases h
theorem bind_left {m : LM α} {k : α → LM β} (hm : KSil m) (hk : ∀ a, KHd (k a)) : KHd (m >>= k) := by
  intro lb r lb' ns h
  obtain ⟨a, lb1, n1, n2, h1, h2, rfl⟩ := LM.bind_ok h
  rw [hm _ _ _ _ h1]; exact hk a _ _ _ _ h2
theorem bind_right {m : LM α} {k : α → LM β} (hm : KHd m) (hk : ∀ a, KSil (k a)) : KHd (m >>= k) := by
  intro lb r lb' ns h
  obtain ⟨a, lb1, n1, n2, h1, h2, rfl⟩ := LM.bind_ok h
  rw [hk a _ _ _ _ h2, List.append_nil]; exact hm _ _ _ _ h1
end KHd

namespace KRep
variable {α β : Type}
theorem pure {P : α → Prop} {a : α} (h : ¬ P a) : KRep P (Pure.pure a : LM α) := by
  intro lb r lb' ns hr; cases hr
  refine ⟨?_, fun hp => absurd hp h⟩
  intro n hn; cases hn
theorem panic {P : α → Prop} : KRep P (LM.panic : LM α) := by intro lb r lb' ns hr; cases hr
theorem of_hd {P : α → Prop} {m : LM α} (h : KHd m) : KRep P m :=
  fun lb a lb' ns hr => ⟨(h lb a lb' ns hr).1, fun _ => (h lb a lb' ns hr).2⟩
theorem bind_sil {P : β → Prop} {m : LM α} {k : α → LM β} (hm : KSil m) (hk : ∀ a, KRep P (k a)) : KRep P (m >>= k) := by
  intro lb r lb' ns h
  obtain ⟨a, lb1, n1, n2, h1, h2, rfl⟩ := LM.bind_ok h
  rw [hm _ _ _ _ h1]; exact hk a _ _ _ _ h2
end KRep

syntax "rep_extra" : tactic
macro_rules | `(tactic| rep_extra) => `(tactic| fail "no rule")

macro "hd_step" : tactic => `(tactic| first
  | with_reducible exact KHd.drain_fwd _ _ | with_reducible exact KHd.drain_bwd _ _
  | (with_reducible refine KHd.bind_left ?_ (fun _ => ?_); focus (sil_auto; done))
  | (with_reducible refine KHd.bind_right ?_ (fun _ => by sil_auto))
  | dsimp only | split)
macro "hd_auto" : tactic => `(tactic| repeat (any_goals hd_step))

macro "rep_step" : tactic => `(tactic| first
  | with_reducible exact KRep.pure (by decide) | with_reducible exact KRep.panic
  | rep_extra
  | (with_reducible refine KRep.bind_sil ?_ (fun _ => ?_); focus (sil_auto; done))
  | (with_reducible refine KRep.of_hd ?_; focus (hd_auto; done))
  | dsimp only | split)
macro "rep_auto" : tactic => `(tactic| repeat (any_goals rep_step))

/-! ### the helpers of `kill` -/

abbrev T (r : Bool) : Prop := r = true

theorem rep_backspace (S : Segmenter) (U : UData) (n : Nat) : KRep T (LB.backspace S U n) := by
  unfold LB.backspace; rep_auto
theorem rep_killBuffer (S : Segmenter) (U : UData) : KRep T (LB.killBuffer S U) := by
  unfold LB.killBuffer; rep_auto
theorem rep_discardBuffer (S : Segmenter) (U : UData) : KRep T (LB.discardBuffer S U) := by
  unfold LB.discardBuffer; rep_auto
theorem rep_deletePrevWord (S : Segmenter) (U : UData) (d : Word) (n : Nat) : KRep T (LB.deletePrevWord S U d n) := by
  unfold LB.deletePrevWord; rep_auto
theorem rep_deleteWord (S : Segmenter) (U : UData) (a : At) (d : Word) (n : Nat) : KRep T (LB.deleteWord S U a d n) := by
  unfold LB.deleteWord; rep_auto
theorem rep_deleteTo (S : Segmenter) (U : UData) (cs : CharSearch) (n : Nat) : KRep T (LB.deleteTo S U cs n) := by
  unfold LB.deleteTo; rep_auto

macro_rules | `(tactic| rep_extra) => `(tactic| with_reducible exact rep_backspace _ _ _)

theorem rep_discardLine (S : Segmenter) (U : UData) : KRep T (LB.discardLine S U) := by
  unfold LB.discardLine; rep_auto

/-! ### with a well-formed line at entry -/

def KRepW (m : LM Bool) : Prop :=
  ∀ lb r lb' ns, WF lb → m lb = .ok (r, lb', ns) →
    (∀ n ∈ ns, n ≠ .stopKill) ∧ (r = true → ∃ n ∈ ns, HardDel n)

theorem KRep.w {m : LM Bool} (h : KRep T m) : KRepW m := fun lb r lb' ns _ hr => h lb r lb' ns hr

/-- the bracket `kill` puts around every movement but the two character movements -/
def wrapK (m : LM Bool) : LM Bool := do
  LM.notify .startKill
  let k ← m
  LM.notify .stopKill
  pure k

theorem wrapK_reports {m : LM Bool} (hm : KRepW m) {lb lb' : LB} {ns : List Notif} (hw : WF lb)
    (h : wrapK m lb = .ok (true, lb', ns)) :
    ∃ mid, ns = .startKill :: (mid ++ [.stopKill]) ∧ (∀ n ∈ mid, n ≠ .stopKill) ∧ ∃ n ∈ mid, HardDel n := by
  unfold wrapK at h
  cases hm' : m lb with
  | error e => simp [LM.bind_apply, LM.notify, hm'] at h
  | ok v =>
    obtain ⟨r0, lb1, n1⟩ := v
    simp [LM.bind_apply, LM.notify, hm'] at h
    obtain ⟨rfl, rfl, rfl⟩ := h
    obtain ⟨h1, h2⟩ := hm lb _ _ _ hw hm'
    exact ⟨_, by simp, h1, h2 rfl⟩

theorem nil_ok : (∀ n ∈ ([] : List Notif), n ≠ .stopKill) ∧ (false = true → ∃ n ∈ ([] : List Notif), HardDel n) :=
  ⟨fun n hn => (by cases hn), fun hh => (by cases hh)⟩

theorem single_fwd (a : Nat) (y : Text) :
    (∀ n ∈ [Notif.del a y .forward], n ≠ .stopKill) ∧ ∃ n ∈ [Notif.del a y .forward], HardDel n := by
  refine ⟨?_, _, List.mem_singleton.mpr rfl, trivial⟩
  intro n hn; rw [List.mem_singleton] at hn; subst hn; intro hh; cases hh

theorem repW_killLine (S : Segmenter) (U : UData) : KRepW (LB.killLine S U) := by
  intro lb r lb' ns h hrun
  obtain ⟨hleb, hlele⟩ := lineEndOf_spec lb h
  have hel := endOfLine_eq lb h
  unfold LB.killLine at hrun
  by_cases hc : (!lb.buf.isEmpty && decide (lb.pos < lb.len)) = true
  · have hc' : ¬lb.buf = [] ∧ lb.pos < lb.len := by simpa using hc
    by_cases hse : lb.pos = Spec.lineEndOf lb.buf lb.pos
    · cases hd : LB.delete S U 1 lb with
      | error e => simp [LM.bind_apply, LM.get, hc', LM.ro, hel, ← hse, hd] at hrun
      | ok v =>
        obtain ⟨r0, lb1, n1⟩ := v
        simp [LM.bind_apply, LM.get, hc', LM.ro, hel, ← hse, hd] at hrun
        obtain ⟨_, rfl, rfl⟩ := hrun
        rcases delete_spec S U lb lb1 1 r0 n1 h (by decide) hd with
          ⟨he, _, _, _⟩ | ⟨t, x, y, z, ht, hlt', hbuf, hx, hy, rfl, rfl, rfl⟩
        · have := hc'.2; omega
        · exact ⟨(single_fwd _ _).1, fun _ => (single_fwd _ _).2⟩
    · obtain ⟨x, y, z, hd, hbuf, hx, hy⟩ := drain_ok .forward h hleb hlele
      simp [LM.bind_apply, LM.get, hc', LM.ro, hel, hse, hd] at hrun
      obtain ⟨_, rfl, rfl⟩ := hrun
      exact ⟨(single_fwd _ _).1, fun _ => (single_fwd _ _).2⟩
  · simp only [LM.bind_apply, LM.get, hc] at hrun
    simp at hrun
    obtain ⟨rfl, rfl, rfl⟩ := hrun
    exact nil_ok

theorem khd_drain_around (a b k : Nat) (hab : a < b) : KHd (LB.drain a b (.around k)) := by
  intro lb r lb' ns h
  unfold LB.drain at h
  split at h
  · rename_i x y z hs
    obtain ⟨_, hx, hy⟩ := split3_ok hs
    have hne : y ≠ [] := by
      intro hy0; subst hy0
      have : blen ([] : Text) = 0 := rfl
      omega
    cases h
    refine ⟨?_, _, List.mem_singleton.mpr rfl, hne⟩
    intro n hn; rw [List.mem_singleton] at hn; subst hn; intro hh; cases hh
  · cases h

theorem khd_drainAround (a b cursor : Nat) (h : a < b ∨ cursor ≤ a) : KHd (LB.drainAround a b cursor) := by
  unfold LB.drainAround
  by_cases hc : cursor ≤ a
  · rw [if_pos hc]; exact KHd.drain_fwd a b
  · rw [if_neg hc]
    have hab : a < b := h.resolve_right hc
    exact KHd.bind_left KSil.get fun _ => KHd.bind_left (KSil.lift _) fun _ =>
      KHd.bind_left (KSil.lift _) fun _ => khd_drain_around a b _ hab

/-! ### the same, from one given state (the arms that look at the line before they delete) -/

def KRepAt (lb : LB) (m : LM Bool) : Prop :=
  ∀ r lb' ns, m lb = .ok (r, lb', ns) → (∀ n ∈ ns, n ≠ .stopKill) ∧ (r = true → ∃ n ∈ ns, HardDel n)

theorem KRep.at {m : LM Bool} (h : KRep T m) (lb : LB) : KRepAt lb m := fun r lb' ns hr => h lb r lb' ns hr
theorem KRepW.at {m : LM Bool} (h : KRepW m) {lb : LB} (hw : WF lb) : KRepAt lb m :=
  fun r lb' ns hr => h lb r lb' ns hw hr

theorem KRepAt.bind_sil {α : Type} {lb : LB} {m : LM α} {k : α → LM Bool} (hm : KSil m)
    (hk : ∀ a lb1, m lb = .ok (a, lb1, []) → KRepAt lb1 (k a)) : KRepAt lb (m >>= k) := by
  intro r lb' ns h
  obtain ⟨a, lb1, n1, n2, h1, h2, rfl⟩ := LM.bind_ok h
  have hn := hm _ _ _ _ h1
  subst hn
  exact hk a lb1 h1 _ _ _ h2

theorem KRepAt.pure_false (lb : LB) : KRepAt lb (pure false) := by
  intro r lb' ns h; cases h; exact nil_ok

theorem KRepAt.hd_true {α : Type} {lb : LB} {m : LM α} (hm : KHd m) : KRepAt lb (m >>= fun _ => pure true) := by
  intro r lb' ns h
  obtain ⟨a, lb1, n1, n2, h1, h2, rfl⟩ := LM.bind_ok h
  cases h2
  rw [List.append_nil]
  exact ⟨(hm _ _ _ _ h1).1, fun _ => (hm _ _ _ _ h1).2⟩

theorem get_eq {lb a lb1 : LB} {ns : List Notif} (h : (LM.get : LM LB) lb = .ok (a, lb1, ns)) : lb = a ∧ lb = lb1 := by
  cases h; exact ⟨rfl, rfl⟩

theorem ro_eq {α : Type} {f : LB → Except Panic α} {lb lb1 : LB} {a : α} {ns : List Notif}
    (h : LM.ro f lb = .ok (a, lb1, ns)) : f lb = .ok a ∧ lb = lb1 := by
  unfold LM.ro at h
  split at h
  · rename_i a' hf; cases h; exact ⟨hf, rfl⟩
  · cases h

/-- `kill(WholeBuffer)` -/
def armWholeBuffer (S : Segmenter) (U : UData) : LM Bool := do
  let cursor := (← get).pos
  let _ ← LB.moveBufferStart S U
  let lb ← get
  if lb.buf.isEmpty then pure false
  else
    let _ ← LB.drainAround 0 lb.len cursor
    pure true

theorem rep_armWholeBuffer (S : Segmenter) (U : UData) (lb : LB) : KRepAt lb (armWholeBuffer S U) := by
  unfold armWholeBuffer
  refine KRepAt.bind_sil KSil.get fun l0 lb1 _ => ?_
  refine KRepAt.bind_sil (sil_moveBufferStart S U) fun _ lb2 _ => ?_
  refine KRepAt.bind_sil KSil.get fun l2 lb3 _ => ?_
  split
  · exact KRepAt.pure_false _
  · rename_i hne
    refine KRepAt.hd_true (khd_drainAround _ _ _ (Or.inl ?_))
    have : l2.buf ≠ [] := by simpa using hne
    exact blen_pos_of_ne_nil this

/-- `kill(WholeLine)` -/
def armWholeLine (S : Segmenter) (U : UData) : LM Bool := do
  let cursor := (← get).pos
  let _ ← LB.moveHome S U
  let lb ← get
  let e ← ro LB.endOfLine
  if lb.pos < e then
    let _ ← LB.drainAround lb.pos e cursor
    pure true
  else LB.killLine S U

theorem rep_armWholeLine (S : Segmenter) (U : UData) (lb : LB) (hw : WF lb) : KRepAt lb (armWholeLine S U) := by
  unfold armWholeLine
  refine KRepAt.bind_sil KSil.get fun l0 lb1 h0 => ?_
  obtain ⟨_, rfl⟩ := get_eq h0
  refine KRepAt.bind_sil (sil_moveHome S U) fun _ lb2 h2 => ?_
  have hw2 : WF lb2 := by
    obtain ⟨r, l, ns, ho, hwl⟩ := lmsafe_moveHome S U lb hw
    rw [ho] at h2; cases h2; exact hwl
  refine KRepAt.bind_sil KSil.get fun l2 lb3 h3 => ?_
  obtain ⟨rfl, rfl⟩ := get_eq h3
  refine KRepAt.bind_sil (KSil.ro _) fun e lb4 h4 => ?_
  obtain ⟨_, rfl⟩ := ro_eq h4
  split
  · rename_i hlt
    exact KRepAt.hd_true (khd_drainAround _ _ _ (Or.inl hlt))
  · exact (repW_killLine S U).at hw2

/-- `kill(LineUp(n))` -/
def armLineUp (S : Segmenter) (U : UData) (n : Nat) : LM Bool := do
  match ← ro (LB.nLinesUp · n) with
  | some (a, b) =>
    let lb ← get
    let suf ← lift (sliceFrom lb.buf lb.pos)
    let last := (findChar '\n' suf).isNone
    let a := if last && a > 0 then a - 1 else a
    LB.setPosChecked S U a
    let _ ← LB.drainAround a b lb.pos
    pure true
  | none => pure false

theorem rep_armLineUp (S : Segmenter) (U : UData) (n : Nat) (lb : LB) (hw : WF lb) : KRepAt lb (armLineUp S U n) := by
  unfold armLineUp
  refine KRepAt.bind_sil (KSil.ro _) fun r lb1 h1 => ?_
  obtain ⟨hr, rfl⟩ := ro_eq h1
  obtain ⟨r', hr', hp⟩ := nLinesUp_ok lb n hw
  have : r = r' := by rw [hr] at hr'; cases hr'; rfl
  subst this
  cases r with
  | none => exact KRepAt.pure_false _
  | some ab =>
    obtain ⟨a, b⟩ := ab
    obtain ⟨_, _, hle1, hle2⟩ := hp a b rfl
    dsimp only
    refine KRepAt.bind_sil KSil.get fun l2 lb3 h3 => ?_
    obtain ⟨rfl, rfl⟩ := get_eq h3
    refine KRepAt.bind_sil (KSil.lift _) fun suf lb4 _ => ?_
    refine KRepAt.bind_sil (KSil.setPosChecked S U _) fun _ lb5 _ => ?_
    refine KRepAt.hd_true (khd_drainAround _ _ _ ?_)
    split <;> omega

/-- `kill(LineDown(n))` -/
def armLineDown (S : Segmenter) (U : UData) (n : Nat) : LM Bool := do
  match ← ro (LB.nLinesDown · n) with
  | some (a, b) =>
    let lb ← get
    let mid ← lift (slice lb.buf a b)
    let last := decide ((mid.filter (· == '\n')).length ≤ n)
    let a := if last && a > 0 then a - 1 else a
    LB.setPosChecked S U a
    let _ ← LB.drainAround a b lb.pos
    pure true
  | none => pure false

theorem rep_armLineDown (S : Segmenter) (U : UData) (n : Nat) (lb : LB) (hw : WF lb) : KRepAt lb (armLineDown S U n) := by
  unfold armLineDown
  refine KRepAt.bind_sil (KSil.ro _) fun r lb1 h1 => ?_
  obtain ⟨hr, rfl⟩ := ro_eq h1
  obtain ⟨r', hr', hp⟩ := nLinesDown_ok lb n hw
  have : r = r' := by rw [hr] at hr'; cases hr'; rfl
  subst this
  cases r with
  | none => exact KRepAt.pure_false _
  | some ab =>
    obtain ⟨a, b⟩ := ab
    obtain ⟨_, _, hle1, hle2⟩ := hp a b rfl
    dsimp only
    refine KRepAt.bind_sil KSil.get fun l2 lb3 h3 => ?_
    obtain ⟨rfl, rfl⟩ := get_eq h3
    refine KRepAt.bind_sil (KSil.lift _) fun mid lb4 _ => ?_
    refine KRepAt.bind_sil (KSil.setPosChecked S U _) fun _ lb5 _ => ?_
    refine KRepAt.hd_true (khd_drainAround _ _ _ ?_)
    split <;> omega

theorem KRepAt.hd_then {α : Type} {lb : LB} {m : LM α} (hm : KHd m) (b : Bool) : KRepAt lb (m >>= fun _ => pure b) := by
  intro r lb' ns h
  obtain ⟨a, lb1, n1, n2, h1, h2, rfl⟩ := LM.bind_ok h
  cases h2
  rw [List.append_nil]
  exact ⟨(hm _ _ _ _ h1).1, fun _ => (hm _ _ _ _ h1).2⟩

theorem KRepAt.hd_bind {α : Type} {lb : LB} {m : LM α} {k : α → LM Bool} (hm : KHd m) (hk : ∀ a, KSil (k a)) :
    KRepAt lb (m >>= k) := by
  intro r lb' ns h
  obtain ⟨a, lb1, n1, n2, h1, h2, rfl⟩ := LM.bind_ok h
  rw [hk a _ _ _ _ h2, List.append_nil]
  exact ⟨(hm _ _ _ _ h1).1, fun _ => (hm _ _ _ _ h1).2⟩

/-- `kill(ViFirstPrint)` -/
def armViFirstPrint (S : Segmenter) (U : UData) : LM Bool := do
  let first ← ro (LB.firstPrint S U)
  let lb ← get
  if first < lb.pos then do
    let _ ← LB.drain first lb.pos .backward
    setPos first
  else if first > lb.pos then do
    let _ ← LB.drain lb.pos first .forward
    pure ()
  pure (first != lb.pos)

theorem rep_armViFirstPrint (S : Segmenter) (U : UData) (lb : LB) : KRepAt lb (armViFirstPrint S U) := by
  unfold armViFirstPrint
  refine KRepAt.bind_sil (KSil.ro _) fun first lb1 _ => ?_
  refine KRepAt.bind_sil KSil.get fun l lb2 _ => ?_
  by_cases h1 : first < l.pos
  · rw [if_pos h1]
    exact KRepAt.hd_bind (KHd.drain_bwd _ _) fun _ => KSil.bind (KSil.setPos _) fun _ => KSil.pure _
  · rw [if_neg h1]
    by_cases h2 : first > l.pos
    · rw [if_pos h2]
      exact KRepAt.hd_bind (KHd.drain_fwd _ _) fun _ => KSil.pure _
    · rw [if_neg h2]
      intro r lb' ns h
      cases h
      have : first = l.pos := by omega
      subst this
      simpa using nil_ok

/-! ### monad laws of `LM` (the arms of `kill` have their continuation inlined) -/

theorem LM.bind_assocK {α β γ : Type} (m : LM α) (f : α → LM β) (g : β → LM γ) :
    (m >>= f) >>= g = m >>= fun a => f a >>= g := by
  funext lb
  simp only [LM.bind_apply]
  cases m lb with
  | error e => rfl
  | ok v =>
    obtain ⟨a, lb1, n1⟩ := v
    simp only []
    cases f a lb1 with
    | error e => rfl
    | ok w =>
      obtain ⟨b, lb2, n2⟩ := w
      simp only []
      cases g b lb2 with
      | error e => rfl
      | ok u => obtain ⟨c, lb3, n3⟩ := u; simp only [List.append_assoc]

theorem LM.pure_bindK {α β : Type} (a : α) (f : α → LM β) : (pure a : LM α) >>= f = f a := by
  funext lb
  simp only [LM.bind_apply, LM.pure_apply]
  cases f a lb with
  | error e => rfl
  | ok v => obtain ⟨b, lb2, n2⟩ := v; simp only [List.nil_append]

theorem LM.ite_bindK {α β : Type} (c : Prop) [Decidable c] (a b : LM α) (f : α → LM β) :
    (if c then a else b) >>= f = if c then a >>= f else b >>= f := by split <;> rfl

theorem kill_wholeBuffer_eq (S : Segmenter) (U : UData) : LB.kill S U .wholeBuffer = wrapK (armWholeBuffer S U) := by
  unfold LB.kill wrapK armWholeBuffer
  simp only [LM.bind_assocK, LM.pure_bindK, LM.ite_bindK, if_true]
theorem kill_wholeLine_eq (S : Segmenter) (U : UData) : LB.kill S U .wholeLine = wrapK (armWholeLine S U) := by
  unfold LB.kill wrapK armWholeLine
  simp only [LM.bind_assocK, LM.pure_bindK, LM.ite_bindK, if_true]
theorem kill_lineUp_eq (S : Segmenter) (U : UData) (k : Nat) : LB.kill S U (.lineUp k) = wrapK (armLineUp S U k) := by
  unfold LB.kill wrapK armLineUp
  simp only [LM.bind_assocK, LM.pure_bindK, LM.ite_bindK, if_true]
  congr 1; funext _
  congr 1; funext r
  cases r with
  | none => simp only [LM.pure_bindK]
  | some ab => obtain ⟨a, b⟩ := ab; simp only [LM.bind_assocK, LM.pure_bindK]
theorem kill_lineDown_eq (S : Segmenter) (U : UData) (k : Nat) : LB.kill S U (.lineDown k) = wrapK (armLineDown S U k) := by
  unfold LB.kill wrapK armLineDown
  simp only [LM.bind_assocK, LM.pure_bindK, LM.ite_bindK, if_true]
  congr 1; funext _
  congr 1; funext r
  cases r with
  | none => simp only [LM.pure_bindK]
  | some ab => obtain ⟨a, b⟩ := ab; simp only [LM.bind_assocK, LM.pure_bindK]
theorem kill_viFirstPrint_eq (S : Segmenter) (U : UData) : LB.kill S U .viFirstPrint = wrapK (armViFirstPrint S U) := by
  unfold LB.kill wrapK armViFirstPrint
  simp only [LM.bind_assocK, LM.pure_bindK, LM.ite_bindK, if_true]

/-- **`KillReports`**: every arm of `kill` but the two character movements -/
theorem killReports (S : Segmenter) (U : UData) : KillReports S U := by
  intro m lb lb' ns hb hf hw hk
  cases m with
  | backwardChar n => exact absurd rfl (hb n)
  | forwardChar n => exact absurd rfl (hf n)
  | endOfLine => exact wrapK_reports (repW_killLine S U) hw hk
  | beginningOfLine => exact wrapK_reports (rep_discardLine S U).w hw hk
  | backwardWord n d => exact wrapK_reports (rep_deletePrevWord S U d n).w hw hk
  | forwardWord n a d => exact wrapK_reports (rep_deleteWord S U a d n).w hw hk
  | viCharSearch n cs => exact wrapK_reports (rep_deleteTo S U cs n).w hw hk
  | endOfBuffer => exact wrapK_reports (rep_killBuffer S U).w hw hk
  | beginningOfBuffer => exact wrapK_reports (rep_discardBuffer S U).w hw hk
  | wholeBuffer =>
    have e := kill_wholeBuffer_eq S U
    rw [e] at hk
    exact wrapK_reports (m := armWholeBuffer S U) (fun l r l' n _ h => rep_armWholeBuffer S U l r l' n h) hw hk
  | wholeLine =>
    have e := kill_wholeLine_eq S U
    rw [e] at hk
    exact wrapK_reports (m := armWholeLine S U) (fun l r l' n hwl h => rep_armWholeLine S U l hwl r l' n h) hw hk
  | lineUp k =>
    have e := kill_lineUp_eq S U k
    rw [e] at hk
    exact wrapK_reports (m := armLineUp S U k) (fun l r l' n hwl h => rep_armLineUp S U k l hwl r l' n h) hw hk
  | lineDown k =>
    have e := kill_lineDown_eq S U k
    rw [e] at hk
    exact wrapK_reports (m := armLineDown S U k) (fun l r l' n hwl h => rep_armLineDown S U k l hwl r l' n h) hw hk
  | viFirstPrint =>
    have e := kill_viFirstPrint_eq S U
    rw [e] at hk
    exact wrapK_reports (m := armViFirstPrint S U) (fun l r l' n _ h => rep_armViFirstPrint S U l r l' n h) hw hk

end Rl
