/-
  C17: `next_cmd` never exits with the panic outcome — emacs mode.  `NoPanic m` is the structural
  predicate ("no run of `m` exits with `panic`"), closed under the `do` constructs; the one
  result-dependent step is the custom binding table (`BindOK`: a bound repeatable command can be
  re-done, which excludes only `Replace(ForwardChar 0, None)` — vi `R` — with an over-long last
  insertion).
-/
import Rl.Lemmas.EditorM
import Rl.Lemmas.EditorFrame
namespace Rl
open EM

structure NoPanic {α : Type} (m : EM α) : Prop where
  h : ∀ s o s', m s = .error (o, s') → o ≠ .panic

namespace NoPanic
variable {α β : Type}

theorem pure (a : α) : NoPanic (pure a : EM α) := ⟨fun _ _ _ h => by cases h⟩

theorem bind {m : EM α} {f : α → EM β} (hm : NoPanic m) (hf : ∀ a, NoPanic (f a)) : NoPanic (m >>= f) := by
  constructor
  intro s o s' h
  rw [EM.bind_apply] at h
  cases hms : m s with
  | error e => rw [hms] at h; cases h; exact hm.h _ _ _ hms
  | ok r => obtain ⟨a, s1⟩ := r; rw [hms] at h; exact (hf a).h _ _ _ h

theorem bind' {m : Ed → Except (Outcome × Ed) (α × Ed)} {f : α → EM β}
    (hm : NoPanic (m : EM α)) (hf : ∀ a, NoPanic (f a)) : NoPanic (@Bind.bind EM _ α β m f) := bind hm hf

/-- sequencing when the continuation may use a fact about the result -/
theorem bindR {m : EM α} {f : α → EM β} (P : α → Prop) (hm : NoPanic m)
    (hp : ∀ s a s', m s = .ok (a, s') → P a) (hf : ∀ a, P a → NoPanic (f a)) : NoPanic (m >>= f) := by
  constructor
  intro s o s' h
  rw [EM.bind_apply] at h
  cases hms : m s with
  | error e => rw [hms] at h; cases h; exact hm.h _ _ _ hms
  | ok r => obtain ⟨a, s1⟩ := r; rw [hms] at h; exact (hf a (hp _ _ _ hms)).h _ _ _ h

theorem ite {c : Prop} [Decidable c] {a b : EM α} (ha : NoPanic a) (hb : NoPanic b) :
    NoPanic (if c then a else b) := by split <;> assumption

theorem exit {o : Outcome} (ho : o ≠ .panic) : NoPanic (EM.exit o : EM α) :=
  ⟨fun _ _ _ h => by cases h; exact ho⟩

theorem modify (g : Ed → Ed) : NoPanic (EM.modify g) := ⟨fun _ _ _ h => by cases h⟩
theorem get : NoPanic EM.get := ⟨fun _ _ _ h => by cases h⟩
theorem read (g : Ed → α) : NoPanic (fun s => .ok (g s, s) : EM α) := ⟨fun _ _ _ h => by cases h⟩

theorem liftP_ok {e : Except Panic α} (he : ∃ a, e = .ok a) : NoPanic (EM.liftP e) := by
  obtain ⟨a, rfl⟩ := he
  exact ⟨fun _ _ _ h => by cases h⟩

end NoPanic

section
variable (S : Segmenter) (U : UData) (cfg : EdCfg)

theorem noPanic_rdErr {α : Type} (e : RdErr) : NoPanic (rdErr e : EM α) := by
  constructor; intro s o s' h
  cases e <;> (cases h; intro hh; cases hh)

theorem noPanic_nextKey (sea : Bool) : NoPanic (nextKey sea) := by
  constructor; intro s o s' h
  unfold nextKey at h
  cases hi : s.input.nextKey sea with
  | ok r => rw [hi] at h; cases h
  | error e => rw [hi] at h; exact (noPanic_rdErr e).h _ _ _ h

theorem noPanic_nextChar : NoPanic nextChar := by
  constructor; intro s o s' h
  unfold nextChar at h
  cases hi : s.input.nextChar with
  | ok r => rw [hi] at h; cases h
  | error e => rw [hi] at h; exact (noPanic_rdErr e).h _ _ _ h

theorem noPanic_readPasted : NoPanic readPasted := by
  constructor; intro s o s' h
  unfold readPasted at h
  cases hi : s.input.readPasted (s.input.size + 1) [] with
  | ok r => rw [hi] at h; cases h
  | error e => rw [hi] at h; exact (noPanic_rdErr e).h _ _ _ h

theorem noPanic_of_returns {α : Type} {m : EM α} (h : ∀ s, ∃ a s', m s = .ok (a, s')) : NoPanic m := by
  constructor; intro s o s' he
  obtain ⟨a, s1, h1⟩ := h s
  rw [h1] at he; cases he

theorem noPanic_refreshLine (hnp : cfg.hinterPanicAt = none) : NoPanic (refreshLine S U cfg) := by
  constructor; intro s o s' he
  have := wp_refreshLine_np S U cfg hnp (Q := fun _ _ => True) (E := fun _ _ => False) (s := s) (fun _ _ => trivial)
  unfold wp at this; rw [he] at this; exact this.elim

theorem noPanic_refreshPromptAndLine (hnp : cfg.hinterPanicAt = none) (p : Text) :
    NoPanic (refreshPromptAndLine S U cfg p) := by
  constructor; intro s o s' he
  have := wp_refreshPromptAndLine S U cfg (p := p) (Q := fun _ _ => True) (E := fun _ _ => False) (s := s)
    (fun _ _ => trivial) (fun _ _ hne => absurd hnp hne)
  unfold wp at this; rw [he] at this; exact this.elim

theorem noPanic_customBinding (keys : List KeyEvent) (n : Nat) (p : Bool) : NoPanic (customBinding cfg keys n p) := by
  constructor; intro s o s' h
  unfold customBinding at h
  cases hf : cfg.binds.find? (fun b => b.1 == keys) with
  | none => rw [hf] at h; cases h
  | some b => rw [hf] at h; cases h

theorem noPanic_termBinding (k : KeyEvent) : NoPanic (termBinding k) := by
  constructor; intro s o s' h
  unfold termBinding at h
  simp only [] at h
  by_cases hc : ((if k == ⟨.char 'D', 8⟩ then some Cmd.endOfFile
    else if k == ⟨.char 'C', 8⟩ then some .interrupt
    else if k == ⟨.char '\\', 8⟩ then some .interrupt
    else if k == ⟨.char 'Z', 8⟩ then some .suspend
    else none) == some Cmd.endOfFile && !s.line.buf.isEmpty) = true
  · rw [if_pos hc] at h; cases h
  · rw [if_neg hc] at h; cases h

theorem noPanic_lineEmpty : NoPanic lineEmpty := ⟨fun _ _ _ h => by cases h⟩
theorem noPanic_hasHint : NoPanic hasHint := ⟨fun _ _ _ h => by cases h⟩
theorem noPanic_cursorAtEnd : NoPanic cursorAtEnd := ⟨fun _ _ _ h => by cases h⟩
theorem noPanic_takeNumArgs : NoPanic takeNumArgs := ⟨fun _ _ _ h => by cases h⟩
theorem noPanic_changesBegin : NoPanic changesBegin := ⟨fun _ _ _ h => by cases h⟩
theorem noPanic_changesEnd : NoPanic changesEnd := ⟨fun _ _ _ h => by cases h⟩

/-- a bound command that is repeatable can be re-done with any count and any last insertion -/
def BindOK (c : Cmd) : Prop := ∀ new li, c.isRepeatable = true → ∃ c', c.redo new li = .ok c'

/-- the custom binding table only holds re-doable commands -/
def BindsOK (cfg : EdCfg) : Prop := ∀ b ∈ cfg.binds, BindOK b.2

theorem customBinding_result (hb : BindsOK cfg) (keys : List KeyEvent) (n : Nat) (p : Bool) (s : Ed)
    (r : Option Cmd) (s' : Ed) (h : customBinding cfg keys n p s = .ok (r, s')) : ∀ c, r = some c → BindOK c := by
  unfold customBinding at h
  cases hf : cfg.binds.find? (fun b => b.1 == keys) with
  | none => rw [hf] at h; cases h; intro c hc; cases hc
  | some b =>
    rw [hf] at h; cases h
    intro c hc; cases hc
    exact hb b (List.mem_of_find?_eq_some hf)

theorem noPanic_redo_ite {c : Cmd} (hc : BindOK c) (new : Option Nat) :
    NoPanic (if c.isRepeatable = true then redoCmd c new else (pure c : EM Cmd)) := by
  by_cases hr : c.isRepeatable = true
  · rw [if_pos hr]
    unfold redoCmd
    exact NoPanic.bind (⟨fun _ _ _ h => by cases h⟩) fun li => NoPanic.liftP_ok (hc new li hr)
  · rw [if_neg hr]; exact NoPanic.pure _

theorem noPanic_redoCmd {c : Cmd} (hc : BindOK c) (hr : c.isRepeatable = true) (new : Option Nat) :
    NoPanic (redoCmd c new) := by
  unfold redoCmd
  exact NoPanic.bind (NoPanic.read _) fun li => NoPanic.liftP_ok (hc new li hr)

end

macro "em_np_step" : tactic => `(tactic| first
  | intro _
  | with_reducible (first
    | exact NoPanic.pure _
    | (refine NoPanic.bindR (fun r => ∀ c, r = some c → BindOK c) (noPanic_customBinding _ _ _ _)
        (fun s a s' h => customBinding_result _ (by assumption) _ _ _ s a s' h) ?_)
    | apply NoPanic.bind
    | apply NoPanic.bind'
    | assumption
    | exact NoPanic.modify _
    | exact NoPanic.get
    | exact NoPanic.read _
    | exact noPanic_nextKey _ | exact noPanic_nextChar | exact noPanic_readPasted
    | exact noPanic_customBinding _ _ _ _ | exact noPanic_termBinding _
    | exact noPanic_lineEmpty | exact noPanic_hasHint | exact noPanic_cursorAtEnd | exact noPanic_takeNumArgs
    | exact noPanic_changesBegin | exact noPanic_changesEnd)
  | ((with_reducible apply NoPanic.exit) <;> (intro hh; cases hh))
  | ((with_reducible apply noPanic_redo_ite) <;> (rename_i hbk; exact hbk _ rfl))
  | (with_reducible apply NoPanic.ite)
  | split
  | dsimp only)

syntax "em_np" ("[" term,* "]")? : tactic
macro_rules
  | `(tactic| em_np) => `(tactic| repeat' em_np_step)
  | `(tactic| em_np [$ts,*]) =>
    `(tactic| repeat' (first | (with_reducible first $[| apply $ts]*) | em_np_step))

section
variable (S : Segmenter) (U : UData) (cfg : EdCfg)

theorem noPanic_customSeqBinding (fuel : Nat) (keys : List KeyEvent) (n : Nat) (p : Bool) :
    NoPanic (customSeqBinding cfg fuel keys n p) := by
  induction fuel generalizing keys with
  | zero => unfold customSeqBinding; em_np
  | succ k ih => unfold customSeqBinding; em_np [ih]

set_option maxHeartbeats 1000000 in
theorem noPanic_common (fuel : Nat) (keys : List KeyEvent) (key : KeyEvent) (n : Nat) (p : Bool) :
    NoPanic (common cfg fuel keys key n p) := by
  have h1 := fun keys n p => noPanic_customSeqBinding cfg fuel keys n p
  have h0 : NoPanic (common.fallback cfg fuel keys n p) := by unfold common.fallback; em_np [h1]
  unfold common
  em_np [h1]

theorem noPanic_emacsDigitLoop (hnp : cfg.hinterPanicAt = none) (negative : Bool) (fuel : Nat) (mag : Option Nat) :
    NoPanic (emacsDigitLoop S U cfg negative fuel mag) := by
  have r1 := noPanic_refreshLine S U cfg hnp
  have r2 := fun p => noPanic_refreshPromptAndLine S U cfg hnp p
  induction fuel generalizing mag with
  | zero => unfold emacsDigitLoop; em_np
  | succ k ih => unfold emacsDigitLoop; em_np [r2, ih]

/-- **`next_cmd` never panics in emacs mode** (helpers that do not panic; bound commands re-doable) -/
theorem noPanic_emacs (hnp : cfg.hinterPanicAt = none) (hb : BindsOK cfg) (fuel : Nat) (key : KeyEvent) :
    NoPanic (emacs S U cfg fuel key) := by
  have h1 := fun ng m => noPanic_emacsDigitLoop S U cfg hnp ng fuel m
  have h2 := fun keys key n p => noPanic_common cfg fuel keys key n p
  have h3 := fun keys n p => noPanic_customSeqBinding cfg fuel keys n p
  unfold emacs emacsDigitArgument emacsNumArgs emacs.charSearchCmd
  em_np [h1, h2, h3]

theorem nextSafe_emacs (hvi : cfg.vi = false) (hnp : cfg.hinterPanicAt = none) (hb : BindsOK cfg) :
    ∀ fuel sea iep s o s', nextCmd S U cfg fuel sea iep s = .error (o, s') → o ≠ .panic := by
  intro fuel sea iep
  have he := fun key => noPanic_emacs S U cfg hnp hb fuel key
  have : NoPanic (nextCmd S U cfg fuel sea iep) := by
    unfold nextCmd waitForInput
    simp only [hvi, Bool.false_eq_true, if_false, Bool.not_false, if_true]
    em_np [he]
  exact this.h

end
end Rl
