/- Progress lemmas for the byte decoder: every successful read consumes input. -/
import Rl.Keys
namespace Rl

theorem sum_map_length_cons (c : List UInt8) (rest : List (List UInt8)) :
    ((c :: rest).map List.length).sum = c.length + (rest.map List.length).sum := by simp

theorem Input.readByte_next_size (fut : List (List UInt8)) (b : UInt8) (i' : Input)
    (h : Input.readByte.next fut = .ok (b, i')) : i'.size + 1 = (fut.map List.length).sum := by
  induction fut with
  | nil => simp [Input.readByte.next] at h
  | cons c rest ih =>
    cases c with
    | nil => simp [Input.readByte.next] at h; simpa using ih h
    | cons x xs =>
      simp only [Input.readByte.next] at h
      simp at h
      obtain ⟨_, rfl⟩ := h
      simp [Input.size, bufCap]
      have : (List.take 1024 (x :: xs)).length + (List.drop 1024 (x :: xs)).length = xs.length + 1 := by
        rw [← List.length_append, List.take_append_drop]; simp
      simp at this
      omega

/-- a successful byte read consumes exactly one byte -/
theorem Input.readByte_size {i i' : Input} {b : UInt8} (h : i.readByte = .ok (b, i')) :
    i'.size + 1 = i.size := by
  unfold Input.readByte at h
  split at h
  · rename_i b0 bs hb
    simp at h; obtain ⟨_, rfl⟩ := h
    simp [Input.size, hb]; omega
  · rename_i hb
    split at h
    · rename_i b0 bs ha
      simp at h; obtain ⟨_, rfl⟩ := h
      simp [Input.size, hb, ha, bufCap]
      have : (List.take 1024 (b0 :: bs)).length + (List.drop 1024 (b0 :: bs)).length = bs.length + 1 := by
        rw [← List.length_append, List.take_append_drop]; simp
      simp at this
      omega
    · rename_i ha
      have := Input.readByte_next_size i.future b i' h
      simp [Input.size, hb, ha] at this ⊢; omega

/-- the only failure of a byte read is the hang-up -/
theorem Input.readByte_error {i : Input} {e : RdErr} (h : i.readByte = .error e) : e = .io := by
  unfold Input.readByte at h
  split at h
  · simp at h
  · split at h
    · simp at h
    · generalize i.future = fut at h
      induction fut with
      | nil => simp [Input.readByte.next] at h; exact h.symm
      | cons c rest ih =>
        cases c with
        | nil => simp [Input.readByte.next] at h; exact ih h
        | cons x xs => simp [Input.readByte.next] at h

theorem Input.pollWait_size (i : Input) : i.pollWait.size = i.size := by
  unfold Input.pollWait
  split
  · rfl
  · rename_i hp
    simp [Input.pollNow] at hp
    obtain ⟨hb, ha⟩ := hp
    generalize hf : i.future = fut
    have : ∀ fut, (Input.pollWait.next i fut).size = i.buf.length + (fut.map List.length).sum := by
      intro fut
      induction fut with
      | nil => simp [Input.pollWait.next, Input.size, ha]
      | cons c rest ih =>
        cases c with
        | nil => simp [Input.pollWait.next]; simpa using ih
        | cons x xs => simp [Input.pollWait.next, Input.size]; omega
    rw [this]
    simp [Input.size, ha, hf]

end Rl
