/-
  Helper lemmas for property C11, second part:
  * the sub-operation system `SubSys` (repaired code, file present) is simulated by the
    operation-atomic system `Sys`: every sub-step is a stutter or commits exactly one atomic op;
  * the counting form of "the limit is not exceeded".
-/
import Rl.FileSession
import Rl.Lemmas.FileSession
namespace Rl.FS
open Rl Rl.Spec

/-! ### sub-operation system ⊑ operation-atomic system (repaired code, file present) -/

/-- "session `i` has nothing to write" — the early return of `save` and `append` -/
def nothingNew (s : Sys) (i : Nat) : Bool :=
  (s.sess i).fh.mem.entries.isEmpty || (s.sess i).fh.newEntries == 0

/-- The invariant of the simulation: the data part is a good state with the file present, the code
    is the repaired one, and a session that is inside a call (`pc ≠ idle`: it passed the early
    return of `save` / `append`) still has something to write — nobody else can change its
    history, and its own `load` / `add` are not enabled until the call returns. -/
structure SubInv (t : SubSys) : Prop where
  good : Good t.sys
  file : t.sys.file.isSome = true
  tf : t.truncFirst = false
  pend : ∀ i, t.pc i ≠ .idle → nothingNew t.sys i = false

theorem subInv_init (s : Sys) (hg : Good s) (hf : s.file.isSome = true) : SubInv (SubSys.init s false) :=
  ⟨hg, hf, rfl, fun _ h => absurd rfl h⟩

@[simp] theorem setPc_sys (t : SubSys) (i : Nat) (p : Pc) : (t.setPc i p).sys = t.sys := rfl
@[simp] theorem setPc_tf (t : SubSys) (i : Nat) (p : Pc) : (t.setPc i p).truncFirst = t.truncFirst := rfl
@[simp] theorem setPc_same (t : SubSys) (i : Nat) (p : Pc) : (t.setPc i p).pc i = p := by simp [SubSys.setPc]
theorem setPc_other (t : SubSys) {i j : Nat} (p : Pc) (h : j ≠ i) : (t.setPc i p).pc j = t.pc j := by
  simp [SubSys.setPc, h]

/-- what a sub-step has to satisfy to keep the invariant: it leaves the data alone or commits one
    atomic operation `o` that is not an operation of any session that is still inside a call, and
    every session that is inside a call afterwards was so before or has something to write -/
theorem subInv_of (ws : Char → Bool) (t t' : SubSys) (h : SubInv t) (htf : t'.truncFirst = t.truncFirst)
    (hsys : t'.sys = t.sys ∨ ∃ o : Op, t'.sys = (t.sys.step ws o).1 ∧ ∀ j, t'.pc j ≠ .idle → opOf j o = false)
    (hpc : ∀ j, t'.pc j ≠ .idle → t.pc j ≠ .idle ∨ nothingNew t.sys j = false) : SubInv t' := by
  have hp : ∀ j, t'.pc j ≠ .idle → nothingNew t.sys j = false := fun j hj => by
    rcases hpc j hj with h1 | h1
    · exact h.pend j h1
    · exact h1
  rcases hsys with hs | ⟨o, hs, ho⟩
  · exact ⟨by rw [hs]; exact h.good, by rw [hs]; exact h.file, by rw [htf]; exact h.tf,
      fun j hj => by rw [hs]; exact hp j hj⟩
  · refine ⟨by rw [hs]; exact step_good ws _ o h.good,
      by rw [hs]; exact step_file_some ws _ o h.good.1 h.file, by rw [htf]; exact h.tf, fun j hj => ?_⟩
    have := hp j hj
    unfold nothingNew at this ⊢
    rw [hs, step_other ws t.sys j o (ho j hj)]; exact this

theorem opOf_ne {i j : Nat} (h : j ≠ i) :
    (∀ l, opOf j (.add i l) = false) ∧ opOf j (.load i) = false ∧
    (∀ mt, opOf j (.append i mt) = false) ∧ (∀ mt, opOf j (.save i mt) = false) := by
  have : (i == j) = false := by simp; exact fun e => h e.symm
  simp [opOf, this]

/-- **One sub-step is a stutter or exactly one atomic operation.**  For the repaired code
    (`truncFirst = false`) with the file present, under the simulation invariant: the data part
    after the sub-step is the data part before it, or the result of ONE operation of the
    operation-atomic system on it (`load` / `add` / `touch` as themselves, `saveWrite` as `save`,
    `appendLocked` as `append`); `saveOpen` and `appendCheck` change no data. -/
theorem subStep_sim (ws : Char → Bool) (t : SubSys) (op : SubOp) (h : SubInv t) :
    SubInv (t.step ws op) ∧
    ((t.step ws op).sys = t.sys ∨ ∃ o : Op, (t.step ws op).sys = (t.sys.step ws o).1) := by
  -- it is enough to give the three facts `subInv_of` asks for
  suffices hkey : (t.step ws op).truncFirst = t.truncFirst ∧
      ((t.step ws op).sys = t.sys ∨
        ∃ o : Op, (t.step ws op).sys = (t.sys.step ws o).1 ∧ ∀ j, (t.step ws op).pc j ≠ .idle → opOf j o = false) ∧
      (∀ j, (t.step ws op).pc j ≠ .idle → t.pc j ≠ .idle ∨ nothingNew t.sys j = false) by
    obtain ⟨h1, h2, h3⟩ := hkey
    refine ⟨subInv_of ws t _ h h1 h2 h3, ?_⟩
    rcases h2 with h2 | ⟨o, h2, _⟩
    · exact Or.inl h2
    · exact Or.inr ⟨o, h2⟩
  have stay : t.truncFirst = t.truncFirst ∧
      (t.sys = t.sys ∨ ∃ o : Op, t.sys = (t.sys.step ws o).1 ∧ ∀ j, t.pc j ≠ .idle → opOf j o = false) ∧
      (∀ j, t.pc j ≠ .idle → t.pc j ≠ .idle ∨ nothingNew t.sys j = false) :=
    ⟨rfl, Or.inl rfl, fun j hj => Or.inl hj⟩
  cases op with
  | load i =>
    by_cases hi : t.pc i = .idle
    · have e : t.step ws (.load i) = { t with sys := (t.sys.step ws (.load i)).1 } := by
        simp only [SubSys.step]; rw [if_pos hi]; rfl
      rw [e]
      refine ⟨rfl, Or.inr ⟨.load i, rfl, fun j hj => ?_⟩, fun j hj => Or.inl hj⟩
      exact (opOf_ne (fun e => hj (by rw [e]; exact hi))).2.1
    · have e : t.step ws (.load i) = t := by simp only [SubSys.step]; rw [if_neg hi]
      rw [e]; exact stay
  | add i l =>
    by_cases hi : t.pc i = .idle
    · have e : t.step ws (.add i l) = { t with sys := (t.sys.step ws (.add i l)).1 } := by
        simp only [SubSys.step]; rw [if_pos hi]; rfl
      rw [e]
      refine ⟨rfl, Or.inr ⟨.add i l, rfl, fun j hj => ?_⟩, fun j hj => Or.inl hj⟩
      exact (opOf_ne (fun e => hj (by rw [e]; exact hi))).1 l
    · have e : t.step ws (.add i l) = t := by simp only [SubSys.step]; rw [if_neg hi]
      rw [e]; exact stay
  | touch mt =>
    exact ⟨rfl, Or.inr ⟨.touch mt, rfl, fun j _ => rfl⟩, fun j hj => Or.inl hj⟩
  | saveOpen i mt =>
    obtain ⟨f, hf⟩ := Option.isSome_iff_exists.mp h.file
    by_cases hn : nothingNew t.sys i = true
    · -- the early return: the call is over
      have e : t.step ws (.saveOpen i mt) = t ∨ t.step ws (.saveOpen i mt) = t.setPc i .idle := by
        unfold nothingNew at hn
        simp only [SubSys.step, hn, if_true]
        split <;> split <;> first | exact Or.inl rfl | exact Or.inr rfl
      rcases e with e | e
      · rw [e]; exact stay
      · rw [e]
        refine ⟨rfl, Or.inl rfl, fun j hj => ?_⟩
        by_cases hji : j = i
        · subst hji; exact absurd (setPc_same t j .idle) hj
        · rw [setPc_other _ _ hji] at hj; exact Or.inl hj
    · have hn' : nothingNew t.sys i = false := by simpa using hn
      have e : t.step ws (.saveOpen i mt) = t ∨ t.step ws (.saveOpen i mt) = t.setPc i .saveOpened := by
        have hn2 := hn'
        unfold nothingNew at hn2
        simp only [SubSys.step, hn2, h.tf, hf, Bool.false_eq_true, if_false]
        split <;> split <;> first | exact Or.inl rfl | exact Or.inr rfl
      rcases e with e | e
      · rw [e]; exact stay
      · rw [e]
        refine ⟨rfl, Or.inl rfl, fun j hj => ?_⟩
        by_cases hji : j = i
        · subst hji; exact Or.inr hn'
        · rw [setPc_other _ _ hji] at hj; exact Or.inl hj
  | saveWrite i mt =>
    by_cases hi : t.pc i = .saveOpened
    · have hn := h.pend i (by rw [hi]; simp)
      have hstep : (t.sys.step ws (.save i mt)).1 = t.sys.saveWrite i mt := by
        unfold nothingNew at hn
        simp only [Sys.step, Sys.save, hn, Bool.false_eq_true, if_false]
      have e : t.step ws (.saveWrite i mt)
          = { (t.setPc i .idle) with sys := (t.sys.step ws (.save i mt)).1 } := by
        rw [hstep]
        simp only [SubSys.step, hi, ne_eq, not_true_eq_false, if_false, h.tf, Bool.false_eq_true]
        rfl
      rw [e]
      refine ⟨rfl, Or.inr ⟨.save i mt, rfl, fun j hj => ?_⟩, fun j hj => ?_⟩
      · have hji : j ≠ i := fun e => hj (by rw [e]; exact setPc_same t i .idle)
        exact (opOf_ne hji).2.2.2 mt
      · have hji : j ≠ i := fun e => hj (by rw [e]; exact setPc_same t i .idle)
        have : (t.setPc i .idle).pc j = t.pc j := setPc_other _ _ hji
        exact Or.inl (fun hh => hj (by show (t.setPc i .idle).pc j = .idle; rw [this]; exact hh))
    · have e : t.step ws (.saveWrite i mt) = t := by
        simp only [SubSys.step]; rw [if_pos hi]
      rw [e]; exact stay
  | appendCheck i =>
    by_cases hi : t.pc i = .idle
    · by_cases hn : nothingNew t.sys i = true
      · have e : t.step ws (.appendCheck i) = t := by
          unfold nothingNew at hn
          simp only [SubSys.step, hn, if_true, ite_self]
        rw [e]; exact stay
      · have hn' : nothingNew t.sys i = false := by simpa using hn
        have e : t.step ws (.appendCheck i) = t.setPc i (.appendChecked t.sys.file.isSome) := by
          have hn2 := hn'
          unfold nothingNew at hn2
          simp only [SubSys.step, hn2, hi, ne_eq, not_true_eq_false, Bool.false_eq_true, if_false]
        rw [e]
        refine ⟨rfl, Or.inl rfl, fun j hj => ?_⟩
        by_cases hji : j = i
        · subst hji; exact Or.inr hn'
        · rw [setPc_other _ _ hji] at hj; exact Or.inl hj
    · have e : t.step ws (.appendCheck i) = t := by
        simp only [SubSys.step]; rw [if_pos hi]
      rw [e]; exact stay
  | appendLocked i mt =>
    obtain ⟨f, hf⟩ := Option.isSome_iff_exists.mp h.file
    by_cases hi : t.pc i = .appendChecked true
    · by_cases hmax : ((t.sys.sess i).fh.newEntries == (t.sys.sess i).fh.mem.maxLen) = true
      · have e : t.step ws (.appendLocked i mt) = t := by
          simp only [SubSys.step, hi, hmax, if_true]
        rw [e]; exact stay
      · have hn := h.pend i (by rw [hi]; simp)
        have hstep : (t.sys.step ws (.append i mt)).1 = (t.sys.appendLocked ws i f mt).1 := by
          unfold nothingNew at hn
          simp only [Sys.step, Sys.append, hn, Bool.false_eq_true, if_false, hf, hmax]
        have e : t.step ws (.appendLocked i mt)
            = { (t.setPc i .idle) with sys := (t.sys.step ws (.append i mt)).1 } := by
          rw [hstep]
          simp only [SubSys.step, hi, hmax, Bool.false_eq_true, if_false, hf]
        rw [e]
        refine ⟨rfl, Or.inr ⟨.append i mt, rfl, fun j hj => ?_⟩, fun j hj => ?_⟩
        · have hji : j ≠ i := fun e => hj (by rw [e]; exact setPc_same t i .idle)
          exact (opOf_ne hji).2.2.1 mt
        · have hji : j ≠ i := fun e => hj (by rw [e]; exact setPc_same t i .idle)
          have : (t.setPc i .idle).pc j = t.pc j := setPc_other _ _ hji
          exact Or.inl (fun hh => hj (by show (t.setPc i .idle).pc j = .idle; rw [this]; exact hh))
    · have e : t.step ws (.appendLocked i mt) = t := by
        simp only [SubSys.step]
      rw [e]; exact stay

/-- **Simulation.**  Every run of the sub-operation system from a state satisfying the invariant
    ends in a state whose data part is reached by a run of the operation-atomic system: the list of
    the operations committed along the way. -/
theorem subRun_sim (ws : Char → Bool) (subops : List SubOp) (t : SubSys) (h : SubInv t) :
    SubInv (t.run ws subops) ∧ ∃ ops : List Op, (t.run ws subops).sys = t.sys.run ws ops := by
  induction subops generalizing t with
  | nil => exact ⟨h, [], rfl⟩
  | cons op subops ih =>
    obtain ⟨hinv, hsim⟩ := subStep_sim ws t op h
    obtain ⟨hinv', ops, hops⟩ := ih _ hinv
    refine ⟨hinv', ?_⟩
    rcases hsim with hs | ⟨o, hs⟩
    · exact ⟨ops, by rw [SubSys.run, hops, hs]⟩
    · exact ⟨o :: ops, by rw [SubSys.run, hops, hs]; rfl⟩

/-! ### the counting form of "the limit is not exceeded" -/

/-- a line the store accepts is not empty and, under ignore-space, does not start with a blank -/
def okLine (ws : Char → Bool) (isp : Bool) (e : Text) : Prop :=
  e ≠ [] ∧ (isp = true → ∀ c t, e = c :: t → ws c = false)

theorem add_refused (ws : Char → Bool) (f : FileHist) (l : Text) (h : f.mem.ignore ws l = true) :
    f.add ws l = (f, false) := by
  simp [FileHist.add, MemHist.add, h]

theorem add_accepted (ws : Char → Bool) (f : FileHist) (l : Text) (h : f.mem.ignore ws l = false) :
    f.add ws l = ({ mem := f.mem.insert l,
                    newEntries := min (f.newEntries + 1) (f.mem.insert l).entries.length }, true) := by
  simp [FileHist.add, MemHist.add, h]

theorem not_ignore_ok (ws : Char → Bool) (m : MemHist) (l : Text) (h : m.ignore ws l = false) :
    m.maxLen ≠ 0 ∧ okLine ws m.ignoreSpace l := by
  unfold MemHist.ignore at h
  have hm : m.maxLen ≠ 0 := by intro hm; simp [hm] at h
  refine ⟨hm, ?_⟩
  have hm' : (m.maxLen == 0) = false := by simp [hm]
  simp only [hm', Bool.false_eq_true, if_false] at h
  cases l with
  | nil => simp at h
  | cons c t =>
    refine ⟨by simp, fun hi c' t' heq => ?_⟩
    simp at heq
    rw [← heq.1]
    cases hw : ws c
    · rfl
    · simp [hi, hw] at h

/-- the unwritten lines after an accepted `add`: the old ones followed by the new line (minus the
    oldest when the session already holds `max_len` unwritten lines) -/
theorem newOnes_add (ws : Char → Bool) (f : FileHist) (l : Text)
    (hx : f.mem.entries.length ≤ f.mem.maxLen ∧ f.newEntries ≤ f.mem.entries.length)
    (h : f.mem.ignore ws l = false) :
    newOnes (f.add ws l).1 = (newOnes f ++ [l]).drop (if f.newEntries = f.mem.maxLen then 1 else 0) := by
  have hm := (not_ignore_ok ws f.mem l h).1
  rw [add_accepted ws f l h]
  obtain ⟨h1, h2⟩ := hx
  unfold newOnes MemHist.insert
  simp only []
  rw [← List.drop_append_of_le_length (by omega : f.mem.entries.length - f.newEntries ≤ f.mem.entries.length)]
  by_cases he : f.mem.entries.length = f.mem.maxLen
  · have : (f.mem.entries.length == f.mem.maxLen) = true := by simp [he]
    simp only [this, if_true]
    rw [← List.drop_append_of_le_length (by omega : 1 ≤ f.mem.entries.length)]
    simp only [List.drop_drop, List.length_drop, List.length_append, List.length_cons, List.length_nil]
    congr 1
    split <;> omega
  · have : (f.mem.entries.length == f.mem.maxLen) = false := by simp [he]
    simp only [this, Bool.false_eq_true, if_false, List.drop_drop, List.length_append, List.length_cons, List.length_nil]
    congr 1
    split <;> omega

/-- The counting invariant, on the unwritten lines only.  `U` = every line there is (the initial
    entries and every line that is ever entered), `F` = the entries of the file, `N i` = the lines
    session `i` has accepted and not written yet, `A` = the lines that are still to be entered. -/
structure CInv (ws : Char → Bool) (isp : Bool) (U : List Text) (N : Nat → List Text) (F A : List Text) : Prop where
  nodup : ∀ i, (F ++ N i).Nodup
  mem : ∀ i, ∀ e ∈ F ++ N i, e ∈ U ∧ e ∉ A ∧ okLine ws isp e
  disj : ∀ i j, i ≠ j → ∀ e ∈ N i, e ∉ N j
  aNodup : A.Nodup
  aSub : ∀ e ∈ A, e ∈ U

theorem CInv.mono {ws isp U N F A} (h : CInv ws isp U N F A) (N' : Nat → List Text) (A' : List Text)
    (hN : ∀ i, (N' i).Sublist (N i)) (hA : A'.Sublist A) : CInv ws isp U N' F A' := by
  have hsub : ∀ i, (F ++ N' i).Sublist (F ++ N i) := fun i => List.Sublist.append (List.Sublist.refl F) (hN i)
  refine ⟨fun i => (h.nodup i).sublist (hsub i), fun i e he => ?_, fun i j hij e he hej => ?_,
    h.aNodup.sublist hA, fun e he => h.aSub e (hA.subset he)⟩
  · obtain ⟨h1, h2, h3⟩ := h.mem i e ((hsub i).subset he)
    exact ⟨h1, fun hh => h2 (hA.subset hh), h3⟩
  · exact h.disj i j hij e ((hN i).subset he) ((hN j).subset hej)

/-- session `i` accepts the next line to be entered -/
theorem CInv.push {ws isp U N F A} {l : Text} (h : CInv ws isp U N F (l :: A)) (i : Nat)
    (hl : okLine ws isp l) :
    CInv ws isp U (fun j => if j = i then N i ++ [l] else N j) F A := by
  have hlA : l ∉ A ∧ A.Nodup := List.nodup_cons.mp h.aNodup
  have hnot : ∀ j, l ∉ F ++ N j := fun j hh => (h.mem j l hh).2.1 (by simp)
  refine ⟨fun j => ?_, fun j e he => ?_, fun a b hab e he heb => ?_, hlA.2, fun e he => h.aSub e (by simp [he])⟩
  · by_cases hj : j = i
    · subst hj
      simp only [if_true]
      rw [← List.append_assoc, List.nodup_append]
      refine ⟨h.nodup j, by simp, fun a ha b hb => ?_⟩
      simp at hb; subst hb
      intro hab; subst hab; exact hnot j ha
    · simp only [hj, if_false]; exact h.nodup j
  · by_cases hj : j = i
    · subst hj
      simp only [if_true, ← List.append_assoc] at he
      rcases List.mem_append.mp he with he | he
      · obtain ⟨h1, h2, h3⟩ := h.mem j e he
        exact ⟨h1, fun hh => h2 (by simp [hh]), h3⟩
      · simp at he; subst he
        exact ⟨h.aSub e (by simp), hlA.1, hl⟩
    · simp only [hj, if_false] at he
      obtain ⟨h1, h2, h3⟩ := h.mem j e he
      exact ⟨h1, fun hh => h2 (by simp [hh]), h3⟩
  · by_cases ha : a = i
    · subst ha
      have hb : ¬ b = a := fun e => hab e.symm
      simp only [if_true] at he
      simp only [hb, if_false] at heb
      rcases List.mem_append.mp he with he | he
      · exact h.disj a b hab e he heb
      · simp at he; subst he; exact hnot b (by simp [heb])
    · simp only [ha, if_false] at he
      by_cases hb : b = i
      · subst hb
        simp only [if_true] at heb
        rcases List.mem_append.mp heb with heb | heb
        · exact h.disj a b hab e he heb
        · simp at heb; subst heb; exact hnot a (by simp [he])
      · simp only [hb, if_false] at heb
        exact h.disj a b hab e he heb

/-- session `i` writes its unwritten lines at the end of the file -/
theorem CInv.flush {ws isp U N F A} (h : CInv ws isp U N F A) (i : Nat) :
    CInv ws isp U (fun j => if j = i then [] else N j) (F ++ N i) A := by
  refine ⟨fun j => ?_, fun j e he => ?_, fun a b hab e he heb => ?_, h.aNodup, h.aSub⟩
  · by_cases hj : j = i
    · subst hj; simp only [if_true, List.append_nil]; exact h.nodup j
    · simp only [hj, if_false]
      rw [List.nodup_append]
      have hn := List.nodup_append.mp (h.nodup j)
      refine ⟨h.nodup i, hn.2.1, fun a ha b hb hab => ?_⟩
      subst hab
      rcases List.mem_append.mp ha with ha | ha
      · exact hn.2.2 a ha a hb rfl
      · exact h.disj i j (fun e => hj e.symm) a ha hb
  · by_cases hj : j = i
    · subst hj; simp only [if_true, List.append_nil] at he; exact h.mem j e he
    · simp only [hj, if_false] at he
      rcases List.mem_append.mp he with he | he
      · exact h.mem i e he
      · exact h.mem j e (by simp [he])
  · by_cases ha : a = i
    · subst ha; simp at he
    · by_cases hb : b = i
      · subst hb; simp at heb
      · simp only [ha, if_false] at he; simp only [hb, if_false] at heb
        exact h.disj a b hab e he heb

/-- what the counting invariant is for: the file followed by the unwritten lines of any session is
    something a store with at least `|U|` places holds -/
theorem CInv.storable {ws isp U N F A} (h : CInv ws isp U N F A) (i max : Nat) (idp : Bool)
    (hmax : U.length ≤ max) : Storable ws max isp idp (F ++ N i) := by
  refine ⟨?_, fun e he => (h.mem i e he).2.2, fun _ l1 a b l2 heq hab => ?_⟩
  · exact Nat.le_trans ((h.nodup i).length_le_of_subset (fun e he => (h.mem i e he).1)) hmax
  · have := h.nodup i
    rw [heq] at this
    subst hab
    have := (List.nodup_append.mp this).2.1
    simp at this

/-- the lines session `i` has accepted and not written yet -/
def pend (s : Sys) : Nat → List Text := fun i => newOnes (s.sess i).fh

/-- every session ignores blank-led lines or none does, and every store has room for all of `U` -/
def CfgOk (isp : Bool) (U : List Text) (s : Sys) : Prop :=
  ∀ i, (s.sess i).fh.mem.ignoreSpace = isp ∧ U.length ≤ (s.sess i).fh.mem.maxLen

theorem cfgOk_step (ws : Char → Bool) (isp : Bool) (U : List Text) (s : Sys) (op : Op) (hg : Good s)
    (h : CfgOk isp U s) : CfgOk isp U (s.step ws op).1 := by
  intro i
  have hc := step_cfg ws s op hg i
  have h1 := congrArg Spec.FS.Cfg.max hc
  have h2 := congrArg Spec.FS.Cfg.isp hc
  simp only [cfgOf] at h1 h2
  rw [h1, h2]; exact h i

/-- the lines that a trace enters -/
def addsOf (ops : List Op) : List Text :=
  ops.filterMap (fun op => match op with | .add _ l => some l | _ => none)

theorem newOnes_zero (f : FileHist) (h : f.newEntries = 0) : newOnes f = [] := by
  simp [newOnes, h]

theorem cinv_add (ws : Char → Bool) (isp : Bool) (U : List Text) (s : Sys) (F A : List Text) (i : Nat) (l : Text)
    (hg : Good s) (hc : CfgOk isp U s) (h : CInv ws isp U (pend s) F (l :: A)) :
    CInv ws isp U (pend (s.add ws i l).1) F A := by
  have hother : ∀ j, j ≠ i → pend (s.add ws i l).1 j = pend s j := fun j hj => by
    simp only [pend, Sys.add, setSess_other _ _ hj]
  cases hig : (s.sess i).fh.mem.ignore ws l
  · -- accepted
    have hok := (not_ignore_ok ws _ l hig).2
    rw [(hc i).1] at hok
    refine (h.push i hok).mono _ _ (fun j => ?_) (List.Sublist.refl _)
    by_cases hj : j = i
    · subst hj
      simp only [if_true, pend, Sys.add, setSess_same]
      rw [newOnes_add ws _ l (hg.2 j) hig]
      exact (List.drop_suffix _ _).sublist
    · simp only [hj, if_false, hother j hj]; exact List.Sublist.refl _
  · -- refused
    refine h.mono _ _ (fun j => ?_) (List.sublist_cons_self _ _)
    by_cases hj : j = i
    · subst hj
      simp only [pend, Sys.add, setSess_same, add_refused ws _ l hig]
      exact List.Sublist.refl _
    · rw [hother j hj]; exact List.Sublist.refl _

theorem cinv_load (ws : Char → Bool) (isp : Bool) (U : List Text) (s : Sys) (F A : List Text) (i : Nat)
    (hne : NonEmpty F) (hf : FileIs s F) (h : CInv ws isp U (pend s) F A) :
    CInv ws isp U (pend (s.load ws i).1) F A := by
  obtain ⟨fm, hf⟩ := hf
  refine h.mono _ _ (fun j => ?_) (List.Sublist.refl _)
  by_cases hj : j = i
  · subst hj
    have : pend (s.load ws j).1 j = [] := by
      apply newOnes_zero
      simp only [Sys.load, hf, loadFrom_fileOf_ok ws F hne, if_true]
      split <;> simp
    rw [this]; exact List.nil_sublist _
  · have : pend (s.load ws i).1 j = pend s j := by simp only [pend, load_other ws s hj]
    rw [this]; exact List.Sublist.refl _

theorem cinv_touch (ws : Char → Bool) (isp : Bool) (U : List Text) (s : Sys) (F A : List Text) (mt : Nat)
    (h : CInv ws isp U (pend s) F A) : CInv ws isp U (pend (s.touch mt)) F A := by
  have : pend (s.touch mt) = pend s := by
    funext j; simp only [pend, Sys.touch]; split <;> rfl
  rw [this]; exact h

/-- the file followed by the unwritten lines of session `i` fits into session `i`'s store -/
theorem cinv_storable (ws : Char → Bool) (isp : Bool) (U : List Text) (s : Sys) (F A : List Text) (i : Nat)
    (hc : CfgOk isp U s) (h : CInv ws isp U (pend s) F A) :
    Storable ws (s.sess i).fh.mem.maxLen (s.sess i).fh.mem.ignoreSpace (s.sess i).fh.mem.ignoreDups
      (F ++ newOnes (s.sess i).fh) := by
  rw [(hc i).1]; exact h.storable i _ _ (hc i).2

theorem cinv_append (ws : Char → Bool) (isp : Bool) (U : List Text) (s : Sys) (F A : List Text) (i mt : Nat)
    (hg : Good s) (hc : CfgOk isp U s) (hf : FileIs s F) (h : CInv ws isp U (pend s) F A)
    (hnew : nothingNew s i = false) :
    CInv ws isp U (pend (s.append ws i mt).1) (F ++ newOnes (s.sess i).fh) A := by
  obtain ⟨fm, hf⟩ := hf
  have hs := cinv_storable ws isp U s F A i hc h
  have hne : NonEmpty F := fun e he => hs.nonempty e (by simp [he])
  unfold nothingNew at hnew
  rw [append_eq ws s i mt fm F hf hne hnew, appendOut_fits ws _ fm F (hg.2 i) hs]
  refine (h.flush i).mono _ _ (fun j => ?_) (List.Sublist.refl _)
  by_cases hj : j = i
  · subst hj
    simp only [if_true, pend, Sys.wrote, setSess_same]
    rw [newOnes_zero _ rfl]; exact List.Sublist.refl _
  · simp only [hj, if_false, pend, Sys.wrote, setSess_other _ _ hj, write_sess]; exact List.Sublist.refl _

theorem cinv_init (ws : Char → Bool) (isp : Bool) (es0 A : List Text) (m0 : Nat) (cfg : Nat → Nat × Bool × Bool)
    (hok : ∀ e ∈ es0, okLine ws isp e) (hnd : (es0 ++ A).Nodup) :
    CInv ws isp (es0 ++ A) (pend (Sys.init (some { content := atomsOf (fileOf es0), mtime := m0 }) cfg)) es0 A := by
  have hp : ∀ i, pend (Sys.init (some { content := atomsOf (fileOf es0), mtime := m0 }) cfg) i = [] := fun i => by
    simp [pend, Sys.init, FileHist.new, MemHist.new, newOnes]
  have hn := List.nodup_append.mp hnd
  refine ⟨fun i => by rw [hp, List.append_nil]; exact hn.1, fun i e he => ?_, fun i j _ e he => by rw [hp] at he; simp at he,
    hn.2.1, fun e he => by simp [he]⟩
  rw [hp, List.append_nil] at he
  exact ⟨by simp [he], fun hA => hn.2.2 e he e hA rfl, hok e he⟩

theorem cfgOk_init (isp : Bool) (U : List Text) (file : Option FileVal) (cfg : Nat → Nat × Bool × Bool)
    (h1 : ∀ i, (cfg i).2.1 = isp) (h2 : ∀ i, U.length ≤ (cfg i).1) : CfgOk isp U (Sys.init file cfg) :=
  fun i => ⟨by simp [Sys.init, FileHist.new, MemHist.new, h1 i], by simp [Sys.init, FileHist.new, MemHist.new, h2 i]⟩

theorem addsOf_length (ops : List Op) :
    (addsOf ops).length = (ops.filter (fun op => match op with | .add _ _ => true | _ => false)).length := by
  induction ops with
  | nil => rfl
  | cons op ops ih => cases op <;> simp [addsOf] at ih ⊢ <;> exact ih

/-! ### the file under the counting hypothesis, exactly -/

/-- the acceptance rule of a store that has room and does not hold the line yet -/
def accepts (ws : Char → Bool) (isp : Bool) : Text → Bool
  | [] => false
  | c :: _ => !(isp && ws c)

theorem okLine_of_accepts {ws : Char → Bool} {isp : Bool} {l : Text} (h : accepts ws isp l = true) :
    okLine ws isp l := by
  cases l with
  | nil => simp [accepts] at h
  | cons c t =>
    refine ⟨by simp, fun hi c' t' heq => ?_⟩
    simp at heq; rw [← heq.1]
    cases hw : ws c
    · rfl
    · simp [accepts, hi, hw] at h

/-- a store with room for one more line, not holding `l`, ignores `l` iff the rule refuses it -/
theorem ignore_eq_accepts (ws : Char → Bool) (m : MemHist) (l : Text) (hm : m.maxLen ≠ 0)
    (hl : l ∉ m.entries) : m.ignore ws l = !accepts ws m.ignoreSpace l := by
  unfold MemHist.ignore
  have hm' : (m.maxLen == 0) = false := by simp [hm]
  simp only [hm', Bool.false_eq_true, if_false]
  cases l with
  | nil => simp [accepts]
  | cons c t =>
    simp only [List.isEmpty_cons, List.head?_cons, Bool.false_or, accepts]
    cases hsp : (m.ignoreSpace && ws c)
    · simp only [Bool.false_eq_true, if_false, Bool.not_false]
      cases hd : m.ignoreDups
      · simp
      · simp only [if_true]
        cases hlast : m.entries.getLast? with
        | none => rfl
        | some s =>
          have hs : s ∈ m.entries := List.mem_of_getLast? hlast
          simp only [Bool.not_true, beq_eq_false_iff_ne, ne_eq]
          intro e; subst e; exact hl hs
    · simp

/-- no session holds a line that is still to be entered -/
def MemInv (s : Sys) (A : List Text) : Prop := ∀ i, ∀ e ∈ (s.sess i).fh.mem.entries, e ∉ A

theorem mem_add_subset (ws : Char → Bool) (f : FileHist) (l e : Text)
    (h : e ∈ (f.add ws l).1.mem.entries) : e ∈ f.mem.entries ∨ e = l := by
  cases hig : f.mem.ignore ws l
  · rw [add_accepted ws f l hig] at h
    simp only [MemHist.insert] at h
    rcases List.mem_append.mp h with h | h
    · left; split at h
      · exact List.mem_of_mem_drop h
      · exact h
    · right; simpa using h
  · rw [add_refused ws f l hig] at h; exact Or.inl h

theorem mem_addAll_subset (ws : Char → Bool) (ls : List Text) (f : FileHist) (e : Text)
    (h : e ∈ (addAll ws f ls).mem.entries) : e ∈ f.mem.entries ∨ e ∈ ls := by
  induction ls generalizing f with
  | nil => exact Or.inl h
  | cons l ls ih =>
    rcases ih _ h with h | h
    · rcases mem_add_subset ws f l e h with h | h
      · exact Or.inl h
      · exact Or.inr (by simp [h])
    · exact Or.inr (by simp [h])

theorem memInv_add (ws : Char → Bool) (s : Sys) (A : List Text) (i : Nat) (l : Text)
    (hA : (l :: A).Nodup) (h : MemInv s (l :: A)) : MemInv (s.add ws i l).1 A := by
  intro j e he hh
  by_cases hj : j = i
  · subst hj
    simp only [Sys.add, setSess_same] at he
    rcases mem_add_subset ws _ l e he with he | he
    · exact h j e he (by simp [hh])
    · subst he; exact (List.nodup_cons.mp hA).1 hh
  · simp only [Sys.add, setSess_other _ _ hj] at he
    exact h j e he (by simp [hh])

theorem memInv_load (ws : Char → Bool) (s : Sys) (F A : List Text) (i : Nat) (hne : NonEmpty F)
    (hf : FileIs s F) (hF : ∀ e ∈ F, e ∉ A) (h : MemInv s A) : MemInv (s.load ws i).1 A := by
  obtain ⟨fm, hf⟩ := hf
  intro j e he
  by_cases hj : j = i
  · subst hj
    have : e ∈ (addAll ws (s.sess j).fh F).mem.entries := by
      simp only [Sys.load, hf, loadFrom_fileOf_ok ws F hne, if_true] at he
      split at he <;> simpa using he
    rcases mem_addAll_subset ws F _ e this with h1 | h1
    · exact h j e h1
    · exact hF e h1
  · rw [load_other ws s hj] at he; exact h j e he

theorem memInv_wrote (s : Sys) (A : List Text) (i : Nat) (es' : List Text) (mt size : Nat)
    (h : MemInv s A) : MemInv (s.wrote i es' mt size) A := by
  intro j e he
  by_cases hj : j = i
  · subst hj; simp only [Sys.wrote, setSess_same] at he; exact h j e he
  · simp only [Sys.wrote, setSess_other _ _ hj, write_sess] at he; exact h j e he

theorem memInv_touch (s : Sys) (A : List Text) (mt : Nat) (h : MemInv s A) : MemInv (s.touch mt) A := by
  intro j e he
  have : (s.touch mt).sess j = s.sess j := by simp only [Sys.touch]; split <;> rfl
  rw [this] at he; exact h j e he

/-- the unwritten lines after an `add`, exactly, under the counting invariant -/
theorem pend_add (ws : Char → Bool) (isp : Bool) (U : List Text) (s : Sys) (F A : List Text) (i : Nat) (l : Text)
    (hg : Good s) (hc : CfgOk isp U s) (h : CInv ws isp U (pend s) F (l :: A)) (hm : MemInv s (l :: A)) :
    pend (s.add ws i l).1
      = if accepts ws isp l then (fun j => if j = i then pend s i ++ [l] else pend s j) else pend s := by
  have hother : ∀ j, j ≠ i → pend (s.add ws i l).1 j = pend s j := fun j hj => by
    simp only [pend, Sys.add, setSess_other _ _ hj]
  have hlU : l ∈ U := h.aSub l (by simp)
  have hmax : (s.sess i).fh.mem.maxLen ≠ 0 := by
    have := (hc i).2
    have : 0 < U.length := List.length_pos_of_mem hlU
    omega
  have hig := ignore_eq_accepts ws (s.sess i).fh.mem l hmax (fun hh => hm i l hh (by simp))
  rw [(hc i).1] at hig
  cases hacc : accepts ws isp l
  · simp only [Bool.false_eq_true, if_false]
    rw [hacc] at hig
    funext j
    by_cases hj : j = i
    · subst hj; simp only [pend, Sys.add, setSess_same, add_refused ws _ l hig]
    · exact hother j hj
  · simp only [if_true]
    rw [hacc] at hig
    funext j
    by_cases hj : j = i
    · subst hj
      simp only [if_true, pend, Sys.add, setSess_same]
      rw [newOnes_add ws _ l (hg.2 j) hig]
      have hne : (s.sess j).fh.newEntries ≠ (s.sess j).fh.mem.maxLen := by
        have hst := ((h.push j (okLine_of_accepts hacc)).storable j (s.sess j).fh.mem.maxLen false (hc j).2).1
        simp only [if_true, List.length_append, List.length_cons, List.length_nil, pend,
          newOnes_length _ (hg.2 j).2] at hst
        omega
      simp [hne]
    · simp only [hj, if_false]; exact hother j hj

/-- The reference model of the property text: the file is a list of lines, every session has a
    queue of entered-and-not-yet-written lines; `add` puts an acceptable line at the end of the
    session's queue, `append` moves the queue to the end of the file, `load` empties the queue
    (the code's `new_entries = 0` after a load: lines entered before a load are never written). -/
def refStep (acc : Text → Bool) (F : List Text) (P : Nat → List Text) : Op → List Text × (Nat → List Text)
  | .add i l => if acc l then (F, fun j => if j = i then P i ++ [l] else P j) else (F, P)
  | .load i => (F, fun j => if j = i then [] else P j)
  | .append i _ => (F ++ P i, fun j => if j = i then [] else P j)
  | .save _ _ => (F, P)
  | .touch _ => (F, P)

def refRun (acc : Text → Bool) (F : List Text) (P : Nat → List Text) : List Op → List Text × (Nat → List Text)
  | [] => (F, P)
  | op :: ops => refRun acc (refStep acc F P op).1 (refStep acc F P op).2 ops

/-- the lines still to be entered, before the step `op` -/
def nextAdds (op : Op) (A : List Text) : List Text :=
  match op with
  | .add _ l => l :: A
  | _ => A

theorem addsOf_cons (op : Op) (ops : List Op) : addsOf (op :: ops) = nextAdds op (addsOf ops) := by
  cases op <;> simp [addsOf, nextAdds]

theorem pend_nothingNew (s : Sys) (i : Nat) (h : nothingNew s i = true) : pend s i = [] := by
  unfold nothingNew at h
  rcases Bool.or_eq_true_iff.mp h with h | h
  · have : (s.sess i).fh.mem.entries = [] := List.isEmpty_iff.mp h
    simp [pend, newOnes, this]
  · exact newOnes_zero _ (by simpa using h)

/-- `save` overwrites by design: the no-loss clause is about traces without it -/
def notSave : Op → Prop
  | .save _ _ => False
  | _ => True

/-- One step of the real system under the counting invariant is one step of the reference model. -/
theorem count_step (ws : Char → Bool) (isp : Bool) (U : List Text) (s : Sys) (F A : List Text) (op : Op)
    (hg : Good s) (hf : FileIs s F) (hc : CfgOk isp U s)
    (hinv : CInv ws isp U (pend s) F (nextAdds op A)) (hm : MemInv s (nextAdds op A))
    (hns : notSave op) :
    FileIs (s.step ws op).1 (refStep (accepts ws isp) F (pend s) op).1 ∧
    pend (s.step ws op).1 = (refStep (accepts ws isp) F (pend s) op).2 ∧
    CInv ws isp U (pend (s.step ws op).1) (refStep (accepts ws isp) F (pend s) op).1 A ∧
    MemInv (s.step ws op).1 A := by
  have hne : NonEmpty F := fun e he => (hinv.mem 0 e (by simp [he])).2.2.1
  cases op with
  | save i mt => exact hns.elim
  | touch mt =>
    have hp : pend (s.touch mt) = pend s := by funext j; simp only [pend, Sys.touch]; split <;> rfl
    refine ⟨?_, hp, cinv_touch ws isp U s F A mt hinv, memInv_touch s A mt hm⟩
    obtain ⟨fm, hf⟩ := hf
    simp only [Sys.step, Sys.touch, hf, refStep]; exact ⟨mt, rfl⟩
  | add i l =>
    have hp := pend_add ws isp U s F A i l hg hc hinv hm
    have hf' : FileIs (s.add ws i l).1 F := hf
    have hinv' := cinv_add ws isp U s F A i l hg hc hinv
    have hm' := memInv_add ws s A i l hinv.aNodup hm
    simp only [Sys.step, refStep]
    cases hacc : accepts ws isp l
    · simp only [hacc, Bool.false_eq_true, if_false] at hp ⊢
      exact ⟨hf', hp, hinv', hm'⟩
    · simp only [hacc, if_true] at hp ⊢
      exact ⟨hf', hp, hinv', hm'⟩
  | load i =>
    have hf0 := hf
    obtain ⟨fm, hf⟩ := hf
    have hp : pend (s.load ws i).1 = fun j => if j = i then [] else pend s j := by
      funext j
      by_cases hj : j = i
      · subst hj
        simp only [if_true]
        apply newOnes_zero
        simp only [Sys.load, hf, loadFrom_fileOf_ok ws F hne, if_true]
        split <;> simp
      · simp only [hj, if_false, pend, load_other ws s hj]
    refine ⟨?_, hp, cinv_load ws isp U s F A i hne hf0 hinv,
      memInv_load ws s F A i hne hf0 (fun e he => (hinv.mem 0 e (by simp [he])).2.1) hm⟩
    simp only [Sys.step, Sys.load, hf, refStep]
    split
    · split <;> exact ⟨fm, hf⟩
    · exact ⟨fm, hf⟩
  | append i mt =>
    simp only [Sys.step, refStep]
    cases hn : nothingNew s i
    · -- something to write
      have hinv' := cinv_append ws isp U s F A i mt hg hc hf hinv hn
      obtain ⟨fm, hf⟩ := hf
      have hs := cinv_storable ws isp U s F A i hc hinv
      have hn' := hn
      unfold nothingNew at hn'
      have heq : (s.append ws i mt).1 = s.wrote i (F ++ newOnes (s.sess i).fh) mt
          (appendOut ws (s.sess i) fm F).2 := by
        rw [append_eq ws s i mt fm F hf hne hn', appendOut_fits ws _ fm F (hg.2 i) hs]
      refine ⟨by rw [heq]; exact ⟨mt, rfl⟩, ?_, hinv', by rw [heq]; exact memInv_wrote s A i _ mt _ hm⟩
      rw [heq]
      funext j
      by_cases hj : j = i
      · subst hj; simp only [if_true, pend, Sys.wrote, setSess_same]; exact newOnes_zero _ rfl
      · simp only [hj, if_false, pend, Sys.wrote, setSess_other _ _ hj, write_sess]
    · -- nothing to write: the queue is empty
      have hp := pend_nothingNew s i hn
      have hn' := hn
      unfold nothingNew at hn'
      rw [append_nothing ws s i mt hn', hp, List.append_nil]
      refine ⟨hf, ?_, hinv, hm⟩
      funext j
      by_cases hj : j = i
      · subst hj; simp only [if_true]; exact hp
      · simp only [hj, if_false]

/-- Whole traces: under the counting invariant the real system IS the reference model — the file
    holds the reference file, every session's unwritten lines are the reference queue. -/
theorem count_run (ws : Char → Bool) (isp : Bool) (U : List Text) (ops : List Op) (s : Sys) (F : List Text)
    (hg : Good s) (hf : FileIs s F) (hc : CfgOk isp U s)
    (hinv : CInv ws isp U (pend s) F (addsOf ops)) (hm : MemInv s (addsOf ops))
    (hns : ∀ op ∈ ops, notSave op) :
    FileIs (s.run ws ops) (refRun (accepts ws isp) F (pend s) ops).1 ∧
    pend (s.run ws ops) = (refRun (accepts ws isp) F (pend s) ops).2 ∧
    CInv ws isp U (pend (s.run ws ops)) (refRun (accepts ws isp) F (pend s) ops).1 [] := by
  induction ops generalizing s F with
  | nil => exact ⟨hf, rfl, hinv⟩
  | cons op ops ih =>
    rw [addsOf_cons] at hinv hm
    obtain ⟨h1, h2, h3, h4⟩ := count_step ws isp U s F (addsOf ops) op hg hf hc hinv hm (hns op (by simp))
    have := ih (s.step ws op).1 _ (step_good ws s op hg) h1 (cfgOk_step ws isp U s op hg hc) h3 h4
      (fun o ho => hns o (by simp [ho]))
    rw [h2] at this
    exact this

theorem memInv_init (file : Option FileVal) (cfg : Nat → Nat × Bool × Bool) (A : List Text) :
    MemInv (Sys.init file cfg) A := by
  intro i e he; simp [Sys.init, FileHist.new, MemHist.new] at he

theorem pend_init (file : Option FileVal) (cfg : Nat → Nat × Bool × Bool) :
    pend (Sys.init file cfg) = fun _ => [] := by
  funext i; simp [pend, Sys.init, FileHist.new, MemHist.new, newOnes]

/-- the reference file only grows at the end -/
theorem refRun_prefix (acc : Text → Bool) (ops : List Op) (F : List Text) (P : Nat → List Text) :
    F <+: (refRun acc F P ops).1 := by
  induction ops generalizing F P with
  | nil => exact List.prefix_refl _
  | cons op ops ih =>
    refine List.IsPrefix.trans ?_ (ih _ _)
    cases op <;> simp only [refStep] <;> try exact List.prefix_refl _
    · split <;> exact List.prefix_refl _
    · exact List.prefix_append _ _

/-! ### the lines of one session in the reference file -/

/-- the lines session `i` enters in a trace and its store accepts, in the order entered -/
def entered (acc : Text → Bool) (i : Nat) (ops : List Op) : List Text :=
  ops.filterMap (fun op => match op with
    | .add j l => if j = i ∧ acc l = true then some l else none
    | _ => none)

theorem mem_entered {acc : Text → Bool} {i : Nat} {ops : List Op} {l : Text} :
    l ∈ entered acc i ops ↔ Op.add i l ∈ ops ∧ acc l = true := by
  simp only [entered, List.mem_filterMap]
  constructor
  · rintro ⟨op, hop, h⟩
    cases op with
    | add j m =>
      simp only at h
      split at h
      · rename_i hc
        simp at h; subst h
        obtain ⟨rfl, ha⟩ := hc
        exact ⟨hop, ha⟩
      · cases h
    | _ => simp at h
  · rintro ⟨hop, ha⟩
    exact ⟨.add i l, hop, by simp [ha]⟩

theorem mem_addsOf {ops : List Op} {j : Nat} {l : Text} (h : Op.add j l ∈ ops) : l ∈ addsOf ops := by
  simp only [addsOf, List.mem_filterMap]
  exact ⟨.add j l, h, rfl⟩

theorem entered_cons (acc : Text → Bool) (i : Nat) (op : Op) (ops : List Op) :
    entered acc i (op :: ops) =
      (match op with
        | .add j l => if j = i ∧ acc l = true then [l] else []
        | _ => []) ++ entered acc i ops := by
  cases op with
  | add j l =>
    by_cases hc : j = i ∧ acc l = true
    · simp [entered, hc]
    · simp [entered, hc]
  | _ => simp [entered]

theorem refRun_append (acc : Text → Bool) (a b : List Op) (F : List Text) (P : Nat → List Text) :
    refRun acc F P (a ++ b) = refRun acc (refRun acc F P a).1 (refRun acc F P a).2 b := by
  induction a generalizing F P with
  | nil => rfl
  | cons op a ih => simp only [List.cons_append, refRun, ih]

/-- From a point after which session `i` does not load: the lines of session `i` in the file (the
    lines satisfying `p`), followed by its queue, are what they were, followed by the lines it
    enters — nothing is lost, nothing is doubled, nothing changes place. -/
theorem refRun_session (acc p : Text → Bool) (i : Nat) (ops : List Op) (F : List Text) (P : Nat → List Text)
    (hload : ∀ op ∈ ops, op ≠ .load i)
    (hmine : ∀ l, Op.add i l ∈ ops → acc l = true → p l = true)
    (hothers : ∀ j l, j ≠ i → Op.add j l ∈ ops → acc l = true → p l = false)
    (hP : ∀ j, j ≠ i → ∀ e ∈ P j, p e = false) (hPi : ∀ e ∈ P i, p e = true) :
    (refRun acc F P ops).1.filter p ++ (refRun acc F P ops).2 i = F.filter p ++ P i ++ entered acc i ops := by
  induction ops generalizing F P with
  | nil => simp [refRun, entered]
  | cons op ops ih =>
    have hload' : ∀ o ∈ ops, o ≠ .load i := fun o ho => hload o (by simp [ho])
    have hmine' : ∀ l, Op.add i l ∈ ops → acc l = true → p l = true := fun l hl => hmine l (by simp [hl])
    have hothers' : ∀ j l, j ≠ i → Op.add j l ∈ ops → acc l = true → p l = false :=
      fun j l hj hl => hothers j l hj (by simp [hl])
    have filt_all : ∀ X : List Text, (∀ e ∈ X, p e = true) → X.filter p = X := fun X hX =>
      List.filter_eq_self.mpr hX
    have filt_none : ∀ X : List Text, (∀ e ∈ X, p e = false) → X.filter p = [] := fun X hX =>
      List.filter_eq_nil_iff.mpr (fun e he => by simp [hX e he])
    rw [refRun, entered_cons]
    cases op with
    | save j mt => simpa [refStep] using ih F P hload' hmine' hothers' hP hPi
    | touch mt => simpa [refStep] using ih F P hload' hmine' hothers' hP hPi
    | load j =>
      have hj : j ≠ i := fun e => hload (.load j) (by simp) (by rw [e])
      have hji : ¬ i = j := fun e => hj e.symm
      have := ih F (fun k => if k = j then [] else P k) hload' hmine' hothers'
        (fun k hk e he => by
          by_cases hkj : k = j
          · simp [hkj] at he
          · simp only [hkj, if_false] at he; exact hP k hk e he)
        (fun e he => by simp only [hji, if_false] at he; exact hPi e he)
      simpa [refStep, hji] using this
    | append j mt =>
      by_cases hj : j = i
      · subst hj
        have := ih (F ++ P j) (fun k => if k = j then [] else P k) hload' hmine' hothers'
          (fun k hk e he => by simp only [hk, if_false] at he; exact hP k hk e he)
          (fun e he => by simp at he)
        simpa [refStep, List.filter_append, filt_all _ hPi] using this
      · have hji : ¬ i = j := fun e => hj e.symm
        have := ih (F ++ P j) (fun k => if k = j then [] else P k) hload' hmine' hothers'
          (fun k hk e he => by
            by_cases hkj : k = j
            · simp [hkj] at he
            · simp only [hkj, if_false] at he; exact hP k hk e he)
          (fun e he => by simp only [hji, if_false] at he; exact hPi e he)
        simpa [refStep, List.filter_append, filt_none _ (hP j hj), hji] using this
    | add j l =>
      cases hacc : acc l
      · have := ih F P hload' hmine' hothers' hP hPi
        simpa [refStep, hacc] using this
      · by_cases hj : j = i
        · subst hj
          have hpl : p l = true := hmine l (by simp) hacc
          have := ih F (fun k => if k = j then P j ++ [l] else P k) hload' hmine' hothers'
            (fun k hk e he => by simp only [hk, if_false] at he; exact hP k hk e he)
            (fun e he => by
              simp only [if_true] at he
              rcases List.mem_append.mp he with he | he
              · exact hPi e he
              · simp at he; subst he; exact hpl)
          simpa [refStep, hacc] using this
        · have hji : ¬ i = j := fun e => hj e.symm
          have hpl : p l = false := hothers j l hj (by simp) hacc
          have := ih F (fun k => if k = j then P j ++ [l] else P k) hload' hmine' hothers'
            (fun k hk e he => by
              by_cases hkj : k = j
              · subst hkj
                simp only [if_true] at he
                rcases List.mem_append.mp he with he | he
                · exact hP k hk e he
                · simp at he; subst he; exact hpl
              · simp only [hkj, if_false] at he; exact hP k hk e he)
            (fun e he => by simp only [hji, if_false] at he; exact hPi e he)
          simpa [refStep, hacc, hj, hji] using this

/-- Before session `i` enters anything: its queue stays empty and no line satisfying `p` (no line
    it is going to enter) reaches the file. -/
theorem refRun_before (acc p : Text → Bool) (i : Nat) (ops : List Op) (F : List Text) (P : Nat → List Text)
    (hadd : ∀ l, Op.add i l ∉ ops)
    (hothers : ∀ j l, j ≠ i → Op.add j l ∈ ops → acc l = true → p l = false)
    (hP : ∀ j, j ≠ i → ∀ e ∈ P j, p e = false) (hPi : P i = []) :
    (refRun acc F P ops).1.filter p = F.filter p ∧ (refRun acc F P ops).2 i = [] ∧
    ∀ j, j ≠ i → ∀ e ∈ (refRun acc F P ops).2 j, p e = false := by
  induction ops generalizing F P with
  | nil => exact ⟨rfl, hPi, hP⟩
  | cons op ops ih =>
    have hadd' : ∀ l, Op.add i l ∉ ops := fun l hl => hadd l (by simp [hl])
    have hothers' : ∀ j l, j ≠ i → Op.add j l ∈ ops → acc l = true → p l = false :=
      fun j l hj hl => hothers j l hj (by simp [hl])
    have filt_none : ∀ X : List Text, (∀ e ∈ X, p e = false) → X.filter p = [] := fun X hX =>
      List.filter_eq_nil_iff.mpr (fun e he => by simp [hX e he])
    rw [refRun]
    cases op with
    | save j mt => exact ih F P hadd' hothers' hP hPi
    | touch mt => exact ih F P hadd' hothers' hP hPi
    | load j =>
      exact ih F (fun k => if k = j then [] else P k) hadd' hothers'
        (fun k hk e he => by
          by_cases hkj : k = j
          · simp [hkj] at he
          · simp only [hkj, if_false] at he; exact hP k hk e he)
        (by by_cases hij : i = j <;> simp [hij, hPi])
    | append j mt =>
      have hfil : (F ++ P j).filter p = F.filter p := by
        by_cases hj : j = i
        · subst hj; simp [hPi]
        · simp [List.filter_append, filt_none _ (hP j hj)]
      have := ih (F ++ P j) (fun k => if k = j then [] else P k) hadd' hothers'
        (fun k hk e he => by
          by_cases hkj : k = j
          · simp [hkj] at he
          · simp only [hkj, if_false] at he; exact hP k hk e he)
        (by by_cases hij : i = j <;> simp [hij, hPi])
      rw [hfil] at this
      exact this
    | add j l =>
      have hj : j ≠ i := fun e => hadd l (by rw [e]; simp)
      have hji : ¬ i = j := fun e => hj e.symm
      cases hacc : acc l
      · simpa [refStep, hacc] using ih F P hadd' hothers' hP hPi
      · have hpl : p l = false := hothers j l hj (by simp) hacc
        have := ih F (fun k => if k = j then P j ++ [l] else P k) hadd' hothers'
          (fun k hk e he => by
            by_cases hkj : k = j
            · subst hkj
              simp only [if_true] at he
              rcases List.mem_append.mp he with he | he
              · exact hP k hk e he
              · simp at he; subst he; exact hpl
            · simp only [hkj, if_false] at he; exact hP k hk e he)
          (by simp [hji, hPi])
        simpa [refStep, hacc] using this

/-- a line is entered once -/
theorem adds_unique {ops : List Op} (h : (addsOf ops).Nodup) {i j : Nat} {l : Text}
    (hj : Op.add j l ∈ ops) (hi : Op.add i l ∈ ops) : j = i := by
  induction ops with
  | nil => simp at hj
  | cons op ops ih =>
    rw [addsOf_cons] at h
    cases op with
    | add k m =>
      simp only [nextAdds, List.nodup_cons] at h
      rcases List.mem_cons.mp hj with hj1 | hj1
      · rcases List.mem_cons.mp hi with hi1 | hi1
        · cases hj1; cases hi1; rfl
        · have : l = m := by cases hj1; rfl
          subst this; exact absurd (mem_addsOf hi1) h.1
      · rcases List.mem_cons.mp hi with hi1 | hi1
        · have : l = m := by cases hi1; rfl
          subst this; exact absurd (mem_addsOf hj1) h.1
        · exact ih h.2 hj1 hi1
    | load k => exact ih h (by simpa using hj) (by simpa using hi)
    | append k mt => exact ih h (by simpa using hj) (by simpa using hi)
    | save k mt => exact ih h (by simpa using hj) (by simpa using hi)
    | touch mt => exact ih h (by simpa using hj) (by simpa using hi)

theorem addsOf_append (a b : List Op) : addsOf (a ++ b) = addsOf a ++ addsOf b := by
  simp [addsOf, List.filterMap_append]

theorem entered_append (acc : Text → Bool) (i : Nat) (a b : List Op) :
    entered acc i (a ++ b) = entered acc i a ++ entered acc i b := by
  simp [entered, List.filterMap_append]

/-- **One session's lines in the reference file.**  All lines distinct; session `i` enters lines
    only in the second part of the trace and does not load there (its loads come first).  Then the
    lines of session `i` that are in the file, in file order, followed by its queue, are exactly
    the lines it entered (and its store accepts), in the order entered. -/
theorem refRun_session_total (acc : Text → Bool) (i : Nat) (es0 : List Text) (pre rest : List Op)
    (hnd : (es0 ++ addsOf (pre ++ rest)).Nodup)
    (hpre : ∀ l, Op.add i l ∉ pre) (hrest : ∀ op ∈ rest, op ≠ .load i) :
    (refRun acc es0 (fun _ => []) (pre ++ rest)).1.filter (fun e => decide (e ∈ entered acc i (pre ++ rest)))
        ++ (refRun acc es0 (fun _ => []) (pre ++ rest)).2 i
      = entered acc i (pre ++ rest) := by
  have hn := List.nodup_append.mp hnd
  have hE : entered acc i (pre ++ rest) = entered acc i rest := by
    rw [entered_append]
    have : entered acc i pre = [] := List.eq_nil_iff_forall_not_mem.mpr (fun l hl => hpre l (mem_entered.mp hl).1)
    rw [this, List.nil_append]
  have hothers : ∀ j l, j ≠ i → Op.add j l ∈ pre ++ rest → acc l = true →
      decide (l ∈ entered acc i (pre ++ rest)) = false := by
    intro j l hj hl _
    simp only [decide_eq_false_iff_not]
    intro hm
    exact hj (adds_unique hn.2.1 hl (mem_entered.mp hm).1)
  have hes0 : es0.filter (fun e => decide (e ∈ entered acc i (pre ++ rest))) = [] := by
    apply List.filter_eq_nil_iff.mpr
    intro e he
    simp only [decide_eq_true_eq]
    intro hm
    exact hn.2.2 e he e (mem_addsOf (mem_entered.mp hm).1) rfl
  obtain ⟨h1, h2, h3⟩ := refRun_before acc (fun e => decide (e ∈ entered acc i (pre ++ rest))) i pre es0
    (fun _ => []) hpre (fun j l hj hl ha => hothers j l hj (by simp [hl]) ha) (fun j _ e he => by simp at he) rfl
  rw [refRun_append]
  rw [refRun_session acc (fun e => decide (e ∈ entered acc i (pre ++ rest))) i rest _ _ hrest
    (fun l hl ha => by
      simp only [decide_eq_true_eq]
      exact mem_entered.mpr ⟨by simp [hl], ha⟩)
    (fun j l hj hl ha => hothers j l hj (by simp [hl]) ha) h3 (fun e he => by rw [h2] at he; simp at he)]
  rw [h1, hes0, h2, hE]
  simp


end Rl.FS
