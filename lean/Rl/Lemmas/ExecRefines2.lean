/-
  C01_execute_refines, second part: vi `r` (replace characters), and the summary / chain lemmas
  extended with it.  (Rl/Lemmas/ExecRefines.lean has the motions, kills, changes, yanks, inserts.)
-/
import Rl.Lemmas.ExecRefines
set_option linter.unusedVariables false
set_option linter.unusedSimpArgs false
namespace Rl
open EM Rl.Spec Rl.Spec.Doc

section
variable (S : Segmenter) (U : UData)

/-- `delete(n)` with at least `n` clusters after the cursor removes exactly the first `n` clusters,
    and (stable segmenter) the removed text counts `n` clusters again -/
theorem delete_clusters (hS : S.Stable) (lb : LB) (h : WF lb) (n : Nat) (hn : n ≠ 0) (pre suf : Text)
    (hb : lb.buf = pre ++ suf) (hp : lb.pos = blen pre) (hlen : n ≤ (S.seg suf).length) :
    ∃ y ns, LB.delete S U n lb = .ok (some y, { lb with buf := pre ++ ((S.seg suf).drop n).flatten }, ns) ∧
      (S.seg y).length = n := by
  obtain ⟨r, l1, ns, hd, _⟩ := C03_delete_total_wf S U lb n h
  have hsp : splitAtByte lb.buf lb.pos = some (pre, suf) := by rw [hb, hp]; exact splitAtByte_append pre suf
  have hsuf : suf = ((S.seg suf).take n).flatten ++ ((S.seg suf).drop n).flatten := by
    rw [cs_take_drop_flatten, S.flatten_eq]
  have hct : charTargetFwd S lb.buf lb.pos n = some (lb.pos + offOf (S.seg suf) n) := by
    simp [charTargetFwd, splitAt?, hsp, Nat.min_eq_left hlen]
  rcases delete_spec S U lb l1 n r ns h hn hd with ⟨he, _, _, _⟩ | ⟨t, x, y, z, ht, hlt, hbuf, hx, hy, hl1, hns, hr⟩
  · -- impossible: there is a cluster after the cursor
    exfalso
    have hne : S.seg suf ≠ [] := by intro h0; rw [h0] at hlen; simp at hlen; exact hn hlen
    have : suf ≠ [] := by intro h0; apply hne; rw [h0]; exact seg_nil S
    have hl : lb.len = blen pre + blen suf := by simp [LB.len, hb]
    have := blen_pos_of_ne_nil this
    omega
  · rw [hct] at ht
    have htt : t = lb.pos + offOf (S.seg suf) n := (Option.some.inj ht).symm
    have hx' : blen x = blen pre := by omega
    have hsplit : x ++ (y ++ z) = pre ++ suf := by rw [← hb, hbuf]; simp
    obtain ⟨hxe, hyz⟩ := cs_append_inj_blen hsplit hx'
    have hyl : blen y = blen ((S.seg suf).take n).flatten := by
      have : blen y = offOf (S.seg suf) n := by omega
      rw [this]; rfl
    have hyz' : y ++ z = ((S.seg suf).take n).flatten ++ ((S.seg suf).drop n).flatten := by rw [hyz]; exact hsuf
    obtain ⟨hye, hze⟩ := cs_append_inj_blen hyz' hyl
    refine ⟨y, ns, ?_, ?_⟩
    · rw [hd, hr, hl1, hxe, hze]
    · rw [hye, (hS suf n).1]
      simp [Nat.min_eq_left hlen]

/-- the situation in which `Act.apply` judges vi `r` with count `n`: `n ≥ 1` clusters are there to
    be replaced, the count fits a `RepeatCount`, and (`hlast`) going back one cluster from the end
    of the `n` inserted copies lands on the start of the last copy — the side condition under which
    the documented cursor `pos + (n-1)·|c|` is a cluster boundary reached by `move_backward(1)`
    (it fails e.g. when `c` is a combining mark that joins what precedes it). -/
structure JudgedReplace (buf : Text) (pos n : Nat) (c : Char) : Prop where
  n_ne : n ≠ 0
  n_le : n ≤ 65535
  split : ∃ pre suf, buf = pre ++ suf ∧ pos = blen pre ∧ n ≤ (S.seg suf).length ∧
    charTargetBwd S (pre ++ List.replicate n c ++ ((S.seg suf).drop n).flatten) (pos + c.utf8Size * n) 1 =
      some (pos + (n - 1) * c.utf8Size)

variable (cfg : EdCfg)

/-- **vi `r`** (`ReplaceChar n c`): the `n` clusters under and after the cursor are replaced by `n`
    copies of `c`; the cursor ends on the last copy. -/
theorem execute_replaceChar_refines (hS : S.Stable) (hnp : cfg.hinterPanicAt = none) (mode : Mode)
    (n : Nat) (c : Char) (s : Ed) (hwf : WF s.line) (hg : s.line.canGrow = true)
    (hj : JudgedReplace S s.line.buf s.line.pos n c) :
    wp (execute S U cfg (.replaceChar n c)) (Refined S U (.replaceChar n c) mode s) (fun _ _ => False) s := by
  obtain ⟨hn0, hn, pre, suf, hb, hp, hlen, hlast⟩ := hj
  obtain ⟨y, ns, hd, hcnt⟩ := delete_clusters S U hS s.line hwf n hn0 pre suf hb hp hlen
  have he : execute S U cfg (.replaceChar n c) = (do pure (); editReplaceChar S U cfg c n; pure .proceed) := rfl
  rw [he]
  simp only [wp_bind, wp_pure]
  unfold editReplaceChar
  simp only [wp_bind, wp_changesBegin]
  refine wp_lb S U (s := { s with changes := s.changes.begin.1 }) hd ?_
  have hle : ¬ graphemeCount S y > 65535 := by unfold graphemeCount; omega
  have hgc : graphemeCount S y = n := hcnt
  have hle' : ¬ n > 65535 := by omega
  simp only [wp_bind, wp_ite, hgc, hle', if_false, wp_pure]
  -- the insertion of `n` copies at the cursor
  generalize hz : ((S.seg suf).drop n).flatten = z at *
  have hins := insert_eval S U c n (⟨pre ++ z, s.line.pos, s.line.cap, s.line.canGrow⟩ : LB)
  have hmt : (⟨pre ++ z, s.line.pos, s.line.cap, s.line.canGrow⟩ : LB).mustTruncate
      ((⟨pre ++ z, s.line.pos, s.line.cap, s.line.canGrow⟩ : LB).len + c.utf8Size * n) = false := by simp [LB.mustTruncate, hg]
  rw [hmt] at hins
  have hsp2 : splitAtByte (pre ++ z) s.line.pos = some (pre, z) := by rw [hp]; exact splitAtByte_append pre z
  simp only [Bool.false_eq_true, if_false, hsp2] at hins
  refine wp_lb S U (s := { s with line := ⟨pre ++ z, s.line.pos, s.line.cap, s.line.canGrow⟩, changes := (s.changes.begin.1).onNotifs S U.alnum ns }) hins ?_
  -- one cluster back
  have hw2 : WF (⟨pre ++ List.replicate n c ++ z, s.line.pos + c.utf8Size * n,
                  growCap s.line.cap (blen (pre ++ z) + c.utf8Size * n), s.line.canGrow⟩ : LB) :=
    ⟨pre ++ List.replicate n c, z, rfl, by simp [blen_replicate, hp]⟩
  obtain ⟨r3, l3, hmb, hmv⟩ := moveBackward_refines S U _ 1 hw2 (by simp)
  refine wp_lbQuiet hmb ?_
  simp only [wp_changesEnd, if_true]
  refine wp_refreshLine_np S U cfg hnp fun s' hc => ?_
  obtain ⟨hl, _⟩ := Ed.core_eq hc
  refine ⟨rfl, ?_⟩
  rw [hl]
  unfold MovedTo at hmv
  simp only [hlast, Option.getD_some] at hmv
  rw [hmv]
  have hsp : splitAt? s.line.buf (blen pre) = some (pre, suf) := by
    unfold splitAt?; rw [hb]; exact splitAtByte_append pre suf
  have hnl : ¬ (S.seg suf).length < n := by omega
  have hn0' : (n == 0) = false := by simpa using hn0
  simp [Act.apply, hn0', hsp, hnl, Want.holds, replicateText, hz, hp]

/-- coverage of `C01_execute_refines`, now state-dependent for vi `r`: the actions of `Covered`, plus
    `replaceChar` in the situations `Act.apply` judges (`JudgedReplace`) -/
def CoveredAt (a : Act) (buf : Text) (pos : Nat) : Prop :=
  match a with
  | .replaceChar n c => JudgedReplace S buf pos n c
  | a => Covered a

theorem execute_refines_all (hS : S.Stable) (hnl : S.NlAlone) (hnp : cfg.hinterPanicAt = none) (mode : Mode)
    (a : Act) (c : Cmd) (hc : a.toCmd = some c) (s : Ed) (hcov : CoveredAt S a s.line.buf s.line.pos)
    (hwf : WF s.line) (hg : s.line.canGrow = true) (hr : RingOK s.ring) :
    wp (execute S U cfg c) (RefinedAct S U a mode s) (fun _ _ => False) s := by
  by_cases hrc : ∃ n ch, a = .replaceChar n ch
  · obtain ⟨n, ch, rfl⟩ := hrc
    cases hc
    exact execute_replaceChar_refines S U cfg hS hnp mode n ch s hwf hg hcov
  · have hcov' : Covered a := by
      cases a <;> first | exact hcov | exact absurd ⟨_, _, rfl⟩ hrc
    exact execute_refines S U cfg hS hnl hnp mode a c hc hcov' s hwf hg hr

/-- from the keymap's answer to the effect (as `key_to_effect`, with the extended coverage) -/
theorem key_to_effect_all {km : EM Cmd} (hS : S.Stable) (hnl : S.NlAlone) (hnp : cfg.hinterPanicAt = none) (mode : Mode)
    (a : Act) (c : Cmd) (hc : a.toCmd = some c) (s s1 : Ed) (hcov : CoveredAt S a s.line.buf s.line.pos)
    (hwf : WF s.line) (hg : s.line.canGrow = true) (hr : RingOK s.ring)
    (hkm : km s = .ok (c, s1)) (hl : s1.line = s.line) (hring : s1.ring = s.ring) :
    wp (do let cmd ← km; execute S U cfg cmd) (RefinedAct S U a mode s) (fun _ _ => False) s := by
  rw [wp_bind]
  refine wp_of_eq_ok hkm ?_
  have := execute_refines_all S U cfg hS hnl hnp mode a c hc s1 (hl ▸ hcov) (hl ▸ hwf) (hl ▸ hg) (hring ▸ hr)
  rw [refinedAct_congr S U a mode hl] at this
  exact this

end
end Rl
