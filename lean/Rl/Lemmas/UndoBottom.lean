/-
  The bottom of the undo stack under the operations of a sub-loop (list level; used by Props/C05 and by
  Lemmas/EditorLogViLoops): `BotGood` — the bottom `m` entries replay some text to a prefix of a given
  text — and `AboveNB` — something that is not a `Begin` lies above a given `Begin`.
-/
import Rl.Lemmas.Undo
import Rl.Lemmas.EditorOps
namespace Rl

/-! ### list level: the bottom of the stack -/

theorem replay_marker {x : Change} (hx : x.isMarker = true) (us : List Change) (t0 : Text) :
    replayLog (x :: us).reverse t0 = replayLog us.reverse t0 := by
  have hx' : ∀ t, applyFwd x t = some t := by
    intro t; cases x <;> first | rfl | cases hx
  cases h : replayLog us.reverse t0 with
  | some t => exact replay_cons.mpr ⟨t, h, hx' t⟩
  | none =>
    cases h2 : replayLog (x :: us).reverse t0 with
    | none => rfl
    | some t' =>
      obtain ⟨t, ht, _⟩ := replay_cons.mp h2
      rw [h] at ht; cases ht

/-- the bottom `m` entries of the stack `us` (most recent first) replay some text to a prefix of `bk` -/
def BotGood (bk : Text) (m : Nat) (us : List Change) : Prop :=
  ∃ t0 p w, replayLog (us.drop (us.length - m)).reverse t0 = some p ∧ bk = p ++ w

theorem botGood_marker {bk : Text} {m : Nat} {x : Change} (hx : x.isMarker = true) (us : List Change) :
    BotGood bk m (x :: us) ↔ BotGood bk m us := by
  unfold BotGood
  by_cases hm : m ≤ us.length
  · have : (x :: us).length - m = (us.length - m) + 1 := by simp only [List.length_cons]; omega
    rw [this, List.drop_succ_cons]
  · have e1 : (x :: us).length - m = 0 := by simp only [List.length_cons]; omega
    have e2 : us.length - m = 0 := by omega
    rw [e1, e2, List.drop_zero, List.drop_zero]
    simp only [replay_marker hx]

theorem botGood_push {bk : Text} {m : Nat} (x : Change) {us : List Change} (hm : m ≤ us.length) :
    BotGood bk m (x :: us) ↔ BotGood bk m us := by
  unfold BotGood
  have : (x :: us).length - m = (us.length - m) + 1 := by simp only [List.length_cons]; omega
  rw [this, List.drop_succ_cons]

theorem botGood_min {bk : Text} {m : Nat} {us : List Change} :
    BotGood bk (min m us.length) us ↔ BotGood bk m us := by
  unfold BotGood
  have : us.length - min m us.length = us.length - m := by omega
  rw [this]

theorem botGood_endLoop {bk : Text} {m : Nat} : ∀ (n : Nat) (us : List Change) (b : Bool),
    BotGood bk m us → BotGood bk m (Changeset.endLoop n us b).1 := by
  intro n
  induction n with
  | zero => intro us b h; exact h
  | succ n ih =>
    intro us b h
    unfold Changeset.endLoop
    split
    · exact ih _ _ ((botGood_marker rfl _).mp h)
    · exact ih _ _ ((botGood_marker rfl _).mpr h)

/-- **`update` and the bottom of the log**: the only way `update(new)` touches the bottom `m` entries is
    the merge of its `Delete(0, line)` into a `Delete` on top of them (nothing above the mark); then the
    bottom replays to the empty text, a prefix of anything -/
theorem botGood_update (S : Segmenter) (alnum : Char → Bool) {bk : Text} {m : Nat} (c : Changeset)
    (old new t0 : Text) (hA : replayLog c.undos.reverse t0 = some old) (hm : m ≤ c.undos.length)
    (hB : BotGood bk m c.undos) :
    m ≤ (c.onNotifs S alnum (updNotifs old new)).undos.length ∧
      BotGood bk m (c.onNotifs S alnum (updNotifs old new)).undos := by
  have e : c.onNotifs S alnum (updNotifs old new)
      = ((c.onNotif S alnum (.del 0 old .forward)).insertStr 0 new) := rfl
  rw [e, Changeset.insertStr_undos]
  have hd : applyNotif (.del 0 old .forward) old = some [] :=
    applyFwd_delete.mpr ⟨[], [], by simp, rfl, rfl⟩
  have h1 := onNotif_replay S alnum c (.del 0 old .forward) t0 old [] hA hd
  have step1 : m ≤ (c.onNotif S alnum (.del 0 old .forward)).undos.length ∧
      BotGood bk m (c.onNotif S alnum (.del 0 old .forward)).undos := by
    rcases Changeset.onNotif_shape S alnum c (.del 0 old .forward) with h | ⟨ch, _, h⟩ | ⟨hd, rest, ch, hu, _, _, h⟩
    · rw [h]; exact ⟨hm, hB⟩
    · rw [h]; exact ⟨by simp only [List.length_cons]; omega, (botGood_push ch hm).mpr hB⟩
    · rw [h] at h1 ⊢
      rw [hu] at hm hB
      simp only [List.length_cons] at hm ⊢
      refine ⟨hm, ?_⟩
      by_cases hr : m ≤ rest.length
      · exact (botGood_push ch hr).mpr ((botGood_push hd hr).mp hB)
      · refine ⟨t0, [], bk, ?_, rfl⟩
        have : (ch :: rest).length - m = 0 := by simp only [List.length_cons]; omega
        rw [this, List.drop_zero]; exact h1
  split
  · exact step1
  · exact ⟨by simp only [List.length_cons]; omega, (botGood_push _ step1.1).mpr step1.2⟩

/-! ### list level: something that is not a `Begin` lies above the sub-loop's `Begin` -/

def HasNB (l : List Change) : Prop := ∃ x ∈ l, x ≠ Change.begin

/-- the stack is `above ++ Begin :: base` and `above` has an entry that is not a `Begin` -/
def AboveNB (base us : List Change) : Prop := ∃ above, us = above ++ Change.begin :: base ∧ HasNB above

theorem aboveNB_endLoop {base : List Change} : ∀ (n : Nat) (above : List Change) (b : Bool), HasNB above →
    AboveNB base (Changeset.endLoop n (above ++ Change.begin :: base) b).1 := by
  intro n
  induction n with
  | zero => intro above b h; exact ⟨above, rfl, h⟩
  | succ n ih =>
    intro above b h
    cases above with
    | nil => obtain ⟨x, hx, _⟩ := h; cases hx
    | cons a as =>
      have hpush : AboveNB base (Changeset.endLoop n (Change.end_ :: (a :: as ++ Change.begin :: base)) true).1 :=
        ih (Change.end_ :: a :: as) true ⟨.end_, List.mem_cons_self, by intro h; cases h⟩
      cases a with
      | begin =>
        obtain ⟨x, hx, hne⟩ := h
        have hx' : x ∈ as := by
          rcases List.mem_cons.mp hx with h | h
          · exact absurd h hne
          · exact h
        exact ih as b ⟨x, hx', hne⟩
      | end_ => exact hpush
      | insert _ _ => exact hpush
      | delete _ _ => exact hpush
      | replace _ _ _ => exact hpush

theorem aboveNB_onNotif (S : Segmenter) (alnum : Char → Bool) {base : List Change} (c : Changeset) (n : Notif)
    (h : AboveNB base c.undos) : AboveNB base (c.onNotif S alnum n).undos := by
  obtain ⟨above, hu, x, hx, hne⟩ := h
  rcases Changeset.onNotif_shape S alnum c n with h | ⟨ch, _, h⟩ | ⟨hd, rest, ch, hu2, _, hm, h⟩
  · rw [h]; exact ⟨above, hu, x, hx, hne⟩
  · rw [h]; exact ⟨ch :: above, by rw [hu]; rfl, x, List.mem_cons_of_mem _ hx, hne⟩
  · rw [h]
    cases above with
    | nil => cases hx
    | cons a as =>
      rw [hu] at hu2
      simp only [List.cons_append, List.cons.injEq] at hu2
      refine ⟨ch :: as, by rw [← hu2.2]; rfl, ch, List.mem_cons_self, ?_⟩
      intro hc; rw [hc] at hm; cases hm

theorem aboveNB_onNotifs (S : Segmenter) (alnum : Char → Bool) {base : List Change} (ns : List Notif) :
    ∀ (c : Changeset), AboveNB base c.undos → AboveNB base (c.onNotifs S alnum ns).undos := by
  induction ns with
  | nil => intro c h; exact h
  | cons n ns ih => intro c h; exact ih _ (aboveNB_onNotif S alnum c n h)

theorem aboveNB_facts {base us : List Change} (h : AboveNB base us) :
    base.length < us.length ∧ us.drop (us.length - base.length) = base := by
  obtain ⟨above, rfl, _⟩ := h
  refine ⟨by simp only [List.length_append, List.length_cons]; omega, ?_⟩
  have : (above ++ Change.begin :: base).length - base.length = (above ++ [Change.begin]).length := by
    simp only [List.length_append, List.length_cons, List.length_nil]; omega
  rw [this]
  have e : above ++ Change.begin :: base = (above ++ [Change.begin]) ++ base := by simp
  rw [e, List.drop_left]

end Rl
