/-
  Helper lemmas for the C03 totality / cursor-validity theorem of `indent` (and dedent):
  `splitNl`/`joinNl`, the chunked blank insertion, and the per-line loops with their invariant
  `buf = X ++ joinNl lines ++ Z`, `index = blen X`.
-/
import Rl.Lemmas.Motion
namespace Rl
open Rl.Spec

theorem isBoundary_suffix {a b : Text} {p : Nat} (h : IsBoundary (a ++ b) p) (hp : blen a ≤ p) :
    IsBoundary b (p - blen a) := by
  obtain ⟨u, v, huv, rfl⟩ := h
  obtain ⟨y, rfl⟩ := prefix_of_append_eq huv hp
  have : b = y ++ v := by
    rw [List.append_assoc] at huv
    exact List.append_cancel_left huv
  exact ⟨y, v, this, by simp⟩

theorem isBoundary_append_left {x : Text} {p : Nat} (h : IsBoundary x p) (z : Text) : IsBoundary (x ++ z) p := by
  obtain ⟨a, b, rfl, rfl⟩ := h
  exact ⟨a, b ++ z, by simp, rfl⟩

theorem isBoundary_append_right (x : Text) {z : Text} {p : Nat} (h : IsBoundary z p) :
    IsBoundary (x ++ z) (blen x + p) := by
  obtain ⟨a, b, rfl, rfl⟩ := h
  exact ⟨x ++ a, b, by simp, by simp⟩

theorem utf8Size_space : Char.utf8Size ' ' = 1 := by decide

theorem blen_blanks (n : Nat) : blen (List.replicate n ' ') = n := by
  rw [blen_replicate, utf8Size_space]; omega

/-! ### `split('\n')` and its inverse -/

theorem splitNl_ne_nil (t : Text) : LB.splitNl t ≠ [] := by
  induction t with
  | nil => simp [LB.splitNl]
  | cons c t ih =>
    unfold LB.splitNl
    cases h : LB.splitNl t with
    | nil => simp
    | cons l ls => simp only; split <;> simp

theorem joinNl_cons_cons (l l2 : Text) (ls : List Text) :
    joinNl (l :: l2 :: ls) = l ++ '\n' :: joinNl (l2 :: ls) := rfl

theorem joinNl_splitNl (t : Text) : joinNl (LB.splitNl t) = t := by
  induction t with
  | nil => rfl
  | cons c t ih =>
    unfold LB.splitNl
    cases h : LB.splitNl t with
    | nil => exact absurd h (splitNl_ne_nil t)
    | cons l ls =>
      rw [h] at ih
      simp only
      split
      · rename_i hc
        have : c = '\n' := by simpa using hc
        subst this
        rw [joinNl_cons_cons, ih]; rfl
      · cases ls with
        | nil =>
          have : l = t := ih
          subst this; rfl
        | cons l2 ls' =>
          rw [joinNl_cons_cons] at ih
          rw [joinNl_cons_cons, ← ih]; rfl

/-- the lines still to be processed sit in the buffer at `index` -/
def LinesAt (buf : Text) (ls : List Text) (index : Nat) : Prop :=
  ls = [] ∨ ∃ X Z, buf = X ++ joinNl ls ++ Z ∧ index = blen X

/-- first line of a non-empty `LinesAt`: `buf = X ++ l ++ T ++ Z`, and after the first line has become
    `l'` (of any length) the rest sits at `blen X + blen l' + 1` -/
theorem LinesAt.cons {buf : Text} {l : Text} {rest : List Text} {index : Nat} (h : LinesAt buf (l :: rest) index) :
    ∃ X T, buf = X ++ l ++ T ∧ index = blen X ∧
      ∀ (X' l' : Text), blen X' + blen l' + 1 = blen X' + blen l' + 1 →
        LinesAt (X' ++ l' ++ T) rest (blen X' + blen l' + 1) := by
  rcases h with h | ⟨X, Z, hb, hi⟩
  · cases h
  · cases rest with
    | nil =>
      exact ⟨X, Z, by simpa [joinNl] using hb, hi, fun _ _ _ => Or.inl rfl⟩
    | cons l2 ls =>
      refine ⟨X, '\n' :: joinNl (l2 :: ls) ++ Z, by rw [hb, joinNl_cons_cons]; simp, hi, ?_⟩
      intro X' l' _
      exact Or.inr ⟨X' ++ l' ++ ['\n'], Z, by simp, by simp [utf8Size_newline]; omega⟩

/-! ### the chunked insertion of blanks -/

theorem indentInserts_ok (S : Segmenter) (U : UData) (X : Text) (amount : Nat) :
    ∀ (fuel off : Nat) (R : Text) (lb : LB), lb.buf = X ++ R → amount ≤ off + 32 * fuel →
      ∃ cap' ns, LB.indentInserts S U (blen X) amount fuel off lb =
        .ok ((), { lb with buf := X ++ List.replicate (amount - off) ' ' ++ R, cap := cap' }, ns) := by
  intro fuel
  induction fuel with
  | zero =>
    intro off R lb hb hle
    have h0 : amount - off = 0 := by omega
    refine ⟨lb.cap, [], ?_⟩
    unfold LB.indentInserts
    rw [h0]
    cases lb
    simp only at hb
    subst hb
    simp
  | succ k ih =>
    intro off R lb hb hle
    unfold LB.indentInserts
    by_cases hlt : off < amount
    · have hins := insertStr_at S U X R (List.replicate (min (amount - off) 32) ' ') lb hb
      obtain ⟨cap', ns, hrec⟩ := ih (off + 32) (List.replicate (min (amount - off) 32) ' ' ++ R)
        { lb with buf := X ++ List.replicate (min (amount - off) 32) ' ' ++ R,
                  cap := growCap lb.cap (blen lb.buf + blen (List.replicate (min (amount - off) 32) ' ')) }
        (by simp) (by omega)
      refine ⟨cap', [.insStr (blen X) (List.replicate (min (amount - off) 32) ' ')] ++ ns, ?_⟩
      simp only [hlt, if_true, LM.bind_apply, hins, hrec]
      have hrep : List.replicate (amount - (off + 32)) ' ' ++ (List.replicate (min (amount - off) 32) ' ' ++ R) =
          List.replicate (amount - off) ' ' ++ R := by
        rw [← List.append_assoc, List.replicate_append_replicate]
        congr 2; omega
      simp only [List.append_assoc, hrep]
    · have h0 : amount - off = 0 := by omega
      refine ⟨lb.cap, [], ?_⟩
      simp only [hlt, if_false]
      rw [h0]
      cases lb
      simp only at hb
      subst hb
      simp

/-! ### the per-line loops -/

theorem indentLines_ok (S : Segmenter) (U : UData) (amount : Nat) (ha : amount ≤ 255) :
    ∀ (ls : List Text) (index : Nat) (lb : LB), LinesAt lb.buf ls index → WF lb →
      ∃ lb' ns, LB.indentLines S U amount ls index lb = .ok ((), lb', ns) ∧ WF lb' := by
  intro ls
  induction ls with
  | nil => intro index lb _ hwf; exact ⟨lb, [], rfl, hwf⟩
  | cons l rest ih =>
    intro index lb hl hwf
    obtain ⟨X, T, hb, hi, hnext⟩ := hl.cons
    subst hi
    obtain ⟨cap', ns1, hins⟩ := indentInserts_ok S U X amount 8 0 (l ++ T) lb (by rw [hb]; simp) (by omega)
    simp only [Nat.sub_zero] at hins
    -- the cursor after the adjustment
    have hwf2 : WF { lb with buf := X ++ List.replicate amount ' ' ++ (l ++ T), cap := cap',
                             pos := if lb.pos ≥ blen X then lb.pos + amount else lb.pos } := by
      show IsBoundary (X ++ List.replicate amount ' ' ++ (l ++ T)) (if lb.pos ≥ blen X then lb.pos + amount else lb.pos)
      have hwf' : IsBoundary (X ++ (l ++ T)) lb.pos := by
        have : IsBoundary lb.buf lb.pos := hwf
        rw [hb] at this; simpa using this
      split
      · rename_i hge
        have h1 := isBoundary_suffix hwf' hge
        have h2 := isBoundary_append_right (X ++ List.replicate amount ' ') h1
        have e : blen (X ++ List.replicate amount ' ') + (lb.pos - blen X) = lb.pos + amount := by
          simp [blen_blanks]; omega
        rw [e] at h2; exact h2
      · rename_i hlt
        have h1 : IsBoundary X lb.pos := isBoundary_prefix hwf' (by omega)
        rw [List.append_assoc]
        exact isBoundary_append_left h1 _
    have hl2 : LinesAt (X ++ List.replicate amount ' ' ++ (l ++ T)) rest (blen X + (amount + blen l + 1)) := by
      have := hnext (X ++ List.replicate amount ' ') l rfl
      simp only [blen_append, blen_blanks, List.append_assoc] at this ⊢
      have e : blen X + amount + blen l + 1 = blen X + (amount + blen l + 1) := by omega
      rw [e] at this; exact this
    obtain ⟨lb', ns2, hrec, hwf'⟩ := ih (blen X + (amount + blen l + 1)) _ hl2 hwf2
    unfold LB.indentLines
    simp only [List.append_assoc] at hrec hins
    by_cases hge : lb.pos ≥ blen X
    · simp only [hge, if_true] at hrec
      exact ⟨lb', ns1 ++ ns2, by simp [LM.bind_apply, hins, LM.get, hge, LM.setPos, hrec], hwf'⟩
    · simp only [hge, if_false] at hrec
      exact ⟨lb', ns1 ++ ns2, by simp [LM.bind_apply, hins, LM.get, hge, hrec], hwf'⟩

theorem dedentLines_ok (ws : Char → Bool) (amount : Nat) :
    ∀ (ls : List Text) (index : Nat) (lb : LB), LinesAt lb.buf ls index → WF lb →
      ∃ lb' ns, LB.dedentLines ws amount ls index lb = .ok ((), lb', ns) ∧ WF lb' := by
  intro ls
  induction ls with
  | nil => intro index lb _ hwf; exact ⟨lb, [], rfl, hwf⟩
  | cons l rest ih =>
    intro index lb hl hwf
    obtain ⟨X, T, hb, hi, hnext⟩ := hl.cons
    subst hi
    -- the part of the line that is removed
    obtain ⟨hfb, hfle⟩ := floorBoundary_spec l (min (blen l - blen (l.dropWhile ws)) amount)
    generalize hdel : floorBoundary l (min (blen l - blen (l.dropWhile ws)) amount) = deleting at hfb hfle
    obtain ⟨d, l', hl', hd⟩ := hfb
    subst hl' hd
    have hdr := drain_at X d (l' ++ T) .forward lb (by rw [hb]; simp)
    have hwf0 : IsBoundary (X ++ (d ++ (l' ++ T))) lb.pos := by
      have : IsBoundary lb.buf lb.pos := hwf
      rw [hb] at this; simpa using this
    have hwf2 : WF { lb with buf := X ++ (l' ++ T),
                             pos := if lb.pos ≥ blen X then (if lb.pos - blen X < blen d then blen X else lb.pos - blen d)
                                    else lb.pos } := by
      show IsBoundary (X ++ (l' ++ T)) _
      split
      · rename_i hge
        split
        · exact isBoundary_mid X _
        · rename_i hnl
          have h0 : IsBoundary ((X ++ d) ++ (l' ++ T)) lb.pos := by simpa using hwf0
          have h1 := isBoundary_suffix h0 (by simp; omega)
          have h2 := isBoundary_append_right X h1
          have e : blen X + (lb.pos - blen (X ++ d)) = lb.pos - blen d := by simp; omega
          rw [e] at h2; exact h2
      · rename_i hlt
        have h1 : IsBoundary X lb.pos := isBoundary_prefix hwf0 (by omega)
        exact isBoundary_append_left h1 _
    have hl2 : LinesAt (X ++ (l' ++ T)) rest (blen X + (blen (d ++ l') + 1 - blen d)) := by
      have := hnext X l' rfl
      simp only [blen_append, List.append_assoc] at this ⊢
      have e : blen X + (blen d + blen l' + 1 - blen d) = blen X + blen l' + 1 := by omega
      rw [e]; exact this
    obtain ⟨lb', ns2, hrec, hwf'⟩ := ih _ _ hl2 hwf2
    unfold LB.dedentLines
    dsimp only
    rw [hdel]
    try simp only [List.append_assoc, blen_append] at hrec
    try simp only [List.append_assoc] at hdr
    by_cases hge : lb.pos ≥ blen X
    · by_cases hlt : lb.pos - blen X < blen d
      · simp only [hge, hlt, if_true] at hrec
        exact ⟨lb', [.del (blen X) d .forward] ++ ns2, by simp [LM.bind_apply, hdr, LM.get, hge, hlt, LM.setPos, hrec], hwf'⟩
      · simp only [hge, hlt, if_true, if_false] at hrec
        exact ⟨lb', [.del (blen X) d .forward] ++ ns2, by simp [LM.bind_apply, hdr, LM.get, hge, hlt, LM.setPos, hrec], hwf'⟩
    · simp only [hge, if_false] at hrec
      exact ⟨lb', [.del (blen X) d .forward] ++ ns2, by simp [LM.bind_apply, hdr, LM.get, hge, hrec], hwf'⟩

/-! ### `indent`: the part after the range has been chosen -/

open LM in
/-- `indent` from `let start = self.buf[..start].rfind('\n')…` on (the state is still the initial one) -/
def LB.indentTail (S : Segmenter) (U : UData) (amount : Nat) (dedent : Bool) (lb : LB) (start e : Nat) : LM Bool := do
  let pre ← lift (sliceTo lb.buf start)
  let start := match rfindChar '\n' pre with
    | some p => p + 1
    | none => 0
  let suf ← lift (sliceFrom lb.buf e)
  let e := match findChar '\n' suf with
    | some p => e + p
    | none => lb.len
  let region ← lift (slice lb.buf start e)
  if dedent then LB.dedentLines U.ws amount (LB.splitNl region) start
  else LB.indentLines S U amount (LB.splitNl region) start
  return true

theorem lineEnd_cases {buf x s : Text} (hb : buf = x ++ s) :
    ∃ de0, ((findChar '\n' s = none ∧ de0 = blen buf) ∨ (∃ v, findChar '\n' s = some v ∧ de0 = blen x + v)) ∧
      IsLineEnd buf de0 ∧ blen x ≤ de0 := by
  have := lineEnd_of_suffix (buf := buf) (x := x) (s := s) hb
  cases hf : findChar '\n' s with
  | none => rw [hf] at this; exact ⟨_, Or.inl ⟨rfl, rfl⟩, this.1, this.2⟩
  | some v => rw [hf] at this; exact ⟨_, Or.inr ⟨v, rfl, rfl⟩, this.1, this.2⟩

theorem indentTail_ok (S : Segmenter) (U : UData) (amount : Nat) (ha : amount ≤ 255) (dedent : Bool) (lb : LB)
    (hwf : WF lb) (a b : Nat) (hA : IsBoundary lb.buf a) (hB : IsBoundary lb.buf b) (hab : a ≤ b) :
    ∃ lb' ns, LB.indentTail S U amount dedent lb a b lb = .ok (true, lb', ns) ∧ WF lb' := by
  obtain ⟨u, r1, hb1, rfl⟩ := hA
  obtain ⟨x, s, hb2, rfl⟩ := hB
  have hst : sliceTo lb.buf (blen u) = .ok u := by rw [hb1]; exact sliceTo_mid u r1
  have hsf : sliceFrom lb.buf (blen x) = .ok s := by rw [hb2]; exact sliceFrom_mid x s
  obtain ⟨ds, hdsc, h1, h1'⟩ := lineStart_cases (buf := lb.buf) (u := u) (rest := r1) hb1
  obtain ⟨de, hdec, h2, h2'⟩ := lineEnd_cases (buf := lb.buf) (x := x) (s := s) hb2
  obtain ⟨X, region, Z, hs3, hbuf, hX, hde⟩ := split3_of_boundaries h1.boundary h2.boundary (by omega)
  have hsl : slice lb.buf ds de = .ok region := by simp [slice, hs3]
  have hl : LinesAt lb.buf (LB.splitNl region) ds := Or.inr ⟨X, Z, by rw [joinNl_splitNl]; exact hbuf, hX⟩
  cases dedent with
  | true =>
    obtain ⟨lb', ns, hrun, hwf'⟩ := dedentLines_ok U.ws amount _ ds lb hl hwf
    refine ⟨lb', ns, ?_, hwf'⟩
    unfold LB.indentTail
    rcases hdsc with ⟨g1, rfl⟩ | ⟨k, g1, rfl⟩ <;> rcases hdec with ⟨f1, rfl⟩ | ⟨v, f1, rfl⟩ <;>
      simp [LM.bind_apply, LM.lift, hst, hsf, LB.len, g1, f1, hsl, hrun]
  | false =>
    obtain ⟨lb', ns, hrun, hwf'⟩ := indentLines_ok S U amount ha _ ds lb hl hwf
    refine ⟨lb', ns, ?_, hwf'⟩
    unfold LB.indentTail
    rcases hdsc with ⟨g1, rfl⟩ | ⟨k, g1, rfl⟩ <;> rcases hdec with ⟨f1, rfl⟩ | ⟨v, f1, rfl⟩ <;>
      simp [LM.bind_apply, LM.lift, hst, hsf, LB.len, g1, f1, hsl, hrun]

open LM in
/-- `indent` = choose the range, then `indentTail` -/
theorem indent_eq (S : Segmenter) (U : UData) (mvt : Movement) (amount : Nat) (dedent : Bool) :
    LB.indent S U mvt amount dedent = (do
      let lb ← get
      let pair : Option (Nat × Nat) ← match mvt with
        | .wholeLine | .beginningOfLine | .viFirstPrint | .endOfLine
        | .backwardChar _ | .forwardChar _ | .viCharSearch _ _ => pure (some (lb.pos, lb.pos))
        | .endOfBuffer => pure (some (lb.pos, lb.len))
        | .wholeBuffer => pure (some (0, lb.len))
        | .beginningOfBuffer => pure (some (0, lb.pos))
        | .backwardWord n d => do
          let r ← lift (LB.prevWordPos S U lb lb.pos d n)
          pure (r.map (fun p => (p, lb.pos)))
        | .forwardWord n a d => do
          let r ← lift (LB.nextWordPos S U lb lb.pos a d n)
          pure (r.map (fun p => (lb.pos, p)))
        | .lineUp n => do
          let r ← lift (LB.nLinesUp lb n)
          pure (r.map (fun (a, _) => (a, lb.pos)))
        | .lineDown n => do
          match ← lift (LB.nLinesDown lb n) with
          | none => pure none
          | some (_, b) =>
            let pre ← lift (sliceTo lb.buf b)
            if b > lb.pos && pre.getLast? == some '\n' then pure (some (lb.pos, b - 1))
            else pure (some (lb.pos, b))
      LB.indentTail S U amount dedent lb (pair.getD (lb.pos, lb.pos)).1 (pair.getD (lb.pos, lb.pos)).2) := by
  rfl

end Rl
