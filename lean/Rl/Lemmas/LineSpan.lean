/-
  C04, multi-line kills and copies (`dk`, `dj`, `yk`, `yj`): the model's line ranges
  (`n_lines_up` / `n_lines_down`) equal the declarative ones (`upStart`, `downEnd`, `linesSpan`), and
  `kill` / `copy` with `LineUp(n)` / `LineDown(n)` cover exactly the declarative span.
-/
import Rl.Lemmas.Motion
import Rl.Lemmas.Span
set_option linter.unusedVariables false
namespace Rl
open Rl.Spec

/-! ### searching for a character: what is skipped holds no occurrence -/

theorem ls_findChar_none {c : Char} {t : Text} (h : findChar c t = none) : t.filter (· == c) = [] := by
  induction t with
  | nil => rfl
  | cons x t ih =>
    simp only [findChar] at h
    split at h
    · cases h
    · rename_i hx
      cases hf : findChar c t with
      | none => simp [hx, ih hf]
      | some k => simp [hf] at h

theorem ls_rfindChar_none {c : Char} {t : Text} (h : rfindChar c t = none) : t.filter (· == c) = [] := by
  induction t with
  | nil => rfl
  | cons x t ih =>
    simp only [rfindChar] at h
    split at h
    · cases h
    · rename_i hk
      split at h
      · cases h
      · rename_i hx
        simp [hx, ih hk]

/-- first occurrence: nothing before it -/
theorem ls_findChar_some {c : Char} {s : Text} {n : Nat} (h : findChar c s = some n) :
    ∃ a b, s = a ++ c :: b ∧ n = blen a ∧ a.filter (· == c) = [] := by
  induction s generalizing n with
  | nil => simp [findChar] at h
  | cons x t ih =>
    simp only [findChar] at h
    split at h
    · rename_i hx
      have : x = c := by simpa using hx
      subst this
      cases h
      exact ⟨[], t, rfl, rfl, rfl⟩
    · rename_i hx
      cases hf : findChar c t with
      | none => simp [hf] at h
      | some k =>
        simp [hf] at h
        obtain ⟨a, b, rfl, rfl, hn⟩ := ih hf
        exact ⟨x :: a, b, rfl, by simp [← h]; omega, by simp [hx, hn]⟩

/-- last occurrence: nothing after it -/
theorem ls_rfindChar_some {c : Char} {s : Text} {n : Nat} (h : rfindChar c s = some n) :
    ∃ a b, s = a ++ c :: b ∧ n = blen a ∧ b.filter (· == c) = [] := by
  induction s generalizing n with
  | nil => simp [rfindChar] at h
  | cons x t ih =>
    simp only [rfindChar] at h
    split at h
    · rename_i k hk
      cases h
      obtain ⟨a, b, rfl, rfl, hn⟩ := ih hk
      exact ⟨x :: a, b, rfl, by simp; omega, hn⟩
    · rename_i hk
      split at h
      · rename_i hx
        have : x = c := by simpa using hx
        subst this
        cases h
        exact ⟨[], t, rfl, rfl, ls_rfindChar_none hk⟩
      · cases h

/-! ### declarative line start / end on a decomposition -/

theorem ls_lineStartOf_mid (x s : Text) :
    lineStartOf (x ++ s) (blen x) = (match rfindChar '\n' x with | some i => i + 1 | none => 0) := by
  unfold lineStartOf splitAt?
  rw [splitAtByte_append]
  rfl

theorem ls_lineEndOf_mid (x s : Text) :
    lineEndOf (x ++ s) (blen x) = (match findChar '\n' s with | some i => blen x + i | none => blen (x ++ s)) := by
  unfold lineEndOf splitAt?
  rw [splitAtByte_append]
  rfl

theorem ls_lineStartOf_le (buf : Text) (p : Nat) : lineStartOf buf p ≤ p := by
  unfold lineStartOf splitAt?
  cases hs : splitAtByte buf p with
  | none => exact Nat.zero_le _
  | some ab =>
    obtain ⟨a, b⟩ := ab
    obtain ⟨rfl, rfl⟩ := splitAtByte_some hs
    simp only
    cases hf : rfindChar '\n' a with
    | none => exact Nat.zero_le _
    | some i =>
      obtain ⟨u, v, rfl, rfl⟩ := rfindChar_some hf
      simp [utf8Size_newline]

theorem ls_upStart_zero (buf : Text) (k : Nat) : upStart buf k 0 = 0 := by
  cases k <;> simp [upStart]

theorem ls_upStart_le (buf : Text) (k s : Nat) : upStart buf k s ≤ s := by
  induction k generalizing s with
  | zero => exact Nat.le_refl _
  | succ k ih =>
    unfold upStart
    split
    · exact Nat.zero_le _
    · have h1 := ih (lineStartOf buf (s - 1))
      have h2 := ls_lineStartOf_le buf (s - 1)
      omega

theorem ls_upStart_lt (buf : Text) (k s : Nat) (hs : s ≠ 0) : upStart buf (k + 1) s < s := by
  unfold upStart
  have h0 : (s == 0) = false := by simp [hs]
  simp only [h0, Bool.false_eq_true, if_false]
  have h1 := ls_upStart_le buf k (lineStartOf buf (s - 1))
  have h2 := ls_lineStartOf_le buf (s - 1)
  omega

theorem ls_downEnd_len (buf : Text) (k e : Nat) (h : blen buf ≤ e) : downEnd buf k e = e := by
  cases k with
  | zero => rfl
  | succ k => unfold downEnd; simp [h]

/-! ### G1: the loops compute `upStart` / `downEnd` -/

theorem ls_nluLoop_eq (buf : Text) (k start : Nat) (h : ∃ u v, buf = u ++ '\n' :: v ∧ start = blen u + 1) :
    LB.nluLoop buf k start = .ok (upStart buf k start) := by
  induction k generalizing start with
  | zero => rfl
  | succ k ih =>
    obtain ⟨u, v, hb, hs⟩ := h
    have hne : (start == 0) = false := by simp [hs]
    have hst : sliceTo buf (start - 1) = .ok u := by
      rw [hb, hs]; simp only [Nat.add_sub_cancel]; exact sliceTo_mid u _
    have hls : lineStartOf buf (start - 1) = (match rfindChar '\n' u with | some i => i + 1 | none => 0) := by
      rw [hb, hs]; simp only [Nat.add_sub_cancel]; exact ls_lineStartOf_mid u _
    unfold LB.nluLoop upStart
    simp only [hne, hst, hls, bind, Except.bind, Bool.false_eq_true, if_false]
    cases hf : rfindChar '\n' u with
    | none => simp only [ls_upStart_zero]; rfl
    | some off =>
      obtain ⟨u', v', rfl, rfl⟩ := rfindChar_some hf
      exact ih (blen u' + 1) ⟨u', v' ++ '\n' :: v, by rw [hb]; simp, rfl⟩

/-- G1 (`n_lines_up`): the model's range is `[upStart …, one past the current line's break)` -/
theorem ls_nLinesUp_eq (lb : LB) (n : Nat) (h : WF lb) :
    LB.nLinesUp lb n = .ok (
      if lineStartOf lb.buf lb.pos = 0 then none
      else some (upStart lb.buf n (lineStartOf lb.buf lb.pos),
                 if lineEndOf lb.buf lb.pos < blen lb.buf then lineEndOf lb.buf lb.pos + 1 else blen lb.buf)) := by
  obtain ⟨x, s, hb, hp⟩ := h.split
  have hsf : sliceFrom lb.buf lb.pos = .ok s := by rw [hb, hp]; exact sliceFrom_mid x s
  have hst : sliceTo lb.buf lb.pos = .ok x := by rw [hb, hp]; exact sliceTo_mid x s
  have hls : lineStartOf lb.buf lb.pos = (match rfindChar '\n' x with | some i => i + 1 | none => 0) := by
    rw [hb, hp]; exact ls_lineStartOf_mid x s
  have hle : lineEndOf lb.buf lb.pos = (match findChar '\n' s with | some i => blen x + i | none => blen (x ++ s)) := by
    rw [hb, hp]; exact ls_lineEndOf_mid x s
  unfold LB.nLinesUp
  simp only [hst, hsf, hls, hle, bind, Except.bind, pure, Except.pure]
  cases hf : rfindChar '\n' x with
  | none => simp
  | some off =>
    obtain ⟨u, v, rfl, rfl⟩ := rfindChar_some hf
    have hl := ls_nluLoop_eq lb.buf n (blen u + 1) ⟨u, v ++ s, by rw [hb]; simp, rfl⟩
    simp only [hl]
    cases hg : findChar '\n' s with
    | none => simp [LB.len, hb]
    | some k =>
      obtain ⟨a', b', rfl, rfl⟩ := findChar_some hg
      have : blen (u ++ '\n' :: v) + blen a' < blen lb.buf := by
        rw [hb]; simp [utf8Size_newline]; omega
      simp only [utf8Size_newline, blen_append, blen_cons] at this
      simp [hp, utf8Size_newline]
      omega

theorem ls_downEnd_succ (buf : Text) (k e : Nat) (h : e < blen buf) :
    downEnd buf (k + 1) e = downEnd buf k (lineEndOf buf (e + 1)) := by
  rw [downEnd]
  have : ¬ (e ≥ blen buf) := by omega
  simp only [this, if_false]

/-- loop invariant of `n_lines_down`: started one past the break at `blen p`, the loop returns one past
    the break `downEnd` names (the buffer end when there is none); the text walked over holds exactly
    `k` breaks in the first case and fewer in the second -/
theorem ls_nldLoop_inv (buf : Text) (k : Nat) (p q : Text) (hb : buf = p ++ '\n' :: q) :
    ∃ m z, q = m ++ z ∧
      LB.nldLoop buf k (blen p + 1) = .ok (blen p + 1 + blen m) ∧
      (blen p + 1 + blen m =
        if downEnd buf k (blen p) < blen buf then downEnd buf k (blen p) + 1 else blen buf) ∧
      (if downEnd buf k (blen p) < blen buf then (m.filter (· == '\n')).length = k
       else (m.filter (· == '\n')).length < k) := by
  induction k generalizing p q with
  | zero =>
    have hlt : blen p < blen buf := by rw [hb]; simp [utf8Size_newline]; omega
    refine ⟨[], q, rfl, rfl, ?_, ?_⟩
    · simp [downEnd, hlt]
    · simp [downEnd, hlt]
  | succ k ih =>
    have hlt : blen p < blen buf := by rw [hb]; simp [utf8Size_newline]; omega
    have hsf : sliceFrom buf (blen p + 1) = .ok q := by
      rw [hb]
      have := sliceFrom_mid (p ++ ['\n']) q
      simpa [utf8Size_newline] using this
    have hle : lineEndOf buf (blen p + 1) =
        (match findChar '\n' q with | some i => blen p + 1 + i | none => blen buf) := by
      have := ls_lineEndOf_mid (p ++ ['\n']) q
      have e1 : p ++ ['\n'] ++ q = buf := by rw [hb]; simp
      have e2 : blen (p ++ ['\n']) = blen p + 1 := by simp [utf8Size_newline]
      rw [e1, e2] at this
      exact this
    unfold LB.nldLoop
    simp only [hsf, bind, Except.bind]
    rw [ls_downEnd_succ buf k (blen p) hlt, hle]
    cases hf : findChar '\n' q with
    | none =>
      have hq : blen p + 1 + blen q = blen buf := by rw [hb]; simp [utf8Size_newline]; omega
      have hn := ls_findChar_none hf
      refine ⟨q, [], by simp, by simp only [hq]; rfl, ?_, ?_⟩
      · simp [ls_downEnd_len buf k (blen buf) (Nat.le_refl _), hq]
      · simp [ls_downEnd_len buf k (blen buf) (Nat.le_refl _), hn]
    | some off =>
      obtain ⟨a, b, rfl, rfl, hn⟩ := ls_findChar_some hf
      obtain ⟨m', z', hb', h1, h2, h3⟩ := ih (p ++ '\n' :: a) b (by rw [hb]; simp)
      have e3 : blen (p ++ '\n' :: a) = blen p + 1 + blen a := by simp [utf8Size_newline]; omega
      rw [e3] at h1 h2 h3
      refine ⟨a ++ '\n' :: m', z', by rw [hb']; simp, ?_, ?_, ?_⟩
      · simp only
        rw [h1]
        simp [utf8Size_newline]; omega
      · simp only
        rw [← h2]
        simp [utf8Size_newline]; omega
      · simp only
        split
        · rename_i hc
          rw [if_pos hc] at h3
          simp [List.filter_append, hn, h3]
        · rename_i hc
          rw [if_neg hc] at h3
          simp [List.filter_append, hn]
          omega

/-- the text before the cursor splits at the current line's start -/
theorem ls_lineStart_split (x : Text) :
    ∃ X v, x = X ++ v ∧ v.filter (· == '\n') = [] ∧
      (match rfindChar '\n' x with | some i => i + 1 | none => 0) = blen X := by
  cases hf : rfindChar '\n' x with
  | none => exact ⟨[], x, rfl, ls_rfindChar_none hf, rfl⟩
  | some i =>
    obtain ⟨u, v, rfl, rfl, hn⟩ := ls_rfindChar_some hf
    exact ⟨u ++ ['\n'], v, by simp, hn, by simp [utf8Size_newline]⟩

/-- G1 (`n_lines_down`), full form: the range as a decomposition of the text, with the number of line
    breaks it holds -/
theorem ls_nLinesDown_full (lb : LB) (n : Nat) (h : WF lb)
    (hlt : lineEndOf lb.buf lb.pos < blen lb.buf) :
    ∃ X mid z, lb.buf = X ++ mid ++ z ∧ lineStartOf lb.buf lb.pos = blen X ∧
      LB.nLinesDown lb n = .ok (some (blen X, blen X + blen mid)) ∧
      (blen X + blen mid =
        if downEnd lb.buf n (lineEndOf lb.buf lb.pos) < blen lb.buf
        then downEnd lb.buf n (lineEndOf lb.buf lb.pos) + 1 else blen lb.buf) ∧
      (if downEnd lb.buf n (lineEndOf lb.buf lb.pos) < blen lb.buf
        then (mid.filter (· == '\n')).length = n + 1 else (mid.filter (· == '\n')).length ≤ n) ∧
      lb.pos < blen X + blen mid := by
  obtain ⟨x, s, hb, hp⟩ := h.split
  have hsf : sliceFrom lb.buf lb.pos = .ok s := by rw [hb, hp]; exact sliceFrom_mid x s
  have hst : sliceTo lb.buf lb.pos = .ok x := by rw [hb, hp]; exact sliceTo_mid x s
  have hls : lineStartOf lb.buf lb.pos = (match rfindChar '\n' x with | some i => i + 1 | none => 0) := by
    rw [hb, hp]; exact ls_lineStartOf_mid x s
  have hle : lineEndOf lb.buf lb.pos = (match findChar '\n' s with | some i => blen x + i | none => blen (x ++ s)) := by
    rw [hb, hp]; exact ls_lineEndOf_mid x s
  cases hf : findChar '\n' s with
  | none => rw [hle, hf, hb] at hlt; simp at hlt
  | some off =>
    obtain ⟨a, b, rfl, rfl, hna⟩ := ls_findChar_some hf
    obtain ⟨X, v, hx, hnv, hX⟩ := ls_lineStart_split x
    have hbuf : lb.buf = (x ++ a) ++ '\n' :: b := by rw [hb]; simp
    obtain ⟨m, z, hbm, h1, h2, h3⟩ := ls_nldLoop_inv lb.buf n (x ++ a) b hbuf
    have hle' : lineEndOf lb.buf lb.pos = blen (x ++ a) := by rw [hle, hf]; simp
    rw [hle']
    have hxl : blen x = blen X + blen v := by rw [hx]; simp
    have hmid : blen X + blen (v ++ a ++ '\n' :: m) = blen (x ++ a) + 1 + blen m := by
      simp [utf8Size_newline, hxl]; omega
    refine ⟨X, v ++ a ++ '\n' :: m, z, ?_, by rw [hls, hX], ?_, ?_, ?_, ?_⟩
    · rw [hb, hx, hbm]; simp
    · unfold LB.nLinesDown
      simp only [hst, hsf, hf, bind, Except.bind, pure, Except.pure]
      have e4 : lb.pos + blen a + 1 = blen (x ++ a) + 1 := by rw [hp]; simp
      rw [e4, h1]
      simp only []
      rw [hmid, ← hX]
      rfl
    · rw [hmid]; exact h2
    · split
      · rename_i hc
        rw [if_pos hc] at h3
        simp [List.filter_append, hnv, hna, h3]
      · rename_i hc
        rw [if_neg hc] at h3
        simp [List.filter_append, hnv, hna]
        omega
    · rw [hmid, hp]; simp; omega

/-- G1 (`n_lines_down`): the model's range is `[line start, one past the break `downEnd` names)` -/
theorem ls_nLinesDown_eq (lb : LB) (n : Nat) (h : WF lb) :
    LB.nLinesDown lb n = .ok (
      if lineEndOf lb.buf lb.pos ≥ blen lb.buf then none
      else some (lineStartOf lb.buf lb.pos,
                 if downEnd lb.buf n (lineEndOf lb.buf lb.pos) < blen lb.buf
                 then downEnd lb.buf n (lineEndOf lb.buf lb.pos) + 1 else blen lb.buf)) := by
  by_cases hc : lineEndOf lb.buf lb.pos ≥ blen lb.buf
  · rw [if_pos hc]
    obtain ⟨x, s, hb, hp⟩ := h.split
    have hsf : sliceFrom lb.buf lb.pos = .ok s := by rw [hb, hp]; exact sliceFrom_mid x s
    have hle : lineEndOf lb.buf lb.pos = (match findChar '\n' s with | some i => blen x + i | none => blen (x ++ s)) := by
      rw [hb, hp]; exact ls_lineEndOf_mid x s
    cases hf : findChar '\n' s with
    | none =>
      unfold LB.nLinesDown
      simp only [hsf, hf, bind, Except.bind, pure, Except.pure]
    | some off =>
      obtain ⟨a, b, rfl, rfl⟩ := findChar_some hf
      rw [hle, hf, hb] at hc
      simp [utf8Size_newline] at hc
      omega
  · rw [if_neg hc]
    obtain ⟨X, mid, z, _, h1, h2, h3, _, _⟩ := ls_nLinesDown_full lb n h (by omega)
    rw [h2, h1, h3]

/-! ### the declarative spans of `LineUp(n)` / `LineDown(n)` -/

theorem ls_linesSpan_copy (buf : Text) (s e : Nat) :
    linesSpan buf s e true = (s, if e < blen buf then e + 1 else blen buf) := by
  unfold linesSpan
  split <;> simp

theorem ls_linesSpan_kill (buf : Text) (s e : Nat) :
    linesSpan buf s e false =
      (if e < blen buf then s else s - 1, if e < blen buf then e + 1 else blen buf) := by
  unfold linesSpan
  split
  · simp
  · simp only [Bool.false_eq_true, if_false, Prod.mk.injEq, and_true]
    split <;> omega

theorem ls_spanOf_lineUp (S : Segmenter) (U : UData) (buf : Text) (pos n : Nat) (fc : Bool)
    (hemp : buf.isEmpty = false) (hn : n ≠ 0) (hls : lineStartOf buf pos ≠ 0) :
    spanOf S U buf pos (.lineUp n) fc =
      mkSpan (linesSpan buf (upStart buf n (lineStartOf buf pos)) (lineEndOf buf pos) fc).1
             (linesSpan buf (upStart buf n (lineStartOf buf pos)) (lineEndOf buf pos) fc).2 := by
  unfold spanOf mkSpan
  simp [hemp, hn, hls]

theorem ls_spanOf_lineDown (S : Segmenter) (U : UData) (buf : Text) (pos n : Nat) (fc : Bool)
    (hemp : buf.isEmpty = false) (hn : n ≠ 0) (hle : lineEndOf buf pos < blen buf) :
    spanOf S U buf pos (.lineDown n) fc =
      mkSpan (linesSpan buf (lineStartOf buf pos) (downEnd buf n (lineEndOf buf pos)) fc).1
             (linesSpan buf (lineStartOf buf pos) (downEnd buf n (lineEndOf buf pos)) fc).2 := by
  unfold spanOf mkSpan
  have : ¬ (blen buf ≤ lineEndOf buf pos) := by omega
  simp [hemp, hn, this]

/-! ### G2: copies -/

theorem ls_copy_empty (S : Segmenter) (U : UData) (lb : LB) (mvt : Movement) (r : Option Text)
    (hemp : lb.buf.isEmpty = true) (hrun : LB.copy S U lb mvt = .ok r) : r = none := by
  unfold LB.copy at hrun
  simp only [hemp, if_true] at hrun
  cases hrun
  rfl

/-- `copy(LineUp(n))` (`yk`) returns exactly the declarative span -/
theorem copy_lineUp_is_span (S : Segmenter) (U : UData) (lb : LB) (n : Nat) (r : Option Text) (h : WF lb)
    (hrun : LB.copy S U lb (.lineUp n) = .ok r) : checkCopy S U lb (.lineUp n) (.optText r) = none := by
  by_cases hemp : lb.buf.isEmpty = true
  · have hr := ls_copy_empty S U lb _ r hemp hrun
    subst hr
    exact checkCopy_nothing (by unfold spanOf; simp [hemp])
  have hemp' : lb.buf.isEmpty = false := by simpa using hemp
  by_cases hn : n = 0
  · exact checkCopy_unjudged (by unfold spanOf; simp [hemp', hn])
  have heq := ls_nLinesUp_eq lb n h
  obtain ⟨r0, hr0, hprop⟩ := nLinesUp_ok lb n h
  by_cases hls : lineStartOf lb.buf lb.pos = 0
  · rw [if_pos hls] at heq
    have hr : r = none := by
      unfold LB.copy at hrun
      simp only [hemp', heq, bind, Except.bind, pure, Except.pure] at hrun
      simp at hrun
      exact hrun.symm
    subst hr
    exact checkCopy_nothing (by unfold spanOf; simp [hemp', hn, hls])
  · rw [if_neg hls] at heq
    rw [heq] at hr0
    cases hr0
    obtain ⟨hA, hB, hle1, hle2⟩ := hprop _ _ rfl
    obtain ⟨k, rfl⟩ : ∃ k, n = k + 1 := ⟨n - 1, by omega⟩
    have hlt := ls_upStart_lt lb.buf k _ hls
    have hsl := ls_lineStartOf_le lb.buf lb.pos
    obtain ⟨x, y, z, hs, hbuf, hx, hy⟩ := split3_of_boundaries hA.boundary hB (by omega)
    have hr : r = some y := by
      unfold LB.copy at hrun
      simp only [hemp', heq, slice, hs, bind, Except.bind, pure, Except.pure] at hrun
      simp at hrun
      exact hrun.symm
    subst hr
    refine checkCopy_span (a := upStart lb.buf (k + 1) (lineStartOf lb.buf lb.pos))
      (b := if lineEndOf lb.buf lb.pos < blen lb.buf then lineEndOf lb.buf lb.pos + 1 else blen lb.buf)
      ?_ hbuf hx hy
    rw [ls_spanOf_lineUp S U _ _ _ _ hemp' hn hls, ls_linesSpan_copy]
    unfold mkSpan
    simp only []
    rw [if_pos (by omega)]

/-- `copy(LineDown(n))` (`yj`) returns exactly the declarative span -/
theorem copy_lineDown_is_span (S : Segmenter) (U : UData) (lb : LB) (n : Nat) (r : Option Text) (h : WF lb)
    (hrun : LB.copy S U lb (.lineDown n) = .ok r) : checkCopy S U lb (.lineDown n) (.optText r) = none := by
  by_cases hemp : lb.buf.isEmpty = true
  · have hr := ls_copy_empty S U lb _ r hemp hrun
    subst hr
    exact checkCopy_nothing (by unfold spanOf; simp [hemp])
  have hemp' : lb.buf.isEmpty = false := by simpa using hemp
  by_cases hn : n = 0
  · exact checkCopy_unjudged (by unfold spanOf; simp [hemp', hn])
  by_cases hle : lineEndOf lb.buf lb.pos ≥ blen lb.buf
  · have heq := ls_nLinesDown_eq lb n h
    rw [if_pos hle] at heq
    have hr : r = none := by
      unfold LB.copy at hrun
      simp only [hemp', heq, bind, Except.bind, pure, Except.pure] at hrun
      simp at hrun
      exact hrun.symm
    subst hr
    exact checkCopy_nothing (by unfold spanOf; simp [hemp', hn, hle])
  · have hle' : lineEndOf lb.buf lb.pos < blen lb.buf := by omega
    obtain ⟨X, mid, z, hbuf, h1, h2, h3, h4, h5⟩ := ls_nLinesDown_full lb n h hle'
    have hsl : slice lb.buf (blen X) (blen X + blen mid) = .ok mid := by
      rw [hbuf]; exact slice_mid X mid z
    have hr : r = some mid := by
      unfold LB.copy at hrun
      simp only [hemp', h2, hsl, bind, Except.bind, pure, Except.pure] at hrun
      simp at hrun
      exact hrun.symm
    subst hr
    have hsle := ls_lineStartOf_le lb.buf lb.pos
    refine checkCopy_span (a := blen X) (b := blen X + blen mid) ?_ hbuf rfl rfl
    rw [ls_spanOf_lineDown S U _ _ _ _ hemp' hn hle', ls_linesSpan_copy]
    unfold mkSpan
    simp only []
    rw [← h3, h1, if_pos (by omega)]

/-! ### G3: kills -/

/-- `delete_range` between two ordered boundaries, evaluated -/
theorem ls_deleteRange_eval (S : Segmenter) (U : UData) (a b : Nat) (lb : LB)
    (ha : IsBoundary lb.buf a) (hb : IsBoundary lb.buf b) (hab : a ≤ b) :
    ∃ x y z, LB.deleteRange S U a b lb = .ok ((), { lb with buf := x ++ z, pos := a }, [.del a y .forward]) ∧
      lb.buf = x ++ y ++ z ∧ a = blen x ∧ b = blen x + blen y := by
  have hle : a ≤ lb.len := ha.le_len
  obtain ⟨x, y, z, hd, hbuf, hx, hy⟩ := drain_ok (lb := { lb with pos := a }) .forward ha hb hab
  refine ⟨x, y, z, ?_, hbuf, hx, hy⟩
  unfold LB.deleteRange
  simp [LM.bind_apply, LB.setPosChecked, hle, hd]

/-- the repaired `dk` / `dj`: `set_pos(a)`, then one drain reported around the old cursor `c` -/
theorem ls_drainAround_eval (S : Segmenter) (U : UData) (a b c : Nat) (lb : LB)
    (ha : IsBoundary lb.buf a) (hb : IsBoundary lb.buf b) (hc : IsBoundary lb.buf c) (hab : a ≤ b) :
    ∃ x y z d, LB.setPosChecked S U a lb = .ok ((), { lb with pos := a }, []) ∧
      LB.drainAround a b c { lb with pos := a } = .ok (y, { lb with buf := x ++ z, pos := a }, [.del a y d]) ∧
      lb.buf = x ++ y ++ z ∧ a = blen x ∧ b = blen x + blen y := by
  have hle : a ≤ lb.len := ha.le_len
  obtain ⟨x, y, z, d, hd, hbuf, hx, hy⟩ := drainAround_ok (lb := { lb with pos := a }) c ha hb hc hab
  refine ⟨x, y, z, d, ?_, hd, hbuf, hx, hy⟩
  simp [LB.setPosChecked, hle]

theorem ls_isEmpty_false_of_lineStart {lb : LB} (h : WF lb) (hls : lineStartOf lb.buf lb.pos ≠ 0) :
    lb.buf.isEmpty = false := by
  have h1 := ls_lineStartOf_le lb.buf lb.pos
  have h2 : lb.pos ≤ blen lb.buf := h.le_len
  cases hbuf : lb.buf with
  | nil => rw [hbuf] at h2; simp at h2; omega
  | cons c t => rfl

/-- `kill(LineUp(n))` (`dk`) removes exactly the declarative span -/
theorem kill_lineUp_is_span (S : Segmenter) (U : UData) (lb lb' : LB) (n : Nat) (r : Bool) (ns : List Notif)
    (h : WF lb) (hrun : LB.kill S U (.lineUp n) lb = .ok (r, lb', ns)) :
    checkKill S U lb (.lineUp n) lb'.buf lb'.pos ns = none := by
  have heq := ls_nLinesUp_eq lb n h
  obtain ⟨r0, hr0, hprop⟩ := nLinesUp_ok lb n h
  obtain ⟨x, s, hb, hpos⟩ := h.split
  have hsf : sliceFrom lb.buf lb.pos = .ok s := by rw [hb, hpos]; exact sliceFrom_mid x s
  by_cases hls : lineStartOf lb.buf lb.pos = 0
  · rw [if_pos hls] at heq
    have hk : LB.kill S U (.lineUp n) lb = .ok (false, lb, [.startKill, .stopKill]) := by
      simp [LB.kill, LM.bind_apply, LM.notify, LM.ro, heq]
    rw [hk] at hrun
    cases hrun
    by_cases hemp : lb.buf.isEmpty = true
    · exact checkKill_nothing (by unfold spanOf; simp [hemp]) rfl
    have hemp' : lb.buf.isEmpty = false := by simpa using hemp
    by_cases hn : n = 0
    · exact checkKill_unjudged (by unfold spanOf; simp [hemp', hn])
    · exact checkKill_nothing (by unfold spanOf; simp [hemp', hn, hls]) rfl
  · rw [if_neg hls] at heq
    have hemp' := ls_isEmpty_false_of_lineStart h hls
    by_cases hn : n = 0
    · exact checkKill_unjudged (by unfold spanOf; simp [hemp', hn])
    rw [heq] at hr0
    cases hr0
    obtain ⟨hA, hB, hle1, hle2⟩ := hprop _ _ rfl
    obtain ⟨k, rfl⟩ : ∃ k, n = k + 1 := ⟨n - 1, by omega⟩
    have hlt := ls_upStart_lt lb.buf k _ hls
    have hsl := ls_lineStartOf_le lb.buf lb.pos
    have hle : lineEndOf lb.buf lb.pos = (match findChar '\n' s with | some i => blen x + i | none => blen (x ++ s)) := by
      rw [hb, hpos]; exact ls_lineEndOf_mid x s
    have hfl : findChar '\n' s = none ↔ ¬ lineEndOf lb.buf lb.pos < blen lb.buf := by
      cases hf : findChar '\n' s with
      | none => rw [hle, hf, hb]; simp
      | some i =>
        obtain ⟨a', b', rfl, rfl⟩ := findChar_some hf
        rw [hle, hf, hb]
        simp [utf8Size_newline]
    obtain ⟨A, B, hAe, hBe, heq'⟩ : ∃ A B, A = upStart lb.buf (k + 1) (lineStartOf lb.buf lb.pos) ∧
        B = (if lineEndOf lb.buf lb.pos < blen lb.buf then lineEndOf lb.buf lb.pos + 1 else blen lb.buf) ∧
        LB.nLinesUp lb (k + 1) = .ok (some (A, B)) := ⟨_, _, rfl, rfl, heq⟩
    rw [← hAe] at hA hlt
    rw [← hBe] at hB hle2
    have ha' : IsBoundary lb.buf (if findChar '\n' s = none ∧ 0 < A then A - 1 else A) := by
      split
      · exact hA.pred_boundary
      · exact hA.boundary
    have hle' : (if findChar '\n' s = none ∧ 0 < A then A - 1 else A) ≤ B := by
      split <;> omega
    obtain ⟨x', y, z, d, hsp, hd, hbuf, hx, hy⟩ := ls_drainAround_eval S U _ B lb.pos lb ha' hB h hle'
    have hk : LB.kill S U (.lineUp (k + 1)) lb =
        .ok (true, { lb with buf := x' ++ z, pos := (if findChar '\n' s = none ∧ 0 < A then A - 1 else A) },
             [.startKill] ++ ([.del (if findChar '\n' s = none ∧ 0 < A then A - 1 else A) y d] ++ [.stopKill])) := by
      simp [LB.kill, LM.bind_apply, LM.notify, LM.ro, heq', LM.get, LM.lift, hsf, hsp, hd]
    rw [hk] at hrun
    cases hrun
    refine checkKill_span (a := (if findChar '\n' s = none ∧ 0 < A then A - 1 else A)) (b := B)
      ?_ hbuf hx hy rfl (by simp [killedText]) rfl
    rw [ls_spanOf_lineUp S U _ _ _ _ hemp' hn hls, ls_linesSpan_kill, ← hAe, ← hBe]
    unfold mkSpan
    simp only []
    have e1 : (if lineEndOf lb.buf lb.pos < blen lb.buf then A else A - 1) =
        (if findChar '\n' s = none ∧ 0 < A then A - 1 else A) := by
      by_cases hc : lineEndOf lb.buf lb.pos < blen lb.buf
      · have : findChar '\n' s ≠ none := fun hh => (hfl.mp hh) hc
        simp [hc, this]
      · have := hfl.mpr hc
        simp only [hc, this, if_false, true_and]
        split <;> omega
    have e2 : (if findChar '\n' s = none ∧ 0 < A then A - 1 else A) < B := by
      split <;> omega
    rw [e1, if_pos e2]

/-- `kill(LineDown(n))` (`dj`) removes exactly the declarative span -/
theorem kill_lineDown_is_span (S : Segmenter) (U : UData) (lb lb' : LB) (n : Nat) (r : Bool) (ns : List Notif)
    (h : WF lb) (hrun : LB.kill S U (.lineDown n) lb = .ok (r, lb', ns)) :
    checkKill S U lb (.lineDown n) lb'.buf lb'.pos ns = none := by
  obtain ⟨r0, hr0, hprop⟩ := nLinesDown_ok lb n h
  by_cases hle : lineEndOf lb.buf lb.pos ≥ blen lb.buf
  · have heq := ls_nLinesDown_eq lb n h
    rw [if_pos hle] at heq
    have hk : LB.kill S U (.lineDown n) lb = .ok (false, lb, [.startKill, .stopKill]) := by
      simp [LB.kill, LM.bind_apply, LM.notify, LM.ro, heq]
    rw [hk] at hrun
    cases hrun
    by_cases hemp : lb.buf.isEmpty = true
    · exact checkKill_nothing (by unfold spanOf; simp [hemp]) rfl
    have hemp' : lb.buf.isEmpty = false := by simpa using hemp
    by_cases hn : n = 0
    · exact checkKill_unjudged (by unfold spanOf; simp [hemp', hn])
    · exact checkKill_nothing (by unfold spanOf; simp [hemp', hn, hle]) rfl
  · have hle' : lineEndOf lb.buf lb.pos < blen lb.buf := by omega
    have hemp' : lb.buf.isEmpty = false := by
      cases hbuf : lb.buf with
      | nil => rw [hbuf] at hle'; simp at hle'
      | cons c t => rfl
    by_cases hn : n = 0
    · exact checkKill_unjudged (by unfold spanOf; simp [hemp', hn])
    obtain ⟨X, mid, z0, hbuf0, h1, h2, h3, h4, h5⟩ := ls_nLinesDown_full lb n h hle'
    rw [h2] at hr0
    cases hr0
    obtain ⟨hA, hB, hle1, hle2⟩ := hprop _ _ rfl
    have hsl : slice lb.buf (blen X) (blen X + blen mid) = .ok mid := by
      rw [hbuf0]; exact slice_mid X mid z0
    have ha' : IsBoundary lb.buf
        (if (mid.filter (· == '\n')).length ≤ n ∧ 0 < blen X then blen X - 1 else blen X) := by
      split
      · exact hA.pred_boundary
      · exact hA.boundary
    have hle'' : (if (mid.filter (· == '\n')).length ≤ n ∧ 0 < blen X then blen X - 1 else blen X) ≤
        blen X + blen mid := by
      split <;> omega
    obtain ⟨x', y, z, d, hsp, hd, hbuf, hx, hy⟩ := ls_drainAround_eval S U _ (blen X + blen mid) lb.pos lb ha' hB h hle''
    have hk : LB.kill S U (.lineDown n) lb =
        .ok (true, { lb with buf := x' ++ z,
                             pos := (if (mid.filter (· == '\n')).length ≤ n ∧ 0 < blen X then blen X - 1 else blen X) },
             [.startKill] ++ ([.del (if (mid.filter (· == '\n')).length ≤ n ∧ 0 < blen X then blen X - 1 else blen X)
                y d] ++ [.stopKill])) := by
      simp [LB.kill, LM.bind_apply, LM.notify, LM.ro, h2, LM.get, LM.lift, hsl, hsp, hd]
    rw [hk] at hrun
    cases hrun
    refine checkKill_span
      (a := (if (mid.filter (· == '\n')).length ≤ n ∧ 0 < blen X then blen X - 1 else blen X))
      (b := blen X + blen mid) ?_ hbuf hx hy rfl (by simp [killedText]) rfl
    rw [ls_spanOf_lineDown S U _ _ _ _ hemp' hn hle', ls_linesSpan_kill, ← h3, h1]
    unfold mkSpan
    simp only []
    have e1 : (if downEnd lb.buf n (lineEndOf lb.buf lb.pos) < blen lb.buf then blen X else blen X - 1) =
        (if (mid.filter (· == '\n')).length ≤ n ∧ 0 < blen X then blen X - 1 else blen X) := by
      by_cases hc : downEnd lb.buf n (lineEndOf lb.buf lb.pos) < blen lb.buf
      · rw [if_pos hc] at h4
        have : ¬ (mid.filter (· == '\n')).length ≤ n := by omega
        simp [hc, this]
      · rw [if_neg hc] at h4
        simp only [hc, h4, if_false, true_and]
        split <;> omega
    have e2 : (if (mid.filter (· == '\n')).length ≤ n ∧ 0 < blen X then blen X - 1 else blen X) <
        blen X + blen mid := by
      split <;> omega
    rw [e1, if_pos e2]

end Rl
