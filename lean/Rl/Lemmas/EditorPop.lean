/-
  C17: `PopOK` ("the text of the last yank stands right before the cursor": what `YankPop` needs)
  through the commands of an emacs-mode read.  `popI_execute`: from `PopPre` (what the main loop
  guarantees when a command is about to run: `PopOK`, and the last action reset unless the command is
  one the loop does not reset for) every acceptable command re-establishes `PopOK` — by the kill-ring
  frame for the commands that do not use the ring, by the frame of line and ring for `ClearScreen` /
  `Noop` / `Suspend`, and GIVEN three facts about one command each (`PopLocal`: `Kill`, `Yank`,
  `YankPop`).
-/
import Rl.Lemmas.EditorRead
namespace Rl
open EM

section
variable (S : Segmenter) (U : UData) (cfg : EdCfg)

/-- the three per-command facts (no longer cross-step) that carrying `PopOK` rests on -/
structure PopLocal : Prop where
  /-- a `Kill` leaves `PopOK`: it sets the last action to Kill, or (nothing killed) leaves line, cursor
      and ring alone; the two character kills run after a reset -/
  kill : ∀ m s, RdInv cfg s → PopPre cfg (.kill m) s →
    wp (execute S U cfg (.kill m)) (fun _ s' => PopOK s') (fun _ _ => True) s
  /-- after a `Yank` the pasted text (as many bytes as the ring recorded) stands before the cursor (an
      empty ring pastes nothing and changes nothing: `PopOK` from before) -/
  yank : ∀ n a s, RdInv cfg s → PopOK s →
    wp (execute S U cfg (.yank n a)) (fun _ s' => PopOK s') (fun _ _ => True) s
  /-- after a `YankPop` the replacement stands before the cursor -/
  pop : ∀ s, RdInv cfg s → PopOK s →
    wp (execute S U cfg .yankPop) (fun _ s' => PopOK s') (fun _ _ => True) s

theorem wp_top {α : Type} (m : EM α) (s : Ed) : wp m (fun _ _ => True) (fun _ _ => True) s := by
  unfold wp; cases m s <;> trivial

theorem keeps_core_execute_clearScreen : Keeps Ed.core (execute S U cfg .clearScreen) := by
  unfold execute; em_keeps
  all_goals first | exact keeps_logRender _ | (apply Keeps.modify; intro _; rfl)

/-- **every acceptable command re-establishes `PopOK`** (emacs mode; in vi mode there is nothing to show) -/
theorem popI_execute (L : cfg.vi = false → PopLocal S U cfg) (cmd : Cmd) (s : Ed) (hci : CmdI cfg cmd)
    (h : RdInv cfg s) (hp : PopPre cfg cmd s) :
    wp (execute S U cfg cmd) (fun _ s' => PopI cfg s') (fun _ _ => True) s := by
  by_cases hvi : cfg.vi = false
  case neg => exact wp_mono (wp_top _ s) (fun _ _ _ hv => absurd hv hvi) (fun _ _ h => h)
  have neutral : cmd.usesRing = false → cmd.shouldResetKillRing = true →
      wp (execute S U cfg cmd) (fun _ s' => PopI cfg s') (fun _ _ => True) s := fun hu hr =>
    wp_mono (wp_noYank (keeps_ring_execute S U cfg cmd hu) ((hp hvi).2 hr)) (fun _ _ hn _ => hn.popOK) (fun _ _ h => h)
  have still : Keeps Ed.core (execute S U cfg cmd) →
      wp (execute S U cfg cmd) (fun _ s' => PopI cfg s') (fun _ _ => True) s := fun hk =>
    wp_mono (hk.wp s) (fun _ _ hc _ => (hp hvi).1.of_eq (Ed.core_eq hc).1 (Ed.core_eq hc).2.2.2.1) (fun _ _ _ => trivial)
  cases cmd
  case kill m => exact wp_mono ((L hvi).kill m s h hp) (fun _ _ hq _ => hq) (fun _ _ h => h)
  case yank n a => exact wp_mono ((L hvi).yank n a s h (hp hvi).1) (fun _ _ hq _ => hq) (fun _ _ h => h)
  case yankPop => exact wp_mono ((L hvi).pop s h (hp hvi).1) (fun _ _ hq _ => hq) (fun _ _ h => h)
  case replace m t => have : cfg.vi = true := hci; rw [hvi] at this; cases this
  case viYankTo m => have : cfg.vi = true := hci; rw [hvi] at this; cases this
  case clearScreen => exact still (keeps_core_execute_clearScreen S U cfg)
  case noop => exact still (by unfold execute; exact Keeps.pure _)
  case suspend => exact still (by unfold execute; exact Keeps.pure _)
  all_goals exact neutral rfl rfl

end
end Rl
