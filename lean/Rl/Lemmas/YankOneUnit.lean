/-
  `LineBuffer::yank` with a repeat count reports exactly one `insert_str` notification (used by
  `C05_counted_yank_one_unit`).
-/
import Rl.Lemmas.Undo
namespace Rl
theorem insertStr_then {S : Segmenter} {U : UData} {p q : Nat} {T : Text} {b : Bool} {lb0 l : LB} {r : Option Bool}
    {ns : List Notif}
    (h : ((LB.insertStr S U p T).bind' fun _ => (LM.setPos q).bind' fun _ => LM.pure' (some b)) lb0 = .ok (r, l, ns)) :
    ∃ x z, splitAtByte lb0.buf p = some (x, z) ∧ l.buf = x ++ T ++ z ∧ ns = [.insStr p T] ∧ r = some b := by
  simp only [LM.bind', LB.insertStr, LM.setPos, LM.pure'] at h
  split at h
  · cases h
  · rename_i a lb1 n1 h1
    split at h1
    · rename_i x z hs
      simp only [Except.ok.injEq, Prod.mk.injEq] at h1
      obtain ⟨_, rfl, rfl⟩ := h1
      simp only [Except.ok.injEq, Prod.mk.injEq] at h
      obtain ⟨rfl, rfl, rfl⟩ := h
      exact ⟨x, z, hs, rfl, rfl, rfl⟩
    · cases h1

/-- a successful `yank` with repeat count `n ≥ 1` reports exactly ONE `insert_str` notification: the text
    repeated `n` times, at the cursor -/
theorem yank_reports_one (S : Segmenter) (U : UData) (lb0 l : LB) (text : Text) (n : Nat) (hn : 1 ≤ n)
    (r : Option Bool) (ns : List Notif) (hy : LB.yank S U text n lb0 = .ok (r, l, ns)) :
    (r = none ∧ ns = [] ∧ l = lb0) ∨
    (text ≠ [] ∧ ∃ x z, splitAtByte lb0.buf lb0.pos = some (x, z) ∧ l.buf = x ++ (List.replicate n text).flatten ++ z ∧
      ns = [.insStr lb0.pos (List.replicate n text).flatten] ∧ r.isSome = true) := by
  unfold LB.yank at hy
  simp only [bind, LM.bind', LM.get, pure] at hy
  split at hy
  · cases hy
  · rename_i b lb2 n2 h2
    simp only [List.nil_append, Except.ok.injEq, Prod.mk.injEq] at hy
    obtain ⟨rfl, rfl, rfl⟩ := hy
    split at h2
    · simp only [LM.pure', Except.ok.injEq, Prod.mk.injEq] at h2
      obtain ⟨rfl, rfl, rfl⟩ := h2
      exact .inl ⟨rfl, rfl, rfl⟩
    · rename_i hcond
      have hte : text ≠ [] := by
        intro h; apply hcond; simp [h]
      right
      refine ⟨hte, ?_⟩
      split at h2
      · rename_i h1
        have : n = 1 := by simpa using h1
        subst this
        obtain ⟨x, z, e1, e2, e3, e4⟩ := insertStr_then h2
        exact ⟨x, z, e1, by simpa using e2, by simpa using e3, by simp [e4]⟩
      · obtain ⟨x, z, e1, e2, e3, e4⟩ := insertStr_then h2
        exact ⟨x, z, e1, e2, e3, by simp [e4]⟩
end Rl
