/-
  Model of the cell arithmetic of the renderer:
  `src/layout.rs` (`Position`, `Layout`), `src/tty/mod.rs` (`width` with its three-state escape
  skipper, `Renderer::compute_layout`) and `src/tty/unix.rs` (`PosixRenderer::calculate_position`).
  `Unit = u16` is `Nat` here (rows/columns stay far below 65536 in every use).
-/
import Rl.Text
import Rl.Seg
import Rl.Types
namespace Rl

/-- `layout::Position` (ordered by row, then column) -/
structure Pos where
  col : Nat := 0
  row : Nat := 0
deriving DecidableEq, Repr, Inhabited

/-- `impl Ord for Position` -/
def Pos.le (a b : Pos) : Bool := a.row < b.row || (a.row == b.row && a.col ≤ b.col)

/-- what `PosixRenderer` knows: terminal width, tab stop, and the width tables
    (`gw` = `Layout::width` of one grapheme in the configured cluster mode, `cw` = `cwidh`) -/
structure RCfg where
  cols : Nat
  tabStop : Nat := 8
  gw : Text → Nat
  cw : Char → Nat

/-- `Layout` -/
structure Layout where
  promptSize : Pos := {}
  defaultPrompt : Bool := false
  cursor : Pos := {}
  end_ : Pos := {}
deriving DecidableEq, Repr, Inhabited

def isDigitChar (c : Char) : Bool := '0' ≤ c && c ≤ '9'

/-- `tty::width(gcm, s, &mut esc_seq)`: returns the width and the new skipper state -/
def widthEsc (gw : Text → Nat) (g : Text) (esc : Nat) : Nat × Nat :=
  if esc == 1 then
    (0, if g == ['['] then 2 else 0)
  else if esc == 2 then
    (0, if g == [';'] || (match g with | c :: _ => isDigitChar c | [] => false) then 2 else 0)
  else if g == ['\x1b'] then (0, 1)
  else if g == ['\n'] then (0, esc)
  else (gw g, esc)

/-- one iteration of the grapheme loop of `calculate_position` -/
def posStep (R : RCfg) (st : Pos × Nat) (g : Text) : Pos × Nat :=
  if g == ['\n'] then ({ row := st.1.row + 1, col := 0 }, st.2)
  else
    let we : Nat × Nat :=
      if g == ['\t'] then (R.tabStop - st.1.col % R.tabStop, st.2) else widthEsc R.gw g st.2
    let col := st.1.col + we.1
    if col > R.cols then ({ row := st.1.row + 1, col := we.1 }, we.2)
    else ({ row := st.1.row, col := col }, we.2)

def posLoop (R : RCfg) (gs : List Text) (st : Pos × Nat) : Pos × Nat := gs.foldl (posStep R) st

/-- `PosixRenderer::on_screen`: a position whose column is `cols` stands for a pending wrap and is
    shown at the start of the next row -/
def onScreen (R : RCfg) (p : Pos) : Pos :=
  if p.col ≥ R.cols then { col := 0, row := p.row + 1 } else p

/-- `PosixRenderer::calculate_position(s, orig)`; since the repair "keep the pending-wrap column" the
    result is *not* normalised (`col = cols` is a legal value), which makes the function additive -/
def calculatePosition (S : Segmenter) (R : RCfg) (s : Text) (orig : Pos) : Pos :=
  (posLoop R (S.seg s) (orig, 0)).1

/-- `Renderer::compute_layout`; `&line[..pos]` panics off a boundary, and the two `debug_assert!`s
    are live in the dev profile the harness builds -/
def computeLayout (S : Segmenter) (R : RCfg) (promptSize : Pos) (defaultPrompt : Bool)
    (line : Text) (pos : Nat) (info : Option Text) : Except Panic Layout :=
  match splitAtByte line pos with
  | none => .error .panic
  | some (before, after) =>
    let cursor := calculatePosition S R before promptSize
    let end0 := if pos == blen line then cursor else calculatePosition S R after cursor
    let end1 := match info with
      | some i => calculatePosition S R i end0
      | none => end0
    if !(promptSize.le cursor) || !(cursor.le end1) then .error .panic
    else .ok { promptSize, defaultPrompt, cursor, end_ := end1 }

end Rl
