/-
  Property C17 — no input can crash or wedge a read.
  Models: Rl/Keys.lean (byte decoder over the terminal input queue), Rl/Editor.lean (editor).
  The runtime part (signals, real select/poll timing) is exercised by the pty harness, not proved.
-/
import Rl.Keys
import Rl.Editor
import Rl.Lemmas.Keys
open Rl

/-- A successful read of one byte consumes exactly one byte of the input (buffer, kernel queue or
    a future key press): the reader never spins without consuming. -/
theorem C17_read_byte_consumes (i i' : Input) (b : UInt8) (h : i.readByte = .ok (b, i')) :
    i'.size + 1 = i.size := Input.readByte_size h

/-- The only way a byte read fails is the hang-up (no byte left anywhere): never a panic. -/
theorem C17_read_byte_error (i : Input) (e : RdErr) (h : i.readByte = .error e) : e = .io :=
  Input.readByte_error h

/-- Waiting for input (`poll` with an infinite time-out) loses nothing. -/
theorem C17_poll_keeps_input (i : Input) : i.pollWait.size = i.size := Input.pollWait_size i

/-- Full statement (decoder progress): every decoded key consumes at least one byte, so a read
    cannot loop forever on a finite input. Proved for the byte layer above; the lift through the
    escape-sequence tables is work in progress (see DESIGN.md). -/
def C17_decoder_progress_statement : Prop :=
  ∀ (i i' : Input) (sea : Bool) (k : KeyEvent), i.nextKey sea = .ok (k, i') → i'.size < i.size

/-- Full statement (editor): from the initial state no key sequence makes the editor model reach
    a panic outcome. False on the pinned tree before the D5 repair (`y^` slices backwards). -/
def C17_editor_no_panic_statement : Prop :=
  ∀ (S : Segmenter) (U : UData) (cfg : EdCfg) (left right : Text) (inp : Input),
    (∀ t, cfg.validator t ≠ .panic) →
    (∀ t p, (cfg.completer t p).1 ≤ p) →
    (readline S U cfg (KillRing.new 60) left right inp).1 ≠ .panic

/-- non-vacuity: a concrete multi-byte escape sequence decodes to Ctrl-Right and consumes 6 bytes -/
example :
    (({ buf := [], avail := [], future := [[0x1b, 0x5b, 0x31, 0x3b, 0x35, 0x43], [0x61]] } : Input).nextKey false).toOption.map
      (fun r => (r.1, r.2.size)) = some (⟨.right, 8⟩, 1) := by decide
