/-
  Property C17 — no input can crash or wedge a read.
  Models: Rl/Keys.lean (byte decoder over the terminal input queue), Rl/Editor.lean (editor).
  The runtime part (signals, real select/poll timing) is exercised by the pty harness, not proved.
-/
import Rl.Keys
import Rl.Editor
import Rl.Lemmas.Keys
import Rl.Lemmas.KeysProgress
import Rl.Lemmas.EditorSafe
import Rl.Lemmas.EditorFrame
open Rl

/-- A successful read of one byte consumes exactly one byte of the input (buffer, kernel queue or
    a future key press): the reader never spins without consuming. -/
theorem C17_read_byte_consumes (i i' : Input) (b : UInt8) (h : i.readByte = .ok (b, i')) :
    i'.size + 1 = i.size := Input.readByte_size h

/-- The only way a byte read fails is the hang-up (no byte left anywhere): never a panic. -/
theorem C17_read_byte_error (i : Input) (e : RdErr) (h : i.readByte = .error e) : e = .io :=
  Input.readByte_error h

/-- Waiting for input (`poll` with an infinite time-out) loses nothing. -/
theorem C17_poll_keeps_input (i : Input) : i.pollWait.size = i.size := Input.pollWait_size i

/-- **Decoder progress**: every decoded key consumes at least one byte, so a read cannot loop
    forever on a finite input.  Lifted from the byte layer through `nextChar`, `escapeO`,
    `escapeCsi`, `extendedEscape`, `escapeSequence` and `nextKey` (Rl/Lemmas/KeysProgress.lean). -/
theorem C17_decoder_progress :
    ∀ (i i' : Input) (sea : Bool) (k : KeyEvent), i.nextKey sea = .ok (k, i') → i'.size < i.size := by
  intro i i' sea k h
  have hr := Input.nextKey_res i sea
  rw [h] at hr
  have := hr.1
  omega

/-- A decoded key never looks further than 36 bytes ahead (ESC ESC [ d d ; d d x, four bytes per
    character at most): the decoder cannot swallow an unbounded amount of input for one key. -/
theorem C17_decoder_bounded_lookahead (i i' : Input) (sea : Bool) (k : KeyEvent)
    (h : i.nextKey sea = .ok (k, i')) : i.size ≤ i'.size + 36 := by
  have hr := Input.nextKey_res i sea
  rw [h] at hr
  exact hr.2

/-- **Decoder errors**: a failed decode is an I/O error or invalid data, never anything else (and,
    being a value of `RdErr`, never a panic); and it is an I/O error only when the input ran out
    inside the key: fewer than 36 bytes (the longest sequence the decoder reads) were left when the
    key started.  (`C17_read_byte_error`: a byte read itself fails only on the hang-up.) -/
theorem C17_decoder_errors (i : Input) (sea : Bool) (e : RdErr) (h : i.nextKey sea = .error e) :
    (e = .io ∨ e = .invalidData) ∧ (e = .io → i.size < 36) := by
  have hr := Input.nextKey_res i sea
  rw [h] at hr
  rcases hr with ⟨rfl, hs⟩ | rfl
  · exact ⟨.inl rfl, fun _ => hs⟩
  · exact ⟨.inr rfl, fun h => by cases h⟩

/-- the same for a single character (`next_char`, used by quoted insert and the sub-loops) -/
theorem C17_next_char_progress (i i' : Input) (c : Char) (h : i.nextChar = .ok (c, i')) :
    i'.size < i.size ∧ i.size ≤ i'.size + 4 := by
  have hr := Input.nextChar_res i
  rw [h] at hr
  exact ⟨by have := hr.1; omega, hr.2⟩

/-- with input left to read, the decoder never reports an I/O error: a hang-up is the only source -/
theorem C17_decoder_io_only_at_end (i : Input) (sea : Bool) (h : 36 ≤ i.size) :
    i.nextKey sea ≠ .error .io := by
  intro he
  have := (C17_decoder_errors i sea .io he).2 rfl
  omega

/-- Full statement (editor): from the initial state no key sequence makes the editor model reach
    a panic outcome. False on the pinned tree before the D5 repair (`y^` slices backwards).
    Proved so far: the per-command form `C17_execute_safe` below for the commands of `C17_covered`
    (from a state satisfying `EdWF` — cursors on character boundaries, history index in range, kill
    ring bounds invariant `RingOK` — the step neither panics nor breaks `EdWF`), for helpers that do
    not panic.  Not covered yet: `YankPop` (needs the cross-step fact "the cursor has not moved since
    the yank": `end - yank_size`), `Undo` (needs the log invariant of C05), `ReplaceChar`,
    `Overwrite`, `Indent`, `Dedent`, the history commands (`PreviousHistory` …
    `HistorySearchForward`), and the sub-loops. -/
def C17_editor_no_panic_statement : Prop :=
  ∀ (S : Segmenter) (U : UData) (cfg : EdCfg) (left right : Text) (inp : Input),
    (∀ t, cfg.validator t ≠ .panic) → cfg.hinterPanicAt = none →
    (∀ t p, (cfg.completer t p).1 ≤ p) →
    (readline S U cfg (KillRing.new 60) left right inp).1 ≠ .panic

/-- the commands for which `execute` is proved panic-free and invariant-preserving -/
def C17_covered : Cmd → Bool
  | .move _ | .selfInsert _ _ | .newline | .insert _ _ | .completeHint
  | .transposeChars | .capitalizeWord | .downcaseWord | .upcaseWord | .transposeWords _
  | .clearScreen | .repaint | .interrupt | .endOfFile
  | .kill _ | .replace _ _ | .yank _ _ | .viYankTo _
  | .acceptLine | .acceptOrInsertLine _
  | .abort | .complete | .completeBackward | .noop | .unknown | .suspend | .quotedInsert
  | .reverseSearchHistory | .forwardSearchHistory => true
  | _ => false

/-- **Per-command no-panic**: for helpers that do not panic (validator verdict never `panic`,
    `hinterPanicAt = none`; a panicking helper is C16's business), from a state satisfying `EdWF` every
    covered command returns or exits without the panic outcome, and `EdWF` holds again afterwards. -/
theorem C17_execute_safe (S : Segmenter) (U : UData) (cfg : EdCfg) (hv : ∀ t, cfg.validator t ≠ .panic)
    (hnp : cfg.hinterPanicAt = none)
    (cmd : Cmd) (hc : C17_covered cmd = true) (s : Ed) (h : EdWF cfg s) :
    wp (execute S U cfg cmd) (fun _ s' => EdWF cfg s') (fun o _ => o ≠ .panic) s := by
  cases cmd <;> simp only [C17_covered, Bool.false_eq_true] at hc
  case move m =>
    cases m <;> (unfold execute; simp only [wp_bind, wp_pure, wp_getPromptCol])
    case beginningOfLine => exact safe_editMove S U cfg (lmsafe_moveHome S U) h
    case endOfLine => exact safe_editMove S U cfg (lmsafe_moveEnd S U) h
    case backwardChar n => exact safe_editMove S U cfg (lmsafe_moveBackward S U n) h
    case forwardChar n => exact safe_editMove S U cfg (lmsafe_moveForward S U n) h
    case backwardWord n w => exact safe_editMove S U cfg (lmsafe_moveToPrevWord S U w n) h
    case forwardWord n a w => exact safe_editMove S U cfg (lmsafe_moveToNextWord S U a w n) h
    case viCharSearch n cs => exact safe_editMove S U cfg (lmsafe_moveTo S U cs n) h
    case lineUp n => exact safe_editMove S U cfg (lmsafe_moveToLineUp S U n _) h
    case lineDown n => exact safe_editMove S U cfg (lmsafe_moveToLineDown S U n _) h
    case beginningOfBuffer => exact safe_editMove S U cfg (lmsafe_moveBufferStart S U) h
    case endOfBuffer => exact safe_editMove S U cfg (lmsafe_moveBufferEnd S U) h
    case viFirstPrint =>
      refine wp_mono (safe_editMove S U cfg (lmsafe_moveHome S U) h) ?_ (fun _ _ h => h)
      intro _ s1 h1
      simp only [wp_getLine]
      split
      · split
        · simp only [wp_bind, wp_pure]
          exact safe_editMove S U cfg (lmsafe_moveToNextWord S U _ _ _) h1
        · exact h1
      · exact h1
    all_goals exact h
  case selfInsert n c =>
    unfold execute; simp only [wp_bind, wp_pure]
    exact safe_editInsert S U cfg hnp c n h
  case newline =>
    rw [show execute S U cfg .newline = withPreAccept S U cfg (do editInsert S U cfg '\n' 1; pure .proceed) by
      unfold execute withPreAccept; simp only []]
    refine safe_withPreAccept S U cfg h fun s1 h1 => ?_
    unfold Safe; simp only [wp_bind, wp_pure]
    exact safe_editInsert S U cfg hnp '\n' 1 h1
  case insert n t =>
    unfold execute; simp only [wp_bind, wp_pure]
    exact safe_editYank S U cfg t .before n hnp h
  case completeHint =>
    unfold execute; simp only [wp_bind, wp_pure]
    exact safe_completeHintLine S U cfg hnp h
  case transposeChars =>
    unfold execute; simp only [wp_bind, wp_pure]
    exact safe_grouped S U cfg (lmsafe_transposeChars S U) hnp h
  case capitalizeWord =>
    unfold execute; simp only [wp_bind, wp_pure]
    exact safe_grouped S U cfg (lmsafe_editWord S U _) hnp h
  case downcaseWord =>
    unfold execute; simp only [wp_bind, wp_pure]
    exact safe_grouped S U cfg (lmsafe_editWord S U _) hnp h
  case upcaseWord =>
    unfold execute; simp only [wp_bind, wp_pure]
    exact safe_grouped S U cfg (lmsafe_editWord S U _) hnp h
  case transposeWords n =>
    unfold execute; simp only [wp_bind, wp_pure]
    exact safe_grouped S U cfg (lmsafe_transposeWords S U n) hnp h
  case clearScreen =>
    unfold execute; simp only [wp_bind, wp_pure, logRender, wp_modify]
    exact safe_refreshLine S U cfg hnp (h.of_core rfl)
  case repaint =>
    unfold execute; simp only [wp_bind, wp_pure]
    exact safe_refreshLine S U cfg hnp h
  case interrupt =>
    unfold execute; simp only [wp_bind, wp_pure, logRender, wp_modify, wp_exit]
    intro hh; cases hh
  case endOfFile =>
    rw [show execute S U cfg .endOfFile = withPreAccept S U cfg (do
          let empty ← lineEmpty
          if empty then EM.exit .eof else if cfg.vi then pure .submit else pure .proceed) by
      unfold execute withPreAccept; simp only []]
    refine safe_withPreAccept S U cfg h fun s1 h1 => ?_
    unfold Safe; simp only [wp_bind, wp_lineEmpty]
    split
    · simp only [wp_exit]; intro hh; cases hh
    · split <;> exact h1
  case acceptLine =>
    rw [show execute S U cfg .acceptLine = withPreAccept S U cfg (do let _ ← validate S U cfg; pure .submit) by
      unfold execute withPreAccept; simp only []]
    refine safe_withPreAccept S U cfg h fun s1 h1 => ?_
    unfold Safe; simp only [wp_bind, wp_pure]
    exact safe_validate S U cfg hv h1
  case kill mvt =>
    unfold execute; simp only [wp_bind, wp_pure]
    exact safe_editKill S U cfg mvt hnp h
  case replace mvt text =>
    unfold execute; simp only [wp_bind, wp_pure]
    -- closing the undo group (when no insert session follows) touches the undo log only
    have tail : ∀ s2, EdWF cfg s2 →
        wp (do
          let inserting ← (fun s => .ok (cfg.vi && s.inp.inputMode != .command, s) : EM Bool)
          if !inserting then do let _ ← changesEnd; pure ()
          pure Status.proceed) (fun _ s' => EdWF cfg s') (fun o _ => o ≠ .panic) s2 := by
      intro s2 h2
      rw [wp_bind']
      have key : ∀ a : Bool, wp
          (have __do_jp := fun (_ : Unit) => (pure Status.proceed : EM Status);
           if (!a) = true then do
             let _ ← changesEnd
             __do_jp ()
           else __do_jp ())
          (fun _ s' => EdWF cfg s') (fun o _ => o ≠ Outcome.panic) s2 := by
        intro a
        cases a with
        | true => exact h2
        | false =>
          simp only [Bool.not_false, if_true, wp_bind, wp_changesEnd, wp_pure]
          exact EdWF.mk' h2.line h2.saved h2.idx h2.ring
      exact key (cfg.vi && s2.inp.inputMode != .command)
    refine wp_mono (safe_editKill S U cfg mvt hnp h) ?_ (fun _ _ h => h)
    intro _ s1 h1
    cases text with
    | none => exact tail s1 h1
    | some t =>
      simp only [wp_bind]
      exact wp_mono (safe_editInsertText S U cfg t hnp h1) (fun _ s2 h2 => tail s2 h2) (fun _ _ h => h)
  case yank n a =>
    unfold execute; simp only [wp_bind, wp_pure]
    refine wp_ringYank_safe cfg h fun t s1 h1 => ?_
    cases t with
    | none => exact h1
    | some t =>
      simp only [wp_bind, wp_pure]
      have h2 : EdWF cfg { s1 with ring := s1.ring.yankCount n } :=
        EdWF.mk' h1.line h1.saved h1.idx (h1.ring.yankCount n)
      show wp (editYank S U cfg t a n) _ _ { s1 with ring := s1.ring.yankCount n }
      exact safe_editYank S U cfg t a n hnp h2
  case viYankTo mvt =>
    unfold execute; simp only [wp_bind, wp_pure, wp_getLine]
    obtain ⟨r, hr⟩ := C03_copy_total S U mvt s.line h.line
    rw [hr]
    cases r with
    | none => exact h
    | some t =>
      show wp (ringKill t >>= fun _ => pure Status.proceed) _ _ s
      simp only [wp_bind, wp_pure]
      exact safe_ringKill cfg t h
  case acceptOrInsertLine aim =>
    rw [execute_acceptOrInsertLine]
    exact safe_withPreAccept S U cfg h fun s1 h1 => safe_execAccept S U cfg hv hnp aim h1
  all_goals (unfold execute; simp only [wp_bind, wp_pure]; exact h)

/-- the initial state of a read satisfies the invariant -/
theorem C17_init_wf (cfg : EdCfg) (ring : KillRing) (input : Input) (hr : RingOK ring) :
    EdWF cfg (initEd cfg ring input) :=
  ⟨isBoundary_zero _, isBoundary_zero _, Nat.le_refl _, hr.reset⟩

/-- the ring a fresh editor starts with satisfies the ring invariant -/
theorem C17_new_ring_ok (n : Nat) : RingOK (KillRing.new n) := RingOK.new n

/-- resetting the ring at the start of a non-kill command (main loop) keeps the invariant -/
theorem C17_ring_reset_keeps_wf (cfg : EdCfg) (s : Ed) (h : EdWF cfg s) :
    EdWF cfg { s with ring := s.ring.reset } :=
  ⟨h.line, h.saved, h.idx, RingOK.reset h.ring⟩

/-- reading and decoding the next command (`next_cmd`, all three keymaps, numeric arguments, custom
    bindings, operator + motion) preserves the invariant: it never touches the line, the saved line
    or the history index -/
theorem C17_nextCmd_keeps_wf (S : Segmenter) (U : UData) (cfg : EdCfg) (fuel : Nat) (sea iep : Bool)
    (s s' : Ed) (c : Cmd) (h : EdWF cfg s) (hr : nextCmd S U cfg fuel sea iep s = .ok (c, s')) : EdWF cfg s' :=
  h.of_coreNC ((keeps_nextCmd S U cfg fuel sea iep).ok hr)

/-- a panic source that is really reachable: a completer that reports a start offset beyond the
    cursor makes list-mode completion underflow (`pos - start`, lib.rs) — excluded by hypothesis in
    the full statement -/
theorem C17_completer_start_beyond_cursor_panics (S : Segmenter) (U : UData) (fuel : Nat) (s : Ed)
    (hl : s.line = { buf := [], pos := 0, cap := 8, canGrow := true }) :
    ∃ s', completeLine S U { vi := false, listCompletion := true, completer := fun _ _ => (1, [['a']]) } fuel s
      = .error (.panic, s') := by
  unfold completeLine
  simp only [EM.bind_apply, getLine, hl, lcpChars]
  exact ⟨_, rfl⟩

/-- non-vacuity: a concrete multi-byte escape sequence decodes to Ctrl-Right and consumes 6 bytes -/
example :
    (({ buf := [], avail := [], future := [[0x1b, 0x5b, 0x31, 0x3b, 0x35, 0x43], [0x61]] } : Input).nextKey false).toOption.map
      (fun r => (r.1, r.2.size)) = some (⟨.right, 8⟩, 1) := by decide
