/-
  Property C17 — no input can crash or wedge a read.
  Models: Rl/Keys.lean (byte decoder over the terminal input queue), Rl/Editor.lean (editor).
  The runtime part (signals, real select/poll timing) is exercised by the pty harness, not proved.
-/
import Rl.Keys
import Rl.Editor
import Rl.Lemmas.Keys
import Rl.Lemmas.KeysProgress
import Rl.Lemmas.EditorSafe
import Rl.Lemmas.EditorSafe2
import Rl.Lemmas.EditorRead
import Rl.Lemmas.EditorNext
import Rl.Lemmas.EditorReplaceChar
import Rl.Lemmas.EditorUndoSafe
import Rl.Lemmas.EditorFrame
import Rl.Lemmas.EditorRing
import Rl.Lemmas.EditorPop
import Rl.Lemmas.EditorPopLocal
import Rl.Lemmas.EditorKillReports
import Rl.Lemmas.EditorLog
import Rl.Lemmas.EditorLogViLoops
open Rl

/-- A successful read of one byte consumes exactly one byte of the input (buffer, kernel queue or
    a future key press): the reader never spins without consuming. -/
theorem C17_read_byte_consumes (i i' : Input) (b : UInt8) (h : i.readByte = .ok (b, i')) :
    i'.size + 1 = i.size := Input.readByte_size h

/-- The only way a byte read fails is the hang-up (no byte left anywhere): never a panic. -/
theorem C17_read_byte_error (i : Input) (e : RdErr) (h : i.readByte = .error e) : e = .io :=
  Input.readByte_error h

/-- Waiting for input (`poll` with an infinite time-out) loses nothing. -/
theorem C17_poll_keeps_input (i : Input) : i.pollWait.size = i.size := Input.pollWait_size i

/-- **Decoder progress**: every decoded key consumes at least one byte, so a read cannot loop
    forever on a finite input.  Lifted from the byte layer through `nextChar`, `escapeO`,
    `escapeCsi`, `extendedEscape`, `escapeSequence` and `nextKey` (Rl/Lemmas/KeysProgress.lean). -/
theorem C17_decoder_progress :
    ∀ (i i' : Input) (sea : Bool) (k : KeyEvent), i.nextKey sea = .ok (k, i') → i'.size < i.size := by
  intro i i' sea k h
  have hr := Input.nextKey_res i sea
  rw [h] at hr
  have := hr.1
  omega

/-- A decoded key never looks further than 36 bytes ahead (ESC ESC [ d d ; d d x, four bytes per
    character at most): the decoder cannot swallow an unbounded amount of input for one key. -/
theorem C17_decoder_bounded_lookahead (i i' : Input) (sea : Bool) (k : KeyEvent)
    (h : i.nextKey sea = .ok (k, i')) : i.size ≤ i'.size + 36 := by
  have hr := Input.nextKey_res i sea
  rw [h] at hr
  exact hr.2

/-- **Decoder errors**: a failed decode is an I/O error or invalid data, never anything else (and,
    being a value of `RdErr`, never a panic); and it is an I/O error only when the input ran out
    inside the key: fewer than 36 bytes (the longest sequence the decoder reads) were left when the
    key started.  (`C17_read_byte_error`: a byte read itself fails only on the hang-up.) -/
theorem C17_decoder_errors (i : Input) (sea : Bool) (e : RdErr) (h : i.nextKey sea = .error e) :
    (e = .io ∨ e = .invalidData) ∧ (e = .io → i.size < 36) := by
  have hr := Input.nextKey_res i sea
  rw [h] at hr
  rcases hr with ⟨rfl, hs⟩ | rfl
  · exact ⟨.inl rfl, fun _ => hs⟩
  · exact ⟨.inr rfl, fun h => by cases h⟩

/-- the same for a single character (`next_char`, used by quoted insert and the sub-loops) -/
theorem C17_next_char_progress (i i' : Input) (c : Char) (h : i.nextChar = .ok (c, i')) :
    i'.size < i.size ∧ i.size ≤ i'.size + 4 := by
  have hr := Input.nextChar_res i
  rw [h] at hr
  exact ⟨by have := hr.1; omega, hr.2⟩

/-- with input left to read, the decoder never reports an I/O error: a hang-up is the only source -/
theorem C17_decoder_io_only_at_end (i : Input) (sea : Bool) (h : 36 ≤ i.size) :
    i.nextKey sea ≠ .error .io := by
  intro he
  have := (C17_decoder_errors i sea .io he).2 rfl
  omega

/-- Full statement (editor): from the initial state no key sequence makes the editor model reach
    a panic outcome.  AS WRITTEN IT IS NOT PROVABLE: three of its hypotheses are too weak for what the
    code does (each witnessed below) —
    * the completer contract must also put `start` on a character boundary
      (`C17_completer_start_inside_char_panics`; `String::replace_range`);
    * `Cmd::redo` of vi's `R` converts the byte length of the last insertion to a `RepeatCount`
      (`RepeatCount::try_from(len).unwrap()`): an insertion of more than 65535 bytes followed by
      `Esc .` panics — remote, but a genuine panic of the real code (finding D-redo-len);
    * in vi mode a `YankPop` bound by the application underflows `end - yank_size` after `p`/`P`
      (the cursor is moved back over the last pasted cluster).
    Proved instead (hypotheses strengthened exactly as follows: the completer's start is on a character
    boundary at or before the cursor; `indentSize ≤ 255`; the segmenter is `Stable`; the bindings are
    acceptable, `BindsI`; and the conclusion allows the one real panic, D43):
    **`C17_editor_no_panic_emacs`** — in emacs mode, if `readline` ends with the panic outcome then its
    final state has a last insertion longer than 65535 bytes — no further hypothesis; and
    **`C17_editor_no_panic_both`** — the same for both modes with no further hypothesis (`ViPreKeeps`, the
    dispatch loop keeps the undo-log invariant; everything else is proved for vi as well).  Covered:
    `next_cmd` in both modes (`C17_next_cmd`, `C17_next_cmd_returns`), every command (`Undo` from the
    undo-log invariant `UndoLogInv`, `YankPop` from `PopOK`, both carried through the read), all
    sub-loops, the main loop by induction on the fuel. -/
def C17_editor_no_panic_statement : Prop :=
  ∀ (S : Segmenter) (U : UData) (cfg : EdCfg) (left right : Text) (inp : Input),
    (∀ t, cfg.validator t ≠ .panic) → cfg.hinterPanicAt = none →
    (∀ t p, (cfg.completer t p).1 ≤ p) →
    (readline S U cfg (KillRing.new 60) left right inp).1 ≠ .panic

/-- the commands for which `execute` is proved panic-free and invariant-preserving from `EdWF` alone:
    all but three.  The other three need more and are proved separately: `Undo` from the undo-log invariant
    (`rsafe_undo`), `YankPop` from `PopOK` (`rsafe_yankPop`), `ReplaceChar` for counts that fit `u16` and a
    stable segmenter (`rsafe_replaceChar`); the read carries what they need (`C17_exec_safe`). -/
def C17_covered : Cmd → Bool
  | .undo _ | .yankPop | .replaceChar _ _ => false
  | _ => true

/-- **Per-command no-panic**: for helpers that do not panic (validator verdict never `panic`,
    `hinterPanicAt = none`; a panicking helper is C16's business) and an indent size that fits the
    code's `u8`, from a state satisfying `EdWF` every covered command returns or exits without the
    panic outcome, and `EdWF` holds again afterwards. -/
theorem C17_execute_safe (S : Segmenter) (U : UData) (cfg : EdCfg) (hv : ∀ t, cfg.validator t ≠ .panic)
    (hnp : cfg.hinterPanicAt = none) (hind : cfg.indentSize ≤ 255)
    (cmd : Cmd) (hc : C17_covered cmd = true) (s : Ed) (h : EdWF cfg s) :
    wp (execute S U cfg cmd) (fun _ s' => EdWF cfg s') (fun o _ => o ≠ .panic) s := by
  cases cmd <;> simp only [C17_covered, Bool.false_eq_true] at hc
  case move m =>
    cases m <;> (unfold execute; simp only [wp_bind, wp_pure, wp_getPromptCol])
    case beginningOfLine => exact safe_editMove S U cfg (lmsafe_moveHome S U) h
    case endOfLine => exact safe_editMove S U cfg (lmsafe_moveEnd S U) h
    case backwardChar n => exact safe_editMove S U cfg (lmsafe_moveBackward S U n) h
    case forwardChar n => exact safe_editMove S U cfg (lmsafe_moveForward S U n) h
    case backwardWord n w => exact safe_editMove S U cfg (lmsafe_moveToPrevWord S U w n) h
    case forwardWord n a w => exact safe_editMove S U cfg (lmsafe_moveToNextWord S U a w n) h
    case viCharSearch n cs => exact safe_editMove S U cfg (lmsafe_moveTo S U cs n) h
    case lineUp n => exact safe_editMove S U cfg (lmsafe_moveToLineUp S U n _) h
    case lineDown n => exact safe_editMove S U cfg (lmsafe_moveToLineDown S U n _) h
    case beginningOfBuffer => exact safe_editMove S U cfg (lmsafe_moveBufferStart S U) h
    case endOfBuffer => exact safe_editMove S U cfg (lmsafe_moveBufferEnd S U) h
    case viFirstPrint => exact safe_editMove S U cfg (lmsafe_moveToFirstPrint S U) h
    all_goals exact h
  case selfInsert n c =>
    unfold execute; simp only [wp_bind, wp_pure]
    exact safe_editInsert S U cfg hnp c n h
  case newline =>
    rw [show execute S U cfg .newline = withPreAccept S U cfg (do editInsert S U cfg '\n' 1; pure .proceed) by
      unfold execute withPreAccept; simp only []]
    refine safe_withPreAccept S U cfg h fun s1 h1 => ?_
    unfold Safe; simp only [wp_bind, wp_pure]
    exact safe_editInsert S U cfg hnp '\n' 1 h1
  case insert n t =>
    unfold execute; simp only [wp_bind, wp_pure]
    exact safe_editYank S U cfg t .before n hnp h
  case completeHint =>
    unfold execute; simp only [wp_bind, wp_pure]
    exact safe_completeHintLine S U cfg hnp h
  case transposeChars =>
    unfold execute; simp only [wp_bind, wp_pure]
    exact safe_grouped S U cfg (lmsafe_transposeChars S U) hnp h
  case capitalizeWord =>
    unfold execute; simp only [wp_bind, wp_pure]
    exact safe_grouped S U cfg (lmsafe_editWord S U _) hnp h
  case downcaseWord =>
    unfold execute; simp only [wp_bind, wp_pure]
    exact safe_grouped S U cfg (lmsafe_editWord S U _) hnp h
  case upcaseWord =>
    unfold execute; simp only [wp_bind, wp_pure]
    exact safe_grouped S U cfg (lmsafe_editWord S U _) hnp h
  case transposeWords n =>
    unfold execute; simp only [wp_bind, wp_pure]
    exact safe_grouped S U cfg (lmsafe_transposeWords S U n) hnp h
  case clearScreen =>
    unfold execute; simp only [wp_bind, wp_pure, logRender, wp_modify]
    exact safe_refreshLine S U cfg hnp (h.of_core rfl)
  case repaint =>
    unfold execute; simp only [wp_bind, wp_pure]
    exact safe_refreshLine S U cfg hnp h
  case interrupt =>
    unfold execute; simp only [wp_bind, wp_pure, logRender, wp_modify, wp_exit]
    intro hh; cases hh
  case endOfFile =>
    rw [show execute S U cfg .endOfFile = withPreAccept S U cfg (do
          let empty ← lineEmpty
          if empty then EM.exit .eof else if cfg.vi then pure .submit else pure .proceed) by
      unfold execute withPreAccept; simp only []]
    refine safe_withPreAccept S U cfg h fun s1 h1 => ?_
    unfold Safe; simp only [wp_bind, wp_lineEmpty]
    split
    · simp only [wp_exit]; intro hh; cases hh
    · split <;> exact h1
  case acceptLine =>
    rw [show execute S U cfg .acceptLine = withPreAccept S U cfg (do let _ ← validate S U cfg; pure .submit) by
      unfold execute withPreAccept; simp only []]
    refine safe_withPreAccept S U cfg h fun s1 h1 => ?_
    unfold Safe; simp only [wp_bind, wp_pure]
    exact safe_validate S U cfg hv h1
  case kill mvt =>
    unfold execute; simp only [wp_bind, wp_pure]
    exact safe_editKill S U cfg mvt hnp h
  case replace mvt text =>
    unfold execute; simp only [wp_bind, wp_pure]
    -- closing the undo group (when no insert session follows) touches the undo log only
    have tail : ∀ s2, EdWF cfg s2 →
        wp (do
          let inserting ← (fun s => .ok (cfg.vi && s.inp.inputMode != .command, s) : EM Bool)
          if !inserting then do let _ ← changesEnd; pure ()
          pure Status.proceed) (fun _ s' => EdWF cfg s') (fun o _ => o ≠ .panic) s2 := by
      intro s2 h2
      rw [wp_bind']
      have key : ∀ a : Bool, wp
          (have __do_jp := fun (_ : Unit) => (pure Status.proceed : EM Status);
           if (!a) = true then do
             let _ ← changesEnd
             __do_jp ()
           else __do_jp ())
          (fun _ s' => EdWF cfg s') (fun o _ => o ≠ Outcome.panic) s2 := by
        intro a
        cases a with
        | true => exact h2
        | false =>
          simp only [Bool.not_false, if_true, wp_bind, wp_changesEnd, wp_pure]
          exact EdWF.mk' h2.line h2.saved h2.ring
      exact key (cfg.vi && s2.inp.inputMode != .command)
    refine wp_mono (safe_editKill S U cfg mvt hnp h) ?_ (fun _ _ h => h)
    intro _ s1 h1
    cases text with
    | none => exact tail s1 h1
    | some t =>
      simp only [wp_bind]
      exact wp_mono (safe_editInsertText S U cfg t hnp h1) (fun _ s2 h2 => tail s2 h2) (fun _ _ h => h)
  case yank n a =>
    unfold execute; simp only [wp_bind, wp_pure]
    refine wp_ringYank_safe cfg h fun t s1 h1 => ?_
    cases t with
    | none => exact h1
    | some t =>
      simp only [wp_bind, wp_pure]
      have h2 : EdWF cfg { s1 with ring := s1.ring.yankCount n } :=
        EdWF.mk' h1.line h1.saved (h1.ring.yankCount n)
      show wp (editYank S U cfg t a n) _ _ { s1 with ring := s1.ring.yankCount n }
      exact safe_editYank S U cfg t a n hnp h2
  case viYankTo mvt =>
    unfold execute; simp only [wp_bind, wp_pure, wp_getLine]
    obtain ⟨r, hr⟩ := C03_copy_total S U mvt s.line h.line
    rw [hr]
    cases r with
    | none => exact h
    | some t =>
      show wp (ringKill t >>= fun _ => pure Status.proceed) _ _ s
      simp only [wp_bind, wp_pure]
      exact safe_ringKill cfg t h
  case overwrite c =>
    unfold execute; simp only [wp_bind, wp_pure]
    exact safe_editOverwriteChar S U cfg hnp c h
  case indent m =>
    unfold execute; simp only []
    exact safe_indent S U cfg hnp hind m false h
  case dedent m =>
    unfold execute; simp only []
    exact safe_indent S U cfg hnp hind m true h
  case nextHistory =>
    unfold execute; simp only [wp_bind, wp_pure]
    exact safe_editHistoryNext S U cfg hnp false h
  case previousHistory =>
    unfold execute; simp only [wp_bind, wp_pure]
    exact safe_editHistoryNext S U cfg hnp true h
  case beginningOfHistory =>
    unfold execute; simp only [wp_bind, wp_pure]
    exact safe_editHistory S U cfg hnp true h
  case endOfHistory =>
    unfold execute; simp only [wp_bind, wp_pure]
    exact safe_editHistory S U cfg hnp false h
  case historySearchBackward =>
    unfold execute; simp only [wp_bind, wp_pure]
    exact safe_editHistorySearch S U cfg hnp .reverse h
  case historySearchForward =>
    unfold execute; simp only [wp_bind, wp_pure]
    exact safe_editHistorySearch S U cfg hnp .forward h
  case lineUpOrPreviousHistory n =>
    unfold execute; simp only [wp_bind, wp_pure, wp_getPromptCol]
    refine wp_lbQuiet_safe cfg (lmsafe_moveToLineUp S U n _) h fun b s1 h1 _ _ _ => ?_
    cases b with
    | true => simp only [if_true, wp_bind, wp_pure]; exact safe_moveCursor S U cfg h1
    | false => simp only [Bool.false_eq_true, if_false, wp_bind, wp_pure]; exact safe_editHistoryNext S U cfg hnp true h1
  case lineDownOrNextHistory n =>
    unfold execute; simp only [wp_bind, wp_pure, wp_getPromptCol]
    refine wp_lbQuiet_safe cfg (lmsafe_moveToLineDown S U n _) h fun b s1 h1 _ _ _ => ?_
    cases b with
    | true => simp only [if_true, wp_bind, wp_pure]; exact safe_moveCursor S U cfg h1
    | false => simp only [Bool.false_eq_true, if_false, wp_bind, wp_pure]; exact safe_editHistoryNext S U cfg hnp false h1
  case acceptOrInsertLine aim =>
    rw [execute_acceptOrInsertLine]
    exact safe_withPreAccept S U cfg h fun s1 h1 => safe_execAccept S U cfg hv hnp aim h1
  all_goals (unfold execute; simp only [wp_bind, wp_pure]; exact h)

/-- the initial state of a read satisfies the invariant -/
theorem C17_init_wf (cfg : EdCfg) (ring : KillRing) (input : Input) (hr : RingOK ring) :
    EdWF cfg (initEd cfg ring input) :=
  ⟨isBoundary_zero _, isBoundary_zero _, hr.reset⟩

/-- the ring a fresh editor starts with satisfies the ring invariant -/
theorem C17_new_ring_ok (n : Nat) : RingOK (KillRing.new n) := RingOK.new n

/-- resetting the ring at the start of a non-kill command (main loop) keeps the invariant -/
theorem C17_ring_reset_keeps_wf (cfg : EdCfg) (s : Ed) (h : EdWF cfg s) :
    EdWF cfg { s with ring := s.ring.reset } :=
  ⟨h.line, h.saved, RingOK.reset h.ring⟩

/-- reading and decoding the next command (`next_cmd`, all three keymaps, numeric arguments, custom
    bindings, operator + motion) preserves the invariant: it never touches the line, the saved line
    or the history index -/
theorem C17_nextCmd_keeps_wf (S : Segmenter) (U : UData) (cfg : EdCfg) (fuel : Nat) (sea iep : Bool)
    (s s' : Ed) (c : Cmd) (h : EdWF cfg s) (hr : nextCmd S U cfg fuel sea iep s = .ok (c, s')) : EdWF cfg s' :=
  h.of_coreNC ((keeps_nextCmd S U cfg fuel sea iep).ok hr)

/-- the obligations of the whole-read theorem that are NOT discharged.
    * For `Undo`: a cross-step invariant `J` left abstract (intended: "the undo log can be undone on the
      line"; for `J := UndoLogInv` the first field is `C17_undo_safe_of_log`): from `RdInv` and `J`,
      `Undo` does not panic and re-establishes both (`undo`); every other command keeps `J` (`other`),
      and so do the steps of a read that are not commands (`init` … `insert`).  With `J := fun _ => True`
      the field `undo` is FALSE (there are `RdInv` states whose log does not fit the line).
    * For `YankPop` (emacs mode; in vi mode it is never executed: `C17_next_cmd_returns`) the cross-step
      part is DISCHARGED (round 10): the main loop carries `PopOK` ("the text of the last yank stands
      right before the cursor") itself — `safe_mainLoop` with `PopPre`, the kill-ring frame
      `C17_ring_frame`, `pop_preCmds`, `popI_execute` — and `rsafe_yankPop` makes `YankPop` safe from it.
      The three facts about one command each that this rested on (`PopLocal`) are proved (round 11:
      `popLocal_yank`, `popLocal_pop` — after `Yank` / `YankPop` exactly the bytes the ring recorded stand
      before the cursor — and `popLocal_kill`: no kill sets the last action to Yank
      (`lbKill_go_lastAction`), a kill that answers `false` leaves line and cursor alone
      (`faithful_kill`), one that answers `true` comes — for each of the 12 movements other than the two
      character movements — with notifications bracketed by `start_killing` / `stop_killing` among which
      there is a deletion the ring takes up (`killReports`, round 12), and such a stream leaves the last
      action = Kill (`lbKill_go_bracket`)).  Nothing about `YankPop` is left in this structure.
    (`next_cmd` is discharged: `C17_next_cmd`, `C17_next_cmd_returns`.) -/
structure C17_Open (S : Segmenter) (U : UData) (cfg : EdCfg) (J : Ed → Prop) : Prop where
  undo : ∀ n s, RdInv cfg s → J s →
    wp (execute S U cfg (.undo n)) (fun _ s' => RdInv cfg s' ∧ J s') PE s
  other : ∀ cmd, (∀ n, cmd ≠ .undo n) → CmdI cfg cmd → KeepsJ J (execute S U cfg cmd)
  init : ∀ ring input, J (initEd cfg ring input)
  initText : ∀ b p, KeepsJ J (lb S U (LB.update S U b p))
  refresh : KeepsJ J (refreshLine S U cfg)
  next : ∀ fuel, KeepsJ J (nextCmd S U cfg fuel false false)
  reset : ∀ s, J s → J { s with ring := s.ring.reset }
  pre : ∀ fuel cmd s, RdInv cfg s → J s → wp (preCmds S U cfg fuel cmd) (fun _ s' => J s') (fun _ _ => True) s
  susp : ∀ s, J s → J { s with suspends := s.suspends + 1 }
  nextChar : KeepsJ J nextChar
  insert : ∀ c, KeepsJ J (editInsert S U cfg c 1)

/-- every `execute` step on a command that `next_cmd` can return (`CmdI`) is safe from the read
    invariant, the cross-step invariant `J` and `PopPre`, and re-establishes `RdInv`, `J` and `PopOK`
    (emacs mode), given the open obligations; the segmenter is stable (cutting a text at its own cluster
    boundaries does not change the clusters: true of the UAX #29 segmenter, `uaxSeg_stable`) -/
theorem C17_exec_safe (S : Segmenter) (U : UData) (cfg : EdCfg) (hS : S.Stable) (hv : ∀ t, cfg.validator t ≠ .panic)
    (hnp : cfg.hinterPanicAt = none) (hind : cfg.indentSize ≤ 255) {J : Ed → Prop} (ho : C17_Open S U cfg J) :
    RdStep S U cfg J := by
  have both : ∀ {m : EM Status} {s : Ed}, RSafe cfg m s → wp m (fun _ s' => J s') (fun _ _ => True) s →
      wp m (fun _ s' => PopI cfg s') (fun _ _ => True) s →
      wp m (fun _ s' => RdInv cfg s' ∧ J s' ∧ PopI cfg s') PE s := by
    intro m s h1 h2 h3
    unfold RSafe wp at *
    cases hm : m s with
    | error e => rw [hm] at h1; exact h1
    | ok r => rw [hm] at h1 h2 h3; exact ⟨h1, h2, h3⟩
  have both' : ∀ {m : EM Status} {s : Ed}, wp m (fun _ s' => RdInv cfg s' ∧ J s') PE s →
      wp m (fun _ s' => PopI cfg s') (fun _ _ => True) s →
      wp m (fun _ s' => RdInv cfg s' ∧ J s' ∧ PopI cfg s') PE s := by
    intro m s h1 h3
    unfold wp at *
    cases hm : m s with
    | error e => rw [hm] at h1; exact h1
    | ok r => rw [hm] at h1 h3; exact ⟨h1.1, h1.2, h3⟩
  refine ⟨?_, ho.init, ho.initText, ho.refresh, ho.next, ho.reset, ho.pre, ho.susp, ho.nextChar, ho.insert⟩
  intro cmd s hci h hj hp
  have hloc : cfg.vi = false → PopLocal S U cfg := fun hvi =>
    ⟨popLocal_kill S U cfg (killTrueKills_of_reports S U (killReports S U)) hvi, popLocal_yank S U cfg hvi, popLocal_pop S U cfg⟩
  have hpop := popI_execute S U cfg hloc cmd s hci h hp
  by_cases hc : C17_covered cmd = true
  · have hu : IsUndo cmd = false := by
      cases cmd <;> first | rfl | (simp [C17_covered] at hc)
    refine both (rsafe_of cfg (C17_execute_safe S U cfg hv hnp hind cmd hc s h.1) (keeps_grow_execute S U cfg cmd hu)
      (keeps_inp_execute S U cfg cmd) h) (ho.other cmd ?_ hci s hj) hpop
    intro n hn; subst hn; simp [C17_covered] at hc
  · cases cmd <;> simp only [C17_covered, not_true_eq_false] at hc
    case undo n => exact both' (ho.undo n s h hj) hpop
    case yankPop =>
      exact both (rsafe_yankPop S U cfg hnp h (hp hci).1) (ho.other _ (fun _ hn => by cases hn) hci s hj) hpop
    case replaceChar n c =>
      exact both (rsafe_replaceChar S U cfg hS hnp c n hci h)
        (ho.other _ (fun _ hn => by cases hn) hci s hj) hpop

/-- **`ReplaceChar` with a count that fits the code's `RepeatCount`** is safe for a stable
    segmenter: the deleted text has at most `n` clusters, so `RepeatCount::try_from(count).unwrap()`
    cannot fail. -/
theorem C17_replaceChar_safe (S : Segmenter) (U : UData) (cfg : EdCfg) (hS : S.Stable)
    (hnp : cfg.hinterPanicAt = none) (c : Char) (n : Nat) (hn : n ≤ 65535) (s : Ed) (h : RdInv cfg s) :
    RSafe cfg (execute S U cfg (.replaceChar n c)) s :=
  rsafe_replaceChar S U cfg hS hnp c n hn h

/-- **`YankPop` is safe whenever the text of the last yank still stands right before the cursor**
    (`PopOK`: what an emacs-mode `Yank` / `YankPop` leaves behind).  The step that remains open is
    carrying `PopOK` across the commands in between. -/
theorem C17_yankPop_safe_of_popOK (S : Segmenter) (U : UData) (cfg : EdCfg) (hnp : cfg.hinterPanicAt = none)
    (s : Ed) (h : RdInv cfg s) (hp : PopOK s) : RSafe cfg (execute S U cfg .yankPop) s :=
  rsafe_yankPop S U cfg hnp h hp

/-- **`Undo` is safe whenever the C05 log invariant holds** (the undo stack replays to the text of
    the line): no panic (`C05_undo_past_text`), the read invariant holds again (cursor on a boundary,
    line growable — `undoLoop_wf_grow`), and so does the log invariant.  What remains open is carrying
    the log invariant through every other command and through the abort paths of the sub-loops
    (`C05_abort_transparent_statement`). -/
theorem C17_undo_safe_of_log (S : Segmenter) (U : UData) (cfg : EdCfg) (hnp : cfg.hinterPanicAt = none)
    (n : Nat) (s : Ed) (h : RdInv cfg s) (hl : UndoLogInv s) :
    wp (execute S U cfg (.undo n)) (fun _ s' => RdInv cfg s' ∧ UndoLogInv s') PE s :=
  rsafe_undo S U cfg hnp n h hl

/-- **`next_cmd`, emacs and vi** (helpers that do not panic): from a state whose pending numeric
    argument is not negative in vi mode it returns in such a state — so `vi_num_args`'
    `unreachable!()` is unreachable, like the ones of `Cmd::redo` (only repeatable commands are
    re-done) — and its ONLY panic is known finding D43: `RepeatCount::try_from(last_insert.len())
    .unwrap()` when the command re-done is vi's `R` (by `.` or through an application binding) and the
    last insertion is longer than 65535 bytes; the state it exits with then shows such an insertion. -/
theorem C17_next_cmd (S : Segmenter) (U : UData) (cfg : EdCfg) (hnp : cfg.hinterPanicAt = none)
    (fuel : Nat) (sea iep : Bool) (s : Ed) (h : NumI cfg s) :
    (∀ c s', nextCmd S U cfg fuel sea iep s = .ok (c, s') → NumI cfg s') ∧
    (∀ o s', nextCmd S U cfg fuel sea iep s = .error (o, s') → o = .panic → D43 s') := by
  have hn := (npi_nextCmd S U cfg hnp fuel sea iep).h s h
  constructor
  · intro c s' hr; rw [hr] at hn; exact hn
  · intro o s' hr; rw [hr] at hn; exact hn

/-- **what `next_cmd` returns** (both modes, any helper): from an input state whose pending numeric
    argument fits an `i16` and whose remembered command is acceptable (`RI`: true of a fresh read),
    it returns in such a state, and the command it returns is acceptable (`CmdI`):
    a `ReplaceChar(n, _)` has `n ≤ 65535` — so `RepeatCount::try_from` in `edit_replace_char` is
    only ever reached with a count that fits — and in vi mode it is never `YankPop`.  The only
    assumption is on the application's bindings (`BindsI`; it also asks that `Replace` and `ViYankTo`,
    vi's `c`/`s`/`R` and `y` commands, are not bound in emacs mode): a bound `ReplaceChar` carries a count
    that fits its type (`RepeatCount = u16`: every value of the real type does), and `YankPop` is not
    bound in vi mode. -/
theorem C17_next_cmd_returns (S : Segmenter) (U : UData) (cfg : EdCfg) (hb : BindsI cfg)
    (fuel : Nat) (sea iep : Bool) (s s' : Ed) (c : Cmd) (h : RI cfg s)
    (hr : nextCmd S U cfg fuel sea iep s = .ok (c, s')) :
    RI cfg s' ∧ (∀ n ch, c = .replaceChar n ch → n ≤ 65535) ∧ (cfg.vi = true → c ≠ .yankPop) := by
  obtain ⟨h1, h2⟩ := (rt_nextCmd S U cfg hb fuel sea iep).h s h c s' hr
  refine ⟨h1, ?_, ?_⟩
  · intro n ch hc; subst hc; exact h2
  · intro hv hc; subst hc
    have : cfg.vi = false := h2
    rw [hv] at this; cases this

/-- **the default vi keymaps have no key for `YankPop`**: with no custom binding at all, `next_cmd`
    never returns it in vi mode -/
theorem C17_vi_never_yankPop (S : Segmenter) (U : UData) (cfg : EdCfg) (hvi : cfg.vi = true) (hb : cfg.binds = [])
    (fuel : Nat) (sea iep : Bool) (s s' : Ed) (c : Cmd) (h : RI cfg s)
    (hr : nextCmd S U cfg fuel sea iep s = .ok (c, s')) : c ≠ .yankPop :=
  (C17_next_cmd_returns S U cfg (fun b hm => by rw [hb] at hm; cases hm) fuel sea iep s s' c h hr).2.2 hvi

/-- **every command that reaches `execute` is acceptable**: the dispatch loop (completion,
    incremental search) hands back nothing or a command that `next_cmd` returned -/
theorem C17_dispatch_returns (S : Segmenter) (U : UData) (cfg : EdCfg) (hb : BindsI cfg) (fuel : Nat) (cmd0 : Cmd)
    (h0 : CmdI cfg cmd0) (s s' : Ed) (c : Cmd) (h : RI cfg s)
    (hr : preCmds S U cfg fuel cmd0 s = .ok (some c, s')) : RI cfg s' ∧ CmdI cfg c := by
  obtain ⟨h1, h2⟩ := (rt_preCmds S U cfg hb fuel cmd0 h0).h s h _ s' hr
  exact ⟨h1, h2 c rfl⟩

/-- **The only panic of a whole read is D43** — for helpers that do not panic, an indent size that
    fits the code's `u8`, a completer that reports a start on a character boundary at or before the
    cursor, acceptable bindings (`BindsI`), and GIVEN the open obligations `C17_Open` for some
    cross-step invariant `J` (`Undo` and that `J` is kept; for `YankPop` only the three one-command
    facts `PopLocal` — the loop carries `PopOK` itself).  If the
    read ends with the panic outcome, the state it ends in has a last insertion longer than 65535
    bytes (and the panic was the re-do of vi's `R`).  Covers `next_cmd` in both modes, every other
    command, circular and list completion, incremental search, the dispatch loop, quoted insert,
    suspend, the main loop (by induction on the fuel; running out of fuel is the outcome `fuel`, not
    `panic`), the initial text and the final cursor move. -/
theorem C17_editor_no_panic_partial (S : Segmenter) (U : UData) (cfg : EdCfg) (left right : Text) (inp : Input)
    (hv : ∀ t, cfg.validator t ≠ .panic) (hnp : cfg.hinterPanicAt = none)
    (hcomp : ∀ t p, IsBoundary t (cfg.completer t p).1 ∧ (cfg.completer t p).1 ≤ p)
    (hind : cfg.indentSize ≤ 255) (hS : S.Stable) (hb : BindsI cfg) {J : Ed → Prop} (ho : C17_Open S U cfg J) :
    (readline S U cfg (KillRing.new 60) left right inp).1 = .panic →
      D43 (readline S U cfg (KillRing.new 60) left right inp).2 :=
  readline_panic_only_D43 S U cfg ⟨hnp, hb, hcomp⟩ (C17_exec_safe S U cfg hS hv hnp hind ho) _ (RingOK.new 60) _ _ _

/-- the same as a no-panic statement: a read that does not end in a D43 state does not panic -/
theorem C17_editor_no_panic_of_no_D43 (S : Segmenter) (U : UData) (cfg : EdCfg) (left right : Text) (inp : Input)
    (hv : ∀ t, cfg.validator t ≠ .panic) (hnp : cfg.hinterPanicAt = none)
    (hcomp : ∀ t p, IsBoundary t (cfg.completer t p).1 ∧ (cfg.completer t p).1 ≤ p)
    (hind : cfg.indentSize ≤ 255) (hS : S.Stable) (hb : BindsI cfg) {J : Ed → Prop} (ho : C17_Open S U cfg J)
    (hd : ¬ D43 (readline S U cfg (KillRing.new 60) left right inp).2) :
    (readline S U cfg (KillRing.new 60) left right inp).1 ≠ .panic :=
  fun hp => hd (C17_editor_no_panic_partial S U cfg left right inp hv hnp hcomp hind hS hb ho hp)

/-- the open obligations, DISCHARGED in emacs mode with the concrete cross-step invariant
    `J := UndoLogInv` ("the undo stack, replayed oldest change first from some text, gives the text of the
    line"): `Undo` is safe from it and re-establishes it (`rsafe_undo`, C05_undo_past_text); every other
    command keeps it (`logK_execute`: every line-buffer call reports exactly what it did — `Replays` — and
    the listener logs what it is told — `C05_log_replay`; group markers change nothing —
    `C05_log_markers`); `next_cmd` only adds markers (`logK_nextCmd`, both modes); the dispatch loop keeps
    it (`logJ_preCmds`: inside a completion or a search every step does, and an abort restores line and
    log together — `SubLog.facts`, `truncateClosed`); the other steps do not touch line or log. -/
theorem C17_open_of_pre (S : Segmenter) (U : UData) (cfg : EdCfg) (hnp : cfg.hinterPanicAt = none)
    (hpre : ∀ fuel cmd s, RdInv cfg s → UndoLogInv s →
      wp (preCmds S U cfg fuel cmd) (fun _ s' => UndoLogInv s') (fun _ _ => True) s) :
    C17_Open S U cfg UndoLogInv where
  undo := fun n s h hj => rsafe_undo S U cfg hnp n h hj
  other := fun cmd hne _ s hj => (logK_execute S U cfg cmd (by
    cases cmd <;> first | rfl | exact absurd rfl (hne _))).h s hj
  init := fun _ _ => ⟨[], rfl⟩
  initText := fun b p => (logK_lb S U (Replays.update S U b p)).h
  refresh := (LogK.of_core (keeps_refreshLine S U cfg)).h
  next := fun fuel => (logK_nextCmd S U cfg fuel false false).h
  reset := fun _ hj => hj
  pre := hpre
  susp := fun _ hj => hj
  nextChar := (LogK.of_core keeps_nextChar).h
  insert := fun c => (logK_editInsert S U cfg c 1).h

theorem C17_open_emacs (S : Segmenter) (U : UData) (cfg : EdCfg) (hvi : cfg.vi = false)
    (hnp : cfg.hinterPanicAt = none) (hb : BindsI cfg)
    (hcomp : ∀ t p, IsBoundary t (cfg.completer t p).1 ∧ (cfg.completer t p).1 ≤ p) :
    C17_Open S U cfg UndoLogInv :=
  C17_open_of_pre S U cfg hnp (logJ_preCmds S U cfg ⟨hnp, hb, hcomp⟩ hvi)

/-- the fact the vi-mode theorem `C17_editor_no_panic` takes as a hypothesis: the dispatch loop (a
    completion or an incremental search, whatever is typed inside it, aborted or not) keeps the undo-log
    invariant.  It is PROVED for both modes as `C17_vi_pre_keeps` (round 16, below), so
    `C17_editor_no_panic_both` carries no such hypothesis.  The delicate case is the abort after a key
    that left insert mode: `end()` has popped the sub-loop's `Begin`, so the listener may MERGE what the
    sub-loop logs into the entry below the mark (finding D49: `x y Backspace C-r C-s a a Alt-X C-r Alt-X
    C-g u` gives "xyx", not "xy"); the remaining log then replays to a proper PREFIX of the line (here to
    "" with the line "x"), which still satisfies `UndoLogInv` because replay is invariant under a suffix
    of the start text (`BotGood`, Lemmas/EditorLogViLoops.lean). -/
def ViPreKeeps (S : Segmenter) (U : UData) (cfg : EdCfg) : Prop :=
  ∀ fuel cmd s, RdInv cfg s → UndoLogInv s →
    wp (preCmds S U cfg fuel cmd) (fun _ s' => UndoLogInv s') (fun _ _ => True) s

/-- **The only panic of a whole read is D43 — both modes**, with no `C17_Open`: for helpers that do not
    panic, an indent size that fits the code's `u8`, a completer that reports a start on a character
    boundary at or before the cursor, a stable segmenter and acceptable bindings (`BindsI`); in vi mode
    additionally `ViPreKeeps` (see there).  Emacs mode: nothing else (`C17_editor_no_panic_emacs`). -/
theorem C17_editor_no_panic (S : Segmenter) (U : UData) (cfg : EdCfg) (left right : Text) (inp : Input)
    (hv : ∀ t, cfg.validator t ≠ .panic) (hnp : cfg.hinterPanicAt = none)
    (hcomp : ∀ t p, IsBoundary t (cfg.completer t p).1 ∧ (cfg.completer t p).1 ≤ p)
    (hind : cfg.indentSize ≤ 255) (hS : S.Stable) (hb : BindsI cfg)
    (hvi : cfg.vi = true → ViPreKeeps S U cfg) :
    (readline S U cfg (KillRing.new 60) left right inp).1 = .panic →
      D43 (readline S U cfg (KillRing.new 60) left right inp).2 := by
  by_cases h : cfg.vi = true
  · exact C17_editor_no_panic_partial S U cfg left right inp hv hnp hcomp hind hS hb
      (C17_open_of_pre S U cfg hnp (hvi h))
  · have hf : cfg.vi = false := by simpa using h
    exact C17_editor_no_panic_partial S U cfg left right inp hv hnp hcomp hind hS hb
      (C17_open_emacs S U cfg hf hnp hb hcomp)

/-- **In emacs mode the only panic of a whole read is D43** — no open obligation left: for helpers that do
    not panic, an indent size that fits the code's `u8`, a completer that reports a start on a character
    boundary at or before the cursor, a stable segmenter and acceptable bindings (`BindsI`), if
    `readline` ends with the panic outcome then its final state has a last insertion longer than 65535
    bytes (known finding D43: the re-do of vi's `R`, reachable in emacs mode only through a binding). -/
theorem C17_editor_no_panic_emacs (S : Segmenter) (U : UData) (cfg : EdCfg) (left right : Text) (inp : Input)
    (hvi : cfg.vi = false) (hv : ∀ t, cfg.validator t ≠ .panic) (hnp : cfg.hinterPanicAt = none)
    (hcomp : ∀ t p, IsBoundary t (cfg.completer t p).1 ∧ (cfg.completer t p).1 ≤ p)
    (hind : cfg.indentSize ≤ 255) (hS : S.Stable) (hb : BindsI cfg) :
    (readline S U cfg (KillRing.new 60) left right inp).1 = .panic →
      D43 (readline S U cfg (KillRing.new 60) left right inp).2 :=
  C17_editor_no_panic_partial S U cfg left right inp hv hnp hcomp hind hS hb
    (C17_open_emacs S U cfg hvi hnp hb hcomp)

/-- every command but vi's `R` (`Replace(ForwardChar 0, None)`, whose redo converts the length of
    the last insertion to a `RepeatCount`) can be re-done whatever the last insertion was -/
theorem C17_bindOK (c : Cmd) (h : c ≠ .replace (.forwardChar 0) none) : BindOK c := by
  intro new li hr
  cases c <;> simp only [Cmd.isRepeatable, Cmd.isRepeatableChange, Bool.false_eq_true] at hr <;>
    (try exact ⟨_, rfl⟩)
  case replace m t =>
    cases t with
    | some t => exact ⟨_, rfl⟩
    | none =>
      unfold Cmd.redo
      simp only []
      by_cases hm : (m == Movement.forwardChar 0) = true
      · have : m = .forwardChar 0 := by simpa using hm
        subst this
        exact absurd rfl h
      · rw [if_neg hm]; exact ⟨_, rfl⟩
  case selfInsert n ch =>
    cases li <;> exact ⟨_, rfl⟩

/-- **kill-ring frame** (a building block for carrying `PopOK`, not yet used by the whole-read theorem):
    every command other than `Kill`, `Replace`, `ViYankTo`, `Yank`, `YankPop` leaves the kill ring exactly
    as it was, whether `execute` returns or exits; so do `next_cmd` and the dispatch loop (completion and
    incremental search, for every key sequence typed inside them).  Hence between a `Yank` and a `YankPop`
    only the main loop's own reset and those five commands can change `last_action`. -/
theorem C17_ring_frame (S : Segmenter) (U : UData) (cfg : EdCfg) :
    (∀ cmd s s' st, cmd.usesRing = false → execute S U cfg cmd s = .ok (st, s') → s'.ring = s.ring) ∧
    (∀ fuel sea iep s s' c, nextCmd S U cfg fuel sea iep s = .ok (c, s') → s'.ring = s.ring) ∧
    (∀ fuel cmd s s' r, preCmds S U cfg fuel cmd s = .ok (r, s') → s'.ring = s.ring) :=
  ⟨fun cmd _ _ _ hc hr => (keeps_ring_execute S U cfg cmd hc).ok hr,
   fun fuel sea iep _ _ _ hr => (keeps_ring_nextCmd S U cfg fuel sea iep).ok hr,
   fun fuel cmd _ _ _ hr => (keeps_ring_preCmds S U cfg fuel cmd).ok hr⟩

/-- **`next_cmd` never panics at all in emacs mode** when the binding table does not bind vi's `R`
    command (then not even D43 is reachable through `next_cmd`) -/
theorem C17_next_safe_emacs (S : Segmenter) (U : UData) (cfg : EdCfg) (hvi : cfg.vi = false)
    (hnp : cfg.hinterPanicAt = none) (hb : ∀ b ∈ cfg.binds, b.2 ≠ .replace (.forwardChar 0) none) :
    ∀ fuel sea iep s o s', nextCmd S U cfg fuel sea iep s = .error (o, s') → o ≠ .panic :=
  nextSafe_emacs S U cfg hvi hnp (fun b hm => C17_bindOK b.2 (hb b hm))

/-- the completer contract of the full statement (`start ≤ cursor`) is not enough: a start inside a
    character makes `line.replace(start..pos, …)` panic (String::replace_range off a boundary) -/
theorem C17_completer_start_inside_char_panics (S : Segmenter) (U : UData) :
    LB.replace S U 1 2 ['a'] { buf := ['é'], pos := 2, cap := 8, canGrow := true } = .error .panic := by
  rfl

/-- a panic source that is really reachable: a completer that reports a start offset beyond the
    cursor makes list-mode completion underflow (`pos - start`, lib.rs) — excluded by hypothesis in
    the full statement -/
theorem C17_completer_start_beyond_cursor_panics (S : Segmenter) (U : UData) (fuel : Nat) (s : Ed)
    (hl : s.line = { buf := [], pos := 0, cap := 8, canGrow := true }) :
    ∃ s', completeLine S U { vi := false, listCompletion := true, completer := fun _ _ => (1, [['a']]) } fuel s
      = .error (.panic, s') := by
  unfold completeLine
  simp only [EM.bind_apply, getLine, hl, lcpChars]
  exact ⟨_, rfl⟩

/-- non-vacuity: a concrete multi-byte escape sequence decodes to Ctrl-Right and consumes 6 bytes -/
example :
    (({ buf := [], avail := [], future := [[0x1b, 0x5b, 0x31, 0x3b, 0x35, 0x43], [0x61]] } : Input).nextKey false).toOption.map
      (fun r => (r.1, r.2.size)) = some (⟨.right, 8⟩, 1) := by decide

/-- **`ViPreKeeps` is PROVED** (round 16): the dispatch loop — a circular or list completion, an
    incremental search, whatever is typed inside them, aborted or not — keeps the undo-log invariant
    `UndoLogInv` in BOTH modes, for a hinter that does not panic, acceptable bindings (`BindsI`) and a
    completer that reports a start on a character boundary at or before the cursor (the three facts the
    read invariant `RdInv` needs to get through the sub-loops; no assumption on the mode, on what `Abort`
    or `Esc` are bound to, or on the segmenter).  The proof is mode-generic (`logJ_preCmds_both`):
    `next_cmd` changes the log by group-marker operations only (`mkK_nextCmd`); the search carries "the
    bottom `mark` entries replay some text to a PREFIX of the backed-up line" (`BotGood`: kept by the
    markers and by `mark.min(len)`; `update`'s `Delete(0, line)` can merge into the entry below the mark
    only when nothing lies above it, and then the bottom replays to the empty text — finding D49 is exactly
    this case; `botGood_update`), so after the abort's cut the log replays to a prefix of the restored line
    (`undoLogInv_of_prefix`); the completion logs its first `replace` before it reads a key, so `end()` never
    finds the loop's `Begin` on top (`AboveNB`), the mark is never lowered and the abort's cut restores
    exactly the log before the loop. -/
theorem C17_vi_pre_keeps (S : Segmenter) (U : UData) (cfg : EdCfg)
    (hnp : cfg.hinterPanicAt = none) (hb : BindsI cfg)
    (hcomp : ∀ t p, IsBoundary t (cfg.completer t p).1 ∧ (cfg.completer t p).1 ≤ p) :
    ViPreKeeps S U cfg :=
  logJ_preCmds_both S U cfg ⟨hnp, hb, hcomp⟩

/-- the open obligations `C17_Open` DISCHARGED in both modes with `J := UndoLogInv` (the emacs-only
    `C17_open_emacs` without its mode hypothesis) -/
theorem C17_open_both (S : Segmenter) (U : UData) (cfg : EdCfg)
    (hnp : cfg.hinterPanicAt = none) (hb : BindsI cfg)
    (hcomp : ∀ t p, IsBoundary t (cfg.completer t p).1 ∧ (cfg.completer t p).1 ≤ p) :
    C17_Open S U cfg UndoLogInv :=
  C17_open_of_pre S U cfg hnp (C17_vi_pre_keeps S U cfg hnp hb hcomp)

/-- **The only panic of a whole read is D43 — emacs AND vi mode, no open obligation, no `ViPreKeeps`**:
    for a validator and a hinter that do not panic, an indent size that fits the code's `u8`, a completer
    that reports a start on a character boundary at or before the cursor, a stable segmenter and acceptable
    bindings (`BindsI`: a bound `ReplaceChar` count fits `u16`, `YankPop` is not bound in vi mode, `Replace`
    / `ViYankTo` are not bound in emacs mode), if `readline` (initial text `left`/`right`, any input, a fresh
    kill ring of 60 slots) ends with the panic outcome then its final state has a last insertion longer
    than 65535 bytes (known finding D43: the re-do of vi's `R`).  This is `C17_editor_no_panic` with its
    vi-mode hypothesis `hvi` proved (`C17_vi_pre_keeps`). -/
theorem C17_editor_no_panic_both (S : Segmenter) (U : UData) (cfg : EdCfg) (left right : Text) (inp : Input)
    (hv : ∀ t, cfg.validator t ≠ .panic) (hnp : cfg.hinterPanicAt = none)
    (hcomp : ∀ t p, IsBoundary t (cfg.completer t p).1 ∧ (cfg.completer t p).1 ≤ p)
    (hind : cfg.indentSize ≤ 255) (hS : S.Stable) (hb : BindsI cfg) :
    (readline S U cfg (KillRing.new 60) left right inp).1 = .panic →
      D43 (readline S U cfg (KillRing.new 60) left right inp).2 :=
  C17_editor_no_panic S U cfg left right inp hv hnp hcomp hind hS hb
    (fun _ => C17_vi_pre_keeps S U cfg hnp hb hcomp)

/-- the same as a no-panic statement, both modes: a read that does not end in a D43 state does not panic -/
theorem C17_editor_no_panic_both_of_no_D43 (S : Segmenter) (U : UData) (cfg : EdCfg) (left right : Text)
    (inp : Input) (hv : ∀ t, cfg.validator t ≠ .panic) (hnp : cfg.hinterPanicAt = none)
    (hcomp : ∀ t p, IsBoundary t (cfg.completer t p).1 ∧ (cfg.completer t p).1 ≤ p)
    (hind : cfg.indentSize ≤ 255) (hS : S.Stable) (hb : BindsI cfg)
    (hd : ¬ D43 (readline S U cfg (KillRing.new 60) left right inp).2) :
    (readline S U cfg (KillRing.new 60) left right inp).1 ≠ .panic :=
  fun hp => hd (C17_editor_no_panic_both S U cfg left right inp hv hnp hcomp hind hS hb hp)

/-- non-vacuity: the configuration hypotheses of `C17_editor_no_panic_both` hold for the default vi-mode
    configuration (no helper, no custom bindings) -/
example :
    (∀ t, ({ vi := true } : EdCfg).validator t ≠ .panic) ∧ ({ vi := true } : EdCfg).hinterPanicAt = none ∧
    (∀ t p, IsBoundary t (({ vi := true } : EdCfg).completer t p).1 ∧ (({ vi := true } : EdCfg).completer t p).1 ≤ p) ∧
    ({ vi := true } : EdCfg).indentSize ≤ 255 ∧ BindsI { vi := true } :=
  ⟨fun _ h => (by cases h), rfl, fun t p => ⟨⟨[], t, rfl, rfl⟩, Nat.zero_le p⟩, (by decide),
   fun b hm => (by cases hm)⟩

/-- non-vacuity of the D49 case of the search invariant (`botGood_update`): with the log
    `[Delete(1,"y"), Insert(0,"xy")]`, the line "x" and the mark at the top of the log, `update("a")` merges
    its `Delete(0,"x")` into the entry below the mark; the two bottom entries then replay "" to "" — a
    proper prefix of the backed-up line "x" -/
example :
    let S : Segmenter := charSeg
    let c : Changeset := { level := 0, undos := [.delete 1 ['y'], .insert 0 ['x', 'y']], redos := [] }
    let c' := c.onNotifs S (fun _ => true) (updNotifs ['x'] ['a'])
    c'.undos = [.insert 0 ['a'], .delete 0 ['x', 'y'], .insert 0 ['x', 'y']] ∧
    replayLog (c'.undos.drop (c'.undos.length - 2)).reverse [] = some [] := by
  decide

