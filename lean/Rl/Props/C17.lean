/-
  Property C17 — no input can crash or wedge a read.
  Models: Rl/Keys.lean (byte decoder over the terminal input queue), Rl/Editor.lean (editor).
  The runtime part (signals, real select/poll timing) is exercised by the pty harness, not proved.
-/
import Rl.Keys
import Rl.Editor
import Rl.Lemmas.Keys
import Rl.Lemmas.KeysProgress
open Rl

/-- A successful read of one byte consumes exactly one byte of the input (buffer, kernel queue or
    a future key press): the reader never spins without consuming. -/
theorem C17_read_byte_consumes (i i' : Input) (b : UInt8) (h : i.readByte = .ok (b, i')) :
    i'.size + 1 = i.size := Input.readByte_size h

/-- The only way a byte read fails is the hang-up (no byte left anywhere): never a panic. -/
theorem C17_read_byte_error (i : Input) (e : RdErr) (h : i.readByte = .error e) : e = .io :=
  Input.readByte_error h

/-- Waiting for input (`poll` with an infinite time-out) loses nothing. -/
theorem C17_poll_keeps_input (i : Input) : i.pollWait.size = i.size := Input.pollWait_size i

/-- **Decoder progress**: every decoded key consumes at least one byte, so a read cannot loop
    forever on a finite input.  Lifted from the byte layer through `nextChar`, `escapeO`,
    `escapeCsi`, `extendedEscape`, `escapeSequence` and `nextKey` (Rl/Lemmas/KeysProgress.lean). -/
theorem C17_decoder_progress :
    ∀ (i i' : Input) (sea : Bool) (k : KeyEvent), i.nextKey sea = .ok (k, i') → i'.size < i.size := by
  intro i i' sea k h
  have hr := Input.nextKey_res i sea
  rw [h] at hr
  have := hr.1
  omega

/-- A decoded key never looks further than 36 bytes ahead (ESC ESC [ d d ; d d x, four bytes per
    character at most): the decoder cannot swallow an unbounded amount of input for one key. -/
theorem C17_decoder_bounded_lookahead (i i' : Input) (sea : Bool) (k : KeyEvent)
    (h : i.nextKey sea = .ok (k, i')) : i.size ≤ i'.size + 36 := by
  have hr := Input.nextKey_res i sea
  rw [h] at hr
  exact hr.2

/-- **Decoder errors**: a failed decode is an I/O error or invalid data, never anything else (and,
    being a value of `RdErr`, never a panic); and it is an I/O error only when the input ran out
    inside the key: fewer than 36 bytes (the longest sequence the decoder reads) were left when the
    key started.  (`C17_read_byte_error`: a byte read itself fails only on the hang-up.) -/
theorem C17_decoder_errors (i : Input) (sea : Bool) (e : RdErr) (h : i.nextKey sea = .error e) :
    (e = .io ∨ e = .invalidData) ∧ (e = .io → i.size < 36) := by
  have hr := Input.nextKey_res i sea
  rw [h] at hr
  rcases hr with ⟨rfl, hs⟩ | rfl
  · exact ⟨.inl rfl, fun _ => hs⟩
  · exact ⟨.inr rfl, fun h => by cases h⟩

/-- the same for a single character (`next_char`, used by quoted insert and the sub-loops) -/
theorem C17_next_char_progress (i i' : Input) (c : Char) (h : i.nextChar = .ok (c, i')) :
    i'.size < i.size ∧ i.size ≤ i'.size + 4 := by
  have hr := Input.nextChar_res i
  rw [h] at hr
  exact ⟨by have := hr.1; omega, hr.2⟩

/-- with input left to read, the decoder never reports an I/O error: a hang-up is the only source -/
theorem C17_decoder_io_only_at_end (i : Input) (sea : Bool) (h : 36 ≤ i.size) :
    i.nextKey sea ≠ .error .io := by
  intro he
  have := (C17_decoder_errors i sea .io he).2 rfl
  omega

/-- Full statement (editor): from the initial state no key sequence makes the editor model reach
    a panic outcome. False on the pinned tree before the D5 repair (`y^` slices backwards). -/
def C17_editor_no_panic_statement : Prop :=
  ∀ (S : Segmenter) (U : UData) (cfg : EdCfg) (left right : Text) (inp : Input),
    (∀ t, cfg.validator t ≠ .panic) →
    (∀ t p, (cfg.completer t p).1 ≤ p) →
    (readline S U cfg (KillRing.new 60) left right inp).1 ≠ .panic

/-- non-vacuity: a concrete multi-byte escape sequence decodes to Ctrl-Right and consumes 6 bytes -/
example :
    (({ buf := [], avail := [], future := [[0x1b, 0x5b, 0x31, 0x3b, 0x35, 0x43], [0x61]] } : Input).nextKey false).toOption.map
      (fun r => (r.1, r.2.size)) = some (⟨.right, 8⟩, 1) := by decide
