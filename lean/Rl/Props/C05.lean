/-
  Property C05 — Undo walks back through real earlier states, one edit unit at a time.
  Model: `Rl/Undo.lean` (transliteration of `src/undo.rs`, `truncate` after the D10 repair), wired
  into the editor model in `Rl/Editor.lean` (`lb`, `lbKill`, `changesBegin/End`, `truncateChanges`);
  oracle `Spec.oracleC05` on the implementation's callbacks.  The theorems below are about the undo
  log itself, for EVERY stack and EVERY sequence of listener notifications (no bound): the stack is
  an exact log of the line, markers stay balanced, an aborted group leaves no trace, one Undo pops
  exactly one unit and leaves the line at the replay of the remaining log.  Helper definitions
  (`applyFwd`, `replayLog`, `replayNotifs`, `depth`, `undoLoopG`, `Nested`) and lemmas are in
  `Rl/Lemmas/Undo.lean`.
-/
import Rl.Editor
import Rl.Lemmas.Undo
import Rl.Lemmas.EditorLoops
import Rl.Lemmas.UndoBottom
import Rl.Lemmas.UndoUnits
import Rl.Lemmas.YankOneUnit
import Rl.Lemmas.InsertOneUnit
open Rl

/-! ### the stack is an exact log -/

/-- **Log replay.** If replaying the stack (oldest change first, markers skipped) takes `t0` to `t`,
    and the line buffer then reports the notifications `ns`, whose own replay takes `t` to `t'`,
    then replaying the stack after the listener has processed `ns` takes `t0` to `t'` — including
    every merge the listener performs (single alphanumeric insertions into the preceding `Insert`,
    single-grapheme deletions into the preceding `Delete` on either side, adjacent replacements). -/
theorem C05_log_replay (S : Segmenter) (alnum : Char → Bool) (c : Changeset) (ns : List Notif) (t0 t t' : Text)
    (hlog : replayLog c.undos.reverse t0 = some t) (hns : replayNotifs ns t = some t') :
    replayLog (c.onNotifs S alnum ns).undos.reverse t0 = some t' := by
  induction ns generalizing c t with
  | nil =>
    simp only [replayNotifs, Option.some.injEq] at hns
    subst hns; exact hlog
  | cons n ns ih =>
    simp only [replayNotifs] at hns
    split at hns
    · rename_i t1 h1
      have := onNotif_replay S alnum c n t0 t t1 hlog h1
      exact ih (c.onNotif S alnum n) t1 this hns
    · cases hns

/-- the markers do not take part in the replay: `begin` and `end_` keep the log -/
theorem C05_log_markers (c : Changeset) (t0 t : Text) (hlog : replayLog c.undos.reverse t0 = some t) :
    replayLog c.begin.1.undos.reverse t0 = some t ∧ replayLog c.end_.1.undos.reverse t0 = some t := by
  constructor
  · exact replay_cons.mpr ⟨t, hlog, rfl⟩
  · simp only [Changeset.end_]
    generalize c.level = n
    generalize false = b
    generalize hu : c.undos = us at hlog
    clear hu
    induction n generalizing us b with
    | zero => exact hlog
    | succ n ih =>
      unfold Changeset.endLoop
      split
      · rename_i rest
        obtain ⟨u, hu1, hu2⟩ := replay_cons.mp hlog
        have : u = t := Option.some.inj hu2
        rw [this] at hu1
        exact ih _ _ hu1
      · exact ih _ _ (replay_cons.mpr ⟨t, hlog, rfl⟩)

/-! ### markers stay balanced -/

/-- `level` is the number of unmatched `Begin` markers of the stack, and every `End` has its `Begin` -/
def Balanced (c : Changeset) : Prop := depth c.undos = some c.level

/-- **Balanced markers.** The fresh log is balanced; `begin`, every listener notification and
    `truncate` (to any mark) keep it balanced; `end_` closes ALL open groups: afterwards the level is 0
    and no `Begin` is unmatched. -/
theorem C05_balanced (S : Segmenter) (alnum : Char → Bool) (c : Changeset) (h : Balanced c) :
    Balanced Changeset.new ∧
    Balanced c.begin.1 ∧
    (∀ ns, Balanced (c.onNotifs S alnum ns)) ∧
    (Balanced c.end_.1 ∧ c.end_.1.level = 0) ∧
    (∀ mark, Balanced (c.truncate mark)) := by
  refine ⟨rfl, ?_, ?_, ?_, ?_⟩
  · simp only [Balanced, Changeset.begin, depth] at h ⊢
    rw [h]
  · intro ns
    induction ns generalizing c with
    | nil => exact h
    | cons n ns ih =>
      apply ih (c.onNotif S alnum n)
      simp only [Balanced, Changeset.onNotif_level] at h ⊢
      rcases Changeset.onNotif_shape S alnum c n with h1 | ⟨ch, hm, h1⟩ | ⟨hd, rest, ch, hu, hm1, hm2, h1⟩
      · rw [h1]; exact h
      · rw [h1, depth_cons_nonmarker hm]; exact h
      · rw [h1, depth_cons_nonmarker hm2]
        rw [hu, depth_cons_nonmarker hm1] at h; exact h
  · have := endLoop_depth c.level c.undos false h
    exact ⟨this, rfl⟩
  · intro mark
    simp only [Balanced, Changeset.truncate] at h ⊢
    have hsplit : c.undos = c.undos.take (c.undos.length - mark) ++ c.undos.drop (c.undos.length - mark) :=
      (List.take_append_drop _ _).symm
    rw [hsplit] at h
    obtain ⟨m, hm, he⟩ := depth_append h
    rw [hm]
    simp only [begins, ends] at he
    congr 1
    omega

/-! ### an aborted group leaves no trace in the log -/

/-- what may happen between `begin` and the `truncate` of an abort path: notifications and nested `begin`s -/
inductive GOp
  | notif (n : Notif)
  | begin

def GOp.run (S : Segmenter) (alnum : Char → Bool) (c : Changeset) : GOp → Changeset
  | .notif n => c.onNotif S alnum n
  | .begin => c.begin.1

/-- the shape of the stack after `begin` and any sequence of notifications and nested `begin`s:
    `extra ++ Begin :: c.undos` with no `End` in `extra`; the level counts the open `Begin`s -/
theorem C05_ops_shape (S : Segmenter) (alnum : Char → Bool) (c : Changeset) :
    ∀ (ops : List GOp) (c' : Changeset),
      (∃ extra, c'.undos = extra ++ .begin :: c.undos ∧ ends extra = 0 ∧ c'.level = c.level + 1 + begins extra) →
      ∃ extra, (ops.foldl (GOp.run S alnum) c').undos = extra ++ .begin :: c.undos ∧ ends extra = 0 ∧
        (ops.foldl (GOp.run S alnum) c').level = c.level + 1 + begins extra := by
  intro ops
  induction ops with
  | nil => intro c' h; exact h
  | cons op ops ih =>
    intro c' ⟨extra, hu, he, hl⟩
    apply ih
    cases op with
    | begin =>
      refine ⟨.begin :: extra, ?_, ?_, ?_⟩
      · simp [GOp.run, Changeset.begin, hu]
      · simpa [ends] using he
      · simp [GOp.run, Changeset.begin, hl, begins]; omega
    | notif n =>
      simp only [GOp.run, Changeset.onNotif_level]
      rcases Changeset.onNotif_shape S alnum c' n with h1 | ⟨ch, hm, h1⟩ | ⟨hd, rest, ch, hu', hm1, hm2, h1⟩
      · exact ⟨extra, by rw [h1, hu], he, hl⟩
      · refine ⟨ch :: extra, by rw [h1, hu]; rfl, ?_, ?_⟩
        · cases ch <;> simp [Change.isMarker] at hm <;> simpa [ends] using he
        · cases ch <;> simp [Change.isMarker] at hm <;> simpa [begins] using hl
      · cases extra with
        | nil =>
          rw [hu] at hu'
          simp only [List.nil_append, List.cons.injEq] at hu'
          rw [← hu'.1] at hm1; simp [Change.isMarker] at hm1
        | cons e extra' =>
          rw [hu] at hu'
          simp only [List.cons_append, List.cons.injEq] at hu'
          obtain ⟨rfl, rfl⟩ := hu'
          refine ⟨ch :: extra', by rw [h1]; rfl, ?_, ?_⟩
          · cases ch <;> simp [Change.isMarker] at hm2 <;> cases e <;> simp [Change.isMarker] at hm1 <;>
              simpa [ends] using he
          · cases ch <;> simp [Change.isMarker] at hm2 <;> cases e <;> simp [Change.isMarker] at hm1 <;>
              simpa [begins] using hl

/-- **Truncate restores.** After `begin` (returning the mark), any sequence of listener
    notifications and nested `begin`s, and then `truncate mark`, the stack and the level are exactly
    what they were before `begin` — the abort-transparency clause at the level of the log (what the
    completion and incremental-search abort paths do).  Before the D10 repair the level stayed
    raised. -/
theorem C05_truncate_restores (S : Segmenter) (alnum : Char → Bool) (c : Changeset) (ops : List GOp) :
    let c1 := c.begin.1
    let mark := c.begin.2
    let c2 := ops.foldl (GOp.run S alnum) c1
    (c2.truncate mark).undos = c.undos ∧ (c2.truncate mark).level = c.level := by
  intro c1 mark c2
  have inv := C05_ops_shape S alnum c
  obtain ⟨extra, hu, he, hl⟩ := inv ops c1 ⟨[], rfl, rfl, by simp [c1, Changeset.begin, begins]⟩
  have hmark : mark = c.undos.length := rfl
  have hlen : c2.undos.length - mark = extra.length + 1 := by
    show (ops.foldl (GOp.run S alnum) c1).undos.length - mark = _
    rw [hu, hmark]; simp; omega
  have htake : c2.undos.take (extra.length + 1) = extra ++ [.begin] := by
    show (ops.foldl (GOp.run S alnum) c1).undos.take _ = _
    rw [hu]
    have : extra ++ Change.begin :: c.undos = (extra ++ [.begin]) ++ c.undos := by simp
    rw [this, List.take_left' (by simp)]
  have hdrop : c2.undos.drop (extra.length + 1) = c.undos := by
    show (ops.foldl (GOp.run S alnum) c1).undos.drop _ = _
    rw [hu]
    have : extra ++ Change.begin :: c.undos = (extra ++ [.begin]) ++ c.undos := by simp
    rw [this, List.drop_left' (by simp)]
  constructor
  · simp only [Changeset.truncate, hlen, hdrop]
  · simp only [Changeset.truncate, hlen, htake]
    have hl' : c2.level = c.level + 1 + begins extra := hl
    rw [hl']
    simp only [ends, begins] at he ⊢
    simp [List.filter_append, he]
    omega

/-! ### one Undo = one unit -/

/-- an undo unit at the top of the stack (most recent first): one change, or one complete
    `End … Begin` group whose inside is well nested -/
inductive UndoUnit : List Change → Prop
  | change (ch : Change) : ch.isMarker = false → UndoUnit [ch]
  | group (body : List Change) : Nested body → UndoUnit (.end_ :: body ++ [.begin])

/-- **Undo unit.** With the stack `u ++ rest` where `u` is one unit, and the effect of undoing one
    change on the line abstracted to `step`: the loop of `Changeset::undo` at depth 0 with `count`
    units already done pops exactly `u` — it pushes `u` reversed on the redo stack, has applied the
    undo steps of exactly the changes of `u` (most recent first), and then either stops (when this
    was the `n`-th unit) or goes on with `rest`, one more unit counted.  In particular `undo 1`
    never goes below the state that preceded the most recent unit. -/
theorem C05_undo_unit {σ : Type} (step : Change → σ → Except Panic σ) (n : Nat)
    (u rest redos : List Change) (hu : UndoUnit u) (s s' : σ) (count : Nat) (undone : Bool)
    (hs : undoAll step u s = .ok s') :
    undoLoopG step n (u ++ rest) redos s 0 count undone =
      if count + 1 ≥ n then .ok (rest, u.reverse ++ redos, s', undone || u.any (fun c => !c.isMarker))
      else undoLoopG step n rest (u.reverse ++ redos) s' 0 (count + 1) (undone || u.any (fun c => !c.isMarker)) := by
  cases hu with
  | change ch hm =>
    rw [undoAll_cons_change step hm] at hs
    cases h1 : step ch s with
    | error e => rw [h1] at hs; cases hs
    | ok s1 =>
      rw [h1] at hs
      simp only [undoAll, Except.ok.injEq] at hs
      subst hs
      rw [List.cons_append, List.nil_append, undoLoopG_cons_change step n hm, h1]
      simp [hm]
  | group body hb =>
    rw [List.cons_append, undoAll_cons_marker step (ch := .end_) rfl] at hs
    obtain ⟨s1, h1, h2⟩ := (undoAll_append_iff step body [.begin] s s').mp hs
    rw [undoAll_cons_marker step (ch := .begin) rfl] at h2
    simp only [undoAll, Except.ok.injEq] at h2
    subst h2
    simp only [List.cons_append, List.append_assoc, List.nil_append]
    rw [undoLoopG_cons_end]
    simp only [Int.zero_add, show ¬ ((1 : Int) ≤ 0) by omega, if_false]
    rw [undoLoopG_nested step n hb _ _ _ _ 1 (by omega) _ _ h1]
    rw [undoLoopG_cons_begin]
    simp [Change.isMarker]

/-- the same for the model's own loop (`Changeset.undoLoop`, step = `Change.undoOn` on the line buffer):
    `undo 1` pops exactly the top unit -/
theorem C05_undo_unit_model (S : Segmenter) (U : UData) (u rest redos : List Change) (hu : UndoUnit u) (lb lb' : LB)
    (level : Nat)
    (hs : undoAll (fun ch lb => ch.undoOn S U lb) u lb = .ok lb') :
    ∃ level', Changeset.undoLoop S U 1 (u ++ rest) redos lb 0 0 false level =
      .ok (rest, u.reverse ++ redos, lb', u.any (fun c => !c.isMarker), level') := by
  have h := C05_undo_unit (fun ch lb => ch.undoOn S U lb) 1 u rest redos hu lb lb' 0 false hs
  simp only [Nat.zero_add, ge_iff_le, Nat.le_refl, if_true, Bool.false_or] at h
  exact undoLoop_of_G S U 1 _ _ _ _ _ _ level _ h

/-- **Undo keeps the markers balanced** (D38, repaired).  `Changeset::undo` with any repeat count, also
    when it is requested INSIDE an open group (a vi insert session) and pops that group's `Begin`
    marker: afterwards `level` is again the number of unmatched `Begin` markers and every `End` has
    its `Begin`.  So `Balanced` is an invariant of ALL operations of the log (`C05_balanced` for the
    others), and the `end_` that closes the session later cannot push an unmatched `End`. -/
theorem C05_undo_balanced (S : Segmenter) (U : UData) (c : Changeset) (h : Balanced c) (lb : LB) (n : Nat)
    (c' : Changeset) (lb' : LB) (undone : Bool) (hu : c.undo S U lb n = .ok (c', lb', undone)) :
    Balanced c' := by
  unfold Changeset.undo at hu
  cases hr : Changeset.undoLoop S U n c.undos c.redos lb 0 0 false c.level with
  | error e => rw [hr] at hu; cases hu
  | ok r =>
    rw [hr] at hu
    obtain ⟨us, rs, lb1, u1, lvl⟩ := r
    simp only [Except.ok.injEq, Prod.mk.injEq] at hu
    obtain ⟨rfl, _, _⟩ := hu
    exact undoLoop_balanced S U n c.undos c.redos lb 0 0 false c.level _ (by simpa [Balanced] using h) hr

/-- the D38 scenario on the model, for every segmenter and line: an open group with nothing left in
    it; Undo pops the marker AND lowers the level, so the `end_` that closes the "session" later adds
    no unmatched `End` (before the repair the level stayed 1 and `end_` pushed one) -/
example (S : Segmenter) (U : UData) (lb : LB) (rest : List Change) :
    ({ level := 1, undos := .begin :: rest, redos := [] } : Changeset).undo S U lb 1 =
      .ok ({ level := 0, undos := rest, redos := [.begin] }, lb, false) := by
  simp [Changeset.undo, Changeset.undoLoop]

/-! ### Undo inverts a change, and leaves the line at the replay of the remaining log -/

/-- **Undo inverts.** For a single recorded change `ch` whose redo direction takes `t` to `t'`
    (`applyFwd`), undoing it on a line holding `t'` succeeds (no panic) and leaves exactly `t`.
    Proved from the definitions of the line-buffer primitives `LB.deleteRange`, `LB.insertStr`,
    `LB.setPosChecked`, `LB.replace` — no hypothesis about them. -/
theorem C05_undo_inverts (S : Segmenter) (U : UData) (ch : Change) (hm : ch.isMarker = false) (t t' : Text) (lb : LB)
    (h : applyFwd ch t = some t') (hb : lb.buf = t') :
    ∃ lb', ch.undoOn S U lb = .ok lb' ∧ lb'.buf = t :=
  undoOn_inverts S U ch hm t t' lb h hb

/-- **Undo lands on the replay of an older part of the log.** If the stack is an exact log from `t0`
    to the text of the line, then `Changeset.undo` with ANY repeat count, whatever the markers, does
    not panic; it pops a non-empty prefix of the stack (when there is anything to pop), and the new
    line is the replay of the remaining, older log from `t0`: a text the line had when the oldest
    popped change was recorded.  So the log invariant is re-established for the next command. -/
theorem C05_undo_past_text (S : Segmenter) (U : UData) (c : Changeset) (lb : LB) (n : Nat) (t0 : Text)
    (hlog : replayLog c.undos.reverse t0 = some lb.buf) :
    ∃ c' lb' undone, c.undo S U lb n = .ok (c', lb', undone) ∧
      replayLog c'.undos.reverse t0 = some lb'.buf ∧
      (∃ p, c.undos = p ++ c'.undos ∧ c'.redos = p.reverse ++ c.redos ∧ (c.undos ≠ [] → p ≠ [])) := by
  -- the loop cannot fail: every undo step succeeds on the replayed text
  have nofail : ∀ (us redos : List Change) (lb : LB) (wfb : Int) (count : Nat) (undone : Bool),
      replayLog us.reverse t0 = some lb.buf →
      ∃ r, undoLoopG (fun ch lb => ch.undoOn S U lb) n us redos lb wfb count undone = .ok r := by
    intro us
    induction us with
    | nil => intro redos lb wfb count undone _; exact ⟨_, rfl⟩
    | cons ch us ih =>
      intro redos lb wfb count undone hl
      obtain ⟨u, hu, hf⟩ := replay_cons.mp hl
      have key : ∀ (lb1 : LB) (w1 : Int) (u1 : Bool), replayLog us.reverse t0 = some lb1.buf →
          ∃ r, (if w1 ≤ 0 then
            if count + 1 ≥ n then .ok (us, ch :: redos, lb1, u1)
            else undoLoopG (fun ch lb => ch.undoOn S U lb) n us (ch :: redos) lb1 w1 (count + 1) u1
          else undoLoopG (fun ch lb => ch.undoOn S U lb) n us (ch :: redos) lb1 w1 count u1) = Except.ok r := by
        intro lb1 w1 u1 h1
        split
        · split
          · exact ⟨_, rfl⟩
          · exact ih _ _ _ _ _ h1
        · exact ih _ _ _ _ _ h1
      by_cases hm : ch.isMarker = true
      · rw [applyFwd_marker hm] at hf
        have hut : u = lb.buf := Option.some.inj hf
        rw [hut] at hu
        cases ch with
        | begin => rw [undoLoopG_cons_begin]; exact key _ _ _ hu
        | end_ => rw [undoLoopG_cons_end]; exact key _ _ _ hu
        | insert i t => simp [Change.isMarker] at hm
        | delete i t => simp [Change.isMarker] at hm
        | replace i o t => simp [Change.isMarker] at hm
      · have hm : ch.isMarker = false := by simpa using hm
        obtain ⟨lb1, h1, h2⟩ := undoOn_inverts S U ch hm u lb.buf lb hf rfl
        rw [undoLoopG_cons_change _ n hm]
        simp only [h1]
        exact key _ _ _ (by rw [h2]; exact hu)
  obtain ⟨⟨rest, redos', lb', undone'⟩, hr⟩ := nofail c.undos c.redos lb 0 0 false hlog
  obtain ⟨p, hp1, hp2, hp3, hp4⟩ := undoLoopG_prefix _ n _ _ _ _ _ _ _ _ _ _ hr
  obtain ⟨level', hl⟩ := undoLoop_of_G S U n _ _ _ _ _ _ c.level _ hr
  refine ⟨{ level := level', undos := rest, redos := redos' }, lb', undone', ?_, ?_, p, hp1, hp2, hp4⟩
  · simp only [Changeset.undo, hl]
  · rw [hp1] at hlog
    obtain ⟨lb'', h1, h2⟩ := undoAll_replay S U p rest t0 lb.buf lb hlog rfl
    rw [hp3] at h1
    cases h1
    exact h2

/-- **Undo to the start.** Under the log invariant, once Undo has emptied the stack the line is the
    text the log started from (`t0 = []` for a read: pre-filled initial text is recorded as the first
    insertion); and each Undo on a non-empty stack strictly shortens it, so repeating Undo gets there. -/
theorem C05_undo_to_empty (S : Segmenter) (U : UData) (c : Changeset) (lb : LB) (n : Nat) (t0 : Text)
    (hlog : replayLog c.undos.reverse t0 = some lb.buf) :
    ∃ c' lb' undone, c.undo S U lb n = .ok (c', lb', undone) ∧
      (c.undos ≠ [] → c'.undos.length < c.undos.length) ∧ (c'.undos = [] → lb'.buf = t0) := by
  obtain ⟨c', lb', undone, h1, h2, p, hp, _, hne⟩ := C05_undo_past_text S U c lb n t0 hlog
  refine ⟨c', lb', undone, h1, ?_, ?_⟩
  · intro h
    have := hne h
    rw [hp, List.length_append]
    have : 0 < p.length := List.length_pos_iff.mpr this
    omega
  · intro h
    rw [h] at h2
    simpa [replayLog] using h2.symm

/-! ### lifting to the editor model -/

/-- The editor's `lb` wrapper (every line-buffer call with the undo log as listener) keeps the log
    invariant, PROVIDED the call's notifications are faithful: replaying them takes the old text to
    the new one.  That faithfulness is the replay conjunct of property C03 (not part of this
    package); it is written out as the hypothesis `hfaith`. -/
theorem C05_log_inv_partial (S : Segmenter) (U : UData) {α : Type} (op : LM α) (s : Ed) (t0 : Text)
    (hlog : replayLog s.changes.undos.reverse t0 = some s.line.buf)
    (hfaith : ∀ a l ns, op s.line = .ok (a, l, ns) → replayNotifs ns s.line.buf = some l.buf)
    (a : α) (s' : Ed) (h : lb S U op s = .ok (a, s')) :
    replayLog s'.changes.undos.reverse t0 = some s'.line.buf := by
  simp only [lb] at h
  split at h
  · cases h
  · rename_i a' l ns hop
    simp only [Except.ok.injEq, Prod.mk.injEq] at h
    obtain ⟨_, rfl⟩ := h
    exact C05_log_replay S U.alnum s.changes ns t0 s.line.buf l.buf hlog (hfaith _ _ _ hop)

/-- the faithfulness hypothesis holds for the primitives every edit is built from -/
theorem C05_primitives_faithful (S : Segmenter) (U : UData) (lb0 : LB) :
    (∀ a b d y l ns, LB.drain a b d lb0 = .ok (y, l, ns) → replayNotifs ns lb0.buf = some l.buf) ∧
    (∀ i x r l ns, LB.insertStr S U i x lb0 = .ok (r, l, ns) → replayNotifs ns lb0.buf = some l.buf) ∧
    (∀ a b x r l ns, LB.replace S U a b x lb0 = .ok (r, l, ns) → replayNotifs ns lb0.buf = some l.buf) := by
  have sp3 : ∀ {t : Text} {a b : Nat} {x y z : Text}, split3 t a b = .ok (x, y, z) →
      t = x ++ y ++ z ∧ a = blen x := by
    intro t a b x y z h
    unfold split3 at h
    split at h
    · split at h
      · rename_i ab c h1
        split at h
        · rename_i x' y' h2
          simp only [Except.ok.injEq, Prod.mk.injEq] at h
          obtain ⟨rfl, rfl, rfl⟩ := h
          obtain ⟨e1, _⟩ := splitAtByte_some h1
          obtain ⟨e2, e3⟩ := splitAtByte_some h2
          exact ⟨by rw [e1, e2], e3⟩
        · cases h
      · cases h
    · cases h
  refine ⟨?_, ?_, ?_⟩
  · intro a b d y l ns h
    simp only [LB.drain] at h
    split at h
    · rename_i x y' z h3
      simp only [Except.ok.injEq, Prod.mk.injEq] at h
      obtain ⟨_, rfl, rfl⟩ := h
      obtain ⟨e1, e2⟩ := sp3 h3
      simp only [replayNotifs, applyNotif]
      rw [applyFwd_delete.mpr ⟨x, z, e1, e2, rfl⟩]
    · cases h
  · intro i x r l ns h
    simp only [LB.insertStr] at h
    split at h
    · rename_i a z h1
      simp only [Except.ok.injEq, Prod.mk.injEq] at h
      obtain ⟨_, rfl, rfl⟩ := h
      obtain ⟨e1, e2⟩ := splitAtByte_some h1
      simp only [replayNotifs, applyNotif]
      rw [applyFwd_insert.mpr ⟨a, z, e1, e2, rfl⟩]
    · cases h
  · intro a b x r l ns h
    simp only [LB.replace] at h
    split at h
    · rename_i x' y z h3
      simp only [Except.ok.injEq, Prod.mk.injEq] at h
      obtain ⟨_, rfl, rfl⟩ := h
      obtain ⟨e1, e2⟩ := sp3 h3
      simp only [replayNotifs, applyNotif]
      rw [applyFwd_replace.mpr ⟨x', z, e1, e2, rfl⟩]
    · cases h

/-- Full statement, both modes: aborting an incremental search or a completion leaves line, undo stack
    and group level as before the command.  The emacs clause (stack and level) is PROVED on the editor
    model: `C05_abort_transparent_emacs`.  As written, for both modes, it is false
    (`C05_abort_transparent_vi_false`), for a benign reason: in vi mode a key inside the sub-loop can
    leave insert mode, which closes the insert session's open group; the vi clause should read "the
    stack before minus the open `Begin`s that leaving insert mode closed" and is not proved.  D47 and D48
    (records of the sub-loop left behind / the closed session re-opened by the abort) are repaired. -/
def C05_abort_transparent_statement : Prop :=
  ∀ (S : Segmenter) (U : UData) (cfg : EdCfg) (s s' : Ed) (fuel : Nat),
    (reverseIncrementalSearch S U cfg fuel s = .ok (none, s') ∨
     (completeLine S U cfg fuel s = .ok (none, s') ∧ cfg.listCompletion = false)) →
    s'.line.buf = s.line.buf ∧ s'.changes.undos = s.changes.undos ∧ s'.changes.level = s.changes.level

/-! ### abort transparency in emacs mode -/

open EM

/-- the log of a sub-loop: `begin` of the log before it, then notifications and nested `begin`s -/
def SubLog (S : Segmenter) (U : UData) (c0 c : Changeset) : Prop :=
  ∃ ops : List GOp, c = ops.foldl (GOp.run S U.alnum) c0.begin.1

theorem SubLog.start (S : Segmenter) (U : UData) (c0 : Changeset) : SubLog S U c0 c0.begin.1 := ⟨[], rfl⟩

theorem SubLog.begin {S : Segmenter} {U : UData} {c0 c : Changeset} (h : SubLog S U c0 c) : SubLog S U c0 c.begin.1 := by
  obtain ⟨ops, rfl⟩ := h
  exact ⟨ops ++ [.begin], by simp [List.foldl_append, GOp.run]⟩

theorem SubLog.notifs {S : Segmenter} {U : UData} {c0 c : Changeset} (h : SubLog S U c0 c) (ns : List Notif) :
    SubLog S U c0 (c.onNotifs S U.alnum ns) := by
  obtain ⟨ops, rfl⟩ := h
  refine ⟨ops ++ ns.map .notif, ?_⟩
  rw [List.foldl_append]
  generalize ops.foldl (GOp.run S U.alnum) c0.begin.1 = c
  unfold Changeset.onNotifs
  induction ns generalizing c with
  | nil => rfl
  | cons n ns ih => simp only [List.foldl_cons, List.map_cons]; exact ih _

/-- the mark of the sub-loop stays below the height of its log, every group is not closed, and cutting
    back to the mark restores stack and level -/
theorem SubLog.facts {S : Segmenter} {U : UData} {c0 c : Changeset} (h : SubLog S U c0 c) :
    c0.undos.length < c.undos.length ∧ c.level ≠ 0 ∧
    (c.truncateClosed c0.undos.length).undos = c0.undos ∧ (c.truncateClosed c0.undos.length).level = c0.level := by
  obtain ⟨ops, rfl⟩ := h
  obtain ⟨extra, hu, _, hl⟩ := C05_ops_shape S U.alnum c0 ops c0.begin.1
    ⟨[], rfl, rfl, by simp [Changeset.begin, begins]⟩
  have hr := C05_truncate_restores S U.alnum c0 ops
  have hlv : (ops.foldl (GOp.run S U.alnum) c0.begin.1).level ≠ 0 := by rw [hl]; omega
  refine ⟨by rw [hu]; simp; omega, hlv, ?_, ?_⟩
  · unfold Changeset.truncateClosed
    have : ((ops.foldl (GOp.run S U.alnum) c0.begin.1).level == 0) = false := by simpa using hlv
    rw [this]; exact hr.1
  · unfold Changeset.truncateClosed
    have : ((ops.foldl (GOp.run S U.alnum) c0.begin.1).level == 0) = false := by simpa using hlv
    rw [this]; exact hr.2

section
variable (S : Segmenter) (U : UData) (cfg : EdCfg)

/-- **`next_cmd` in emacs mode and the undo log**: it leaves the log alone, or (a `Replace` command,
    bound by the application) opens one group -/
theorem wp_nextCmd_emacs_changes (hvi : cfg.vi = false) {fuel : Nat} {sea iep : Bool} {s : Ed} {Q : Cmd → Ed → Prop}
    (hq : ∀ c s', (s'.changes = s.changes ∨ s'.changes = s.changes.begin.1) → Q c s') :
    wp (nextCmd S U cfg fuel sea iep) Q (fun _ _ => True) s := by
  have tail : ∀ (key : KeyEvent) (s1 : Ed), s1.changes = s.changes →
      wp (do
        let inCommand ← (fun s => .ok (s.inp.inputMode == .command, s) : EM Bool)
        let cmd ← emacs S U cfg fuel key
        match cmd with
        | .replace _ _ => do let _ ← changesBegin; pure cmd
        | _ => pure cmd) Q (fun _ _ => True) s1 := by
    intro key s1 h1
    rw [wp_bind', wp_read, wp_bind]
    refine wp_mono ((keeps_emacs S U cfg fuel key).wp s1) ?_ (fun _ _ _ => trivial)
    intro cmd s2 h2
    have hc2 : s2.changes = s.changes := by rw [(Ed.core_eq h2).2.2.1]; exact h1
    split
    · rw [wp_bind, wp_changesBegin, wp_pure]
      exact hq _ _ (Or.inr (by show s2.changes.begin.1 = _; rw [hc2]))
    · rw [wp_pure]; exact hq _ _ (Or.inl hc2)
  unfold nextCmd waitForInput
  simp only [hvi, Bool.not_false, Bool.false_eq_true, if_false, if_true]
  split <;>
  · rw [wp_bind]
    refine wp_mono ((keeps_nextKey _).wp s) ?_ (fun _ _ _ => trivial)
    intro key s1 h1
    have t := tail key s1 (Ed.core_eq h1).2.2.1
    simp only [wp_bind, wp_bind'] at t ⊢
    exact t

/-- what an abort must re-establish -/
def LogAs (c0 : Changeset) (r : Option Cmd) (s' : Ed) : Prop :=
  r = none → s'.changes.undos = c0.undos ∧ s'.changes.level = c0.level

theorem logAs_truncate {c0 : Changeset} {s : Ed} (h : SubLog S U c0 s.changes) :
    LogAs c0 none { s with changes := s.changes.truncateClosed c0.undos.length } :=
  fun _ => ⟨h.facts.2.2.1, h.facts.2.2.2⟩

/-- incremental search, emacs mode: whatever is typed inside it, an aborted search (result `none`)
    leaves stack and level of the undo log as they were before its `begin` -/
theorem searchLoop_log (hvi : cfg.vi = false) (c0 : Changeset) (backup : Text) (backupPos : Nat) :
    ∀ (fuel : Nat) (sb : Text) (hi : Nat) (d : Dir) (succ : Bool) (s : Ed), SubLog S U c0 s.changes →
      wp (searchLoop S U cfg c0.undos.length backup backupPos fuel sb hi d succ) (LogAs c0) (fun _ _ => True) s := by
  intro fuel
  induction fuel with
  | zero => intro sb hi d succ s _; unfold searchLoop; exact trivial
  | succ fuel ih =>
    intro sb hi d succ s hs
    unfold searchLoop
    simp only [wp_bind]
    refine wp_refreshPromptAndLine S U cfg (fun s2 hc2 => ?_) (fun _ _ _ => trivial)
    have hs2 : SubLog S U c0 s2.changes := by rw [(Ed.core_eq hc2).2.2.1]; exact hs
    refine wp_nextCmd_emacs_changes S U cfg hvi (fun cmd s3 h3 => ?_)
    have hs3 : SubLog S U c0 s3.changes := by
      rcases h3 with h3 | h3
      · rw [h3]; exact hs2
      · rw [h3]; exact hs2.begin
    rw [wp_lowerMark, Nat.min_eq_left (Nat.le_of_lt hs3.facts.1)]
    have hds : ∀ (sb : Text) (hi hi0 : Nat) (d : Dir),
        wp (match (memHist cfg).search sb hi d with
            | some (idx, entry, pos) => do
              lb S U (LB.update S U entry pos)
              searchLoop S U cfg c0.undos.length backup backupPos fuel sb idx d true
            | none => searchLoop S U cfg c0.undos.length backup backupPos fuel sb hi0 d false)
          (LogAs c0) (fun _ _ => True) s3 := by
      intro sb hi hi0 d
      cases (memHist cfg).search sb hi d with
      | none => exact ih _ _ _ _ s3 hs3
      | some r =>
        obtain ⟨idx, entry, pos⟩ := r
        simp only [wp_bind]
        refine wp_lb_any S U (fun a l ns h => ?_) trivial
        exact ih _ _ _ _ _ (hs3.notifs ns)
    split
    · exact hds _ _ _ _
    · exact ih _ _ _ _ s3 hs3
    · split
      · exact hds _ _ _ _
      · exact ih _ _ _ _ s3 hs3
    · split
      · exact hds _ _ _ _
      · exact ih _ _ _ _ s3 hs3
    · simp only [wp_bind]
      refine wp_lb_any S U (fun a l ns h => ?_) trivial
      refine wp_refreshLine S U cfg (fun s4 hc4 => ?_) (fun _ _ _ => trivial)
      simp only [truncateChanges, wp_modify, wp_pure]
      have hs4 : SubLog S U c0 s4.changes := by rw [(Ed.core_eq hc4).2.2.1]; exact hs3.notifs ns
      exact logAs_truncate S U hs4
    · simp only [wp_bind]
      refine wp_refreshLine S U cfg (fun s4 hc4 => ?_) (fun _ _ _ => trivial)
      simp only [wp_changesEnd, wp_pure]
      intro h; cases h

/-- circular completion, emacs mode: the same -/
theorem completeCircular_log (hvi : cfg.vi = false) (c0 : Changeset) (start : Nat) (cands : List Text)
    (backup : Text) (backupPos : Nat) :
    ∀ (fuel i : Nat) (s : Ed), SubLog S U c0 s.changes →
      wp (completeCircular S U cfg start cands c0.undos.length backup backupPos fuel i) (LogAs c0) (fun _ _ => True) s := by
  intro fuel
  induction fuel with
  | zero => intro i s _; unfold completeCircular; exact trivial
  | succ fuel ih =>
    intro i s hs
    unfold completeCircular
    have rest : ∀ s1 : Ed, SubLog S U c0 s1.changes →
        wp (do
          refreshLine S U cfg
          let cmd ← nextCmd S U cfg fuel true true
          let mark ← lowerMark c0.undos.length
          match cmd with
          | .complete => completeCircular S U cfg start cands mark backup backupPos fuel (compNext cands.length i)
          | .completeBackward => completeCircular S U cfg start cands mark backup backupPos fuel (compPrev cands.length i)
          | .abort => do
            if i < cands.length then do
              lb S U (LB.update S U backup backupPos)
              refreshLine S U cfg
            truncateChanges mark
            pure none
          | _ => do
            let _ ← changesEnd
            pure (some cmd)) (LogAs c0) (fun _ _ => True) s1 := by
      intro s1 hs1
      simp only [wp_bind]
      refine wp_refreshLine S U cfg (fun s2 hc2 => ?_) (fun _ _ _ => trivial)
      have hs2 : SubLog S U c0 s2.changes := by rw [(Ed.core_eq hc2).2.2.1]; exact hs1
      refine wp_nextCmd_emacs_changes S U cfg hvi (fun cmd s3 h3 => ?_)
      have hs3 : SubLog S U c0 s3.changes := by
        rcases h3 with h3 | h3
        · rw [h3]; exact hs2
        · rw [h3]; exact hs2.begin
      rw [wp_lowerMark, Nat.min_eq_left (Nat.le_of_lt hs3.facts.1)]
      split
      · exact ih _ s3 hs3
      · exact ih _ s3 hs3
      · split
        · simp only [wp_bind]
          refine wp_lb_any S U (fun a l ns h => ?_) trivial
          refine wp_refreshLine S U cfg (fun s4 hc4 => ?_) (fun _ _ _ => trivial)
          simp only [truncateChanges, wp_modify, wp_pure]
          have hs4 : SubLog S U c0 s4.changes := by rw [(Ed.core_eq hc4).2.2.1]; exact hs3.notifs ns
          exact logAs_truncate S U hs4
        · simp only [wp_pure, wp_bind, truncateChanges, wp_modify]
          exact logAs_truncate S U hs3
      · simp only [wp_bind, wp_changesEnd, wp_pure]
        intro h; cases h
    simp only []
    by_cases hlt : i < cands.length
    · rw [if_pos hlt]
      have hci : cands[i]? = some cands[i] := by simp [hlt]
      rw [hci]
      simp only [wp_bind, wp_getLine]
      refine wp_lb_any S U (fun a l ns h => ?_) trivial
      have t := rest { s with line := l, changes := s.changes.onNotifs S U.alnum ns } (hs.notifs ns)
      simp only [wp_bind] at t ⊢
      exact t
    · rw [if_neg hlt]
      simp only [wp_bind]
      refine wp_lb_any S U (fun a l ns h => ?_) trivial
      have t := rest { s with line := l, changes := s.changes.onNotifs S U.alnum ns } (hs.notifs ns)
      simp only [wp_bind] at t ⊢
      exact t

theorem reverseIncrementalSearch_log (hvi : cfg.vi = false) (fuel : Nat) (s : Ed) :
    wp (reverseIncrementalSearch S U cfg fuel) (LogAs s.changes) (fun _ _ => True) s := by
  unfold reverseIncrementalSearch
  split
  · rw [wp_pure]; exact fun _ => ⟨rfl, rfl⟩
  · simp only [wp_bind, wp_changesBegin, wp_getLine]
    exact searchLoop_log S U cfg hvi s.changes _ _ fuel _ _ _ _ _ (SubLog.start S U s.changes)

theorem completeLine_log (hvi : cfg.vi = false) (hl : cfg.listCompletion = false) (fuel : Nat) (s : Ed) :
    wp (completeLine S U cfg fuel) (LogAs s.changes) (fun _ _ => True) s := by
  unfold completeLine
  simp only [wp_bind, wp_getLine, hl, Bool.not_false, if_true]
  split
  · rw [wp_pure]; exact fun _ => ⟨rfl, rfl⟩
  · simp only [wp_bind, wp_changesBegin]
    exact completeCircular_log S U cfg hvi s.changes _ _ _ _ fuel 0 _ (SubLog.start S U s.changes)

end

/-- **Abort transparency, emacs mode.**  For EVERY key sequence typed inside it, an incremental search
    that is aborted, or a circular completion that is aborted (or finds no candidate), hands back
    `None` with the undo log — stack and group level — exactly as it was when the command started.
    (`next_cmd` leaves the log alone in emacs mode, or opens one group for a bound `Replace`; the
    sub-loop's log is `begin` of the log before plus notifications and nested begins; its mark never
    sinks (`lowerMark`); `C05_truncate_restores`.)  That the line and the cursor are the backed-up ones
    is `searchLoop_abort` / `completeCircular_abort` (C08, C14). -/
theorem C05_abort_transparent_emacs (S : Segmenter) (U : UData) (cfg : EdCfg) (hvi : cfg.vi = false)
    (s s' : Ed) (fuel : Nat)
    (h : reverseIncrementalSearch S U cfg fuel s = .ok (none, s') ∨
         (completeLine S U cfg fuel s = .ok (none, s') ∧ cfg.listCompletion = false)) :
    s'.changes.undos = s.changes.undos ∧ s'.changes.level = s.changes.level := by
  rcases h with h | ⟨h, hl⟩
  · have w := reverseIncrementalSearch_log S U cfg hvi fuel s
    unfold wp at w
    rw [h] at w
    exact w rfl
  · have w := completeLine_log S U cfg hvi hl fuel s
    unfold wp at w
    rw [h] at w
    exact w rfl

/-! ### D47 (repaired): regression examples -/


/-- witness data: one cluster per character, width 1, vi mode, one history entry -/
def C05_wit_seg : Segmenter where
  seg t := t.map fun c => [c]
  flatten_eq t := by induction t with
    | nil => rfl
    | cons c t ih => simp [ih]
  ne_nil t g h := by
    simp only [List.mem_map] at h
    obtain ⟨c, _, rfl⟩ := h
    exact List.cons_ne_nil _ _

def C05_wit_udata : UData :=
  { alnum := Char.isAlphanum, ws := Char.isWhitespace, upper := fun c => [c], lower := fun c => [c],
    width := List.length }

def C05_wit_cfg : EdCfg := { vi := true, hist := [['a']] }

/-- vi insert mode, line "xy", the undo group of the insert mode open (`[Begin]`, level 1); pending
    input: Alt-X (leaves insert mode, then `X`), Ctrl-G -/
def C05_wit_state : Ed :=
  { line := { buf := ['x', 'y'], pos := 0, cap := 8, canGrow := true },
    saved := { buf := [], pos := 0, cap := 8, canGrow := true },
    changes := { level := 1, undos := [.begin], redos := [] }, ring := KillRing.new 60, histIdx := 1,
    inp := {}, hint := none, highlightChar := false, defaultPrompt := true,
    input := { buf := [], avail := [], future := [[0x1b, 0x58], [0x07]] }, obs := [], validatorCalls := [] }

/-- **D47 regression (model of the repaired code).** An incremental search in vi insert mode during
    which Alt-X is typed (it leaves insert mode: `changes.end()` closes the search's own group AND the
    insert-mode group below the search's mark) and which is then aborted: the abort returns `None`,
    the line is as before ("xy") and NOTHING of the search is left in the undo log — the mark follows
    the lowest height the stack reached (`lowerMark`), so `truncate` also drops the two entries that
    restoring the backup pushed.  (Before the repair `[Delete(0, "xy")]` stayed and the next Undo gave
    "xyxy".)  The insert session's `Begin` is gone because the session WAS left: in vi mode the log
    after an abort is the log before it minus the open `Begin`s that leaving insert mode closed. -/
theorem C05_vi_abort_closes_session :
    (reverseIncrementalSearch C05_wit_seg C05_wit_udata C05_wit_cfg 4 C05_wit_state).toOption.map
      (fun r => (r.1.isNone, r.2.line.buf, r.2.changes.undos, r.2.changes.level)) =
    some (true, ['x', 'y'], [], 0) := by decide +kernel

/-- **`C05_abort_transparent_statement` as written is false in vi mode** — for a benign reason (witness
    above): the insert session's open `Begin` is gone after the abort because a key inside the search
    LEFT insert mode.  The emacs clause is `C05_abort_transparent_emacs`. -/
theorem C05_abort_transparent_vi_false : ¬ C05_abort_transparent_statement := by
  intro h
  have w := C05_vi_abort_closes_session
  cases hr : reverseIncrementalSearch C05_wit_seg C05_wit_udata C05_wit_cfg 4 C05_wit_state with
  | error e => rw [hr] at w; cases w
  | ok r =>
    obtain ⟨o, s'⟩ := r
    rw [hr] at w
    simp only [Except.toOption, Option.map, Option.some.injEq, Prod.mk.injEq] at w
    obtain ⟨ho, _, hu, _⟩ := w
    cases o with
    | some c => cases ho
    | none =>
      have h2 := (h C05_wit_seg C05_wit_udata C05_wit_cfg C05_wit_state s' 4 (Or.inl hr)).2.1
      rw [hu] at h2
      cases h2

/-- **D47 regression, a whole read**: initial text "xy"; Alt-i, Ctrl-R, Alt-X, Ctrl-G, `u`, Enter.  The
    Undo now does what it does without the search in between (`Alt-i u`): it takes back the initial
    text, the only thing in the log. -/
example :
    (readline C05_wit_seg C05_wit_udata C05_wit_cfg (KillRing.new 60) [] ['x', 'y']
      { buf := [], avail := [], future := [[0x1b, 0x69], [0x12], [0x1b, 0x58], [0x07], [0x75], [0x0d]] }).1
      = .line [] := by decide +kernel

/-! ### D22: behaviour the check deliberately does not judge -/

/-- **D22 witness.** A yank of "ab" (one `insert_str` notification) followed by typing the
    alphanumeric `x` right behind it leaves ONE `Insert` on the stack: `Changeset::insert` merges a
    typed alphanumeric into any preceding `Insert`, so a single Undo removes the yank and the typed
    character together (DESIGN.md 7.1, D22). -/
theorem C05_D22_witness :
    (Changeset.new.onNotifs charSeg Char.isAlphanum [.insStr 0 ['a', 'b'], .insChar 2 'x']).undos =
      [.insert 0 ['a', 'b', 'x']] := by decide

/-! ### non-vacuity -/

/-- the hypotheses of `C05_log_replay` are satisfiable with merging going on: typing "ab", deleting
    "b" then "a" with Backspace -/
example : replayNotifs [.insChar 0 'a', .insChar 1 'b', .del 1 ['b'] .backward, .del 0 ['a'] .backward] [] = some [] ∧
    (Changeset.new.onNotifs charSeg Char.isAlphanum
      [.insChar 0 'a', .insChar 1 'b', .del 1 ['b'] .backward, .del 0 ['a'] .backward]).undos =
      [.delete 0 ['a', 'b'], .insert 0 ['a', 'b']] := by decide

/-- a group is a unit -/
example : UndoUnit [.end_, .insert 1 ['b'], .delete 0 ['a'], .begin] :=
  .group [.insert 1 ['b'], .delete 0 ['a']] (.change _ _ rfl (.change _ _ rfl .nil))

/-- `Balanced` excludes something: an `End` without `Begin` -/
example : ¬ Balanced { level := 0, undos := [.end_], redos := [] } := by simp [Balanced, depth]

/-- truncate after an aborted group on a concrete log, with a nested begin -/
example : ((((Changeset.new.insertStr 0 ['a']).begin.1.insertStr 1 ['b']).begin.1).truncate 1) =
    { level := 0, undos := [.insert 0 ['a']], redos := [] } := by decide

/-! ### the bottom of the log inside a sub-loop — vi mode included (finding D49) -/

/-- **The group markers keep the bottom of the log.**  `BotGood bk m us`: the bottom `m` entries of the
    stack `us` replay some text to a PREFIX of `bk` (the line backed up when a sub-loop started; `m` its
    mark).  `begin`, `end` (which in vi mode may POP `Begin`s below the mark: a key that leaves insert mode
    closes every group) and the mark update `mark.min(len)` after `next_cmd` keep it, for every stack, level
    and mark. -/
theorem C05_markers_keep_bottom (bk : Text) (m : Nat) (c : Changeset) (h : BotGood bk m c.undos) :
    BotGood bk m c.begin.1.undos ∧ BotGood bk m c.end_.1.undos ∧ BotGood bk (min m c.undos.length) c.undos :=
  ⟨(botGood_marker (x := .begin) rfl c.undos).mpr h, botGood_endLoop c.level c.undos false h, botGood_min.mpr h⟩

/-- **`update` keeps the bottom of the log** (the incremental search shows an entry / restores the line with
    `update`, which reports `Delete(0, old)` and `Insert(0, new)`): if the stack replays `t0` to the line
    `old`, the mark `m` is within the stack and the bottom `m` entries replay to a prefix of `bk`, then the
    same holds after the listener has processed `update`'s notifications — INCLUDING the case where the
    `Delete` is merged into a `Delete` on top of the bottom part (nothing above the mark, `old` one
    alphanumeric cluster: finding D49); the bottom then replays to the empty text. -/
theorem C05_update_keeps_bottom (S : Segmenter) (alnum : Char → Bool) (bk : Text) (m : Nat) (c : Changeset)
    (old new t0 : Text) (hA : replayLog c.undos.reverse t0 = some old) (hm : m ≤ c.undos.length)
    (hB : BotGood bk m c.undos) :
    m ≤ (c.onNotifs S alnum (updNotifs old new)).undos.length ∧
      BotGood bk m (c.onNotifs S alnum (updNotifs old new)).undos :=
  botGood_update S alnum c old new t0 hA hm hB

/-- **What an abort's cut leaves replays to a prefix of the backed-up line** — `truncate(mark)` as the abort
    paths call it (with the re-closing of groups when every group was closed), for every stack and level:
    if the bottom `m` entries replay some text to a prefix of `bk`, so does the log after the cut.  (In emacs
    mode the log after the cut IS the log before the loop — `C05_abort_transparent_emacs`; in vi mode that is
    false — `C05_abort_transparent_vi_false`, D49 — and this is what remains true.) -/
theorem C05_abort_cut_replays_prefix (bk : Text) (m : Nat) (c : Changeset) (h : BotGood bk m c.undos) :
    ∃ t0 p w, replayLog (c.truncateClosed m).undos.reverse t0 = some p ∧ bk = p ++ w := by
  obtain ⟨t0, p, w, hr, hb⟩ := h
  refine ⟨t0, p, w, ?_, hb⟩
  unfold Changeset.truncateClosed
  split
  · exact (C05_log_markers (c.truncate m) t0 p hr).2
  · exact hr

/-- **Inside the circular completion nothing below the loop's `Begin` is touched** — `AboveNB base us`: the
    stack is `above ++ Begin :: base` and `above` has an entry that is not a `Begin` (the loop logs its first
    `replace` before it reads a key).  `begin`, `end` (in vi mode it cannot reach the loop's `Begin`: it pushes
    `End` on the first entry that is not a `Begin`) and every sequence of listener notifications keep it, and
    the part below the mark `base.length` is `base` itself. -/
theorem C05_completion_keeps_base (S : Segmenter) (alnum : Char → Bool) (base : List Change) (c : Changeset)
    (ns : List Notif) (h : AboveNB base c.undos) :
    AboveNB base c.begin.1.undos ∧ AboveNB base c.end_.1.undos ∧ AboveNB base (c.onNotifs S alnum ns).undos ∧
      base.length < c.undos.length ∧ c.undos.drop (c.undos.length - base.length) = base := by
  refine ⟨?_, ?_, aboveNB_onNotifs S alnum ns c h, aboveNB_facts h⟩
  · obtain ⟨above, hu, x, hx, hne⟩ := h
    exact ⟨.begin :: above, by show Change.begin :: c.undos = _; rw [hu]; rfl, x, List.mem_cons_of_mem _ hx, hne⟩
  · obtain ⟨above, hu, hnb⟩ := h
    show AboveNB base (Changeset.endLoop c.level c.undos false).1
    rw [hu]; exact aboveNB_endLoop _ _ _ hnb

/-- **D49 at the level of the log** (witness, and non-vacuity of `C05_update_keeps_bottom` in its merge
    case): the log `[Delete(1,"y"), Insert(0,"xy")]` with the line "x" and the mark 2 at the top of the log
    (the search's `Begin` was popped); `update("a")` merges its `Delete(0,"x")` into the entry below the mark;
    the two bottom entries then replay "" to "" — a proper prefix of the backed-up line "x" — and an abort
    that cuts back to the mark keeps the merged entry. -/
theorem C05_D49_log_witness :
    (({ level := 0, undos := [.delete 1 ['y'], .insert 0 ['x', 'y']], redos := [] } : Changeset).onNotifs
        charSeg (fun _ => true) (updNotifs ['x'] ['a'])).undos
      = [.insert 0 ['a'], .delete 0 ['x', 'y'], .insert 0 ['x', 'y']] ∧
    replayLog ([Change.delete 0 ['x', 'y'], .insert 0 ['x', 'y']] : List Change).reverse [] = some [] := by
  decide

/-- non-vacuity of `BotGood` / `AboveNB`: the state of a completion loop right after its first `replace` -/
example : AboveNB [.insert 0 ['a']] [.replace 0 ['a'] ['a', 'b'], .begin, .insert 0 ['a']] ∧
    BotGood ['a'] 1 [.replace 0 ['a'] ['a', 'b'], .begin, .insert 0 ['a']] :=
  ⟨⟨[.replace 0 ['a'] ['a', 'b']], rfl, _, List.mem_cons_self, (by intro h; cases h)⟩,
   ⟨[], ['a'], [], (by decide), rfl⟩⟩


/-! ### repeated Undo reaches the start of the read — for every sequence of log operations -/

/-- `Changeset::undo(line, n)` requested `k` times in a row (each time with the repeat count `n`) -/
def C05_undoIter (S : Segmenter) (U : UData) (n : Nat) : Nat → Changeset → LB → Except Panic (Changeset × LB)
  | 0, c, lb => .ok (c, lb)
  | k + 1, c, lb =>
    match c.undo S U lb n with
    | .ok (c', lb', _) => C05_undoIter S U n k c' lb'
    | .error e => .error e

/-- **Repeating Undo restores the text the log started from.**  If the stack is an exact log from `t0` to
    the text of the line (any markers, any open groups, any level), then requesting Undo `k` times in a
    row — with ANY repeat count `n`, and any `k` at least the height of the stack — never panics, empties
    the stack and leaves the line holding exactly `t0` (the empty line for a read: pre-filled initial text
    is the first recorded insertion).  This is the iteration of `C05_undo_to_empty`, which is about one
    request. -/
theorem C05_repeated_undo_reaches_start (S : Segmenter) (U : UData) (n : Nat) (t0 : Text) :
    ∀ (k : Nat) (c : Changeset) (lb : LB), replayLog c.undos.reverse t0 = some lb.buf → c.undos.length ≤ k →
      ∃ c' lb', C05_undoIter S U n k c lb = .ok (c', lb') ∧ c'.undos = [] ∧ lb'.buf = t0 := by
  intro k
  induction k with
  | zero =>
    intro c lb hlog hk
    have hnil : c.undos = [] := List.length_eq_zero_iff.mp (Nat.le_zero.mp hk)
    refine ⟨c, lb, rfl, hnil, ?_⟩
    rw [hnil] at hlog
    simpa [replayLog] using hlog.symm
  | succ k ih =>
    intro c lb hlog hk
    obtain ⟨c', lb', undone, h1, h2, p, hp, _, hne⟩ := C05_undo_past_text S U c lb n t0 hlog
    have hlen : c'.undos.length ≤ k := by
      by_cases hnil : c.undos = []
      · rw [hnil] at hp
        have : c'.undos = [] := (List.append_eq_nil_iff.mp hp.symm).2
        rw [this]; exact Nat.zero_le _
      · have hp0 : 0 < p.length := List.length_pos_iff.mpr (hne hnil)
        have : c.undos.length = p.length + c'.undos.length := by rw [hp, List.length_append]
        omega
    obtain ⟨c'', lb'', h3, h4, h5⟩ := ih c' lb' h2 hlen
    refine ⟨c'', lb'', ?_, h4, h5⟩
    simp only [C05_undoIter, h1]
    exact h3

/-- the states of (undo log, line) a read can be in, at the level of the log: it starts with the fresh log
    and the empty line; a line-buffer call reports notifications `ns` whose replay takes the old text to the
    new one (`ns = []`: cursor motion; `C05_primitives_faithful`, C03) and the listener records them; a
    compound command opens a group or closes all groups; Undo is requested with any repeat count — at ANY
    point, also inside open groups, and any number of times -/
inductive C05_LogReach (S : Segmenter) (U : UData) : Changeset → LB → Prop
  | start (lb : LB) : lb.buf = [] → C05_LogReach S U Changeset.new lb
  | edit {c : Changeset} {lb : LB} (ns : List Notif) (lb' : LB) : C05_LogReach S U c lb →
      replayNotifs ns lb.buf = some lb'.buf → C05_LogReach S U (c.onNotifs S U.alnum ns) lb'
  | begin {c : Changeset} {lb : LB} : C05_LogReach S U c lb → C05_LogReach S U c.begin.1 lb
  | end_ {c : Changeset} {lb : LB} : C05_LogReach S U c lb → C05_LogReach S U c.end_.1 lb
  | undo {c : Changeset} {lb : LB} (n : Nat) (c' : Changeset) (lb' : LB) (u : Bool) : C05_LogReach S U c lb →
      c.undo S U lb n = .ok (c', lb', u) → C05_LogReach S U c' lb'

/-- **Every reachable log is an exact, balanced log from the empty line.**  After ANY sequence of faithful
    edits, group begins, group ends and Undo requests (every repeat count, at every point of the sequence)
    starting from the fresh log and the empty line: replaying the stack oldest change first from the EMPTY
    text gives the text of the line, and `level` is the number of unmatched `Begin`s with every `End`
    matched. -/
theorem C05_reachable_log_exact (S : Segmenter) (U : UData) (c : Changeset) (lb : LB) (h : C05_LogReach S U c lb) :
    replayLog c.undos.reverse [] = some lb.buf ∧ Balanced c := by
  induction h with
  | start lb hb => exact ⟨by rw [hb]; rfl, rfl⟩
  | edit ns lb' _ hns ih =>
    exact ⟨C05_log_replay S U.alnum _ ns [] _ _ ih.1 hns, (C05_balanced S U.alnum _ ih.2).2.2.1 ns⟩
  | begin _ ih => exact ⟨(C05_log_markers _ [] _ ih.1).1, (C05_balanced S U.alnum _ ih.2).2.1⟩
  | end_ _ ih => exact ⟨(C05_log_markers _ [] _ ih.1).2, (C05_balanced S U.alnum _ ih.2).2.2.2.1.1⟩
  | undo n c' lb' u _ hu ih =>
    refine ⟨?_, C05_undo_balanced S U _ ih.2 _ n c' lb' u hu⟩
    obtain ⟨c2, lb2, u2, h1, h2, _⟩ := C05_undo_past_text S U _ _ n [] ih.1
    rw [hu] at h1
    simp only [Except.ok.injEq, Prod.mk.injEq] at h1
    obtain ⟨rfl, rfl, _⟩ := h1
    exact h2

/-- **From every reachable state, Undo never panics and repeated Undo restores the empty line.**  For every
    state reached by any sequence of faithful edits, group begins/ends and Undo requests: (1) an Undo with
    any repeat count `n` succeeds, pops a non-empty top part of the stack when there is one, and leaves a
    reachable state whose line is the replay of the remaining log from the empty text — a text the line had
    earlier in the read; (2) requesting Undo as many times as the stack is high (any repeat count) empties
    the stack and leaves the EMPTY line the read started from. -/
theorem C05_reachable_undo_to_empty (S : Segmenter) (U : UData) (c : Changeset) (lb : LB)
    (h : C05_LogReach S U c lb) (n : Nat) :
    (∃ c' lb' u, c.undo S U lb n = .ok (c', lb', u) ∧ C05_LogReach S U c' lb' ∧
      replayLog c'.undos.reverse [] = some lb'.buf ∧
      ∃ p, c.undos = p ++ c'.undos ∧ (c.undos ≠ [] → p ≠ [])) ∧
    (∃ c' lb', C05_undoIter S U n c.undos.length c lb = .ok (c', lb') ∧ c'.undos = [] ∧ lb'.buf = []) := by
  have hl := (C05_reachable_log_exact S U c lb h).1
  constructor
  · obtain ⟨c', lb', u, h1, h2, p, hp, _, hne⟩ := C05_undo_past_text S U c lb n [] hl
    exact ⟨c', lb', u, h1, .undo n c' lb' u h h1, h2, p, hp, hne⟩
  · exact C05_repeated_undo_reaches_start S U n [] _ c lb hl (Nat.le_refl _)

/-- non-vacuity: a reachable state with an open group, a merged insertion and an Undo taken inside the
    group — type "ab" (merged), open a group, delete "b" — and the hypotheses of
    `C05_repeated_undo_reaches_start` on it -/
example : C05_LogReach charSeg C05_wit_udata
    { level := 1, undos := [.delete 1 ['b'], .begin, .insert 0 ['a', 'b']], redos := [] }
    { buf := ['a'], pos := 1, cap := 8, canGrow := true } :=
  .edit (c := (Changeset.new.onNotifs charSeg C05_wit_udata.alnum [.insChar 0 'a', .insChar 1 'b']).begin.1)
    (lb := { buf := ['a', 'b'], pos := 2, cap := 8, canGrow := true }) [.del 1 ['b'] .backward] _
    (.begin (.edit (lb := { buf := [], pos := 0, cap := 8, canGrow := true }) [.insChar 0 'a', .insChar 1 'b'] _
      (.start _ rfl) (by decide))) (by decide)

/-! ### with no group open, one Undo takes back exactly the most recent unit -/

/-- **A balanced stack with no open group is a sequence of undo units**: if `level = 0`, the markers are
    balanced (`Balanced`, an invariant of all log operations) and the stack is not empty, then its top is
    one undo unit — the most recent single change, or the most recent complete `Begin … End` group with a
    well-nested inside — and what is below is again a stack without unmatched markers. -/
theorem C05_closed_stack_top_unit (c : Changeset) (hb : Balanced c) (h0 : c.level = 0) (hne : c.undos ≠ []) :
    ∃ u rest, c.undos = u ++ rest ∧ UndoUnit u ∧ depth rest = some 0 := by
  have hd : depth c.undos = some 0 := by rw [← h0]; exact hb
  have hn := nested_of_depth_zero hd
  generalize c.undos = us at hn hne
  cases hn with
  | nil => exact absurd rfl hne
  | change ch l hm hl => exact ⟨[ch], l, rfl, .change ch hm, depth_of_nested hl⟩
  | group a b ha hb' => exact ⟨.end_ :: a ++ [.begin], b, by simp, .group a ha, depth_of_nested hb'⟩

/-- **One Undo = exactly the most recent unit, on the model's own `Changeset.undo`.**  If the stack is an
    exact log from `t0` to the line, the markers are balanced, no group is open and the stack is not
    empty, then `undo(line, 1)` does not panic, pops EXACTLY the top unit `u` (one change — which may be a
    merged run of single alphanumeric insertions/deletions — or one complete group), pushes it on the redo
    stack, and leaves the line at the replay of the rest of the log from `t0`: the text the line had
    right before the first change of that unit was recorded.  It never goes past that state.  (The
    hypotheses hold in every `C05_LogReach` state with level 0: `C05_reachable_log_exact`.) -/
theorem C05_undo_one_pops_top_unit (S : Segmenter) (U : UData) (c : Changeset) (lb : LB) (t0 : Text)
    (hlog : replayLog c.undos.reverse t0 = some lb.buf) (hb : Balanced c) (h0 : c.level = 0)
    (hne : c.undos ≠ []) :
    ∃ u rest lb' lvl, c.undos = u ++ rest ∧ UndoUnit u ∧
      c.undo S U lb 1 = .ok ({ level := lvl, undos := rest, redos := u.reverse ++ c.redos }, lb',
        u.any (fun ch => !ch.isMarker)) ∧
      replayLog rest.reverse t0 = some lb'.buf := by
  obtain ⟨u, rest, hu, hunit, _⟩ := C05_closed_stack_top_unit c hb h0 hne
  rw [hu] at hlog
  obtain ⟨lb', h1, h2⟩ := undoAll_replay S U u rest t0 lb.buf lb hlog rfl
  obtain ⟨lvl, h3⟩ := C05_undo_unit_model S U u rest c.redos hunit lb lb' c.level h1
  refine ⟨u, rest, lb', lvl, hu, hunit, ?_, h2⟩
  simp only [Changeset.undo, hu, h3]

/-- non-vacuity of `C05_undo_one_pops_top_unit`: a closed group on top of a merged insertion -/
example : replayLog ([.end_, .delete 1 ['b'], .begin, .insert 0 ['a', 'b']] : List Change).reverse [] = some ['a'] ∧
    Balanced { level := 0, undos := [.end_, .delete 1 ['b'], .begin, .insert 0 ['a', 'b']], redos := [] } :=
  ⟨by decide, by simp [Balanced, depth]⟩

/-! ### Undo with a repeat count takes back exactly that many units -/

/-- **Counted Undo, abstract step.**  With the stack `u₁ ++ … ++ u_k ++ rest` (each `u_i` one undo unit,
    `k ≥ 1`), the loop of `Changeset::undo` at depth 0 with `count` units already done, where either
    exactly `k` more units are requested (`count + k = n`) or more are requested than there are and nothing
    lies below (`rest = []`): the loop pops exactly these `k` units — no more, no fewer —, pushes them on
    the redo stack and has applied the undo steps of exactly their changes, most recent first. -/
theorem C05_undo_count_units {σ : Type} (step : Change → σ → Except Panic σ) (n : Nat)
    (units : List (List Change)) (hall : ∀ u ∈ units, UndoUnit u) (rest : List Change) :
    ∀ (redos : List Change) (s s' : σ) (count : Nat) (undone : Bool),
      undoAll step units.flatten s = .ok s' → units ≠ [] →
      (count + units.length = n ∨ (count + units.length < n ∧ rest = [])) →
      ∃ ud, undoLoopG step n (units.flatten ++ rest) redos s 0 count undone =
        .ok (rest, units.flatten.reverse ++ redos, s', ud) := by
  induction units with
  | nil => intro _ _ _ _ _ _ hne; exact absurd rfl hne
  | cons u us ih =>
    intro redos s s' count undone hs _ hc
    simp only [List.flatten_cons] at hs ⊢
    obtain ⟨s1, h1, h2⟩ := (undoAll_append_iff step u us.flatten s s').mp hs
    rw [List.append_assoc, C05_undo_unit step n u (us.flatten ++ rest) redos (hall u List.mem_cons_self)
      s s1 count undone h1]
    by_cases hus : us = []
    · subst hus
      simp only [List.flatten_nil, undoAll, Except.ok.injEq] at h2
      subst h2
      simp only [List.length_cons, List.length_nil, Nat.zero_add] at hc
      simp only [List.flatten_nil, List.nil_append, List.append_nil]
      rcases hc with hc | ⟨hc, hr⟩
      · rw [if_pos (by omega)]; exact ⟨_, rfl⟩
      · rw [if_neg (by omega), hr]; exact ⟨_, rfl⟩
    · have hpos : 0 < us.length := List.length_pos_iff.mpr hus
      simp only [List.length_cons] at hc
      rw [if_neg (by omega)]
      obtain ⟨ud, hud⟩ := ih (fun u hu => hall u (List.mem_cons_of_mem _ hu)) (u.reverse ++ redos) s1 s'
        (count + 1) (undone || u.any (fun c => !c.isMarker)) h2 hus
        (by rcases hc with hc | ⟨hc, hr⟩
            · left; omega
            · right; exact ⟨by omega, hr⟩)
      exact ⟨ud, by rw [hud, List.reverse_append, List.append_assoc]⟩

/-- a stack without unmatched markers is a sequence of undo units, most recent first -/
theorem C05_closed_stack_units : ∀ (k : Nat) (us : List Change), us.length ≤ k → depth us = some 0 →
    ∃ units : List (List Change), us = units.flatten ∧ ∀ u ∈ units, UndoUnit u := by
  intro k
  induction k with
  | zero =>
    intro us hk _
    have : us = [] := List.length_eq_zero_iff.mp (Nat.le_zero.mp hk)
    exact ⟨[], by simp [this], by simp⟩
  | succ k ih =>
    intro us hk hd
    by_cases hne : us = []
    · exact ⟨[], by simp [hne], by simp⟩
    · obtain ⟨u, rest, hu, hunit, hdr⟩ :=
        C05_closed_stack_top_unit { level := 0, undos := us, redos := [] } hd rfl hne
      have hul : 0 < u.length := by cases hunit <;> simp
      have hlen : rest.length ≤ k := by
        have : us.length = u.length + rest.length := by
          show ({ level := 0, undos := us, redos := [] } : Changeset).undos.length = _
          rw [hu, List.length_append]
        omega
      obtain ⟨units, hf, hall⟩ := ih rest hlen hdr
      refine ⟨u :: units, ?_, ?_⟩
      · show ({ level := 0, undos := us, redos := [] } : Changeset).undos = _
        rw [hu, hf]; rfl
      · intro x hx
        rcases List.mem_cons.mp hx with rfl | hx
        · exact hunit
        · exact hall x hx

/-- **Undo with repeat count `n` takes back exactly `n` units** (all of them when there are fewer), on the
    model's own `Changeset.undo`.  If the stack is an exact log from `t0` to the line, the markers are
    balanced and no group is open, then the stack is a sequence `units` of undo units (most recent first;
    a unit is one change — possibly a merged run of single-character edits — or one complete group), and
    for EVERY repeat count `n ≥ 1` the call `undo(line, n)` does not panic, pops exactly the first `n`
    units (everything when `n` exceeds their number), pushes them on the redo stack, and leaves the line
    at the replay of the remaining log from `t0` — the text the line had before the oldest of these `n`
    units was recorded.  So a counted Undo is never coarser and never finer than `n` single Undos
    (`C05_undo_one_pops_top_unit` is the case `n = 1`). -/
theorem C05_undo_n_pops_n_units (S : Segmenter) (U : UData) (c : Changeset) (lb : LB) (t0 : Text)
    (hlog : replayLog c.undos.reverse t0 = some lb.buf) (hb : Balanced c) (h0 : c.level = 0)
    (hne : c.undos ≠ []) :
    ∃ units : List (List Change), c.undos = units.flatten ∧ (∀ u ∈ units, UndoUnit u) ∧
      ∀ n, 1 ≤ n → ∃ lb' lvl ud,
        c.undo S U lb n = .ok (⟨lvl, (units.drop n).flatten, (units.take n).flatten.reverse ++ c.redos⟩, lb', ud) ∧
        replayLog (units.drop n).flatten.reverse t0 = some lb'.buf := by
  have hd : depth c.undos = some 0 := by rw [← h0]; exact hb
  obtain ⟨units, hf, hall⟩ := C05_closed_stack_units _ c.undos (Nat.le_refl _) hd
  refine ⟨units, hf, hall, ?_⟩
  intro n hn
  have hune : units ≠ [] := by
    intro h; rw [h] at hf; exact hne (by simpa using hf)
  have hsplit : c.undos = (units.take n).flatten ++ (units.drop n).flatten := by
    rw [← List.flatten_append, List.take_append_drop]; exact hf
  rw [hsplit] at hlog
  obtain ⟨lb', h1, h2⟩ := undoAll_replay S U _ _ t0 lb.buf lb hlog rfl
  have htne : units.take n ≠ [] := by
    cases units with
    | nil => exact absurd rfl hune
    | cons u us => cases n with
      | zero => omega
      | succ m => simp
  have hc : 0 + (units.take n).length = n ∨ (0 + (units.take n).length < n ∧ (units.drop n).flatten = []) := by
    rw [List.length_take]
    by_cases hle : n ≤ units.length
    · left; omega
    · right
      refine ⟨by omega, ?_⟩
      rw [List.drop_of_length_le (by omega)]; rfl
  obtain ⟨ud, h3⟩ := C05_undo_count_units (fun ch lb => ch.undoOn S U lb) n (units.take n)
    (fun u hu => hall u (List.mem_of_mem_take hu)) (units.drop n).flatten c.redos lb lb' 0 false h1 htne hc
  obtain ⟨lvl, h4⟩ := undoLoop_of_G S U n _ _ _ _ _ _ c.level _ h3
  refine ⟨lb', lvl, ud, ?_, h2⟩
  simp only [Changeset.undo, hsplit, h4]

/-! ### one Undo inside an open group (a vi insert session) -/

/-- **One Undo at ANY group level** — also when it is requested inside an open group (vi insert session:
    `level ≥ 1`).  If the stack is an exact log from `t0` to the line, the markers are balanced and the
    stack is not empty, then `undo(line, 1)` does not panic and does exactly one of two things:
    (1) it pops exactly the top undo unit `u` (one change, or one complete group), pushes it on the redo
        stack and leaves the line at the replay of the rest of the log from `t0`; or
    (2) the top of the stack is the `Begin` of a group that is still open with nothing recorded in it yet:
        it pops that marker alone, lowers the level by one and leaves the line untouched (reporting that
        nothing was undone).
    In neither case does it reach below the state that preceded the most recent unit. -/
theorem C05_undo_one_any_level (S : Segmenter) (U : UData) (c : Changeset) (lb : LB) (t0 : Text)
    (hlog : replayLog c.undos.reverse t0 = some lb.buf) (hb : Balanced c) (hne : c.undos ≠ []) :
    (∃ u rest lb' lvl, c.undos = u ++ rest ∧ UndoUnit u ∧
      c.undo S U lb 1 = .ok (⟨lvl, rest, u.reverse ++ c.redos⟩, lb', u.any (fun ch => !ch.isMarker)) ∧
      replayLog rest.reverse t0 = some lb'.buf) ∨
    (∃ rest, c.undos = .begin :: rest ∧ 1 ≤ c.level ∧
      c.undo S U lb 1 = .ok (⟨c.level - 1, rest, .begin :: c.redos⟩, lb, false)) := by
  have unitCase : ∀ u rest, c.undos = u ++ rest → UndoUnit u →
      ∃ u rest lb' lvl, c.undos = u ++ rest ∧ UndoUnit u ∧
        c.undo S U lb 1 = .ok (⟨lvl, rest, u.reverse ++ c.redos⟩, lb', u.any (fun ch => !ch.isMarker)) ∧
        replayLog rest.reverse t0 = some lb'.buf := by
    intro u rest hu hunit
    rw [hu] at hlog
    obtain ⟨lb', h1, h2⟩ := undoAll_replay S U u rest t0 lb.buf lb hlog rfl
    obtain ⟨lvl, h3⟩ := C05_undo_unit_model S U u rest c.redos hunit lb lb' c.level h1
    exact ⟨u, rest, lb', lvl, hu, hunit, by simp only [Changeset.undo, hu, h3], h2⟩
  have key : ∀ (us : List Change) (L : Nat), OpenN L us → c.undos = us → c.level = L →
      (∃ u rest lb' lvl, c.undos = u ++ rest ∧ UndoUnit u ∧
        c.undo S U lb 1 = .ok (⟨lvl, rest, u.reverse ++ c.redos⟩, lb', u.any (fun ch => !ch.isMarker)) ∧
        replayLog rest.reverse t0 = some lb'.buf) ∨
      (∃ rest, c.undos = .begin :: rest ∧ 1 ≤ c.level ∧
        c.undo S U lb 1 = .ok (⟨c.level - 1, rest, .begin :: c.redos⟩, lb, false)) := by
    intro us L ho hus hlv
    cases ho with
    | closed _ hn =>
      cases hn with
      | nil => exact absurd hus hne
      | change ch l hm hl => exact .inl (unitCase [ch] l hus (.change ch hm))
      | group a b ha _ => exact .inl (unitCase (.end_ :: a ++ [.begin]) b (by rw [hus]; simp) (.group a ha))
    | opened d a l ha hl =>
      cases ha with
      | nil =>
        simp only [List.nil_append] at hus
        refine .inr ⟨l, hus, by omega, ?_⟩
        simp [Changeset.undo, Changeset.undoLoop, hus, hlv]
      | change ch l' hm _ => exact .inl (unitCase [ch] (l' ++ .begin :: l) (by rw [hus]; simp) (.change ch hm))
      | group x y hx _ =>
        exact .inl (unitCase (.end_ :: x ++ [.begin]) (y ++ .begin :: l) (by rw [hus]; simp) (.group x hx))
  exact key c.undos c.level (openN_of_depth c.undos c.level hb) rfl rfl

/-- non-vacuity of case (1) inside an open group: vi insert session open, "ab" typed in it -/
example : replayLog ([.insert 0 ['a', 'b'], .begin] : List Change).reverse [] = some ['a', 'b'] ∧
    Balanced { level := 1, undos := [.insert 0 ['a', 'b'], .begin], redos := [] } :=
  ⟨by decide, by simp [Balanced, depth]⟩

/-! ### a counted yank is one undo unit -/

/-- **A yank with a repeat count is taken back by one Undo — all of it and nothing else.**  Whatever is on
    the undo stack `c` (any top entry: `Changeset::insert_str` never merges), a successful
    `LineBuffer::yank(text, n)` with `n ≥ 1` on the line `lb0` — the call the editor makes for `Yank`,
    vi `p`/`P` with a count — adds exactly ONE entry `Insert(cursor, text repeated n times)` on top of the
    stack and leaves the group level alone; and the next `undo(line, 1)` pops exactly that entry, leaves
    the stack as it was before the yank, and restores the text the line had before the yank: neither a
    part of the `n` copies nor anything recorded before them.  (What is typed AFTER the yank may be merged
    into the entry: D22, `C05_D22_witness`.) -/
theorem C05_counted_yank_one_unit (S : Segmenter) (U : UData) (c : Changeset) (lb0 l : LB) (text : Text)
    (n : Nat) (hn : 1 ≤ n) (push : Bool) (ns : List Notif)
    (hy : LB.yank S U text n lb0 = .ok (some push, l, ns)) :
    (c.onNotifs S U.alnum ns).undos = .insert lb0.pos (List.replicate n text).flatten :: c.undos ∧
    (c.onNotifs S U.alnum ns).level = c.level ∧
    ∃ lb' lvl, (c.onNotifs S U.alnum ns).undo S U l 1 =
        .ok (⟨lvl, c.undos, [.insert lb0.pos (List.replicate n text).flatten]⟩, lb', true) ∧
      lb'.buf = lb0.buf := by
  rcases yank_reports_one S U lb0 l text n hn _ ns hy with ⟨h, _⟩ | ⟨hte, x, z, hs, hbuf, hns, _⟩
  · cases h
  · have hT : (List.replicate n text).flatten.isEmpty = false := by
      cases n with
      | zero => omega
      | succ m => cases text with
        | nil => exact absurd rfl hte
        | cons a t => simp [List.replicate_succ]
    have hu : (c.onNotifs S U.alnum ns).undos = .insert lb0.pos (List.replicate n text).flatten :: c.undos := by
      simp [hns, Changeset.onNotifs, Changeset.onNotif, Changeset.insertStr, hT]
    have hr : (c.onNotifs S U.alnum ns).redos = [] := by
      simp [hns, Changeset.onNotifs, Changeset.onNotif, Changeset.insertStr, hT]
    have hl : (c.onNotifs S U.alnum ns).level = c.level := by
      simp [hns, Changeset.onNotifs, Changeset.onNotif, Changeset.insertStr, hT]
    refine ⟨hu, hl, ?_⟩
    obtain ⟨e1, e2⟩ := splitAtByte_some hs
    have hf : applyFwd (.insert lb0.pos (List.replicate n text).flatten) lb0.buf = some l.buf := by
      rw [hbuf]; exact applyFwd_insert.mpr ⟨x, z, e1, e2, rfl⟩
    obtain ⟨lb', h1, h2⟩ := undoOn_inverts S U _ rfl lb0.buf l.buf l hf rfl
    have hall : undoAll (fun ch lb => ch.undoOn S U lb) [.insert lb0.pos (List.replicate n text).flatten] l = .ok lb' := by
      simp [undoAll, Change.isMarker, h1]
    obtain ⟨lvl, h3⟩ := C05_undo_unit_model S U _ c.undos [] (.change _ rfl) l lb'
      (c.onNotifs S U.alnum ns).level hall
    refine ⟨lb', lvl, ?_, h2⟩
    simp only [Changeset.undo, hu, hr]
    simp only [List.cons_append, List.nil_append] at h3
    rw [h3]
    simp [Change.isMarker]

/-- non-vacuity: "ab" yanked three times into "xy" at the cursor 1 -/
example : LB.yank charSeg C05_wit_udata ['a', 'b'] 3 { buf := ['x', 'y'], pos := 1, cap := 16, canGrow := true } =
    .ok (some false, { buf := ['x', 'a', 'b', 'a', 'b', 'a', 'b', 'y'], pos := 7, cap := 16, canGrow := true },
      [.insStr 1 ['a', 'b', 'a', 'b', 'a', 'b']]) := by rfl

/-! ### a counted character insertion is one undo unit -/

/-- **A character inserted with a repeat count `n ≥ 2` is taken back by one Undo — all `n` copies and nothing
    else.**  Whatever is on the undo stack `c` (also a run of typed alphanumerics: the `n` copies are NOT
    merged into it), a successful `LineBuffer::insert(ch, n)` on the line `lb0` — the call the editor makes
    for `SelfInsert` with a numeric argument — adds exactly ONE entry `Insert(cursor, ch × n)` on top of
    the stack, leaves the group level alone, and the next `undo(line, 1)` pops exactly that entry and
    restores the text the line had before the insertion.  (`n = 1` is the merging case of ordinary typing:
    `C05_log_replay`; an alphanumeric typed right AFTER the `n` copies is merged into the entry, D22.) -/
theorem C05_counted_insert_one_unit (S : Segmenter) (U : UData) (c : Changeset) (lb0 l : LB) (ch : Char)
    (n : Nat) (hn : 2 ≤ n) (push : Bool) (ns : List Notif)
    (hy : LB.insert S U ch n lb0 = .ok (some push, l, ns)) :
    (c.onNotifs S U.alnum ns).undos = .insert lb0.pos (List.replicate n ch) :: c.undos ∧
    (c.onNotifs S U.alnum ns).level = c.level ∧
    ∃ lb' lvl, (c.onNotifs S U.alnum ns).undo S U l 1 =
        .ok (⟨lvl, c.undos, [.insert lb0.pos (List.replicate n ch)]⟩, lb', true) ∧
      lb'.buf = lb0.buf := by
  rcases insert_reports_one S U lb0 l ch n hn _ ns hy with ⟨h, _⟩ | ⟨x, z, hs, hbuf, hns, _⟩
  · cases h
  · have hT : (List.replicate n ch).isEmpty = false := by
      cases n with
      | zero => omega
      | succ m => simp [List.replicate_succ]
    have hu : (c.onNotifs S U.alnum ns).undos = .insert lb0.pos (List.replicate n ch) :: c.undos := by
      simp [hns, Changeset.onNotifs, Changeset.onNotif, Changeset.insertStr, hT]
    have hr : (c.onNotifs S U.alnum ns).redos = [] := by
      simp [hns, Changeset.onNotifs, Changeset.onNotif, Changeset.insertStr, hT]
    have hl : (c.onNotifs S U.alnum ns).level = c.level := by
      simp [hns, Changeset.onNotifs, Changeset.onNotif, Changeset.insertStr, hT]
    refine ⟨hu, hl, ?_⟩
    obtain ⟨e1, e2⟩ := splitAtByte_some hs
    have hf : applyFwd (.insert lb0.pos (List.replicate n ch)) lb0.buf = some l.buf := by
      rw [hbuf]; exact applyFwd_insert.mpr ⟨x, z, e1, e2, rfl⟩
    obtain ⟨lb', h1, h2⟩ := undoOn_inverts S U _ rfl lb0.buf l.buf l hf rfl
    have hall : undoAll (fun ch lb => ch.undoOn S U lb) [.insert lb0.pos (List.replicate n ch)] l = .ok lb' := by
      simp [undoAll, Change.isMarker, h1]
    obtain ⟨lvl, h3⟩ := C05_undo_unit_model S U _ c.undos [] (.change _ rfl) l lb'
      (c.onNotifs S U.alnum ns).level hall
    refine ⟨lb', lvl, ?_, h2⟩
    simp only [Changeset.undo, hu, hr]
    simp only [List.cons_append, List.nil_append] at h3
    rw [h3]
    simp [Change.isMarker]

/-- non-vacuity: `z` inserted three times into "xy" at the cursor 1 -/
example : LB.insert charSeg C05_wit_udata 'z' 3 { buf := ['x', 'y'], pos := 1, cap := 16, canGrow := true } =
    .ok (some false, { buf := ['x', 'z', 'z', 'z', 'y'], pos := 4, cap := 16, canGrow := true },
      [.insStr 1 ['z', 'z', 'z']]) := by rfl
