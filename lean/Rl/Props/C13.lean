/-
  Property C13 — Enter returns a line only if the validator accepts exactly that line.
  Model: `execAccept` / `acceptDecision` / `validate` in Rl/Editor.lean (command.rs:132-156, edit.rs:237-262).
  The non-terminal clause is proved in Rl/Props/C18.lean (`C18_validator…`).
-/
import Rl.Editor
import Rl.Lemmas.EditorM
import Rl.Lemmas.EditorOps
import Rl.Props.C03
import Rl.Highlight
import Rl.Lemmas.Highlight
import Rl.Spec.Highlight
import Rl.Lemmas.HighlightOracle
open Rl

/-- The decision table: Enter submits only on a Valid verdict. -/
theorem C13_table_submit (aim valid hasMsg atEnd : Bool)
    (h : acceptDecision aim valid hasMsg atEnd = .submit) : valid = true := by
  unfold acceptDecision at h
  cases valid <;> cases hasMsg <;> simp at h ⊢

/-- With `accept_in_the_middle` (the binding of Enter / C-j / C-m) a Valid verdict always submits. -/
theorem C13_table_valid_submits (hasMsg atEnd : Bool) :
    acceptDecision true true hasMsg atEnd = .submit := by
  unfold acceptDecision; simp

/-- Incomplete (no message): a line break is inserted. -/
theorem C13_table_incomplete (aim atEnd : Bool) :
    acceptDecision aim false false atEnd = .insertNewline := by
  unfold acceptDecision; simp

/-- Invalid with a message: the text is left alone. -/
theorem C13_table_invalid_msg (aim atEnd : Bool) :
    acceptDecision aim false true atEnd = .stay := by
  unfold acceptDecision; simp

/-- Full statement at the level of the editor step: if the Enter command submits, the validator
    judged the buffer Valid and the buffer is what is returned. -/
def C13_submit_requires_valid_statement : Prop :=
  ∀ (S : Segmenter) (U : UData) (cfg : EdCfg) (aim : Bool) (s s' : Ed),
    execAccept S U cfg aim s = .ok (.submit, s') →
    s'.line = s.line ∧ (cfg.hasHelper = true → ∃ m, cfg.validator s.line.buf = .valid m)

/-- helper: a submitting action means the verdict was Valid -/
theorem C13_act_submit_valid (U : UData) (cfg : EdCfg) (aim : Bool) (s : Ed)
    (h : acceptActOf U cfg aim s = .submit) :
    (cfg.hasHelper = true → ∃ m, cfg.validator s.line.buf = .valid m) ∧
    (aim = false → LB.isEndOfInput U s.line = true) := by
  unfold acceptActOf at h
  have hv := C13_table_submit _ _ _ _ h
  constructor
  · intro hh
    unfold verdictOf at hv
    rw [if_pos hh] at hv
    cases hc : cfg.validator s.line.buf with
    | valid m => exact ⟨m, rfl⟩
    | _ => rw [hc] at hv; simp [Verdict.isValid] at hv
  · intro ha
    subst ha
    unfold acceptDecision at h
    cases he : LB.isEndOfInput U s.line with
    | true => rfl
    | false =>
      rw [he] at h
      cases hv1 : (verdictOf cfg s.line.buf).isValid <;> cases hv2 : (verdictOf cfg s.line.buf).hasMsg <;>
        simp [hv1, hv2] at h

/-- **Enter submits only what the validator accepted, unchanged** (the statement above, proved): the
    line handed back is exactly the line that was validated, and the verdict on it was Valid. -/
theorem C13_submit_requires_valid : C13_submit_requires_valid_statement := by
  intro S U cfg aim s s' h
  have hs := wp_ok (execAccept_spec S U cfg aim s) h
  obtain ⟨_, _, _, _, _, hm⟩ := hs
  cases ha : acceptActOf U cfg aim s with
  | submit =>
    rw [ha] at hm
    exact ⟨hm.2, (C13_act_submit_valid U cfg aim s ha).1⟩
  | insertNewline => rw [ha] at hm; exact absurd hm.1 (by decide)
  | stay => rw [ha] at hm; exact absurd hm.1 (by decide)

/-- The same for the whole `execute` step of the command bound to Enter / C-j / C-m (which first
    clears hint and highlight from the display); without `accept_in_the_middle` the cursor was
    moreover at the end of the input. -/
theorem C13_execute_submit (S : Segmenter) (U : UData) (cfg : EdCfg) (aim : Bool) (s s' : Ed)
    (h : execute S U cfg (.acceptOrInsertLine aim) s = .ok (.submit, s')) :
    s'.line = s.line ∧ (cfg.hasHelper = true → ∃ m, cfg.validator s.line.buf = .valid m) ∧
    (aim = false → LB.isEndOfInput U s.line = true) := by
  rw [execute_acceptOrInsertLine] at h
  have hw : wp (withPreAccept S U cfg (execAccept S U cfg aim))
      (fun st s' => st = .submit → s'.line = s.line ∧ acceptActOf U cfg aim s = .submit) (fun _ _ => True) s := by
    refine wp_withPreAccept S U cfg fun s1 hc => ?_
    obtain ⟨hl, _⟩ := Ed.core_eq hc
    refine wp_mono (execAccept_spec S U cfg aim s1) ?_ (fun _ _ _ => trivial)
    intro st s2 ⟨_, _, _, _, _, hm⟩ hst
    subst hst
    have hact : acceptActOf U cfg aim s1 = acceptActOf U cfg aim s := by unfold acceptActOf; rw [hl]
    cases ha : acceptActOf U cfg aim s1 with
    | submit => rw [ha] at hm; exact ⟨hm.2.trans hl, hact ▸ ha⟩
    | insertNewline => rw [ha] at hm; exact absurd hm.1 (by decide)
    | stay => rw [ha] at hm; exact absurd hm.1 (by decide)
  obtain ⟨h1, h2⟩ := wp_ok hw h rfl
  exact ⟨h1, C13_act_submit_valid U cfg aim s h2⟩

/-- what `execute (AcceptOrInsertLine aim)` does, by the action of the decision table; the last exit
    is a helper's own panic (a hinter scripted to panic while the inserted line break is displayed) -/
theorem C13_execute_by_action (S : Segmenter) (U : UData) (cfg : EdCfg) (aim : Bool) (s : Ed) :
    wp (execute S U cfg (.acceptOrInsertLine aim))
      (fun st s' =>
        match acceptActOf U cfg aim s with
        | .submit => st = .submit ∧ s'.line = s.line
        | .insertNewline => st = .proceed ∧ ∃ r ns, LB.insert S U '\n' 1 s.line = .ok (r, s'.line, ns)
        | .stay => st = .proceed ∧ s'.line = s.line)
      (fun o s' => (s'.line = s.line ∧
        ((o = .helperError ∧ cfg.hasHelper = true ∧ cfg.validator s.line.buf = .error) ∨
         (o = .panic ∧ cfg.hasHelper = true ∧ cfg.validator s.line.buf = .panic) ∨
         (o = .panic ∧ verdictOf cfg s.line.buf ≠ .error ∧ acceptActOf U cfg aim s = .insertNewline ∧
           ∃ e, LB.insert S U '\n' 1 s.line = .error e))) ∨
        (o = .panic ∧ cfg.hinterPanicAt ≠ none ∧ verdictOf cfg s.line.buf ≠ .error ∧
          acceptActOf U cfg aim s = .insertNewline))
      s := by
  rw [execute_acceptOrInsertLine]
  refine wp_withPreAccept S U cfg fun s1 hc => ?_
  obtain ⟨hl, _⟩ := Ed.core_eq hc
  have hact : acceptActOf U cfg aim s1 = acceptActOf U cfg aim s := by unfold acceptActOf; rw [hl]
  refine wp_mono (execAccept_spec S U cfg aim s1) ?_ ?_
  · intro st s2 ⟨_, _, _, _, _, hm⟩
    rw [hact, hl] at hm
    exact hm
  · intro o s2 hE
    rw [hact, hl] at hE
    rcases hE with ⟨h1, h2⟩ | h3
    · exact .inl ⟨h1, h2⟩
    · exact .inr h3

/-- **Incomplete**: a line break is inserted at the cursor (the line becomes exactly what
    `LineBuffer::insert('\n', 1)` makes of it) and the read goes on.  For helpers that do not panic
    (`hinterPanicAt = none`: the hinter is asked again once the line break is in; a panicking helper
    is C16's business). -/
theorem C13_incomplete_inserts_newline (S : Segmenter) (U : UData) (cfg : EdCfg) (aim : Bool) (s : Ed)
    (r : Option Bool) (l : LB) (ns : List Notif)
    (hh : cfg.hasHelper = true) (hv : cfg.validator s.line.buf = .incomplete)
    (hnp : cfg.hinterPanicAt = none)
    (hi : LB.insert S U '\n' 1 s.line = .ok (r, l, ns)) :
    ∃ s', execute S U cfg (.acceptOrInsertLine aim) s = .ok (.proceed, s') ∧ s'.line = l := by
  have hact : acceptActOf U cfg aim s = .insertNewline := by
    unfold acceptActOf verdictOf; rw [if_pos hh, hv]; exact C13_table_incomplete aim _
  have hw := C13_execute_by_action S U cfg aim s
  unfold wp at hw
  cases hx : execute S U cfg (.acceptOrInsertLine aim) s with
  | ok p =>
    obtain ⟨st, s'⟩ := p
    rw [hx, hact] at hw
    obtain ⟨rfl, r', ns', hi'⟩ := hw
    rw [hi] at hi'
    cases hi'
    exact ⟨s', rfl, rfl⟩
  | error p =>
    obtain ⟨o, s'⟩ := p
    rw [hx] at hw
    rcases hw with ⟨_, ⟨_, _, h⟩ | ⟨_, _, h⟩ | ⟨_, _, _, e, h⟩⟩ | ⟨_, hne, _⟩
    · rw [hv] at h; cases h
    · rw [hv] at h; cases h
    · rw [hi] at h; cases h
    · exact absurd hnp hne

/-- the insertion itself cannot fail from a state whose cursor is on a character boundary (C03);
    helpers that do not panic -/
theorem C13_incomplete_total (S : Segmenter) (U : UData) (cfg : EdCfg) (aim : Bool) (s : Ed)
    (hwf : WF s.line) (hh : cfg.hasHelper = true) (hv : cfg.validator s.line.buf = .incomplete)
    (hnp : cfg.hinterPanicAt = none) :
    ∃ s' r ns, execute S U cfg (.acceptOrInsertLine aim) s = .ok (.proceed, s') ∧
      LB.insert S U '\n' 1 s.line = .ok (r, s'.line, ns) := by
  obtain ⟨r, l, ns, hi, _⟩ := C03_insert_total_wf S U '\n' 1 s.line hwf
  obtain ⟨s', h1, h2⟩ := C13_incomplete_inserts_newline S U cfg aim s r l ns hh hv hnp hi
  exact ⟨s', r, ns, h1, h2 ▸ hi⟩

/-- **Invalid with a message**: the text (and cursor) is left unchanged and the read goes on. -/
theorem C13_invalid_msg_keeps_text (S : Segmenter) (U : UData) (cfg : EdCfg) (aim : Bool) (s : Ed)
    (hh : cfg.hasHelper = true) (hv : cfg.validator s.line.buf = .invalid true) :
    ∃ s', execute S U cfg (.acceptOrInsertLine aim) s = .ok (.proceed, s') ∧ s'.line = s.line := by
  have hact : acceptActOf U cfg aim s = .stay := by
    unfold acceptActOf verdictOf; rw [if_pos hh, hv]; exact C13_table_invalid_msg aim _
  have hw := C13_execute_by_action S U cfg aim s
  unfold wp at hw
  cases hx : execute S U cfg (.acceptOrInsertLine aim) s with
  | ok p =>
    obtain ⟨st, s'⟩ := p
    rw [hx, hact] at hw
    obtain ⟨rfl, hl⟩ := hw
    exact ⟨s', rfl, hl⟩
  | error p =>
    obtain ⟨o, s'⟩ := p
    rw [hx] at hw
    rcases hw with ⟨_, ⟨_, _, h⟩ | ⟨_, _, h⟩ | ⟨_, _, h, _⟩⟩ | ⟨_, _, _, h⟩
    · rw [hv] at h; cases h
    · rw [hv] at h; cases h
    · rw [hact] at h; cases h
    · rw [hact] at h; cases h

/-- **Validator error**: the step ends the read with the error outcome — never with a line, and
    never by continuing to edit; the text is untouched. -/
theorem C13_error_propagates (S : Segmenter) (U : UData) (cfg : EdCfg) (aim : Bool) (s : Ed)
    (hh : cfg.hasHelper = true) (hv : cfg.validator s.line.buf = .error) :
    ∃ s', execute S U cfg (.acceptOrInsertLine aim) s = .error (.helperError, s') ∧ s'.line = s.line := by
  have hw := C13_execute_by_action S U cfg aim s
  rw [execute_acceptOrInsertLine] at hw ⊢
  -- the verdict is not an error on any normal return
  have hw2 : wp (withPreAccept S U cfg (execAccept S U cfg aim)) (fun _ _ => False) (fun _ _ => True) s := by
    refine wp_withPreAccept S U cfg fun s1 hc => ?_
    obtain ⟨hl, _⟩ := Ed.core_eq hc
    refine wp_mono (execAccept_spec S U cfg aim s1) ?_ (fun _ _ _ => trivial)
    intro st s2 ⟨hne, _⟩
    apply hne; unfold verdictOf; rw [if_pos hh, hl, hv]
  unfold wp at hw hw2
  cases hx : withPreAccept S U cfg (execAccept S U cfg aim) s with
  | ok p => rw [hx] at hw2; exact hw2.elim
  | error p =>
    obtain ⟨o, s'⟩ := p
    rw [hx] at hw
    rcases hw with ⟨hl, ⟨ho, _, _⟩ | ⟨_, _, h⟩ | ⟨_, h, _⟩⟩ | ⟨_, _, h, _⟩
    · subst ho; exact ⟨s', rfl, hl⟩
    · rw [hv] at h; cases h
    · exfalso
      apply h; unfold verdictOf; rw [if_pos hh, hv]
    · exfalso
      apply h; unfold verdictOf; rw [if_pos hh, hv]

/-- non-vacuity: every action of the table occurs -/
example : acceptDecision true true false false = .submit ∧ acceptDecision false true false false = .insertNewline
    ∧ acceptDecision true false true true = .stay := by decide

/-! ## Bracket matching of `MatchingBracketHighlighter` (`src/highlight.rs`, model `Rl/Highlight.lean`,
    spec `Rl/Spec/Highlight.lean`); the bracket *validator* is modelled in `Rl/Direct.lean`. -/
section BracketMatching
open Rl.Highlight

/-- Bracket matching, forward (`find_matching_bracket` for an opening bracket `br` remembered at
    byte `pos`).  If a partner `(m, q)` is reported then `m` is the closing bracket of the same kind,
    `q` is after `pos`, byte `q` of the line is `m`, the bytes strictly between `pos` and `q`
    contain as many `m` as `br` (balanced for this kind), and in no prefix of them do the closing
    brackets outnumber the opening ones — so no earlier byte closes the bracket: `q` is the nearest
    position that does.  Hypothesis: `br` is one of `( [ {`. -/
theorem C13_bracket_match_open (bs : Bytes) (pos : Nat) (br m : UInt8) (q : Nat)
    (ho : isOpenB br = true)
    (h : findMatchingBracket bs pos br = some (some (m, q))) :
    m = matchingBracket br ∧ pos < q ∧ bs[q]? = some m ∧
    (((bs.drop (pos + 1)).take (q - (pos + 1))).count m
        = ((bs.drop (pos + 1)).take (q - (pos + 1))).count br) ∧
    ∀ n, n ≤ q - (pos + 1) →
      ((bs.drop (pos + 1)).take n).count m ≤ ((bs.drop (pos + 1)).take n).count br := by
  unfold findMatchingBracket at h
  simp only [ho, if_true] at h
  split at h
  · simp at h
  · split at h
    · rename_i k hk
      simp at h
      obtain ⟨hm, hq⟩ := h
      obtain ⟨j, hj0, hj, hc, hp⟩ := scan_some (matching_ne_of_open ho) (Nat.le_refl 1) hk
      have hkj : k = j := by omega
      subst hkj
      have hq' : q - (pos + 1) = k := by omega
      rw [hq']
      refine ⟨hm.symm, by omega, ?_, by rw [← hm]; omega, ?_⟩
      · rw [List.getElem?_drop] at hj
        rw [← hq, ← hm]; exact hj
      · intro n hn
        have := hp n hn
        rw [← hm]; omega
    · simp at h

/-- Bracket matching, backward (closing bracket `br` remembered at byte `pos`): the partner `(m, q)`
    is the opening bracket of the same kind, before `pos`, byte `q` is `m`, and the bytes between
    `q` and `pos` — read from `pos` towards `q` — are balanced for this kind with no prefix in
    which the opening brackets outnumber the closing ones (nearest partner).  Hypothesis: `br` is
    one of `) ] }`. -/
theorem C13_bracket_match_close (bs : Bytes) (pos : Nat) (br m : UInt8) (q : Nat)
    (hc : isCloseB br = true) (ho : isOpenB br = false)
    (h : findMatchingBracket bs pos br = some (some (m, q))) :
    m = matchingBracket br ∧ q < pos ∧ bs[q]? = some m ∧
    ((((bs.take pos).reverse).take (pos - 1 - q)).count m
        = (((bs.take pos).reverse).take (pos - 1 - q)).count br) ∧
    ∀ n, n ≤ pos - 1 - q →
      (((bs.take pos).reverse).take n).count m ≤ (((bs.take pos).reverse).take n).count br := by
  unfold findMatchingBracket at h
  simp only [ho, Bool.false_eq_true, if_false] at h
  split at h
  · simp at h
  · rename_i hlen
    split at h
    · rename_i k hk
      simp at h
      obtain ⟨hm, hq⟩ := h
      obtain ⟨j, hj0, hj, hcn, hp⟩ := scan_some (matching_ne_of_close hc) (Nat.le_refl 1) hk
      have hkj : k = j := by omega
      subst hkj
      have hklt : k < (bs.take pos).reverse.length := by
        rcases Nat.lt_or_ge k (bs.take pos).reverse.length with hlt | hge
        · exact hlt
        · rw [List.getElem?_eq_none hge] at hj; simp at hj
      have hlen' : (bs.take pos).reverse.length = pos := by simp; omega
      rw [hlen'] at hklt
      have hq' : pos - 1 - q = k := by omega
      rw [hq']
      refine ⟨hm.symm, by omega, ?_, by rw [← hm]; omega, ?_⟩
      · rw [List.getElem?_reverse (by simp; omega)] at hj
        rw [List.getElem?_take] at hj
        simp at hj
        have hidx : min pos bs.length - 1 - k = q := by omega
        rw [hidx] at hj
        rw [← hm]
        exact hj.2
      · intro n hn
        have := hp n hn
        rw [← hm]; omega
    · simp at h

/-- Completeness of the partner search: if no partner is reported (and there was no panic), then
    in every prefix of the bytes after `pos` (opening bracket) / of the bytes before `pos` read
    backwards (closing bracket) the brackets of the partner kind do not outnumber those of the
    remembered kind: no byte of the line closes it. -/
theorem C13_bracket_no_match (bs : Bytes) (pos : Nat) (br : UInt8)
    (hb : isOpenB br = true ∨ isCloseB br = true)
    (h : findMatchingBracket bs pos br = some none) :
    (isOpenB br = true → ∀ n,
      ((bs.drop (pos + 1)).take n).count (matchingBracket br) ≤ ((bs.drop (pos + 1)).take n).count br) ∧
    (isOpenB br = false → ∀ n,
      (((bs.take pos).reverse).take n).count (matchingBracket br) ≤ (((bs.take pos).reverse).take n).count br) := by
  unfold findMatchingBracket at h
  constructor
  · intro ho
    simp only [ho, if_true] at h
    split at h
    · simp at h
    · split at h
      · simp at h
      · rename_i hk
        intro n
        have := scan_none (matching_ne_of_open ho) (Nat.le_refl 1) hk n
        omega
  · intro ho
    have hc : isCloseB br = true := by
      rcases hb with hb | hb
      · rw [ho] at hb; simp at hb
      · exact hb
    simp only [ho, Bool.false_eq_true, if_false] at h
    split at h
    · simp at h
    · split at h
      · simp at h
      · rename_i hk
        intro n
        have := scan_none (matching_ne_of_close hc) (Nat.le_refl 1) hk n
        omega

/-- `find_matching_bracket` does not panic when the remembered position is inside the line. -/
theorem C13_bracket_no_panic (bs : Bytes) (pos : Nat) (br : UInt8) (hp : pos < bs.length) :
    findMatchingBracket bs pos br ≠ none := by
  unfold findMatchingBracket
  split
  · have : ¬ (pos + 1 > bs.length) := by omega
    simp only [this, if_false]
    split <;> simp
  · have : ¬ (pos > bs.length) := by omega
    simp only [this, if_false]
    split <;> simp

/-- `check_bracket` is truthful: the remembered `(br, p)` is a bracket byte of the line at `p`,
    `p` is the cursor byte, the byte before it, or (cursor at / past the end) the last byte; and when
    the cursor is inside the line an opening bracket is never the last byte and a closing bracket
    never the first one.  It never panics (it is a total function in the model: every index is
    guarded in the code). -/
theorem C13_check_bracket_sound (bs : Bytes) (cur : Nat) (br : UInt8) (p : Nat)
    (h : checkBracket bs cur = some (br, p)) :
    p < bs.length ∧ bs[p]? = some br ∧ (isOpenB br = true ∨ isCloseB br = true) ∧
    (p = cur ∨ p + 1 = cur ∨ (bs.length ≤ cur ∧ p + 1 = bs.length)) ∧
    (cur < bs.length → (isOpenB br = true → p + 1 < bs.length) ∧ (isCloseB br = true → 0 < p)) := by
  have lt_of_get : ∀ q b, bs[q]? = some b → q < bs.length := by
    intro q b hq
    rcases Nat.lt_or_ge q bs.length with hlt | hge
    · exact hlt
    · rw [List.getElem?_eq_none hge] at hq; simp at hq
  have key : ∀ q r, checkAt bs q = some (some r) →
      r.2 = q ∧ q < bs.length ∧ bs[q]? = some r.1 ∧ (isOpenB r.1 = true ∨ isCloseB r.1 = true) ∧
      (isOpenB r.1 = true → q + 1 < bs.length) ∧ (isCloseB r.1 = true → 0 < q) := by
    intro q r hq
    unfold checkAt at hq
    split at hq
    · simp at hq
    · rename_i b hb
      have hl := lt_of_get _ _ hb
      split at hq
      · rename_i hcl
        simp at hq
        obtain ⟨h0, hr⟩ := hq
        subst hr
        exact ⟨rfl, hl, hb, Or.inr hcl, fun hh => by
          simp only [isOpenB, isCloseB, Bool.or_eq_true, beq_iff_eq] at hh hcl
          rcases hh with (hh | hh) | hh <;> subst hh <;> simp at hcl, fun _ => by omega⟩
      · rename_i hcl
        split at hq
        · rename_i hop
          simp at hq
          obtain ⟨h0, hr⟩ := hq
          subst hr
          exact ⟨rfl, hl, hb, Or.inl hop, fun _ => by omega, fun hh => by simp [hh] at hcl⟩
        · simp at hq
  unfold checkBracket at h
  split at h
  · simp at h
  · split at h
    · rename_i hge
      simp only [] at h
      split at h
      · rename_i b hb
        split at h
        · rename_i hcl
          simp at h
          obtain ⟨h1, h2⟩ := h
          subst h1; subst h2
          have hl := lt_of_get _ _ hb
          exact ⟨hl, hb, Or.inr hcl, Or.inr (Or.inr ⟨hge, by omega⟩), fun hh => by omega⟩
        · simp at h
      · simp at h
    · rename_i hlt
      split at h
      · rename_i r hr
        subst h
        obtain ⟨k1, k2, k3, k4, k5, k6⟩ := key _ _ hr
        simp only at k1
        subst k1
        exact ⟨k2, k3, k4, Or.inl rfl, fun _ => ⟨k5, k6⟩⟩
      · split at h
        · rename_i hpos
          split at h
          · rename_i r hr
            subst h
            obtain ⟨k1, k2, k3, k4, k5, k6⟩ := key _ _ hr
            simp only at k1
            subst k1
            exact ⟨k2, k3, k4, Or.inr (Or.inl (by omega)), fun _ => ⟨k5, k6⟩⟩
          · simp at h
        · simp at h

/-- The way the editor uses the highlighter (`highlight_char` on the current line, then `highlight`
    of the SAME line): the partner search cannot panic. -/
theorem C13_bracket_same_line_no_panic (line : Text) (cur : Nat) (kind : Kind) (br : UInt8) (p : Nat)
    (h : (highlightChar line cur kind).1 = some (br, p)) :
    findMatchingBracket (bytesOf line) p br ≠ none := by
  unfold highlightChar at h
  split at h
  · simp at h
  · exact C13_bracket_no_panic _ _ _ (C13_check_bracket_sound _ _ _ _ h).1

/-! Non-vacuity (kernel-evaluated): nested brackets with a multi-byte character in between,
    an interleaved other kind, the bracket before the cursor at the end of the line. -/
example : findMatchingBracket (bytesOf "(()é)x".toList) 0 40 = some (some (41, 5)) := by decide
example : findMatchingBracket (bytesOf "[(])".toList) 3 41 = some (some (40, 1)) := by decide
example : checkBracket (bytesOf "x(y)".toList) 4 = some (41, 3) := by decide

/-- Through the public API the two calls can be given different lines; then the remembered position
    can lie outside the new line and `highlight` panics (slice out of range): `highlight_char("() )", 4)`
    followed by `highlight("()")`.  Confirmed on the implementation by the `hl` target.  The editor
    itself always calls `highlight_char` on the current line before `highlight`. -/
theorem C13_bracket_stale_state_panics :
    run none [.hchar "() )".toList 4 .other, .hl "()".toList] = none := by decide

end BracketMatching

/-! ## The partner search equals the counting oracle -/
section BracketOracle
open Rl.Highlight

/-- The model's partner search (`find_matching_bracket`: a scan with a depth counter) computes
    exactly the declarative oracle `Rl.Spec.Highlight.partner` (pure counting: for an opening
    bracket the first later byte position at which the closing brackets of the same kind, counted
    from just after the bracket, outnumber the opening ones by one; for a closing bracket the last
    earlier position with the symmetric property).  For EVERY byte string `bs`, position `pos` and
    byte `br`: if `br` is one of `( [ { ) ] }` and the model does not panic (returns `some r`), then
    `r` is `none` exactly when the oracle finds no partner, and `some (matching bracket of br, q)`
    exactly when the oracle's partner is `q`.  No hypothesis that byte `pos` of `bs` is `br`, nor
    that `pos` is inside `bs`, is needed. -/
theorem C13_bracket_find_eq_oracle (bs : Bytes) (pos : Nat) (br : UInt8)
    (hb : (isOpenB br || isCloseB br) = true) (r : Option (UInt8 × Nat))
    (h : findMatchingBracket bs pos br = some r) :
    r = (Rl.Spec.Highlight.partner bs pos br).map (fun q => (matchingBracket br, q)) :=
  find_eq_partner bs pos br hb r h

/-- Same fact for the way the editor uses it (remembered position inside the line): the model does
    not panic and its answer is the oracle's. -/
theorem C13_bracket_find_eq_oracle_in_line (bs : Bytes) (pos : Nat) (br : UInt8)
    (hb : (isOpenB br || isCloseB br) = true) (hp : pos < bs.length) :
    findMatchingBracket bs pos br
      = some ((Rl.Spec.Highlight.partner bs pos br).map (fun q => (matchingBracket br, q))) := by
  cases h : findMatchingBracket bs pos br with
  | none => exact absurd h (C13_bracket_no_panic bs pos br hp)
  | some r => rw [find_eq_partner bs pos br hb r h]

/-- The bracket hypothesis cannot be dropped: for a non-bracket byte the model (which then scans
    backwards for the byte itself) and the oracle differ.  `check_bracket` only ever remembers
    bracket bytes (`C13_check_bracket_sound`), so this input does not arise in the editor. -/
theorem C13_bracket_oracle_needs_bracket :
    findMatchingBracket [120, 120] 1 120 = some (some (120, 0))
      ∧ Rl.Spec.Highlight.partner [120, 120] 1 120 = none := by decide

/-! Non-vacuity (kernel-evaluated): both directions, a found and a missing partner. -/
example : findMatchingBracket (bytesOf "(()é)x".toList) 0 40 = some (some (41, 5))
    ∧ Rl.Spec.Highlight.partner (bytesOf "(()é)x".toList) 0 40 = some 5 := by decide
example : findMatchingBracket (bytesOf "[(])".toList) 3 41 = some (some (40, 1))
    ∧ Rl.Spec.Highlight.partner (bytesOf "[(])".toList) 3 41 = some 1 := by decide
example : findMatchingBracket (bytesOf "(()".toList) 0 40 = some none
    ∧ Rl.Spec.Highlight.partner (bytesOf "(()".toList) 0 40 = none := by decide
example : findMatchingBracket (bytesOf "x))".toList) 0 41 = some none
    ∧ Rl.Spec.Highlight.partner (bytesOf "x))".toList) 0 41 = none := by decide

/-- `highlight` as the editor uses it never panics.  For every line, cursor byte offset and
    command kind: if the highlighter state `st` is the one produced by `highlight_char` on this
    line, then `highlight st line` on the SAME line is not a panic — neither the slice in
    `find_matching_bracket` nor the character-boundary check of `replace_range(idx..=idx)` can
    fail, because the reported partner is an ASCII bracket byte of the line, hence a whole
    one-byte character (every byte of a multi-byte UTF-8 encoding is ≥ 128).  No hypothesis on
    the line (any Unicode text) or on the cursor (need not be a boundary, may be past the end). -/

theorem C13_highlight_same_line_no_panic (line : Text) (cur : Nat) (kind : Kind) (st : HlState)
    (h : (highlightChar line cur kind).1 = st) : highlight st line ≠ none := by
  unfold highlight
  split
  · simp
  · split
    · simp
    · rename_i br p
      have hcb : checkBracket (bytesOf line) cur = some (br, p) := by
        unfold highlightChar at h
        split at h
        · simp at h
        · exact h
      obtain ⟨hp, _, hbr, _, _⟩ := C13_check_bracket_sound _ _ _ _ hcb
      split
      · rename_i hf
        exact absurd hf (C13_bracket_no_panic _ _ _ hp)
      · simp
      · rename_i m idx hf
        have hmq : m = matchingBracket br ∧ (bytesOf line)[idx]? = some m := by
          by_cases ho : isOpenB br = true
          · have := C13_bracket_match_open _ _ _ _ _ ho hf
            exact ⟨this.1, this.2.2.1⟩
          · have ho' : isOpenB br = false := by simpa using ho
            have hc : isCloseB br = true := by
              rcases hbr with hbr | hbr
              · exact absurd hbr ho
              · exact hbr
            have := C13_bracket_match_close _ _ _ _ _ hc ho' hf
            exact ⟨this.1, this.2.2.1⟩
        have hlt : m.toNat < 128 := by rw [hmq.1]; exact matching_toNat_lt hbr
        obtain ⟨a, c, b, hs, hc1⟩ := split_at_ascii line idx m hmq.2 hlt
        rw [hs]
        simp [hc1]

/-! Non-vacuity: a highlighted copy is produced on a line with a multi-byte character before the
    partner; the state comes from `highlight_char`. -/
example : (highlightChar "(é)".toList 0 .other).1 = some (40, 0)
    ∧ highlight (some (40, 0)) "(é)".toList
        = some (some ("(é".toList ++ escOn ++ [')'] ++ escOff)) := by decide

/-- The model of `highlight` agrees with the declarative oracle `Rl.Spec.Highlight.highlight`
    whenever the oracle gives an answer.  The oracle answers (is `some o`) when the line is at most
    one byte long, when nothing is remembered, or when the remembered `(br, p)` is a bracket byte
    that really is byte `p` of this line; it does not answer for a stale position.  In all those
    cases the model does not panic and returns the same observation: "borrowed" (line unchanged)
    exactly when the oracle says so, and otherwise the owned copy with the escape sequences around
    the partner found by counting.  Holds for every line and state; no further hypotheses. -/
theorem C13_highlight_eq_oracle (st : HlState) (line : Text) (o : Rl.Highlight.Obs)
    (h : Rl.Spec.Highlight.highlight st line = some o) :
    (o = .borrowed ∧ highlight st line = some none) ∨
    (∃ t, o = .owned t ∧ highlight st line = some (some t)) := by
  unfold Rl.Spec.Highlight.highlight at h
  unfold highlight
  split at h
  · rename_i hb
    simp only [hb, if_true]
    left; simp at h; exact ⟨h.symm, by first | rfl | trivial⟩
  · rename_i hb
    simp only [hb, if_false]
    split at h
    · left; simp at h; exact ⟨h.symm, by first | rfl | trivial⟩
    · rename_i br p
      simp only at h
      dsimp only
      split at h
      · simp at h
      · rename_i hcond
        have hget : (bytesOf line)[p]? = some br := by
          by_cases hh : (bytesOf line)[p]? = some br
          · exact hh
          · exact absurd (Or.inl hh) hcond
        have hbr : (isOpenB br || isCloseB br) = true := by
          by_cases hh : (isOpenB br || isCloseB br) = true
          · exact hh
          · exact absurd (Or.inr hh) hcond
        have hbr' : isOpenB br = true ∨ isCloseB br = true := by simpa using hbr
        have hp := lt_of_getElem?_some hget
        have hfind := C13_bracket_find_eq_oracle_in_line _ _ _ hbr hp
        cases hpar : Rl.Spec.Highlight.partner (bytesOf line) p br with
        | none =>
          rw [hpar] at h hfind
          rw [hfind]
          left; simp at h; exact ⟨h.symm, by first | rfl | trivial⟩
        | some q =>
          rw [hpar] at h hfind
          simp only [Option.map_some] at hfind
          rw [hfind]
          simp only at h ⊢
          have hmq : (bytesOf line)[q]? = some (matchingBracket br) := by
            by_cases ho : isOpenB br = true
            · exact (C13_bracket_match_open _ _ _ _ _ ho hfind).2.2.1
            · have ho' : isOpenB br = false := by simpa using ho
              have hc : isCloseB br = true := by
                rcases hbr' with hbr' | hbr'
                · exact absurd hbr' ho
                · exact hbr'
              exact (C13_bracket_match_close _ _ _ _ _ hc ho' hfind).2.2.1
          obtain ⟨a, c, b, hs, hc1⟩ := split_at_ascii line q _ hmq (matching_toNat_lt hbr')
          rw [hs] at h ⊢
          simp only [hc1, beq_self_eq_true, if_true]
          right
          simp only [Option.some.injEq] at h
          exact ⟨_, h.symm, rfl⟩

/-- Lifted to sequences of calls on one highlighter (the shape the differential harness target `hl`
    replays): whenever the oracle's run answers `some os`, the model's run gives the same
    observations (in particular it does not panic). -/
theorem C13_highlight_run_eq_oracle (st : HlState) (ops : List Rl.Highlight.Op) (os : List Rl.Highlight.Obs)
    (h : Rl.Spec.Highlight.run st ops = some os) : run st ops = some os := by
  induction ops generalizing st os with
  | nil => simpa [Rl.Spec.Highlight.run, run] using h
  | cons op ops ih =>
    cases op with
    | hchar l p k =>
      simp only [Rl.Spec.Highlight.run, run] at h ⊢
      cases hr : Rl.Spec.Highlight.run (highlightChar l p k).1 ops with
      | none => rw [hr] at h; simp at h
      | some os' => rw [hr] at h; rw [ih _ _ hr]; exact h
    | hl l =>
      simp only [Rl.Spec.Highlight.run, run] at h ⊢
      cases ho : Rl.Spec.Highlight.highlight st l with
      | none => rw [ho] at h; simp at h
      | some o =>
        rw [ho] at h; simp only at h
        cases hr : Rl.Spec.Highlight.run st ops with
        | none => rw [hr] at h; simp at h
        | some os' =>
          rw [hr] at h
          rcases C13_highlight_eq_oracle st l o ho with ⟨rfl, hm⟩ | ⟨t, rfl, hm⟩
          · rw [hm]; simp only; rw [ih _ _ hr]; exact h
          · rw [hm]; simp only; rw [ih _ _ hr]; exact h

/-! Non-vacuity: the oracle does answer, with an owned copy, on a two-call sequence. -/
example : Rl.Spec.Highlight.run none [.hchar "[(é)]".toList 0 .other, .hl "[(é)]".toList]
    = some [.bool true, .owned ("[(é)".toList ++ escOn ++ [']'] ++ escOff)] := by decide

end BracketOracle
