/-
  Property C13 — Enter returns a line only if the validator accepts exactly that line.
  Model: `execAccept` / `acceptDecision` / `validate` in Rl/Editor.lean (command.rs:132-156, edit.rs:237-262).
  The non-terminal clause is proved in Rl/Props/C18.lean (`C18_validator…`).
-/
import Rl.Editor
import Rl.Lemmas.EditorM
import Rl.Lemmas.EditorOps
import Rl.Props.C03
open Rl

/-- The decision table: Enter submits only on a Valid verdict. -/
theorem C13_table_submit (aim valid hasMsg atEnd : Bool)
    (h : acceptDecision aim valid hasMsg atEnd = .submit) : valid = true := by
  unfold acceptDecision at h
  cases valid <;> cases hasMsg <;> simp at h ⊢

/-- With `accept_in_the_middle` (the binding of Enter / C-j / C-m) a Valid verdict always submits. -/
theorem C13_table_valid_submits (hasMsg atEnd : Bool) :
    acceptDecision true true hasMsg atEnd = .submit := by
  unfold acceptDecision; simp

/-- Incomplete (no message): a line break is inserted. -/
theorem C13_table_incomplete (aim atEnd : Bool) :
    acceptDecision aim false false atEnd = .insertNewline := by
  unfold acceptDecision; simp

/-- Invalid with a message: the text is left alone. -/
theorem C13_table_invalid_msg (aim atEnd : Bool) :
    acceptDecision aim false true atEnd = .stay := by
  unfold acceptDecision; simp

/-- Full statement at the level of the editor step: if the Enter command submits, the validator
    judged the buffer Valid and the buffer is what is returned. -/
def C13_submit_requires_valid_statement : Prop :=
  ∀ (S : Segmenter) (U : UData) (cfg : EdCfg) (aim : Bool) (s s' : Ed),
    execAccept S U cfg aim s = .ok (.submit, s') →
    s'.line = s.line ∧ (cfg.hasHelper = true → ∃ m, cfg.validator s.line.buf = .valid m)

/-- helper: a submitting action means the verdict was Valid -/
theorem C13_act_submit_valid (U : UData) (cfg : EdCfg) (aim : Bool) (s : Ed)
    (h : acceptActOf U cfg aim s = .submit) :
    (cfg.hasHelper = true → ∃ m, cfg.validator s.line.buf = .valid m) ∧
    (aim = false → LB.isEndOfInput U s.line = true) := by
  unfold acceptActOf at h
  have hv := C13_table_submit _ _ _ _ h
  constructor
  · intro hh
    unfold verdictOf at hv
    rw [if_pos hh] at hv
    cases hc : cfg.validator s.line.buf with
    | valid m => exact ⟨m, rfl⟩
    | _ => rw [hc] at hv; simp [Verdict.isValid] at hv
  · intro ha
    subst ha
    unfold acceptDecision at h
    cases he : LB.isEndOfInput U s.line with
    | true => rfl
    | false =>
      rw [he] at h
      cases hv1 : (verdictOf cfg s.line.buf).isValid <;> cases hv2 : (verdictOf cfg s.line.buf).hasMsg <;>
        simp [hv1, hv2] at h

/-- **Enter submits only what the validator accepted, unchanged** (the statement above, proved): the
    line handed back is exactly the line that was validated, and the verdict on it was Valid. -/
theorem C13_submit_requires_valid : C13_submit_requires_valid_statement := by
  intro S U cfg aim s s' h
  have hs := wp_ok (execAccept_spec S U cfg aim s) h
  obtain ⟨_, _, _, _, _, hm⟩ := hs
  cases ha : acceptActOf U cfg aim s with
  | submit =>
    rw [ha] at hm
    exact ⟨hm.2, (C13_act_submit_valid U cfg aim s ha).1⟩
  | insertNewline => rw [ha] at hm; exact absurd hm.1 (by decide)
  | stay => rw [ha] at hm; exact absurd hm.1 (by decide)

/-- The same for the whole `execute` step of the command bound to Enter / C-j / C-m (which first
    clears hint and highlight from the display); without `accept_in_the_middle` the cursor was
    moreover at the end of the input. -/
theorem C13_execute_submit (S : Segmenter) (U : UData) (cfg : EdCfg) (aim : Bool) (s s' : Ed)
    (h : execute S U cfg (.acceptOrInsertLine aim) s = .ok (.submit, s')) :
    s'.line = s.line ∧ (cfg.hasHelper = true → ∃ m, cfg.validator s.line.buf = .valid m) ∧
    (aim = false → LB.isEndOfInput U s.line = true) := by
  rw [execute_acceptOrInsertLine] at h
  have hw : wp (withPreAccept S U cfg (execAccept S U cfg aim))
      (fun st s' => st = .submit → s'.line = s.line ∧ acceptActOf U cfg aim s = .submit) (fun _ _ => True) s := by
    refine wp_withPreAccept S U cfg fun s1 hc => ?_
    obtain ⟨hl, _⟩ := Ed.core_eq hc
    refine wp_mono (execAccept_spec S U cfg aim s1) ?_ (fun _ _ _ => trivial)
    intro st s2 ⟨_, _, _, _, _, hm⟩ hst
    subst hst
    have hact : acceptActOf U cfg aim s1 = acceptActOf U cfg aim s := by unfold acceptActOf; rw [hl]
    cases ha : acceptActOf U cfg aim s1 with
    | submit => rw [ha] at hm; exact ⟨hm.2.trans hl, hact ▸ ha⟩
    | insertNewline => rw [ha] at hm; exact absurd hm.1 (by decide)
    | stay => rw [ha] at hm; exact absurd hm.1 (by decide)
  obtain ⟨h1, h2⟩ := wp_ok hw h rfl
  exact ⟨h1, C13_act_submit_valid U cfg aim s h2⟩

/-- what `execute (AcceptOrInsertLine aim)` does, by the action of the decision table; the last exit
    is a helper's own panic (a hinter scripted to panic while the inserted line break is displayed) -/
theorem C13_execute_by_action (S : Segmenter) (U : UData) (cfg : EdCfg) (aim : Bool) (s : Ed) :
    wp (execute S U cfg (.acceptOrInsertLine aim))
      (fun st s' =>
        match acceptActOf U cfg aim s with
        | .submit => st = .submit ∧ s'.line = s.line
        | .insertNewline => st = .proceed ∧ ∃ r ns, LB.insert S U '\n' 1 s.line = .ok (r, s'.line, ns)
        | .stay => st = .proceed ∧ s'.line = s.line)
      (fun o s' => (s'.line = s.line ∧
        ((o = .helperError ∧ cfg.hasHelper = true ∧ cfg.validator s.line.buf = .error) ∨
         (o = .panic ∧ cfg.hasHelper = true ∧ cfg.validator s.line.buf = .panic) ∨
         (o = .panic ∧ verdictOf cfg s.line.buf ≠ .error ∧ acceptActOf U cfg aim s = .insertNewline ∧
           ∃ e, LB.insert S U '\n' 1 s.line = .error e))) ∨
        (o = .panic ∧ cfg.hinterPanicAt ≠ none ∧ verdictOf cfg s.line.buf ≠ .error ∧
          acceptActOf U cfg aim s = .insertNewline))
      s := by
  rw [execute_acceptOrInsertLine]
  refine wp_withPreAccept S U cfg fun s1 hc => ?_
  obtain ⟨hl, _⟩ := Ed.core_eq hc
  have hact : acceptActOf U cfg aim s1 = acceptActOf U cfg aim s := by unfold acceptActOf; rw [hl]
  refine wp_mono (execAccept_spec S U cfg aim s1) ?_ ?_
  · intro st s2 ⟨_, _, _, _, _, hm⟩
    rw [hact, hl] at hm
    exact hm
  · intro o s2 hE
    rw [hact, hl] at hE
    rcases hE with ⟨h1, h2⟩ | h3
    · exact .inl ⟨h1, h2⟩
    · exact .inr h3

/-- **Incomplete**: a line break is inserted at the cursor (the line becomes exactly what
    `LineBuffer::insert('\n', 1)` makes of it) and the read goes on.  For helpers that do not panic
    (`hinterPanicAt = none`: the hinter is asked again once the line break is in; a panicking helper
    is C16's business). -/
theorem C13_incomplete_inserts_newline (S : Segmenter) (U : UData) (cfg : EdCfg) (aim : Bool) (s : Ed)
    (r : Option Bool) (l : LB) (ns : List Notif)
    (hh : cfg.hasHelper = true) (hv : cfg.validator s.line.buf = .incomplete)
    (hnp : cfg.hinterPanicAt = none)
    (hi : LB.insert S U '\n' 1 s.line = .ok (r, l, ns)) :
    ∃ s', execute S U cfg (.acceptOrInsertLine aim) s = .ok (.proceed, s') ∧ s'.line = l := by
  have hact : acceptActOf U cfg aim s = .insertNewline := by
    unfold acceptActOf verdictOf; rw [if_pos hh, hv]; exact C13_table_incomplete aim _
  have hw := C13_execute_by_action S U cfg aim s
  unfold wp at hw
  cases hx : execute S U cfg (.acceptOrInsertLine aim) s with
  | ok p =>
    obtain ⟨st, s'⟩ := p
    rw [hx, hact] at hw
    obtain ⟨rfl, r', ns', hi'⟩ := hw
    rw [hi] at hi'
    cases hi'
    exact ⟨s', rfl, rfl⟩
  | error p =>
    obtain ⟨o, s'⟩ := p
    rw [hx] at hw
    rcases hw with ⟨_, ⟨_, _, h⟩ | ⟨_, _, h⟩ | ⟨_, _, _, e, h⟩⟩ | ⟨_, hne, _⟩
    · rw [hv] at h; cases h
    · rw [hv] at h; cases h
    · rw [hi] at h; cases h
    · exact absurd hnp hne

/-- the insertion itself cannot fail from a state whose cursor is on a character boundary (C03);
    helpers that do not panic -/
theorem C13_incomplete_total (S : Segmenter) (U : UData) (cfg : EdCfg) (aim : Bool) (s : Ed)
    (hwf : WF s.line) (hh : cfg.hasHelper = true) (hv : cfg.validator s.line.buf = .incomplete)
    (hnp : cfg.hinterPanicAt = none) :
    ∃ s' r ns, execute S U cfg (.acceptOrInsertLine aim) s = .ok (.proceed, s') ∧
      LB.insert S U '\n' 1 s.line = .ok (r, s'.line, ns) := by
  obtain ⟨r, l, ns, hi, _⟩ := C03_insert_total_wf S U '\n' 1 s.line hwf
  obtain ⟨s', h1, h2⟩ := C13_incomplete_inserts_newline S U cfg aim s r l ns hh hv hnp hi
  exact ⟨s', r, ns, h1, h2 ▸ hi⟩

/-- **Invalid with a message**: the text (and cursor) is left unchanged and the read goes on. -/
theorem C13_invalid_msg_keeps_text (S : Segmenter) (U : UData) (cfg : EdCfg) (aim : Bool) (s : Ed)
    (hh : cfg.hasHelper = true) (hv : cfg.validator s.line.buf = .invalid true) :
    ∃ s', execute S U cfg (.acceptOrInsertLine aim) s = .ok (.proceed, s') ∧ s'.line = s.line := by
  have hact : acceptActOf U cfg aim s = .stay := by
    unfold acceptActOf verdictOf; rw [if_pos hh, hv]; exact C13_table_invalid_msg aim _
  have hw := C13_execute_by_action S U cfg aim s
  unfold wp at hw
  cases hx : execute S U cfg (.acceptOrInsertLine aim) s with
  | ok p =>
    obtain ⟨st, s'⟩ := p
    rw [hx, hact] at hw
    obtain ⟨rfl, hl⟩ := hw
    exact ⟨s', rfl, hl⟩
  | error p =>
    obtain ⟨o, s'⟩ := p
    rw [hx] at hw
    rcases hw with ⟨_, ⟨_, _, h⟩ | ⟨_, _, h⟩ | ⟨_, _, h, _⟩⟩ | ⟨_, _, _, h⟩
    · rw [hv] at h; cases h
    · rw [hv] at h; cases h
    · rw [hact] at h; cases h
    · rw [hact] at h; cases h

/-- **Validator error**: the step ends the read with the error outcome — never with a line, and
    never by continuing to edit; the text is untouched. -/
theorem C13_error_propagates (S : Segmenter) (U : UData) (cfg : EdCfg) (aim : Bool) (s : Ed)
    (hh : cfg.hasHelper = true) (hv : cfg.validator s.line.buf = .error) :
    ∃ s', execute S U cfg (.acceptOrInsertLine aim) s = .error (.helperError, s') ∧ s'.line = s.line := by
  have hw := C13_execute_by_action S U cfg aim s
  rw [execute_acceptOrInsertLine] at hw ⊢
  -- the verdict is not an error on any normal return
  have hw2 : wp (withPreAccept S U cfg (execAccept S U cfg aim)) (fun _ _ => False) (fun _ _ => True) s := by
    refine wp_withPreAccept S U cfg fun s1 hc => ?_
    obtain ⟨hl, _⟩ := Ed.core_eq hc
    refine wp_mono (execAccept_spec S U cfg aim s1) ?_ (fun _ _ _ => trivial)
    intro st s2 ⟨hne, _⟩
    apply hne; unfold verdictOf; rw [if_pos hh, hl, hv]
  unfold wp at hw hw2
  cases hx : withPreAccept S U cfg (execAccept S U cfg aim) s with
  | ok p => rw [hx] at hw2; exact hw2.elim
  | error p =>
    obtain ⟨o, s'⟩ := p
    rw [hx] at hw
    rcases hw with ⟨hl, ⟨ho, _, _⟩ | ⟨_, _, h⟩ | ⟨_, h, _⟩⟩ | ⟨_, _, h, _⟩
    · subst ho; exact ⟨s', rfl, hl⟩
    · rw [hv] at h; cases h
    · exfalso
      apply h; unfold verdictOf; rw [if_pos hh, hv]
    · exfalso
      apply h; unfold verdictOf; rw [if_pos hh, hv]

/-- non-vacuity: every action of the table occurs -/
example : acceptDecision true true false false = .submit ∧ acceptDecision false true false false = .insertNewline
    ∧ acceptDecision true false true true = .stay := by decide
