/-
  Property C13 — Enter returns a line only if the validator accepts exactly that line.
  Model: `execAccept` / `acceptDecision` / `validate` in Rl/Editor.lean (command.rs:132-156, edit.rs:237-262).
  The non-terminal clause is proved in Rl/Props/C18.lean (`C18_validator…`).
-/
import Rl.Editor
open Rl

/-- The decision table: Enter submits only on a Valid verdict. -/
theorem C13_table_submit (aim valid hasMsg atEnd : Bool)
    (h : acceptDecision aim valid hasMsg atEnd = .submit) : valid = true := by
  unfold acceptDecision at h
  cases valid <;> cases hasMsg <;> simp at h ⊢

/-- With `accept_in_the_middle` (the binding of Enter / C-j / C-m) a Valid verdict always submits. -/
theorem C13_table_valid_submits (hasMsg atEnd : Bool) :
    acceptDecision true true hasMsg atEnd = .submit := by
  unfold acceptDecision; simp

/-- Incomplete (no message): a line break is inserted. -/
theorem C13_table_incomplete (aim atEnd : Bool) :
    acceptDecision aim false false atEnd = .insertNewline := by
  unfold acceptDecision; simp

/-- Invalid with a message: the text is left alone. -/
theorem C13_table_invalid_msg (aim atEnd : Bool) :
    acceptDecision aim false true atEnd = .stay := by
  unfold acceptDecision; simp

/-- Full statement at the level of the editor step (work in progress, see DESIGN.md): if the Enter
    command submits, the validator judged the buffer Valid and the buffer is what is returned. -/
def C13_submit_requires_valid_statement : Prop :=
  ∀ (S : Segmenter) (U : UData) (cfg : EdCfg) (aim : Bool) (s s' : Ed),
    execAccept S U cfg aim s = .ok (.submit, s') →
    s'.line = s.line ∧ (cfg.hasHelper = true → ∃ m, cfg.validator s.line.buf = .valid m)

/-- non-vacuity: every action of the table occurs -/
example : acceptDecision true true false false = .submit ∧ acceptDecision false true false false = .insertNewline
    ∧ acceptDecision true false true true = .stay := by decide
