/-
  C03 — line buffer operations are total, keep the cursor valid and report every change.

  All theorems are about the model `Rl/LineBuffer.lean` (tied to the code by `./check C03`), for
  EVERY lawful segmenter `S` and every Unicode data `U`.
  * `C03_notifications_replay`, `C03_motion_copy_pure`: for every public operation, unconditionally;
  * `C03_capacity_*`: the three operations that honour the fixed capacity;
  * `C03_<op>_total_wf`: no panic from a well-formed state + cursor stays on a boundary, per operation
    (every public method, incl. `indent`/dedent: `C03_indent_total_wf`);
  * `C03_op_total_wf_replay_statement`: the full single statement of DESIGN.md, kept as a `def`: it is
    false for `insert_str` before the cursor (`C03_insertStr_counterexample`); proved for every other
    operation (`C03_op_total_wf_replay_partial`) and for every operation with the one hypothesis
    `insert_str`'s index ≥ cursor (`C03_op_total_wf_replay_all_partial`).
-/
import Rl.LineBuffer
import Rl.Spec.LineBuffer
import Rl.Lemmas.LineBuffer
import Rl.Lemmas.LineBufferSafe
import Rl.Lemmas.Motion
import Rl.Lemmas.Indent
import Rl.Lemmas.LineBufferSeq
open Rl Rl.Spec

/-- Clause "reports … a sequence of notifications that, replayed on the old text, yields exactly the
    new text": holds for EVERY public operation, every state (well-formed or not), every argument. -/
theorem C03_notifications_replay (S : Segmenter) (U : UData) (op : Op) (lb lb' : LB) (r : Ret)
    (ns : List Notif) (h : Op.run S U op lb = .ok (r, lb', ns)) :
    replay ns lb.buf = some lb'.buf :=
  (Replays.run S U op).h lb r lb' ns h

/-- Clause "changes the text only if it is an editing operation": every motion, query and copy
    leaves text and capacity alone and does not call the listener at all. -/
theorem C03_motion_copy_pure (S : Segmenter) (U : UData) (op : Op) (hop : Op.isMotionOrCopy op = true)
    (lb lb' : LB) (r : Ret) (ns : List Notif) (h : Op.run S U op lb = .ok (r, lb', ns)) :
    lb'.buf = lb.buf ∧ lb'.cap = lb.cap ∧ ns = [] := by
  obtain ⟨h1, h2, _, h4⟩ := (PosOnly.run S U op hop).h lb r lb' ns h
  exact ⟨h1, h2, h4⟩

/-! ### capacity -/

/-- `insert` with a fixed capacity: either refuses (`None`: nothing changes, nothing is notified) or
    the new text fits. -/
theorem C03_capacity_insert (S : Segmenter) (U : UData) (c : Char) (n : Nat) (lb lb' : LB)
    (r : Option Bool) (ns : List Notif) (hfix : lb.canGrow = false)
    (h : LB.insert S U c n lb = .ok (r, lb', ns)) :
    (r = none ∧ lb' = lb ∧ ns = []) ∨ blen lb'.buf ≤ lb.cap := by
  rw [insert_eval] at h
  split at h
  · cases h; exact Or.inl ⟨rfl, rfl, rfl⟩
  · rename_i ht
    right
    have hfit : blen lb.buf + c.utf8Size * n ≤ lb.cap := by
      simp [LB.mustTruncate, hfix, LB.len] at ht; exact ht
    split at h
    · cases h
    · rename_i x z hs
      cases h
      obtain ⟨hb, _⟩ := splitAtByte_some hs
      simp [hb, blen_replicate] at hfit ⊢; omega

/-- `yank` with a fixed capacity: refuses or fits. -/
theorem C03_capacity_yank (S : Segmenter) (U : UData) (t : Text) (n : Nat) (lb lb' : LB)
    (r : Option Bool) (ns : List Notif) (hfix : lb.canGrow = false)
    (h : LB.yank S U t n lb = .ok (r, lb', ns)) :
    (r = none ∧ lb' = lb ∧ ns = []) ∨ blen lb'.buf ≤ lb.cap := by
  rw [yank_eval] at h
  split at h
  · cases h; exact Or.inl ⟨rfl, rfl, rfl⟩
  · rename_i ht
    right
    have hfit : blen lb.buf + blen t * n ≤ lb.cap := by
      simp [LB.mustTruncate, hfix, LB.len] at ht; exact ht.2
    split at h
    · cases h
    · rename_i x z hs
      cases h
      obtain ⟨hb, _⟩ := splitAtByte_some hs
      simp [hb, blen_yankText] at hfit ⊢; omega

/-- `yank_pop` with a fixed capacity (after the repair of D44): either it refuses BEFORE anything is removed
    (`None`: nothing changes, nothing is notified), or it answers `Some` and the new text fits. -/
theorem C03_capacity_yankPop (S : Segmenter) (U : UData) (k : Nat) (t : Text) (lb lb' : LB)
    (r : Option Bool) (ns : List Notif) (hfix : lb.canGrow = false)
    (h : LB.yankPop S U k t lb = .ok (r, lb', ns)) :
    (r = none ∧ lb' = lb ∧ ns = []) ∨ (r.isSome = true ∧ blen lb'.buf ≤ lb.cap) := by
  unfold LB.yankPop at h
  by_cases h1 : k > lb.pos
  · simp [LM.bind_apply, LM.get, h1, LM.panic] at h
  by_cases h2 : k > lb.len
  · simp [LM.bind_apply, LM.get, h1, h2, LM.panic] at h
  by_cases ht : lb.mustTruncate (lb.len - k + blen t) = true
  · simp [LM.bind_apply, LM.get, h1, h2, ht, LM.pure_apply] at h
    obtain ⟨rfl, rfl, rfl⟩ := h
    exact Or.inl ⟨rfl, rfl, rfl⟩
  · right
    have hfit : blen lb.buf - k + blen t ≤ lb.cap := by
      simp [LB.mustTruncate, hfix, LB.len] at ht; exact ht
    cases hd : LB.drain (lb.pos - k) lb.pos .forward lb with
    | error e => simp [LM.bind_apply, LM.get, h1, h2, ht, hd] at h
    | ok v =>
      obtain ⟨y, l1, n1⟩ := v
      have hd' := hd
      unfold LB.drain at hd'
      split at hd'
      · rename_i x y' z hs3
        cases hd'
        obtain ⟨hbuf, hx, hy⟩ := split3_ok hs3
        have hlen : blen (x ++ z) = blen lb.buf - k := by
          have e1 : blen lb.buf = blen x + blen y + blen z := by rw [hbuf]; simp; omega
          simp; omega
        cases hy2 : LB.yank S U t 1 { lb with buf := x ++ z, pos := lb.pos - k } with
        | error e => simp [LM.bind_apply, LM.get, h1, h2, ht, hd, LM.setPos, hy2] at h
        | ok v2 =>
          obtain ⟨r2, l2, n2⟩ := v2
          simp [LM.bind_apply, LM.get, h1, h2, ht, hd, LM.setPos, hy2] at h
          obtain ⟨rfl, rfl, _⟩ := h
          refine ⟨rfl, ?_⟩
          rcases C03_capacity_yank S U t 1 { lb with buf := x ++ z, pos := lb.pos - k } l2 r2 n2 hfix hy2 with ⟨_, hl2, _⟩ | hf2
          · rw [hl2]
            show blen (x ++ z) ≤ lb.cap
            rw [hlen]; omega
          · exact hf2
      · cases hd'

/-! ### no panic from a well-formed state, and the cursor stays on a character boundary -/

theorem C03_moveBufferStart_total_wf (S : Segmenter) (U : UData) (lb : LB) :
    ∃ r lb', LB.moveBufferStart S U lb = .ok (r, lb', []) ∧ WF lb' ∧ lb'.buf = lb.buf := by
  unfold LB.moveBufferStart
  by_cases h : lb.pos > 0
  · exact ⟨true, { lb with pos := 0 }, by simp [LM.bind_apply, LM.get, LM.setPos, h], isBoundary_zero _, rfl⟩
  · have h0 : lb.pos = 0 := by omega
    refine ⟨false, lb, by simp [LM.bind_apply, LM.get, h], ?_, rfl⟩
    unfold WF; rw [h0]; exact isBoundary_zero _

theorem C03_moveBufferEnd_total_wf (S : Segmenter) (U : UData) (lb : LB) (h : WF lb) :
    ∃ r lb', LB.moveBufferEnd S U lb = .ok (r, lb', []) ∧ WF lb' ∧ lb'.buf = lb.buf := by
  unfold LB.moveBufferEnd
  by_cases he : lb.pos = lb.len
  · exact ⟨false, lb, by simp [LM.bind_apply, LM.get, he], h, rfl⟩
  · exact ⟨true, { lb with pos := lb.len }, by simp [LM.bind_apply, LM.get, LM.setPos, he],
      isBoundary_len _, rfl⟩

/-- character motion forward: total, cursor on a boundary, text untouched -/
theorem C03_moveForward_total_wf (S : Segmenter) (U : UData) (lb : LB) (n : Nat) (h : WF lb) :
    ∃ r lb', LB.moveForward S U n lb = .ok (r, lb', []) ∧ WF lb' ∧ lb'.buf = lb.buf := by
  obtain ⟨r, hr, hp⟩ := nextPos_ok S lb n h
  unfold LB.moveForward
  simp only [LM.bind_apply, LM.ro, hr]
  cases r with
  | none => exact ⟨false, lb, rfl, h, rfl⟩
  | some p =>
    obtain ⟨hb, _⟩ := hp p rfl
    exact ⟨true, { lb with pos := p }, rfl, hb, rfl⟩

theorem C03_moveBackward_total_wf (S : Segmenter) (U : UData) (lb : LB) (n : Nat) (h : WF lb) :
    ∃ r lb', LB.moveBackward S U n lb = .ok (r, lb', []) ∧ WF lb' ∧ lb'.buf = lb.buf := by
  obtain ⟨r, hr, hp⟩ := prevPos_ok S lb n h
  unfold LB.moveBackward
  simp only [LM.bind_apply, LM.ro, hr]
  cases r with
  | none => exact ⟨false, lb, rfl, h, rfl⟩
  | some p =>
    obtain ⟨hb, _⟩ := hp p rfl
    exact ⟨true, { lb with pos := p }, rfl, hb, rfl⟩

/-- `delete` (forward, n clusters): total; removes a slice starting at the cursor; cursor unchanged -/
theorem C03_delete_total_wf (S : Segmenter) (U : UData) (lb : LB) (n : Nat) (h : WF lb) :
    ∃ r lb' ns, LB.delete S U n lb = .ok (r, lb', ns) ∧ WF lb' ∧ lb'.pos = lb.pos := by
  obtain ⟨r, hr, hp⟩ := nextPos_ok S lb n h
  unfold LB.delete
  simp only [LM.bind_apply, LM.ro, hr]
  cases r with
  | none => exact ⟨none, lb, [], rfl, h, rfl⟩
  | some p =>
    obtain ⟨hb, hlt⟩ := hp p rfl
    obtain ⟨x, y, z, hd, hbuf, hx, _⟩ := drain_ok .forward h hb (Nat.le_of_lt hlt)
    refine ⟨some y, { lb with buf := x ++ z }, [.del lb.pos y .forward], ?_, ?_, rfl⟩
    · simp [LM.bind_apply, LM.get, hd]
    · show IsBoundary (x ++ z) lb.pos
      rw [hx]; exact isBoundary_mid x z

/-- `backspace` (n clusters): total; cursor at the start of the removed slice -/
theorem C03_backspace_total_wf (S : Segmenter) (U : UData) (lb : LB) (n : Nat) (h : WF lb) :
    ∃ r lb' ns, LB.backspace S U n lb = .ok (r, lb', ns) ∧ WF lb' := by
  obtain ⟨r, hr, hp⟩ := prevPos_ok S lb n h
  unfold LB.backspace
  simp only [LM.bind_apply, LM.ro, hr]
  cases r with
  | none => exact ⟨false, lb, [], rfl, h⟩
  | some p =>
    obtain ⟨hb, hlt⟩ := hp p rfl
    obtain ⟨x, y, z, hd, hbuf, hx, _⟩ := drain_ok .backward hb h (Nat.le_of_lt hlt)
    refine ⟨true, { lb with buf := x ++ z, pos := p }, [.del p y .backward], ?_, ?_⟩
    · simp [LM.bind_apply, LM.get, hd, LM.setPos]
    · show IsBoundary (x ++ z) p
      rw [hx]; exact isBoundary_mid x z

/-- `insert` (char × n): total from a well-formed state; the cursor ends after the inserted text -/
theorem C03_insert_total_wf (S : Segmenter) (U : UData) (c : Char) (n : Nat) (lb : LB) (h : WF lb) :
    ∃ r lb' ns, LB.insert S U c n lb = .ok (r, lb', ns) ∧ WF lb' := by
  obtain ⟨x, z, hb, hp⟩ := h.split
  rw [insert_eval]
  split
  · exact ⟨none, lb, [], rfl, h⟩
  · rw [hb, hp, splitAtByte_append]
    refine ⟨_, _, _, rfl, ?_⟩
    show IsBoundary (x ++ List.replicate n c ++ z) (blen x + c.utf8Size * n)
    exact ⟨x ++ List.replicate n c, z, rfl, by simp [blen_replicate]⟩

/-- `yank`: total from a well-formed state -/
theorem C03_yank_total_wf (S : Segmenter) (U : UData) (t : Text) (n : Nat) (lb : LB) (h : WF lb) :
    ∃ r lb' ns, LB.yank S U t n lb = .ok (r, lb', ns) ∧ WF lb' := by
  obtain ⟨x, z, hb, hp⟩ := h.split
  rw [yank_eval]
  split
  · exact ⟨none, lb, [], rfl, h⟩
  · rw [hb, hp, splitAtByte_append]
    refine ⟨_, _, _, rfl, ?_⟩
    show IsBoundary (x ++ yankText t n ++ z) (blen x + blen t * n)
    exact ⟨x ++ yankText t n, z, rfl, by simp [blen_yankText]⟩

/-- `kill_buffer`: total -/
theorem C03_killBuffer_total_wf (S : Segmenter) (U : UData) (lb : LB) (h : WF lb) :
    ∃ r lb' ns, LB.killBuffer S U lb = .ok (r, lb', ns) ∧ WF lb' := by
  unfold LB.killBuffer
  by_cases hc : (!lb.buf.isEmpty && decide (lb.pos < lb.len)) = true
  · obtain ⟨x, y, z, hd, hbuf, hx, _⟩ := drain_ok .forward h (isBoundary_len lb.buf) h.le_len
    refine ⟨true, { lb with buf := x ++ z }, [.del lb.pos y .forward], ?_, ?_⟩
    · simp only [LM.bind_apply, LM.get, hc, if_true]
      have : LB.drain lb.pos lb.len .forward lb = _ := hd
      simp [this]
    · show IsBoundary (x ++ z) lb.pos
      rw [hx]; exact isBoundary_mid x z
  · exact ⟨false, lb, [], by simp only [LM.bind_apply, LM.get, hc]; rfl, h⟩

/-- `discard_buffer`: total -/
theorem C03_discardBuffer_total_wf (S : Segmenter) (U : UData) (lb : LB) (h : WF lb) :
    ∃ r lb' ns, LB.discardBuffer S U lb = .ok (r, lb', ns) ∧ WF lb' := by
  unfold LB.discardBuffer
  by_cases hc : (decide (lb.pos > 0) && !lb.buf.isEmpty) = true
  · obtain ⟨x, y, z, hd, hbuf, hx, _⟩ := drain_ok .backward (isBoundary_zero lb.buf) h (Nat.zero_le _)
    refine ⟨true, { lb with buf := x ++ z, pos := 0 }, [.del 0 y .backward], ?_, isBoundary_zero _⟩
    simp only [LM.bind_apply, LM.get, hc, if_true]
    simp [hd, LM.setPos]
  · exact ⟨false, lb, [], by simp only [LM.bind_apply, LM.get, hc]; rfl, h⟩

/-- `insert_str` at a boundary: total; the cursor (which the primitive does not move) stays valid
    when the insertion is not before it -/
theorem C03_insertStr_total_wf (S : Segmenter) (U : UData) (i : Nat) (t : Text) (lb : LB) (h : WF lb)
    (hi : IsBoundary lb.buf i) (hpos : lb.pos ≤ i) :
    ∃ r lb' ns, LB.insertStr S U i t lb = .ok (r, lb', ns) ∧ WF lb' := by
  obtain ⟨x, z, he, hb, hx⟩ := insertStr_ok S U t hi
  refine ⟨_, _, _, he, ?_⟩
  show IsBoundary (x ++ t ++ z) lb.pos
  have hpx : IsBoundary x lb.pos := isBoundary_prefix (by rw [← hb]; exact h) (by omega)
  obtain ⟨a, b, rfl, hpa⟩ := hpx
  exact ⟨a, b ++ t ++ z, by simp, hpa⟩

/-- `replace` on an ordered pair of boundaries: total; cursor after the new text -/
theorem C03_replace_total_wf (S : Segmenter) (U : UData) (a b : Nat) (t : Text) (lb : LB)
    (ha : IsBoundary lb.buf a) (hb : IsBoundary lb.buf b) (hab : a ≤ b) :
    ∃ lb' ns, LB.replace S U a b t lb = .ok ((), lb', ns) ∧ WF lb' := by
  obtain ⟨x, y, z, hs, hbuf, hx, _⟩ := split3_of_boundaries ha hb hab
  refine ⟨{ lb with buf := x ++ t ++ z, pos := a + blen t,
                     cap := growCap lb.cap (blen x + blen z + blen t) }, [.repl a y t],
          by simp [LB.replace, hs], ?_⟩
  show IsBoundary (x ++ t ++ z) (a + blen t)
  exact ⟨x ++ t, z, rfl, by simp [hx]⟩

/-- `delete_range` on an ordered pair of boundaries: total; cursor at the range start -/
theorem C03_deleteRange_total_wf (S : Segmenter) (U : UData) (a b : Nat) (lb : LB)
    (ha : IsBoundary lb.buf a) (hb : IsBoundary lb.buf b) (hab : a ≤ b) :
    ∃ lb' ns, LB.deleteRange S U a b lb = .ok ((), lb', ns) ∧ WF lb' := by
  have hle : a ≤ lb.len := ha.le_len
  obtain ⟨x, y, z, hd, hbuf, hx, _⟩ :=
    drain_ok (lb := { lb with pos := a }) .forward ha hb hab
  refine ⟨{ lb with buf := x ++ z, pos := a }, [.del a y .forward], ?_, ?_⟩
  · unfold LB.deleteRange
    simp [LM.bind_apply, LB.setPosChecked, hle, hd]
  · show IsBoundary (x ++ z) a
    rw [hx]; exact isBoundary_mid x z

/-- `set_pos` on a boundary -/
theorem C03_setPos_total_wf (S : Segmenter) (U : UData) (p : Nat) (lb : LB) (hp : IsBoundary lb.buf p) :
    ∃ lb', LB.setPosChecked S U p lb = .ok ((), lb', []) ∧ WF lb' ∧ lb'.buf = lb.buf := by
  have hle : p ≤ lb.len := hp.le_len
  exact ⟨{ lb with pos := p }, by simp [LB.setPosChecked, hle], hp, rfl⟩

/-- `update` (the repaired D6): for every new text and every boundary cursor of it, total; the cursor
    is on a boundary of the stored text; with a fixed capacity the stored text fits, i.e. it is cut
    on a character boundary instead of exceeding the capacity or panicking. -/
theorem C03_update_total_wf_capacity (S : Segmenter) (U : UData) (b : Text) (p : Nat) (lb : LB)
    (hp : IsBoundary b p) :
    ∃ lb' ns, LB.update S U b p lb = .ok ((), lb', ns) ∧ WF lb' ∧
      (lb.canGrow = false → blen lb'.buf ≤ lb.cap) := by
  have hple : p ≤ blen b := hp.le_len
  unfold LB.update
  by_cases ht : ({ lb with buf := [] } : LB).mustTruncate (blen b) = true
  · obtain ⟨hfb, hfle⟩ := floorBoundary_spec b lb.cap
    obtain ⟨cut, rest, hcr, hcl⟩ := hfb
    have hs : sliceTo b (floorBoundary b lb.cap) = .ok cut := by
      rw [hcl]; conv => lhs; rw [hcr]
      exact sliceTo_mid cut rest
    refine ⟨{ lb with buf := cut, pos := min (floorBoundary b lb.cap) p, cap := growCap lb.cap (blen cut) },
      [.del 0 lb.buf .forward, .insStr 0 cut], ?_, ?_, ?_⟩
    · simp [LM.bind_apply, LM.get, hple, drain_all, ht, LM.lift, hs, insertStr_empty, LM.setPos]
    · show IsBoundary cut (min (floorBoundary b lb.cap) p)
      have h1 : IsBoundary cut (floorBoundary b lb.cap) := by rw [hcl]; exact isBoundary_len cut
      by_cases hle : floorBoundary b lb.cap ≤ p
      · rw [Nat.min_eq_left hle]; exact h1
      · rw [Nat.min_eq_right (by omega)]
        exact isBoundary_prefix (by rw [← hcr]; exact hp) (by omega)
    · intro _; show blen cut ≤ lb.cap; omega
  · refine ⟨{ lb with buf := b, pos := p, cap := growCap lb.cap (blen b) },
      [.del 0 lb.buf .forward, .insStr 0 b], ?_, hp, ?_⟩
    · simp [LM.bind_apply, LM.get, hple, drain_all, ht, insertStr_empty, LM.setPos]
    · intro hfix
      show blen b ≤ lb.cap
      simp [LB.mustTruncate, hfix] at ht; exact ht

/-- `move_home`: total, boundary, text untouched -/
theorem C03_moveHome_total_wf (S : Segmenter) (U : UData) (lb : LB) (h : WF lb) :
    ∃ r lb', LB.moveHome S U lb = .ok (r, lb', []) ∧ WF lb' ∧ lb'.buf = lb.buf := by
  obtain ⟨e, he, hb, _⟩ := startOfLine_ok lb h
  unfold LB.moveHome
  by_cases hc : lb.pos > e
  · exact ⟨true, { lb with pos := e }, by simp [LM.bind_apply, LM.ro, he, LM.get, hc, LM.setPos], hb, rfl⟩
  · exact ⟨false, lb, by simp [LM.bind_apply, LM.ro, he, LM.get, hc], h, rfl⟩

/-- `move_to_first_print` (vi `^`, D46): total, boundary, text untouched -/
theorem C03_moveToFirstPrint_total_wf (S : Segmenter) (U : UData) (lb : LB) (h : WF lb) :
    ∃ r lb', LB.moveToFirstPrint S U lb = .ok (r, lb', []) ∧ WF lb' ∧ lb'.buf = lb.buf := by
  obtain ⟨p, hp, hpb⟩ := firstPrint_ok S U lb h
  exact ⟨p != lb.pos, { lb with pos := p },
    by simp [LB.moveToFirstPrint, LM.bind_apply, LM.ro, hp, LM.get, LM.setPos], hpb, rfl⟩

/-- `move_end`: total, boundary, text untouched -/
theorem C03_moveEnd_total_wf (S : Segmenter) (U : UData) (lb : LB) (h : WF lb) :
    ∃ r lb', LB.moveEnd S U lb = .ok (r, lb', []) ∧ WF lb' ∧ lb'.buf = lb.buf := by
  obtain ⟨e, he, hb, _⟩ := endOfLine_ok lb h
  unfold LB.moveEnd
  by_cases hc : lb.pos = e
  · exact ⟨false, lb, by simp [LM.bind_apply, LM.ro, he, LM.get, hc], h, rfl⟩
  · exact ⟨true, { lb with pos := e }, by simp [LM.bind_apply, LM.ro, he, LM.get, hc, LM.setPos], hb, rfl⟩

/-- `kill_line`: total -/
theorem C03_killLine_total_wf (S : Segmenter) (U : UData) (lb : LB) (h : WF lb) :
    ∃ r lb' ns, LB.killLine S U lb = .ok (r, lb', ns) ∧ WF lb' := by
  obtain ⟨e, he, hb, hle⟩ := endOfLine_ok lb h
  unfold LB.killLine
  by_cases hc : (!lb.buf.isEmpty && decide (lb.pos < lb.len)) = true
  · have hc' : ¬lb.buf = [] ∧ lb.pos < lb.len := by simpa using hc
    by_cases hse : lb.pos = e
    · subst hse
      obtain ⟨r, lb', ns, hd, hwf, _⟩ := C03_delete_total_wf S U lb 1 h
      refine ⟨true, lb', ns, ?_, hwf⟩
      simp [LM.bind_apply, LM.get, hc', LM.ro, he, hd]
    · obtain ⟨x, y, z, hd, hbuf, hx, _⟩ := drain_ok .forward h hb hle
      refine ⟨true, { lb with buf := x ++ z }, [.del lb.pos y .forward], ?_, ?_⟩
      · simp [LM.bind_apply, LM.get, hc', LM.ro, he, hse, hd]
      · show IsBoundary (x ++ z) lb.pos
        rw [hx]; exact isBoundary_mid x z
  · exact ⟨false, lb, [], by simp only [LM.bind_apply, LM.get, hc]; rfl, h⟩

/-- `discard_line`: total -/
theorem C03_discardLine_total_wf (S : Segmenter) (U : UData) (lb : LB) (h : WF lb) :
    ∃ r lb' ns, LB.discardLine S U lb = .ok (r, lb', ns) ∧ WF lb' := by
  obtain ⟨e, he, hb, hle⟩ := startOfLine_ok lb h
  unfold LB.discardLine
  by_cases hc : (decide (lb.pos > 0) && !lb.buf.isEmpty) = true
  · have hc' : 0 < lb.pos ∧ ¬lb.buf = [] := by simpa using hc
    by_cases hse : lb.pos = e
    · subst hse
      obtain ⟨r, lb', ns, hd, hwf⟩ := C03_backspace_total_wf S U lb 1 h
      refine ⟨r, lb', ns, ?_, hwf⟩
      simp [LM.bind_apply, LM.get, hc', LM.ro, he, hd]
    · obtain ⟨x, y, z, hd, hbuf, hx, _⟩ := drain_ok .backward hb h hle
      refine ⟨true, { lb with buf := x ++ z, pos := e }, [.del e y .backward], ?_, ?_⟩
      · simp [LM.bind_apply, LM.get, hc', LM.ro, he, hse, hd, LM.setPos]
      · show IsBoundary (x ++ z) e
        rw [hx]; exact isBoundary_mid x z
  · exact ⟨false, lb, [], by simp only [LM.bind_apply, LM.get, hc]; rfl, h⟩

/-- word motion forward (every anchor, every word definition, every count incl. 0 and 65535): total,
    cursor on a boundary, text untouched -/
theorem C03_moveToNextWord_total_wf (S : Segmenter) (U : UData) (a : At) (d : Word) (n : Nat) (lb : LB)
    (h : WF lb) :
    ∃ r lb', LB.moveToNextWord S U a d n lb = .ok (r, lb', []) ∧ WF lb' ∧ lb'.buf = lb.buf := by
  obtain ⟨r, hr, hp⟩ := nextWordPosR_ok_all S U lb a d n false h
  unfold LB.moveToNextWord LB.nextWordPos
  simp only [LM.bind_apply, LM.ro, hr]
  cases r with
  | none => exact ⟨false, lb, rfl, h, rfl⟩
  | some p => exact ⟨true, { lb with pos := p }, rfl, (hp p rfl).1, rfl⟩

/-- word motion backward: total, cursor on a boundary, text untouched -/
theorem C03_moveToPrevWord_total_wf (S : Segmenter) (U : UData) (d : Word) (n : Nat) (lb : LB) (h : WF lb) :
    ∃ r lb', LB.moveToPrevWord S U d n lb = .ok (r, lb', []) ∧ WF lb' ∧ lb'.buf = lb.buf := by
  obtain ⟨r, hr, hp⟩ := prevWordPos_ok S U lb d n h
  unfold LB.moveToPrevWord
  simp only [LM.bind_apply, LM.ro, hr]
  cases r with
  | none => exact ⟨false, lb, rfl, h, rfl⟩
  | some p => exact ⟨true, { lb with pos := p }, rfl, (hp p rfl).1, rfl⟩

/-- `delete_word` (every anchor): total -/
theorem C03_deleteWord_total_wf (S : Segmenter) (U : UData) (a : At) (d : Word) (n : Nat) (lb : LB)
    (h : WF lb) :
    ∃ r lb' ns, LB.deleteWord S U a d n lb = .ok (r, lb', ns) ∧ WF lb' := by
  obtain ⟨r, hr, hp⟩ := nextWordPosR_ok_all S U lb a d n true h
  unfold LB.deleteWord
  simp only [LM.bind_apply, LM.ro, hr]
  cases r with
  | none => exact ⟨false, lb, [], rfl, h⟩
  | some p =>
    obtain ⟨hb, hle⟩ := hp p rfl
    obtain ⟨x, y, z, hd, hbuf, hx, _⟩ := drain_ok .forward h hb hle
    refine ⟨true, { lb with buf := x ++ z }, [.del lb.pos y .forward], ?_, ?_⟩
    · simp [LM.bind_apply, LM.get, hd]
    · show IsBoundary (x ++ z) lb.pos
      rw [hx]; exact isBoundary_mid x z

/-- `delete_prev_word`: total -/
theorem C03_deletePrevWord_total_wf (S : Segmenter) (U : UData) (d : Word) (n : Nat) (lb : LB) (h : WF lb) :
    ∃ r lb' ns, LB.deletePrevWord S U d n lb = .ok (r, lb', ns) ∧ WF lb' := by
  obtain ⟨r, hr, hp⟩ := prevWordPos_ok S U lb d n h
  unfold LB.deletePrevWord
  simp only [LM.bind_apply, LM.ro, hr]
  cases r with
  | none => exact ⟨false, lb, [], rfl, h⟩
  | some p =>
    obtain ⟨hb, hle⟩ := hp p rfl
    obtain ⟨x, y, z, hd, hbuf, hx, _⟩ := drain_ok .backward hb h hle
    refine ⟨true, { lb with buf := x ++ z, pos := p }, [.del p y .backward], ?_, ?_⟩
    · simp [LM.bind_apply, LM.get, hd, LM.setPos]
    · show IsBoundary (x ++ z) p
      rw [hx]; exact isBoundary_mid x z

/-- `move_to` (f/t/F/T char search; after the D7 repair): total, cursor on a boundary, text untouched -/
theorem C03_moveTo_total_wf (S : Segmenter) (U : UData) (cs : CharSearch) (n : Nat) (lb : LB) (h : WF lb) :
    ∃ r lb', LB.moveTo S U cs n lb = .ok (r, lb', []) ∧ WF lb' ∧ lb'.buf = lb.buf := by
  obtain ⟨r, hr, hp⟩ := searchCharPos_ok S lb cs n h
  unfold LB.moveTo
  simp only [LM.bind_apply, LM.ro, hr]
  cases r with
  | none => exact ⟨false, lb, rfl, h, rfl⟩
  | some p => exact ⟨true, { lb with pos := p }, rfl, (hp p rfl).1, rfl⟩

/-- `delete_to`: total -/
theorem C03_deleteTo_total_wf (S : Segmenter) (U : UData) (cs : CharSearch) (n : Nat) (lb : LB) (h : WF lb) :
    ∃ r lb' ns, LB.deleteTo S U cs n lb = .ok (r, lb', ns) ∧ WF lb' := by
  cases cs with
  | forward c =>
    obtain ⟨r, hr, hp⟩ := searchCharPos_ok S lb (.forward c) n h
    unfold LB.deleteTo
    simp only [LM.bind_apply, LM.ro, hr]
    cases r with
    | none => exact ⟨false, lb, [], rfl, h⟩
    | some p =>
      obtain ⟨_, hle, hb2⟩ := hp p rfl
      obtain ⟨x, y, z, hd, hbuf, hx, _⟩ := drain_ok .forward h hb2 (by omega)
      refine ⟨true, { lb with buf := x ++ z }, [.del lb.pos y .forward], by simp [LM.bind_apply, LM.get, hd], ?_⟩
      show IsBoundary (x ++ z) lb.pos
      rw [hx]; exact isBoundary_mid x z
  | forwardBefore c =>
    obtain ⟨r, hr, hp⟩ := searchCharPos_ok S lb (.forward c) n h
    unfold LB.deleteTo
    simp only [LM.bind_apply, LM.ro, hr]
    cases r with
    | none => exact ⟨false, lb, [], rfl, h⟩
    | some p =>
      obtain ⟨hb1, hle, _⟩ := hp p rfl
      obtain ⟨x, y, z, hd, hbuf, hx, _⟩ := drain_ok .forward h hb1 hle
      refine ⟨true, { lb with buf := x ++ z }, [.del lb.pos y .forward], by simp [LM.bind_apply, LM.get, hd], ?_⟩
      show IsBoundary (x ++ z) lb.pos
      rw [hx]; exact isBoundary_mid x z
  | backward c =>
    obtain ⟨r, hr, hp⟩ := searchCharPos_ok S lb (.backward c) n h
    unfold LB.deleteTo
    simp only [LM.bind_apply, LM.ro, hr]
    cases r with
    | none => exact ⟨false, lb, [], rfl, h⟩
    | some p =>
      obtain ⟨hb1, hle⟩ := hp p rfl
      obtain ⟨x, y, z, hd, hbuf, hx, _⟩ := drain_ok (lb := { lb with pos := p }) .backward hb1 h hle
      refine ⟨true, { lb with buf := x ++ z, pos := p }, [.del p y .backward],
        by simp [LM.bind_apply, LM.get, LM.setPos, hd], ?_⟩
      show IsBoundary (x ++ z) p
      rw [hx]; exact isBoundary_mid x z
  | backwardAfter c =>
    obtain ⟨r, hr, hp⟩ := searchCharPos_ok S lb (.backwardAfter c) n h
    unfold LB.deleteTo
    simp only [LM.bind_apply, LM.ro, hr]
    cases r with
    | none => exact ⟨false, lb, [], rfl, h⟩
    | some p =>
      obtain ⟨hb1, hle⟩ := hp p rfl
      obtain ⟨x, y, z, hd, hbuf, hx, _⟩ := drain_ok (lb := { lb with pos := p }) .backward hb1 h hle
      refine ⟨true, { lb with buf := x ++ z, pos := p }, [.del p y .backward],
        by simp [LM.bind_apply, LM.get, LM.setPos, hd], ?_⟩
      show IsBoundary (x ++ z) p
      rw [hx]; exact isBoundary_mid x z

/-- `yank_pop` inside its contract (the previously yanked text ends at the cursor): total -/
theorem C03_yankPop_total_wf (S : Segmenter) (U : UData) (k : Nat) (t : Text) (lb : LB) (h : WF lb)
    (hk : k ≤ lb.pos) (hb : IsBoundary lb.buf (lb.pos - k)) :
    ∃ r lb' ns, LB.yankPop S U k t lb = .ok (r, lb', ns) ∧ WF lb' := by
  obtain ⟨x, y, z, hd, hbuf, hx, _⟩ := drain_ok .forward hb h (Nat.sub_le _ _)
  have hwf1 : WF { lb with buf := x ++ z, pos := lb.pos - k } := by
    show IsBoundary (x ++ z) (lb.pos - k)
    rw [hx]; exact isBoundary_mid x z
  obtain ⟨r, lb', ns, hy, hwf⟩ := C03_yank_total_wf S U t 1 _ hwf1
  have hng : ¬ k > lb.pos := by omega
  have hng2 : ¬ k > lb.len := by have := h.le_len; have : lb.len = blen lb.buf := rfl; omega
  unfold LB.yankPop
  by_cases ht : lb.mustTruncate (lb.len - k + blen t) = true
  · exact ⟨none, lb, [], by simp [LM.bind_apply, LM.get, hng, hng2, ht, LM.pure_apply], h⟩
  · refine ⟨some (r.getD false), lb', [.del (lb.pos - k) y .forward] ++ ns, ?_, hwf⟩
    simp [LM.bind_apply, LM.get, hng, hng2, ht, hd, LM.setPos, hy]

/-- `set_pos(a)` then `drain_around(a..b, cursor)` (the repaired whole-line / whole-buffer kills): total -/
theorem C03_drainAround_total_wf (S : Segmenter) (U : UData) (a b c : Nat) (lb : LB)
    (ha : IsBoundary lb.buf a) (hb : IsBoundary lb.buf b) (hc : IsBoundary lb.buf c) (hab : a ≤ b) :
    ∃ y lb' ns, LB.setPosChecked S U a lb = .ok ((), { lb with pos := a }, []) ∧
      LB.drainAround a b c { lb with pos := a } = .ok (y, lb', ns) ∧ WF lb' := by
  obtain ⟨x, y, z, d, hd, hbuf, hx, _⟩ := drainAround_ok (lb := { lb with pos := a }) c ha hb hc hab
  have hle : a ≤ lb.len := ha.le_len
  refine ⟨y, _, _, by simp [LB.setPosChecked, hle], hd, ?_⟩
  show IsBoundary (x ++ z) a
  rw [hx]; exact isBoundary_mid x z

/-- `kill(LineUp(n))` (dk; after the D2 repair): total -/
theorem C03_kill_lineUp_total_wf (S : Segmenter) (U : UData) (n : Nat) (lb : LB) (h : WF lb) :
    ∃ r lb' ns, LB.kill S U (.lineUp n) lb = .ok (r, lb', ns) ∧ WF lb' := by
  obtain ⟨r, hr, hp⟩ := nLinesUp_ok lb n h
  obtain ⟨x, s, hb, hpos⟩ := h.split
  have hsf : sliceFrom lb.buf lb.pos = .ok s := by rw [hb, hpos]; exact sliceFrom_mid x s
  cases r with
  | none => exact ⟨false, lb, [.startKill, .stopKill], by simp [LB.kill, LM.bind_apply, LM.notify, LM.ro, hr], h⟩
  | some ab =>
    obtain ⟨a, b⟩ := ab
    obtain ⟨hls, hbb, hle1, hle2⟩ := hp a b rfl
    have ha' : IsBoundary lb.buf (if findChar '\n' s = none ∧ 0 < a then a - 1 else a) := by
      split
      · exact hls.pred_boundary
      · exact hls.boundary
    have hle : (if findChar '\n' s = none ∧ 0 < a then a - 1 else a) ≤ b := by
      split <;> omega
    obtain ⟨y, lb', ns, hsp, hd, hwf⟩ := C03_drainAround_total_wf S U _ b lb.pos lb ha' hbb h hle
    exact ⟨true, lb', [.startKill] ++ (ns ++ [.stopKill]),
      by simp [LB.kill, LM.bind_apply, LM.notify, LM.ro, hr, LM.get, LM.lift, hsf, hsp, hd], hwf⟩

/-- `kill(LineDown(n))` (dj; after the D2 repair): total -/
theorem C03_kill_lineDown_total_wf (S : Segmenter) (U : UData) (n : Nat) (lb : LB) (h : WF lb) :
    ∃ r lb' ns, LB.kill S U (.lineDown n) lb = .ok (r, lb', ns) ∧ WF lb' := by
  obtain ⟨r, hr, hp⟩ := nLinesDown_ok lb n h
  cases r with
  | none => exact ⟨false, lb, [.startKill, .stopKill], by simp [LB.kill, LM.bind_apply, LM.notify, LM.ro, hr], h⟩
  | some ab =>
    obtain ⟨a, b⟩ := ab
    obtain ⟨hls, hbb, hle1, hle2⟩ := hp a b rfl
    obtain ⟨x, mid, z, hs, _, _, _⟩ := split3_of_boundaries hls.boundary hbb (by omega)
    have hsl : slice lb.buf a b = .ok mid := by simp [slice, hs]
    have ha' : IsBoundary lb.buf (if (mid.filter (· == '\n')).length ≤ n ∧ 0 < a then a - 1 else a) := by
      split
      · exact hls.pred_boundary
      · exact hls.boundary
    have hle : (if (mid.filter (· == '\n')).length ≤ n ∧ 0 < a then a - 1 else a) ≤ b := by
      split <;> omega
    obtain ⟨y, lb', ns, hsp, hd, hwf⟩ := C03_drainAround_total_wf S U _ b lb.pos lb ha' hbb h hle
    exact ⟨true, lb', [.startKill] ++ (ns ++ [.stopKill]),
      by simp [LB.kill, LM.bind_apply, LM.notify, LM.ro, hr, LM.get, LM.lift, hsl, hsp, hd], hwf⟩

/-- `copy` for EVERY movement (incl. the repaired `WholeLine` and `ViFirstPrint`): never panics from a
    well-formed state (it is read-only, so state and listener are untouched by construction) -/
theorem C03_copy_total (S : Segmenter) (U : UData) (mvt : Movement) (lb : LB) (h : WF lb) :
    ∃ r, LB.copy S U lb mvt = .ok r := by
  by_cases hemp : lb.buf.isEmpty = true
  · exact ⟨none, by simp [LB.copy, hemp]; rfl⟩
  have hemp' : lb.buf.isEmpty = false := by simpa using hemp
  obtain ⟨x, s, hb, hp⟩ := h.split
  have hsf : sliceFrom lb.buf lb.pos = .ok s := by rw [hb, hp]; exact sliceFrom_mid x s
  have hst : sliceTo lb.buf lb.pos = .ok x := by rw [hb, hp]; exact sliceTo_mid x s
  obtain ⟨sl, hsl, hslb, hsle⟩ := startOfLine_ok lb h
  obtain ⟨el, hel, helb, hele⟩ := endOfLine_ok lb h
  cases mvt with
  | wholeLine =>
    obtain ⟨y, hy⟩ := slice_ok hslb helb (by omega)
    by_cases he : (sl == el) = true
    · exact ⟨none, by simp [LB.copy, hemp', hsl, hel, he, bind, Except.bind, pure, Except.pure]⟩
    · exact ⟨some y, by simp [LB.copy, hemp', hsl, hel, he, hy, bind, Except.bind, pure, Except.pure]⟩
  | beginningOfLine =>
    obtain ⟨y, hy⟩ := slice_ok hslb h hsle
    by_cases he : (lb.pos == sl) = true
    · exact ⟨none, by simp [LB.copy, hemp', hsl, he, bind, Except.bind, pure, Except.pure]⟩
    · exact ⟨some y, by simp [LB.copy, hemp', hsl, he, hy, bind, Except.bind, pure, Except.pure]⟩
  | endOfLine =>
    obtain ⟨y, hy⟩ := slice_ok h helb hele
    by_cases he : (lb.pos == el) = true
    · exact ⟨none, by simp [LB.copy, hemp', hel, he, bind, Except.bind, pure, Except.pure]⟩
    · exact ⟨some y, by simp [LB.copy, hemp', hel, he, hy, bind, Except.bind, pure, Except.pure]⟩
  | endOfBuffer =>
    by_cases he : (lb.pos == lb.len) = true
    · exact ⟨none, by simp [LB.copy, hemp', he]; rfl⟩
    · exact ⟨some s, by simp [LB.copy, hemp', he, hsf, bind, Except.bind, pure, Except.pure]⟩
  | wholeBuffer => exact ⟨some lb.buf, by simp [LB.copy, hemp']; rfl⟩
  | beginningOfBuffer =>
    by_cases he : (lb.pos == 0) = true
    · exact ⟨none, by simp [LB.copy, hemp', he]; rfl⟩
    · exact ⟨some x, by simp [LB.copy, hemp', he, hst, bind, Except.bind, pure, Except.pure]⟩
  | backwardWord n d =>
    obtain ⟨r, hr, hpr⟩ := prevWordPos_ok S U lb d n h
    cases r with
    | none => exact ⟨none, by simp [LB.copy, hemp', hr, bind, Except.bind, pure, Except.pure]⟩
    | some p =>
      obtain ⟨hpb, hple⟩ := hpr p rfl
      obtain ⟨y, hy⟩ := slice_ok hpb h hple
      exact ⟨some y, by simp [LB.copy, hemp', hr, hy, bind, Except.bind, pure, Except.pure]⟩
  | forwardWord n a d =>
    obtain ⟨r, hr, hpr⟩ := nextWordPosR_ok_all S U lb a d n true h
    cases r with
    | none => exact ⟨none, by simp [LB.copy, hemp', hr, bind, Except.bind, pure, Except.pure]⟩
    | some p =>
      obtain ⟨hpb, hple⟩ := hpr p rfl
      obtain ⟨y, hy⟩ := slice_ok h hpb hple
      exact ⟨some y, by simp [LB.copy, hemp', hr, hy, bind, Except.bind, pure, Except.pure]⟩
  | backwardChar n =>
    obtain ⟨r, hr, hpr⟩ := prevPos_ok S lb n h
    cases r with
    | none => exact ⟨none, by simp [LB.copy, hemp', hr, bind, Except.bind, pure, Except.pure]⟩
    | some p =>
      obtain ⟨hpb, hple⟩ := hpr p rfl
      obtain ⟨y, hy⟩ := slice_ok hpb h (by omega)
      exact ⟨some y, by simp [LB.copy, hemp', hr, hy, bind, Except.bind, pure, Except.pure]⟩
  | forwardChar n =>
    obtain ⟨r, hr, hpr⟩ := nextPos_ok S lb n h
    cases r with
    | none => exact ⟨none, by simp [LB.copy, hemp', hr, bind, Except.bind, pure, Except.pure]⟩
    | some p =>
      obtain ⟨hpb, hple⟩ := hpr p rfl
      obtain ⟨y, hy⟩ := slice_ok h hpb (by omega)
      exact ⟨some y, by simp [LB.copy, hemp', hr, hy, bind, Except.bind, pure, Except.pure]⟩
  | lineUp n =>
    obtain ⟨r, hr, hpr⟩ := nLinesUp_ok lb n h
    cases r with
    | none => exact ⟨none, by simp [LB.copy, hemp', hr, bind, Except.bind, pure, Except.pure]⟩
    | some ab =>
      obtain ⟨a, b⟩ := ab
      obtain ⟨hls, hbb, h1, h2⟩ := hpr a b rfl
      obtain ⟨y, hy⟩ := slice_ok hls.boundary hbb (by omega)
      exact ⟨some y, by simp [LB.copy, hemp', hr, hy, bind, Except.bind, pure, Except.pure]⟩
  | lineDown n =>
    obtain ⟨r, hr, hpr⟩ := nLinesDown_ok lb n h
    cases r with
    | none => exact ⟨none, by simp [LB.copy, hemp', hr, bind, Except.bind, pure, Except.pure]⟩
    | some ab =>
      obtain ⟨a, b⟩ := ab
      obtain ⟨hls, hbb, h1, h2⟩ := hpr a b rfl
      obtain ⟨y, hy⟩ := slice_ok hls.boundary hbb (by omega)
      exact ⟨some y, by simp [LB.copy, hemp', hr, hy, bind, Except.bind, pure, Except.pure]⟩
  | viCharSearch n cs =>
    cases cs with
    | forward c =>
      obtain ⟨r, hr, hpr⟩ := searchCharPos_ok S lb (.forward c) n h
      cases r with
      | none => exact ⟨none, by simp [LB.copy, hemp', hr, bind, Except.bind, pure, Except.pure]⟩
      | some p =>
        obtain ⟨_, hple, hpb2⟩ := hpr p rfl
        obtain ⟨y, hy⟩ := slice_ok h hpb2 (by omega)
        exact ⟨some y, by simp [LB.copy, hemp', hr, hy, bind, Except.bind, pure, Except.pure]⟩
    | forwardBefore c =>
      obtain ⟨r, hr, hpr⟩ := searchCharPos_ok S lb (.forward c) n h
      cases r with
      | none => exact ⟨none, by simp [LB.copy, hemp', hr, bind, Except.bind, pure, Except.pure]⟩
      | some p =>
        obtain ⟨hpb, hple, _⟩ := hpr p rfl
        obtain ⟨y, hy⟩ := slice_ok h hpb hple
        exact ⟨some y, by simp [LB.copy, hemp', hr, hy, bind, Except.bind, pure, Except.pure]⟩
    | backward c =>
      obtain ⟨r, hr, hpr⟩ := searchCharPos_ok S lb (.backward c) n h
      cases r with
      | none => exact ⟨none, by simp [LB.copy, hemp', hr, bind, Except.bind, pure, Except.pure]⟩
      | some p =>
        obtain ⟨hpb, hple⟩ := hpr p rfl
        obtain ⟨y, hy⟩ := slice_ok hpb h hple
        exact ⟨some y, by simp [LB.copy, hemp', hr, hy, bind, Except.bind, pure, Except.pure]⟩
    | backwardAfter c =>
      obtain ⟨r, hr, hpr⟩ := searchCharPos_ok S lb (.backwardAfter c) n h
      cases r with
      | none => exact ⟨none, by simp [LB.copy, hemp', hr, bind, Except.bind, pure, Except.pure]⟩
      | some p =>
        obtain ⟨hpb, hple⟩ := hpr p rfl
        obtain ⟨y, hy⟩ := slice_ok hpb h hple
        exact ⟨some y, by simp [LB.copy, hemp', hr, hy, bind, Except.bind, pure, Except.pure]⟩
  | viFirstPrint =>
    obtain ⟨p, hp, hpb⟩ := firstPrint_ok S U lb h
    by_cases h1 : p < lb.pos
    · obtain ⟨y, hy⟩ := slice_ok hpb h (by omega)
      exact ⟨some y, by simp [LB.copy, hemp', hp, h1, hy, bind, Except.bind, pure, Except.pure]⟩
    · by_cases h2 : lb.pos < p
      · obtain ⟨y, hy⟩ := slice_ok h hpb (by omega)
        exact ⟨some y, by simp [LB.copy, hemp', hp, h1, h2, hy, bind, Except.bind, pure, Except.pure]⟩
      · exact ⟨none, by simp [LB.copy, hemp', hp, h1, h2, bind, Except.bind, pure, Except.pure]⟩

/-- `move_to_line_up` (after the D23 repair): total for every count and prompt column; the cursor
    lands on a boundary; text untouched -/
theorem C03_moveToLineUp_total_wf (S : Segmenter) (U : UData) (n pc : Nat) (lb : LB) (h : WF lb) :
    ∃ r lb', LB.moveToLineUp S U n pc lb = .ok (r, lb', []) ∧ WF lb' ∧ lb'.buf = lb.buf := by
  obtain ⟨x, s, hb, hp⟩ := h.split
  have hst : sliceTo lb.buf lb.pos = .ok x := by rw [hb, hp]; exact sliceTo_mid x s
  unfold LB.moveToLineUp
  cases hf : rfindChar '\n' x with
  | none => exact ⟨false, lb, by simp [LM.bind_apply, LM.get, LM.lift, hst, hf], h, rfl⟩
  | some off =>
    obtain ⟨u, v, rfl, rfl⟩ := rfindChar_some hf
    have hbuf : lb.buf = u ++ '\n' :: (v ++ s) := by rw [hb]; simp
    have hoff : IsBoundary lb.buf (blen u) := by rw [hbuf]; exact isBoundary_mid u _
    have hoff1 : IsBoundary lb.buf (blen u + 1) := by
      rw [hbuf]; exact ⟨u ++ ['\n'], v ++ s, by simp, by simp [utf8Size_newline]⟩
    obtain ⟨cur, hcur⟩ := slice_ok hoff1 h (by rw [hp]; simp [utf8Size_newline])
    have hpre2 : sliceTo lb.buf (blen u) = .ok u := by rw [hbuf]; exact sliceTo_mid u _
    obtain ⟨ds0, hds0, hl1, hl2⟩ := lineStart_cases (buf := lb.buf) (u := u) (rest := '\n' :: (v ++ s)) hbuf
    obtain ⟨ds, de, hlu, h5, h6, h7⟩ := luLoop_ok lb.buf (n - 1) ds0 (blen u) hl1 hoff hl2
    obtain ⟨line, hline⟩ := slice_ok h5.boundary h6 h7
    obtain ⟨r, hr, hpr⟩ := colFind_ok S U line (U.width cur - (if ds = 0 then pc else 0)) (gidx S line)
      (fun e he => he)
    cases r with
    | none =>
      exact ⟨true, { lb with pos := de }, by
        rcases hds0 with ⟨h1, h2⟩ | ⟨k, h1, h2⟩ <;> subst h2 <;>
          simp [LM.bind_apply, LM.get, LM.lift, hst, hf, hcur, hpre2, h1, hlu, hline, hr, LM.setPos], h6, rfl⟩
    | some idx =>
      obtain ⟨g, hg⟩ := hpr idx rfl
      have hbd := gidx_slice_boundary S hline hg
      exact ⟨true, { lb with pos := ds + idx }, by
        rcases hds0 with ⟨h1, h2⟩ | ⟨k, h1, h2⟩ <;> subst h2 <;>
          simp [LM.bind_apply, LM.get, LM.lift, hst, hf, hcur, hpre2, h1, hlu, hline, hr, LM.setPos], hbd, rfl⟩

/-- `move_to_line_down`: total, boundary, text untouched -/
theorem C03_moveToLineDown_total_wf (S : Segmenter) (U : UData) (n pc : Nat) (lb : LB) (h : WF lb) :
    ∃ r lb', LB.moveToLineDown S U n pc lb = .ok (r, lb', []) ∧ WF lb' ∧ lb'.buf = lb.buf := by
  obtain ⟨x, s, hb, hp⟩ := h.split
  have hst : sliceTo lb.buf lb.pos = .ok x := by rw [hb, hp]; exact sliceTo_mid x s
  have hsf : sliceFrom lb.buf lb.pos = .ok s := by rw [hb, hp]; exact sliceFrom_mid x s
  unfold LB.moveToLineDown
  cases hf : findChar '\n' s with
  | none => exact ⟨false, lb, by simp [LM.bind_apply, LM.get, LM.lift, hsf, hf], h, rfl⟩
  | some off =>
    obtain ⟨a, b, rfl, rfl⟩ := findChar_some hf
    obtain ⟨ls, hls0, hl1, hl2⟩ := lineStart_cases (buf := lb.buf) (u := x) (rest := a ++ '\n' :: b) hb
    obtain ⟨cur, hcur⟩ := slice_ok hl1.boundary h (by rw [hp]; exact hl2)
    have hds : IsBoundary lb.buf (lb.pos + blen a + 1) := by
      rw [hb, hp]; exact ⟨x ++ a ++ ['\n'], b, by simp, by simp [utf8Size_newline]; omega⟩
    have hs2 : sliceFrom lb.buf (lb.pos + blen a + 1) = .ok b := by
      rw [hb, hp]
      have := sliceFrom_mid (x ++ a ++ ['\n']) b
      simp [utf8Size_newline] at this ⊢
      rw [← this]; congr 1
    have hbl : blen (x ++ a ++ ['\n']) = lb.pos + blen a + 1 := by rw [hp]; simp [utf8Size_newline]; omega
    have hde0 : ∃ de0, ((findChar '\n' b = none ∧ de0 = blen lb.buf) ∨
        (∃ v, findChar '\n' b = some v ∧ de0 = lb.pos + blen a + 1 + v)) ∧ IsLineEnd lb.buf de0 ∧
        lb.pos + blen a + 1 ≤ de0 := by
      have := lineEnd_of_suffix (buf := lb.buf) (x := x ++ a ++ ['\n']) (s := b) (by rw [hb]; simp)
      rw [hbl] at this
      cases hfb : findChar '\n' b with
      | none => rw [hfb] at this; exact ⟨_, Or.inl ⟨rfl, rfl⟩, this.1, this.2⟩
      | some v => rw [hfb] at this; exact ⟨_, Or.inr ⟨v, rfl, rfl⟩, this.1, this.2⟩
    obtain ⟨de0, hde0c, he1, he2⟩ := hde0
    obtain ⟨ds, de, hld, h5, h6, h7⟩ := ldLoop_ok lb.buf (n - 1) _ de0 hds he1 he2
    obtain ⟨line, hline⟩ := slice_ok h5 h6 h7
    have hlen : lb.len = blen lb.buf := rfl
    rcases hls0 with ⟨g1, rfl⟩ | ⟨k, g1, rfl⟩ <;> rcases hde0c with ⟨f1, rfl⟩ | ⟨w, f1, rfl⟩ <;>
      simp only [LM.bind_apply, LM.get, LM.lift, hst, hsf, hf, hcur, hs2, hlen, g1, f1, hld, hline] <;>
      (generalize hcf : LB.colFind U line _ (gidx S line) = o
       obtain ⟨r, rfl, hpr⟩ := colFind_ok' S hcf (fun e he => he)
       cases r with
       | none => exact ⟨true, { lb with pos := de }, by simp [LM.bind_apply, LM.setPos], h6, rfl⟩
       | some idx =>
         obtain ⟨g, hg⟩ := hpr idx rfl
         exact ⟨true, { lb with pos := ds + idx }, by simp [LM.bind_apply, LM.setPos],
           gidx_slice_boundary S hline hg, rfl⟩)

/-- `transpose_chars`: total (the `unwrap()` of the inner `delete(1)` is never reached with `None`) -/
theorem C03_transposeChars_total_wf (S : Segmenter) (U : UData) (lb : LB) (h : WF lb) :
    ∃ r lb' ns, LB.transposeChars S U lb = .ok (r, lb', ns) ∧ WF lb' := by
  unfold LB.transposeChars
  by_cases hc : (lb.pos == 0 || decide ((S.seg lb.buf).length < 2)) = true
  · exact ⟨false, lb, [], by simp only [LM.bind_apply, LM.get, hc, if_true]; rfl, h⟩
  have hc' : ¬(lb.pos = 0 ∨ (S.seg lb.buf).length < 2) := by simpa using hc
  have hpos0 : lb.pos ≠ 0 := fun h0 => hc' (Or.inl h0)
  -- the state before `delete(1)`: cursor strictly inside the text
  have hstep1 : ∃ lb1 r1, (if (lb.pos == lb.len) = true then (do let _ ← LB.moveBackward S U 1; pure ()) else pure () : LM Unit) lb
      = .ok (r1, lb1, []) ∧ WF lb1 ∧ lb1.pos ≠ lb1.len := by
    by_cases he : (lb.pos == lb.len) = true
    · obtain ⟨p, hp1, hp2, hp3⟩ := prevPos_some S lb 1 h hpos0 (by decide)
      refine ⟨{ lb with pos := p }, (), ?_, hp2, ?_⟩
      · simp [he, LB.moveBackward, LM.bind_apply, LM.ro, hp1, LM.setPos]
      · have : lb.pos = lb.len := by simpa using he
        show p ≠ blen lb.buf
        have : lb.len = blen lb.buf := rfl
        omega
    · refine ⟨lb, (), by simp [he], h, by simpa using he⟩
  obtain ⟨lb1, r1, hs1, hwf1, hne1⟩ := hstep1
  obtain ⟨p, hnp, hpb, hplt⟩ := nextPos_some S lb1 1 hwf1 hne1 (by decide)
  obtain ⟨x, y, z, hd, hbuf, hx, _⟩ := drain_ok .forward hwf1 hpb (Nat.le_of_lt hplt)
  have hwf2 : WF { lb1 with buf := x ++ z } := by
    show IsBoundary (x ++ z) lb1.pos
    rw [hx]; exact isBoundary_mid x z
  obtain ⟨r3, lb3, h3, hwf3, _⟩ := C03_moveBackward_total_wf S U _ 1 hwf2
  obtain ⟨r4, lb4, ns4, h4, hwf4⟩ := C03_yank_total_wf S U y 1 lb3 hwf3
  obtain ⟨r5, lb5, h5, hwf5, _⟩ := C03_moveForward_total_wf S U lb4 1 hwf4
  refine ⟨true, lb5, .del lb1.pos y .forward :: ns4, ?_, hwf5⟩
  have hdel : LB.delete S U 1 lb1 = .ok (some y, { lb1 with buf := x ++ z }, [.del lb1.pos y .forward]) := by
    simp [LB.delete, LM.bind_apply, LM.ro, hnp, LM.get, hd]
  by_cases he : (lb.pos == lb.len) = true
  · have he' : lb.pos = lb.len := by simpa using he
    simp only [he, if_true] at hs1
    obtain ⟨a, lbm, n1, n2, hm, hpu, hnil⟩ := LM.bind_ok hs1
    simp at hpu
    obtain ⟨hlbm, hn2⟩ := hpu
    subst hlbm hn2
    have hn1 : n1 = [] := by simpa using hnil.symm
    subst hn1
    simp only [LM.bind_apply, LM.get]
    rw [if_neg hc]
    simp only [he, if_true]
    simp [LM.bind_apply, hm, hdel, h3, h4, h5]
  · have he' : ¬ lb.pos = lb.len := by simpa using he
    simp only [he, Bool.false_eq_true, if_false] at hs1
    simp at hs1
    subst hs1
    simp only [LM.bind_apply, LM.get]
    rw [if_neg hc]
    simp only [he, Bool.false_eq_true, if_false]
    simp [LM.bind_apply, hdel, h3, h4, h5]

/-- `edit_word` (capitalize / lower-case / upper-case the next word): total; the cursor ends after the
    rewritten word -/
theorem C03_editWord_total_wf (S : Segmenter) (U : UData) (a : WordAction) (lb : LB) (h : WF lb) :
    ∃ r lb' ns, LB.editWord S U a lb = .ok (r, lb', ns) ∧ WF lb' := by
  obtain ⟨r0, hr0, hp0⟩ := skipWhitespace_ok S U lb h
  unfold LB.editWord
  cases r0 with
  | none => exact ⟨false, lb, [], by simp [LM.bind_apply, LM.ro, hr0], h⟩
  | some start =>
    obtain ⟨hsb, hsle⟩ := hp0 start rfl
    have hwfs : WF { lb with pos := start } := hsb
    obtain ⟨r1, hr1, hp1⟩ := nextWordPosR_ok_all S U { lb with pos := start } .afterEnd .emacs 1 false hwfs
    have hr1' : LB.nextWordPos S U lb start .afterEnd .emacs 1 = .ok r1 := hr1
    cases r1 with
    | none => exact ⟨false, lb, [], by simp [LM.bind_apply, LM.ro, hr0, hr1'], h⟩
    | some e =>
      obtain ⟨heb, hele⟩ := hp1 e rfl
      have hele' : start ≤ e := hele
      by_cases hse : start = e
      · subst hse
        exact ⟨false, lb, [], by simp [LM.bind_apply, LM.ro, hr0, hr1'], h⟩
      · obtain ⟨x, y, z, hd, hbuf, hx, hy⟩ := drain_ok .forward hsb heb hele'
        have hyne : y ≠ [] := by
          intro h0; apply hse; rw [hy, h0]; simp [hx]
        have hins : IsBoundary ({ lb with buf := x ++ z } : LB).buf start := by
          show IsBoundary (x ++ z) start
          rw [hx]; exact isBoundary_mid x z
        have fin : ∀ result : Text, ∃ x' z', LB.insertStr S U start result { lb with buf := x ++ z } =
            .ok (start == blen (x ++ z), { lb with buf := x' ++ result ++ z', cap := growCap lb.cap (blen (x ++ z) + blen result) },
              [.insStr start result]) ∧ start = blen x' := by
          intro result
          obtain ⟨x', z', hi, _, hx'⟩ := insertStr_ok S U (lb := { lb with buf := x ++ z }) result hins
          exact ⟨x', z', hi, hx'⟩
        cases a with
        | lowercase =>
          obtain ⟨x', z', hi, hx'⟩ := fin (y.flatMap U.lower)
          refine ⟨true, LB.mk (x' ++ (y.flatMap U.lower) ++ z') (start + blen (y.flatMap U.lower))
            (growCap lb.cap (blen (x ++ z) + blen (y.flatMap U.lower))) lb.canGrow,
            [.del start y .forward, .insStr start (y.flatMap U.lower)], ?_, ?_⟩
          · simp [LM.bind_apply, LM.ro, hr0, hr1', hse, hd, hi, LM.setPos]
          · show IsBoundary (x' ++ y.flatMap U.lower ++ z') (start + blen (y.flatMap U.lower))
            exact ⟨x' ++ y.flatMap U.lower, z', rfl, by rw [hx']; simp⟩
        | uppercase =>
          obtain ⟨x', z', hi, hx'⟩ := fin (y.flatMap U.upper)
          refine ⟨true, LB.mk (x' ++ (y.flatMap U.upper) ++ z') (start + blen (y.flatMap U.upper))
            (growCap lb.cap (blen (x ++ z) + blen (y.flatMap U.upper))) lb.canGrow,
            [.del start y .forward, .insStr start (y.flatMap U.upper)], ?_, ?_⟩
          · simp [LM.bind_apply, LM.ro, hr0, hr1', hse, hd, hi, LM.setPos]
          · show IsBoundary (x' ++ y.flatMap U.upper ++ z') (start + blen (y.flatMap U.upper))
            exact ⟨x' ++ y.flatMap U.upper, z', rfl, by rw [hx']; simp⟩
        | capitalize =>
          obtain ⟨ch, rest, hch, hyr, _⟩ := seg_head S hyne
          have hsl : sliceFrom y (blen ch) = .ok rest := by rw [hyr]; exact sliceFrom_mid ch rest
          obtain ⟨x', z', hi, hx'⟩ := fin (ch.flatMap U.upper ++ rest.flatMap U.lower)
          refine ⟨true, LB.mk (x' ++ (ch.flatMap U.upper ++ rest.flatMap U.lower) ++ z') (start + blen (ch.flatMap U.upper ++ rest.flatMap U.lower))
            (growCap lb.cap (blen (x ++ z) + blen (ch.flatMap U.upper ++ rest.flatMap U.lower))) lb.canGrow,
            [.del start y .forward, .insStr start (ch.flatMap U.upper ++ rest.flatMap U.lower)], ?_, ?_⟩
          · simp [LM.bind_apply, LM.ro, hr0, hr1', hse, hd, hch, LM.lift, hsl, hi, LM.setPos]
          · show IsBoundary (x' ++ (ch.flatMap U.upper ++ rest.flatMap U.lower) ++ z')
              (start + blen (ch.flatMap U.upper ++ rest.flatMap U.lower))
            exact ⟨x' ++ (ch.flatMap U.upper ++ rest.flatMap U.lower), z', rfl, by rw [hx']; simp⟩

/-- `transpose_words`: total; the cursor ends after the second word, or stays where it was when
    there is nothing to transpose -/
theorem C03_transposeWords_total_wf (S : Segmenter) (U : UData) (n : Nat) (lb : LB) (h : WF lb) :
    ∃ r lb' ns, LB.transposeWords S U n lb = .ok (r, lb', ns) ∧ WF lb' := by
  obtain ⟨r1, p1, h1, hb1, hle1⟩ := moveToNextWord_run S U .afterEnd .emacs n lb h
  obtain ⟨r2, p2, h2, hb2, hle2⟩ := moveToPrevWord_run S U .emacs 1 { lb with pos := p1 } hb1
  obtain ⟨r3, p3, h3, hb3, hle3⟩ := moveToPrevWord_run S U .emacs n { lb with pos := p2 } hb2
  obtain ⟨r4, p4, h4, hb4, hle4⟩ := moveToNextWord_run S U .afterEnd .emacs 1 { lb with pos := p3 } hb3
  simp only at h2 h3 h4 hb2 hb3 hb4 hle2 hle3 hle4
  unfold LB.transposeWords
  by_cases hc : (p3 == p2 || decide (p2 < p4)) = true
  · refine ⟨false, { lb with pos := lb.pos }, [], ?_, h⟩
    simp only [LM.bind_apply, h1, LM.get, h2, h3, h4]
    simp [hc, LM.setPos, LM.bind_apply, LM.pure_apply]
  · have hc' : ¬(p3 = p2 ∨ p2 < p4) := by simpa using hc
    have h42 : p4 ≤ p2 := by omega
    obtain ⟨P, W2, B, _, hbufP, hp2, hp1⟩ := split3_of_boundaries hb2 hb1 hle2
    have hb3P : IsBoundary P p3 := isBoundary_prefix (by rw [List.append_assoc] at hbufP; rw [← hbufP]; exact hb3) (by omega)
    have hb4P : IsBoundary P p4 := isBoundary_prefix (by rw [List.append_assoc] at hbufP; rw [← hbufP]; exact hb4) (by omega)
    obtain ⟨A, W1, M, _, hP, hp3, hp4⟩ := split3_of_boundaries hb3P hb4P hle4
    subst hp1 hp2 hp3 hp4
    subst hP
    have hbuf : lb.buf = A ++ W1 ++ M ++ W2 ++ B := hbufP
    have hsl : slice lb.buf (blen A) (blen A + blen W1) = .ok W1 := by
      rw [hbuf]
      have := slice_mid A W1 (M ++ W2 ++ B)
      simpa using this
    have hd1 := drain_at (A ++ W1 ++ M) W2 B .forward { lb with pos := blen A + blen W1 } (by simpa using hbuf)
    have hi1 := insertStr_at S U (A ++ W1 ++ M) B W1
      { lb with buf := A ++ W1 ++ M ++ B, pos := blen A + blen W1 } rfl
    have hd2 := drain_at A W1 (M ++ W1 ++ B) .forward
      { lb with buf := A ++ W1 ++ M ++ W1 ++ B, pos := blen A + blen W1,
                cap := growCap lb.cap (blen (A ++ W1 ++ M ++ B) + blen W1) } (by simp)
    have hi2 := insertStr_at S U A (M ++ W1 ++ B) W2
      { lb with buf := A ++ (M ++ W1 ++ B), pos := blen A + blen W1,
                cap := growCap lb.cap (blen (A ++ W1 ++ M ++ B) + blen W1) } rfl
    simp only [blen_append, List.append_assoc] at hd1 hi1 hd2 hi2 hc hsl h1 h2 h3 h4
    refine ⟨true, LB.mk (A ++ (W2 ++ (M ++ (W1 ++ B)))) (blen A + (blen W1 + blen M) + blen W2)
      (growCap (growCap lb.cap (blen A + (blen W1 + (blen M + blen B)) + blen W1))
        (blen A + (blen M + (blen W1 + blen B)) + blen W2)) lb.canGrow,
      [.del (blen A + (blen W1 + blen M)) W2 .forward, .insStr (blen A + (blen W1 + blen M)) W1,
       .del (blen A) W1 .forward, .insStr (blen A) W2], ?_, ?_⟩
    · simp only [LM.bind_apply, h1, LM.get, h2, h3, h4]
      simp only [hc, Bool.false_eq_true, if_false, LM.bind_apply, LM.get, LM.lift, hsl, hd1, hi1, hd2, hi2, LM.setPos,
        LM.pure_apply, List.nil_append, List.append_nil, List.cons_append]
    · show IsBoundary (A ++ (W2 ++ (M ++ (W1 ++ B)))) (blen A + (blen W1 + blen M) + blen W2)
      exact ⟨A ++ W2 ++ M ++ W1, B, by simp, by simp; omega⟩

/-- the shape of every notifying `kill` branch -/
def Rl.killWrap (m : LM Bool) : LM Bool := do
  LM.notify .startKill
  let k ← m
  LM.notify .stopKill
  pure k

theorem Rl.killWrap_ok {m : LM Bool} {lb : LB} (h : ∃ r lb' ns, m lb = .ok (r, lb', ns) ∧ WF lb') :
    ∃ r lb' ns, killWrap m lb = .ok (r, lb', ns) ∧ WF lb' := by
  obtain ⟨r, lb', ns, hm, hwf⟩ := h
  exact ⟨r, lb', [.startKill] ++ (ns ++ [.stopKill]), by simp [killWrap, LM.bind_apply, LM.notify, hm], hwf⟩

/-- `kill` for EVERY movement, count, word definition, anchor and char search: total, cursor valid -/
theorem C03_kill_total_wf (S : Segmenter) (U : UData) (mvt : Movement) (lb : LB) (h : WF lb) :
    ∃ r lb' ns, LB.kill S U mvt lb = .ok (r, lb', ns) ∧ WF lb' := by
  cases mvt with
  | viCharSearch n cs =>
    have : LB.kill S U (.viCharSearch n cs) = killWrap (LB.deleteTo S U cs n) := rfl
    rw [this]; exact killWrap_ok (C03_deleteTo_total_wf S U cs n lb h)
  | lineUp n => exact C03_kill_lineUp_total_wf S U n lb h
  | lineDown n => exact C03_kill_lineDown_total_wf S U n lb h
  | forwardChar n =>
    obtain ⟨r, lb', ns, hd, hwf, _⟩ := C03_delete_total_wf S U lb n h
    have : LB.kill S U (.forwardChar n) = (do let r ← LB.delete S U n; pure r.isSome) := rfl
    exact ⟨r.isSome, lb', ns, by rw [this]; simp [LM.bind_apply, hd], hwf⟩
  | backwardChar n =>
    obtain ⟨r, lb', ns, hd, hwf⟩ := C03_backspace_total_wf S U lb n h
    exact ⟨r, lb', ns, by simp [LB.kill, LM.bind_apply, hd], hwf⟩
  | endOfLine =>
    have : LB.kill S U .endOfLine = killWrap (LB.killLine S U) := rfl
    rw [this]; exact killWrap_ok (C03_killLine_total_wf S U lb h)
  | wholeLine =>
    obtain ⟨r1, lb1, h1, hwf1, hbuf1⟩ := C03_moveHome_total_wf S U lb h
    obtain ⟨e, he, hbe, hle⟩ := endOfLine_ok lb1 hwf1
    by_cases hlt : lb1.pos < e
    · obtain ⟨y, lb2, ns2, _, hd, hwf2⟩ := C03_drainAround_total_wf S U lb1.pos e lb.pos lb1 hwf1 hbe (by rw [hbuf1]; exact h) hle
      have hd' : LB.drainAround lb1.pos e lb.pos lb1 = .ok (y, lb2, ns2) := hd
      exact ⟨true, lb2, [.startKill] ++ ([] ++ ns2 ++ [.stopKill]),
        by simp [LB.kill, LM.bind_apply, LM.notify, LM.get, LM.ro, h1, he, hlt, hd'], hwf2⟩
    · obtain ⟨r2, lb2, ns2, h2, hwf2⟩ := C03_killLine_total_wf S U lb1 hwf1
      exact ⟨r2, lb2, [.startKill] ++ ([] ++ ns2 ++ [.stopKill]),
        by simp [LB.kill, LM.bind_apply, LM.notify, LM.get, LM.ro, h1, he, hlt, h2], hwf2⟩
  | beginningOfLine =>
    have : LB.kill S U .beginningOfLine = killWrap (LB.discardLine S U) := rfl
    rw [this]; exact killWrap_ok (C03_discardLine_total_wf S U lb h)
  | backwardWord n d =>
    have : LB.kill S U (.backwardWord n d) = killWrap (LB.deletePrevWord S U d n) := rfl
    rw [this]; exact killWrap_ok (C03_deletePrevWord_total_wf S U d n lb h)
  | forwardWord n a d =>
    have : LB.kill S U (.forwardWord n a d) = killWrap (LB.deleteWord S U a d n) := rfl
    rw [this]; exact killWrap_ok (C03_deleteWord_total_wf S U a d n lb h)
  | viFirstPrint =>
    obtain ⟨p, hp, hpb⟩ := firstPrint_ok S U lb h
    by_cases h1 : p < lb.pos
    · obtain ⟨x, y, z, hd, hbuf, hx, _⟩ := drain_ok .backward hpb h (by omega)
      refine ⟨true, { lb with buf := x ++ z, pos := p }, [.startKill] ++ ([.del p y .backward] ++ [.stopKill]), ?_, ?_⟩
      · have hne : (p != lb.pos) = true := by simp; omega
        simp [LB.kill, LM.bind_apply, LM.notify, LM.ro, hp, LM.get, h1, hd, LM.setPos, hne]
      · show IsBoundary (x ++ z) p
        rw [hx]; exact isBoundary_mid x z
    · by_cases h2 : lb.pos < p
      · obtain ⟨x, y, z, hd, hbuf, hx, _⟩ := drain_ok .forward h hpb (by omega)
        refine ⟨true, { lb with buf := x ++ z }, [.startKill] ++ ([.del lb.pos y .forward] ++ [.stopKill]), ?_, ?_⟩
        · have hne : (p != lb.pos) = true := by simp; omega
          simp [LB.kill, LM.bind_apply, LM.notify, LM.ro, hp, LM.get, h1, h2, hd, hne]
        · show IsBoundary (x ++ z) lb.pos
          rw [hx]; exact isBoundary_mid x z
      · have hne : (p != lb.pos) = false := by simp; omega
        exact ⟨false, lb, [.startKill, .stopKill],
          by simp [LB.kill, LM.bind_apply, LM.notify, LM.ro, hp, LM.get, h1, h2, hne], h⟩
  | endOfBuffer =>
    have : LB.kill S U .endOfBuffer = killWrap (LB.killBuffer S U) := rfl
    rw [this]; exact killWrap_ok (C03_killBuffer_total_wf S U lb h)
  | beginningOfBuffer =>
    have : LB.kill S U .beginningOfBuffer = killWrap (LB.discardBuffer S U) := rfl
    rw [this]; exact killWrap_ok (C03_discardBuffer_total_wf S U lb h)
  | wholeBuffer =>
    have h1 : LB.moveBufferStart S U lb = .ok (decide (lb.pos > 0), { lb with pos := 0 }, []) := by
      unfold LB.moveBufferStart
      by_cases hgt : lb.pos > 0
      · simp [LM.bind_apply, LM.get, hgt, LM.setPos]
      · have : lb.pos = 0 := by omega
        simp [LM.bind_apply, LM.get, hgt]
        cases lb; simp at this ⊢; exact this
    by_cases hemp : lb.buf = []
    · exact ⟨false, { lb with pos := 0 }, [.startKill] ++ ([] ++ [.stopKill]),
        by simp [LB.kill, LM.bind_apply, LM.notify, LM.get, h1, hemp], isBoundary_zero _⟩
    · obtain ⟨y, lb2, ns2, _, hd, hwf2⟩ := C03_drainAround_total_wf S U 0 (blen lb.buf) lb.pos lb (isBoundary_zero _)
        (isBoundary_len lb.buf) h (Nat.zero_le _)
      exact ⟨true, lb2, [.startKill] ++ ([] ++ ns2 ++ [.stopKill]),
        by simp [LB.kill, LM.bind_apply, LM.notify, LM.get, h1, hemp, LB.len, hd], hwf2⟩

/-- `indent` / dedent (vi `>` `<`; `amount : u8`) for EVERY movement, count, word definition and anchor:
    total from a well-formed state; the cursor, shifted along with its line, stays on a character
    boundary. (Invariant of the per-line loops: `buf = X ++ joinNl lines ++ Z`, `index = blen X`.) -/
theorem C03_indent_total_wf (S : Segmenter) (U : UData) (m : Movement) (k : Nat) (d : Bool) (lb : LB)
    (h : WF lb) (hk : k ≤ 255) :
    ∃ r lb' ns, LB.indent S U m k d lb = .ok (r, lb', ns) ∧ WF lb' := by
  rw [indent_eq]
  have tail : ∀ a b, IsBoundary lb.buf a → IsBoundary lb.buf b → a ≤ b →
      ∃ lb' ns, LB.indentTail S U k d lb a b lb = .ok (true, lb', ns) ∧ WF lb' :=
    fun a b hA hB hab => indentTail_ok S U k hk d lb h a b hA hB hab
  have hpp := tail lb.pos lb.pos h h (Nat.le_refl _)
  cases m with
  | wholeLine | beginningOfLine | viFirstPrint | endOfLine | backwardChar n | forwardChar n | viCharSearch n cs =>
    obtain ⟨lb', ns, h1, h2⟩ := hpp
    exact ⟨true, lb', ns, by simp [LM.bind_apply, LM.get, h1], h2⟩
  | endOfBuffer =>
    obtain ⟨lb', ns, h1, h2⟩ := tail lb.pos lb.len h (isBoundary_len _) h.le_len
    exact ⟨true, lb', ns, by simp [LM.bind_apply, LM.get, h1], h2⟩
  | wholeBuffer =>
    obtain ⟨lb', ns, h1, h2⟩ := tail 0 lb.len (isBoundary_zero _) (isBoundary_len _) (Nat.zero_le _)
    exact ⟨true, lb', ns, by simp [LM.bind_apply, LM.get, h1], h2⟩
  | beginningOfBuffer =>
    obtain ⟨lb', ns, h1, h2⟩ := tail 0 lb.pos (isBoundary_zero _) h (Nat.zero_le _)
    exact ⟨true, lb', ns, by simp [LM.bind_apply, LM.get, h1], h2⟩
  | backwardWord n w =>
    obtain ⟨r, hr, hp⟩ := prevWordPos_ok S U lb w n h
    cases r with
    | none =>
      obtain ⟨lb', ns, h1, h2⟩ := hpp
      exact ⟨true, lb', ns, by simp [LM.bind_apply, LM.get, LM.lift, hr, h1], h2⟩
    | some p =>
      obtain ⟨hb, hle⟩ := hp p rfl
      obtain ⟨lb', ns, h1, h2⟩ := tail p lb.pos hb h hle
      exact ⟨true, lb', ns, by simp [LM.bind_apply, LM.get, LM.lift, hr, h1], h2⟩
  | forwardWord n a w =>
    obtain ⟨r, hr, hp⟩ := nextWordPosR_ok_all S U lb a w n false h
    have hr' : LB.nextWordPos S U lb lb.pos a w n = .ok r := hr
    cases r with
    | none =>
      obtain ⟨lb', ns, h1, h2⟩ := hpp
      exact ⟨true, lb', ns, by simp [LM.bind_apply, LM.get, LM.lift, hr', h1], h2⟩
    | some p =>
      obtain ⟨hb, hle⟩ := hp p rfl
      obtain ⟨lb', ns, h1, h2⟩ := tail lb.pos p h hb hle
      exact ⟨true, lb', ns, by simp [LM.bind_apply, LM.get, LM.lift, hr', h1], h2⟩
  | lineUp n =>
    obtain ⟨r, hr, hp⟩ := nLinesUp_ok lb n h
    cases r with
    | none =>
      obtain ⟨lb', ns, h1, h2⟩ := hpp
      exact ⟨true, lb', ns, by simp [LM.bind_apply, LM.get, LM.lift, hr, h1], h2⟩
    | some ab =>
      obtain ⟨a, b⟩ := ab
      obtain ⟨hls, _, hle, _⟩ := hp a b rfl
      obtain ⟨lb', ns, h1, h2⟩ := tail a lb.pos hls.boundary h hle
      exact ⟨true, lb', ns, by simp [LM.bind_apply, LM.get, LM.lift, hr, h1], h2⟩
  | lineDown n =>
    obtain ⟨r, hr, hp⟩ := nLinesDown_ok lb n h
    cases r with
    | none =>
      obtain ⟨lb', ns, h1, h2⟩ := hpp
      exact ⟨true, lb', ns, by simp [LM.bind_apply, LM.get, LM.lift, hr, h1], h2⟩
    | some ab =>
      obtain ⟨a, b⟩ := ab
      obtain ⟨_, hbb, _, hle⟩ := hp a b rfl
      obtain ⟨pre, post, hbuf, hbl⟩ := hbb
      have hst : sliceTo lb.buf b = .ok pre := by rw [hbuf, hbl]; exact sliceTo_mid pre post
      by_cases hc : (decide (b > lb.pos) && pre.getLast? == some '\n') = true
      · have hc' : lb.pos < b ∧ pre.getLast? = some '\n' := by simpa using hc
        obtain ⟨pre', hpre⟩ := List.getLast?_eq_some_iff.mp hc'.2
        have hb1 : IsBoundary lb.buf (b - 1) :=
          ⟨pre', '\n' :: post, by rw [hbuf, hpre]; simp, by rw [hbl, hpre]; simp [utf8Size_newline]⟩
        obtain ⟨lb', ns, h1, h2⟩ := tail lb.pos (b - 1) h hb1 (by omega)
        exact ⟨true, lb', ns, by simp [LM.bind_apply, LM.get, LM.lift, hr, hst, hc'.1, hc'.2, h1], h2⟩
      · have hb0 : IsBoundary lb.buf b := ⟨pre, post, hbuf, hbl⟩
        obtain ⟨lb', ns, h1, h2⟩ := tail lb.pos b h hb0 hle
        refine ⟨true, lb', ns, ?_, h2⟩
        simp only [LM.bind_apply, LM.get, LM.lift, hr, hst, hc]
        simp [LM.bind_apply, h1]

/-! ### the single statement of DESIGN.md, and the part of it proved so far -/

/-- the five conjuncts of C03 for one operation from one state (motions are shown to send no
    notification at all, which is stronger than "markers only") -/
def C03_OpOK (S : Segmenter) (U : UData) (op : Op) (lb : LB) : Prop :=
  ∃ r lb' ns, Op.run S U op lb = .ok (r, lb', ns) ∧ WF lb' ∧ replay ns lb.buf = some lb'.buf ∧
    (Op.isMotionOrCopy op = true → lb'.buf = lb.buf ∧ ns = []) ∧
    (Op.honoursCapacity op = true → lb.canGrow = false → blen lb.buf ≤ lb.cap → blen lb'.buf ≤ lb.cap)

/-- FULL statement (not a theorem on the current tree): every public operation, from every well-formed
    state, with arguments inside the contract of the explicit-index primitives (and `amount ≤ 255` for
    `indent`, whose parameter is a `u8`). It is false for `insert_str` only (known finding
    F-C03-insert_str-cursor: the cursor is not adjusted, `C03_insertStr_counterexample`); it is proved for
    every other operation (`C03_op_total_wf_replay_partial`) and for `insert_str` at or after the cursor
    (`C03_op_total_wf_replay_all_partial`). -/
def C03_op_total_wf_replay_statement : Prop :=
  ∀ (S : Segmenter) (U : UData) (op : Op) (lb : LB), WF lb → Op.argsValid lb op = true → C03_OpOK S U op lb

/-- every public operation except `insert_str` (whose cursor clause is refuted by
    `C03_insertStr_counterexample`) -/
def C03_opCovered : Op → Bool
  | .update _ _ | .insert _ _ | .yank _ _ | .moveBackward _ | .moveForward _ | .moveBufferStart
  | .moveBufferEnd | .moveHome | .moveEnd | .moveToFirstPrint | .isEndOfInput | .delete _ | .backspace _ | .killLine
  | .killBuffer | .discardLine | .discardBuffer | .moveToPrevWord _ _ | .deletePrevWord _ _
  | .replace _ _ _ | .deleteRange _ _ | .setPos _ | .nextPos _ | .moveTo _ _ | .deleteTo _ _
  | .yankPop _ _ | .moveToNextWord _ _ _ | .deleteWord _ _ _ | .kill _ | .copy _
  | .moveToLineUp _ _ | .moveToLineDown _ _ | .transposeChars | .editWord _ | .transposeWords _
  | .indent _ _ _ => true
  | .insertStr _ _ => false

theorem C03_run_ok_of {α : Type} {m : LM α} {f : α → Ret} {lb lb' : LB} {r : α} {ns : List Notif}
    (h : m lb = .ok (r, lb', ns)) : (do return f (← m) : LM Ret) lb = .ok (f r, lb', ns) := by
  simp [LM.bind_apply, h]

/-- totality + cursor validity for the covered operations -/
theorem C03_covered_total_wf (S : Segmenter) (U : UData) (op : Op) (lb : LB) (h : WF lb)
    (ha : Op.argsValid lb op = true) (hc : C03_opCovered op = true) :
    ∃ r lb' ns, Op.run S U op lb = .ok (r, lb', ns) ∧ WF lb' := by
  cases op <;> simp only [C03_opCovered, Bool.false_eq_true] at hc <;> unfold Op.run
  case update b p =>
    have hp : IsBoundary b p := boundaryB_iff.mp (by simpa [Op.argsValid] using ha)
    obtain ⟨lb', ns, h1, h2, _⟩ := C03_update_total_wf_capacity S U b p lb hp
    exact ⟨.unit, lb', ns, by simp [LM.bind_apply, h1], h2⟩
  case insert c n =>
    obtain ⟨r, lb', ns, h1, h2⟩ := C03_insert_total_wf S U c n lb h
    exact ⟨_, lb', ns, C03_run_ok_of h1, h2⟩
  case yank t n =>
    obtain ⟨r, lb', ns, h1, h2⟩ := C03_yank_total_wf S U t n lb h
    exact ⟨_, lb', ns, C03_run_ok_of h1, h2⟩
  case yankPop k t =>
    have hv : k ≤ lb.pos ∧ IsBoundary lb.buf (lb.pos - k) := by
      simp only [Op.argsValid, Bool.and_eq_true, decide_eq_true_eq, boundaryB_iff] at ha
      exact ha
    obtain ⟨r, lb', ns, h1, h2⟩ := C03_yankPop_total_wf S U k t lb h hv.1 hv.2
    exact ⟨_, lb', ns, C03_run_ok_of h1, h2⟩
  case moveTo cs n =>
    obtain ⟨r, lb', h1, h2, _⟩ := C03_moveTo_total_wf S U cs n lb h
    exact ⟨_, lb', _, C03_run_ok_of h1, h2⟩
  case deleteTo cs n =>
    obtain ⟨r, lb', ns, h1, h2⟩ := C03_deleteTo_total_wf S U cs n lb h
    exact ⟨_, lb', ns, C03_run_ok_of h1, h2⟩
  case moveBackward n =>
    obtain ⟨r, lb', h1, h2, _⟩ := C03_moveBackward_total_wf S U lb n h
    exact ⟨_, lb', _, C03_run_ok_of h1, h2⟩
  case moveForward n =>
    obtain ⟨r, lb', h1, h2, _⟩ := C03_moveForward_total_wf S U lb n h
    exact ⟨_, lb', _, C03_run_ok_of h1, h2⟩
  case moveBufferStart =>
    obtain ⟨r, lb', h1, h2, _⟩ := C03_moveBufferStart_total_wf S U lb
    exact ⟨_, lb', _, C03_run_ok_of h1, h2⟩
  case moveBufferEnd =>
    obtain ⟨r, lb', h1, h2, _⟩ := C03_moveBufferEnd_total_wf S U lb h
    exact ⟨_, lb', _, C03_run_ok_of h1, h2⟩
  case moveHome =>
    obtain ⟨r, lb', h1, h2, _⟩ := C03_moveHome_total_wf S U lb h
    exact ⟨_, lb', _, C03_run_ok_of h1, h2⟩
  case moveToFirstPrint =>
    obtain ⟨r, lb', h1, h2, _⟩ := C03_moveToFirstPrint_total_wf S U lb h
    exact ⟨_, lb', _, C03_run_ok_of h1, h2⟩
  case moveEnd =>
    obtain ⟨r, lb', h1, h2, _⟩ := C03_moveEnd_total_wf S U lb h
    exact ⟨_, lb', _, C03_run_ok_of h1, h2⟩
  case isEndOfInput => exact ⟨.bool (LB.isEndOfInput U lb), lb, [], by simp [LM.bind_apply, LM.get], h⟩
  case delete n =>
    obtain ⟨r, lb', ns, h1, h2, _⟩ := C03_delete_total_wf S U lb n h
    exact ⟨_, lb', ns, C03_run_ok_of h1, h2⟩
  case backspace n =>
    obtain ⟨r, lb', ns, h1, h2⟩ := C03_backspace_total_wf S U lb n h
    exact ⟨_, lb', ns, C03_run_ok_of h1, h2⟩
  case killLine =>
    obtain ⟨r, lb', ns, h1, h2⟩ := C03_killLine_total_wf S U lb h
    exact ⟨_, lb', ns, C03_run_ok_of h1, h2⟩
  case killBuffer =>
    obtain ⟨r, lb', ns, h1, h2⟩ := C03_killBuffer_total_wf S U lb h
    exact ⟨_, lb', ns, C03_run_ok_of h1, h2⟩
  case discardLine =>
    obtain ⟨r, lb', ns, h1, h2⟩ := C03_discardLine_total_wf S U lb h
    exact ⟨_, lb', ns, C03_run_ok_of h1, h2⟩
  case discardBuffer =>
    obtain ⟨r, lb', ns, h1, h2⟩ := C03_discardBuffer_total_wf S U lb h
    exact ⟨_, lb', ns, C03_run_ok_of h1, h2⟩
  case moveToPrevWord d n =>
    obtain ⟨r, lb', h1, h2, _⟩ := C03_moveToPrevWord_total_wf S U d n lb h
    exact ⟨_, lb', _, C03_run_ok_of h1, h2⟩
  case deletePrevWord d n =>
    obtain ⟨r, lb', ns, h1, h2⟩ := C03_deletePrevWord_total_wf S U d n lb h
    exact ⟨_, lb', ns, C03_run_ok_of h1, h2⟩
  case moveToNextWord a d n =>
    obtain ⟨r, lb', h1, h2, _⟩ := C03_moveToNextWord_total_wf S U a d n lb h
    exact ⟨_, lb', _, C03_run_ok_of h1, h2⟩
  case deleteWord a d n =>
    obtain ⟨r, lb', ns, h1, h2⟩ := C03_deleteWord_total_wf S U a d n lb h
    exact ⟨_, lb', ns, C03_run_ok_of h1, h2⟩
  case replace a b t =>
    have hv : a ≤ b ∧ IsBoundary lb.buf a ∧ IsBoundary lb.buf b := by
      simp only [Op.argsValid, Bool.and_eq_true, decide_eq_true_eq, boundaryB_iff] at ha
      exact ⟨ha.1.1, ha.1.2, ha.2⟩
    obtain ⟨lb', ns, h1, h2⟩ := C03_replace_total_wf S U a b t lb hv.2.1 hv.2.2 hv.1
    exact ⟨.unit, lb', ns, by simp [LM.bind_apply, h1], h2⟩
  case deleteRange a b =>
    have hv : a ≤ b ∧ IsBoundary lb.buf a ∧ IsBoundary lb.buf b := by
      simp only [Op.argsValid, Bool.and_eq_true, decide_eq_true_eq, boundaryB_iff] at ha
      exact ⟨ha.1.1, ha.1.2, ha.2⟩
    obtain ⟨lb', ns, h1, h2⟩ := C03_deleteRange_total_wf S U a b lb hv.2.1 hv.2.2 hv.1
    exact ⟨.unit, lb', ns, by simp [LM.bind_apply, h1], h2⟩
  case kill m =>
    obtain ⟨r, lb', ns, h1, h2⟩ := C03_kill_total_wf S U m lb h
    exact ⟨_, lb', ns, C03_run_ok_of h1, h2⟩
  case transposeWords n =>
    obtain ⟨r, lb', ns, h1, h2⟩ := C03_transposeWords_total_wf S U n lb h
    exact ⟨_, lb', ns, C03_run_ok_of h1, h2⟩
  case editWord a =>
    obtain ⟨r, lb', ns, h1, h2⟩ := C03_editWord_total_wf S U a lb h
    exact ⟨_, lb', ns, C03_run_ok_of h1, h2⟩
  case transposeChars =>
    obtain ⟨r, lb', ns, h1, h2⟩ := C03_transposeChars_total_wf S U lb h
    exact ⟨_, lb', ns, C03_run_ok_of h1, h2⟩
  case moveToLineUp n pc =>
    obtain ⟨r, lb', h1, h2, _⟩ := C03_moveToLineUp_total_wf S U n pc lb h
    exact ⟨_, lb', _, C03_run_ok_of h1, h2⟩
  case moveToLineDown n pc =>
    obtain ⟨r, lb', h1, h2, _⟩ := C03_moveToLineDown_total_wf S U n pc lb h
    exact ⟨_, lb', _, C03_run_ok_of h1, h2⟩
  case copy m =>
    obtain ⟨r, hr⟩ := C03_copy_total S U m lb h
    exact ⟨.optText r, lb, [], by simp [LM.bind_apply, LM.ro, hr], h⟩
  case indent m k d =>
    have hk : k ≤ 255 := by simpa [Op.argsValid] using ha
    obtain ⟨r, lb', ns, h1, h2⟩ := C03_indent_total_wf S U m k d lb h hk
    exact ⟨_, lb', ns, C03_run_ok_of h1, h2⟩
  case setPos p =>
    have hp : IsBoundary lb.buf p := boundaryB_iff.mp (by simpa [Op.argsValid] using ha)
    obtain ⟨lb', h1, h2, _⟩ := C03_setPos_total_wf S U p lb hp
    exact ⟨.unit, lb', [], by simp [LM.bind_apply, h1], h2⟩
  case nextPos n =>
    obtain ⟨r, hr, _⟩ := nextPos_ok S lb n h
    exact ⟨.optNat r, lb, [], by simp [LM.bind_apply, LM.ro, hr], h⟩

/-- The single statement of DESIGN.md for every covered operation: returns without panic, cursor on
    a boundary, notifications replay old → new text, motions/copies pure, capacity respected. -/
theorem C03_op_total_wf_replay_partial (S : Segmenter) (U : UData) (op : Op) (lb : LB) (h : WF lb)
    (ha : Op.argsValid lb op = true) (hc : C03_opCovered op = true) : C03_OpOK S U op lb := by
  obtain ⟨r, lb', ns, hrun, hwf⟩ := C03_covered_total_wf S U op lb h ha hc
  refine ⟨r, lb', ns, hrun, hwf, C03_notifications_replay S U op lb lb' r ns hrun, ?_, ?_⟩
  · intro hm
    obtain ⟨h1, _, h3⟩ := C03_motion_copy_pure S U op hm lb lb' r ns hrun
    exact ⟨h1, h3⟩
  · intro hcap hfix hfit
    cases op <;> simp only [Op.honoursCapacity, Bool.false_eq_true] at hcap
    case update b p =>
      have hp : IsBoundary b p := boundaryB_iff.mp (by simpa [Op.argsValid] using ha)
      obtain ⟨lb2, ns2, h1, _, h3⟩ := C03_update_total_wf_capacity S U b p lb hp
      unfold Op.run at hrun
      obtain ⟨a, lb1, n1, n2, hm, hp', rfl⟩ := LM.bind_ok hrun
      rw [h1] at hm
      simp at hm hp'
      obtain ⟨rfl, _⟩ := hm
      obtain ⟨_, rfl, _⟩ := hp'
      exact h3 hfix
    case insert c n =>
      unfold Op.run at hrun
      obtain ⟨a, lb1, n1, n2, hm, hp', rfl⟩ := LM.bind_ok hrun
      simp at hp'
      obtain ⟨_, rfl, _⟩ := hp'
      rcases C03_capacity_insert S U c n lb lb1 a n1 hfix hm with ⟨_, rfl, _⟩ | h2
      · exact hfit
      · exact h2
    case yank t n =>
      unfold Op.run at hrun
      obtain ⟨a, lb1, n1, n2, hm, hp', rfl⟩ := LM.bind_ok hrun
      simp at hp'
      obtain ⟨_, rfl, _⟩ := hp'
      rcases C03_capacity_yank S U t n lb lb1 a n1 hfix hm with ⟨_, rfl, _⟩ | h2
      · exact hfit
      · exact h2

/-- The single statement for EVERY operation, the only extra hypothesis being the one `insert_str` needs:
    its index is not before the cursor (the primitive does not adjust the cursor). -/
theorem C03_op_total_wf_replay_all_partial (S : Segmenter) (U : UData) (op : Op) (lb : LB) (h : WF lb)
    (ha : Op.argsValid lb op = true) (hi : ∀ i t, op = .insertStr i t → lb.pos ≤ i) : C03_OpOK S U op lb := by
  by_cases hc : C03_opCovered op = true
  · exact C03_op_total_wf_replay_partial S U op lb h ha hc
  · cases op <;> simp only [C03_opCovered, not_true_eq_false] at hc
    case insertStr i t =>
      have hib : IsBoundary lb.buf i := boundaryB_iff.mp (by simpa [Op.argsValid] using ha)
      obtain ⟨r, lb', ns, h1, hwf⟩ := C03_insertStr_total_wf S U i t lb h hib (hi i t rfl)
      have hrun : Op.run S U (.insertStr i t) lb = .ok (.bool r, lb', ns) := by
        unfold Op.run; exact C03_run_ok_of h1
      exact ⟨_, lb', ns, hrun, hwf, C03_notifications_replay S U _ lb lb' _ ns hrun,
        by intro hm; simp [Op.isMotionOrCopy] at hm, by intro hcap; simp [Op.honoursCapacity] at hcap⟩

/-- the full statement is NOT true of the current code: `insert_str` before the cursor leaves the
    byte cursor inside a character (known finding F-C03-insert_str-cursor). Witness: "aé", cursor 1,
    `insert_str(0, "é")` → cursor 1 lies inside the inserted 2-byte character. -/
theorem C03_insertStr_counterexample :
    ∃ lb lb' r ns, WF lb ∧ Op.argsValid lb (.insertStr 0 ['é']) = true ∧
      Op.run charSeg ⟨fun _ => false, fun _ => false, fun c => [c], fun c => [c], fun t => t.length, fun _ => 1⟩
        (.insertStr 0 ['é']) lb = .ok (r, lb', ns) ∧ ¬ WF lb' := by
  refine ⟨⟨['a', 'é'], 1, 16, false⟩, ⟨['é', 'a', 'é'], 1, 16, false⟩, .bool false, [.insStr 0 ['é']], ?_, ?_, ?_, ?_⟩
  · exact ⟨['a'], ['é'], rfl, by decide⟩
  · decide
  · rfl
  · intro hw
    have := boundaryB_iff.mpr hw
    revert this
    decide

/-! ### non-vacuity: the hypotheses are satisfiable and the theorems say something on a real text -/

example : WF ⟨['á', 'b', '\n', 'c'], 2, 16, false⟩ := ⟨['á'], ['b', '\n', 'c'], rfl, by decide⟩
example : C03_opCovered (.kill (.forwardWord 2 .beforeEnd .vi)) = true := by decide
example : C03_opCovered (.indent (.lineDown 3) 33 true) = true := by decide
example : Op.argsValid ⟨['á', 'b', '\n', 'c'], 2, 16, false⟩ (.indent .wholeBuffer 255 false) = true := by decide
example : Op.argsValid ⟨['á', 'b', '\n', 'c'], 2, 16, false⟩ (.replace 0 2 ['x']) = true := by decide

/-! ### arbitrary SEQUENCES of operations (`Op.runAll`, `Op.Admissible`: `Rl/Lemmas/LineBufferSeq.lean`) -/

/-- Sequence form of the clause "reports … notifications that, replayed on the old text, yield exactly the
    new text": for EVERY list of public method calls, from EVERY state (well-formed or not), with every
    argument, if the calls return without panic then the concatenation of everything the listener was told,
    replayed on the text before the first call, yields exactly the text after the last call. (This is what
    undo (C05) and the kill ring (C06) rely on over a whole editing session, not only over one call.) -/
theorem C03_ops_notifications_replay (S : Segmenter) (U : UData) (ops : List Op) (lb lb' : LB)
    (rs : List Ret) (ns : List Notif) (h : Op.runAll S U ops lb = .ok (rs, lb', ns)) :
    replay ns lb.buf = some lb'.buf :=
  Op.runAll_replay ops lb lb' rs ns h

/-- Sequence form of the single statement: from every well-formed state (cursor on a character boundary),
    EVERY list of public method calls whose arguments are, at the moment of each call, inside the contract of
    the explicit-index primitives (`Op.Admissible`: `Op.argsValid` in the current state, and `insert_str` not
    before the cursor) runs to the end without panic, answers every call, leaves the cursor inside the text on
    a character boundary, and the concatenated notifications replay the first text to the last. -/
theorem C03_ops_total_wf_replay (S : Segmenter) (U : UData) : ∀ (ops : List Op) (lb : LB), WF lb →
    Op.Admissible S U ops lb →
    ∃ rs lb' ns, Op.runAll S U ops lb = .ok (rs, lb', ns) ∧ rs.length = ops.length ∧ WF lb' ∧
      replay ns lb.buf = some lb'.buf
  | [], lb, h, _ => ⟨[], lb, [], rfl, rfl, h, rfl⟩
  | op :: ops, lb, h, ha => by
    obtain ⟨r, lb1, n1, h1, hwf, _⟩ := C03_op_total_wf_replay_all_partial S U op lb h ha.1 ha.2.1
    obtain ⟨rs, lb2, n2, h2, hlen, hwf2, _⟩ := C03_ops_total_wf_replay S U ops lb1 hwf (ha.2.2 r lb1 n1 h1)
    have hrun := Op.runAll_cons_ok h1 h2
    exact ⟨r :: rs, lb2, n1 ++ n2, hrun, by simp [hlen], hwf2, Op.runAll_replay _ _ _ _ _ hrun⟩

/-- "Every reachable state is well-formed": under the hypotheses of `C03_ops_total_wf_replay`, after EVERY
    prefix of the call list (not only at the end) the run has not panicked and the cursor is on a character
    boundary of the text; and the notifications sent so far replay the first text to the current one. -/
theorem C03_ops_every_prefix_wf (S : Segmenter) (U : UData) (ops : List Op) (lb : LB) (h : WF lb)
    (ha : Op.Admissible S U ops lb) (k : Nat) :
    ∃ rs lb' ns, Op.runAll S U (ops.take k) lb = .ok (rs, lb', ns) ∧ WF lb' ∧
      replay ns lb.buf = some lb'.buf := by
  have hp : Op.Admissible S U (ops.take k) lb :=
    Op.Admissible.prefix (ops.take k) (b := ops.drop k) (by rw [List.take_append_drop]; exact ha)
  obtain ⟨rs, lb', ns, h1, _, h2, h3⟩ := C03_ops_total_wf_replay S U (ops.take k) lb h hp
  exact ⟨rs, lb', ns, h1, h2, h3⟩

/-- Sequence form of "changes the text only if it is an editing operation": a list of calls that are all
    motions, queries or copies — however long, from every state, with every argument — leaves text, capacity
    and growability alone and never calls the listener. -/
theorem C03_ops_motion_copy_pure (S : Segmenter) (U : UData) : ∀ (ops : List Op) (lb lb' : LB)
    (rs : List Ret) (ns : List Notif), (∀ op ∈ ops, Op.isMotionOrCopy op = true) →
    Op.runAll S U ops lb = .ok (rs, lb', ns) →
    lb'.buf = lb.buf ∧ lb'.cap = lb.cap ∧ lb'.canGrow = lb.canGrow ∧ ns = []
  | [], lb, lb', rs, ns, _, h => by
    rw [Op.runAll_nil] at h; cases h; exact ⟨rfl, rfl, rfl, rfl⟩
  | op :: ops, lb, lb', rs, ns, hp, h => by
    obtain ⟨r, lb1, n1, rs', n2, h1, h2, _, rfl⟩ := Op.runAll_cons_inv h
    obtain ⟨a1, a2, a3, a4⟩ := (PosOnly.run S U op (hp op List.mem_cons_self)).h lb r lb1 n1 h1
    obtain ⟨b1, b2, b3, b4⟩ := C03_ops_motion_copy_pure S U ops lb1 lb' rs' n2
      (fun o ho => hp o (List.mem_cons_of_mem _ ho)) h2
    exact ⟨b1.trans a1, b2.trans a2, b3.trans a3, by simp [a4, b4]⟩

/-! non-vacuity of the sequence theorems: a call list with explicit indices, on a text with a 2-byte
    character; the run is computed by the model -/
example : Op.runAll charSeg ⟨fun _ => false, fun _ => false, fun c => [c], fun c => [c], fun t => t.length, fun _ => 1⟩
    [.insert 'é' 1, .setPos 0, .replace 0 2 ['x'], .moveBufferEnd] ⟨['á', 'b'], 2, 16, false⟩ =
    .ok ([.optBool (some false), .unit, .unit, .bool true], ⟨['x', 'é', 'b'], 4, 16, false⟩,
      [.insChar 2 'é', .repl 0 ['á'] ['x']]) := by rfl

/-- the state invariant of a fixed-capacity buffer (`LineBuffer::with_capacity(c)` when the text fits): it cannot grow, its
    capacity is still `c`, and the text fits into `c` bytes -/
def C03_FixedFits (c : Nat) (lb : LB) : Prop := lb.canGrow = false ∧ lb.cap = c ∧ blen lb.buf ≤ c

/-- the calls of a typing session on a fixed-capacity buffer: the capacity-honouring insertions `insert`, `yank`
    and every motion, query or copy -/
def C03_opTyping : Op → Bool
  | .insert _ _ | .yank _ _ => true
  | op => Op.isMotionOrCopy op

/-- one step: `insert`, `yank` and the motions keep a fixed-capacity buffer fixed, its capacity unchanged and
    its text inside the capacity (from every state, no well-formedness needed) -/
theorem C03_typing_step_fixedFits (S : Segmenter) (U : UData) (c : Nat) (op : Op) (lb : LB) (r : Ret) (lb' : LB)
    (ns : List Notif) (hop : C03_opTyping op = true) (hi : C03_FixedFits c lb)
    (h : Op.run S U op lb = .ok (r, lb', ns)) : C03_FixedFits c lb' := by
  obtain ⟨hfix, hcap, hfit⟩ := hi
  by_cases hm : Op.isMotionOrCopy op = true
  · obtain ⟨a1, a2, a3, _⟩ := (PosOnly.run S U op hm).h lb r lb' ns h
    exact ⟨a3.trans hfix, a2.trans hcap, by rw [a1]; exact hfit⟩
  · cases op <;> simp only [C03_opTyping, Op.isMotionOrCopy, Bool.false_eq_true, not_true_eq_false] at hop hm
    case insert ch n =>
      unfold Op.run at h
      obtain ⟨a, lb1, n1, n2, hrun, hp', rfl⟩ := LM.bind_ok h
      simp only [LM.pure_apply, Except.ok.injEq, Prod.mk.injEq] at hp'
      obtain ⟨_, rfl, _⟩ := hp'
      rw [insert_eval] at hrun
      split at hrun
      · cases hrun; exact ⟨hfix, hcap, hfit⟩
      · rename_i ht
        have hle : blen lb.buf + ch.utf8Size * n ≤ lb.cap := by
          simp [LB.mustTruncate, hfix, LB.len] at ht; exact ht
        split at hrun
        · cases hrun
        · rename_i x z hs
          cases hrun
          obtain ⟨hb, _⟩ := splitAtByte_some hs
          refine ⟨hfix, ?_, ?_⟩
          · show growCap lb.cap _ = c
            rw [growCap_fit hle]; exact hcap
          · show blen (x ++ List.replicate n ch ++ z) ≤ c
            simp [hb, blen_replicate] at hle ⊢; omega
    case yank t n =>
      unfold Op.run at h
      obtain ⟨a, lb1, n1, n2, hrun, hp', rfl⟩ := LM.bind_ok h
      simp only [LM.pure_apply, Except.ok.injEq, Prod.mk.injEq] at hp'
      obtain ⟨_, rfl, _⟩ := hp'
      rw [yank_eval] at hrun
      split at hrun
      · cases hrun; exact ⟨hfix, hcap, hfit⟩
      · rename_i ht
        have hle : blen lb.buf + blen t * n ≤ lb.cap := by
          simp [LB.mustTruncate, hfix, LB.len] at ht; exact ht.2
        split at hrun
        · cases hrun
        · rename_i x z hs
          cases hrun
          obtain ⟨hb, _⟩ := splitAtByte_some hs
          refine ⟨hfix, ?_, ?_⟩
          · show growCap lb.cap _ = c
            rw [growCap_fit hle]; exact hcap
          · show blen (x ++ yankText t n ++ z) ≤ c
            simp [hb, blen_yankText] at hle ⊢; omega

example : C03_FixedFits 4 (LB.withCapacity 4) := ⟨rfl, rfl, by decide⟩
example : ∀ op ∈ [Op.insert 'é' 2, .moveBackward 1, .yank ['a', 'b'] 3, .copy .wholeBuffer], C03_opTyping op = true := by decide

/-- the calls whose contract does not depend on the state they are made in: every cursor-relative method with
    every argument value, `update` with a cursor on a boundary of ITS OWN new text, `indent` with a `u8`
    amount; only the explicit-index primitives `yank_pop`, `replace`, `delete_range`, `insert_str`, `set_pos`
    (whose indices must be boundaries of the CURRENT text) are left out -/
def C03_opAlwaysValid : Op → Bool
  | .yankPop _ _ | .replace _ _ _ | .deleteRange _ _ | .insertStr _ _ | .setPos _ => false
  | .update b p => boundaryB b p
  | .indent _ k _ => decide (k ≤ 255)
  | _ => true

theorem C03_alwaysValid_argsValid (op : Op) (h : C03_opAlwaysValid op = true) (lb : LB) :
    Op.argsValid lb op = true ∧ ∀ i t, op = .insertStr i t → lb.pos ≤ i := by
  cases op <;> simp_all [C03_opAlwaysValid, Op.argsValid]

theorem C03_alwaysValid_admissible (S : Segmenter) (U : UData) : ∀ (ops : List Op),
    (∀ op ∈ ops, C03_opAlwaysValid op = true) → ∀ lb, Op.Admissible S U ops lb
  | [], _, _ => trivial
  | op :: ops, h, lb =>
    ⟨(C03_alwaysValid_argsValid op (h op List.mem_cons_self) lb).1,
     (C03_alwaysValid_argsValid op (h op List.mem_cons_self) lb).2,
     fun _ lb' _ _ => C03_alwaysValid_admissible S U ops (fun o ho => h o (List.mem_cons_of_mem _ ho)) lb'⟩

/-- An editing SESSION is total: from every state with the cursor on a character boundary (in particular from
    `LineBuffer::with_capacity`), EVERY list — of any length — of cursor-relative method calls (insert, yank,
    every motion, delete, backspace, every kill / copy / indent movement, word and char-search operations,
    transpositions, case changes, line motions, with every count incl. 0 and 65535) and of `update`s to a
    text with a boundary cursor runs to the end without panic; after every call the cursor is inside the text
    on a character boundary; and everything the listener was told replays the first text to the last. No
    hypothesis about intermediate states is needed. -/
theorem C03_session_total_wf_replay (S : Segmenter) (U : UData) (ops : List Op) (lb : LB) (h : WF lb)
    (hops : ∀ op ∈ ops, C03_opAlwaysValid op = true) (k : Nat) :
    ∃ rs lb' ns, Op.runAll S U (ops.take k) lb = .ok (rs, lb', ns) ∧ WF lb' ∧
      replay ns lb.buf = some lb'.buf :=
  C03_ops_every_prefix_wf S U ops lb h (C03_alwaysValid_admissible S U ops hops lb) k

example : WF (LB.withCapacity 8) := ⟨[], [], rfl, by decide⟩
example : ∀ op ∈ [Op.insert 'é' 65535, .kill (.backwardWord 0 .vi), .update ['á', 'b'] 2, .transposeChars,
    .indent .wholeBuffer 255 true, .editWord .uppercase], C03_opAlwaysValid op = true := by decide

/-- `update` on a fixed-capacity buffer, the part `C03_update_total_wf_capacity` does not state: besides
    storing a text that fits (cut on a character boundary if need be), it keeps the buffer fixed and does not
    reallocate — the capacity after the call is the capacity before it. -/
theorem C03_update_fixed_capacity_kept (S : Segmenter) (U : UData) (b : Text) (p : Nat) (lb : LB)
    (hp : IsBoundary b p) (hfix : lb.canGrow = false) :
    ∃ lb' ns, LB.update S U b p lb = .ok ((), lb', ns) ∧ lb'.canGrow = false ∧ lb'.cap = lb.cap ∧
      blen lb'.buf ≤ lb.cap := by
  have hple : p ≤ blen b := hp.le_len
  unfold LB.update
  by_cases ht : ({ lb with buf := [] } : LB).mustTruncate (blen b) = true
  · obtain ⟨hfb, hfle⟩ := floorBoundary_spec b lb.cap
    obtain ⟨cut, rest, hcr, hcl⟩ := hfb
    have hs : sliceTo b (floorBoundary b lb.cap) = .ok cut := by
      rw [hcl]; conv => lhs; rw [hcr]
      exact sliceTo_mid cut rest
    refine ⟨{ lb with buf := cut, pos := min (floorBoundary b lb.cap) p, cap := growCap lb.cap (blen cut) },
      [.del 0 lb.buf .forward, .insStr 0 cut], ?_, hfix, ?_, ?_⟩
    · simp [LM.bind_apply, LM.get, hple, drain_all, ht, LM.lift, hs, insertStr_empty, LM.setPos]
    · show growCap lb.cap (blen cut) = lb.cap
      exact growCap_fit (by omega)
    · show blen cut ≤ lb.cap; omega
  · have hle : blen b ≤ lb.cap := by simp [LB.mustTruncate, hfix] at ht; exact ht
    refine ⟨{ lb with buf := b, pos := p, cap := growCap lb.cap (blen b) },
      [.del 0 lb.buf .forward, .insStr 0 b], ?_, hfix, ?_, hle⟩
    · simp [LM.bind_apply, LM.get, hple, drain_all, ht, insertStr_empty, LM.setPos]
    · show growCap lb.cap (blen b) = lb.cap
      exact growCap_fit hle

/-- the three operations the property names as honouring a fixed capacity (`insert`, `yank`, `update` with a
    cursor on a boundary of its new text) and every motion, query or copy -/
def C03_opCapacitySession : Op → Bool
  | .update b p => boundaryB b p
  | op => C03_opTyping op

/-- Capacity along SEQUENCES, all three capacity-honouring operations: on a fixed-capacity buffer whose text
    fits, any list of `insert` / `yank` / `update` calls interleaved with any motions, queries and copies
    keeps the text within the capacity the buffer was created with, never reallocates and never makes the
    buffer growable. (The remaining editing operations — `replace`, `insert_str`, `indent`, `edit_word`,
    `yank_pop` via `insert_str` — do not consult the capacity and are outside this statement, as in the
    property.) -/
theorem C03_ops_capacity_session (S : Segmenter) (U : UData) (c : Nat) (ops : List Op) (lb lb' : LB)
    (rs : List Ret) (ns : List Notif) (hops : ∀ op ∈ ops, C03_opCapacitySession op = true)
    (hi : C03_FixedFits c lb) (h : Op.runAll S U ops lb = .ok (rs, lb', ns)) : C03_FixedFits c lb' := by
  refine Op.runAll_invariant (C03_FixedFits c) (fun op => C03_opCapacitySession op = true) ?_ ops lb lb' rs ns hops hi h
  intro op lb r lb' ns hp hI hr
  by_cases hu : ∃ b p, op = .update b p
  · obtain ⟨b, p, rfl⟩ := hu
    have hb : IsBoundary b p := boundaryB_iff.mp (by simpa [C03_opCapacitySession] using hp)
    obtain ⟨lb2, ns2, h1, h2, h3, h4⟩ := C03_update_fixed_capacity_kept S U b p lb hb hI.1
    unfold Op.run at hr
    obtain ⟨a, lb1, n1, n2, hm, hp', rfl⟩ := LM.bind_ok hr
    rw [h1] at hm
    simp only [LM.pure_apply, Except.ok.injEq, Prod.mk.injEq] at hm hp'
    obtain ⟨_, rfl, _⟩ := hm
    obtain ⟨_, rfl, _⟩ := hp'
    exact ⟨h2, h3.trans hI.2.1, by have := hI.2.1; omega⟩
  · have ht : C03_opTyping op = true := by
      cases op <;> first | exact hp | exact absurd ⟨_, _, rfl⟩ hu
    exact C03_typing_step_fixedFits S U c op lb r lb' ns ht hI hr

example : ∀ op ∈ [Op.update ['á', 'b', 'c', 'd', 'e'] 2, .insert 'é' 2, .moveHome, .yank ['x'] 9],
    C03_opCapacitySession op = true := by decide

/-- non-vacuity of `Op.Admissible` with an explicit-index call: `insert('é')` then `replace(0..2, "x")` on
    "áb" with the cursor at 2 — the indices of `replace` are checked in the state `insert` left -/
example : Op.Admissible charSeg ⟨fun _ => false, fun _ => false, fun c => [c], fun c => [c], fun t => t.length, fun _ => 1⟩
    [.insert 'é' 1, .replace 0 2 ['x']] ⟨['á', 'b'], 2, 16, false⟩ := by
  refine ⟨by decide, (by intro i t h; cases h), ?_⟩
  intro r lb' ns h
  have e : Op.run charSeg ⟨fun _ => false, fun _ => false, fun c => [c], fun c => [c], fun t => t.length, fun _ => 1⟩
      (.insert 'é' 1) ⟨['á', 'b'], 2, 16, false⟩ =
      .ok (.optBool (some false), ⟨['á', 'é', 'b'], 4, 16, false⟩, [.insChar 2 'é']) := by rfl
  rw [e] at h
  cases h
  exact ⟨by decide, (by intro i t h; cases h), fun _ _ _ _ => trivial⟩
