/-
  Property C07 — history recall shows entries in order and returns the in-progress line intact.
  Spec machine: `Spec.navStep` (Rl/Spec/OracleNav.lean), run by the oracle over the implementation's
  callbacks.  Model: `editHistoryNext`, `editHistory`, `backup`, `restore` in Rl/Editor.lean.
  The stored history is a read-only parameter of the model (`cfg.hist`), so "the stored history is
  unchanged" is structural there; on the implementation it is checked through `Editor::history()`.
-/
import Rl.Editor
import Rl.Spec.OracleNav
open Rl Rl.Spec

/-- Spec: moving up from entry `i+1` shows entry `i` exactly as stored, cursor at its end. -/
theorem C07_spec_prev_shows_entry (hist : List Text) (st : NavSt) (o : Obs) (e : Text)
    (hk : classifyNav o = .prev) (hi : 0 < st.idx) (hlt : st.idx < hist.length)
    (he : hist[st.idx - 1]? = some e) :
    (navStep hist st o).1.idx = st.idx - 1 ∧
    (match (navStep hist st o).2 with | .exact l p => l = e ∧ p = blen e | _ => False) := by
  have hne : hist.length ≠ 0 := by omega
  have h1 : (hist.length == 0) = false := by simp [hne]
  have h2 : (st.idx == hist.length) = false := by simp; omega
  have h3 : (st.idx == 0) = false := by simp; omega
  simp [navStep, hk, h1, h2, h3, he]

/-- Spec: leaving the in-progress line (index = number of entries) saves it, and coming back down
    past the newest entry asks for exactly that line and cursor. -/
theorem C07_spec_return_restores (hist : List Text) (st : NavSt) (o o' : Obs)
    (hlen : 0 < hist.length) (hidx : st.idx = hist.length)
    (hk : classifyNav o = .prev) (hk' : classifyNav o' = .next) :
    let st1 := (navStep hist st o).1
    (match (navStep hist st1 o').2 with
     | .exact l p => l = o.line ∧ p = o.pos
     | _ => False) := by
  have hne : hist.length ≠ 0 := by omega
  have h1 : (hist.length == 0) = false := by simp [hne]
  obtain ⟨idx, saved⟩ := st
  simp only at hidx
  subst hidx
  have h4 : (hist.length - 1 + 1 == hist.length) = true := by simp; omega
  have h5 : (hist.length - 1 == hist.length) = false := by simp; omega
  simp [navStep, hk, hk', h1, hne, h4, h5]

/-- Spec: at the oldest entry a further "up" changes nothing (stops at the oldest). -/
theorem C07_spec_stops_at_oldest (hist : List Text) (st : NavSt) (o : Obs)
    (hk : classifyNav o = .prev) (h0 : st.idx = 0) (hlen : 0 < hist.length) :
    (navStep hist st o).1.idx = 0 ∧
    (match (navStep hist st o).2 with | .exact l p => l = o.line ∧ p = o.pos | _ => False) := by
  have hne : hist.length ≠ 0 := by omega
  have h1 : (hist.length == 0) = false := by simp [hne]
  have h2 : ((0 : Nat) == hist.length) = false := by simp; omega
  simp [navStep, hk, h1, h0, h2]

/-- Model: the history handed to a read is only read (`histGet`), entry by index. -/
theorem C07_model_reads_stored_entry (cfg : EdCfg) (i : Nat) : histGet cfg i = cfg.hist[i]? := rfl

/-- Full statements about the model (refinement of the spec machine), work in progress. -/
def C07_model_prev_statement : Prop :=
  ∀ (S : Segmenter) (U : UData) (cfg : EdCfg) (s s' : Ed) (e : Text),
    0 < s.histIdx → s.histIdx ≤ cfg.hist.length → cfg.hist[s.histIdx - 1]? = some e → s.line.canGrow = true →
    editHistoryNext S U cfg true s = .ok ((), s') →
    s'.line.buf = e ∧ s'.line.pos = blen e ∧ s'.histIdx = s.histIdx - 1
