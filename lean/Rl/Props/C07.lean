/-
  Property C07 — history recall shows entries in order and returns the in-progress line intact.
  Spec machine: `Spec.navStep` (Rl/Spec/OracleNav.lean), run by the oracle over the implementation's
  callbacks.  Model: `editHistoryNext`, `editHistory`, `backup`, `restore` in Rl/Editor.lean.
  The stored history is a read-only parameter of the model (`cfg.hist`), so "the stored history is
  unchanged" is structural there; on the implementation it is checked through `Editor::history()`.
-/
import Rl.Editor
import Rl.Spec.OracleNav
import Rl.Lemmas.EditorM
import Rl.Lemmas.EditorOps
import Rl.Lemmas.RowStore
import Rl.Lemmas.RecallFrame
import Rl.Lemmas.Vertical
import Rl.Lemmas.LineBufferSafe
open Rl Rl.Spec

/-- Spec: moving up from entry `i+1` shows entry `i` exactly as stored, cursor at its end. -/
theorem C07_spec_prev_shows_entry (hist : List Text) (st : NavSt) (o : Obs) (e : Text)
    (hk : classifyNav o = .prev) (hi : 0 < st.idx) (hlt : st.idx < hist.length)
    (he : hist[st.idx - 1]? = some e) :
    (navStep hist st o).1.idx = st.idx - 1 ∧
    (match (navStep hist st o).2 with | .exact l p => l = e ∧ p = blen e | _ => False) := by
  have hne : hist.length ≠ 0 := by omega
  have h1 : (hist.length == 0) = false := by simp [hne]
  have h2 : (st.idx == hist.length) = false := by simp; omega
  have h3 : (st.idx == 0) = false := by simp; omega
  simp [navStep, hk, h1, h2, h3, he]

/-- Spec: leaving the in-progress line (index = number of entries) saves it, and coming back down
    past the newest entry asks for exactly that line and cursor. -/
theorem C07_spec_return_restores (hist : List Text) (st : NavSt) (o o' : Obs)
    (hlen : 0 < hist.length) (hidx : st.idx = hist.length)
    (hk : classifyNav o = .prev) (hk' : classifyNav o' = .next) :
    let st1 := (navStep hist st o).1
    (match (navStep hist st1 o').2 with
     | .exact l p => l = o.line ∧ p = o.pos
     | _ => False) := by
  have hne : hist.length ≠ 0 := by omega
  have h1 : (hist.length == 0) = false := by simp [hne]
  obtain ⟨idx, saved⟩ := st
  simp only at hidx
  subst hidx
  have h4 : (hist.length - 1 + 1 == hist.length) = true := by simp; omega
  have h5 : (hist.length - 1 == hist.length) = false := by simp; omega
  simp [navStep, hk, hk', h1, hne, h4, h5]

/-- Spec: at the oldest entry a further "up" changes nothing (stops at the oldest). -/
theorem C07_spec_stops_at_oldest (hist : List Text) (st : NavSt) (o : Obs)
    (hk : classifyNav o = .prev) (h0 : st.idx = 0) (hlen : 0 < hist.length) :
    (navStep hist st o).1.idx = 0 ∧
    (match (navStep hist st o).2 with | .exact l p => l = o.line ∧ p = o.pos | _ => False) := by
  have hne : hist.length ≠ 0 := by omega
  have h1 : (hist.length == 0) = false := by simp [hne]
  have h2 : ((0 : Nat) == hist.length) = false := by simp; omega
  simp [navStep, hk, h1, h0, h2]

/-- Model: the history handed to a read is only read (`histGet`), entry by index. -/
theorem C07_model_reads_stored_entry (cfg : EdCfg) (i : Nat) : histGet cfg i = cfg.hist[i]? := rfl

/-- Statement about the model: `PreviousHistory` from index `i+1` shows `hist[i]` exactly as stored,
    cursor at its end, index `i` (proved below as `C07_model_prev`). -/
def C07_model_prev_statement : Prop :=
  ∀ (S : Segmenter) (U : UData) (cfg : EdCfg) (s s' : Ed) (e : Text),
    cfg.histRows = none →
    0 < s.histIdx → s.histIdx ≤ cfg.hist.length → cfg.hist[s.histIdx - 1]? = some e → s.line.canGrow = true →
    editHistoryNext S U cfg true s = .ok ((), s') →
    s'.line.buf = e ∧ s'.line.pos = blen e ∧ s'.histIdx = s.histIdx - 1

/-! ### the model refines a declarative navigation machine on (line, cursor, index, saved line) -/

/-- the part of the editor state history navigation is about -/
structure Nav where
  buf : Text
  pos : Nat
  idx : Nat
  savedBuf : Text
  savedPos : Nat
deriving DecidableEq

def navOf (s : Ed) : Nav := ⟨s.line.buf, s.line.pos, s.histIdx, s.saved.buf, s.saved.pos⟩

structure NavOK (cfg : EdCfg) (s : Ed) : Prop where
  lineGrow : s.line.canGrow = true
  savedGrow : s.saved.canGrow = true
  linePos : s.line.pos ≤ blen s.line.buf
  savedPos : s.saved.pos ≤ blen s.saved.buf
  idx : s.histIdx ≤ histLen cfg

/-- a history back end as the recall commands see it: `History::len()` and `History::get(i, dir)` -/
structure HStore where
  len : Nat
  get : Nat → Dir → Option (Nat × Text)

def storeOf (cfg : EdCfg) : HStore := ⟨histLen cfg, histGetDir cfg⟩

/-- the answers of `get` are indices below `len` (true of both back ends, `C07_storeOK_*`) -/
def StoreOK (H : HStore) : Prop := ∀ i d j e, H.get i d = some (j, e) → j < H.len

/-- leaving the in-progress position saves (text, cursor) -/
def navSave (H : HStore) (n : Nav) : Nav :=
  if n.idx = H.len then { n with savedBuf := n.buf, savedPos := n.pos } else n

/-- declarative "previous entry" over any back end: the nearest entry at or before `idx - 1` -/
def navPrevS (H : HStore) (n : Nav) : Nav :=
  if H.len = 0 then n
  else if n.idx = 0 then n
  else if n.idx - 1 < H.len then
    match H.get (n.idx - 1) .reverse with
    | some (j, e) => { navSave H n with buf := e, pos := blen e, idx := j }
    | none => navSave H n
  else { navSave H n with buf := (navSave H n).savedBuf, pos := (navSave H n).savedPos }

/-- declarative "next entry": the nearest entry at or after `idx + 1`, or the saved line -/
def navNextS (H : HStore) (n : Nav) : Nav :=
  if H.len = 0 ∨ n.idx = H.len then n
  else if n.idx + 1 < H.len then
    match H.get (n.idx + 1) .forward with
    | some (j, e) => { n with buf := e, pos := blen e, idx := j }
    | none => { n with idx := n.idx + 1 }
  else { n with buf := n.savedBuf, pos := n.savedPos, idx := n.idx + 1 }

def navFirstS (H : HStore) (n : Nav) : Nav :=
  if H.len = 0 then n
  else if n.idx = 0 then n
  else match H.get 0 .forward with
    | some (j, e) => if j = n.idx then navSave H n else { navSave H n with buf := e, pos := blen e, idx := j }
    | none => navSave H n

def navLastS (H : HStore) (n : Nav) : Nav :=
  if H.len = 0 ∨ n.idx = H.len then n
  else { n with buf := n.savedBuf, pos := n.savedPos, idx := H.len }

section
variable (S : Segmenter) (U : UData) (cfg : EdCfg)

theorem C07_prev_specS (hnp : cfg.hinterPanicAt = none) (hst : StoreOK (storeOf cfg)) (s : Ed)
    (h : NavOK cfg s) :
    wp (editHistoryNext S U cfg true)
      (fun _ s' => navOf s' = navPrevS (storeOf cfg) (navOf s) ∧ NavOK cfg s' ∧ s'.ring = s.ring)
      (fun _ _ => False) s := by
  obtain ⟨h1, h2, h3, h4, h5⟩ := h
  unfold editHistoryNext
  simp only [wp_bind, wp_ite, wp_pure, wp_getHistIdx, wp_setHistIdx, if_true]
  by_cases hlen : histLen cfg = 0
  · simp [hlen, navPrevS, storeOf]
    exact ⟨h1, h2, h3, h4, h5⟩
  · have hl0 : (histLen cfg == 0) = false := by simp [hlen]
    simp only [hl0, Bool.false_eq_true, if_false]
    by_cases hend : s.histIdx = histLen cfg
    · have he : (s.histIdx == histLen cfg) = true := by simp [hend]
      simp only [he, if_true]
      refine wp_backup S U h2 h3 ?_
      have hlt : s.histIdx - 1 < histLen cfg := by omega
      have hne : s.histIdx ≠ 0 := by omega
      simp only [hlt, if_true]
      cases hg : histGetDir cfg (s.histIdx - 1) Dir.reverse with
      | none =>
        have hg' := hg
        rw [hend] at hg'
        simp only [wp_pure]
        refine ⟨?_, ⟨h1, h2, h3, h3, h5⟩, trivial⟩
        have hlt' : histLen cfg - 1 < histLen cfg := by omega
        simp [navOf, navPrevS, storeOf, navSave, hlen, hg', hend, LB.updated, hlt']
      | some p =>
        obtain ⟨j, e⟩ := p
        have hg' := hg
        rw [hend] at hg'
        simp only [wp_bind, wp_setHistIdx]
        refine wp_showEntry S U h1 (Nat.le_refl _) ?_
        refine wp_refreshLine_np S U cfg hnp fun s' hc => ?_
        obtain ⟨c1, c2, _, c4, c5, _, _⟩ := Ed.core_eq hc
        refine ⟨?_, ⟨?_, ?_, ?_, ?_, ?_⟩, c4⟩
        · have hlt' : histLen cfg - 1 < histLen cfg := by omega
          simp [navOf, navPrevS, storeOf, navSave, hlen, hg', hend, c1, c2, c5, LB.updated, hlt']
        · rw [c1]; exact h1
        · rw [c2]; exact h2
        · rw [c1]; exact Nat.le_refl _
        · rw [c2]; exact h3
        · rw [c5]; exact Nat.le_of_lt (hst (s.histIdx - 1) .reverse j e hg)
    · have he : (s.histIdx == histLen cfg) = false := by simp [hend]
      simp only [he, Bool.false_eq_true, if_false]
      by_cases h0 : s.histIdx = 0
      · simp [h0, navPrevS, navOf, storeOf, hlen]
        exact ⟨h1, h2, h3, h4, by omega⟩
      · have h0' : (s.histIdx == 0 && true) = false := by simp [h0]
        simp only [h0', Bool.false_eq_true, if_false]
        have hlt : s.histIdx - 1 < histLen cfg := by omega
        simp only [hlt, if_true]
        cases hg : histGetDir cfg (s.histIdx - 1) Dir.reverse with
        | none =>
          simp only [wp_pure]
          refine ⟨?_, ⟨h1, h2, h3, h4, h5⟩, trivial⟩
          simp [navOf, navPrevS, storeOf, navSave, hlen, h0, hlt, hg, hend]
        | some p =>
          obtain ⟨j, e⟩ := p
          simp only [wp_bind, wp_setHistIdx]
          refine wp_showEntry S U h1 (Nat.le_refl _) ?_
          refine wp_refreshLine_np S U cfg hnp fun s' hc => ?_
          obtain ⟨c1, c2, _, c4, c5, _, _⟩ := Ed.core_eq hc
          refine ⟨?_, ⟨?_, ?_, ?_, ?_, ?_⟩, c4⟩
          · simp [navOf, navPrevS, storeOf, navSave, hlen, h0, hlt, hg, hend, c1, c2, c5, LB.updated]
          · rw [c1]; exact h1
          · rw [c2]; exact h2
          · rw [c1]; exact Nat.le_refl _
          · rw [c2]; exact h4
          · rw [c5]; exact Nat.le_of_lt (hst (s.histIdx - 1) .reverse j e hg)

theorem C07_next_specS (hnp : cfg.hinterPanicAt = none) (hst : StoreOK (storeOf cfg)) (s : Ed)
    (h : NavOK cfg s) :
    wp (editHistoryNext S U cfg false)
      (fun _ s' => navOf s' = navNextS (storeOf cfg) (navOf s) ∧ NavOK cfg s' ∧ s'.ring = s.ring)
      (fun _ _ => False) s := by
  obtain ⟨h1, h2, h3, h4, h5⟩ := h
  unfold editHistoryNext
  simp only [wp_bind, wp_ite, wp_pure, wp_getHistIdx, wp_setHistIdx, Bool.false_eq_true, if_false, Bool.and_false]
  by_cases hlen : histLen cfg = 0
  · simp [hlen, navNextS, storeOf]
    exact ⟨h1, h2, h3, h4, h5⟩
  · have hl0 : (histLen cfg == 0) = false := by simp [hlen]
    simp only [hl0, Bool.false_eq_true, if_false]
    by_cases hend : s.histIdx = histLen cfg
    · have he : (s.histIdx == histLen cfg) = true := by simp [hend]
      simp only [he, if_true]
      refine ⟨?_, ⟨h1, h2, h3, h4, h5⟩, trivial⟩
      simp [navNextS, navOf, storeOf, hend]
    · have he : (s.histIdx == histLen cfg) = false := by simp [hend]
      simp only [he, Bool.false_eq_true, if_false]
      by_cases hlt : s.histIdx + 1 < histLen cfg
      · simp only [hlt, if_true]
        cases hg : histGetDir cfg (s.histIdx + 1) Dir.forward with
        | none =>
          simp only [wp_pure]
          refine ⟨?_, ⟨h1, h2, h3, h4, Nat.le_of_lt hlt⟩, trivial⟩
          simp [navOf, navNextS, storeOf, hlen, hend, hlt, hg]
        | some p =>
          obtain ⟨j, e⟩ := p
          simp only [wp_bind, wp_setHistIdx]
          refine wp_showEntry S U h1 (Nat.le_refl _) ?_
          refine wp_refreshLine_np S U cfg hnp fun s' hc => ?_
          obtain ⟨c1, c2, _, c4, c5, _, _⟩ := Ed.core_eq hc
          refine ⟨?_, ⟨?_, ?_, ?_, ?_, ?_⟩, c4⟩
          · simp [navOf, navNextS, storeOf, hlen, hend, hlt, hg, c1, c2, c5, LB.updated]
          · rw [c1]; exact h1
          · rw [c2]; exact h2
          · rw [c1]; exact Nat.le_refl _
          · rw [c2]; exact h4
          · rw [c5]; exact Nat.le_of_lt (hst (s.histIdx + 1) .forward j e hg)
      · simp only [hlt, if_false]
        refine wp_restore S U h1 h4 ?_
        refine wp_refreshLine_np S U cfg hnp fun s' hc => ?_
        obtain ⟨c1, c2, _, c4, c5, _, _⟩ := Ed.core_eq hc
        refine ⟨?_, ⟨?_, ?_, ?_, ?_, ?_⟩, c4⟩
        · simp [navOf, navNextS, storeOf, hlen, hend, hlt, c1, c2, c5, LB.updated]
        · rw [c1]; exact h1
        · rw [c2]; exact h2
        · rw [c1]; exact h4
        · rw [c2]; exact h4
        · rw [c5]; simp only []; omega

theorem C07_first_specS (hnp : cfg.hinterPanicAt = none) (hst : StoreOK (storeOf cfg)) (s : Ed)
    (h : NavOK cfg s) :
    wp (editHistory S U cfg true)
      (fun _ s' => navOf s' = navFirstS (storeOf cfg) (navOf s) ∧ NavOK cfg s' ∧ s'.ring = s.ring)
      (fun _ _ => False) s := by
  obtain ⟨h1, h2, h3, h4, h5⟩ := h
  unfold editHistory
  simp only [wp_bind, wp_ite, wp_pure, wp_getHistIdx, wp_setHistIdx, if_true]
  by_cases hlen : histLen cfg = 0
  · simp [hlen, navFirstS, storeOf]
    exact ⟨h1, h2, h3, h4, h5⟩
  · have hl0 : (histLen cfg == 0) = false := by simp [hlen]
    simp only [hl0, Bool.false_eq_true, if_false]
    by_cases hend : s.histIdx = histLen cfg
    · have he : (s.histIdx == histLen cfg) = true := by simp [hend]
      have hne : histLen cfg ≠ 0 := hlen
      simp only [he, if_true]
      refine wp_backup S U h2 h3 ?_
      cases hg : histGetDir cfg 0 Dir.forward with
      | none =>
        simp only [wp_pure]
        refine ⟨?_, ⟨h1, h2, h3, h3, h5⟩, trivial⟩
        simp [navOf, navFirstS, storeOf, navSave, hlen, hg, hend, LB.updated]
      | some p =>
        obtain ⟨j, e⟩ := p
        have hj := hst 0 .forward j e hg
        have hjne : ¬ j = histLen cfg := by simp only [storeOf] at hj; omega
        have hjne' : (j == s.histIdx) = false := by simp [hend]; omega
        simp only [hjne', Bool.false_eq_true, if_false, wp_bind, wp_setHistIdx]
        refine wp_showEntry S U h1 (Nat.le_refl _) ?_
        refine wp_refreshLine_np S U cfg hnp fun s' hc => ?_
        obtain ⟨c1, c2, _, c4, c5, _, _⟩ := Ed.core_eq hc
        refine ⟨?_, ⟨?_, ?_, ?_, ?_, ?_⟩, c4⟩
        · simp [navOf, navFirstS, storeOf, navSave, hlen, hg, hend, hjne, c1, c2, c5, LB.updated]
        · rw [c1]; exact h1
        · rw [c2]; exact h2
        · rw [c1]; exact Nat.le_refl _
        · rw [c2]; exact h3
        · rw [c5]; exact Nat.le_of_lt hj
    · have he : (s.histIdx == histLen cfg) = false := by simp [hend]
      simp only [he, Bool.false_eq_true, if_false]
      by_cases h0 : s.histIdx = 0
      · simp [h0, navFirstS, navOf, storeOf, hlen]
        exact ⟨h1, h2, h3, h4, by omega⟩
      · have h0' : (s.histIdx == 0 && true) = false := by simp [h0]
        simp only [h0', Bool.false_eq_true, if_false]
        cases hg : histGetDir cfg 0 Dir.forward with
        | none =>
          simp only [wp_pure]
          refine ⟨?_, ⟨h1, h2, h3, h4, h5⟩, trivial⟩
          simp [navOf, navFirstS, storeOf, navSave, hlen, h0, hg, hend]
        | some p =>
          obtain ⟨j, e⟩ := p
          by_cases hj : j = s.histIdx
          · have hj' : (j == s.histIdx) = true := by simp [hj]
            simp only [hj', if_true, wp_pure]
            refine ⟨?_, ⟨h1, h2, h3, h4, h5⟩, trivial⟩
            simp [navOf, navFirstS, storeOf, navSave, hlen, h0, hg, hend, hj]
          · have hj' : (j == s.histIdx) = false := by simp [hj]
            simp only [hj', Bool.false_eq_true, if_false, wp_bind, wp_setHistIdx]
            refine wp_showEntry S U h1 (Nat.le_refl _) ?_
            refine wp_refreshLine_np S U cfg hnp fun s' hc => ?_
            obtain ⟨c1, c2, _, c4, c5, _, _⟩ := Ed.core_eq hc
            refine ⟨?_, ⟨?_, ?_, ?_, ?_, ?_⟩, c4⟩
            · simp [navOf, navFirstS, storeOf, navSave, hlen, h0, hg, hend, hj, c1, c2, c5, LB.updated]
            · rw [c1]; exact h1
            · rw [c2]; exact h2
            · rw [c1]; exact Nat.le_refl _
            · rw [c2]; exact h4
            · rw [c5]; exact Nat.le_of_lt (hst 0 .forward j e hg)

theorem C07_last_specS (hnp : cfg.hinterPanicAt = none) (s : Ed) (h : NavOK cfg s) :
    wp (editHistory S U cfg false)
      (fun _ s' => navOf s' = navLastS (storeOf cfg) (navOf s) ∧ NavOK cfg s' ∧ s'.ring = s.ring)
      (fun _ _ => False) s := by
  obtain ⟨h1, h2, h3, h4, h5⟩ := h
  unfold editHistory
  simp only [wp_bind, wp_ite, wp_pure, wp_getHistIdx, wp_setHistIdx, Bool.false_eq_true, if_false, Bool.and_false]
  by_cases hlen : histLen cfg = 0
  · simp [hlen, navLastS, storeOf]
    exact ⟨h1, h2, h3, h4, h5⟩
  · have hl0 : (histLen cfg == 0) = false := by simp [hlen]
    simp only [hl0, Bool.false_eq_true, if_false]
    by_cases hend : s.histIdx = histLen cfg
    · have he : (s.histIdx == histLen cfg) = true := by simp [hend]
      simp only [he, if_true]
      refine ⟨?_, ⟨h1, h2, h3, h4, h5⟩, trivial⟩
      simp [navLastS, navOf, storeOf, hend]
    · have he : (s.histIdx == histLen cfg) = false := by simp [hend]
      simp only [he, Bool.false_eq_true, if_false]
      refine wp_restore S U h1 h4 ?_
      refine wp_refreshLine_np S U cfg hnp fun s' hc => ?_
      obtain ⟨c1, c2, _, c4, c5, _, _⟩ := Ed.core_eq hc
      refine ⟨?_, ⟨?_, ?_, ?_, ?_, ?_⟩, c4⟩
      · simp [navOf, navLastS, storeOf, hlen, hend, c1, c2, c5, LB.updated]
      · rw [c1]; exact h1
      · rw [c2]; exact h2
      · rw [c1]; exact h4
      · rw [c2]; exact h4
      · rw [c5]; exact Nat.le_refl _
end

/-! ### the declarative machine of the default back end (index = position) -/

/-- declarative "previous entry" -/
def navPrev (hist : List Text) (n : Nav) : Nav :=
  if n.idx = 0 then n
  else match hist[n.idx - 1]? with
    | some e =>
      { buf := e, pos := blen e, idx := n.idx - 1,
        savedBuf := if n.idx = hist.length then n.buf else n.savedBuf,
        savedPos := if n.idx = hist.length then n.pos else n.savedPos }
    | none => n

/-- declarative "next entry" -/
def navNext (hist : List Text) (n : Nav) : Nav :=
  if hist.length ≤ n.idx then n
  else match hist[n.idx + 1]? with
    | some e => { n with buf := e, pos := blen e, idx := n.idx + 1 }
    | none => { n with buf := n.savedBuf, pos := n.savedPos, idx := hist.length }

/-- declarative "first entry" / "back to the line being typed" -/
def navFirst (hist : List Text) (n : Nav) : Nav :=
  if n.idx = 0 then n
  else match hist[0]? with
    | some e =>
      { buf := e, pos := blen e, idx := 0,
        savedBuf := if n.idx = hist.length then n.buf else n.savedBuf,
        savedPos := if n.idx = hist.length then n.pos else n.savedPos }
    | none => n

def navLast (hist : List Text) (n : Nav) : Nav :=
  if hist.length ≤ n.idx then n
  else { n with buf := n.savedBuf, pos := n.savedPos, idx := hist.length }


/-! ### the default back end: the index of an entry is its position -/

/-- memory / file history as a store -/
def listStore (hist : List Text) : HStore := ⟨hist.length, fun i _ => (hist[i]?).map (fun e => (i, e))⟩

theorem C07_storeOf_none (cfg : EdCfg) (h : cfg.histRows = none) : storeOf cfg = listStore cfg.hist := by
  unfold storeOf listStore histLen
  rw [h]
  congr 1
  funext i d
  unfold histGetDir
  rw [h]

theorem C07_storeOK_list (hist : List Text) : StoreOK (listStore hist) := by
  intro i d j e h
  simp only [listStore] at h ⊢
  cases hg : hist[i]? with
  | none => rw [hg] at h; cases h
  | some x =>
    rw [hg] at h
    cases h
    exact (List.getElem?_eq_some_iff.mp hg).1

theorem C07_navPrevS_list (hist : List Text) (n : Nav) (hi : n.idx ≤ hist.length) :
    navPrevS (listStore hist) n = navPrev hist n := by
  unfold navPrevS navPrev navSave listStore
  by_cases hl : hist.length = 0
  · have : n.idx = 0 := by omega
    simp [hl, this]
  · by_cases h0 : n.idx = 0
    · simp [hl, h0]
    · have hlt : n.idx - 1 < hist.length := by omega
      have hg : hist[n.idx - 1]? = some hist[n.idx - 1] := by simp [hlt]
      simp only [hl, h0, hlt, if_true, if_false, hg, Option.map_some]
      by_cases he : n.idx = hist.length <;> simp [he]

theorem C07_navNextS_list (hist : List Text) (n : Nav) (hi : n.idx ≤ hist.length) :
    navNextS (listStore hist) n = navNext hist n := by
  unfold navNextS navNext listStore
  by_cases he : n.idx = hist.length
  · simp [he]
  · have hlt : ¬ hist.length ≤ n.idx := by omega
    have hl : hist.length ≠ 0 := by omega
    by_cases h1 : n.idx + 1 < hist.length
    · have hg : hist[n.idx + 1]? = some hist[n.idx + 1] := by simp [h1]
      simp [hl, he, hlt, h1, hg]
    · have hg : hist[n.idx + 1]? = none := by simp; omega
      have : n.idx + 1 = hist.length := by omega
      simp [hl, he, hlt, h1, hg, this]

theorem C07_navFirstS_list (hist : List Text) (n : Nav) (hi : n.idx ≤ hist.length) :
    navFirstS (listStore hist) n = navFirst hist n := by
  unfold navFirstS navFirst navSave listStore
  by_cases hl : hist.length = 0
  · have : n.idx = 0 := by omega
    simp [hl, this]
  · by_cases h0 : n.idx = 0
    · simp [hl, h0]
    · have hg : hist[0]? = some hist[0] := by simp
      have h0' : ¬ 0 = n.idx := fun h => h0 h.symm
      simp only [hl, h0, if_false, hg, Option.map_some, h0']
      by_cases he : n.idx = hist.length <;> simp [he]

theorem C07_navLastS_list (hist : List Text) (n : Nav) (hi : n.idx ≤ hist.length) :
    navLastS (listStore hist) n = navLast hist n := by
  unfold navLastS navLast listStore
  by_cases he : n.idx = hist.length
  · simp [he]
  · have hlt : ¬ hist.length ≤ n.idx := by omega
    have hl : hist.length ≠ 0 := by omega
    simp [hl, he, hlt]

/-- `backup` touches the saved line only (whatever it does to it) -/
theorem C07_wp_backup_any (S : Segmenter) (U : UData) {s : Ed} {Q : Unit → Ed → Prop} {E : Rl.Outcome → Ed → Prop}
    (hq : ∀ sv, Q () { s with saved := sv }) (he : E .panic s) : wp (backup S U) Q E s := by
  unfold wp backup
  cases h : LB.update S U s.line.buf s.line.pos s.saved with
  | error e => exact he
  | ok r => obtain ⟨_, sv, _⟩ := r; exact hq sv

theorem C07_model_prev : C07_model_prev_statement := by
  intro S U cfg s s' e hrows h0 h5 hge h1 hrun
  have hL : histLen cfg = cfg.hist.length := by unfold histLen; rw [hrows]
  have hG : histGetDir cfg (s.histIdx - 1) Dir.reverse = some (s.histIdx - 1, e) := by
    unfold histGetDir; rw [hrows]; simp only [hge, Option.map_some]
  have hw : wp (editHistoryNext S U cfg true)
      (fun _ s' => s'.line.buf = e ∧ s'.line.pos = blen e ∧ s'.histIdx = s.histIdx - 1) (fun _ _ => True) s := by
    unfold editHistoryNext
    simp only [wp_bind, wp_ite, wp_pure, wp_getHistIdx, wp_setHistIdx, if_true, hL]
    have hlen : cfg.hist.length ≠ 0 := by omega
    have hl0 : (cfg.hist.length == 0) = false := by simp [hlen]
    have hlt : s.histIdx - 1 < cfg.hist.length := by omega
    have h0' : (s.histIdx == 0 && true) = false := by simp; omega
    simp only [hl0, Bool.false_eq_true, if_false, hlt, if_true, h0', hG, wp_bind, wp_setHistIdx]
    have tail : ∀ s1 : Ed, s1.line = s.line →
        wp (showEntry S U e (blen e))
          (fun _ s' => wp (refreshLine S U cfg)
            (fun _ s' => s'.line.buf = e ∧ s'.line.pos = blen e ∧ s'.histIdx = s.histIdx - 1) (fun _ _ => True) s')
          (fun _ _ => True) { s1 with histIdx := s.histIdx - 1 } := by
      intro s1 hl
      refine wp_showEntry S U (by simp only []; rw [hl]; exact h1) (Nat.le_refl _) ?_
      refine wp_refreshLine S U cfg (fun s' hc => ?_) (fun _ _ _ => trivial)
      obtain ⟨c1, _, _, _, c5, _, _⟩ := Ed.core_eq hc
      rw [c1, c5]; exact ⟨rfl, rfl, rfl⟩
    split
    · exact C07_wp_backup_any S U (fun sv => tail { s with saved := sv } rfl) trivial
    · exact tail s rfl
  have := wp_ok hw hrun
  exact this

/-- `k` repetitions of a navigation step -/
def navIter (f : Nav → Nav) : Nat → Nav → Nav
  | 0, n => n
  | k + 1, n => navIter f k (f n)

theorem C07_navPrev_iterate (hist : List Text) : ∀ (k : Nat) (n : Nav), n.idx = k → k ≤ hist.length →
    navIter (navPrev hist) k n = navFirst hist n := by
  intro k
  induction k with
  | zero => intro n h _; simp [navFirst, h, navIter]
  | succ k ih =>
    intro n h hk
    have hlt : k < hist.length := by omega
    have hge : hist[k]? = some hist[k] := by simp [hlt]
    have hp : navPrev hist n = (⟨hist[k], blen hist[k], k,
        (if k + 1 = hist.length then n.buf else n.savedBuf),
        (if k + 1 = hist.length then n.pos else n.savedPos)⟩ : Nav) := by
      simp [navPrev, h, hge]
    rw [navIter, ih (navPrev hist n) (by rw [hp]) (by omega), hp]
    have h0 : hist[0]? = some hist[0] := by simp
    cases k with
    | zero => simp [navFirst, h, h0]
    | succ j =>
      have : j + 1 ≠ hist.length := by omega
      simp [navFirst, h, h0, this]

theorem C07_navNext_iterate (hist : List Text) : ∀ (k : Nat) (n : Nav), n.idx + k = hist.length →
    navIter (navNext hist) k n = navLast hist n := by
  intro k
  induction k with
  | zero => intro n h; simp [navLast, navIter]; omega
  | succ k ih =>
    intro n h
    have hlt : ¬ hist.length ≤ n.idx := by omega
    rw [navIter]
    cases k with
    | zero =>
      have hnone : hist[n.idx + 1]? = none := by simp; omega
      simp [navNext, navLast, hlt, hnone, navIter]
    | succ j =>
      have hl2 : n.idx + 1 < hist.length := by omega
      have hge : hist[n.idx + 1]? = some hist[n.idx + 1] := by simp [hl2]
      have hp : navNext hist n = { n with buf := hist[n.idx + 1], pos := blen hist[n.idx + 1], idx := n.idx + 1 } := by
        simp [navNext, hlt, hge]
      rw [ih (navNext hist n) (by rw [hp]; simp only []; omega), hp]
      have : ¬ hist.length ≤ n.idx + 1 := by omega
      simp [navLast, this, hlt]

/-! ### property theorems -/

theorem C07_returns_of_wp {m : EM Unit} {s : Ed} {Q : Unit → Ed → Prop}
    (h : wp m Q (fun _ _ => False) s) : ∃ s', m s = .ok ((), s') ∧ Q () s' := by
  obtain ⟨a, s', h1, h2⟩ := returns_iff_wp.mpr h
  exact ⟨s', h1, h2⟩

/-- **Recall over any back end** (default or SQLite; helpers that do not panic): from a navigable state
    `editHistoryNext` / `editHistory` never panic and do exactly the declarative step of the store
    machine (`navPrevS` … `navLastS` over `History::len` / `History::get`): Up shows the nearest stored
    entry at or before `idx - 1` verbatim with the cursor at its end and takes ITS index; Down the
    nearest at or after `idx + 1`, or — arriving at `len` — exactly the saved text and cursor. -/
theorem C07_prev_refines_store (S : Segmenter) (U : UData) (cfg : EdCfg) (hnp : cfg.hinterPanicAt = none)
    (hst : StoreOK (storeOf cfg)) (s : Ed) (h : NavOK cfg s) :
    ∃ s', editHistoryNext S U cfg true s = .ok ((), s') ∧
      navOf s' = navPrevS (storeOf cfg) (navOf s) ∧ NavOK cfg s' :=
  let ⟨s', h1, h2, h3, _⟩ := C07_returns_of_wp (C07_prev_specS S U cfg hnp hst s h)
  ⟨s', h1, h2, h3⟩

theorem C07_next_refines_store (S : Segmenter) (U : UData) (cfg : EdCfg) (hnp : cfg.hinterPanicAt = none)
    (hst : StoreOK (storeOf cfg)) (s : Ed) (h : NavOK cfg s) :
    ∃ s', editHistoryNext S U cfg false s = .ok ((), s') ∧
      navOf s' = navNextS (storeOf cfg) (navOf s) ∧ NavOK cfg s' :=
  let ⟨s', h1, h2, h3, _⟩ := C07_returns_of_wp (C07_next_specS S U cfg hnp hst s h)
  ⟨s', h1, h2, h3⟩

theorem C07_first_refines_store (S : Segmenter) (U : UData) (cfg : EdCfg) (hnp : cfg.hinterPanicAt = none)
    (hst : StoreOK (storeOf cfg)) (s : Ed) (h : NavOK cfg s) :
    ∃ s', editHistory S U cfg true s = .ok ((), s') ∧
      navOf s' = navFirstS (storeOf cfg) (navOf s) ∧ NavOK cfg s' :=
  let ⟨s', h1, h2, h3, _⟩ := C07_returns_of_wp (C07_first_specS S U cfg hnp hst s h)
  ⟨s', h1, h2, h3⟩

theorem C07_last_refines_store (S : Segmenter) (U : UData) (cfg : EdCfg) (hnp : cfg.hinterPanicAt = none)
    (s : Ed) (h : NavOK cfg s) :
    ∃ s', editHistory S U cfg false s = .ok ((), s') ∧
      navOf s' = navLastS (storeOf cfg) (navOf s) ∧ NavOK cfg s' :=
  let ⟨s', h1, h2, h3, _⟩ := C07_returns_of_wp (C07_last_specS S U cfg hnp s h)
  ⟨s', h1, h2, h3⟩

/-- the index bound of `NavOK` read over the default back end -/
theorem C07_navOK_idx_none {cfg : EdCfg} {s : Ed} (hrows : cfg.histRows = none) (h : NavOK cfg s) :
    (navOf s).idx ≤ cfg.hist.length := by
  have := h.idx
  unfold histLen at this
  rw [hrows] at this
  exact this

/-- **Up / C-p / k**, default back end (`histRows = none`; helpers that do not panic, here and in the
    three theorems below): the model never panics and does exactly the declarative
    step: shows `hist[i-1]` verbatim with the cursor at its end, saves (text, cursor) iff it leaves the
    in-progress line (`idx = len`), stops at the oldest entry. -/
theorem C07_prev_refines (S : Segmenter) (U : UData) (cfg : EdCfg) (hnp : cfg.hinterPanicAt = none)
    (hrows : cfg.histRows = none) (s : Ed) (h : NavOK cfg s) :
    ∃ s', editHistoryNext S U cfg true s = .ok ((), s') ∧ navOf s' = navPrev cfg.hist (navOf s) ∧ NavOK cfg s' := by
  have hst : StoreOK (storeOf cfg) := by rw [C07_storeOf_none cfg hrows]; exact C07_storeOK_list _
  obtain ⟨s', h1, h2, h3⟩ := C07_prev_refines_store S U cfg hnp hst s h
  refine ⟨s', h1, ?_, h3⟩
  rw [h2, C07_storeOf_none cfg hrows, C07_navPrevS_list _ _ (C07_navOK_idx_none hrows h)]

/-- **Down / C-n / j**, default back end: shows `hist[i+1]`, or — arriving at `len` — restores exactly
    the saved text and cursor; stops at the in-progress line. -/
theorem C07_next_refines (S : Segmenter) (U : UData) (cfg : EdCfg) (hnp : cfg.hinterPanicAt = none)
    (hrows : cfg.histRows = none) (s : Ed) (h : NavOK cfg s) :
    ∃ s', editHistoryNext S U cfg false s = .ok ((), s') ∧ navOf s' = navNext cfg.hist (navOf s) ∧ NavOK cfg s' := by
  have hst : StoreOK (storeOf cfg) := by rw [C07_storeOf_none cfg hrows]; exact C07_storeOK_list _
  obtain ⟨s', h1, h2, h3⟩ := C07_next_refines_store S U cfg hnp hst s h
  refine ⟨s', h1, ?_, h3⟩
  rw [h2, C07_storeOf_none cfg hrows, C07_navNextS_list _ _ (C07_navOK_idx_none hrows h)]

/-- **M-<** behaves like `idx` Ups (on line, cursor, index and saved line), default back end. -/
theorem C07_first_is_iterated_prev (S : Segmenter) (U : UData) (cfg : EdCfg) (hnp : cfg.hinterPanicAt = none)
    (hrows : cfg.histRows = none) (s : Ed) (h : NavOK cfg s) :
    ∃ s', editHistory S U cfg true s = .ok ((), s') ∧
      navOf s' = navIter (navPrev cfg.hist) s.histIdx (navOf s) ∧ NavOK cfg s' := by
  have hst : StoreOK (storeOf cfg) := by rw [C07_storeOf_none cfg hrows]; exact C07_storeOK_list _
  obtain ⟨s', h1, h2, h3⟩ := C07_first_refines_store S U cfg hnp hst s h
  refine ⟨s', h1, ?_, h3⟩
  have hi := C07_navOK_idx_none hrows h
  rw [h2, C07_storeOf_none cfg hrows, C07_navFirstS_list _ _ hi,
    C07_navPrev_iterate cfg.hist s.histIdx (navOf s) rfl hi]

/-- **M->** behaves like `len - idx` Downs, default back end. -/
theorem C07_last_is_iterated_next (S : Segmenter) (U : UData) (cfg : EdCfg) (hnp : cfg.hinterPanicAt = none)
    (hrows : cfg.histRows = none) (s : Ed) (h : NavOK cfg s) :
    ∃ s', editHistory S U cfg false s = .ok ((), s') ∧
      navOf s' = navIter (navNext cfg.hist) (cfg.hist.length - s.histIdx) (navOf s) ∧ NavOK cfg s' := by
  obtain ⟨s', h1, h2, h3⟩ := C07_last_refines_store S U cfg hnp s h
  refine ⟨s', h1, ?_, h3⟩
  have hi := C07_navOK_idx_none hrows h
  rw [h2, C07_storeOf_none cfg hrows, C07_navLastS_list _ _ hi,
    C07_navNext_iterate cfg.hist _ (navOf s) (by simp only [navOf] at hi ⊢; omega)]

/-- the saved line is written only when leaving the in-progress position, with the text and cursor
    of that moment; moving down never writes it -/
theorem C07_saved_once (hist : List Text) (n : Nav) :
    ((navPrev hist n).savedBuf, (navPrev hist n).savedPos) =
      (if n.idx = hist.length ∧ n.idx ≠ 0 then (n.buf, n.pos) else (n.savedBuf, n.savedPos)) ∧
    (navNext hist n).savedBuf = n.savedBuf ∧ (navNext hist n).savedPos = n.savedPos := by
  refine ⟨?_, ?_, ?_⟩
  · unfold navPrev
    by_cases h0 : n.idx = 0
    · simp [h0]
    · simp only [h0, if_false]
      cases hg : hist[n.idx - 1]? with
      | none =>
        have : ¬ n.idx = hist.length := by
          intro h; rw [List.getElem?_eq_none_iff] at hg; omega
        simp [this]
      | some e =>
        by_cases hl : n.idx = hist.length
        · have hne : hist.length ≠ 0 := by omega
          simp [hl, hne]
        · simp [hl]
  · unfold navNext; split; rfl; split <;> rfl
  · unfold navNext; split; rfl; split <;> rfl

/-- navigation and editing steps of the declarative machine; `edit` (any change of text and cursor)
    is applied to a recalled entry only -/
inductive NavOp | prev | next | first | last | edit (b : Text) (p : Nat)

def navApply (hist : List Text) (n : Nav) : NavOp → Nav
  | .prev => navPrev hist n
  | .next => navNext hist n
  | .first => navFirst hist n
  | .last => navLast hist n
  | .edit b p => if n.idx < hist.length then { n with buf := b, pos := p } else n

/-- **Coming back restores the in-progress line, character for character with its cursor**: after any
    sequence of Up / Down / first / last steps mixed with arbitrary edits of recalled entries, started
    on the in-progress line `(b, p)`: whenever the index is back at `len` the line and cursor are
    `(b, p)` again, and while an entry is shown the saved line is `(b, p)`. -/
theorem C07_return_restores (hist : List Text) (n0 : Nav) (ops : List NavOp) (h0 : n0.idx = hist.length) :
    let n := ops.foldl (navApply hist) n0
    n.idx ≤ hist.length ∧ (n.idx = hist.length → n.buf = n0.buf ∧ n.pos = n0.pos) ∧
    (n.idx < hist.length → n.savedBuf = n0.buf ∧ n.savedPos = n0.pos) := by
  suffices H : ∀ (ops : List NavOp) (n : Nav),
      (n.idx ≤ hist.length ∧ (n.idx = hist.length → n.buf = n0.buf ∧ n.pos = n0.pos) ∧
        (n.idx < hist.length → n.savedBuf = n0.buf ∧ n.savedPos = n0.pos)) →
      let n' := ops.foldl (navApply hist) n
      (n'.idx ≤ hist.length ∧ (n'.idx = hist.length → n'.buf = n0.buf ∧ n'.pos = n0.pos) ∧
        (n'.idx < hist.length → n'.savedBuf = n0.buf ∧ n'.savedPos = n0.pos)) by
    exact H ops n0 ⟨by omega, fun _ => ⟨rfl, rfl⟩, fun h => by omega⟩
  intro ops
  induction ops with
  | nil => intro n h; exact h
  | cons op rest ih =>
    intro n ⟨h1, h2, h3⟩
    apply ih
    cases op with
    | prev =>
      simp only [navApply, navPrev]
      by_cases hz : n.idx = 0
      · simp only [hz, if_true]; exact ⟨by omega, fun h => h2 (by omega), fun h => h3 (by omega)⟩
      · simp only [hz, if_false]
        have hlt : n.idx - 1 < hist.length := by omega
        have hge : hist[n.idx - 1]? = some hist[n.idx - 1] := by simp [hlt]
        rw [hge]
        refine ⟨by simp only []; omega, fun h => by simp only [] at h; omega, fun _ => ?_⟩
        by_cases hl : n.idx = hist.length
        · simp only [hl, if_true]; exact h2 hl
        · simp only [hl, if_false]; exact h3 (by omega)
    | next =>
      simp only [navApply, navNext]
      by_cases hz : hist.length ≤ n.idx
      · simp only [hz, if_true]; exact ⟨h1, h2, h3⟩
      · simp only [hz, if_false]
        cases hg : hist[n.idx + 1]? with
        | some e =>
          have : n.idx + 1 < hist.length := by
            have := List.getElem?_eq_some_iff.mp hg; exact this.1
          exact ⟨by simp only []; omega, fun h => by simp only [] at h; omega, fun _ => h3 (by omega)⟩
        | none => exact ⟨Nat.le_refl _, fun _ => h3 (by omega), fun h => by simp only [] at h; omega⟩
    | first =>
      simp only [navApply, navFirst]
      by_cases hz : n.idx = 0
      · simp only [hz, if_true]; exact ⟨by omega, fun h => h2 (by omega), fun h => h3 (by omega)⟩
      · simp only [hz, if_false]
        have hge : hist[0]? = some hist[0] := by simp
        rw [hge]
        refine ⟨by simp only []; omega, fun h => by simp only [] at h; omega, fun _ => ?_⟩
        by_cases hl : n.idx = hist.length
        · simp only [hl, if_true]; exact h2 hl
        · simp only [hl, if_false]; exact h3 (by omega)
    | last =>
      simp only [navApply, navLast]
      by_cases hz : hist.length ≤ n.idx
      · simp only [hz, if_true]; exact ⟨h1, h2, h3⟩
      · simp only [hz, if_false]
        exact ⟨Nat.le_refl _, fun _ => h3 (by omega), fun h => absurd h (Nat.lt_irrefl _)⟩
    | edit b p =>
      simp only [navApply]
      by_cases hz : n.idx < hist.length
      · rw [if_pos hz]; exact ⟨h1, fun h => absurd h (Nat.ne_of_lt hz), h3⟩
      · rw [if_neg hz]; exact ⟨h1, h2, h3⟩

/-- non-vacuity: three entries, Up Up Down Down from the in-progress line "xy" (cursor 1) -/
example :
    let hist : List Text := [['a'], ['b'], ['c']]
    let n0 : Nav := ⟨['x', 'y'], 1, 3, [], 0⟩
    let n := [NavOp.prev, .prev, .next, .next].foldl (navApply hist) n0
    (navPrev hist (navPrev hist n0)).buf = ['b'] ∧ n.buf = ['x', 'y'] ∧ n.pos = 1 ∧ n.idx = 3 := by decide

/-! ### the SQLite back end: indices are row ids minus one, with holes -/

/-- the row store the driver computes from the `add` / `set_max_len` sequence (C20 model): one index
    per entry, strictly increasing, all below `len`, and `len` is the last index plus one -/
structure RowsWF (r : RowStore) (hist : List Text) : Prop where
  len_eq : r.idx.length = hist.length
  sorted : r.idx.Pairwise (· < ·)
  bound : ∀ i ∈ r.idx, i < r.len
  tight : ∀ k, r.idx.getLast? = some k → r.len = k + 1

/-- every answer of `SQLiteHistory::get` is the index of a stored row, hence below `len()` -/
theorem C07_storeOK_rows (cfg : EdCfg) (r : RowStore) (hr : cfg.histRows = some r)
    (hb : ∀ i ∈ r.idx, i < r.len) : StoreOK (storeOf cfg) := by
  intro i d j e h
  simp only [storeOf, histLen, histGetDir, hr] at h ⊢
  split at h
  · cases h
  · have hmem : (j, e) ∈ r.idx.zip cfg.hist := by
      cases d with
      | forward => exact List.mem_of_find?_eq_some h
      | reverse =>
        have := List.mem_of_getLast? h
        exact (List.mem_filter.mp this).1
    exact hb j (List.of_mem_zip hmem).1

/-- position of an index among the stored rows: the number of rows below it (`len` ↦ the number of
    entries, the index of the k-th row ↦ k) -/
def posOf (r : RowStore) (i : Nat) : Nat := (r.idx.filter (· < i)).length

/-- the user's view of a navigation state: positions instead of row indices -/
def absNav (r : RowStore) (n : Nav) : Nav := { n with idx := posOf r n.idx }

/-- the indices the recall commands can be at: `len` (the line being typed) or a stored row -/
def ValidIdx (r : RowStore) (i : Nat) : Prop := i = r.len ∨ i ∈ r.idx

/-- **Holes are invisible** (proved below as `C07_rows_simulation`; the refinement of the editor to
    the store machine is proved above, so the two compose: `C07_prev_refines_rows` …): seen through
    `absNav`, each step of the store machine over a well-formed non-empty row store is the step of
    the default machine over the entries in row order, and it stays on a valid index. -/
def C07_rows_simulation_statement : Prop :=
  ∀ (cfg : EdCfg) (r : RowStore) (n : Nav),
    cfg.histRows = some r → RowsWF r cfg.hist → r.idx ≠ [] → ValidIdx r n.idx →
    (absNav r (navPrevS (storeOf cfg) n) = navPrev cfg.hist (absNav r n) ∧
      ValidIdx r (navPrevS (storeOf cfg) n).idx) ∧
    (absNav r (navNextS (storeOf cfg) n) = navNext cfg.hist (absNav r n) ∧
      ValidIdx r (navNextS (storeOf cfg) n).idx) ∧
    (absNav r (navFirstS (storeOf cfg) n) = navFirst cfg.hist (absNav r n) ∧
      ValidIdx r (navFirstS (storeOf cfg) n).idx) ∧
    (absNav r (navLastS (storeOf cfg) n) = navLast cfg.hist (absNav r n) ∧
      ValidIdx r (navLastS (storeOf cfg) n).idx)

/-- the store of the seeded-defect example: add one, two, three, two → row ids 1, 3, 4 -/
def C07_exCfg : EdCfg :=
  { vi := false, hist := [['1'], ['3'], ['2']], histRows := some { idx := [0, 2, 3], len := 4 } }

/-- Up Up Up from the line being typed crosses the hole: it shows "2", "3", "1" (row indices 3, 2, 0),
    a fourth Up stays; seen through positions it is the walk 3 → 2 → 1 → 0 of the default machine. -/
example :
    let H := storeOf C07_exCfg
    let n0 : Nav := ⟨['x'], 1, 4, [], 0⟩
    let n1 := navPrevS H n0
    let n2 := navPrevS H n1
    let n3 := navPrevS H n2
    (n1.buf, n1.idx) = (['2'], 3) ∧ (n2.buf, n2.idx) = (['3'], 2) ∧ (n3.buf, n3.idx) = (['1'], 0) ∧
    navPrevS H n3 = n3 ∧
    absNav ⟨[0, 2, 3], 4⟩ n3 = navPrev C07_exCfg.hist (absNav ⟨[0, 2, 3], 4⟩ n2) ∧
    (navNextS H n3).idx = 2 ∧ navNextS H (navNextS H (navNextS H n3)) = { n0 with savedBuf := ['x'], savedPos := 1 } := by
  decide

/-- the seeded defect (`get(idx, Forward)` for Up) as a store: asking forward at index 1 answers
    row 2, the entry already shown — Up from "3" would stay on "3" -/
example : histGetDir C07_exCfg 1 .forward = some (2, ['3']) ∧ histGetDir C07_exCfg 1 .reverse = some (0, ['1']) := by
  decide


/-! ### holes are invisible: the proof -/

/-- the in-progress position has all rows below it -/
theorem C07_posOf_len {r : RowStore} {hist : List Text} (wf : RowsWF r hist) : posOf r r.len = hist.length := by
  rw [← wf.len_eq]; exact Rows.count_lt_of_bound wf.bound

/-- a valid index is `len` (position = number of entries) or the index of the row at its position -/
theorem C07_valid_cases {r : RowStore} {hist : List Text} (wf : RowsWF r hist) {i : Nat} (hv : ValidIdx r i) :
    (i = r.len ∧ posOf r i = hist.length) ∨
    (i < r.len ∧ posOf r i < hist.length ∧ r.idx[posOf r i]? = some i) := by
  rcases hv with he | hm
  · left; exact ⟨he, by rw [he]; exact C07_posOf_len wf⟩
  · right
    obtain ⟨k, hk0, hk⟩ := List.getElem_of_mem hm
    subst hk
    have hp : posOf r r.idx[k] = k := Rows.count_lt_getElem wf.sorted k hk0
    refine ⟨wf.bound _ hm, by rw [hp, ← wf.len_eq]; exact hk0, ?_⟩
    rw [hp]; exact List.getElem?_eq_getElem hk0

/-- positions identify valid indices -/
theorem C07_posOf_inj {r : RowStore} {hist : List Text} (wf : RowsWF r hist) {i j : Nat}
    (hi : ValidIdx r i) (hj : ValidIdx r j) (h : posOf r i = posOf r j) : i = j := by
  rcases C07_valid_cases wf hi with ⟨a1, a2⟩ | ⟨a1, a2, a3⟩ <;>
    rcases C07_valid_cases wf hj with ⟨b1, b2⟩ | ⟨b1, b2, b3⟩
  · rw [a1, b1]
  · omega
  · omega
  · rw [h, b3] at a3; exact (Option.some.inj a3).symm

/-- the user's view identifies navigation states on valid indices -/
theorem C07_absNav_inj {r : RowStore} {hist : List Text} (wf : RowsWF r hist) {a b : Nav}
    (ha : ValidIdx r a.idx) (hb : ValidIdx r b.idx) (h : absNav r a = absNav r b) : a = b := by
  obtain ⟨a1, a2, a3, a4, a5⟩ := a
  obtain ⟨b1, b2, b3, b4, b5⟩ := b
  simp only [absNav, Nav.mk.injEq] at h
  obtain ⟨h1, h2, h3, h4, h5⟩ := h
  have := C07_posOf_inj wf ha hb h3
  simp only at this
  subst h1 h2 h4 h5 this
  rfl

theorem C07_rows_simulation : C07_rows_simulation_statement := by
  intro cfg r n hr wf hne hv
  obtain ⟨hlenEq, hsorted, hbound, htight⟩ := wf
  have hm0 : 0 < cfg.hist.length := by
    have := List.length_pos_iff.mpr hne
    omega
  have hL : (storeOf cfg).len = r.len := Rows.histLen_rows cfg r hr
  have hlast : r.len = r.idx[cfg.hist.length - 1]'(by omega) + 1 := by
    apply htight
    rw [List.getLast?_eq_getElem?, List.getElem?_eq_getElem (by omega)]
    simp only [hlenEq]
  have hl0 : r.len ≠ 0 := by omega
  have hF : ∀ i, (storeOf cfg).get i .forward = (r.idx.zip cfg.hist)[posOf r i]? :=
    fun i => Rows.histGetDir_forward_rows cfg r hr hsorted hl0 i
  have hR : ∀ i, (storeOf cfg).get i .reverse =
      if posOf r (i + 1) = 0 then none else (r.idx.zip cfg.hist)[posOf r (i + 1) - 1]? :=
    fun i => Rows.histGetDir_reverse_rows cfg r hr hsorted hlenEq hl0 i
  have hZ : ∀ k (hk : k < cfg.hist.length),
      (r.idx.zip cfg.hist)[k]? = some (r.idx[k]'(by omega), cfg.hist[k]) :=
    fun k hk => Rows.zip_getElem? r.idx cfg.hist k (by omega) hk
  have hP : ∀ k (hk : k < cfg.hist.length), posOf r (r.idx[k]'(by omega)) = k :=
    fun k hk => Rows.count_lt_getElem hsorted k (by omega)
  have hP1 : ∀ k (hk : k < cfg.hist.length), posOf r (r.idx[k]'(by omega) + 1) = k + 1 :=
    fun k hk => Rows.count_lt_getElem_succ hsorted k (by omega)
  have hPlen : posOf r r.len = cfg.hist.length := by
    rw [← hlenEq]; exact Rows.count_lt_of_bound hbound
  have hP0 : posOf r 0 = 0 := Rows.count_lt_zero r.idx
  rcases hv with he | hmemn
  · -- on the line being typed
    have hmm : cfg.hist.length - 1 < cfg.hist.length := by omega
    have hs1 : r.len - 1 + 1 = r.len := by omega
    have hpm0 : ¬ cfg.hist.length = 0 := by omega
    have hlt1 : r.len - 1 < r.len := by omega
    have hne0 : ¬ n.idx = 0 := by omega
    refine ⟨?_, ?_, ?_, ?_⟩
    · have e1 : navPrevS (storeOf cfg) n =
          { buf := cfg.hist[cfg.hist.length - 1], pos := blen cfg.hist[cfg.hist.length - 1],
            idx := r.idx[cfg.hist.length - 1]'(by omega), savedBuf := n.buf, savedPos := n.pos } := by
        simp [navPrevS, navSave, hL, hl0, he, hR, hs1, hPlen, hpm0, hlt1, hZ _ hmm]
      rw [e1]
      refine ⟨?_, Or.inr (List.getElem_mem _)⟩
      have hge : cfg.hist[cfg.hist.length - 1]? = some cfg.hist[cfg.hist.length - 1] := List.getElem?_eq_getElem hmm
      simp [absNav, navPrev, he, hPlen, hpm0, hP _ hmm, hge]
    · refine ⟨?_, Or.inl ?_⟩ <;> simp [navNextS, navNext, absNav, hL, he, hPlen]
    · have h00 : 0 < cfg.hist.length := hm0
      have hne1 : ¬ r.idx[0]'(by omega) = r.len := by
        have := hbound (r.idx[0]'(by omega)) (List.getElem_mem _); omega
      have e1 : navFirstS (storeOf cfg) n =
          { buf := cfg.hist[0], pos := blen cfg.hist[0],
            idx := r.idx[0]'(by omega), savedBuf := n.buf, savedPos := n.pos } := by
        simp [navFirstS, navSave, hL, hl0, he, hF, hP0, hZ _ h00, hne1]
      rw [e1]
      refine ⟨?_, Or.inr (List.getElem_mem _)⟩
      have hge : cfg.hist[0]? = some cfg.hist[0] := List.getElem?_eq_getElem h00
      simp [absNav, navFirst, he, hPlen, hpm0, hP _ h00, hge]
    · refine ⟨?_, Or.inl ?_⟩ <;> simp [navLastS, navLast, absNav, hL, he, hPlen]
  · -- on a stored row: the `k`-th
    obtain ⟨k, hk0, hk⟩ := List.getElem_of_mem hmemn
    have hkm : k < cfg.hist.length := by omega
    have hpk : posOf r n.idx = k := by rw [← hk]; exact hP k hkm
    have hlt : n.idx < r.len := hbound _ hmemn
    have hne : ¬ n.idx = r.len := by omega
    have hnk : ¬ k = cfg.hist.length := by omega
    refine ⟨?_, ?_, ?_, ?_⟩
    · by_cases h0 : n.idx = 0
      · refine ⟨?_, Or.inr ?_⟩
        · simp [navPrevS, navPrev, absNav, hL, hl0, h0, hP0]
        · simp only [navPrevS, hL, hl0, h0, if_true, if_false]; rw [← h0]; exact hmemn
      · have hs1 : n.idx - 1 + 1 = n.idx := by omega
        have hlt1 : n.idx - 1 < r.len := by omega
        by_cases hk0' : k = 0
        · have e1 : navPrevS (storeOf cfg) n = n := by
            simp [navPrevS, navSave, hL, hl0, h0, hlt1, hR, hs1, hpk, hk0', hne]
          rw [e1]
          refine ⟨?_, Or.inr hmemn⟩
          simp [absNav, navPrev, hpk, hk0']
        · have hk1 : k - 1 < cfg.hist.length := by omega
          have e1 : navPrevS (storeOf cfg) n =
              { n with buf := cfg.hist[k - 1], pos := blen cfg.hist[k - 1], idx := r.idx[k - 1]'(by omega) } := by
            simp [navPrevS, navSave, hL, hl0, h0, hlt1, hR, hs1, hpk, hk0', hne, hZ _ hk1]
          rw [e1]
          refine ⟨?_, Or.inr (List.getElem_mem _)⟩
          have hge : cfg.hist[k - 1]? = some cfg.hist[k - 1] := List.getElem?_eq_getElem hk1
          simp [absNav, navPrev, hpk, hk0', hP _ hk1, hge, hnk]
    · have hpk1 : posOf r (n.idx + 1) = k + 1 := by rw [← hk]; exact hP1 k hkm
      by_cases h1 : n.idx + 1 < r.len
      · have hk1 : k + 1 < cfg.hist.length := by
          have := Rows.sorted_le hsorted (i := cfg.hist.length - 1) (j := k) (by omega) hk0
          omega
        have e1 : navNextS (storeOf cfg) n =
            { n with buf := cfg.hist[k + 1], pos := blen cfg.hist[k + 1], idx := r.idx[k + 1]'(by omega) } := by
          simp [navNextS, hL, hl0, hne, h1, hF, hpk1, hZ _ hk1]
        rw [e1]
        refine ⟨?_, Or.inr (List.getElem_mem _)⟩
        have hge : cfg.hist[k + 1]? = some cfg.hist[k + 1] := List.getElem?_eq_getElem hk1
        have hnle : ¬ cfg.hist.length ≤ k := by omega
        simp [absNav, navNext, hpk, hP _ hk1, hge, hnle]
      · have hk1 : k + 1 = cfg.hist.length := by
          by_cases hh : k < cfg.hist.length - 1
          · have := Rows.sorted_lt hsorted (i := k) (j := cfg.hist.length - 1) hk0 (by omega) hh
            omega
          · omega
        have e1 : navNextS (storeOf cfg) n =
            { n with buf := n.savedBuf, pos := n.savedPos, idx := n.idx + 1 } := by
          simp [navNextS, hL, hl0, hne, h1]
        rw [e1]
        refine ⟨?_, Or.inl (by simp only []; omega)⟩
        have hnle : ¬ cfg.hist.length ≤ k := by omega
        simp [absNav, navNext, hpk, hpk1, hnle, hk1]
    · by_cases h0 : n.idx = 0
      · refine ⟨?_, Or.inr ?_⟩
        · simp [navFirstS, navFirst, absNav, hL, hl0, h0, hP0]
        · simp only [navFirstS, hL, hl0, h0, if_true, if_false]; rw [← h0]; exact hmemn
      · have h00 : 0 < cfg.hist.length := hm0
        by_cases hj : r.idx[0]'(by omega) = n.idx
        · have hk0' : k = 0 := Rows.sorted_inj hsorted hk0 (by omega) (by rw [hk, hj])
          have e1 : navFirstS (storeOf cfg) n = n := by
            simp [navFirstS, navSave, hL, hl0, h0, hF, hP0, hZ _ h00, hj, hne]
          rw [e1]
          refine ⟨?_, Or.inr hmemn⟩
          simp [absNav, navFirst, hpk, hk0']
        · have hk0' : ¬ k = 0 := by
            intro hkz; subst hkz; exact hj hk
          have e1 : navFirstS (storeOf cfg) n =
              { n with buf := cfg.hist[0], pos := blen cfg.hist[0], idx := r.idx[0]'(by omega) } := by
            simp [navFirstS, navSave, hL, hl0, h0, hF, hP0, hZ _ h00, hj, hne]
          rw [e1]
          refine ⟨?_, Or.inr (List.getElem_mem _)⟩
          have hge : cfg.hist[0]? = some cfg.hist[0] := List.getElem?_eq_getElem h00
          simp [absNav, navFirst, hpk, hk0', hP _ h00, hge, hnk]
    · refine ⟨?_, Or.inl ?_⟩ <;> simp [navLastS, navLast, absNav, hL, hl0, hne, hPlen, hpk]
      omega

/-! ### corollaries over a store with holes, transported through the simulation -/

/-- the SQLite back end as the theorems below see it: the row store of `cfg`, well formed, non-empty -/
structure RowsView (cfg : EdCfg) (r : RowStore) : Prop where
  rows : cfg.histRows = some r
  wf : RowsWF r cfg.hist
  nonempty : r.idx ≠ []

theorem C07_rows_prev_sim {cfg : EdCfg} {r : RowStore} (v : RowsView cfg r) (n : Nav) (hv : ValidIdx r n.idx) :
    absNav r (navPrevS (storeOf cfg) n) = navPrev cfg.hist (absNav r n) ∧
      ValidIdx r (navPrevS (storeOf cfg) n).idx :=
  (C07_rows_simulation cfg r n v.rows v.wf v.nonempty hv).1

theorem C07_rows_next_sim {cfg : EdCfg} {r : RowStore} (v : RowsView cfg r) (n : Nav) (hv : ValidIdx r n.idx) :
    absNav r (navNextS (storeOf cfg) n) = navNext cfg.hist (absNav r n) ∧
      ValidIdx r (navNextS (storeOf cfg) n).idx :=
  (C07_rows_simulation cfg r n v.rows v.wf v.nonempty hv).2.1

theorem C07_rows_first_sim {cfg : EdCfg} {r : RowStore} (v : RowsView cfg r) (n : Nav) (hv : ValidIdx r n.idx) :
    absNav r (navFirstS (storeOf cfg) n) = navFirst cfg.hist (absNav r n) ∧
      ValidIdx r (navFirstS (storeOf cfg) n).idx :=
  (C07_rows_simulation cfg r n v.rows v.wf v.nonempty hv).2.2.1

theorem C07_rows_last_sim {cfg : EdCfg} {r : RowStore} (v : RowsView cfg r) (n : Nav) (hv : ValidIdx r n.idx) :
    absNav r (navLastS (storeOf cfg) n) = navLast cfg.hist (absNav r n) ∧
      ValidIdx r (navLastS (storeOf cfg) n).idx :=
  (C07_rows_simulation cfg r n v.rows v.wf v.nonempty hv).2.2.2

/-- a simulation of single steps is a simulation of `k` steps -/
theorem C07_navIter_sim (abs : Nav → Nav) (V : Nav → Prop) (f g : Nav → Nav)
    (h : ∀ n, V n → abs (f n) = g (abs n) ∧ V (f n)) :
    ∀ (k : Nat) (n : Nav), V n → abs (navIter f k n) = navIter g k (abs n) ∧ V (navIter f k n) := by
  intro k
  induction k with
  | zero => intro n hn; exact ⟨rfl, hn⟩
  | succ k ih =>
    intro n hn
    obtain ⟨h1, h2⟩ := h n hn
    obtain ⟨h3, h4⟩ := ih (f n) h2
    exact ⟨by rw [navIter, h3, h1, navIter], by rw [navIter]; exact h4⟩

/-- the store machine with edits of a recalled entry (the counterpart of `navApply`) -/
def navApplyS (H : HStore) (n : Nav) : NavOp → Nav
  | .prev => navPrevS H n
  | .next => navNextS H n
  | .first => navFirstS H n
  | .last => navLastS H n
  | .edit b p => if n.idx < H.len then { n with buf := b, pos := p } else n

/-- one step of any kind, seen through positions -/
theorem C07_rows_apply_sim {cfg : EdCfg} {r : RowStore} (v : RowsView cfg r) (n : Nav)
    (hv : ValidIdx r n.idx) (op : NavOp) :
    absNav r (navApplyS (storeOf cfg) n op) = navApply cfg.hist (absNav r n) op ∧
      ValidIdx r (navApplyS (storeOf cfg) n op).idx := by
  cases op with
  | prev => exact C07_rows_prev_sim v n hv
  | next => exact C07_rows_next_sim v n hv
  | first => exact C07_rows_first_sim v n hv
  | last => exact C07_rows_last_sim v n hv
  | edit b p =>
    have hL : (storeOf cfg).len = r.len := Rows.histLen_rows cfg r v.rows
    simp only [navApplyS, navApply, hL]
    rcases C07_valid_cases v.wf hv with ⟨a1, a2⟩ | ⟨a1, a2, _⟩
    · have h1 : ¬ n.idx < r.len := by omega
      have h2 : ¬ (absNav r n).idx < cfg.hist.length := by simp only [absNav]; omega
      rw [if_neg h1, if_neg h2]; exact ⟨rfl, hv⟩
    · have h2 : (absNav r n).idx < cfg.hist.length := by simp only [absNav]; exact a2
      rw [if_pos a1, if_pos h2]; exact ⟨rfl, hv⟩

/-- any sequence of steps, seen through positions, is the same sequence on the hole-free machine -/
theorem C07_rows_fold_sim {cfg : EdCfg} {r : RowStore} (v : RowsView cfg r) (ops : List NavOp) :
    ∀ (n : Nav), ValidIdx r n.idx →
      absNav r (ops.foldl (navApplyS (storeOf cfg)) n) = ops.foldl (navApply cfg.hist) (absNav r n) ∧
      ValidIdx r (ops.foldl (navApplyS (storeOf cfg)) n).idx := by
  induction ops with
  | nil => intro n hn; exact ⟨rfl, hn⟩
  | cons op rest ih =>
    intro n hn
    obtain ⟨h1, h2⟩ := C07_rows_apply_sim v n hn op
    obtain ⟨h3, h4⟩ := ih _ h2
    simp only [List.foldl_cons]
    exact ⟨by rw [h3, h1], h4⟩

/-- hole-free machine: `k` Ups from the line being typed show the `k`-th newest entry, cursor at its
    end, with the line being typed (text and cursor) saved -/
theorem C07_prev_iterate (hist : List Text) (n : Nav) (h0 : n.idx = hist.length) :
    ∀ (k : Nat) (e : Text), 0 < k → k ≤ hist.length → hist[hist.length - k]? = some e →
      navIter (navPrev hist) k n = ⟨e, blen e, hist.length - k, n.buf, n.pos⟩ := by
  have hsucc : ∀ (f : Nav → Nav) (k : Nat) (m : Nav), navIter f (k + 1) m = f (navIter f k m) := by
    intro f k
    induction k with
    | zero => intro m; rfl
    | succ k ih => intro m; rw [navIter, ih (f m)]; rfl
  intro k
  induction k with
  | zero => intro e hk; omega
  | succ k ih =>
    intro e _ hkl he
    rw [hsucc]
    by_cases hk0 : k = 0
    · subst hk0
      have hne : ¬ hist.length = 0 := by omega
      simp only [Nat.zero_add] at he
      simp [navIter, navPrev, h0, hne, he]
    · have hlt : hist.length - k < hist.length := by omega
      rw [ih hist[hist.length - k] (by omega) (by omega) (List.getElem?_eq_getElem hlt)]
      have h1 : ¬ hist.length - k = 0 := by omega
      have h2 : hist.length - k - 1 = hist.length - (k + 1) := by omega
      have h3 : ¬ hist.length - k = hist.length := by omega
      simp [navPrev, h1, h2, he, h3]

/-- **k Ups over a store with holes** (row ids after a duplicate was replaced or old rows trimmed):
    from the line being typed, `k` Ups of the store machine (which the editor model refines,
    `C07_prev_refines_store`) show the `k`-th newest EXISTING entry verbatim, cursor at its end, the
    index being that row's, with the line being typed (text and cursor) saved. -/
theorem C07_prev_iterate_rows {cfg : EdCfg} {r : RowStore} (v : RowsView cfg r) (n : Nav) (h0 : n.idx = r.len)
    (k : Nat) (e : Text) (hk : 0 < k) (hkl : k ≤ cfg.hist.length) (he : cfg.hist[cfg.hist.length - k]? = some e) :
    ∃ j, r.idx[cfg.hist.length - k]? = some j ∧
      navIter (navPrevS (storeOf cfg)) k n = ⟨e, blen e, j, n.buf, n.pos⟩ := by
  have hv : ValidIdx r n.idx := Or.inl h0
  obtain ⟨h1, h2⟩ := C07_navIter_sim (absNav r) (fun m => ValidIdx r m.idx) _ _
    (fun m hm => C07_rows_prev_sim v m hm) k n hv
  have ha : (absNav r n).idx = cfg.hist.length := by
    simp only [absNav]; rw [h0]; exact C07_posOf_len v.wf
  rw [C07_prev_iterate cfg.hist (absNav r n) ha k e hk hkl he] at h1
  generalize navIter (navPrevS (storeOf cfg)) k n = m at h1 h2
  obtain ⟨m1, m2, m3, m4, m5⟩ := m
  simp only [absNav, Nav.mk.injEq] at h1
  obtain ⟨e1, e2, e3, e4, e5⟩ := h1
  refine ⟨m3, ?_, by rw [e1, e2, e4, e5]⟩
  rcases C07_valid_cases v.wf h2 with ⟨_, a2⟩ | ⟨_, _, a3⟩
  · simp only at a2; omega
  · simp only at a3; rw [e3] at a3; exact a3

/-- **Coming back restores the line being typed, over a store with holes**: after any sequence of
    Up / Down / first / last steps of the store machine mixed with arbitrary edits of recalled
    entries, started on the line being typed `(b, p)`: the index is `len` or an existing row; whenever
    it is back at `len` the line and cursor are `(b, p)` again, and while an entry is shown the saved
    line is `(b, p)`. -/
theorem C07_return_restores_rows {cfg : EdCfg} {r : RowStore} (v : RowsView cfg r) (n0 : Nav)
    (ops : List NavOp) (h0 : n0.idx = r.len) :
    let n := ops.foldl (navApplyS (storeOf cfg)) n0
    ValidIdx r n.idx ∧ (n.idx = r.len → n.buf = n0.buf ∧ n.pos = n0.pos) ∧
    (n.idx ≠ r.len → n.savedBuf = n0.buf ∧ n.savedPos = n0.pos) := by
  intro n
  obtain ⟨h1, h2⟩ := C07_rows_fold_sim v ops n0 (Or.inl h0)
  have ha : (absNav r n0).idx = cfg.hist.length := by
    simp only [absNav]; rw [h0]; exact C07_posOf_len v.wf
  have hr := C07_return_restores cfg.hist (absNav r n0) ops ha
  simp only at hr
  rw [← h1] at hr
  obtain ⟨_, r2, r3⟩ := hr
  refine ⟨h2, ?_, ?_⟩
  · intro hlen
    have : (absNav r n).idx = cfg.hist.length := by
      simp only [absNav]; rw [hlen]; exact C07_posOf_len v.wf
    exact r2 this
  · intro hne
    rcases C07_valid_cases v.wf h2 with ⟨a1, _⟩ | ⟨_, a2, _⟩
    · exact absurd a1 hne
    · exact r3 a2

/-- **first = enough Ups, on the store machine with holes**: as many Ups as there are existing rows
    below the current index -/
theorem C07_navFirstS_iterate_rows {cfg : EdCfg} {r : RowStore} (v : RowsView cfg r) (n : Nav)
    (hv : ValidIdx r n.idx) :
    navFirstS (storeOf cfg) n = navIter (navPrevS (storeOf cfg)) (posOf r n.idx) n := by
  obtain ⟨f1, f2⟩ := C07_rows_first_sim v n hv
  obtain ⟨i1, i2⟩ := C07_navIter_sim (absNav r) (fun m => ValidIdx r m.idx) _ _
    (fun m hm => C07_rows_prev_sim v m hm) (posOf r n.idx) n hv
  apply C07_absNav_inj v.wf f2 i2
  have hle : posOf r n.idx ≤ cfg.hist.length := by
    rcases C07_valid_cases v.wf hv with ⟨_, a2⟩ | ⟨_, a2, _⟩ <;> omega
  rw [f1, i1, C07_navPrev_iterate cfg.hist (posOf r n.idx) (absNav r n) rfl hle]

/-- **last = enough Downs, on the store machine with holes**: as many Downs as there are existing
    rows at or above the current index -/
theorem C07_navLastS_iterate_rows {cfg : EdCfg} {r : RowStore} (v : RowsView cfg r) (n : Nav)
    (hv : ValidIdx r n.idx) :
    navLastS (storeOf cfg) n = navIter (navNextS (storeOf cfg)) (cfg.hist.length - posOf r n.idx) n := by
  obtain ⟨f1, f2⟩ := C07_rows_last_sim v n hv
  obtain ⟨i1, i2⟩ := C07_navIter_sim (absNav r) (fun m => ValidIdx r m.idx) _ _
    (fun m hm => C07_rows_next_sim v m hm) (cfg.hist.length - posOf r n.idx) n hv
  apply C07_absNav_inj v.wf f2 i2
  have hle : posOf r n.idx ≤ cfg.hist.length := by
    rcases C07_valid_cases v.wf hv with ⟨_, a2⟩ | ⟨_, a2, _⟩ <;> omega
  rw [f1, i1, C07_navNext_iterate cfg.hist _ (absNav r n) (by simp only [absNav]; omega)]

/-! ### the editor model over the SQLite back end -/

theorem C07_storeOK_view {cfg : EdCfg} {r : RowStore} (v : RowsView cfg r) : StoreOK (storeOf cfg) :=
  C07_storeOK_rows cfg r v.rows v.wf.bound

/-- **Up / C-p / k over SQLite history with holes**: from a navigable state on a valid index the
    editor model never panics and, seen through positions, does exactly the declarative step of the
    hole-free machine over the existing entries (`navPrev`); it stays on a valid index.  The three
    theorems below are the same for Down, first and last. -/
theorem C07_prev_refines_rows (S : Segmenter) (U : UData) {cfg : EdCfg} {r : RowStore} (v : RowsView cfg r)
    (hnp : cfg.hinterPanicAt = none) (s : Ed) (h : NavOK cfg s) (hv : ValidIdx r s.histIdx) :
    ∃ s', editHistoryNext S U cfg true s = .ok ((), s') ∧
      absNav r (navOf s') = navPrev cfg.hist (absNav r (navOf s)) ∧ NavOK cfg s' ∧ ValidIdx r s'.histIdx := by
  obtain ⟨s', h1, h2, h3⟩ := C07_prev_refines_store S U cfg hnp (C07_storeOK_view v) s h
  obtain ⟨a1, a2⟩ := C07_rows_prev_sim v (navOf s) hv
  rw [← h2] at a1 a2
  exact ⟨s', h1, a1, h3, a2⟩

theorem C07_next_refines_rows (S : Segmenter) (U : UData) {cfg : EdCfg} {r : RowStore} (v : RowsView cfg r)
    (hnp : cfg.hinterPanicAt = none) (s : Ed) (h : NavOK cfg s) (hv : ValidIdx r s.histIdx) :
    ∃ s', editHistoryNext S U cfg false s = .ok ((), s') ∧
      absNav r (navOf s') = navNext cfg.hist (absNav r (navOf s)) ∧ NavOK cfg s' ∧ ValidIdx r s'.histIdx := by
  obtain ⟨s', h1, h2, h3⟩ := C07_next_refines_store S U cfg hnp (C07_storeOK_view v) s h
  obtain ⟨a1, a2⟩ := C07_rows_next_sim v (navOf s) hv
  rw [← h2] at a1 a2
  exact ⟨s', h1, a1, h3, a2⟩

theorem C07_first_refines_rows (S : Segmenter) (U : UData) {cfg : EdCfg} {r : RowStore} (v : RowsView cfg r)
    (hnp : cfg.hinterPanicAt = none) (s : Ed) (h : NavOK cfg s) (hv : ValidIdx r s.histIdx) :
    ∃ s', editHistory S U cfg true s = .ok ((), s') ∧
      absNav r (navOf s') = navFirst cfg.hist (absNav r (navOf s)) ∧ NavOK cfg s' ∧ ValidIdx r s'.histIdx := by
  obtain ⟨s', h1, h2, h3⟩ := C07_first_refines_store S U cfg hnp (C07_storeOK_view v) s h
  obtain ⟨a1, a2⟩ := C07_rows_first_sim v (navOf s) hv
  rw [← h2] at a1 a2
  exact ⟨s', h1, a1, h3, a2⟩

theorem C07_last_refines_rows (S : Segmenter) (U : UData) {cfg : EdCfg} {r : RowStore} (v : RowsView cfg r)
    (hnp : cfg.hinterPanicAt = none) (s : Ed) (h : NavOK cfg s) (hv : ValidIdx r s.histIdx) :
    ∃ s', editHistory S U cfg false s = .ok ((), s') ∧
      absNav r (navOf s') = navLast cfg.hist (absNav r (navOf s)) ∧ NavOK cfg s' ∧ ValidIdx r s'.histIdx := by
  obtain ⟨s', h1, h2, h3⟩ := C07_last_refines_store S U cfg hnp s h
  obtain ⟨a1, a2⟩ := C07_rows_last_sim v (navOf s) hv
  rw [← h2] at a1 a2
  exact ⟨s', h1, a1, h3, a2⟩

/-- **M-< over SQLite history with holes** behaves like as many Ups (of the store machine the editor
    refines) as there are existing rows below the current one; seen through positions that is
    `navPrev` iterated, as for the default back end (`C07_first_is_iterated_prev`). -/
theorem C07_first_is_iterated_prev_rows (S : Segmenter) (U : UData) {cfg : EdCfg} {r : RowStore}
    (v : RowsView cfg r) (hnp : cfg.hinterPanicAt = none) (s : Ed) (h : NavOK cfg s)
    (hv : ValidIdx r s.histIdx) :
    ∃ s', editHistory S U cfg true s = .ok ((), s') ∧
      navOf s' = navIter (navPrevS (storeOf cfg)) (posOf r s.histIdx) (navOf s) ∧
      absNav r (navOf s') = navIter (navPrev cfg.hist) (posOf r s.histIdx) (absNav r (navOf s)) ∧
      NavOK cfg s' ∧ ValidIdx r s'.histIdx := by
  obtain ⟨s', h1, h2, h3⟩ := C07_first_refines_store S U cfg hnp (C07_storeOK_view v) s h
  have hit := C07_navFirstS_iterate_rows v (navOf s) hv
  obtain ⟨i1, i2⟩ := C07_navIter_sim (absNav r) (fun m => ValidIdx r m.idx) _ _
    (fun m hm => C07_rows_prev_sim v m hm) (posOf r s.histIdx) (navOf s) hv
  have e : navOf s' = navIter (navPrevS (storeOf cfg)) (posOf r s.histIdx) (navOf s) := by
    rw [h2]; exact hit
  refine ⟨s', h1, e, by rw [e]; exact i1, h3, ?_⟩
  have : s'.histIdx = (navOf s').idx := rfl
  rw [this, e]; exact i2

/-- **M-> over SQLite history with holes** behaves like as many Downs as there are existing rows at
    or above the current one. -/
theorem C07_last_is_iterated_next_rows (S : Segmenter) (U : UData) {cfg : EdCfg} {r : RowStore}
    (v : RowsView cfg r) (hnp : cfg.hinterPanicAt = none) (s : Ed) (h : NavOK cfg s)
    (hv : ValidIdx r s.histIdx) :
    ∃ s', editHistory S U cfg false s = .ok ((), s') ∧
      navOf s' = navIter (navNextS (storeOf cfg)) (cfg.hist.length - posOf r s.histIdx) (navOf s) ∧
      absNav r (navOf s') =
        navIter (navNext cfg.hist) (cfg.hist.length - posOf r s.histIdx) (absNav r (navOf s)) ∧
      NavOK cfg s' ∧ ValidIdx r s'.histIdx := by
  obtain ⟨s', h1, h2, h3⟩ := C07_last_refines_store S U cfg hnp s h
  have hit := C07_navLastS_iterate_rows v (navOf s) hv
  obtain ⟨i1, i2⟩ := C07_navIter_sim (absNav r) (fun m => ValidIdx r m.idx) _ _
    (fun m hm => C07_rows_next_sim v m hm) (cfg.hist.length - posOf r s.histIdx) (navOf s) hv
  have e : navOf s' = navIter (navNextS (storeOf cfg)) (cfg.hist.length - posOf r s.histIdx) (navOf s) := by
    rw [h2]; exact hit
  refine ⟨s', h1, e, by rw [e]; exact i1, h3, ?_⟩
  have : s'.histIdx = (navOf s').idx := rfl
  rw [this, e]; exact i2

/-- `k` repetitions of an editor command -/
def edIter (m : EM Unit) : Nat → EM Unit
  | 0 => pure ()
  | k + 1 => m >>= fun _ => edIter m k

/-- a command that refines a step of the navigation machine refines its iterations -/
theorem C07_edIter_refines (m : EM Unit) (f : Nav → Nav) (Inv : Ed → Prop)
    (step : ∀ s, Inv s → ∃ s', m s = .ok ((), s') ∧ navOf s' = f (navOf s) ∧ Inv s') :
    ∀ (k : Nat) (s : Ed), Inv s →
      ∃ s', edIter m k s = .ok ((), s') ∧ navOf s' = navIter f k (navOf s) ∧ Inv s' := by
  intro k
  induction k with
  | zero => intro s hs; exact ⟨s, rfl, rfl, hs⟩
  | succ k ih =>
    intro s hs
    obtain ⟨s1, h1, h2, h3⟩ := step s hs
    obtain ⟨s2, g1, g2, g3⟩ := ih s1 h3
    refine ⟨s2, ?_, by rw [g2, h2, navIter], g3⟩
    show (m >>= fun _ => edIter m k) s = _
    rw [EM.bind_apply, h1]
    exact g1

/-- **k Ups in the editor model over SQLite history with holes**: started on the line being typed
    (`histIdx = len`), `k ≤ number of entries` PreviousHistory commands never panic and end showing the
    `k`-th newest EXISTING entry verbatim, cursor at its end, `histIdx` that row's index, the line
    being typed saved with its cursor. -/
theorem C07_prev_iterate_rows_editor (S : Segmenter) (U : UData) {cfg : EdCfg} {r : RowStore}
    (v : RowsView cfg r) (hnp : cfg.hinterPanicAt = none) (s : Ed) (h : NavOK cfg s) (h0 : s.histIdx = r.len)
    (k : Nat) (e : Text) (hk : 0 < k) (hkl : k ≤ cfg.hist.length) (he : cfg.hist[cfg.hist.length - k]? = some e) :
    ∃ s' j, edIter (editHistoryNext S U cfg true) k s = .ok ((), s') ∧
      r.idx[cfg.hist.length - k]? = some j ∧
      s'.line.buf = e ∧ s'.line.pos = blen e ∧ s'.histIdx = j ∧
      s'.saved.buf = s.line.buf ∧ s'.saved.pos = s.line.pos := by
  obtain ⟨s', h1, h2, _⟩ := C07_edIter_refines (editHistoryNext S U cfg true) (navPrevS (storeOf cfg)) (NavOK cfg)
    (fun s hs => C07_prev_refines_store S U cfg hnp (C07_storeOK_view v) s hs) k s h
  obtain ⟨j, hj, hn⟩ := C07_prev_iterate_rows v (navOf s) h0 k e hk hkl he
  rw [hn] at h2
  simp only [navOf, Nav.mk.injEq] at h2
  obtain ⟨e1, e2, e3, e4, e5⟩ := h2
  exact ⟨s', j, h1, hj, e1, e2, e3, e4, e5⟩

/-- non-vacuity of the corollaries: the example store is a well-formed non-empty view, two Ups from
    the line being typed cross no hole yet, the third one does -/
example : RowsView C07_exCfg ⟨[0, 2, 3], 4⟩ :=
  ⟨rfl, ⟨rfl, by decide, by decide, by decide⟩, by decide⟩

/-- three Ups over the example store end on "1" (row index 0) with the line being typed saved: the
    instance `k = 3` of `C07_prev_iterate_rows` -/
example : navIter (navPrevS (storeOf C07_exCfg)) 3 ⟨['x'], 1, 4, [], 0⟩ = ⟨['1'], 1, 0, ['x'], 1⟩ := by decide

/-- the hypotheses of `C07_rows_simulation_statement` are needed.  `RowsWF.tight` (`len` = last index
    + 1): with one row at index 0 and `len = 3`, Down from that row asks for index 1, finds nothing
    and steps onto the hole, where the hole-free machine returns to the line being typed. -/
example :
    let cfg : EdCfg := { vi := false, hist := [['a']], histRows := some ⟨[0], 3⟩ }
    let n : Nav := ⟨['a'], 1, 0, ['x'], 1⟩
    absNav ⟨[0], 3⟩ (navNextS (storeOf cfg) n) ≠ navNext cfg.hist (absNav ⟨[0], 3⟩ n) := by decide

/-- … and `r.idx ≠ []`: a store without rows whose `len` is not 0 lets Up overwrite the saved line
    (`backup`) although nothing is shown. -/
example :
    let cfg : EdCfg := { vi := false, hist := [], histRows := some ⟨[], 3⟩ }
    let n : Nav := ⟨['x'], 1, 3, [], 0⟩
    absNav ⟨[], 3⟩ (navPrevS (storeOf cfg) n) ≠ navPrev cfg.hist (absNav ⟨[], 3⟩ n) := by decide

/-- the remaining case, an empty SQLite history (`len() = 0`): the four recall steps change nothing -/
theorem C07_rows_empty (cfg : EdCfg) (r : RowStore) (n : Nav) (hr : cfg.histRows = some r) (h0 : r.len = 0) :
    navPrevS (storeOf cfg) n = n ∧ navNextS (storeOf cfg) n = n ∧
    navFirstS (storeOf cfg) n = n ∧ navLastS (storeOf cfg) n = n := by
  have hL : (storeOf cfg).len = 0 := by rw [← h0]; exact Rows.histLen_rows cfg r hr
  simp [navPrevS, navNextS, navFirstS, navLastS, hL]


/-! ### gap filling: the line being typed is a conserved quantity of recall, for arbitrary sequences,
    on the store machine of any back end and on the editor model's own code -/


/-- the line being typed (text, cursor) as the navigation state carries it: the edit line while
    `idx = len`, the saved line while an entry is shown -/
def typedN (H : HStore) (n : Nav) : Text × Nat :=
  if n.idx = H.len then (n.buf, n.pos) else (n.savedBuf, n.savedPos)

/-- **One step keeps the line being typed** (any back end whose `get` answers indices below `len`,
    i.e. `StoreOK`; any index `≤ len`): each of Up / Down / first / last of the store machine — which
    the editor model refines, `C07_*_refines_store` — and any edit of a recalled entry leaves
    `typedN` (text AND cursor of the line being typed) unchanged and keeps the index `≤ len`.  In
    particular first / last from a recalled entry never overwrite the saved line. -/
theorem C07_typed_step_store (H : HStore) (hst : StoreOK H) (n : Nav) (hi : n.idx ≤ H.len) (op : NavOp) :
    typedN H (navApplyS H n op) = typedN H n ∧ (navApplyS H n op).idx ≤ H.len := by
  cases op with
  | prev =>
    simp only [navApplyS, navPrevS]
    by_cases hl : H.len = 0
    · simp only [hl, if_true]; exact ⟨trivial, by omega⟩
    simp only [hl, if_false]
    by_cases h0 : n.idx = 0
    · simp only [h0, if_true]; exact ⟨trivial, by omega⟩
    simp only [h0, if_false]
    have hlt : n.idx - 1 < H.len := by omega
    simp only [hlt, if_true]
    cases hg : H.get (n.idx - 1) .reverse with
    | none =>
      simp only [navSave, typedN]
      by_cases he : n.idx = H.len
      · simp [he]
      · simp [he]; omega
    | some p =>
      obtain ⟨j, e⟩ := p
      have hj := hst _ _ _ _ hg
      have hjn : ¬ j = H.len := by omega
      simp only [navSave, typedN]
      by_cases he : n.idx = H.len
      · simp [he, hjn]; omega
      · simp [he, hjn]; omega
  | next =>
    simp only [navApplyS, navNextS]
    by_cases hl : H.len = 0 ∨ n.idx = H.len
    · simp only [hl, if_true]; exact ⟨trivial, hi⟩
    simp only [hl, if_false]
    have hne : ¬ n.idx = H.len := fun h => hl (Or.inr h)
    by_cases hlt : n.idx + 1 < H.len
    · simp only [hlt, if_true]
      cases hg : H.get (n.idx + 1) .forward with
      | none =>
        have : ¬ n.idx + 1 = H.len := by omega
        simp [typedN, hne, this]; omega
      | some p =>
        obtain ⟨j, e⟩ := p
        have hj := hst _ _ _ _ hg
        have hjn : ¬ j = H.len := by omega
        simp [typedN, hne, hjn]; omega
    · simp only [hlt, if_false]
      have : n.idx + 1 = H.len := by omega
      simp [typedN, hne, this]
  | first =>
    simp only [navApplyS, navFirstS]
    by_cases hl : H.len = 0
    · simp only [hl, if_true]; exact ⟨trivial, by omega⟩
    simp only [hl, if_false]
    by_cases h0 : n.idx = 0
    · simp only [h0, if_true]; exact ⟨trivial, by omega⟩
    simp only [h0, if_false]
    cases hg : H.get 0 .forward with
    | none =>
      simp only [navSave, typedN]
      by_cases he : n.idx = H.len
      · simp [he]
      · simp [he]; omega
    | some p =>
      obtain ⟨j, e⟩ := p
      have hj := hst _ _ _ _ hg
      have hjn : ¬ j = H.len := by omega
      simp only [navSave, typedN]
      by_cases hje : j = n.idx
      · have he : ¬ n.idx = H.len := by omega
        simp [hje, he]; omega
      · by_cases he : n.idx = H.len
        · simp [hje, he, hjn]; omega
        · simp [hje, he, hjn]; omega
  | last =>
    simp only [navApplyS, navLastS]
    by_cases hl : H.len = 0 ∨ n.idx = H.len
    · simp only [hl, if_true]; exact ⟨trivial, hi⟩
    simp only [hl, if_false]
    have hne : ¬ n.idx = H.len := fun h => hl (Or.inr h)
    simp [typedN, hne]
  | edit b p =>
    simp only [navApplyS]
    by_cases hlt : n.idx < H.len
    · have hne : ¬ n.idx = H.len := by omega
      simp [hlt, typedN, hne]; omega
    · simp [hlt]; exact hi

/-- **The line being typed is conserved by ANY sequence** of Up / Down / first / last steps mixed
    with edits of recalled entries, from ANY state with index `≤ len` (not only from the line being
    typed), over any `StoreOK` back end — no `RowsView` well-formedness needed.  Generalises
    `C07_return_restores` / `C07_return_restores_rows`. -/
theorem C07_typed_conserved_store (H : HStore) (hst : StoreOK H) (ops : List NavOp) :
    ∀ (n : Nav), n.idx ≤ H.len →
      typedN H (ops.foldl (navApplyS H) n) = typedN H n ∧ (ops.foldl (navApplyS H) n).idx ≤ H.len := by
  induction ops with
  | nil => intro n hn; exact ⟨rfl, hn⟩
  | cons op rest ih =>
    intro n hn
    obtain ⟨h1, h2⟩ := C07_typed_step_store H hst n hn op
    obtain ⟨h3, h4⟩ := ih _ h2
    simp only [List.foldl_cons]
    exact ⟨by rw [h3, h1], h4⟩

/-- **Going past either end is a no-op**: on the line being typed (`idx = len`) Down and last change
    nothing at all; at index 0 Up and first change nothing at all (shown entry, cursor, index and
    saved line are kept).  Any back end, no hypotheses on the store. -/
theorem C07_past_end_noop_store (H : HStore) (n : Nav) :
    (n.idx = H.len → navNextS H n = n ∧ navLastS H n = n) ∧
    (n.idx = 0 → navPrevS H n = n ∧ navFirstS H n = n) := by
  refine ⟨fun h => ?_, fun h => ?_⟩
  · simp [navNextS, navLastS, h]
  · simp [navPrevS, navFirstS, h]

/-- "the line being typed" of an editor state -/
def typedE (cfg : EdCfg) (s : Ed) : Text × Nat := typedN (storeOf cfg) (navOf s)

/-- what a sequence of editor steps is made of: the four recall commands of the model
    (`editHistoryNext true/false`, `editHistory true/false`), an arbitrary editor command run always
    (`cmd`), and an arbitrary editor command applied only while a recalled entry is shown (`onEntry`,
    the counterpart of `NavOp.edit`) -/
inductive EdNavOp where
  | up | down | first | last
  | onEntry (m : EM Unit)
  | cmd (m : EM Unit)

/-- an editor command that is not a recall command: from a navigable state it returns, stays
    navigable and leaves the history index and the saved line alone (it may change the edit line and
    its cursor in any way).  `C07_navFrame_motion` shows cursor motions through `edit_move` are such. -/
def NavFrameOK (cfg : EdCfg) (m : EM Unit) : Prop :=
  ∀ s, NavOK cfg s → ∃ s', m s = .ok ((), s') ∧ NavOK cfg s' ∧ s'.histIdx = s.histIdx ∧
    s'.saved.buf = s.saved.buf ∧ s'.saved.pos = s.saved.pos

/-- the model code run for one step -/
def edNavStep (S : Segmenter) (U : UData) (cfg : EdCfg) : EdNavOp → EM Unit
  | .up => editHistoryNext S U cfg true
  | .down => editHistoryNext S U cfg false
  | .first => editHistory S U cfg true
  | .last => editHistory S U cfg false
  | .onEntry m => fun s => if s.histIdx = histLen cfg then .ok ((), s) else m s
  | .cmd m => m

/-- the model code run for a sequence of steps (monadic sequencing in `EM`, panics propagate) -/
def edNavRun (S : Segmenter) (U : UData) (cfg : EdCfg) : List EdNavOp → EM Unit
  | [] => pure ()
  | o :: r => edNavStep S U cfg o >>= fun _ => edNavRun S U cfg r

/-- one editor step (hinter that does not panic, `StoreOK` back end, navigable state): never panics,
    stays navigable, and keeps the line being typed unless it is a `cmd` run ON the line being typed -/
theorem C07_editor_typed_step (S : Segmenter) (U : UData) (cfg : EdCfg) (hnp : cfg.hinterPanicAt = none)
    (hst : StoreOK (storeOf cfg)) (o : EdNavOp) (ho : ∀ m, o = .onEntry m ∨ o = .cmd m → NavFrameOK cfg m)
    (s : Ed) (h : NavOK cfg s) :
    ∃ s', edNavStep S U cfg o s = .ok ((), s') ∧ NavOK cfg s' ∧
      ((∀ m, o = .cmd m → s.histIdx ≠ histLen cfg) → typedE cfg s' = typedE cfg s) := by
  have hi : (navOf s).idx ≤ (storeOf cfg).len := h.idx
  cases o with
  | up =>
    obtain ⟨s', h1, h2, h3⟩ := C07_prev_refines_store S U cfg hnp hst s h
    exact ⟨s', h1, h3, fun _ => by unfold typedE; rw [h2]; exact (C07_typed_step_store _ hst _ hi .prev).1⟩
  | down =>
    obtain ⟨s', h1, h2, h3⟩ := C07_next_refines_store S U cfg hnp hst s h
    exact ⟨s', h1, h3, fun _ => by unfold typedE; rw [h2]; exact (C07_typed_step_store _ hst _ hi .next).1⟩
  | first =>
    obtain ⟨s', h1, h2, h3⟩ := C07_first_refines_store S U cfg hnp hst s h
    exact ⟨s', h1, h3, fun _ => by unfold typedE; rw [h2]; exact (C07_typed_step_store _ hst _ hi .first).1⟩
  | last =>
    obtain ⟨s', h1, h2, h3⟩ := C07_last_refines_store S U cfg hnp s h
    exact ⟨s', h1, h3, fun _ => by unfold typedE; rw [h2]; exact (C07_typed_step_store _ hst _ hi .last).1⟩
  | onEntry m =>
    by_cases he : s.histIdx = histLen cfg
    · exact ⟨s, by simp [edNavStep, he], h, fun _ => rfl⟩
    · obtain ⟨s', h1, h2, h3, h4, h5⟩ := ho m (Or.inl rfl) s h
      refine ⟨s', by simp [edNavStep, he, h1], h2, fun _ => ?_⟩
      have he' : ¬ s'.histIdx = histLen cfg := by rw [h3]; exact he
      simp [typedE, typedN, navOf, storeOf, he, he', h4, h5]
  | cmd m =>
    obtain ⟨s', h1, h2, h3, h4, h5⟩ := ho m (Or.inr rfl) s h
    refine ⟨s', h1, h2, fun hc => ?_⟩
    have he : ¬ s.histIdx = histLen cfg := hc m rfl
    have he' : ¬ s'.histIdx = histLen cfg := by rw [h3]; exact he
    simp [typedE, typedN, navOf, storeOf, he, he', h4, h5]

/-- **Editor model, arbitrary sequences**: for every list of Up / Down / first / last commands mixed
    with arbitrary frame-respecting commands applied to recalled entries (cursor motions, edits), run
    by the model's own code from ANY navigable state: no panic, the state stays navigable and the line
    being typed (text and cursor — the edit line when `histIdx = len`, the saved line otherwise) is
    the same at the end as at the start.  Hypotheses: hinter that does not panic; `StoreOK` (holds for
    the default back end, `C07_storeOK_list`, and for SQLite rows, `C07_storeOK_rows`); each
    `onEntry m` in the list satisfies `NavFrameOK`; no unguarded `cmd` (see
    `C07_editor_typed_last_edit` for those). -/
theorem C07_editor_typed_conserved (S : Segmenter) (U : UData) (cfg : EdCfg) (hnp : cfg.hinterPanicAt = none)
    (hst : StoreOK (storeOf cfg)) (ops : List EdNavOp)
    (hops : ∀ m, EdNavOp.onEntry m ∈ ops → NavFrameOK cfg m) (hnc : ∀ m, EdNavOp.cmd m ∉ ops) :
    ∀ (s : Ed), NavOK cfg s →
      ∃ s', edNavRun S U cfg ops s = .ok ((), s') ∧ NavOK cfg s' ∧ typedE cfg s' = typedE cfg s := by
  induction ops with
  | nil => intro s h; exact ⟨s, rfl, h, rfl⟩
  | cons o rest ih =>
    intro s h
    obtain ⟨s1, h1, h2, h3⟩ := C07_editor_typed_step S U cfg hnp hst o
      (fun m hm => by
        rcases hm with hm | hm
        · exact hops m (by rw [hm]; exact List.mem_cons_self)
        · exact absurd (by rw [hm]; exact List.mem_cons_self) (hnc m)) s h
    have h3' := h3 (fun m hm => absurd (by rw [hm]; exact List.mem_cons_self) (hnc m))
    obtain ⟨s2, g1, g2, g3⟩ := ih (fun m hm => hops m (List.mem_cons_of_mem _ hm))
      (fun m hm => hnc m (List.mem_cons_of_mem _ hm)) s1 h2
    refine ⟨s2, ?_, g2, by rw [g3, h3']⟩
    show (edNavStep S U cfg o >>= fun _ => edNavRun S U cfg rest) s = _
    rw [EM.bind_apply, h1]
    exact g1

/-- **Coming back restores the line being typed, in the editor model**: started on the line being
    typed, after any such sequence: if the index is back at `len` the edit line and cursor are exactly
    the initial ones; otherwise the saved line and cursor are. Same hypotheses as
    `C07_editor_typed_conserved`. -/
theorem C07_editor_return_restores (S : Segmenter) (U : UData) (cfg : EdCfg) (hnp : cfg.hinterPanicAt = none)
    (hst : StoreOK (storeOf cfg)) (ops : List EdNavOp)
    (hops : ∀ m, EdNavOp.onEntry m ∈ ops → NavFrameOK cfg m) (hnc : ∀ m, EdNavOp.cmd m ∉ ops)
    (s : Ed) (h : NavOK cfg s) (h0 : s.histIdx = histLen cfg) :
    ∃ s', edNavRun S U cfg ops s = .ok ((), s') ∧ s'.histIdx ≤ histLen cfg ∧
      (s'.histIdx = histLen cfg → s'.line.buf = s.line.buf ∧ s'.line.pos = s.line.pos) ∧
      (s'.histIdx ≠ histLen cfg → s'.saved.buf = s.line.buf ∧ s'.saved.pos = s.line.pos) := by
  obtain ⟨s', h1, h2, h3⟩ := C07_editor_typed_conserved S U cfg hnp hst ops hops hnc s h
  refine ⟨s', h1, h2.idx, fun he => ?_, fun he => ?_⟩
  · simp [typedE, typedN, navOf, storeOf, he, h0] at h3; exact h3
  · simp [typedE, typedN, navOf, storeOf, he, h0] at h3; exact h3

/-- cursor motions run through `edit_move` respect the frame (`MotionOK`: the motion does not fail on
    a cursor inside the text, keeps the text, leaves the cursor inside the text; proved for
    `moveBufferStart` / `moveBufferEnd` in Rl/Lemmas/RecallFrame.lean) -/
theorem C07_navFrame_motion (S : Segmenter) (U : UData) (cfg : EdCfg) (op : LM Bool) (hop : MotionOK op) :
    NavFrameOK cfg (editMove S U cfg op) := by
  intro s h
  obtain ⟨r, l', ns, e1, e2, e3, e4⟩ := hop s.line h.linePos
  obtain ⟨s', g1, g2, g3, g4⟩ := editMove_frame S U cfg e1
  refine ⟨s', g1, ⟨?_, ?_, ?_, ?_, ?_⟩, g4, by rw [g3], by rw [g3]⟩
  · rw [g2, e3]; exact h.lineGrow
  · rw [g3]; exact h.savedGrow
  · rw [g2]; exact e4
  · rw [g3]; exact h.savedPos
  · rw [g4]; exact h.idx

/-- **Captured once, when leaving** (fully general sequences, commands may also run ON the line being
    typed): after any list of recall commands and frame-respecting commands, either the line being
    typed is the initial one, or the list splits at the LAST command `m` that ran on the line being
    typed (`histIdx = len` just before it) and the line being typed at the end is exactly the one that
    command left — whatever entries were visited or edited afterwards. -/
theorem C07_editor_typed_last_edit (S : Segmenter) (U : UData) (cfg : EdCfg) (hnp : cfg.hinterPanicAt = none)
    (hst : StoreOK (storeOf cfg)) (ops : List EdNavOp)
    (hops : ∀ m, EdNavOp.onEntry m ∈ ops ∨ EdNavOp.cmd m ∈ ops → NavFrameOK cfg m) :
    ∀ (s : Ed), NavOK cfg s →
      ∃ s', edNavRun S U cfg ops s = .ok ((), s') ∧ NavOK cfg s' ∧
        (typedE cfg s' = typedE cfg s ∨
          ∃ pre m post s1 s2, ops = pre ++ EdNavOp.cmd m :: post ∧
            edNavRun S U cfg pre s = .ok ((), s1) ∧ s1.histIdx = histLen cfg ∧ m s1 = .ok ((), s2) ∧
            edNavRun S U cfg post s2 = .ok ((), s') ∧ typedE cfg s' = typedE cfg s2) := by
  induction ops with
  | nil => intro s h; exact ⟨s, rfl, h, Or.inl rfl⟩
  | cons o rest ih =>
    intro s h
    obtain ⟨s1, h1, h2, h3⟩ := C07_editor_typed_step S U cfg hnp hst o
      (fun m hm => by
        rcases hm with hm | hm
        · exact hops m (Or.inl (by rw [hm]; exact List.mem_cons_self))
        · exact hops m (Or.inr (by rw [hm]; exact List.mem_cons_self))) s h
    obtain ⟨s2, g1, g2, g3⟩ := ih (fun m hm => hops m (hm.imp (List.mem_cons_of_mem _) (List.mem_cons_of_mem _))) s1 h2
    have hrun : edNavRun S U cfg (o :: rest) s = .ok ((), s2) := by
      show (edNavStep S U cfg o >>= fun _ => edNavRun S U cfg rest) s = _
      rw [EM.bind_apply, h1]; exact g1
    refine ⟨s2, hrun, g2, ?_⟩
    rcases g3 with g3 | ⟨pre, m, post, t1, t2, e1, e2, e3, e4, e5, e6⟩
    · by_cases hc : ∀ m, o = .cmd m → s.histIdx ≠ histLen cfg
      · exact Or.inl (by rw [g3, h3 hc])
      · have : ∃ m, o = .cmd m ∧ s.histIdx = histLen cfg := by
          apply Classical.byContradiction
          intro hn
          exact hc fun m hm he => hn ⟨m, hm, he⟩
        obtain ⟨m, hm, he⟩ := this
        subst hm
        exact Or.inr ⟨[], m, rest, s, s1, rfl, rfl, he, h1, g1, g3⟩
    · refine Or.inr ⟨o :: pre, m, post, t1, t2, by rw [e1]; rfl, ?_, e3, e4, e5, e6⟩
      show (edNavStep S U cfg o >>= fun _ => edNavRun S U cfg pre) s = _
      rw [EM.bind_apply, h1]; exact e2

/-- the four recall steps are what `execute` runs for `PreviousHistory` (C-p), `NextHistory` (C-n),
    `BeginningOfHistory` (M-<), `EndOfHistory` (M->) -/
theorem C07_execute_recall_cmds (S : Segmenter) (U : UData) (cfg : EdCfg) (s : Ed) :
    execute S U cfg .previousHistory s = (edNavStep S U cfg .up >>= fun _ => pure Status.proceed) s ∧
    execute S U cfg .nextHistory s = (edNavStep S U cfg .down >>= fun _ => pure Status.proceed) s ∧
    execute S U cfg .beginningOfHistory s = (edNavStep S U cfg .first >>= fun _ => pure Status.proceed) s ∧
    execute S U cfg .endOfHistory s = (edNavStep S U cfg .last >>= fun _ => pure Status.proceed) s :=
  ⟨rfl, rfl, rfl, rfl⟩

/-- **Up arrow / vi k on the top line recalls**: when no newline precedes the cursor (text `x ++ y`,
    cursor after `x`, `'\n' ∉ x`) `LineUpOrPreviousHistory n` is exactly the Up recall step. -/
theorem C07_arrow_up_recalls_on_top_line (S : Segmenter) (U : UData) (cfg : EdCfg) (n : Nat) (s : Ed)
    (x y : Text) (hb : s.line.buf = x ++ y) (hp : s.line.pos = blen x) (hx : '\n' ∉ x) :
    execute S U cfg (.lineUpOrPreviousHistory n) s =
      (edNavStep S U cfg .up >>= fun _ => pure Status.proceed) s := by
  have hst : sliceTo s.line.buf s.line.pos = .ok x := by rw [hb, hp]; exact sliceTo_mid x y
  have hf : rfindChar '\n' x = none := vm_rfindChar_none hx
  have hm : ∀ pc, LB.moveToLineUp S U n pc s.line = .ok (false, s.line, []) := by
    intro pc
    unfold LB.moveToLineUp
    simp [LM.bind_apply, LM.get, LM.lift, hst, hf]
  show (do
    let pc ← getPromptCol
    if ← lbQuiet (LB.moveToLineUp S U n pc) then moveCursor S U cfg
    else editHistoryNext S U cfg true
    pure Status.proceed : EM Status) s = _
  simp only [EM.bind_apply, getPromptCol, lbQuiet_ok (hm _)]
  rfl

/-- **Down arrow / vi j on the bottom line recalls**: when no newline follows the cursor
    `LineDownOrNextHistory n` is exactly the Down recall step. -/
theorem C07_arrow_down_recalls_on_bottom_line (S : Segmenter) (U : UData) (cfg : EdCfg) (n : Nat) (s : Ed)
    (x y : Text) (hb : s.line.buf = x ++ y) (hp : s.line.pos = blen x) (hy : '\n' ∉ y) :
    execute S U cfg (.lineDownOrNextHistory n) s =
      (edNavStep S U cfg .down >>= fun _ => pure Status.proceed) s := by
  have hsf : sliceFrom s.line.buf s.line.pos = .ok y := by rw [hb, hp]; exact sliceFrom_mid x y
  have hf : findChar '\n' y = none := vm_findChar_none hy
  have hm : ∀ pc, LB.moveToLineDown S U n pc s.line = .ok (false, s.line, []) := by
    intro pc
    unfold LB.moveToLineDown
    simp [LM.bind_apply, LM.get, LM.lift, hsf, hf]
  show (do
    let pc ← getPromptCol
    if ← lbQuiet (LB.moveToLineDown S U n pc) then moveCursor S U cfg
    else editHistoryNext S U cfg false
    pure Status.proceed : EM Status) s = _
  simp only [EM.bind_apply, getPromptCol, lbQuiet_ok (hm _)]
  rfl

/-- the state `readline` starts from is navigable and on the line being typed, so the theorems above
    apply to every read (whatever the history, the kill ring and the input) -/
theorem C07_navOK_initEd (cfg : EdCfg) (ring : KillRing) (input : Input) :
    NavOK cfg (initEd cfg ring input) ∧ (initEd cfg ring input).histIdx = histLen cfg :=
  ⟨⟨rfl, rfl, Nat.le_refl _, Nat.le_refl _, Nat.le_refl _⟩, rfl⟩

/-- non-vacuity: the whole-buffer motions are admissible `onEntry` / `cmd` steps for every configuration -/
example (S : Segmenter) (U : UData) (cfg : EdCfg) :
    NavFrameOK cfg (editMove S U cfg (LB.moveBufferStart S U)) ∧
    NavFrameOK cfg (editMove S U cfg (LB.moveBufferEnd S U)) :=
  ⟨C07_navFrame_motion S U cfg _ (motionOK_moveBufferStart S U),
   C07_navFrame_motion S U cfg _ (motionOK_moveBufferEnd S U)⟩

/-- non-vacuity of `C07_typed_conserved_store` on the SQLite example store with a hole: M-< from the
    line being typed, an edit of the entry, Down over the hole, M-< again from a recalled entry (the
    step a faulty implementation would use to overwrite the saved line), then M->: back on "x", cursor 1 -/
example :
    let H := storeOf C07_exCfg
    let n0 : Nav := ⟨['x'], 1, 4, [], 0⟩
    let n := [NavOp.first, .edit ['q'] 0, .next, .first, .last].foldl (navApplyS H) n0
    StoreOK H ∧ n0.idx ≤ H.len ∧ n = ⟨['x'], 1, 4, ['x'], 1⟩ ∧ typedN H n = (['x'], 1) := by
  refine ⟨C07_storeOK_rows C07_exCfg ⟨[0, 2, 3], 4⟩ rfl (by decide), by decide, by decide, by decide⟩

/-! ### boundary of the conservation theorems: the prefix-search commands -/

/-- one stored entry "x", default back end, emacs mode -/
def C07_searchCfg : EdCfg := { vi := false, hist := [['x']] }

/-- **Finding (outside the property's key list; reachable through a custom binding only):
    `HistorySearchBackward` leaves the line being typed WITHOUT saving it.**  Witness: history ["x"],
    "q" typed (cursor 1, on the line being typed).  `edit_history_search(Reverse)` decrements the
    history index before searching, finds no entry starting with "q", and returns with the index at 0
    while the edit line still shows "q" and `backup` was never called: what counts as the line being
    typed is now the (stale) saved line.  So the conservation theorems above do not extend to the
    prefix-search commands. -/
theorem C07_history_search_drops_typed_line (S : Segmenter) (U : UData) (s : Ed)
    (hl : s.line.buf = ['q']) (hp : s.line.pos = 1) (hi : s.histIdx = 1) :
    editHistorySearch S U C07_searchCfg .reverse s = .ok ((), { s with histIdx := 0 }) ∧
    typedE C07_searchCfg s = (['q'], 1) ∧
    typedE C07_searchCfg { s with histIdx := 0 } = (s.saved.buf, s.saved.pos) := by
  refine ⟨?_, ?_, ?_⟩
  · have hs : sliceTo s.line.buf s.line.pos = .ok ['q'] := by
      rw [hl, hp]; exact sliceTo_mid ['q'] []
    have hm : (memHist C07_searchCfg).startsWith ['q'] 0 .reverse = none := by decide
    unfold editHistorySearch
    have hlen : C07_searchCfg.hist.length = 1 := rfl
    simp [EM.bind_apply, getHistIdx, hi, setHistIdx, EM.modify, getLine, EM.liftP, hs, hm, hlen]
  · simp [typedE, typedN, navOf, storeOf, histLen, C07_searchCfg, hi, hl, hp]
  · simp [typedE, typedN, navOf, storeOf, histLen, C07_searchCfg]

/-- … and the next Down (`NextHistory`) "returns" to the line being typed by restoring that stale
    saved line (the empty line on a fresh read): the typed "q" is gone from the edit line. -/
theorem C07_history_search_then_down_loses_line (S : Segmenter) (U : UData) (s : Ed)
    (h : NavOK C07_searchCfg s) (hl : s.line.buf = ['q']) (hp : s.line.pos = 1) (hi : s.histIdx = 1) :
    ∃ s1 s2, editHistorySearch S U C07_searchCfg .reverse s = .ok ((), s1) ∧
      editHistoryNext S U C07_searchCfg false s1 = .ok ((), s2) ∧
      s2.histIdx = 1 ∧ s2.line.buf = s.saved.buf ∧ s2.line.pos = s.saved.pos := by
  obtain ⟨e1, _, _⟩ := C07_history_search_drops_typed_line S U s hl hp hi
  have hst : StoreOK (storeOf C07_searchCfg) := by
    rw [C07_storeOf_none _ rfl]; exact C07_storeOK_list _
  have h1 : NavOK C07_searchCfg { s with histIdx := 0 } :=
    ⟨h.lineGrow, h.savedGrow, h.linePos, h.savedPos, Nat.zero_le _⟩
  obtain ⟨s2, g1, g2, _⟩ := C07_next_refines_store S U C07_searchCfg rfl hst _ h1
  refine ⟨_, s2, e1, g1, ?_⟩
  have hget : (storeOf C07_searchCfg).len = 1 := rfl
  simp only [navOf, navNextS, hget, Nav.mk.injEq] at g2
  simp at g2
  exact ⟨g2.2.2.1, g2.1, g2.2.1⟩
