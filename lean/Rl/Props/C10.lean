/-
  Property C10 — saving and loading the history file reproduces every entry byte for byte.
  Model: Rl/HistFile.lean (transliteration of `save_to` / `load_from` / `save` / `append` / `load`
  of src/history.rs after the repair of D11: carriage returns are escaped).
  Spec (oracle on the implementation): Rl/Spec/HistFile.lean.  Lemmas: Rl/Lemmas/HistFile.lean.

  `Storable ws max isp idp es` (Rl/Lemmas/HistFile.lean) is "what a history with these settings
  can hold": at most `max` entries, none empty, none starting with a blank if ignore-space, no
  two equal neighbours if ignore-dups.  There is no restriction on the characters.
-/
import Rl.HistFile
import Rl.Lemmas.HistFile
import Rl.Lemmas.HistFileGap
open Rl

/-- The escaping is injective, and an escaped entry contains neither a line feed nor a carriage
    return (so the line reader can neither split it nor strip its end). -/
theorem C10_esc_inj :
    (∀ a b : Text, escEntry a = escEntry b → a = b) ∧
    (∀ e : Text, '\n' ∉ escEntry e ∧ '\r' ∉ escEntry e) ∧
    (∀ e : Text, escEntry e = [] ↔ e = []) := by
  refine ⟨?_, fun e => ⟨esc_no_nl e, esc_no_cr e⟩, fun e => esc_eq_nil⟩
  intro a b h
  have ha := unescChars_esc a
  rw [h, unescChars_esc b] at ha
  exact (Option.some.inj ha).symm

/-- Round trip: the file `save` writes for a storable entry list, loaded into a fresh history
    with the same settings, gives exactly these entries, in order, with status ok, and the
    file is recognised as appendable.  Any characters: line feeds, carriage returns, backslashes,
    `\n` look-alikes, `#V2`, blanks, any Unicode. -/
theorem C10_roundtrip (ws : Char → Bool) (max : Nat) (isp idp : Bool) (es : List Text)
    (hs : Storable ws max isp idp es) :
    (loadFrom ws (atomsOf (fileOf es)) (FileHist.new max isp idp)).status = .ok ∧
    (loadFrom ws (atomsOf (fileOf es)) (FileHist.new max isp idp)).h.mem.entries = es ∧
    (loadFrom ws (atomsOf (fileOf es)) (FileHist.new max isp idp)).appendable = true ∧
    (loadFrom ws (atomsOf (fileOf es)) (FileHist.new max isp idp)).h.newEntries = 0 := by
  have h0 := loadFrom_fileOf ws es hs.nonempty [] (FileHist.new max isp idp)
  rw [List.append_nil] at h0
  have hA := addAll_storable ws es [] (FileHist.new max isp idp) rfl (by simpa [FileHist.new, MemHist.new] using hs)
  rw [h0]
  simp [splitLines, loadLines, hA.1, hA.2.1]

/-- The hypothesis of the round trip is exactly "a history with these settings": whatever lines
    are added, in whatever order, to a fresh history, its entries are storable. -/
theorem C10_storable_reachable (ws : Char → Bool) (max : Nat) (isp idp : Bool) (ls : List Text) :
    Storable ws max isp idp (addAll ws (FileHist.new max isp idp) ls).mem.entries :=
  storable_reachable ws max isp idp ls

/-- Round trip for every reachable history: add any lines to a fresh history, save, load into a
    fresh history with the same settings — the same entries come back. -/
theorem C10_roundtrip_reachable (ws : Char → Bool) (max : Nat) (isp idp : Bool) (ls : List Text) :
    (loadFrom ws (atomsOf (fileOf (addAll ws (FileHist.new max isp idp) ls).mem.entries))
        (FileHist.new max isp idp)).h.mem.entries
      = (addAll ws (FileHist.new max isp idp) ls).mem.entries :=
  (C10_roundtrip ws max isp idp _ (storable_reachable ws max isp idp ls)).2.1

/-- `save` (when there is something new) replaces the file by the header followed by one escaped
    line per entry of the history, oldest first. -/
theorem C10_save_writes (w : World) (hne : w.sess.fh.mem.entries ≠ []) (hn0 : w.sess.fh.newEntries ≠ 0) :
    w.save.2 = .ok ∧ w.save.1.file = some (atomsOf (fileOf w.sess.fh.mem.entries)) ∧
    w.save.1.sess.fh.mem = w.sess.fh.mem := by
  unfold World.save
  simp [hne, hn0]

/-- Appending to a missing file is a save. -/
theorem C10_append_new (ws : Char → Bool) (w : World) (h : w.file = none) :
    w.append ws = w.save := by
  unfold World.append World.save
  simp only [h]
  split <;> rfl

/-- The fast path of `append` adds exactly the lines of the new entries to the file. -/
theorem C10_append_fast (ws : Char → Bool) (w : World) (f : List Atom) (hf : w.file = some f)
    (hne : w.sess.fh.mem.entries ≠ []) (hn0 : w.sess.fh.newEntries ≠ 0)
    (hnm : w.sess.fh.newEntries ≠ w.sess.fh.mem.maxLen) (hc : w.canJustAppend = true) :
    (w.append ws).2 = .ok ∧
    (w.append ws).1.file = some (f ++ atomsOf (linesOf (newOnes w.sess.fh))) ∧
    (w.append ws).1.sess.fh.mem = w.sess.fh.mem := by
  unfold World.append
  simp [hf, hne, hn0, hnm, hc]

/-- Append to an existing file: the old lines followed by the lines of the new entries load as
    the old entries followed by the new ones (within the limit: the combined list is storable). -/
theorem C10_append_old (ws : Char → Bool) (max : Nat) (isp idp : Bool) (es₁ es₂ : List Text)
    (hs : Storable ws max isp idp (es₁ ++ es₂)) :
    (loadFrom ws (atomsOf (fileOf es₁) ++ atomsOf (linesOf es₂)) (FileHist.new max isp idp)).status = .ok ∧
    (loadFrom ws (atomsOf (fileOf es₁) ++ atomsOf (linesOf es₂)) (FileHist.new max isp idp)).h.mem.entries
      = es₁ ++ es₂ := by
  have : atomsOf (fileOf es₁) ++ atomsOf (linesOf es₂) = atomsOf (fileOf (es₁ ++ es₂)) := by
    simp [fileOf, linesOf, atomsOf]
  rw [this]
  exact ⟨(C10_roundtrip ws max isp idp _ hs).1, (C10_roundtrip ws max isp idp _ hs).2.1⟩

/-- The rewrite path of `append` (no usable `path_info`, or the limit would be exceeded): the file
    is re-read, the new entries are added and everything is written again; for a file this
    library wrote and a combined list within the settings, the result is the file of the old
    entries followed by the new ones. -/
theorem C10_append_rewrite (ws : Char → Bool) (w : World) (es₁ : List Text)
    (hf : w.file = some (atomsOf (fileOf es₁)))
    (hne : w.sess.fh.mem.entries ≠ []) (hn0 : w.sess.fh.newEntries ≠ 0)
    (hnm : w.sess.fh.newEntries ≠ w.sess.fh.mem.maxLen) (hc : w.canJustAppend = false)
    (hs : Storable ws w.sess.fh.mem.maxLen w.sess.fh.mem.ignoreSpace w.sess.fh.mem.ignoreDups
            (es₁ ++ newOnes w.sess.fh)) :
    (w.append ws).2 = .ok ∧
    (w.append ws).1.file = some (atomsOf (fileOf (es₁ ++ newOnes w.sess.fh))) ∧
    (w.append ws).1.sess.fh.mem = w.sess.fh.mem := by
  have hs1 : Storable ws w.sess.fh.mem.maxLen w.sess.fh.mem.ignoreSpace w.sess.fh.mem.ignoreDups es₁ := by
    have := hs.take es₁.length
    simpa using this
  have hA := addAll_storable ws es₁ [] (freshHist w.sess.fh) rfl
    (by simpa [freshHist, FileHist.new, MemHist.new] using hs1)
  have hload := loadFrom_fileOf ws es₁ hs1.nonempty [] (freshHist w.sess.fh)
  rw [List.append_nil] at hload
  simp only [splitLines, loadLines] at hload
  obtain ⟨hAe, _, hAmax, hAsp, hAd⟩ := hA
  simp only [List.nil_append] at hAe
  have hcfg : (freshHist w.sess.fh).mem.maxLen = w.sess.fh.mem.maxLen ∧
      (freshHist w.sess.fh).mem.ignoreSpace = w.sess.fh.mem.ignoreSpace ∧
      (freshHist w.sess.fh).mem.ignoreDups = w.sess.fh.mem.ignoreDups := by
    simp [freshHist, FileHist.new, MemHist.new]
  have hB := addAll_storable ws (newOnes w.sess.fh) es₁
    { addAll ws (freshHist w.sess.fh) es₁ with newEntries := 0 } hAe
    (by simp only; rw [hAmax, hAsp, hAd, hcfg.1, hcfg.2.1, hcfg.2.2]; exact hs)
  unfold World.append
  simp only [hf, hload]
  simp [hne, hn0, hnm, hc, hB.1]

/-- Whichever path `append` takes, the file it leaves loads — into a fresh history with the same
    settings — as the old entries followed by the new ones, in order, byte for byte. -/
theorem C10_append_loads (ws : Char → Bool) (w : World) (es₁ : List Text)
    (hf : w.file = some (atomsOf (fileOf es₁)))
    (hne : w.sess.fh.mem.entries ≠ []) (hn0 : w.sess.fh.newEntries ≠ 0)
    (hnm : w.sess.fh.newEntries ≠ w.sess.fh.mem.maxLen)
    (hs : Storable ws w.sess.fh.mem.maxLen w.sess.fh.mem.ignoreSpace w.sess.fh.mem.ignoreDups
            (es₁ ++ newOnes w.sess.fh)) :
    ∃ f, (w.append ws).1.file = some f ∧ (w.append ws).2 = .ok ∧
      (loadFrom ws f (FileHist.new w.sess.fh.mem.maxLen w.sess.fh.mem.ignoreSpace
        w.sess.fh.mem.ignoreDups)).status = .ok ∧
      (loadFrom ws f (FileHist.new w.sess.fh.mem.maxLen w.sess.fh.mem.ignoreSpace
        w.sess.fh.mem.ignoreDups)).h.mem.entries = es₁ ++ newOnes w.sess.fh := by
  cases hc : w.canJustAppend
  · obtain ⟨h1, h2, _⟩ := C10_append_rewrite ws w es₁ hf hne hn0 hnm hc hs
    have := C10_roundtrip ws _ _ _ _ hs
    exact ⟨_, h2, h1, this.1, this.2.1⟩
  · obtain ⟨h1, h2, _⟩ := C10_append_fast ws w _ hf hne hn0 hnm hc
    have := C10_append_old ws _ _ _ es₁ (newOnes w.sess.fh) hs
    exact ⟨_, h2, h1, this.1, this.2⟩

/-- one save/load cycle on the entry list -/
def C10_cycle (ws : Char → Bool) (max : Nat) (isp idp : Bool) (es : List Text) : List Text :=
  (loadFrom ws (atomsOf (fileOf es)) (FileHist.new max isp idp)).h.mem.entries

/-- Any number of save/load cycles is the identity on storable entry lists (and so on the file). -/
theorem C10_cycles (ws : Char → Bool) (max : Nat) (isp idp : Bool) (es : List Text)
    (hs : Storable ws max isp idp es) (k : Nat) :
    Nat.repeat (C10_cycle ws max isp idp) k es = es ∧
    fileOf (Nat.repeat (C10_cycle ws max isp idp) k es) = fileOf es := by
  have h1 : C10_cycle ws max isp idp es = es := (C10_roundtrip ws max isp idp es hs).2.1
  have : Nat.repeat (C10_cycle ws max isp idp) k es = es := by
    induction k with
    | zero => rfl
    | succ k ih => rw [Nat.repeat, ih, h1]
  rw [this]; exact ⟨rfl, rfl⟩

/-- A legacy (header-less) file: every line is handed to `add` verbatim — no unescaping, nothing
    stripped — so every non-empty line is loaded as it is (empty lines are refused by `add`).
    Lines are any texts without line feed that do not end in a carriage return (which would be
    part of a CRLF line ending); the first one is not the version header. -/
theorem C10_legacy (ws : Char → Bool) (ls : List Text) (h : FileHist)
    (hnl : ∀ l ∈ ls, '\n' ∉ l) (hcr : ∀ l ∈ ls, l.getLast? ≠ some '\r')
    (hhd : ls.head? ≠ some header) :
    (loadFrom ws (atomsOf (legacyText ls)) h).status = .ok ∧
    (loadFrom ws (atomsOf (legacyText ls)) h).h.mem = (addAll ws h ls).mem ∧
    (loadFrom ws (atomsOf (legacyText ls)) h).appendable = false := by
  unfold loadFrom
  rw [splitLines_legacy ls hnl]
  cases ls with
  | nil => simp [plainLines, addAll]
  | cons l ls =>
    have hl : l ≠ header := by simpa using hhd
    simp only [plainLines, List.map_cons, decodeLine, lineText_atomsOf, Option.map_some, if_true,
      stripCr_of_getLast (hcr l (by simp)), hl, if_false]
    have := loadLines_legacy ws ls (fun l' h' => hcr l' (by simp [h'])) (h.add ws l).1
    simp only [plainLines] at this
    rw [this]
    simp [addAll]

/-- The same when the last line has no line feed (a file not ending in a line break): that line
    is taken verbatim too — even a trailing carriage return stays, since it is only removed
    together with a line feed. -/
theorem C10_legacy_unterminated (ws : Char → Bool) (ls : List Text) (last : Text) (h : FileHist)
    (hnl : ∀ l ∈ ls, '\n' ∉ l) (hcr : ∀ l ∈ ls, l.getLast? ≠ some '\r')
    (hlast : last ≠ []) (hlnl : '\n' ∉ last)
    (hhd : (ls ++ [last]).head? ≠ some header) :
    (loadFrom ws (atomsOf (legacyText ls) ++ atomsOf last) h).status = .ok ∧
    (loadFrom ws (atomsOf (legacyText ls) ++ atomsOf last) h).h.mem = (addAll ws h (ls ++ [last])).mem := by
  have hsl : splitLines (atomsOf last) = [(atomsOf last, false)] :=
    splitLines_last _ (by rw [mem_atomsOf]; exact hlnl) (by simp [atomsOf, hlast])
  unfold loadFrom
  rw [splitLines_legacy_tail ls hnl, hsl]
  have hemp : last.isEmpty = false := by simp [hlast]
  cases ls with
  | nil =>
    have hl : last ≠ header := by simpa using hhd
    simp [plainLines, decodeLine, lineText_atomsOf, hl, loadLines, addAll]
  | cons l ls =>
    have hl : l ≠ header := by simpa using hhd
    simp only [plainLines, List.map_cons, List.cons_append, decodeLine, lineText_atomsOf, Option.map_some,
      if_true, stripCr_of_getLast (hcr l (by simp)), hl, if_false]
    have := loadLines_legacy_tail ws ls (fun l' h' => hcr l' (by simp [h'])) [(atomsOf last, false)]
      (h.add ws l).1
    simp only [plainLines] at this
    rw [this]
    simp [loadLines, decodeLine, lineText_atomsOf, hemp, addAll, addAll_append]

/-! Non-vacuity and the D11 witnesses (kernel-evaluated): entries ending in a carriage return,
    the entry "\r", an entry that looks like the header, one that looks like an escape. -/
example :
    let es := ["abc\r".toList, "\r".toList, "#V2".toList, "\\n".toList, "x\ny\\z".toList, " é".toList]
    (loadFrom (fun c => c == ' ') (atomsOf (fileOf es)) (FileHist.new 10 false true)).h.mem.entries = es ∧
    fileOf ["a\rb\n\\".toList] = "#V2\na\\rb\\n\\\\\n".toList := by
  decide

/-! ### Gap filling (package S): the byte-indexed reader inverts the writer, normalisation of foreign
    files, append chains, whole save / load sessions -/

/-- The reader's unescape loop — the byte-indexed one of `load_from`, with its `find`, slices and
    index — inverts the writer's escaping on EVERY entry: any mixture of backslashes, line feeds,
    carriage returns, text that looks like an escape (`\n`, `\r`, `\\`), multi-byte characters. -/
theorem C10_unescape_escape (e : Text) : unescape (escEntry e) = some e := by
  rw [unescape_eq, unescChars_esc]; rfl

/-- Load-then-save is a normalisation, and it is idempotent — for ARBITRARY file bytes `f` (foreign,
    legacy, torn, invalid UTF-8), whatever the load's outcome: the entries `es` obtained from `f`,
    once saved, load back as exactly `es` with status ok; hence saving again produces the same
    bytes: `save (load (save (load f))) = save (load f)`. -/
theorem C10_normalise_idempotent (ws : Char → Bool) (max : Nat) (isp idp : Bool) (f : List Atom) :
    let es := (loadFrom ws f (FileHist.new max isp idp)).h.mem.entries
    (loadFrom ws (atomsOf (fileOf es)) (FileHist.new max isp idp)).status = .ok ∧
    (loadFrom ws (atomsOf (fileOf es)) (FileHist.new max isp idp)).h.mem.entries = es ∧
    fileOf (loadFrom ws (atomsOf (fileOf es)) (FileHist.new max isp idp)).h.mem.entries = fileOf es := by
  intro es
  have hs : Storable ws max isp idp es := by
    obtain ⟨added, ha⟩ := loadFrom_only_adds ws f (FileHist.new max isp idp)
    show Storable ws max isp idp (loadFrom ws f (FileHist.new max isp idp)).h.mem.entries
    rw [ha]
    exact storable_reachable ws max isp idp added
  have hr := C10_roundtrip ws max isp idp es hs
  exact ⟨hr.1, hr.2.1, by rw [hr.2.1]⟩

/-- Append after save = save of the concatenation, on the file BYTES, for any number of append
    batches: the file `save` writes for `es`, extended by the lines `append` writes for the batches
    `bs` one after the other, is byte for byte the file `save` writes for `es ++ bs.flatten`.  No
    hypothesis on the entries. -/
theorem C10_append_chain_bytes (es : List Text) (bs : List (List Text)) :
    appendedFile es bs = atomsOf (fileOf (es ++ bs.flatten)) :=
  appendedFile_eq es bs

/-- … and therefore such a file loads as the saved entries followed by all appended ones, in
    order, byte for byte (within the limit: the combined list is storable). -/
theorem C10_append_chain_loads (ws : Char → Bool) (max : Nat) (isp idp : Bool) (es : List Text)
    (bs : List (List Text)) (hs : Storable ws max isp idp (es ++ bs.flatten)) :
    (loadFrom ws (appendedFile es bs) (FileHist.new max isp idp)).status = .ok ∧
    (loadFrom ws (appendedFile es bs) (FileHist.new max isp idp)).h.mem.entries = es ++ bs.flatten := by
  rw [appendedFile_eq]
  exact ⟨(C10_roundtrip ws max isp idp _ hs).1, (C10_roundtrip ws max isp idp _ hs).2.1⟩

/-- The fast path of `FileHistory::append` keeps the file in that shape: if the file is a saved
    list followed by appended batches, then after the call it is the same with the new entries as
    one more batch — i.e. byte for byte what `save` would write for all of them together. -/
theorem C10_append_fast_chain (ws : Char → Bool) (w : World) (es : List Text) (bs : List (List Text))
    (hf : w.file = some (appendedFile es bs))
    (hne : w.sess.fh.mem.entries ≠ []) (hn0 : w.sess.fh.newEntries ≠ 0)
    (hnm : w.sess.fh.newEntries ≠ w.sess.fh.mem.maxLen) (hc : w.canJustAppend = true) :
    (w.append ws).1.file = some (appendedFile es (bs ++ [newOnes w.sess.fh])) ∧
    (w.append ws).1.file = some (atomsOf (fileOf (es ++ bs.flatten ++ newOnes w.sess.fh))) := by
  have h1 := (C10_append_fast ws w _ hf hne hn0 hnm hc).2.1
  have h2 : appendedFile es bs ++ atomsOf (linesOf (newOnes w.sess.fh))
      = appendedFile es (bs ++ [newOnes w.sess.fh]) := by
    simp [appendedFile]
  rw [h1, h2]
  refine ⟨rfl, ?_⟩
  rw [appendedFile_eq]
  simp

/-- A whole session: from any world whose history has something new (any file, stale or not), the
    operation sequence save · load-into-a-fresh-history · dump reports ok, ok and exactly the
    entries of the saving history, in order, byte for byte — whatever they contain. -/
theorem C10_session_roundtrip (ws : Char → Bool) (w : World)
    (hne : w.sess.fh.mem.entries ≠ []) (hn0 : w.sess.fh.newEntries ≠ 0)
    (hs : Storable ws w.sess.fh.mem.maxLen w.sess.fh.mem.ignoreSpace w.sess.fh.mem.ignoreDups
            w.sess.fh.mem.entries) :
    (World.run ws w [.save, .freshLoad, .dump]).2
      = [.status .ok, .status .ok, .all w.sess.fh.mem.entries] := by
  have hr := C10_roundtrip ws _ _ _ _ hs
  simp [World.run, World.step, World.save, World.load, hne, hn0, freshHist, hr.1, hr.2.1, hr.2.2.1]

example :
    let w : World := { sess := { fh := addAll (fun c => c == ' ') (FileHist.new 5 true true)
                                   ["a\r".toList, "\\n".toList, "#V2".toList], pathSize := none },
                       file := some [Atom.bad 255], stale := true }
    w.sess.fh.mem.entries ≠ [] ∧ w.sess.fh.newEntries ≠ 0 ∧ w.sess.fh.mem.entries.length = 3 := by
  decide
