/-
  C16 — the terminal is given back in the state it was found, on every way out.

  Theorems about `Rl.RawMode` (transliteration of `enable_raw_mode` / `disable_raw_mode` /
  `PosixMode` in src/tty/unix.rs and of `Guard` / `readline_with` / the Suspend branch in src/lib.rs,
  after the repair of D27).  They hold for every initial `termios`, every configuration, every number
  of suspend/resume round trips (whatever settings are installed while the process is stopped) and
  every exit except the hang-up, which leaves no terminal to restore (property text; C17).
  Trusted, and observed on a pseudo-terminal by target `raw`: the exits of `readline_edit` are the
  modelled ones, Rust drops a live guard on every way out of its scope, and the kernel stores what
  `tcsetattr` is given.
-/
import Rl.RawMode
import Rl.Lemmas.RawMode
open Rl.RawMode

/-- the guard's mode is always the one `enableRaw` built from the settings found -/
theorem C16_saved_is_exact (cfg : Cfg) (t : Term) (hc : t.connected = true) :
    ∃ m t1, enableRaw cfg t = (some m, t1) ∧ m.termios.intoLibc = t.termios := by
  rw [enableRaw_eq cfg t hc]
  exact ⟨_, _, rfl, rfl⟩

/-- **Every exit flows through the guard's drop**: whatever the script (any number of suspends, any
    exit constructor including unwinding and the `?` after `add_history_entry`), the state the read
    leaves behind is `dropGuard` applied to the state at the end of `readline_edit`. -/
theorem C16_every_exit (cfg : Cfg) (sc : Script) (t : Term) (hc : t.connected = true) :
    ∃ mode t1, enableRaw cfg t = (some mode, t1) ∧
      (readlineWith cfg sc t).2 = dropGuard cfg mode (readlineEdit cfg mode sc.suspends sc.exit t1).2 := by
  rw [enableRaw_eq cfg t hc]
  refine ⟨_, _, rfl, ?_⟩
  unfold readlineWith
  rw [enableRaw_eq cfg t hc]
  simp only
  split
  · rename_i h; simp [h]
  · rename_i h
    split <;> simp [h]

/-- what one whole read leaves behind, in closed form -/
theorem C16_read_closed_form (cfg : Cfg) (sc : Script) (t : Term) (hc : t.connected = true)
    (hx : sc.exit ≠ .hangup) :
    (readlineWith cfg sc t).2.termios = t.termios ∧
    (readlineWith cfg sc t).2.connected = true ∧
    (readlineWith cfg sc t).2.rawFlag = false ∧
    ∃ X, (readlineWith cfg sc t).2.log = t.log ++ X ∧
      switches X = if cfg.paste then
          Eff.pasteOn :: (List.replicate sc.suspends.length [Eff.pasteOff, Eff.pasteOn]).flatten ++ [Eff.pasteOff]
        else [] := by
  obtain ⟨mode, t1, he, hr⟩ := C16_every_exit cfg sc t hc
  rw [enableRaw_eq cfg t hc] at he
  injection he with hm ht1
  injection hm with hm
  subst hm ht1
  rw [hr]
  obtain ⟨hcon, X, hX, hsw⟩ :=
    readlineEdit_inv cfg t.termios sc.suspends sc.exit hx (afterEnable cfg t) rfl
  have hw : ((modeOf cfg t).ttyOut = true → cfg.writeOk = true) := by simp [modeOf, Cfg.paste]
  unfold dropGuard
  rw [show modeOf cfg t = { termios := NixTermios.ofLibc t.termios, ttyOut := cfg.paste } from rfl] at hw ⊢
  rw [disableRaw_eq _ _ _ hcon hw]
  refine ⟨rfl, rfl, rfl, ?_⟩
  simp only [hX]
  refine ⟨_, by rw [afterEnable, List.append_assoc, List.append_assoc], ?_⟩
  rw [switches_append, switches_append, hsw]
  cases hp : cfg.paste <;> simp [switches, roundTrip, NixTermios.ofLibc]

/-- **C16, settings**: for every initial termios, configuration, script and exit other than the
    hang-up, the settings after the read are identical to those before it. -/
theorem C16_restore (cfg : Cfg) (sc : Script) (t : Term) (hc : t.connected = true)
    (hx : sc.exit ≠ .hangup) :
    (readlineWith cfg sc t).2.termios = t.termios :=
  (C16_read_closed_form cfg sc t hc hx).1

/-- the switches written by one read: ON, then OFF/ON per suspend round trip, then OFF — or none -/
theorem C16_paste_switches (cfg : Cfg) (sc : Script) (t : Term) (hc : t.connected = true)
    (hx : sc.exit ≠ .hangup) :
    ∃ X, (readlineWith cfg sc t).2.log = t.log ++ X ∧
      switches X = if cfg.paste then
          Eff.pasteOn :: (List.replicate sc.suspends.length [Eff.pasteOff, Eff.pasteOn]).flatten ++ [Eff.pasteOff]
        else [] :=
  (C16_read_closed_form cfg sc t hc hx).2.2.2

/-- **C16, bracketed paste**: if a paste switch was written during the read, the last one is OFF. -/
theorem C16_paste_off (cfg : Cfg) (sc : Script) (t : Term) (hc : t.connected = true)
    (hx : sc.exit ≠ .hangup) :
    ∃ X, (readlineWith cfg sc t).2.log = t.log ++ X ∧
      (switches X = [] ∨ (switches X).getLast? = some Eff.pasteOff) := by
  obtain ⟨X, hX, hsw⟩ := C16_paste_switches cfg sc t hc hx
  refine ⟨X, hX, ?_⟩
  rw [hsw]
  cases cfg.paste
  · left; rfl
  · right
    exact List.getLast?_concat

/-- paste mode is switched on exactly when configured (and the write goes through) -/
theorem C16_paste_on_iff (cfg : Cfg) (sc : Script) (t : Term) (hc : t.connected = true)
    (hx : sc.exit ≠ .hangup) :
    ∃ X, (readlineWith cfg sc t).2.log = t.log ++ X ∧
      (Eff.pasteOn ∈ X ↔ (cfg.bracketedPaste = true ∧ cfg.writeOk = true)) := by
  obtain ⟨X, hX, hsw⟩ := C16_paste_switches cfg sc t hc hx
  refine ⟨X, hX, ?_⟩
  have hmem : Eff.pasteOn ∈ X ↔ Eff.pasteOn ∈ switches X := by simp [switches]
  rw [hmem, hsw]
  cases hb : cfg.bracketedPaste <;> cases hw : cfg.writeOk <;> simp [Cfg.paste, hb, hw]

/-- **n reads in a row** on one editor leave the settings unchanged (and the terminal usable) -/
theorem C16_successive (cfg : Cfg) (scs : List Script) (hx : ∀ sc ∈ scs, sc.exit ≠ .hangup) :
    ∀ t : Term, t.connected = true →
      (reads cfg scs t).termios = t.termios ∧ (reads cfg scs t).connected = true := by
  induction scs with
  | nil => intro t hc; exact ⟨rfl, hc⟩
  | cons sc rest ih =>
    intro t hc
    have h1 := C16_read_closed_form cfg sc t hc (hx sc (by simp))
    have h2 := ih (fun s hs => hx s (by simp [hs])) (readlineWith cfg sc t).2 h1.2.1
    simp only [reads]
    exact ⟨h2.1.trans h1.1, h2.2⟩

/-- **What raw mode changes is exactly the documented set** (plus the bits the nix wrapper has no
    name for, which it drops while the read is in progress): BRKINT, ICRNL, INPCK, ISTRIP, IXON off;
    CS8 on; ECHO, ICANON, IEXTEN off; ISIG off unless signals are enabled, then on; VMIN = 1,
    VTIME = 0; output flags, line discipline and speeds untouched. -/
theorem C16_raw_flags (cfg : Cfg) (t : Term) (hc : t.connected = true) :
    let d := (enableRaw cfg t).2.termios
    d.iflag = t.termios.iflag &&& ~~~(BRKINT ||| ICRNL ||| INPCK ||| ISTRIP ||| IXON ||| ~~~inputKnown) ∧
    d.oflag = t.termios.oflag &&& outputKnown ∧
    d.cflag = (t.termios.cflag &&& controlKnown) ||| CS8 ∧
    d.lflag = (t.termios.lflag &&& ~~~(ECHO ||| ICANON ||| IEXTEN ||| ISIG ||| ~~~localKnown))
                ||| (if cfg.enableSignals then ISIG else 0) ∧
    d.cc = (t.termios.cc.set VMIN 1).set VTIME 0 ∧
    d.line = t.termios.line ∧ d.ispeed = t.termios.ispeed ∧ d.ospeed = t.termios.ospeed := by
  rw [enableRaw_eq cfg t hc]
  refine ⟨?_, rfl, rfl, ?_, rfl, rfl, rfl, rfl⟩
  · simp only [afterEnable, duringOf, rawOf, NixTermios.getLibc, NixTermios.ofLibc,
      BitVec.not_or, BitVec.not_not, BitVec.and_assoc, BitVec.and_comm inputKnown]
  · simp only [afterEnable, duringOf, rawOf, NixTermios.getLibc, NixTermios.ofLibc]
    cases cfg.enableSignals <;>
      simp [BitVec.not_or, BitVec.not_not, BitVec.and_assoc, BitVec.and_comm localKnown]

/-- …and that is a raw mode: no canonical processing, no echo, one byte at a time -/
theorem C16_raw_is_raw (cfg : Cfg) (t : Term) (hc : t.connected = true) (hcc : 6 < t.termios.cc.length) :
    let d := (enableRaw cfg t).2.termios
    d.lflag &&& (ECHO ||| ICANON ||| IEXTEN) = 0 ∧
    d.iflag &&& (ICRNL ||| IXON ||| ISTRIP) = 0 ∧
    (d.lflag &&& ISIG = 0 ↔ cfg.enableSignals = false) ∧
    d.cc[VMIN]? = some 1 ∧ d.cc[VTIME]? = some 0 := by
  have hr := C16_raw_flags cfg t hc
  simp only at hr
  obtain ⟨hi, _, _, hl, hccs, _⟩ := hr
  simp only
  rw [hi, hl, hccs]
  refine ⟨?_, ?_, ?_, ?_, ?_⟩
  · rw [masked_or_and _ _ _ _ (by decide)]
    cases cfg.enableSignals <;> decide
  · exact masked_and _ _ _ (by decide)
  · rw [masked_or_and _ _ _ _ (by decide)]
    cases cfg.enableSignals <;> decide
  · simp [VMIN, VTIME, hcc]
  · simp [VMIN, VTIME, List.getElem?_set]; omega

/-- D27, the tree before the repair: restoring through nix's typed flag words loses the bits nix has
    no name for.  Witness: a terminal with `IUCLC` set (`stty iuclc`); replayed on the implementation
    as `raw e - 700:…` by the generator of target `raw`. -/
theorem C16_typed_restore_counterexample :
    ∃ t : Term, t.connected = true ∧ ∀ cfg : Cfg,
      ∃ m t1, enableRaw cfg t = (some m, t1) ∧ (disableRawTyped m cfg.writeOk t1).2.termios ≠ t.termios := by
  refine ⟨Term.fresh { iflag := IUCLC, oflag := 0, cflag := 0, lflag := 0, line := 0, cc := [], ispeed := 0, ospeed := 0 },
    rfl, fun cfg => ?_⟩
  rw [enableRaw_eq cfg _ rfl]
  refine ⟨_, _, rfl, ?_⟩
  cases hp : cfg.paste <;> cases hw : cfg.writeOk <;>
    simp [disableRawTyped, Term.setattr, Term.write, Term.fresh, NixTermios.getLibc, NixTermios.ofLibc, hp,
      afterEnable, modeOf, IUCLC, inputKnown]

/-- non-vacuity: a cooked Linux terminal, bracketed paste on, two suspends, a helper panic -/
example :
    let t := Term.fresh { iflag := 0x500, oflag := 0x5, cflag := 0xbf, lflag := 0x8a3b, line := 0,
                          cc := [3, 28, 127, 21, 4, 0, 1, 0, 17, 19, 26, 0, 18, 15, 23, 22], ispeed := 15, ospeed := 15 }
    let r := readlineWith { enableSignals := false, bracketedPaste := true } { suspends := [{}, {}], exit := .helperPanic 2 } t
    r.1 = .unwind ∧ r.2.termios = t.termios ∧
      switches r.2.log = [.pasteOn, .pasteOff, .pasteOn, .pasteOff, .pasteOn, .pasteOff] := by
  decide
