/-
  C16 — the terminal is given back in the state it was found, on every way out.

  Theorems about `Rl.RawMode` (transliteration of `enable_raw_mode` / `disable_raw_mode` /
  `PosixMode` in src/tty/unix.rs and of `Guard` / `readline_with` / the Suspend branch in src/lib.rs,
  after the repair of D27).  They hold for every initial `termios`, every configuration, every number
  of suspend/resume round trips (whatever settings are installed while the process is stopped) and
  every exit except the hang-up, which leaves no terminal to restore (property text; C17).
  Trusted, and observed on a pseudo-terminal by target `raw`: the exits of `readline_edit` are the
  modelled ones, Rust drops a live guard on every way out of its scope, and the kernel stores what
  `tcsetattr` is given.
-/
import Rl.RawMode
import Rl.Lemmas.RawMode
import Rl.Lemmas.RawModeSession
open Rl.RawMode

/-- the guard's mode is always the one `enableRaw` built from the settings found -/
theorem C16_saved_is_exact (cfg : Cfg) (t : Term) (hc : t.connected = true) :
    ∃ m t1, enableRaw cfg t = (some m, t1) ∧ m.termios.intoLibc = t.termios := by
  rw [enableRaw_eq cfg t hc]
  exact ⟨_, _, rfl, rfl⟩

/-- **Every exit flows through the guard's drop**: whatever the script (any number of suspends, any
    exit constructor including unwinding and the `?` after `add_history_entry`), the state the read
    leaves behind is `dropGuard` applied to the state at the end of `readline_edit`. -/
theorem C16_every_exit (cfg : Cfg) (sc : Script) (t : Term) (hc : t.connected = true) :
    ∃ mode t1, enableRaw cfg t = (some mode, t1) ∧
      (readlineWith cfg sc t).2 = dropGuard cfg mode (readlineEdit cfg mode sc.suspends sc.exit t1).2 := by
  rw [enableRaw_eq cfg t hc]
  refine ⟨_, _, rfl, ?_⟩
  unfold readlineWith
  rw [enableRaw_eq cfg t hc]
  simp only
  split
  · rename_i h; simp [h]
  · rename_i h
    split <;> simp [h]

/-- what one whole read leaves behind, in closed form -/
theorem C16_read_closed_form (cfg : Cfg) (sc : Script) (t : Term) (hc : t.connected = true)
    (hx : sc.exit ≠ .hangup) :
    (readlineWith cfg sc t).2.termios = t.termios ∧
    (readlineWith cfg sc t).2.connected = true ∧
    (readlineWith cfg sc t).2.rawFlag = false ∧
    ∃ X, (readlineWith cfg sc t).2.log = t.log ++ X ∧
      switches X = if cfg.paste then
          Eff.pasteOn :: (List.replicate sc.suspends.length [Eff.pasteOff, Eff.pasteOn]).flatten ++ [Eff.pasteOff]
        else [] := by
  obtain ⟨mode, t1, he, hr⟩ := C16_every_exit cfg sc t hc
  rw [enableRaw_eq cfg t hc] at he
  injection he with hm ht1
  injection hm with hm
  subst hm ht1
  rw [hr]
  obtain ⟨hcon, X, hX, hsw⟩ :=
    readlineEdit_inv cfg t.termios sc.suspends sc.exit hx (afterEnable cfg t) rfl
  have hw : ((modeOf cfg t).ttyOut = true → cfg.writeOk = true) := by simp [modeOf, Cfg.paste]
  unfold dropGuard
  rw [show modeOf cfg t = { termios := NixTermios.ofLibc t.termios, ttyOut := cfg.paste } from rfl] at hw ⊢
  rw [disableRaw_eq _ _ _ hcon hw]
  refine ⟨rfl, rfl, rfl, ?_⟩
  simp only [hX]
  refine ⟨_, by rw [afterEnable, List.append_assoc, List.append_assoc], ?_⟩
  rw [switches_append, switches_append, hsw]
  cases hp : cfg.paste <;> simp [switches, roundTrip, NixTermios.ofLibc]

/-- **C16, settings**: for every initial termios, configuration, script and exit other than the
    hang-up, the settings after the read are identical to those before it. -/
theorem C16_restore (cfg : Cfg) (sc : Script) (t : Term) (hc : t.connected = true)
    (hx : sc.exit ≠ .hangup) :
    (readlineWith cfg sc t).2.termios = t.termios :=
  (C16_read_closed_form cfg sc t hc hx).1

/-- the switches written by one read: ON, then OFF/ON per suspend round trip, then OFF — or none -/
theorem C16_paste_switches (cfg : Cfg) (sc : Script) (t : Term) (hc : t.connected = true)
    (hx : sc.exit ≠ .hangup) :
    ∃ X, (readlineWith cfg sc t).2.log = t.log ++ X ∧
      switches X = if cfg.paste then
          Eff.pasteOn :: (List.replicate sc.suspends.length [Eff.pasteOff, Eff.pasteOn]).flatten ++ [Eff.pasteOff]
        else [] :=
  (C16_read_closed_form cfg sc t hc hx).2.2.2

/-- **C16, bracketed paste**: if a paste switch was written during the read, the last one is OFF. -/
theorem C16_paste_off (cfg : Cfg) (sc : Script) (t : Term) (hc : t.connected = true)
    (hx : sc.exit ≠ .hangup) :
    ∃ X, (readlineWith cfg sc t).2.log = t.log ++ X ∧
      (switches X = [] ∨ (switches X).getLast? = some Eff.pasteOff) := by
  obtain ⟨X, hX, hsw⟩ := C16_paste_switches cfg sc t hc hx
  refine ⟨X, hX, ?_⟩
  rw [hsw]
  cases cfg.paste
  · left; rfl
  · right
    exact List.getLast?_concat

/-- paste mode is switched on exactly when configured (and the write goes through) -/
theorem C16_paste_on_iff (cfg : Cfg) (sc : Script) (t : Term) (hc : t.connected = true)
    (hx : sc.exit ≠ .hangup) :
    ∃ X, (readlineWith cfg sc t).2.log = t.log ++ X ∧
      (Eff.pasteOn ∈ X ↔ (cfg.bracketedPaste = true ∧ cfg.writeOk = true)) := by
  obtain ⟨X, hX, hsw⟩ := C16_paste_switches cfg sc t hc hx
  refine ⟨X, hX, ?_⟩
  have hmem : Eff.pasteOn ∈ X ↔ Eff.pasteOn ∈ switches X := by simp [switches]
  rw [hmem, hsw]
  cases hb : cfg.bracketedPaste <;> cases hw : cfg.writeOk <;> simp [Cfg.paste, hb, hw]

/-- **n reads in a row** on one editor leave the settings unchanged (and the terminal usable) -/
theorem C16_successive (cfg : Cfg) (scs : List Script) (hx : ∀ sc ∈ scs, sc.exit ≠ .hangup) :
    ∀ t : Term, t.connected = true →
      (reads cfg scs t).termios = t.termios ∧ (reads cfg scs t).connected = true := by
  induction scs with
  | nil => intro t hc; exact ⟨rfl, hc⟩
  | cons sc rest ih =>
    intro t hc
    have h1 := C16_read_closed_form cfg sc t hc (hx sc (by simp))
    have h2 := ih (fun s hs => hx s (by simp [hs])) (readlineWith cfg sc t).2 h1.2.1
    simp only [reads]
    exact ⟨h2.1.trans h1.1, h2.2⟩

/-- **What raw mode changes is exactly the documented set** (plus the bits the nix wrapper has no
    name for, which it drops while the read is in progress): BRKINT, ICRNL, INPCK, ISTRIP, IXON off;
    CS8 on; ECHO, ICANON, IEXTEN off; ISIG off unless signals are enabled, then on; VMIN = 1,
    VTIME = 0; output flags, line discipline and speeds untouched. -/
theorem C16_raw_flags (cfg : Cfg) (t : Term) (hc : t.connected = true) :
    let d := (enableRaw cfg t).2.termios
    d.iflag = t.termios.iflag &&& ~~~(BRKINT ||| ICRNL ||| INPCK ||| ISTRIP ||| IXON ||| ~~~inputKnown) ∧
    d.oflag = t.termios.oflag &&& outputKnown ∧
    d.cflag = (t.termios.cflag &&& controlKnown) ||| CS8 ∧
    d.lflag = (t.termios.lflag &&& ~~~(ECHO ||| ICANON ||| IEXTEN ||| ISIG ||| ~~~localKnown))
                ||| (if cfg.enableSignals then ISIG else 0) ∧
    d.cc = (t.termios.cc.set VMIN 1).set VTIME 0 ∧
    d.line = t.termios.line ∧ d.ispeed = t.termios.ispeed ∧ d.ospeed = t.termios.ospeed := by
  rw [enableRaw_eq cfg t hc]
  refine ⟨?_, rfl, rfl, ?_, rfl, rfl, rfl, rfl⟩
  · simp only [afterEnable, duringOf, rawOf, NixTermios.getLibc, NixTermios.ofLibc,
      BitVec.not_or, BitVec.not_not, BitVec.and_assoc, BitVec.and_comm inputKnown]
  · simp only [afterEnable, duringOf, rawOf, NixTermios.getLibc, NixTermios.ofLibc]
    cases cfg.enableSignals <;>
      simp [BitVec.not_or, BitVec.not_not, BitVec.and_assoc, BitVec.and_comm localKnown]

/-- …and that is a raw mode: no canonical processing, no echo, one byte at a time -/
theorem C16_raw_is_raw (cfg : Cfg) (t : Term) (hc : t.connected = true) (hcc : 6 < t.termios.cc.length) :
    let d := (enableRaw cfg t).2.termios
    d.lflag &&& (ECHO ||| ICANON ||| IEXTEN) = 0 ∧
    d.iflag &&& (ICRNL ||| IXON ||| ISTRIP) = 0 ∧
    (d.lflag &&& ISIG = 0 ↔ cfg.enableSignals = false) ∧
    d.cc[VMIN]? = some 1 ∧ d.cc[VTIME]? = some 0 := by
  have hr := C16_raw_flags cfg t hc
  simp only at hr
  obtain ⟨hi, _, _, hl, hccs, _⟩ := hr
  simp only
  rw [hi, hl, hccs]
  refine ⟨?_, ?_, ?_, ?_, ?_⟩
  · rw [masked_or_and _ _ _ _ (by decide)]
    cases cfg.enableSignals <;> decide
  · exact masked_and _ _ _ (by decide)
  · rw [masked_or_and _ _ _ _ (by decide)]
    cases cfg.enableSignals <;> decide
  · simp [VMIN, VTIME, hcc]
  · simp [VMIN, VTIME, List.getElem?_set]; omega

/-- D27, the tree before the repair: restoring through nix's typed flag words loses the bits nix has
    no name for.  Witness: a terminal with `IUCLC` set (`stty iuclc`); replayed on the implementation
    as `raw e - 700:…` by the generator of target `raw`. -/
theorem C16_typed_restore_counterexample :
    ∃ t : Term, t.connected = true ∧ ∀ cfg : Cfg,
      ∃ m t1, enableRaw cfg t = (some m, t1) ∧ (disableRawTyped m cfg.writeOk t1).2.termios ≠ t.termios := by
  refine ⟨Term.fresh { iflag := IUCLC, oflag := 0, cflag := 0, lflag := 0, line := 0, cc := [], ispeed := 0, ospeed := 0 },
    rfl, fun cfg => ?_⟩
  rw [enableRaw_eq cfg _ rfl]
  refine ⟨_, _, rfl, ?_⟩
  cases hp : cfg.paste <;> cases hw : cfg.writeOk <;>
    simp [disableRawTyped, Term.setattr, Term.write, Term.fresh, NixTermios.getLibc, NixTermios.ofLibc, hp,
      afterEnable, modeOf, IUCLC, inputKnown]

/-- non-vacuity: a cooked Linux terminal, bracketed paste on, two suspends, a helper panic -/
example :
    let t := Term.fresh { iflag := 0x500, oflag := 0x5, cflag := 0xbf, lflag := 0x8a3b, line := 0,
                          cc := [3, 28, 127, 21, 4, 0, 1, 0, 17, 19, 26, 0, 18, 15, 23, 22], ispeed := 15, ospeed := 15 }
    let r := readlineWith { enableSignals := false, bracketedPaste := true } { suspends := [{}, {}], exit := .helperPanic 2 } t
    r.1 = .unwind ∧ r.2.termios = t.termios ∧
      switches r.2.log = [.pasteOn, .pasteOff, .pasteOn, .pasteOff, .pasteOn, .pasteOff] := by
  decide

/-! ## Gap filling (package T): the guard from any state, nesting, arming, whole sessions -/

/-- **The guard restores from ANY intermediate state.**  Let `m` be the mode a successful
    `enable_raw_mode` returned on a terminal with settings `t.termios` (any settings: every flag
    word, `c_line`, every `c_cc` slot, both speeds).  Then `disable_raw_mode(m)` — the body of the
    guard's drop — run on *any* connected terminal state `t'` whatsoever (whatever the read, a helper,
    a suspended shell or a nested read did to the settings, the log and the raw flag in between) and
    whether or not the paste-off write succeeds (`w`), leaves exactly `t.termios` in force.
    Hypotheses: the enable succeeded; `t'` is still connected. -/
theorem C16_guard_restores_from_any_state (cfg : Cfg) (t t1 : Term) (m : Mode)
    (he : enableRaw cfg t = (some m, t1)) (w : Bool) (t' : Term) (hc' : t'.connected = true) :
    (disableRaw m w t').2.termios = t.termios ∧ (disableRaw m w t').2.connected = true := by
  cases hc : t.connected
  · rw [enableRaw_disconnected cfg t hc] at he; simp at he
  · rw [enableRaw_eq cfg t hc] at he
    injection he with hm _
    injection hm with hm
    subst hm
    exact disableRaw_termios _ w t' hc'

/-- non-vacuity: the state in between has unrelated settings and a cleared raw flag -/
example :
    let t := Term.fresh { iflag := 0x700, oflag := 0x45, cflag := 0xbf, lflag := 0x8a3f, line := 3,
                          cc := [3, 28, 127, 21, 4, 9, 7, 0], ispeed := 13, ospeed := 15 }
    let r := enableRaw { enableSignals := true, bracketedPaste := true } t
    let t' : Term := { r.2 with termios := { t.termios with iflag := 0, cc := [] }, rawFlag := false }
    ∃ m, r.1 = some m ∧ (disableRaw m false t').2.termios = t.termios := by
  decide

/-- **Paste-off is written iff paste-on was written**, at the level of one enable/disable pair and
    for every outcome of the paste-on write: `X` = what the enable wrote, `Y` = what the matching
    disable (explicit, by the guard, or during a suspend) writes on any connected state `t'` when
    its own write goes through.  In particular a paste-on write that failed (`cfg.writeOk = false`)
    or was not configured is never followed by a stray paste-off, and a paste-on that was written is
    always answered. -/
theorem C16_paste_off_iff_on (cfg : Cfg) (t t1 : Term) (m : Mode)
    (he : enableRaw cfg t = (some m, t1)) (t' : Term) (hc' : t'.connected = true) :
    ∃ X Y, t1.log = t.log ++ X ∧ (disableRaw m true t').2.log = t'.log ++ Y ∧
      (Eff.pasteOff ∈ Y ↔ Eff.pasteOn ∈ X) ∧
      (Eff.pasteOn ∈ X ↔ (cfg.bracketedPaste = true ∧ cfg.writeOk = true)) := by
  cases hc : t.connected
  · rw [enableRaw_disconnected cfg t hc] at he; simp at he
  · rw [enableRaw_eq cfg t hc] at he
    injection he with hm ht1
    injection hm with hm
    subst hm ht1
    rw [disableRaw_eq _ true t' hc' (fun _ => rfl)]
    refine ⟨_, _, rfl, rfl, ?_, ?_⟩
    · cases hp : cfg.paste <;> simp [modeOf, hp]
    · cases hb : cfg.bracketedPaste <;> cases hw : cfg.writeOk <;> simp [Cfg.paste, hb, hw]

/-- **No unguarded change**: for every terminal state (connected or not), configuration and script,
    either `enable_raw_mode` returned `Err` and the read left the terminal *completely* untouched
    (same settings, nothing written, flag unchanged) — there is nothing to restore —, or the guard was
    armed on the very state `enable_raw_mode` produced and the read's final state is the guard's drop
    applied to the end of `readline_edit`.  I.e. nothing that can fail lies between the first change
    to the terminal and the arming of the guard.  No hypotheses. -/
theorem C16_guard_armed_or_untouched (cfg : Cfg) (sc : Script) (t : Term) :
    readlineWith cfg sc t = (.ret .io, t) ∨
    ∃ mode t1, enableRaw cfg t = (some mode, t1) ∧
      (readlineWith cfg sc t).2 = dropGuard cfg mode (readlineEdit cfg mode sc.suspends sc.exit t1).2 := by
  cases hc : t.connected
  · left
    unfold readlineWith
    rw [enableRaw_disconnected cfg t hc]
  · right
    exact C16_every_exit cfg sc t hc

/-- a failing `enable_raw_mode` has done nothing to the terminal (all fields of the state equal) -/
theorem C16_enable_error_is_clean (cfg : Cfg) (t t1 : Term) (h : enableRaw cfg t = (none, t1)) :
    t1 = t :=
  enableRaw_none cfg t t1 h

/-- **Nested / repeated enables, dropped innermost first.**  A second `enable_raw_mode` issued while
    the terminal is already raw (from state `t1'`, e.g. the state the first enable left, possibly
    with another configuration) saves the *raw* settings; dropping the inner mode on any connected
    state gives those back, and dropping the outer mode afterwards gives the original settings back.
    The order matters, see `C16_nested_wrong_order`. -/
theorem C16_nested_lifo (cfg1 cfg2 : Cfg) (t t1 t1' t2 : Term) (m1 m2 : Mode)
    (h1 : enableRaw cfg1 t = (some m1, t1)) (h2 : enableRaw cfg2 t1' = (some m2, t2))
    (w1 w2 : Bool) (mid : Term) (hc : mid.connected = true) :
    (disableRaw m2 w2 mid).2.termios = t1'.termios ∧
    (disableRaw m1 w1 (disableRaw m2 w2 mid).2).2.termios = t.termios := by
  have a := C16_guard_restores_from_any_state cfg2 t1' t2 m2 h2 w2 mid hc
  exact ⟨a.1, (C16_guard_restores_from_any_state cfg1 t t1 m1 h1 w1 _ a.2).1⟩

/-- …and dropping the OUTER mode first leaves the terminal raw: the modes are not a counter.  The
    crate itself never does this (the mode of the re-enable after a suspend is discarded, the guard
    keeps the outer one — `C16_restore`); an application nesting two reads on one terminal and
    releasing them out of order would. -/
theorem C16_nested_wrong_order :
    ∃ (cfg : Cfg) (t t1 t2 : Term) (m1 m2 : Mode),
      enableRaw cfg t = (some m1, t1) ∧ enableRaw cfg t1 = (some m2, t2) ∧
      (disableRaw m2 true (disableRaw m1 true t2).2).2.termios ≠ t.termios := by
  refine ⟨{ enableSignals := false, bracketedPaste := false },
    Term.fresh { iflag := 0x500, oflag := 0x5, cflag := 0xbf, lflag := 0x8a3b, line := 0,
                 cc := [3, 28, 127, 21, 4, 0, 1, 0], ispeed := 15, ospeed := 15 },
    _, _, _, _, rfl, rfl, ?_⟩
  decide

/-- the exclusion of the hang-up in `C16_restore` is necessary: after a hang-up the model's settings
    stay raw and the raw flag stays set (there is no terminal left to restore; C17) -/
theorem C16_hangup_is_excluded_for_a_reason :
    ∃ (cfg : Cfg) (t : Term), t.connected = true ∧
      (readlineWith cfg { suspends := [], exit := .hangup } t).2.termios ≠ t.termios ∧
      (readlineWith cfg { suspends := [], exit := .hangup } t).2.rawFlag = true := by
  refine ⟨{ enableSignals := false, bracketedPaste := true },
    Term.fresh { iflag := 0x500, oflag := 0x5, cflag := 0xbf, lflag := 0x8a3b, line := 0,
                 cc := [3, 28, 127, 21, 4, 0, 1, 0], ispeed := 15, ospeed := 15 }, rfl, ?_, ?_⟩ <;> decide

/-- **Whole sessions: successive reads on one editor with the application changing the terminal
    settings (and the editor's configuration) between them.**  `session` runs a list of steps; before
    each read the application may install settings of its own with `tcsetattr` (`Step.app`), each
    read has its own configuration and script.  For every such list in which no read ends by a
    hang-up, from every connected terminal:
    * every single read leaves exactly the settings it found when it started (NOT those of the
      first read, NOT those of the previous one — nothing is cached across reads);
    * hence the settings at the end are the ones the application installed last (`lastSet`);
    * the terminal is still connected, and the raw flag is clear if it was clear at the start;
    * the paste switches written during the whole session are, read by read, `ON (OFF ON)^n OFF`
      (n = suspends of that read) for reads with bracketed paste in effect and nothing otherwise. -/
theorem C16_session (steps : List Step) (hx : ∀ s ∈ steps, s.sc.exit ≠ .hangup) :
    ∀ t : Term, t.connected = true →
      (∀ p ∈ (session steps t).1, p.2 = p.1) ∧
      (session steps t).1.length = steps.length ∧
      (session steps t).2.termios = lastSet steps t.termios ∧
      (session steps t).2.connected = true ∧
      (t.rawFlag = false → (session steps t).2.rawFlag = false) ∧
      ∃ X, (session steps t).2.log = t.log ++ X ∧ switches X = (steps.map pasteBlock).flatten := by
  induction steps with
  | nil => intro t hc; exact ⟨by simp [session], rfl, rfl, hc, id, [], by simp [session], rfl⟩
  | cons s rest ih =>
    intro t hc
    obtain ⟨hac, hat, A, hA, hsA⟩ := appSet_connected s.app t hc
    obtain ⟨h1t, h1c, h1r, X, hX, hsX⟩ :=
      C16_read_closed_form s.cfg s.sc (appSet s.app t) hac (hx s (by simp))
    obtain ⟨i1, i2, i3, i4, i5, Y, hY, hsY⟩ :=
      ih (fun s' hs' => hx s' (by simp [hs'])) (readlineWith s.cfg s.sc (appSet s.app t)).2 h1c
    simp only [session]
    refine ⟨?_, ?_, ?_, i4, fun _ => i5 h1r, A ++ X ++ Y, ?_, ?_⟩
    · intro p hp
      rcases List.mem_cons.mp hp with rfl | hp
      · exact h1t
      · exact i1 p hp
    · simp [i2]
    · rw [i3, h1t, hat]; rfl
    · rw [hY, hX, hA]; simp [List.append_assoc]
    · rw [switches_append, switches_append, hsA, hsX, hsY]
      simp [pasteBlock]

/-- non-vacuity / illustration: cooked terminal, a read; the application switches echo off and
    changes VEOF, a read with another configuration ending in a helper panic; both reads give back
    what they found, the second one the application's settings. -/
example :
    let tm : Termios := { iflag := 0x500, oflag := 0x5, cflag := 0xbf, lflag := 0x8a3b, line := 0,
                          cc := [3, 28, 127, 21, 4, 0, 1, 0, 17, 19, 26], ispeed := 15, ospeed := 15 }
    let tm2 : Termios := { tm with lflag := 0x8a33, cc := [3, 28, 127, 21, 9, 0, 1, 0, 17, 19, 26] }
    let r := session
      [{ cfg := { enableSignals := false, bracketedPaste := true }, sc := { suspends := [], exit := .line } },
       { app := some tm2, cfg := { enableSignals := true, bracketedPaste := false },
         sc := { suspends := [{}], exit := .helperPanic 1 } }] (Term.fresh tm)
    r.1 = [(tm, tm), (tm2, tm2)] ∧ r.2.termios = tm2 ∧ switches r.2.log = [.pasteOn, .pasteOff] := by
  decide

/-- **Sessions, settings only** (the statement a user relies on): each read of a session returns
    the terminal with the settings in force when that read began. -/
theorem C16_session_each_read_restores (steps : List Step) (hx : ∀ s ∈ steps, s.sc.exit ≠ .hangup)
    (t : Term) (hc : t.connected = true) :
    (∀ p ∈ (session steps t).1, p.2 = p.1) ∧ (session steps t).2.termios = lastSet steps t.termios :=
  ⟨(C16_session steps hx t hc).1, (C16_session steps hx t hc).2.2.1⟩

/-- **Sessions, bracketed paste**: over a whole session (any exits but the hang-up, any number of
    suspends, configuration changing between reads, application `tcsetattr`s in between) as many
    paste-off switches are written as paste-on switches, one is written iff the other is, and if any
    was written the last one is paste-off. -/
theorem C16_session_paste_balanced (steps : List Step) (hx : ∀ s ∈ steps, s.sc.exit ≠ .hangup)
    (t : Term) (hc : t.connected = true) :
    ∃ X, (session steps t).2.log = t.log ++ X ∧
      X.count Eff.pasteOn = X.count Eff.pasteOff ∧
      (Eff.pasteOff ∈ X ↔ Eff.pasteOn ∈ X) ∧
      (switches X = [] ∨ (switches X).getLast? = some Eff.pasteOff) := by
  obtain ⟨_, _, _, _, _, X, hX, hs⟩ := C16_session steps hx t hc
  have hcnt : ∀ e, (e = Eff.pasteOn ∨ e = Eff.pasteOff) → X.count e = (switches X).count e := by
    intro e he
    rw [switches, List.count_filter]
    rcases he with rfl | rfl <;> rfl
  have hbal := blocks_balanced steps
  have hlast := blocks_last steps
  have h1 : X.count Eff.pasteOn = X.count Eff.pasteOff := by
    rw [hcnt _ (Or.inl rfl), hcnt _ (Or.inr rfl), hs, hbal]
  refine ⟨X, hX, h1, ?_, hs ▸ hlast⟩
  rw [← List.count_pos_iff, ← List.count_pos_iff, h1]

/-- **The restore neither swallows nor alters the outcome of the read.**  On a connected terminal,
    for every configuration, every number of suspend/resume round trips and every exit kind: the
    read returns what `readline_edit` ended with (Enter → the line, C-d → `Eof`, C-c → `Interrupted`,
    undecodable input → `InvalidData`, I/O error → `Io`, helper/validator error → that error), a
    helper panic goes on unwinding after the guard has run, and the only substitution is the
    documented one: `Err` from `add_history_entry` under `auto_add_history` replaces an accepted line.
    Together with `C16_restore`: the caller sees the same result as without raw mode handling, and
    the terminal as it was. -/
theorem C16_outcome_preserved (cfg : Cfg) (sc : Script) (t : Term) (hc : t.connected = true) :
    (readlineWith cfg sc t).1 =
      match exitFlow sc.exit with
      | .unwind => .unwind
      | .ret u => if cfg.autoAddHistory && u == .line && cfg.historyAddFails then .ret .historyErr else .ret u := by
  have hf := readlineEdit_flow cfg t.termios sc.suspends sc.exit (afterEnable cfg t) rfl
  unfold readlineWith
  rw [enableRaw_eq cfg t hc]
  simp only
  rw [show modeOf cfg t = { termios := NixTermios.ofLibc t.termios, ttyOut := cfg.paste } from rfl]
  generalize readlineEdit cfg _ sc.suspends sc.exit (afterEnable cfg t) = r at hf
  obtain ⟨f, t2⟩ := r
  simp only at hf
  subst hf
  cases exitFlow sc.exit with
  | unwind => rfl
  | ret u => simp only; split <;> simp_all

/-- a helper panic at any call, after any number of suspends, from any connected terminal: the
    panic propagates to the caller AND the settings are the ones found -/
theorem C16_panic_propagates_and_restores (cfg : Cfg) (ss : List Suspend) (k : Nat) (t : Term)
    (hc : t.connected = true) :
    (readlineWith cfg { suspends := ss, exit := .helperPanic k } t).1 = .unwind ∧
    (readlineWith cfg { suspends := ss, exit := .helperPanic k } t).2.termios = t.termios :=
  ⟨by rw [C16_outcome_preserved cfg _ t hc]; rfl, C16_restore cfg _ t hc (by simp)⟩

/-- **Ctrl-Z is an exit too: while the process is stopped the shell has the terminal as it was
    found.**  Let `mode` be what `enable_raw_mode` returned at the start of the read on settings
    `t0.termios`.  Whenever the Suspend branch runs — from any connected state `t` the read may be
    in, i.e. at every stop of every sequence of suspends — the state `tstop` in which the process is
    stopped has exactly the settings found before the read, the raw flag cleared, and (if paste mode
    had been switched on) a paste-off as the last thing written; the resume then is a fresh
    `enable_raw_mode` on whatever the shell left (`s.env`), whose new saved mode is discarded, so the
    guard still holds the settings from before the read. -/
theorem C16_suspend_gives_back (cfg : Cfg) (t0 t1 : Term) (mode : Mode)
    (he : enableRaw cfg t0 = (some mode, t1)) (s : Suspend) (t : Term) (hc : t.connected = true) :
    ∃ tstop, disableRaw mode cfg.writeOk t = (true, tstop) ∧
      tstop.termios = t0.termios ∧ tstop.rawFlag = false ∧ tstop.connected = true ∧
      (Eff.pasteOn ∈ t1.log.drop t0.log.length → tstop.log.getLast? = some Eff.pasteOff) ∧
      (suspendResume cfg mode s t).2 =
        (enableRaw cfg (match s.env with | some v => { tstop with termios := v } | none => tstop)).2 := by
  cases hc0 : t0.connected
  · rw [enableRaw_disconnected cfg t0 hc0] at he; simp at he
  · rw [enableRaw_eq cfg t0 hc0] at he
    injection he with hm ht1
    injection hm with hm
    subst hm ht1
    have hw : (modeOf cfg t0).ttyOut = true → cfg.writeOk = true := by simp [modeOf, Cfg.paste]
    refine ⟨_, disableRaw_eq _ _ t hc hw, rfl, rfl, rfl, ?_, ?_⟩
    · cases hp : cfg.paste <;> simp [afterEnable, modeOf, hp]
    · unfold suspendResume
      rw [disableRaw_eq _ _ t hc hw]
      cases he : s.env <;> simp [enableRaw_eq]
