/-
  C04 — motions and kills cover exactly the grapheme, word, line or search range named.

  Theorems relate the model (`Rl/LineBuffer.lean`, tied to the code by `./check C04`) to the
  declarative spec (`Rl/Spec/Motion.lean`, the oracle that `./check C04` evaluates on the
  implementation), for every lawful segmenter.
-/
import Rl.LineBuffer
import Rl.Spec.Motion
import Rl.Lemmas.Motion
open Rl Rl.Spec

/-- Character motion forward moves by whole clusters: `next_pos(n)` is exactly the declarative
    target `pos + off (min n |gs|)`. -/
theorem C04_char_motion_fwd (S : Segmenter) (lb : LB) (n : Nat) (h : WF lb) (hne : lb.pos ≠ lb.len)
    (hn : n ≠ 0) : LB.nextPos S lb n = .ok (charTargetFwd S lb.buf lb.pos n) :=
  nextPos_eq_target S lb n h hne hn

/-- `move_forward(n)` lands on the declarative character target. -/
theorem C04_moveForward_target (S : Segmenter) (U : UData) (lb lb' : LB) (n : Nat) (r : Bool)
    (ns : List Notif) (h : WF lb) (hne : lb.pos ≠ lb.len) (hn : n ≠ 0)
    (hrun : LB.moveForward S U n lb = .ok (r, lb', ns)) :
    some lb'.pos = charTargetFwd S lb.buf lb.pos n := by
  have ht := C04_char_motion_fwd S lb n h hne hn
  unfold LB.moveForward at hrun
  simp only [LM.bind_apply, LM.ro, ht] at hrun
  cases hc : charTargetFwd S lb.buf lb.pos n with
  | none =>
    -- impossible: the target exists from a well-formed state
    obtain ⟨x, s, hb, hp⟩ := h.split
    simp [charTargetFwd, splitAt?, hb, hp, splitAtByte_append] at hc
  | some p =>
    simp [hc, LM.setPos] at hrun
    obtain ⟨_, rfl, _⟩ := hrun
    rfl

/-- Character motion backward moves by whole clusters. -/
theorem C04_char_motion_bwd (S : Segmenter) (lb : LB) (n : Nat) (h : WF lb) (hne : lb.pos ≠ 0)
    (hn : n ≠ 0) : LB.prevPos S lb n = .ok (charTargetBwd S lb.buf lb.pos n) :=
  prevPos_eq_target S lb n h hne hn

/-- Word motion / kill target, `At::Start` (w, W, M-f-style starts; after the D9 repair): the model's
    two-iterator loop returns exactly the declarative target — the n-th word start after the cursor,
    else the text end (`range = false`: cursor motion; `range = true`: kill/copy range). -/
theorem C04_word_target_start (S : Segmenter) (U : UData) (lb : LB) (d : Word) (n : Nat) (range : Bool)
    (h : WF lb) (hn : n ≠ 0) :
    LB.nextWordPosR S U lb lb.pos .start d n range =
      .ok (wordTargetFwd S U lb.buf lb.pos .start d n (!range)) :=
  nextWordPosR_start S U lb d n range h hn

/-- Word motion / kill target, `At::AfterEnd` (M-f, M-d, de, dE): the model's
    two-iterator loop returns exactly the declarative target — the n-th word end after the cursor,
    else the text end (`range = false`: cursor motion; `range = true`: kill/copy range). -/
theorem C04_word_target_afterEnd (S : Segmenter) (U : UData) (lb : LB) (d : Word) (n : Nat) (range : Bool)
    (h : WF lb) (hn : n ≠ 0) :
    LB.nextWordPosR S U lb lb.pos .afterEnd d n range =
      .ok (wordTargetFwd S U lb.buf lb.pos .afterEnd d n (!range)) :=
  nextWordPosR_afterEnd S U lb d n range h hn

/-- Backward word target (M-b, b, B, C-w-style kills; after the D9 repair): `prev_word_pos` returns the
    n-th word start before the cursor, or the text start when there are fewer. -/
theorem C04_word_target_prev (S : Segmenter) (U : UData) (lb : LB) (d : Word) (n : Nat) (h : WF lb) (hn : n ≠ 0) :
    LB.prevWordPos S U lb lb.pos d n = .ok (wordTargetBwd S U lb.buf lb.pos d n) :=
  prevWordPos_eq S U lb d n h hn

/-- A forward word kill (dw, dW, M-d, de …) removes exactly the text between the cursor and the
    declarative target, reports exactly that text, and leaves the cursor where it was. -/
theorem C04_deleteWord_is_span (S : Segmenter) (U : UData) (a : At) (d : Word) (n : Nat) (lb : LB)
    (h : WF lb) (ha : a ≠ .beforeEnd) (hn : n ≠ 0) (t : Nat)
    (ht : wordTargetFwd S U lb.buf lb.pos a d n false = some t) :
    ∃ x y z, lb.buf = x ++ y ++ z ∧ lb.pos = blen x ∧ t = blen x + blen y ∧
      LB.deleteWord S U a d n lb = .ok (true, { lb with buf := x ++ z }, [.del lb.pos y .forward]) := by
  have hr := nextWordPosR_target S U lb a d n true h ha hn
  simp only [Bool.not_true] at hr
  rw [ht] at hr
  obtain ⟨hb, hle⟩ := wordTargetFwd_boundary S U lb a d n false h t ht
  obtain ⟨x, y, z, hd, hbuf, hx, hy⟩ := drain_ok .forward h hb hle
  refine ⟨x, y, z, hbuf, hx, hy, ?_⟩
  unfold LB.deleteWord
  simp [LM.bind_apply, LM.ro, hr, LM.get, hd]

/-- A backward word kill (C-w, M-DEL, db, dB) removes exactly the text between the declarative target
    and the cursor, reports it, and puts the cursor on the target. -/
theorem C04_deletePrevWord_is_span (S : Segmenter) (U : UData) (d : Word) (n : Nat) (lb : LB)
    (h : WF lb) (hn : n ≠ 0) (t : Nat) (ht : wordTargetBwd S U lb.buf lb.pos d n = some t) :
    ∃ x y z, lb.buf = x ++ y ++ z ∧ t = blen x ∧ lb.pos = blen x + blen y ∧
      LB.deletePrevWord S U d n lb = .ok (true, { lb with buf := x ++ z, pos := t }, [.del t y .backward]) := by
  have hr := prevWordPos_eq S U lb d n h hn
  rw [ht] at hr
  obtain ⟨hb, hle⟩ := wordTargetBwd_boundary S U lb d n h t ht
  obtain ⟨x, y, z, hd, hbuf, hx, hy⟩ := drain_ok .backward hb h hle
  refine ⟨x, y, z, hbuf, hx, hy, ?_⟩
  unfold LB.deletePrevWord
  simp [LM.bind_apply, LM.ro, hr, LM.get, hd, LM.setPos]

/-- A forward word copy (yw, ye, M-w-style) returns exactly the text between the cursor and the target. -/
theorem C04_copy_word_is_span (S : Segmenter) (U : UData) (a : At) (d : Word) (n : Nat) (lb : LB)
    (h : WF lb) (ha : a ≠ .beforeEnd) (hn : n ≠ 0) (hne : lb.buf ≠ []) (t : Nat)
    (ht : wordTargetFwd S U lb.buf lb.pos a d n false = some t) :
    ∃ x y z, lb.buf = x ++ y ++ z ∧ lb.pos = blen x ∧ t = blen x + blen y ∧
      LB.copy S U lb (.forwardWord n a d) = .ok (some y) := by
  have hr := nextWordPosR_target S U lb a d n true h ha hn
  simp only [Bool.not_true] at hr
  rw [ht] at hr
  obtain ⟨hb, hle⟩ := wordTargetFwd_boundary S U lb a d n false h t ht
  obtain ⟨x, y, z, hs, hbuf, hx, hy⟩ := split3_of_boundaries h hb hle
  refine ⟨x, y, z, hbuf, hx, hy, ?_⟩
  have hemp : lb.buf.isEmpty = false := by simpa using hne
  unfold LB.copy
  simp [hemp, hr, slice, hs, bind, Except.bind, pure, Except.pure]

/-- Line motions respect line breaks: `move_home` / `move_end` go to the declarative line start / end. -/
theorem C04_line_home_end (lb : LB) (h : WF lb) :
    LB.startOfLine lb = .ok (lineStartOf lb.buf lb.pos) ∧ LB.endOfLine lb = .ok (lineEndOf lb.buf lb.pos) := by
  obtain ⟨x, s, hb, hp⟩ := h.split
  have hsp : splitAtByte lb.buf lb.pos = some (x, s) := by rw [hb, hp]; exact splitAtByte_append x s
  have hsf : sliceFrom lb.buf lb.pos = .ok s := by rw [hb, hp]; exact sliceFrom_mid x s
  have hst : sliceTo lb.buf lb.pos = .ok x := by rw [hb, hp]; exact sliceTo_mid x s
  constructor
  · unfold LB.startOfLine lineStartOf splitAt?
    simp only [hst, hsp, bind, Except.bind, pure, Except.pure]
    cases rfindChar '\n' x <;> rfl
  · unfold LB.endOfLine lineEndOf splitAt?
    simp only [hsf, hsp, bind, Except.bind, pure, Except.pure]
    cases findChar '\n' s with
    | none => rfl
    | some k => simp [Nat.add_comm]

/-! ### what is NOT true of the current tree -/

/-- FULL statement "a kill with a given movement removes exactly the span the movement names" for
    every movement, phrased with the executable oracle of `./check C04`. Not a theorem on the current
    tree: `kill(ViFirstPrint)` is a no-op (known finding F-C04-vi-first-print); proved above for
    forward/backward word movements (`C04_deleteWord_is_span`, `C04_deletePrevWord_is_span`). -/
def C04_kill_is_span_statement : Prop :=
  ∀ (S : Segmenter) (U : UData) (lb lb' : LB) (mvt : Movement) (r : Bool) (ns : List Notif), WF lb →
    LB.kill S U mvt lb = .ok (r, lb', ns) → checkKill S U lb mvt lb'.buf lb'.pos ns = none

/-- FULL statement for copies (same remark; proved for forward word movements: `C04_copy_word_is_span`) -/
def C04_copy_is_span_statement : Prop :=
  ∀ (S : Segmenter) (U : UData) (lb : LB) (mvt : Movement) (r : Option Text), WF lb →
    LB.copy S U lb mvt = .ok r → checkCopy S U lb mvt (.optText r) = none

/-- FULL statement for character searches (model target = declarative target); not yet proved -/
def C04_char_search_statement : Prop :=
  ∀ (S : Segmenter) (lb : LB) (cs : CharSearch) (n : Nat) (t : Nat), WF lb → n ≠ 0 →
    charSearchTarget S lb.buf lb.pos cs n = some t → LB.searchCharPos S lb cs n = .ok (some t)



/-- a small concrete Unicode-data record for counter-examples -/
def C04_exU : UData := ⟨fun c => c.isAlphanum, fun c => c == ' ', fun c => [c], fun c => [c], fun t => t.length⟩

/-- FULL statement for `At::BeforeEnd` (vi `e` / `E`), not a theorem on the current tree -/
def C04_word_target_beforeEnd_statement : Prop :=
  ∀ (S : Segmenter) (U : UData) (lb : LB) (d : Word) (n : Nat), WF lb → n ≠ 0 → d ≠ .emacs →
    LB.nextWordPos S U lb lb.pos .beforeEnd d n = .ok (wordTargetFwd S U lb.buf lb.pos .beforeEnd d n true)

theorem C04_word_target_beforeEnd_counterexample : ¬ C04_word_target_beforeEnd_statement := by
  intro h
  have := h charSeg C04_exU ⟨['a', ',', 'a'], 0, 16, false⟩ .vi 2 (isBoundary_zero _) (by decide) (by decide)
  have e1 : LB.nextWordPos charSeg C04_exU ⟨['a', ',', 'a'], 0, 16, false⟩ 0 .beforeEnd .vi 2 = .ok none := by rfl
  have e2 : wordTargetFwd charSeg C04_exU ['a', ',', 'a'] 0 .beforeEnd .vi 2 true = some 2 := by rfl
  rw [e1, e2] at this
  simp at this

/-! ### non-vacuity -/

example : wordTargetFwd charSeg C04_exU ['a', ',', 'b', 'c'] 0 .start .vi 2 true = some 2 := by rfl
example : LB.nextWordPos charSeg C04_exU ⟨['a', ',', 'b', 'c'], 0, 16, false⟩ 0 .start .vi 2 = .ok (some 2) := by rfl
example : wordTargetBwd charSeg C04_exU ['a', ',', 'b', 'c'] 4 .vi 2 = some 1 := by rfl
